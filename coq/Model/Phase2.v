(* probe: bit-exact PrimFloat model of pulsarbat.pulsar.phase.day_frac (no factor / divisor, and factor) *)
From Coq Require Import ZArith Bool PrimFloat Uint63 SpecFloat FloatOps List.
Import ListNotations.
Open Scope bool_scope. Open Scope float_scope.

Definition two_sum (a b : float) : float * float :=
  let x := a + b in
  let eb := x - a in
  let ea := x - eb in
  let eb := b - eb in
  let ea := a - ea in
  (x, ea + eb).

Definition split (a : float) : float * float :=
  let c := 134217729 * a in
  let abig := c - a in
  let ah := c - abig in
  let al := a - ah in
  (ah, al).

Definition two_product (a b : float) : float * float :=
  let x := a * b in
  let '(ah, al) := split a in
  let '(bh, bl) := split b in
  let y1 := ah * bh in
  let y := x - y1 in
  let y2 := al * bh in
  let y := y - y2 in
  let y3 := ah * bl in
  let y := y - y3 in
  let y4 := al * bl in
  let y := y4 - y in
  (x, y).

Definition two52 : float := 4503599627370496.
(* floor for binary64 using only +,-,compare: |x| < 2^52 -> round to nearest integer via the 2^52 trick, then correct *)
Definition ffloor (x : float) : float :=
  let a := abs x in
  if a <? two52 then
    let r := (a + two52) - two52 in
    if 0 <=? x then (if r <=? a then r else r - 1)
    else (if a <=? r then - r else - (r + 1))
  else x.

(* the closing step of day_frac: the last rounding can leave the fraction one ulp beyond +-0.5; it is folded back, exactly:
     excess = np.where(frac > 0.5, 1.0, np.where(frac < -0.5, -1.0, 0.0)); day += excess; frac -= excess *)
Definition fold_half (day frac : float) : float * float :=
  let excess := if 0.5 <? frac then 1 else if frac <? - 0.5 then - 1 else 0 in
  (day + excess, frac - excess).

Definition day_frac0 (val1 val2 : float) : float * float :=
  let '(sum12, err12) := two_sum val1 val2 in
  let day := ffloor (sum12 + 0.5) in
  let '(extra, frac) := two_sum sum12 (- day) in
  let frac := frac + (extra + err12) in
  let excess := ffloor (frac + 0.5) in
  let day := day + excess in
  let '(extra, frac) := two_sum sum12 (- day) in
  let frac := frac + (extra + err12) in
  (day, frac).

Definition day_frac (val1 val2 : float) : float * float := let '(d, f) := day_frac0 val1 val2 in fold_half d f.

Definition day_frac_factor0 (val1 val2 factor : float) : float * float :=
  let '(sum12, err12) := two_sum val1 val2 in
  let '(sum12, carry) := two_product sum12 factor in
  let carry := carry + err12 * factor in
  let '(sum12, err12) := two_sum sum12 carry in
  let day := ffloor (sum12 + 0.5) in
  let '(extra, frac) := two_sum sum12 (- day) in
  let frac := frac + (extra + err12) in
  let excess := ffloor (frac + 0.5) in
  let day := day + excess in
  let '(extra, frac) := two_sum sum12 (- day) in
  let frac := frac + (extra + err12) in
  (day, frac).

Definition day_frac_factor (val1 val2 factor : float) : float * float :=
  let '(d, f) := day_frac_factor0 val1 val2 factor in fold_half d f.

(* exact I/O: a finite double as (mantissa, exponent) with value m * 2^e *)
Definition of_me (m e : Z) : float :=
  let a := of_uint63 (Uint63.of_Z (Z.abs m)) in
  let a := if (m <? 0)%Z then - a else a in
  ldshiftexp a (Uint63.of_Z (e + 2101)%Z).
Definition to_me (x : float) : Z * Z :=
  match Prim2SF x with
  | S754_zero _ => (0, 0)%Z
  | S754_finite s m e => ((if s then Z.neg m else Z.pos m), e)
  | _ => (0, 99999)%Z
  end.
Definition run2 (f : float -> float -> float * float) (c : (Z * Z) * (Z * Z)) :=
  let '((m1, e1), (m2, e2)) := c in
  let '(d, fr) := f (of_me m1 e1) (of_me m2 e2) in (to_me d, to_me fr).

(* ===================================================================================================
   The rest of pulsarbat.pulsar.phase at scalar level (arrays are elementwise with shared flags).
   =================================================================================================== *)

(* the common tail of day_frac: "get integer fraction" and the one-step correction *)
Definition df_tail0 (sum12 err12 : float) : float * float :=
  let day := ffloor (sum12 + 0.5) in
  let '(extra, frac) := two_sum sum12 (- day) in
  let frac := frac + (extra + err12) in
  let excess := ffloor (frac + 0.5) in
  let day := day + excess in
  let '(extra, frac) := two_sum sum12 (- day) in
  let frac := frac + (extra + err12) in
  (day, frac).

Definition df_tail (sum12 err12 : float) : float * float := let '(d, f) := df_tail0 sum12 err12 in fold_half d f.

(* day_frac(val1, val2, factor=None, divisor=None), statement by statement *)
Definition day_frac_gen (val1 val2 : float) (factor divisor : option float) : float * float :=
  let '(sum12, err12) := two_sum val1 val2 in
  let '(sum12, err12) :=
    match factor with
    | None => (sum12, err12)
    | Some fc =>
      let '(s, carry) := two_product sum12 fc in
      let carry := carry + err12 * fc in
      two_sum s carry
    end in
  let '(sum12, err12) :=
    match divisor with
    | None => (sum12, err12)
    | Some dv =>
      let q1 := sum12 / dv in
      let '(p1, p2) := two_product q1 dv in
      let '(d1, d2) := two_sum sum12 (- p1) in
      let d2 := d2 + err12 in
      let d2 := d2 - p2 in
      let q2 := (d1 + d2) / dv in
      two_sum q1 q2
    end in
  df_tail sum12 err12.

(* a value as check_imaginary sees it: a real array, or a complex one *)
Inductive num := NReal (x : float) | NCplx (re im : float).
Definition is0 (x : float) : bool := (x =? 0)%float.
(* check_imaginary: (value, imaginary?) ; None = ValueError("cannot have mixed real/imaginary Phase") *)
Definition check_imaginary (a : num) : option (float * bool) :=
  match a with
  | NReal x => Some (x, false)
  | NCplx re im => if is0 re then Some (im, true) else if is0 im then Some (re, false) else None
  end.

Record ph := { p_int : float; p_frac : float; p_imag : bool }.
Inductive res := RPh (p : ph) | RErr | RDecay.      (* a Phase; an exception; silently something else (Angle/Quantity) *)

(* Phase.from_angles(phase1, phase2, factor, divisor) *)
Definition from_angles (p1 : num) (p2 : option num) (factor divisor : option num) : option ph :=
  match check_imaginary p1 with
  | None => None
  | Some (v1, imaginary) =>
    let r2 := match p2 with
              | None => Some 0
              | Some n2 => match check_imaginary n2 with
                           | None => None
                           | Some (v2, im2) => if Bool.eqb im2 imaginary then Some v2 else None
                           end
              end in
    match r2 with
    | None => None
    | Some v2 =>
      let rf := match factor with
                | None => Some (None, imaginary)
                | Some f => match check_imaginary f with
                            | None => None
                            | Some (fv, imf) => Some (Some (if imf && imaginary then - fv else fv), xorb imaginary imf)
                            end
                end in
      match rf with
      | None => None
      | Some (fopt, imaginary) =>
        let rd := match divisor with
                  | None => Some (None, imaginary)
                  | Some d => match check_imaginary d with
                              | None => None
                              | Some (dv, imd) => Some (Some (if imd && negb imaginary then - dv else dv), xorb imaginary imd)
                              end
                  end in
        match rd with
        | None => None
        | Some (dopt, imaginary) =>
          let '(c, f) := day_frac_gen v1 v2 fopt dopt in
          Some {| p_int := c; p_frac := f; p_imag := imaginary |}
        end
      end
    end
  end.

(* self["int"], self["frac"]: an Angle, times 1j when the phase is imaginary *)
Definition times_i (x : float) : num := NCplx (x * 0 - 0 * 1) (x * 1 + 0 * 0).
Definition part (imag : bool) (x : float) : num := if imag then times_i x else NReal x.
Definition nneg (a : num) : num := match a with NReal x => NReal (- x) | NCplx r i => NCplx (- r) (- i) end.
Definition nadd (a b : num) : num :=
  match a, b with
  | NReal x, NReal y => NReal (x + y)
  | NCplx r i, NCplx r' i' => NCplx (r + r') (i + i')
  | NReal x, NCplx r i => NCplx (x + r) (0 + i)
  | NCplx r i, NReal y => NCplx (r + y) (i + 0)
  end.
Definition nsub (a b : num) : num :=
  match a, b with
  | NReal x, NReal y => NReal (x - y)
  | NCplx r i, NCplx r' i' => NCplx (r - r') (i - i')
  | NReal x, NCplx r i => NCplx (x - r) (0 - i)
  | NCplx r i, NReal y => NCplx (r - y) (i - 0)
  end.

Inductive operand := OPh (p : ph) | ONum (n : num).
(* Phase(input_, copy=False, subok=True) *)
Definition to_phase (o : operand) : option ph :=
  match o with OPh p => Some p | ONum n => from_angles n None None None end.
Definition of_opt (o : option ph) : res := match o with Some p => RPh p | None => RErr end.

Definition op_construct (x : num) (y : option num) : res := of_opt (from_angles x y None None).

(* np.add / np.subtract branch *)
Definition op_addsub (sub : bool) (a b : operand) : res :=
  match to_phase a, to_phase b with
  | Some pa, Some pb =>
    if Bool.eqb (p_imag pa) (p_imag pb) then
      let f := if sub then nsub else nadd in
      of_opt (from_angles (f (part (p_imag pa) (p_int pa)) (part (p_imag pb) (p_int pb)))
                          (Some (f (part (p_imag pa) (p_frac pa)) (part (p_imag pb) (p_frac pb)))) None None)
    else RDecay
  | _, _ => RErr
  end.
(* np.multiply (either order) / np.divide (phase first) by a dimensionless number: exceptions fall through to the
   Quantity route (decay) *)
Definition op_mul (p : ph) (f : num) : res :=
  match from_angles (part (p_imag p) (p_int p)) (Some (part (p_imag p) (p_frac p))) (Some f) None with
  | Some r => RPh r | None => RDecay end.
Definition op_div (p : ph) (d : num) : res :=
  match from_angles (part (p_imag p) (p_int p)) (Some (part (p_imag p) (p_frac p))) None (Some d) with
  | Some r => RPh r | None => RDecay end.
Definition op_neg (p : ph) : res :=
  of_opt (from_angles (nneg (part (p_imag p) (p_int p))) (Some (nneg (part (p_imag p) (p_frac p)))) None None).
Definition op_pos (p : ph) : res :=
  of_opt (from_angles (part (p_imag p) (p_int p)) (Some (part (p_imag p) (p_frac p))) None None).
Definition fsign (x : float) : float := if (0 <? x)%float then 1 else if (x <? 0)%float then (-1) else if (x =? 0)%float then 0 else x.
Definition op_abs (p : ph) : res :=
  of_opt (from_angles (NReal (p_int p)) (Some (NReal (p_frac p))) (Some (NReal (fsign (p_int p + p_frac p)))) None).

(* comparison branch: diff = (int1 - int2) + (frac1 - frac2); imaginary parts compare through the same doubles *)
Definition phase_diff (a b : ph) : float := (p_int a - p_int b) + (p_frac a - p_frac b).
(* which: 0 ==, 1 !=, 2 <, 3 <=, 4 >, 5 >= ; None = not decided here (mixed real/imaginary or failed conversion) *)
Definition op_cmp (which : Z) (a b : operand) : option bool :=
  match to_phase a, to_phase b with
  | Some pa, Some pb =>
    if Bool.eqb (p_imag pa) (p_imag pb) then
      let d := phase_diff pa pb in
      Some (match which with
            | 0%Z => (d =? 0) | 1%Z => negb (d =? 0) | 2%Z => (d <? 0) | 3%Z => (d <=? 0) | 4%Z => (0 <? d) | _ => (0 <=? d)
            end)%float
    else None
  | _, _ => None
  end.

(* ---------- comparing with what the implementation returned (bit for bit, up to the sign of zero) ---------- *)
Definition feqb (a b : float) : bool := (a =? b)%float || (negb (a =? a)%float && negb (b =? b)%float).
Definition ph_eqb (a b : ph) : bool := feqb (p_int a) (p_int b) && feqb (p_frac a) (p_frac b) && Bool.eqb (p_imag a) (p_imag b).
Definition res_code (model impl : res) : Z :=
  match model, impl with
  | RPh a, RPh b => if ph_eqb a b then 0 else 1
  | RErr, RErr => 0
  | RDecay, RDecay => 0
  | _, _ => 2
  end.
