"""C09: Dask-backed signals give identical results, lazily, for any chunks or scheduler.
(P) Props/C09.v: schedule- and chunking-independence of column-separable operations and laziness of graph construction, on the
model of Model/Chunk.v; (T) the model is evaluated by vm_compute on the chunk layout and a random task order of sampled cases
(assembled result = unchunked result, zero tasks run by construction); (M, decisive) every public operation on a NumPy-backed
signal and on the same signal backed by a Dask array with a random chunk layout of the sample axes (and of the time axis where
allowed): same type, metadata, shape, dtype and - once computed under the synchronous, threaded and multiprocess schedulers - the
same sample values; the result stays Dask-backed and a sentinel layer in the input graph proves that nothing was computed while the
result was being built."""
import numpy as np
import astropy.units as u
from astropy.time import Time
import dask
import dask.array as da
import pulsarbat as pb
from harness import exact as X
from harness.common import zlit, listlit

VFILES = ['Model/Chunk.v', 'Proofs/ChunkProofs.v', 'Gen/GenDask.v', 'Proofs/DaskGen.v', 'Props/C09.v']
ATTRS = ('sample_rate', 'start_time', 'center_freq', 'chan_bw', 'freq_align', 'pol_type', 'meta')
COUNTER = []
DATA = '/repo/tests/data/'

HEADER = '''From Coq Require Import List Arith Bool ZArith. Import ListNotations.
From PB Require Import Model.Chunk.
Fixpoint nleqb (a b : list nat) : bool := match a, b with [], [] => true | x :: a', y :: b' => Nat.eqb x y && nleqb a' b' | _, _ => false end.
Fixpoint lleqb (a b : list (list nat)) : bool := match a, b with [], [] => true | x :: a', y :: b' => nleqb x y && lleqb a' b' | _, _ => false end.
(* columns [k; k+1; ...], operation: reverse-and-shift each column; chunk sizes and a task order *)
Definition chk (ncols : nat) (sizes order : list nat) : Z :=
  let cols := map (fun k => [k; k + 1; 2 * k]) (seq 0 ncols) in
  let f := fun c : list nat => rev (map (fun v => v + 7) c) in
  let g := build nat sizes cols in
  let '(res, ran) := compute nat nat f g order in
  ((if lleqb res (eager nat nat f cols) then 0 else 1) + (if Nat.eqb (g_executed nat g) 0 then 0 else 2) +
   (if Nat.eqb ran (length order) then 0 else 4))%Z.
'''


def counting_identity(block):
    """sentinel task: counts executions on non-empty blocks (dask calls block functions once on a 0-size array for meta inference)"""
    if block.size:
        COUNTER.append(1)
    return block


def rand_chunks(rng, shape, time_ok):
    out = []
    for ax, n in enumerate(shape):
        if ax == 0 and not time_ok:
            out.append((n,))
            continue
        if n == 0:
            out.append((0,))
            continue
        parts, left = [], n
        while left > 0:
            k = rng.randint(1, left) if rng.random() < 0.7 else left
            parts.append(k)
            left -= k
        out.append(tuple(parts))
    return tuple(out)


def same_meta(a, b):
    if type(a) is not type(b) or a.shape != b.shape or a.dtype != b.dtype:
        return 'type/shape/dtype: %s %s %s vs %s %s %s' % (type(a).__name__, a.shape, a.dtype, type(b).__name__, b.shape, b.dtype)
    for k in ATTRS:
        if hasattr(a, k) != hasattr(b, k):
            return k
        if hasattr(a, k):
            x, y = getattr(a, k), getattr(b, k)
            if (x is None) != (y is None):
                return k
            if x is not None:
                try:
                    if isinstance(x, Time):
                        if abs((x - y).to_value(u.s)) > 1e-12:
                            return k
                    elif not np.all(x == y):
                        return k
                except Exception:
                    return k
    return None


@pb.signal_transform
def smooth3(x, k=1):
    return np.roll(x, k, axis=0) + 2 * x


def ops_for(rng, z):
    """-> list of (name, fn(signal), time_chunks_allowed)"""
    L = len(z)
    out = [('slice', lambda s: s[2:L - 1], True), ('slice_step', lambda s: s[::2], True), ('like', lambda s: type(s).like(s), True),
           ('ufunc_scale', lambda s: s * 2.5, True), ('ufunc_add', lambda s: s + s, True), ('ufunc_abs', lambda s: np.abs(s), True),
           ('time_shift', lambda s: pb.time_shift(s, 1.75), False), ('time_shift_crop', lambda s: pb.time_shift(s, -2.5, crop=True), False),
           ('time_shift_array', lambda s: pb.time_shift(s, np.linspace(-1.5, 2.0, s.shape[1]) if s.ndim > 1 else 0.5), False),
           ('snippet', lambda s: pb.snippet(s, 1.5, 5), False), ('snippet_whole', lambda s: pb.snippet(s, 2, 5), True),
           ('fast_len', lambda s: pb.fast_len(s), True),
           ('concatenate', lambda s: pb.concatenate([s, type(s).like(s, start_time=None)]), True),
           ('signal_transform', lambda s: smooth3(s, k=2), False),
           # ... with the extra argument given positionally: whatever the wrapper does with it, both containers must get the same
           ('signal_transform_positional', lambda s: smooth3(s, 2), False),
           ('rechunk', lambda s: s.rechunk(), True), ('to_dask', lambda s: s.to_dask_array(), True)]
    # the public FFT wrappers called directly on the signal's array, with the keywords scipy.fft documents (norm=, n=, axis=; s=, axes=
    # for the 2-D / N-D transforms on the sample axes' side is covered by C20): the Dask branch must honour them like the NumPy branch
    fname = rng.choice(['fft', 'ifft'])
    kw = dict(axis=0)
    if rng.random() < 0.7:
        kw['norm'] = rng.choice(['ortho', 'forward', 'backward'])
    if rng.random() < 0.4:
        kw['n'] = L + rng.choice([-3, 4])
    out.append(('pb_fft_keywords', lambda s: pb.Signal(getattr(pb.fft, fname)(s.data, **kw), sample_rate=s.sample_rate, meta=dict(s.meta or {}, fft=[fname, sorted(kw)])), False))
    out.append(('pb_fft_keywords', lambda s: pb.Signal(getattr(pb.fft, fname)(s.data, **kw), sample_rate=s.sample_rate, meta=dict(s.meta or {}, fft=[fname, sorted(kw)])), False))
    if isinstance(z, pb.RadioSignal):
        out += [('freq_slice', lambda s: s[:, : max(1, s.nchan - 1)], True), ('concat_freq', lambda s: pb.concatenate([s, s], axis='freq'), True),
                ('incoherent', lambda s: pb.incoherent_dedispersion(s, pb.DM(0.3)), False)]
    if isinstance(z, pb.BasebandSignal):
        out += [('freq_shift', lambda s: pb.freq_shift(s, 0.3 * s.sample_rate / L), False),
                ('freq_shift_array', lambda s: pb.freq_shift(s, np.linspace(-1, 1, s.nchan) * s.sample_rate / L), False),
                ('coherent', lambda s: pb.coherent_dedispersion(s, pb.DM(2e-7)), False),
                ('to_intensity', lambda s: s.to_intensity(), True)]
    if isinstance(z, pb.DualPolarizationSignal):
        out += [('to_stokes', lambda s: s.to_stokes(), True), ('to_linear', lambda s: s.to_linear(), True), ('to_circular', lambda s: s.to_circular(), True)]
    if isinstance(z, pb.FullStokesSignal):
        out += [('stokes_I', lambda s: s['I'], True)]
    return out


def run(ctx):
    rng = ctx.rng
    nprng = np.random.default_rng(ctx.seed + 9)
    ctx.rule = ('every public operation x all six classes x random chunk layouts of every sample axis (and of the time axis for element-wise / '
                'slicing operations) x schedulers synchronous / threads (every case) and processes (a subset); float32/64, complex64/128; '
                'a sentinel map_blocks layer under the input counts executed blocks while the result graph is built. distinct by '
                '(op, class, shape, chunks, dtype).')
    ctx.trusted = ['translator T15 translate/py_dask2coq.py (syntax-tree pins of the signal_transform wrapper and the container helpers)', 'Coq 8.16.1 kernel (axiom-free model theorems)', 'dask\'s graph construction, optimisation and schedulers (exercised, not modelled)',
                   'thread safety of the NumPy / SciPy kernels under the threaded scheduler (exercised)']
    ctx.assumptions = ['values are compared bit for bit where the Dask path runs the same kernel on the same lanes, and within 4 ulp-scale tolerance '
                       '(1e-6 single / 1e-12 double, relative to max|x|) otherwise (FFT of a chunk vs of the whole array)']
    built = ctx.build(['Props/C09.vo'])
    ctx.count_obligations(VFILES)
    if built:
        ctx.assumptions_of('Props/C09.v', allowed=set())
    items, meta = [], []
    NC = 400 if ctx.tier == 'quick' else 5000
    nproc_cases = 0
    for c in range(NC):
        cls = rng.choice(X.CLASSES + ['BasebandSignal', 'DualPolarizationSignal'])
        L = rng.choice([12, 16, 20, 24])
        ss = X.sample_shape(rng, cls)
        cplx = cls in ('BasebandSignal', 'DualPolarizationSignal') or (cls == 'Signal' and rng.random() < 0.3)
        single = rng.random() < 0.3
        data = nprng.standard_normal((L,) + ss) + (1j * nprng.standard_normal((L,) + ss) if cplx else 0)
        data = data.astype((np.complex64 if single else np.complex128) if cplx else (np.float32 if single else np.float64))
        zn = X.make_signal(rng, cls, L, sshape=ss, data=data)
        zn.meta = {'tag': c}
        name, fn, time_ok = rng.choice(ops_for(rng, zn))
        chunks = rand_chunks(rng, data.shape, time_ok)
        inp = dict(op=name, cls=cls, shape=list(data.shape), dtype=str(data.dtype), chunks=[list(k) for k in chunks])
        ctx.seen(inp); ctx.count('op:' + name); ctx.count('cls:' + cls)
        try:
            want = fn(zn)
        except Exception as e:
            ctx.count('numpy_path_raised:' + type(e).__name__)
            continue
        # Dask-backed twin with a sentinel layer
        del COUNTER[:]
        base = da.from_array(data, chunks=chunks)
        sent = base.map_blocks(counting_identity, dtype=data.dtype)
        zd = type(zn).like(zn, sent)
        try:
            got = fn(zd)
        except Exception as e:
            ctx.fail('dask_path_raised', inp, impl=repr(e))
            continue
        if COUNTER:
            ctx.fail('graph_construction_computed_input_blocks', inp, impl=len(COUNTER))
            continue
        if not isinstance(got, pb.Signal) or not isinstance(got.data, da.Array):
            ctx.fail('result_not_dask_backed', inp, impl=type(getattr(got, 'data', got)).__name__)
            continue
        why = None
        if type(got) is not type(want) or got.shape != want.shape or got.dtype != want.dtype:
            why = 'type/shape/dtype (lazy): %s %s %s vs %s %s %s' % (type(got).__name__, got.shape, got.dtype, type(want).__name__, want.shape, want.dtype)
        if why:
            ctx.fail('dask_result_differs_in_metadata', inp, impl=why)
            continue
        scheds = ['synchronous', 'threads']
        if nproc_cases < (4 if ctx.tier == 'quick' else 40) and rng.random() < 0.08 and name != 'signal_transform':
            scheds.append('processes')
            nproc_cases += 1
        wd = np.asarray(want.data)
        mx = float(np.max(np.abs(np.where(np.isfinite(wd), wd, 0)))) + 1e-300 if wd.size else 1.0
        tol = (2e-6 if single else 1e-12) * mx
        if name == 'coherent' and not single:
            # the chirp phase (up to ~1e6 cycles, float64) is evaluated by numpy's vectorised kernels, whose last bit depends on the
            # position of an element in its block; a 1-ulp phase difference is ~7e-16 * |phase| in the chirp: 1e-7 covers it
            tol = 1e-7 * mx
        for sch in scheds:
            ctx.count('scheduler:' + sch)
            try:
                with dask.config.set(scheduler=sch):
                    gc = got.compute()
            except Exception as e:
                ctx.fail('compute_raised', dict(inp, scheduler=sch), impl=repr(e))
                break
            why = same_meta(gc, want)
            if why:
                ctx.fail('dask_result_differs_in_metadata', dict(inp, scheduler=sch), impl=why)
                break
            gd = np.asarray(gc.data)
            # non-finite values (a chirp evaluated on a band that reaches 0 Hz gives NaN on both paths) must sit at the same places
            fin = np.isfinite(wd)
            if gd.shape == wd.shape and not np.array_equal(fin, np.isfinite(gd)):
                ctx.fail('dask_values_differ', dict(inp, scheduler=sch), impl='non-finite values at different positions')
                break
            if not fin.all():
                ctx.count('numpy_result_has_nonfinite_values')
            e = float(np.max(np.abs(np.where(fin, gd - wd, 0)))) if wd.size else 0.0
            ctx.ratio(e, tol)
            if not (e <= tol) or gd.dtype != wd.dtype:
                ctx.fail('dask_values_differ', dict(inp, scheduler=sch), impl=e, model=tol)
                break
        if not COUNTER and wd.size and name not in ('like', 'rechunk', 'to_dask'):
            pass
        # container helpers change only the container
        if rng.random() < 0.3:
            for hname, h in (('compute', lambda s: s.compute()), ('persist', lambda s: s.persist()), ('to_dask_array', lambda s: s.to_dask_array()),
                             ('rechunk', lambda s: s.rechunk())):
                try:
                    w = h(got)
                    if same_meta(w.compute(), want) or not np.array_equal(np.asarray(w.compute().data), np.asarray(got.compute().data), equal_nan=True):
                        ctx.fail('container_helper_changed_signal', dict(inp, helper=hname))
                    if hname == 'compute' and isinstance(w.data, da.Array):
                        ctx.fail('compute_left_dask_array', inp)
                    if hname in ('persist', 'to_dask_array', 'rechunk') and not isinstance(w.data, da.Array):
                        ctx.fail('helper_lost_dask_backing', dict(inp, helper=hname))
                    ctx.count('helper:' + hname)
                except Exception as e:
                    ctx.fail('container_helper_raised', dict(inp, helper=hname), impl=repr(e))
        # (T) the chunk model on this layout: columns = elements of the sample shape, blocks = chunk sizes along the first sample axis
        if len(chunks) > 1:
            sizes = list(chunks[1])
            order = list(range(len(sizes))) * rng.choice([1, 2])
            rng.shuffle(order)
            items.append(f'chk {sum(sizes)} {listlit(sizes, str)} {listlit(order, str)}')
            meta.append(dict(inp=inp, impl=[sizes, order]))

    # ---- reader calls: a lazy read is the eager read, also when the lazy reads of SEVERAL readers meet in one graph (difference,
    # frequency concatenation, joint compute) -- the NumPy-backed twin of each expression is built from the eager reads
    import glob
    import pulsarbat.readers as pbr
    fs = sorted(glob.glob(DATA + 'fake.*.raw'))
    mk = [('guppi%d' % i, (lambda f: (lambda: pbr.GUPPIRawReader(f)))(f)) for i, f in enumerate(fs)] + \
         [('dada_usb', lambda: pbr.BasebandReader(DATA + 'sample.dada')), ('dada_lsb', lambda: pbr.BasebandReader(DATA + 'sample.dada', lower_sideband=True)),
          ('vdif_usb', lambda: pbr.BasebandReader(DATA + 'sample.vdif')), ('vdif_lsb', lambda: pbr.BasebandReader(DATA + 'sample.vdif', lower_sideband=True))]
    readers = {}
    for nm, f in mk:
        try:
            readers[nm] = f()
        except Exception as e:
            ctx.fail('reader_open_raised', dict(reader=nm), impl=repr(e))
    groups = [[k for k in readers if k.startswith('guppi')], [k for k in readers if k.startswith('dada')], [k for k in readers if k.startswith('vdif')]]
    for c in range(24 if ctx.tier == 'quick' else 240):
        g = rng.choice([x for x in groups if len(x) >= 2])
        a, b = rng.sample(g, 2)
        ra, rb = readers[a], readers[b]
        Lm = min(len(ra), len(rb))
        n = rng.choice([16, 64, 128])
        o = rng.randint(0, Lm - n)
        how = rng.choice(['difference', 'sum_of_powers', 'joint_compute', 'concat_time_then_slice', 'single_transform'])
        sch = rng.choice(['synchronous', 'threads'])
        inp = dict(op='reader:' + how, readers=[a, b], offset=o, n=n, scheduler=sch)
        ctx.seen(inp); ctx.count('op:reader:' + how)
        try:
            ea, eb = ra.read(o, n), rb.read(o, n)
            la = ra.dask_read(o, n) if rng.random() < 0.5 else ra.read(o, n, use_dask=True)
            lb = rb.dask_read(o, n) if rng.random() < 0.5 else rb.read(o, n, use_dask=True)
            if not isinstance(la.data, da.Array) or not isinstance(lb.data, da.Array):
                ctx.fail('result_not_dask_backed', inp)
                continue
            with dask.config.set(scheduler=sch):
                if how == 'difference':
                    got, want = np.asarray((la - lb).data.compute()), np.asarray((ea - eb).data)
                elif how == 'sum_of_powers':
                    got, want = np.asarray((np.abs(la) ** 2 + np.abs(lb) ** 2).data.compute()), np.asarray((np.abs(ea) ** 2 + np.abs(eb) ** 2).data)
                elif how == 'joint_compute':
                    ga, gb = dask.compute(la.data, lb.data)
                    got, want = np.stack([ga, gb]), np.stack([np.asarray(ea.data), np.asarray(eb.data)])
                elif how == 'concat_time_then_slice':
                    lb2, eb2 = type(lb).like(lb, start_time=None), type(eb).like(eb, start_time=None)
                    got = np.asarray(pb.concatenate([la, lb2]).data.compute())
                    want = np.asarray(pb.concatenate([ea, eb2]).data)
                else:
                    got, want = np.asarray(pb.time_shift(la, 1.5).data.compute()), np.asarray(pb.time_shift(ea, 1.5).data)
            mx = float(np.max(np.abs(want))) + 1e-300 if want.size else 1.0
            e = float(np.max(np.abs(got - want))) if want.size else 0.0
            tol = 2e-6 * mx
            ctx.ratio(e, tol)
            if got.shape != want.shape or got.dtype != want.dtype or not (e <= tol):
                ctx.fail('dask_values_differ', inp, impl=e, model=tol)
        except Warning:
            # the warnings-module race (see c11.py): the 'error' filter baseband installs while opening a file was seen by another worker
            # thread, which then got a Warning raised as an exception - not a property of the reader; counted, the case is dropped
            ctx.count('warnings_module_thread_race')
        except Exception as e:
            ctx.fail('dask_path_raised', inp, impl=repr(e))
        X.restore_warning_filters()

    # ---- configurations: a small dask 'array.chunk-size' (arrays created inside an operation with automatic chunks are then split
    # along time although the signal's time axis is one chunk); long enough signals to exceed it
    for c in range(16 if ctx.tier == 'quick' else 120):
        cls = rng.choice(['BasebandSignal', 'BasebandSignal', 'DualPolarizationSignal'])
        L = rng.choice([3000, 6000, 6001])
        ss = (2, 2) if cls == 'DualPolarizationSignal' else (rng.choice([1, 3]),)
        single = rng.random() < 0.3
        data = (nprng.standard_normal((L,) + ss) + 1j * nprng.standard_normal((L,) + ss)).astype(np.complex64 if single else np.complex128)
        zn = X.make_signal(rng, cls, L, sshape=ss, data=data)
        cands = [('time_shift', lambda s_: pb.time_shift(s_, 1.75)), ('time_shift_crop', lambda s_: pb.time_shift(s_, -2.5, crop=True)),
                 ('snippet', lambda s_: pb.snippet(s_, 100.25, 512)), ('freq_shift', lambda s_: pb.freq_shift(s_, 0.3 * s_.sample_rate / L)),
                 ('fast_len', lambda s_: pb.fast_len(s_)), ('to_intensity', lambda s_: s_.to_intensity()),
                 ('coherent', lambda s_: pb.coherent_dedispersion(s_, pb.DM(2e-7))), ('incoherent', lambda s_: pb.incoherent_dedispersion(s_, pb.DM(0.3)))]
        name, fn = rng.choice(cands + cands[:4])
        csize = rng.choice(['16KiB', '8KiB', '64KiB'])
        chunks = (-1,) + tuple(rng.choice([-1, 1]) for _ in ss)
        sch = rng.choice(['synchronous', 'threads'])
        inp = dict(op=name, cls=cls, shape=list(data.shape), dtype=str(data.dtype), chunks=list(chunks), config={'array.chunk-size': csize}, scheduler=sch)
        ctx.seen(inp); ctx.count('op:' + name); ctx.count('config:chunk-size')
        try:
            want = fn(zn)
        except Exception as e:
            ctx.count('numpy_path_raised:' + type(e).__name__)
            continue
        try:
            with dask.config.set({'array.chunk-size': csize, 'scheduler': sch}):
                zd = type(zn).like(zn, da.from_array(data, chunks=chunks))
                got = fn(zd)
                lazy = isinstance(got.data, da.Array)
                gc = got.compute()
        except Exception as e:
            ctx.fail('dask_path_raised', inp, impl=repr(e))
            continue
        if not lazy:
            ctx.fail('result_not_dask_backed', inp)
            continue
        why = same_meta(gc, want)
        if why:
            ctx.fail('dask_result_differs_in_metadata', inp, impl=why)
            continue
        wd, gd = np.asarray(want.data), np.asarray(gc.data)
        fin = np.isfinite(wd)
        mx = float(np.max(np.abs(np.where(fin, wd, 0)))) + 1e-300 if wd.size else 1.0
        tol = (2e-5 if single else (1e-7 if name == 'coherent' else 1e-11)) * mx
        e = float(np.max(np.abs(np.where(fin, gd - wd, 0)))) if wd.size else 0.0
        ctx.ratio(e, tol)
        if not np.array_equal(fin, np.isfinite(gd)) or not (e <= tol):
            ctx.fail('dask_values_differ', inp, impl=e, model=tol)

    res = ctx.run_cases(HEADER, items, shard=max(60, len(items) // 16 + 1))
    if res is None:
        return
    for r, m in zip(res, meta):
        if r:
            ctx.mismatch(f'chunk model: assembled result / laziness (code {r})', m['inp'], impl=m['impl'])
