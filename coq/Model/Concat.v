(* Model/Concat.v -- pulsarbat.concatenate (transforms.py), C10.  Mirrors the function's checks in
   order: type equality, sample_rate closeness, the ref_st reconstruction loop (time axis) or start-time
   agreement (other axes), chan_bw closeness, frequency contiguity / label agreement, recomputation of
   center_freq.  Closeness tests take tolerances: eps (absolute, seconds: Time.isclose) and rt (relative:
   u.isclose / u.allclose, |a-b| <= rt*|b|).  No proofs here. *)
From Coq Require Import ZArith QArith Qabs List Bool.
From PB Require Import Lib.PySlice Model.Ledger Model.Band.
Import ListNotations.
Open Scope Z_scope.

Record sig := { s_cls : Z ; s_led : ledger ; s_band : option band }.
(* errors: 1 = ValueError, 4 = TypeError *)
Inductive cres := COk (s : sig) | CErr (e : Z).

Definition close_rel (rt a b : Q) : bool := Qle_bool (Qabs (a - b)) (rt * Qabs b).
Definition close_abs (eps a b : Q) : bool := Qle_bool (Qabs (a - b)) eps.

(* the ref_st loop of concatenate (axis = time); None = ValueError("not contiguous in time") *)
Fixpoint scan (eps : Q) (r : Q) (ref : option Q) (n : Z) (ps : list ledger) : option (option Q) :=
  match ps with
  | [] => Some ref
  | p :: ps' =>
    match t0 p, ref with
    | None, _ => scan eps r ref (n + len p) ps'
    | Some t, None => scan eps r (Some (t - inject_Z n / r)%Q) (n + len p) ps'
    | Some t, Some rf =>
      if close_abs eps (rf + inject_Z n / r)%Q t
      then scan eps r ref (n + len p) ps' else None
    end
  end.

(* other axes: every present start time must be close to the first present one *)
Fixpoint scan_same (eps : Q) (ref : option Q) (ps : list ledger) : option (option Q) :=
  match ps with
  | [] => Some ref
  | p :: ps' =>
    match t0 p, ref with
    | None, _ => scan_same eps ref ps'
    | Some t, None => scan_same eps (Some t) ps'
    | Some t, Some rf => if close_abs eps rf t then scan_same eps ref ps' else None
    end
  end.

Definition total_len (ps : list ledger) : Z := fold_right (fun p a => len p + a) 0 ps.
Definition total_chan (bs : list band) : Z := fold_right (fun b a => nchan b + a) 0 bs.

Fixpoint contiguous (rt : Q) (cbw : Q) (bs : list band) : bool :=
  match bs with
  | x :: ((y :: _) as r) =>
      close_rel rt (label y 0 - label x (nchan x - 1))%Q cbw && contiguous rt cbw r
  | _ => true
  end.

(* off-axis label agreement: u.allclose(ref, s, rtol=0, atol=1e-5*chan_bw) *)
Fixpoint all_close_abs (tol : Q) (xs ys : list Q) : bool :=
  match xs, ys with
  | [], [] => true
  | x :: xs', y :: ys' => close_abs tol x y && all_close_abs tol xs' ys'
  | _, _ => false
  end.

Fixpoint bands_of (ps : list sig) : option (list band) :=
  match ps with
  | [] => Some []
  | p :: r => match s_band p, bands_of r with Some b, Some bs => Some (b :: bs) | _, _ => None end
  end.

Definition last_band (b0 : band) (bs : list band) : band := last bs b0.

(* axis: 0 = time, 1 = freq, 2 = any other sample axis *)
Definition concat (eps rt : Q) (axis : Z) (ps : list sig) : cres :=
  match ps with
  | [] => CErr 1
  | p0 :: _ =>
    if negb (forallb (fun p => s_cls p =? s_cls p0) ps) then CErr 4 else
    let r0 := rate (s_led p0) in
    if negb (forallb (fun p => close_rel rt r0 (rate (s_led p))) ps) then CErr 1 else
    let leds := map s_led ps in
    match (if axis =? 0 then scan eps r0 None 0 leds else scan_same eps None leds) with
    | None => CErr 1
    | Some ref =>
      let newlen := if axis =? 0 then total_len leds else len (s_led p0) in
      (* np.concatenate (the last step) needs equal lengths on every other axis *)
      let COk := fun s => if negb (axis =? 0) && negb (forallb (fun p => len (s_led p) =? len (s_led p0)) ps)
                          then CErr 1 else COk s in
      let led' := {| t0 := ref; rate := r0; len := newlen |} in
      match s_band p0 with
      | None => if axis =? 1 then CErr 4 else COk {| s_cls := s_cls p0; s_led := led'; s_band := None |}
      | Some b0 =>
        match bands_of ps with
        | None => CErr 4
        | Some bs =>
          if negb (forallb (fun b => close_rel rt (bw b0) (bw b)) bs) then CErr 1 else
          if axis =? 1 then
            if contiguous rt (bw b0) bs then
              let bl := last_band b0 bs in
              COk {| s_cls := s_cls p0; s_led := led';
                     s_band := Some (mk_band ((label b0 0 + label bl (nchan bl - 1)) / 2)%Q (bw b0) (total_chan bs) 1) |}
            else CErr 1
          else
            if forallb (fun b => all_close_abs (rt * bw b0) (labels b0) (labels b)) bs then
              COk {| s_cls := s_cls p0; s_led := led';
                     s_band := Some (mk_band ((label b0 0 + label b0 (nchan b0 - 1)) / 2)%Q (bw b0) (nchan b0) 1) |}
            else CErr 1
        end
      end
    end
  end.

(* ---------- splitting (what the harness and the theorems split with) ---------- *)
(* time: cut points c0 <= c1 <= ... ; keep says whether the piece keeps its start time *)
Fixpoint split_at (l : ledger) (c0 : Z) (cuts : list (Z * bool)) : list ledger :=
  match cuts with
  | [] => []
  | (c1, keep) :: cs =>
    {| t0 := if keep then match t0 l with None => None | Some t => Some (t + inject_Z c0 / rate l)%Q end else None;
       rate := rate l; len := c1 - c0 |} :: split_at l c1 cs
  end.
Fixpoint last_cut (c0 : Z) (cuts : list (Z * bool)) : Z :=
  match cuts with [] => c0 | (c1, _) :: cs => last_cut c1 cs end.

(* frequency: channel cuts c0 < c1 < ... (non-empty pieces: empty channel ranges cannot be sliced) *)
Definition chan_piece (b : band) (c0 c1 : Z) : band :=
  mk_band ((label b c0 + label b (c1 - 1)) / 2)%Q (bw b) (c1 - c0) 1.
Fixpoint fsplit_at (b : band) (c0 : Z) (cuts : list Z) : list band :=
  match cuts with
  | [] => []
  | c1 :: cs => chan_piece b c0 c1 :: fsplit_at b c1 cs
  end.
Fixpoint flast_cut (c0 : Z) (cuts : list Z) : Z :=
  match cuts with [] => c0 | c1 :: cs => flast_cut c1 cs end.
