(* probe: optimality of the T1-generated next_fast_len, part 1: arithmetic + inner loops *)
From PB Require Import Gen.GenUtils.
From Coq Require Import ZArith Lia List Bool.
Open Scope Z_scope.
Import next_fast_len.

(* ---------- arithmetic of candidates ---------- *)
Definition val (f : Z) (i j : nat) : Z := f * 2 ^ Z.of_nat i * 3 ^ Z.of_nat j.
Lemma val_S_i f i j : val f (S i) j = 2 * val f i j.
Proof. unfold val. rewrite Nat2Z.inj_succ, Z.pow_succ_r by lia. ring. Qed.
Lemma val_S_j f i j : val f i (S j) = 3 * val f i j.
Proof. unfold val. rewrite Nat2Z.inj_succ, Z.pow_succ_r by lia. ring. Qed.
Lemma val_00 f : val f 0 0 = f. Proof. unfold val. simpl. ring. Qed.
Lemma val_pos f i j : 0 < f -> 0 < val f i j.
Proof. intros. unfold val. assert (0 < 2 ^ Z.of_nat i) by (apply Z.pow_pos_nonneg; lia).
  assert (0 < 3 ^ Z.of_nat j) by (apply Z.pow_pos_nonneg; lia). nia. Qed.
Lemma val_mono_i f i i' j : 0 < f -> (i <= i')%nat -> val f i j <= val f i' j.
Proof. intros Hf H. induction H; [lia|]. rewrite val_S_i. pose proof (val_pos f m j Hf). lia. Qed.
Lemma val_mono_j f i j j' : 0 < f -> (j <= j')%nat -> val f i j <= val f i j'.
Proof. intros Hf H. induction H; [lia|]. rewrite val_S_j. pose proof (val_pos f i m Hf). lia. Qed.
Lemma val_ge_f f i j : 0 < f -> f <= val f i j.
Proof. intros Hf. rewrite <- (val_00 f) at 1. apply Z.le_trans with (val f i 0).
  apply val_mono_i; [assumption|lia]. apply val_mono_j; [assumption|lia]. Qed.
Lemma val_odd f j : Z.odd f = true -> Z.odd (val f 0 j) = true.
Proof. intros Hf. unfold val. simpl (2 ^ _). rewrite Z.mul_1_r.
  induction j. - simpl. rewrite Z.mul_1_r. exact Hf.
  - rewrite Nat2Z.inj_succ, Z.pow_succ_r by lia.
    replace (f * (3 * 3 ^ Z.of_nat j)) with (3 * (f * 3 ^ Z.of_nat j)) by ring.
    rewrite Z.odd_mul, IHj. reflexivity. Qed.
Lemma land1 x : Z.land x 1 = x mod 2.
Proof. change 1 with (Z.ones 1) at 1. rewrite Z.land_ones by lia. reflexivity. Qed.
Lemma odd_mod x : Z.odd x = true -> x mod 2 = 1.
Proof. intros H. rewrite Zmod_odd, H. reflexivity. Qed.

Definition acc (N f g : Z) (i j : nat) : Prop :=
  forall i' j', ((j' < j)%nat \/ (j' = j /\ (i < i')%nat)) -> N <= val f i' j' -> g <= val f i' j'.

(* ---------- the inner `while 1:` (generated loop1) ---------- *)
Section WithFuel0.
Variable fuel0 : nat.

(* unfolding lemma: one iteration of loop1, in readable form *)
Lemma loop1_step fuel N f7 g f75 x :
  loop1 (S fuel) (mk N f7 g f75 x) =
    if x <? N then loop1 fuel (mk N f7 g f75 (x * 3))
    else if x >? N then
      let g1 := if x <? g then x else g in
      if Z.land x 1 =? 0 then loop1 fuel (mk N f7 g1 f75 (Z.shiftr x 1))
      else Normal (mk N f7 g1 f75 x)
    else Ret N.
Proof.
  cbn [loop1 GenUtils.seq v_N v_f7 v_guess v_f75 v_x].
  destruct (x <? N); [reflexivity|]. destruct (x >? N); [|reflexivity].
  destruct (x <? g); cbn [GenUtils.seq v_N v_f7 v_guess v_f75 v_x]; destruct (Z.land x 1 =? 0); reflexivity.
Qed.

Lemma loop1_spec : forall fuel N f7 f75 f g i j,
  0 < f -> Z.odd f = true -> 0 < N ->
  N <= 2 * val f i j -> g <= 2 * N -> acc N f g i j ->
  match loop1 fuel (mk N f7 g f75 (val f i j)) with
  | Normal s' => v_N s' = N /\ v_f7 s' = f7 /\ v_f75 s' = f75 /\
                 v_guess s' <= g /\ (forall i' j', N <= val f i' j' -> v_guess s' <= val f i' j')
                 /\ (v_guess s' = g \/ exists a b, v_guess s' = val f a b /\ N < v_guess s')
  | Ret v => v = N /\ exists a b, N = val f a b
  | Brk _ => False
  | OutOfFuel => True
  end.
Proof.
  induction fuel as [|fuel IH]; intros N f7 f75 f g i j Hf Hodd HN H2x Hg Hacc; [exact I|].
  rewrite loop1_step. set (x := val f i j) in *.
  destruct (x <? N) eqn:E1.
  - apply Z.ltb_lt in E1. replace (x * 3) with (val f i (S j)) by (unfold x; rewrite val_S_j; ring).
    apply IH; auto.
    + rewrite val_S_j. fold x. lia.
    + intros i' j' Hc Hv. destruct Hc as [Hc|[-> Hc]].
      * destruct (Nat.eq_dec j' j) as [->|Hne].
        -- destruct (Nat.le_gt_cases i' i) as [Hle|Hgt].
           ++ pose proof (val_mono_i f i' i j Hf Hle). fold x in H. lia.
           ++ apply Hacc; auto.
        -- apply Hacc; auto. left. lia.
      * assert (Hd: g <= val f (S i) j).
        { apply Hacc. right; split; auto. rewrite val_S_i. fold x. lia. }
        assert (val f (S i) j <= val f i' (S j)).
        { apply Z.le_trans with (val f i' j); [apply val_mono_i; [assumption|lia] | apply val_mono_j; [assumption|lia]]. }
        lia.
  - apply Z.ltb_ge in E1. destruct (x >? N) eqn:E2.
    + apply Z.gtb_lt in E2. cbv zeta.
      set (g1 := if x <? g then x else g).
      assert (Hg1: g1 <= g /\ g1 <= x /\ (g1 = g \/ g1 = x)).
      { unfold g1. destruct (x <? g) eqn:E3; [apply Z.ltb_lt in E3|apply Z.ltb_ge in E3]; lia. }
      destruct (Z.land x 1 =? 0) eqn:E4.
      * apply Z.eqb_eq in E4.
        destruct i as [|i].
        { exfalso. pose proof (val_odd f j Hodd) as Ho. fold x in Ho.
          apply odd_mod in Ho. rewrite land1 in E4. lia. }
        assert (Hx : x = 2 * val f i j) by (unfold x; apply val_S_i).
        rewrite Z.shiftr_div_pow2 by lia. change (2^1) with 2.
        replace (x / 2) with (val f i j) by (rewrite Hx, Z.mul_comm, Z.div_mul; lia).
        specialize (IH N f7 f75 f g1 i j Hf Hodd HN).
        assert (Hacc1 : acc N f g1 i j).
        { intros i' j' Hc Hv. destruct Hc as [Hc|[-> Hc]].
          - assert (g <= val f i' j') by (apply Hacc; auto). lia.
          - destruct (Nat.eq_dec i' (S i)) as [->|Hne].
            + fold x. lia.
            + assert (g <= val f i' j) by (apply Hacc; auto; right; split; auto; lia). lia. }
        destruct (loop1 fuel (mk N f7 g1 f75 (val f i j))) as [s'|s'|v|] eqn:EW; auto.
        -- destruct IH as (A1 & A2 & A3 & A & B & C); try lia; auto.
           repeat (split; [assumption|]). split; [lia|]. split; [exact B|].
           destruct C as [C|C]; [|right; exact C]. rewrite C.
           destruct Hg1 as (_ & _ & [->| ->]); [left; reflexivity|right]. exists (S i), j. split; [reflexivity|lia].
        -- apply IH; try lia; auto.
        -- apply IH; try lia; auto.
      * apply Z.eqb_neq in E4.
        assert (Hi : i = 0%nat).
        { destruct i as [|i]; auto. exfalso. apply E4.
          assert (Hx : x = 2 * val f i j) by (unfold x; apply val_S_i).
          rewrite land1, Hx, Z.mul_comm. apply Z.mod_mul. lia. }
        subst i. cbn [v_N v_f7 v_f75 v_guess]. repeat (split; [reflexivity|]). split; [lia|]. split.
        -- intros i' j' Hv.
           destruct (Nat.lt_ge_cases j' j) as [Hlt|Hge].
           { assert (g <= val f i' j') by (apply Hacc; auto). lia. }
           destruct (Nat.eq_dec j' j) as [->|Hne].
           { destruct i' as [|i']. - fold x. lia.
             - assert (g <= val f (S i') j) by (apply Hacc; auto; right; split; auto; lia). lia. }
           assert (x <= val f i' j').
           { unfold x. apply Z.le_trans with (val f i' j); [apply val_mono_i; [assumption|lia] | apply val_mono_j; [assumption|lia]]. }
           lia.
        -- destruct Hg1 as (_ & _ & [->| ->]); [left; reflexivity|right]. exists 0%nat, j. split; [reflexivity|lia].
    + rewrite Z.gtb_ltb in E2. apply Z.ltb_ge in E2. split; [reflexivity|]. exists i, j. fold x. lia.
Qed.

(* termination of loop1: 2*i + [x<N] + 2 units of fuel are enough *)
Lemma loop1_fuel : forall fuel N f7 f75 f g i j,
  0 < f -> Z.odd f = true -> 0 < N -> N <= 2 * val f i j ->
  (2 * i + (if (val f i j <? N)%Z then 1 else 0) + 2 <= fuel)%nat ->
  loop1 fuel (mk N f7 g f75 (val f i j)) <> OutOfFuel.
Proof.
  induction fuel as [|fuel IH]; intros N f7 f75 f g i j Hf Hodd HN H2x Hfu; [lia|].
  rewrite loop1_step. set (x := val f i j) in *.
  destruct (x <? N) eqn:E1.
  - apply Z.ltb_lt in E1. replace (x * 3) with (val f i (S j)) by (unfold x; rewrite val_S_j; ring).
    apply IH; auto; rewrite val_S_j; fold x; [lia|].
    destruct (3 * x <? N) eqn:E; [apply Z.ltb_lt in E|]; lia.
  - destruct (x >? N) eqn:E2; [|discriminate]. apply Z.gtb_lt in E2. cbv zeta.
    destruct (Z.land x 1 =? 0) eqn:E4; [|discriminate].
    apply Z.eqb_eq in E4.
    destruct i as [|i].
    { exfalso. pose proof (val_odd f j Hodd) as Ho. fold x in Ho. apply odd_mod in Ho. rewrite land1 in E4. lia. }
    assert (Hx : x = 2 * val f i j) by (unfold x; apply val_S_i).
    rewrite Z.shiftr_div_pow2 by lia. change (2^1) with 2.
    replace (x / 2) with (val f i j) by (rewrite Hx, Z.mul_comm, Z.div_mul; lia).
    apply IH; auto; [lia|]. destruct (val f i j <? N); lia.
Qed.
End WithFuel0.
