(* Proofs/ShiftProofs.v -- index logic of time_shift / freq_shift (C03, C04): the zeroed range is exactly the set of
   positions whose source lies outside the input, for the BROADCAST shift of every element; crop window = complement
   of the union of the zeroed ranges; value theorems for whole-sample / whole-bin shifts from Lib/Dft.v. *)
From Coq Require Import ZArith QArith Qround Qabs List Bool Lia Lqa.
From PB Require Import Lib.PySlice Lib.Dft Model.Shift.
Import ListNotations.
Open Scope Z_scope.

(* ---------- Qneg, floor, ceiling ---------- *)
Lemma inject_Z_minus x y : inject_Z (x - y) = (inject_Z x - inject_Z y)%Q.
Proof. unfold Z.sub, Qminus. rewrite inject_Z_plus, inject_Z_opp. reflexivity. Qed.
Lemma Qneg_true a : Qneg a = true <-> (a < 0)%Q.
Proof. unfold Qneg. rewrite negb_true_iff. split.
  - intros H. apply Qnot_le_lt. intro C. apply Qle_bool_iff in C. congruence.
  - intros H. destruct (Qle_bool 0 a) eqn:E; [|reflexivity]. apply Qle_bool_iff in E. lra. Qed.
Lemma Qneg_false a : Qneg a = false <-> (0 <= a)%Q.
Proof. unfold Qneg. rewrite negb_false_iff. apply Qle_bool_iff. Qed.

Lemma lt_floor (a : Q) (z : Z) : (a < inject_Z z)%Q <-> Qfloor a < z.
Proof. pose proof (Qfloor_le a) as F1. pose proof (Qlt_floor a) as F2. split; intros H.
  - destruct (Z_lt_le_dec (Qfloor a) z) as [L|L]; [exact L|exfalso].
    assert (inject_Z z <= inject_Z (Qfloor a))%Q by (rewrite <- Zle_Qle; exact L). lra.
  - assert (inject_Z (Qfloor a + 1) <= inject_Z z)%Q by (rewrite <- Zle_Qle; lia). lra. Qed.
Lemma lt_ceiling (a : Q) (z : Z) : (inject_Z z < a)%Q <-> z < Qceiling a.
Proof. pose proof (Qle_ceiling a) as F1. pose proof (Qceiling_lt a) as F2. split; intros H.
  - destruct (Z_lt_le_dec z (Qceiling a)) as [L|L]; [exact L|exfalso].
    assert (inject_Z (Qceiling a) <= inject_Z z)%Q by (rewrite <- Zle_Qle; exact L). lra.
  - assert (inject_Z z <= inject_Z (Qceiling a - 1))%Q by (rewrite <- Zle_Qle; lia). lra. Qed.
Lemma floor_neg a : (a < 0)%Q -> Qfloor a < 0.
Proof. intros H. apply lt_floor. exact H. Qed.
Lemma ceiling_nonneg a : (0 <= a)%Q -> 0 <= Qceiling a.
Proof. intros H. destruct (Z_lt_le_dec (Qceiling a) 0) as [L|L]; [exfalso|exact L].
  pose proof (Qle_ceiling a). assert (inject_Z (Qceiling a) <= inject_Z (-1))%Q by (rewrite <- Zle_Qle; lia).
  change (inject_Z (-1)) with (-1 # 1)%Q in *. lra. Qed.

(* ---------- the zeroed range, explicitly ---------- *)
Lemma zero_range_neg N a : 0 <= N -> (a < 0)%Q -> zero_range N a = (Z.max 0 (N + Qfloor a), N).
Proof. intros HN Ha. unfold zero_range. rewrite (proj2 (Qneg_true a) Ha). unfold slice_indices. simpl.
  pose proof (floor_neg a Ha) as F. unfold clip.
  destruct (Qfloor a <? 0) eqn:E1; [|lia]. destruct (Qfloor a + N <? 0) eqn:E2; f_equal; lia. Qed.
Lemma zero_range_pos N a : 0 <= N -> (0 <= a)%Q -> zero_range N a = (0, Z.min (Qceiling a) N).
Proof. intros HN Ha. unfold zero_range. rewrite (proj2 (Qneg_false a) Ha). unfold slice_indices. simpl.
  pose proof (ceiling_nonneg a Ha) as F. unfold clip.
  destruct (Qceiling a <? 0) eqn:E1; [lia|]. destruct (N <? Qceiling a) eqn:E2; f_equal; lia. Qed.

(* exactly the positions whose source n - a lies outside [0, N-1] are zeroed *)
Theorem zero_range_exact N a n : 0 <= N -> 0 <= n < N -> in_range (zero_range N a) n = outside N a n.
Proof.
  intros HN Hn. unfold outside, in_range.
  destruct (Qlt_le_dec a 0) as [Ha|Ha].
  - rewrite (zero_range_neg N a HN Ha). cbn [fst snd].
    assert (E1 : Qneg (inject_Z n - a) = false).
    { apply Qneg_false. assert (0 <= inject_Z n)%Q by (change 0%Q with (inject_Z 0); rewrite <- Zle_Qle; lia). lra. }
    rewrite E1. cbn [orb].
    destruct (Qneg (inject_Z (N - 1) - (inject_Z n - a))) eqn:E2.
    + apply Qneg_true in E2. assert (L : (a < inject_Z (n - (N - 1)))%Q) by (rewrite inject_Z_minus; lra).
      apply lt_floor in L. apply andb_true_iff. split; [apply Z.leb_le|apply Z.ltb_lt]; lia.
    + apply Qneg_false in E2. apply andb_false_iff. left. apply Z.leb_gt.
      assert (~ (Qfloor a < n - (N - 1))).
      { intro L. apply lt_floor in L. rewrite inject_Z_minus in L. lra. }
      lia.
  - rewrite (zero_range_pos N a HN Ha). cbn [fst snd].
    assert (E2 : Qneg (inject_Z (N - 1) - (inject_Z n - a)) = false).
    { apply Qneg_false. assert (inject_Z n <= inject_Z (N - 1))%Q by (rewrite <- Zle_Qle; lia). lra. }
    rewrite E2, orb_false_r.
    destruct (Qneg (inject_Z n - a)) eqn:E1.
    + apply Qneg_true in E1. assert (L : (inject_Z n < a)%Q) by lra. apply lt_ceiling in L.
      apply andb_true_iff. split; [apply Z.leb_le|apply Z.ltb_lt]; lia.
    + apply Qneg_false in E1. apply andb_false_iff. right. apply Z.ltb_ge.
      assert (~ (n < Qceiling a)). { intro L. apply lt_ceiling in L. lra. }
      lia.
Qed.

(* property wording: the first ceil(s) samples for s > 0, the last ceil(|s|) samples for s < 0 *)
Corollary zero_range_wording N a n : 0 <= N -> 0 <= n < N ->
  in_range (zero_range N a) n = true <->
  ((0 <= a)%Q /\ n < Qceiling a) \/ ((a < 0)%Q /\ N - Qceiling (Qabs a) <= n).
Proof.
  intros HN Hn. unfold in_range. destruct (Qlt_le_dec a 0) as [Ha|Ha].
  - rewrite (zero_range_neg N a HN Ha). cbn [fst snd].
    assert (Qceiling (Qabs a) = - Qfloor a) as ->.
    { rewrite Qabs_neg by lra. unfold Qceiling. rewrite Qopp_opp. reflexivity. }
    rewrite andb_true_iff, Z.leb_le, Z.ltb_lt. split.
    + intros [H1 H2]. right. split; [exact Ha|lia].
    + intros [[H _]|[_ H]]; [lra|lia].
  - rewrite (zero_range_pos N a HN Ha). cbn [fst snd].
    rewrite andb_true_iff, Z.leb_le, Z.ltb_lt. split.
    + intros [H1 H2]. left. split; [exact Ha|lia].
    + intros [[_ H]|[H _]]; [lia|lra].
Qed.

(* ---------- expected_zeros is the list form of the same set ---------- *)
Lemma In_zrange n k : In k (zrange n) <-> 0 <= k < n.
Proof. unfold zrange. rewrite in_map_iff. split.
  - intros [i [<- Hi]]. apply in_seq in Hi. lia.
  - intros H. exists (Z.to_nat k). split; [lia|]. apply in_seq. lia. Qed.
Lemma expected_zeros_spec N a n : 0 <= N ->
  In n (expected_zeros N a) <-> 0 <= n < N /\ in_range (zero_range N a) n = true.
Proof. intros HN. unfold expected_zeros. rewrite filter_In, In_zrange. split.
  - intros [H1 H2]. split; [exact H1|]. rewrite zero_range_exact by assumption. exact H2.
  - intros [H1 H2]. split; [exact H1|]. rewrite <- zero_range_exact by assumption. exact H2. Qed.

(* ---------- multi-indices: [indices] enumerates exactly the elements of the sample shape ---------- *)
Inductive valid_mi : list Z -> list Z -> Prop :=
| vm_nil : valid_mi [] []
| vm_cons i a mi ss : 0 <= i < a -> valid_mi mi ss -> valid_mi (i :: mi) (a :: ss).
Lemma indices_complete ss mi : In mi (indices ss) <-> valid_mi mi ss.
Proof. revert mi. induction ss as [|a r IH]; intros mi; cbn [indices].
  - split; [intros [<-|[]]; constructor|intros H; inversion H; left; reflexivity].
  - rewrite in_flat_map. split.
    + intros [i [Hi Hm]]. apply in_map_iff in Hm. destruct Hm as [mi' [<- Hm']].
      constructor; [apply In_zrange; exact Hi|apply IH; exact Hm'].
    + intros H. inversion H as [|i a' mi' ss' Hi Hv]; subst. exists i. split; [apply In_zrange; exact Hi|].
      apply in_map. apply IH. exact Hv. Qed.

(* ---------- accumulated start / stop ---------- *)
Lemma acc_start_gen vals : forall s0, 0 <= s0 ->
  let s := fold_left (fun s a => if Qneg a then s else Z.max s (Qceiling a)) vals s0 in
  s0 <= s /\ (forall a, In a vals -> Qneg a = false -> Qceiling a <= s) /\
  (s = s0 \/ exists a, In a vals /\ Qneg a = false /\ s = Qceiling a).
Proof. induction vals as [|a r IH]; intros s0 H0; cbn [fold_left].
  - split; [lia|]. split; [intros a []|left; reflexivity].
  - destruct (Qneg a) eqn:E.
    + destruct (IH s0 H0) as [A [B C]]. split; [exact A|]. split.
      * intros b [<-|Hb] Hn; [congruence|apply B; assumption].
      * destruct C as [C|[b [Hb [Hn Hs]]]]; [left; exact C|right; exists b; split; [right; exact Hb|split; assumption]].
    + destruct (IH (Z.max s0 (Qceiling a)) ltac:(lia)) as [A [B C]]. split; [lia|]. split.
      * intros b [<-|Hb] Hn; [lia|apply B; assumption].
      * destruct C as [C|[b [Hb [Hn Hs]]]].
        -- destruct (Z.max_spec s0 (Qceiling a)) as [[_ M]|[_ M]].
           ++ right. exists a. split; [left; reflexivity|split; [exact E|lia]].
           ++ left. lia.
        -- right. exists b. split; [right; exact Hb|split; assumption]. Qed.
Lemma acc_stop_gen vals : forall s0, s0 <= 0 ->
  let s := fold_left (fun s a => if Qneg a then Z.min s (Qfloor a) else s) vals s0 in
  s <= s0 /\ (forall a, In a vals -> Qneg a = true -> s <= Qfloor a) /\
  (s = s0 \/ exists a, In a vals /\ Qneg a = true /\ s = Qfloor a).
Proof. induction vals as [|a r IH]; intros s0 H0; cbn [fold_left].
  - split; [lia|]. split; [intros a []|left; reflexivity].
  - destruct (Qneg a) eqn:E.
    + destruct (IH (Z.min s0 (Qfloor a)) ltac:(lia)) as [A [B C]]. split; [lia|]. split.
      * intros b [<-|Hb] Hn; [lia|apply B; assumption].
      * destruct C as [C|[b [Hb [Hn Hs]]]].
        -- destruct (Z.min_spec s0 (Qfloor a)) as [[_ M]|[_ M]].
           ++ left. lia.
           ++ right. exists a. split; [left; reflexivity|split; [exact E|lia]].
        -- right. exists b. split; [right; exact Hb|split; assumption].
    + destruct (IH s0 H0) as [A [B C]]. split; [exact A|]. split.
      * intros b [<-|Hb] Hn; [congruence|apply B; assumption].
      * destruct C as [C|[b [Hb [Hn Hs]]]]; [left; exact C|right; exists b; split; [right; exact Hb|split; assumption]]. Qed.

(* ---------- the crop window is the complement of the union of the zeroed ranges ---------- *)
Theorem crop_window_exact N vals n : 0 <= N ->
  let start := acc_start vals in let stop := acc_stop vals in
  let crop := match slice_indices (Some start) (Some (Z.max start (N + stop))) None N with
              | Some (lo, hi, _) => (lo, hi) | None => (0, 0) end in
  in_range crop n = true <-> 0 <= n < N /\ forall a, In a vals -> in_range (zero_range N a) n = false.
Proof.
  intros HN start stop crop.
  destruct (acc_start_gen vals 0 ltac:(lia)) as [S1 [S2 S3]]. fold (acc_start vals) in S1, S2, S3. fold start in S1, S2, S3.
  destruct (acc_stop_gen vals 0 ltac:(lia)) as [T1 [T2 T3]]. fold (acc_stop vals) in T1, T2, T3. fold stop in T1, T2, T3.
  assert (Hc : crop = (Z.min start N, Z.min N (Z.max (Z.min start N) (N + stop)))).
  { unfold crop, slice_indices. simpl. unfold clip.
    destruct (start <? 0) eqn:E1; [lia|]. destruct (N <? start) eqn:E2;
    destruct (Z.max start (N + stop) <? 0) eqn:E3; try lia;
    destruct (N <? Z.max start (N + stop)) eqn:E4; f_equal; lia. }
  rewrite Hc. unfold in_range. cbn [fst snd]. rewrite andb_true_iff, Z.leb_le, Z.ltb_lt. split.
  - intros [H1 H2]. split; [lia|]. intros a Ha.
    destruct (Qlt_le_dec a 0) as [An|An].
    + rewrite (zero_range_neg N a HN An). cbn [fst snd]. apply andb_false_iff. left. apply Z.leb_gt.
      pose proof (T2 a Ha (proj2 (Qneg_true a) An)). lia.
    + rewrite (zero_range_pos N a HN An). cbn [fst snd]. apply andb_false_iff. right. apply Z.ltb_ge.
      pose proof (S2 a Ha (proj2 (Qneg_false a) An)). lia.
  - intros [Hn Hall]. split.
    + destruct S3 as [S3|[a [Ha [An Hs]]]]; [lia|].
      specialize (Hall a Ha). apply Qneg_false in An. rewrite (zero_range_pos N a HN An) in Hall. cbn [fst snd] in Hall.
      apply andb_false_iff in Hall. destruct Hall as [Hall|Hall]; [apply Z.leb_gt in Hall; lia|apply Z.ltb_ge in Hall; lia].
    + assert (n < N + stop).
      { destruct T3 as [T3|[a [Ha [An Hs]]]]; [lia|].
        specialize (Hall a Ha). apply Qneg_true in An. rewrite (zero_range_neg N a HN An) in Hall. cbn [fst snd] in Hall.
        apply andb_false_iff in Hall. destruct Hall as [Hall|Hall]; [apply Z.leb_gt in Hall; lia|apply Z.ltb_ge in Hall; lia]. }
      lia.
Qed.

(* ---------- the whole index model: every element of the sample shape gets the range of ITS broadcast shift ---------- *)
Lemma nth_map_indices {A} (f : list Z -> A) (d : A) l k : (k < length l)%nat ->
  nth k (map f l) d = f (nth k l []).
Proof. intros H. rewrite (nth_indep _ d (f [])) by (rewrite map_length; exact H). apply map_nth. Qed.

Theorem shift_idx_elements early N ss sh vals r : 0 <= N ->
  shift_idx early N ss sh vals = Some r -> sr_noop r = false ->
  length (sr_zero r) = length (indices ss) /\
  forall k, (k < length (indices ss))%nat ->
    let mi := nth k (indices ss) [] in
    valid_mi mi ss /\
    nth k (sr_zero r) (0, 0) = zero_range N (bval sh vals (length ss) mi) /\
    (forall n, 0 <= n < N -> in_range (nth k (sr_zero r) (0, 0)) n = outside N (bval sh vals (length ss) mi) n).
Proof.
  intros HN. unfold shift_idx.
  destruct (length ss <? length sh)%nat; [discriminate|].
  destruct (early && all_tiny vals); [intros E; injection E as <-; cbn; discriminate|].
  destruct (negb (bcast_ok (pad sh (length ss)) ss)); [discriminate|].
  intros E _. injection E as <-. cbn [sr_zero]. split; [rewrite !map_length; reflexivity|].
  intros k Hk. set (mi := nth k (indices ss) []). split; [apply indices_complete; apply nth_In; exact Hk|].
  assert (E : nth k (map (zero_range N) (map (bval sh vals (length ss)) (indices ss))) (0, 0) =
              zero_range N (bval sh vals (length ss) mi)).
  { rewrite map_map. apply (nth_map_indices (fun mi => zero_range N (bval sh vals (length ss) mi))). exact Hk. }
  split; [exact E|]. intros n Hn. rewrite E. apply zero_range_exact; assumption.
Qed.

Theorem shift_idx_crop early N ss sh vals r n : 0 <= N ->
  shift_idx early N ss sh vals = Some r -> sr_noop r = false ->
  (in_range (sr_crop r) n = true <->
   0 <= n < N /\ forall mi, valid_mi mi ss -> in_range (zero_range N (bval sh vals (length ss) mi)) n = false).
Proof.
  intros HN. unfold shift_idx.
  destruct (length ss <? length sh)%nat; [discriminate|].
  destruct (early && all_tiny vals); [intros E; injection E as <-; cbn; discriminate|].
  destruct (negb (bcast_ok (pad sh (length ss)) ss)); [discriminate|].
  intros E _. injection E as <-. cbn [sr_crop].
  rewrite (crop_window_exact N (map (bval sh vals (length ss)) (indices ss)) n HN). split.
  - intros [H1 H2]. split; [exact H1|]. intros mi Hv. apply H2. apply in_map. apply indices_complete. exact Hv.
  - intros [H1 H2]. split; [exact H1|]. intros a Ha. apply in_map_iff in Ha. destruct Ha as [mi [<- Hm]].
    apply H2. apply indices_complete. exact Hm.
Qed.

(* the crop is the C01 ledger op OShiftCrop start stop: x[start : max(start, len + stop)], with 0 <= start, stop <= 0 *)
Theorem shift_idx_crop_is_slice early N ss sh vals r : shift_idx early N ss sh vals = Some r -> sr_noop r = false ->
  0 <= sr_start r /\ sr_stop r <= 0 /\
  slice_indices (Some (sr_start r)) (Some (Z.max (sr_start r) (N + sr_stop r))) None N
    = Some (fst (sr_crop r), snd (sr_crop r), 1).
Proof.
  unfold shift_idx.
  destruct (length ss <? length sh)%nat; [discriminate|].
  destruct (early && all_tiny vals); [intros E; injection E as <-; cbn; discriminate|].
  destruct (negb (bcast_ok (pad sh (length ss)) ss)); [discriminate|].
  intros E _. injection E as <-. cbn [sr_start sr_stop sr_crop].
  destruct (acc_start_gen (map (bval sh vals (length ss)) (indices ss)) 0 ltac:(lia)) as [S1 _].
  destruct (acc_stop_gen (map (bval sh vals (length ss)) (indices ss)) 0 ltac:(lia)) as [T1 _].
  split; [exact S1|]. split; [exact T1|]. unfold slice_indices. reflexivity.
Qed.

(* the executable clause evaluated on the model's own zero mask holds (spec/model link) *)
Lemma list_Zeqb_refl l : list_Zeqb l l = true.
Proof. induction l as [|x l IH]; cbn; [reflexivity|rewrite Z.eqb_refl, IH; reflexivity]. Qed.
Theorem zero_ok_model N ss sh vals :
  zero_ok N ss sh vals (map (fun mi => expected_zeros N (bval sh vals (length ss) mi)) (indices ss)) = 0.
Proof.
  unfold zero_ok. rewrite !map_length, Nat.eqb_refl.
  set (f := bval sh vals (length ss)).
  assert (H : forall l, filter (fun p : Q * list Z => negb (list_Zeqb (expected_zeros N (fst p)) (snd p)))
            (combine (map f l) (map (fun mi => expected_zeros N (f mi)) l)) = []).
  { induction l as [|x l IH]; cbn; [reflexivity|]. rewrite list_Zeqb_refl. cbn. exact IH. }
  rewrite H. reflexivity.
Qed.

(* ================= value theorems (abstract field with an n-th root of unity family) ================= *)
Section Values.
  Variable T : Type.
  Variables (t0 t1 : T) (tadd tmul tsub : T -> T -> T) (topp : T -> T).
  Hypothesis Tring : ring_theory t0 t1 tadd tmul tsub topp (@eq T).
  Hypothesis Tint : forall a b, tmul a b = t0 -> a = t0 \/ b = t0.
  Variable n : nat.
  Hypothesis npos : (0 < n)%nat.
  Variable W : Z -> T.
  Hypothesis W_add : forall a b, W (a + b)%Z = tmul (W a) (W b).
  Hypothesis W_0 : W 0%Z = t1.
  Hypothesis W_n : W (Z.of_nat n) = t1.
  Hypothesis W_prim : forall z, W z = t1 -> (z mod Z.of_nat n = 0)%Z.
  Variable ninv : T.
  Hypothesis ninv_ok : tmul ninv (ofnat T t0 t1 tadd n) = t1.

  Let shiftT := shift_theorem T t0 t1 tadd tmul tsub topp Tring Tint n npos W W_add W_0 W_n W_prim ninv ninv_ok.
  Let modT := modulation_theorem T t0 t1 tadd tmul tsub topp Tring n npos W W_add W_0 W_n.
  Let rampT := ramp_signed T t0 t1 tadd tmul tsub topp Tring n npos W W_add W_0 W_n.

  Lemma fftfreq_ramp k s : (k < n)%nat ->
    W (- (fftfreq (Z.of_nat n) (Z.of_nat k) * s)) = W (- (Z.of_nat k * s)).
  Proof. intros Hk. unfold fftfreq. destruct (Z.of_nat k <=? (Z.of_nat n - 1) / 2); [reflexivity|apply rampT]. Qed.

  (* whole-sample shift: exact move, zero where the source is outside, never a wrapped sample *)
  Theorem tshift_int_exact (x : nat -> T) (s : Z) (m : nat) : (m < n)%nat ->
    tshift_int T t0 tadd tmul n W ninv s x m =
    if (0 <=? Z.of_nat m - s) && (Z.of_nat m - s <? Z.of_nat n) then x (Z.to_nat (Z.of_nat m - s)) else t0.
  Proof.
    intros Hm. unfold tshift_int, tshift.
    rewrite zero_range_exact by lia. unfold outside.
    assert (E1 : Qneg (inject_Z (Z.of_nat m) - inject_Z s) = (Z.of_nat m - s <? 0)).
    { destruct (Z.of_nat m - s <? 0) eqn:E.
      - apply Qneg_true. apply Z.ltb_lt in E. rewrite <- inject_Z_minus. change 0%Q with (inject_Z 0). rewrite <- Zlt_Qlt. exact E.
      - apply Qneg_false. apply Z.ltb_ge in E. rewrite <- inject_Z_minus. change 0%Q with (inject_Z 0). rewrite <- Zle_Qle. exact E. }
    assert (E2 : Qneg (inject_Z (Z.of_nat n - 1) - (inject_Z (Z.of_nat m) - inject_Z s)) = (Z.of_nat n - 1 - (Z.of_nat m - s) <? 0)).
    { destruct (Z.of_nat n - 1 - (Z.of_nat m - s) <? 0) eqn:E.
      - apply Qneg_true. apply Z.ltb_lt in E. rewrite <- !inject_Z_minus. change 0%Q with (inject_Z 0). rewrite <- Zlt_Qlt. exact E.
      - apply Qneg_false. apply Z.ltb_ge in E. rewrite <- !inject_Z_minus. change 0%Q with (inject_Z 0). rewrite <- Zle_Qle. exact E. }
    rewrite E1, E2.
    destruct (Z.of_nat m - s <? 0) eqn:A; cbn [orb].
    - apply Z.ltb_lt in A. destruct (0 <=? Z.of_nat m - s) eqn:B; [apply Z.leb_le in B; lia|reflexivity].
    - apply Z.ltb_ge in A. destruct (Z.of_nat n - 1 - (Z.of_nat m - s) <? 0) eqn:B.
      + apply Z.ltb_lt in B. destruct (Z.of_nat m - s <? Z.of_nat n) eqn:C; [apply Z.ltb_lt in C; lia|].
        rewrite andb_false_r. reflexivity.
      + apply Z.ltb_ge in B.
        assert ((0 <=? Z.of_nat m - s) && (Z.of_nat m - s <? Z.of_nat n) = true) as ->
          by (apply andb_true_iff; split; [apply Z.leb_le|apply Z.ltb_lt]; lia).
        transitivity (idft T t0 tadd tmul n W ninv (fun k => tmul (dft T t0 tadd tmul n W x k) (W (- (Z.of_nat k * s)))) m).
        * unfold idft. f_equal. apply (sumf_ext T t0 tadd n npos). intros k Hk. rewrite fftfreq_ramp by exact Hk. reflexivity.
        * rewrite shiftT by exact Hm. rewrite Z.mod_small by lia. reflexivity.
  Qed.

  (* whole-bin frequency shift: in fftshift order the spectrum moves by b bins, zero where the source bin is outside *)
  Theorem fshift_int_exact (x : nat -> T) (b : Z) (j : nat) : (j < n)%nat ->
    fshift_spec_int T t0 tadd tmul n W b x j =
    if (0 <=? Z.of_nat j - b) && (Z.of_nat j - b <? Z.of_nat n)
    then dft T t0 tadd tmul n W x (Z.to_nat (unshift_idx (Z.of_nat n) (Z.of_nat j - b))) else t0.
  Proof.
    intros Hj. unfold fshift_spec_int, fshift_spec.
    rewrite zero_range_exact by lia. unfold outside.
    assert (E1 : Qneg (inject_Z (Z.of_nat j) - inject_Z b) = (Z.of_nat j - b <? 0)).
    { destruct (Z.of_nat j - b <? 0) eqn:E.
      - apply Qneg_true. apply Z.ltb_lt in E. rewrite <- inject_Z_minus. change 0%Q with (inject_Z 0). rewrite <- Zlt_Qlt. exact E.
      - apply Qneg_false. apply Z.ltb_ge in E. rewrite <- inject_Z_minus. change 0%Q with (inject_Z 0). rewrite <- Zle_Qle. exact E. }
    assert (E2 : Qneg (inject_Z (Z.of_nat n - 1) - (inject_Z (Z.of_nat j) - inject_Z b)) = (Z.of_nat n - 1 - (Z.of_nat j - b) <? 0)).
    { destruct (Z.of_nat n - 1 - (Z.of_nat j - b) <? 0) eqn:E.
      - apply Qneg_true. apply Z.ltb_lt in E. rewrite <- !inject_Z_minus. change 0%Q with (inject_Z 0). rewrite <- Zlt_Qlt. exact E.
      - apply Qneg_false. apply Z.ltb_ge in E. rewrite <- !inject_Z_minus. change 0%Q with (inject_Z 0). rewrite <- Zle_Qle. exact E. }
    rewrite E1, E2.
    destruct (Z.of_nat j - b <? 0) eqn:A; cbn [orb].
    - apply Z.ltb_lt in A. destruct (0 <=? Z.of_nat j - b) eqn:B; [apply Z.leb_le in B; lia|reflexivity].
    - apply Z.ltb_ge in A. destruct (Z.of_nat n - 1 - (Z.of_nat j - b) <? 0) eqn:B.
      + apply Z.ltb_lt in B. destruct (Z.of_nat j - b <? Z.of_nat n) eqn:C; [apply Z.ltb_lt in C; lia|].
        rewrite andb_false_r. reflexivity.
      + apply Z.ltb_ge in B.
        assert ((0 <=? Z.of_nat j - b) && (Z.of_nat j - b <? Z.of_nat n) = true) as ->
          by (apply andb_true_iff; split; [apply Z.leb_le|apply Z.ltb_lt]; lia).
        assert (Hu : (Z.to_nat (unshift_idx (Z.of_nat n) (Z.of_nat j)) < n)%nat).
        { unfold unshift_idx. pose proof (Z.mod_pos_bound (Z.of_nat j - Z.of_nat n / 2) (Z.of_nat n) ltac:(lia)). lia. }
        rewrite modT by exact Hu. f_equal. f_equal. unfold unshift_idx.
        rewrite Z2Nat.id by (apply Z.mod_pos_bound; lia).
        rewrite Zminus_mod_idemp_l. f_equal. lia.
  Qed.

  (* a shift of a full band or more leaves nothing *)
  Corollary fshift_int_full (x : nat -> T) (b : Z) (j : nat) : (j < n)%nat -> (Z.of_nat n <= Z.abs b) ->
    fshift_spec_int T t0 tadd tmul n W b x j = t0.
  Proof. intros Hj Hb. rewrite fshift_int_exact by exact Hj.
    destruct (0 <=? Z.of_nat j - b) eqn:A; [|reflexivity]. destruct (Z.of_nat j - b <? Z.of_nat n) eqn:B; [|reflexivity].
    apply Z.leb_le in A. apply Z.ltb_lt in B. lia. Qed.
  Corollary tshift_int_full (x : nat -> T) (s : Z) (m : nat) : (m < n)%nat -> (Z.of_nat n <= Z.abs s) ->
    tshift_int T t0 tadd tmul n W ninv s x m = t0.
  Proof. intros Hm Hs. rewrite tshift_int_exact by exact Hm.
    destruct (0 <=? Z.of_nat m - s) eqn:A; [|reflexivity]. destruct (Z.of_nat m - s <? Z.of_nat n) eqn:B; [|reflexivity].
    apply Z.leb_le in A. apply Z.ltb_lt in B. lia. Qed.

  (* any shift (fractional too): a tone at bin k0 is multiplied by the ramp value at k0 wherever it is not zero-filled *)
  Theorem tshift_tone (M : nat -> T) (r : Z * Z) (k0 m : nat) : (k0 < n)%nat -> in_range r (Z.of_nat m) = false ->
    tshift T t0 tadd tmul n W ninv M r (tone T W k0) m = tmul (M k0) (tone T W k0 m).
  Proof. intros Hk Hr. unfold tshift. rewrite Hr.
    apply (diag_tone T t0 t1 tadd tmul tsub topp Tring Tint n npos W W_add W_0 W_n W_prim ninv ninv_ok). exact Hk. Qed.
End Values.
