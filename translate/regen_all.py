"""Regenerates /verif/coq/Gen/*.v from /repo's current working tree.  Fail-closed: a translator that
meets syntax outside its subset reports an error string; the old generated file is then removed so
that no theorem can be re-checked against stale text."""
import os, traceback

GEN = '/verif/coq/Gen'
REPO = '/repo/pulsarbat'


def write_if_changed(path, text):
    if os.path.exists(path) and open(path).read() == text:
        return False
    with open(path, 'w') as f:
        f.write(text)
    return True


def run(only=None):
    from translate import py_int2coq, py_consts2coq, py_effects2coq, py_ledger2coq, py_disp2coq, py_shift2coq, py_float2coq, py_hilbert2coq, py_stft2coq, py_ufunc2coq, py_pol2coq, py_concat2coq, py_reader2coq, py_predictor2coq, py_dask2coq, py_contract2coq
    jobs = {
        'GenUtils.v': lambda: py_int2coq.generate(os.path.join(REPO, 'utils.py'), ['next_fast_len', 'prev_fast_len']),
        'GenConsts.v': lambda: py_consts2coq.generate(REPO),
        'GenEffects.v': lambda: py_effects2coq.generate('/repo')[0],
        'GenLedger.v': lambda: py_ledger2coq.generate('/repo'),
        'GenBand.v': lambda: py_ledger2coq.generate_band('/repo'),
        'GenGetitem.v': lambda: py_ledger2coq.generate_getitem('/repo'),
        'GenDisp.v': lambda: py_disp2coq.generate('/repo'),
        'GenShift.v': lambda: py_shift2coq.generate('/repo'),
        'GenSnippet.v': lambda: py_shift2coq.generate_snippet('/repo'),
        'GenFastLenCrop.v': lambda: py_shift2coq.generate_fast_len('/repo'),
        'GenPhase.v': lambda: py_float2coq.generate('/repo'),
        'GenPhaseOrd.v': lambda: py_float2coq.generate_ord('/repo'),
        'GenHilbert.v': lambda: py_hilbert2coq.generate('/repo'),
        'GenStft.v': lambda: py_stft2coq.generate('/repo'),
        'GenUfunc.v': lambda: py_ufunc2coq.generate('/repo'),
        'GenPol.v': lambda: py_pol2coq.generate('/repo'),
        'GenConcat.v': lambda: py_concat2coq.generate('/repo'),
        'GenReader.v': lambda: py_reader2coq.generate('/repo'),
        'GenPolyco.v': lambda: py_predictor2coq.generate('/repo'),
        'GenDask.v': lambda: py_dask2coq.generate('/repo'),
        'GenContract.v': lambda: py_contract2coq.generate('/repo'),
    }
    res = {}
    os.makedirs(GEN, exist_ok=True)
    for name, job in jobs.items():
        if only and name not in only:
            continue
        path = os.path.join(GEN, name)
        try:
            text = job()
            write_if_changed(path, text)
            res[name] = None
        except Exception as e:  # fail closed
            res[name] = f'{type(e).__name__}: {e}\n' + traceback.format_exc()[-1500:]
            # leave an uncompilable marker so dependants cannot silently use stale definitions
            write_if_changed(path, f'(* translator failed: {type(e).__name__} *)\nFail Check I. Check translator_failed_see_replay.\n')
    return res


if __name__ == '__main__':
    for k, v in run().items():
        print(k, 'ok' if v is None else v)
