(* Proofs/PhaseDivmodFloor.v -- C07, floor_divide / remainder / divmod: the FLOOR half, under an explicit specification of numpy's
   float floor_divide (an external routine: it is modelled in Model/PhaseDivmod.np_divmod and compared bit for bit with numpy on
   every run; here its assumed behaviour is the hypothesis fdiv_spec, not an axiom).  If floor_divide returns the exact floor of
   the quotient of two doubles, then for every real phase with an integer count up to 2^39 and every divisor between 2^-10 and 2^10
   the branch returns an INTEGER quotient q and a remainder r with a = q d + r (2^-51) and -delta <= r < d + delta,
   delta = 2^-49 + 2^-52 d: the two passes do compute the floor, which the source marks "TODO: check this method is really correct". *)
From Coq Require Import ZArith Reals Psatz Floats Bool List Lia.
From Flocq Require Import Core BinarySingleNaN PrimFloat.
From PB Require Import Proofs.TwoSumExact Model.Phase2 Model.PhaseOrd Model.PhaseDivmod Proofs.Floor Proofs.DayFrac Proofs.DayFrac3 Proofs.DayFracTail Proofs.FoldHalf Proofs.DayFracFold
  Proofs.PhaseAdd Proofs.PhaseMore Proofs.PhaseCmp Proofs.PhaseCmpAll Proofs.PhaseMul Proofs.DivChain Proofs.PhaseDiv Proofs.PhaseArgmin Proofs.PhaseSort Proofs.PhaseRemainder
  Proofs.PhaseDivmodProofs.
Open Scope R_scope.

Definition fdiv_spec (fdiv : PrimFloat.float -> PrimFloat.float -> PrimFloat.float) : Prop :=
  forall a b, fin a -> fin b -> bpow radix2 (-10) <= R_of b <= bpow radix2 10 -> Rabs (R_of a) <= bpow radix2 40 ->
  fin (fdiv a b) /\ R_of (fdiv a b) = IZR (Zfloor (R_of a / R_of b)).

Lemma floor_bounds x : IZR (Zfloor x) <= x < IZR (Zfloor x) + 1.
Proof. split; [apply Zfloor_lb|apply Zfloor_ub]. Qed.

Lemma IZR_abs_ge1 (z : Z) : z <> 0%Z -> 1 <= Rabs (IZR z).
Proof. intros H. rewrite <- abs_IZR. apply (IZR_le 1). lia. Qed.

Section Floor.
  Hypothesis Hspec : fdiv_spec np_floor_divide.

  Variable p : ph.
  Variable d : PrimFloat.float.
  Variable k : Z.
  Hypothesis Hp : p_imag p = false.
  Hypothesis Fi : fin (p_int p).
  Hypothesis Ff : fin (p_frac p).
  Hypothesis Ek : R_of (p_int p) = IZR k.
  Hypothesis Kk : (Z.abs k <= 2 ^ 39)%Z.
  Hypothesis Bf : Rabs (R_of (p_frac p)) <= / 2 + bpow radix2 (-50).
  Hypothesis Fd : fin d.
  Hypothesis Bd : bpow radix2 (-10) <= R_of d <= bpow radix2 10.

  Let D := R_of d.
  Let P10 : bpow radix2 10 = 1024. Proof. simpl. lra. Qed.
  Let Pm10 : bpow radix2 (-10) = / 1024. Proof. simpl. lra. Qed.
  Let P40 : IZR (2 ^ 39) = 549755813888. Proof. simpl. lra. Qed.
  Let P41 : bpow radix2 40 = 1099511627776. Proof. simpl. lra. Qed.

  Lemma p_okph : ok_ph p.
  Proof.
    split; [exact Fi|]. split; [exact Ff|]. split; [|exact Bf]. rewrite Ek, <- abs_IZR.
    apply Rle_trans with (IZR (2 ^ 39)); [apply IZR_le; exact Kk|]. apply Rle_trans with (bpow radix2 39); [simpl; lra|apply bpow_le; lia].
  Qed.

  Lemma Vp_bound : Rabs (V p) <= IZR (2 ^ 39) + 1.
  Proof.
    unfold V. rewrite Ek. apply Rle_trans with (1:=Rabs_triang _ _). rewrite <- abs_IZR.
    assert (IZR (Z.abs k) <= IZR (2 ^ 39)) by (apply IZR_le; exact Kk). pose proof p50_half. lra.
  Qed.

  (* the remainder for an integer quotient F close to V/d *)
  Lemma rem_for (fd : PrimFloat.float) (F : Z) : fin fd -> R_of fd = IZR F -> Rabs (D * IZR F) <= IZR (2 ^ 39) + 2048 ->
    exists rem, rem_of p d fd = Some rem /\ ok_ph rem /\ Rabs (V rem - (V p - D * IZR F)) <= bpow radix2 (-51).
  Proof.
    intros Ffd EF BF.
    assert (Hf0 : R_of fd = 0 \/ bpow radix2 (-900) <= Rabs (R_of fd)).
    { rewrite EF. destruct (Z.eq_dec F 0) as [->|N]; [left; reflexivity|right].
      apply Rle_trans with 1; [|apply IZR_abs_ge1; exact N]. change 1 with (bpow radix2 0). apply bpow_le. lia. }
    assert (BfdR : Rabs (R_of fd) <= bpow radix2 400).
    { rewrite EF. apply Rle_trans with (bpow radix2 52); [|apply bpow_le; lia].
      assert (X : Rabs (IZR F) <= 1024 * (IZR (2 ^ 39) + 2048)).
      { rewrite Rabs_mult in BF. assert (0 < Rabs D) by (apply Rabs_pos_lt; unfold D; lra).
        assert (/ 1024 <= Rabs D) by (rewrite Rabs_pos_eq by (unfold D; lra); unfold D; lra).
        pose proof (Rabs_pos (IZR F)). nra. }
      apply Rle_trans with (1:=X). rewrite P40. simpl. lra. }
    destruct (rem_of_sound p d fd k Hp Fi Ff Ek ltac:(lia) Bf Fd Ffd) as (rem & E & A1 & A2 & A3 & (kr & Ekr) & A5 & A6).
    - right. rewrite Rabs_pos_eq by lra. apply Rle_trans with (bpow radix2 (-10)); [apply bpow_le; lia|lra].
    - rewrite Rabs_pos_eq by lra. apply Rle_trans with (bpow radix2 10); [lra|apply bpow_le; lia].
    - exact Hf0.
    - exact BfdR.
    - rewrite EF. fold D. apply Rle_trans with (1:=BF). rewrite minus_IZR, P40. simpl. lra.
    - exists rem. split; [exact E|]. split; [|rewrite EF in A5; exact A5].
      split; [exact A2|]. split; [exact A3|]. split; [|first [exact A6|apply half_slack; exact A6]].
      (* |count| <= |V rem| + |frac| *)
      rewrite EF in A5. fold D in A5.
      assert (BV : Rabs (V rem) <= 2 * (IZR (2 ^ 39) + 2048)).
      { pose proof Vp_bound. apply Rabs_le_inv in A5. apply Rabs_le_inv in H. apply Rabs_le_inv in BF.
        assert (0 < bpow radix2 (-51) <= 1) by (split; [apply bpow_gt_0|change 1 with (bpow radix2 0); apply bpow_le; lia]).
        apply Rabs_le. lra. }
      unfold V in BV. apply Rabs_le_inv in BV. apply Rabs_le_inv in A6. pose proof p50_half.
      apply Rle_trans with (2 * (IZR (2 ^ 39) + 2048) + 1); [apply Rabs_le; lra|]. rewrite P40. simpl. lra.
  Qed.

  Theorem divmod_floor (q : PrimFloat.float) (rem : ph) : op_divmod p d = Some (q, rem) ->
    fin q /\ (exists Q : Z, R_of q = IZR Q) /\ ok_ph rem /\
    Rabs (R_of q * D + V rem - V p) <= bpow radix2 (-51) /\
    - (bpow radix2 (-49) + bpow radix2 (-52) * D) <= V rem < D + (bpow radix2 (-49) + bpow radix2 (-52) * D).
  Proof.
    unfold op_divmod. pose proof p_okph as Hok. destruct (cycle_R p Hok) as (Ec & Fc & _).
    change (cycle p) with (cyc p) in Ec, Fc. set (c := cyc p) in *.
    pose proof Vp_bound as BV.
    assert (Bc : Rabs (R_of c) <= IZR (2 ^ 39) + 1).
    { rewrite Ec. apply Rabs_le. apply Rabs_le_inv in BV. split.
      - replace (- (IZR (2 ^ 39) + 1)) with (rnd (IZR (- (2 ^ 39 + 1)))) by (rewrite rnd_IZR by lia; rewrite opp_IZR, plus_IZR; reflexivity).
        apply rnd_le. rewrite opp_IZR, plus_IZR. lra.
      - replace (IZR (2 ^ 39) + 1) with (rnd (IZR (2 ^ 39 + 1))) by (rewrite rnd_IZR by lia; rewrite plus_IZR; reflexivity).
        apply rnd_le. rewrite plus_IZR. lra. }
    assert (Hvc : Rabs (R_of c - V p) <= / 2).
    { rewrite Ec. apply Rle_trans with (bpow radix2 (40 - 54)); [apply (err_lt _ 40); [lia|]|apply Rle_trans with (bpow radix2 (-1)); [apply bpow_le; lia|simpl; lra]].
      apply Rle_lt_trans with (1:=BV). rewrite P40, P41. lra. }
    destruct (Hspec c d Fc Fd Bd ltac:(apply Rle_trans with (1:=Bc); rewrite P40, P41; lra)) as [Ffd Efd].
    set (fd := np_floor_divide c d) in *. set (F := Zfloor (R_of c / R_of d)) in *. fold D in F, Efd.
    pose proof (floor_bounds (R_of c / D)) as HF. fold F in HF.
    assert (Dpos : 0 < D) by (unfold D; lra).
    assert (HF' : D * IZR F <= R_of c < D * IZR F + D).
    { destruct HF as [H1 H2]. split.
      - apply Rmult_le_reg_r with (/ D); [apply Rinv_0_lt_compat; exact Dpos|]. replace (D * IZR F * / D) with (IZR F) by (field; lra). exact H1.
      - apply Rmult_lt_reg_r with (/ D); [apply Rinv_0_lt_compat; exact Dpos|]. replace ((D * IZR F + D) * / D) with (IZR F + 1) by (field; lra). exact H2. }
    assert (BDF : Rabs (D * IZR F) <= IZR (2 ^ 39) + 2048).
    { apply Rabs_le_inv in Bc. apply Rabs_le. unfold D in *. lra. }
    destruct (rem_for fd F Ffd Efd BDF) as (r1 & E1 & Ok1 & A1). rewrite E1.
    (* the cycle of the first remainder *)
    destruct (cycle_R r1 Ok1) as (Ec1 & Fc1 & _). change (cycle r1) with (cyc r1) in Ec1, Fc1. set (c1 := cyc r1) in *.
    assert (BV1 : Rabs (V r1) <= D + 1).
    { apply Rabs_le_inv in A1. apply Rabs_le_inv in Hvc.
      assert (0 < bpow radix2 (-51) <= / 4) by (split; [apply bpow_gt_0|apply Rle_trans with (bpow radix2 (-2)); [apply bpow_le; lia|simpl; lra]]).
      apply Rabs_le. lra. }
    assert (Hrho : Rabs (R_of c1 - V r1) <= bpow radix2 (-53) * (D + 1) + eta).
    { rewrite Ec1. apply Rle_trans with (1:=gen_err (V r1)). rewrite u53_bpow.
      apply Rplus_le_compat_r. apply Rmult_le_compat_l; [apply bpow_ge_0|exact BV1]. }
    assert (Peta : 0 <= eta <= bpow radix2 (-60)) by (unfold eta; split; [apply bpow_ge_0|apply bpow_le; lia]).
    assert (P53 : 0 < bpow radix2 (-53) <= / 1024) by (split; [apply bpow_gt_0|apply Rle_trans with (bpow radix2 (-10)); [apply bpow_le; lia|simpl; lra]]).
    assert (P60 : bpow radix2 (-60) <= / 1024) by (apply Rle_trans with (bpow radix2 (-10)); [apply bpow_le; lia|simpl; lra]).
    assert (Bc1 : Rabs (R_of c1) <= bpow radix2 40).
    { apply Rabs_le_inv in Hrho. apply Rabs_le_inv in BV1. rewrite P41. apply Rabs_le. unfold D in *. nra. }
    destruct (Hspec c1 d Fc1 Fd Bd Bc1) as [Ffdx Efdx].
    set (fdx := np_floor_divide c1 d) in *. set (G := Zfloor (R_of c1 / R_of d)) in *. fold D in G, Efdx.
    pose proof (floor_bounds (R_of c1 / D)) as HG. fold G in HG.
    assert (HG' : D * IZR G <= R_of c1 < D * IZR G + D).
    { destruct HG as [H1 H2]. split.
      - apply Rmult_le_reg_r with (/ D); [apply Rinv_0_lt_compat; exact Dpos|]. replace (D * IZR G * / D) with (IZR G) by (field; lra). exact H1.
      - apply Rmult_lt_reg_r with (/ D); [apply Rinv_0_lt_compat; exact Dpos|]. replace ((D * IZR G + D) * / D) with (IZR G + 1) by (field; lra). exact H2. }
    destruct R_zero as [E0 F0].
    assert (E49 : bpow radix2 (-49) = 4 * bpow radix2 (-51)) by (change (-49)%Z with (-51 + 1 + 1)%Z; rewrite !bpow_S; ring).
    assert (E52 : bpow radix2 (-52) = 2 * bpow radix2 (-53)) by (change (-52)%Z with (-53 + 1)%Z; rewrite bpow_S; ring).
    assert (E51 : bpow radix2 (-51) = 4 * bpow radix2 (-53)) by (change (-51)%Z with (-53 + 1 + 1)%Z; rewrite !bpow_S; ring).
    assert (Small : bpow radix2 (-53) * (D + 1) + eta <= bpow radix2 (-52) * D + bpow radix2 (-51)).
    { assert (eta <= bpow radix2 (-53)) by (unfold eta; apply bpow_le; lia). nra. }
    rewrite (eqb_R fdx 0%float Ffdx F0), Efdx, E0.
    destruct (Req_bool_spec (IZR G) 0) as [G0|G0]; cbn [negb].
    - (* no second pass: G = 0 *)
      intros H. injection H as <- <-.
      split; [exact Ffd|]. split; [exists F; exact Efd|]. split; [exact Ok1|].
      split. { rewrite Efd. replace (IZR F * D + V r1 - V p) with (V r1 - (V p - D * IZR F)) by ring. exact A1. }
      rewrite G0, Rmult_0_r, Rplus_0_l in HG'. apply Rabs_le_inv in Hrho. pose proof (bpow_gt_0 radix2 (-51)). split; lra.
    - (* second pass *)
      assert (Gbound : Rabs (D * IZR G) <= 2 * (D + 1) + 2).
      { assert (S1 : bpow radix2 (-53) * (D + 1) + eta <= 2) by (unfold D in *; nra).
        apply Rabs_le_inv in Hrho. apply Rabs_le_inv in BV1. apply Rabs_le. split; lra. }
      destruct (add_R fd fdx Ffd Ffdx) as [Eq Fq].
      { rewrite Efd, Efdx, <- plus_IZR. apply Rle_lt_trans with (bpow radix2 53); [|apply bpow_lt; lia].
        assert (X : (Z.abs (F + G) <= 2 ^ 53)%Z).
        { apply le_IZR. rewrite abs_IZR, plus_IZR. apply Rle_trans with (1:=Rabs_triang _ _).
          assert (Rabs (IZR F) <= 1024 * (IZR (2 ^ 39) + 2048)).
          { rewrite Rabs_mult in BDF. assert (/ 1024 <= Rabs D) by (rewrite Rabs_pos_eq by lra; unfold D; lra). pose proof (Rabs_pos (IZR F)). nra. }
          assert (Rabs (IZR G) <= 1024 * (2 * (D + 1) + 2)).
          { rewrite Rabs_mult in Gbound. assert (/ 1024 <= Rabs D) by (rewrite Rabs_pos_eq by lra; unfold D; lra). pose proof (Rabs_pos (IZR G)). nra. }
          rewrite P40 in *. unfold D in *. simpl. lra. }
        rewrite rnd_IZR by exact X. rewrite <- abs_IZR. apply Rle_trans with (IZR (2 ^ 53)); [apply IZR_le; exact X|simpl; lra]. }
      rewrite Efd, Efdx, <- plus_IZR in Eq.
      assert (XFG : (Z.abs (F + G) <= 2 ^ 53)%Z).
      { apply le_IZR. rewrite abs_IZR, plus_IZR. apply Rle_trans with (1:=Rabs_triang _ _).
        assert (Rabs (IZR F) <= 1024 * (IZR (2 ^ 39) + 2048)).
        { rewrite Rabs_mult in BDF. assert (/ 1024 <= Rabs D) by (rewrite Rabs_pos_eq by lra; unfold D; lra). pose proof (Rabs_pos (IZR F)). nra. }
        assert (Rabs (IZR G) <= 1024 * (2 * (D + 1) + 2)).
        { rewrite Rabs_mult in Gbound. assert (/ 1024 <= Rabs D) by (rewrite Rabs_pos_eq by lra; unfold D; lra). pose proof (Rabs_pos (IZR G)). nra. }
        rewrite P40 in *. unfold D in *. simpl. lra. }
      rewrite rnd_IZR in Eq by exact XFG.
      set (fd2 := PrimFloat.add fd fdx) in *.
      assert (BDFG : Rabs (D * IZR (F + G)) <= IZR (2 ^ 39) + 2048).
      { rewrite plus_IZR, Rmult_plus_distr_l. apply Rabs_le_inv in Hrho. apply Rabs_le_inv in A1. apply Rabs_le_inv in BV.
        assert (0 < bpow radix2 (-51) <= / 4) by (split; [apply bpow_gt_0|apply Rle_trans with (bpow radix2 (-2)); [apply bpow_le; lia|simpl; lra]]).
        apply Rabs_le. unfold D in *. split; nra. }
      destruct (rem_for fd2 (F + G) Fq Eq BDFG) as (r2 & E2 & Ok2 & A2). rewrite E2.
      intros H. injection H as <- <-.
      split; [exact Fq|]. split; [exists (F + G)%Z; exact Eq|]. split; [exact Ok2|].
      split. { rewrite Eq. replace (IZR (F + G) * D + V r2 - V p) with (V r2 - (V p - D * IZR (F + G))) by ring. exact A2. }
      rewrite plus_IZR, Rmult_plus_distr_l in A2. apply Rabs_le_inv in A2. apply Rabs_le_inv in A1. apply Rabs_le_inv in Hrho.
      pose proof (bpow_gt_0 radix2 (-51)). split; lra.
  Qed.
End Floor.
