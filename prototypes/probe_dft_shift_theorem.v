(* probe: DFT algebra over an abstract commutative ring with a Z-indexed root-of-unity family *)
From Coq Require Import ZArith Lia List Ring Arith.

Section Dft.
  Variable T : Type.
  Variables (t0 t1 : T) (tadd tmul tsub : T -> T -> T) (topp : T -> T).
  Hypothesis Tring : ring_theory t0 t1 tadd tmul tsub topp (@eq T).
  Add Ring TR : Tring.
  Infix "+" := tadd. Infix "*" := tmul. Infix "-" := tsub. Notation "- x" := (topp x).
  Notation "0" := t0. Notation "1" := t1.

  (* integral domain *)
  Hypothesis Tint : forall a b, a * b = 0 -> a = 0 \/ b = 0.

  (* n-th roots of unity: W z = exp(2 pi i z / n) *)
  Variable n : nat.
  Hypothesis npos : (0 < n)%nat.
  Variable W : Z -> T.
  Hypothesis W_add : forall a b, W (a + b)%Z = W a * W b.
  Hypothesis W_0 : W 0%Z = 1.
  Hypothesis W_n : W (Z.of_nat n) = 1.
  Hypothesis W_prim : forall z, W z = 1 -> (z mod Z.of_nat n = 0)%Z.
  (* n is invertible *)
  Variable ninv : T.
  Fixpoint ofnat (k : nat) : T := match k with O => 0 | S k => ofnat k + 1 end.
  Hypothesis ninv_ok : ninv * ofnat n = 1.

  Fixpoint sumf (f : nat -> T) (k : nat) : T :=
    match k with O => 0 | S k => sumf f k + f k end.

  Lemma sumf_ext f g k : (forall i, (i < k)%nat -> f i = g i) -> sumf f k = sumf g k.
  Proof. induction k; intros H; simpl; [reflexivity|]. rewrite IHk, H by (intros; try apply H; lia). reflexivity. Qed.
  Lemma sumf_add f g k : sumf (fun i => f i + g i) k = sumf f k + sumf g k.
  Proof. induction k; simpl; [ring|]. rewrite IHk. ring. Qed.
  Lemma sumf_scal c f k : sumf (fun i => c * f i) k = c * sumf f k.
  Proof. induction k; simpl; [ring|]. rewrite IHk. ring. Qed.
  Lemma sumf_zero k : sumf (fun _ => 0) k = 0.
  Proof. induction k; simpl; [reflexivity|]. rewrite IHk. ring. Qed.
  Lemma sumf_swap (f : nat -> nat -> T) a b :
    sumf (fun i => sumf (fun j => f i j) b) a = sumf (fun j => sumf (fun i => f i j) a) b.
  Proof. induction a; simpl. - rewrite sumf_zero. reflexivity.
    - rewrite IHa, <- sumf_add. reflexivity. Qed.
  Lemma sumf_delta (g : nat -> T) (m k : nat) (d : nat -> T) :
    (forall i, i <> m -> d i = 0) -> d m = 1 -> (m < k)%nat -> sumf (fun i => g i * d i) k = g m.
  Proof. intros Hz H1. induction k; intros Hm; [lia|]. simpl.
    destruct (Nat.eq_dec m k) as [->|Hne].
    - rewrite H1. rewrite (sumf_ext _ (fun _ => 0)). rewrite sumf_zero. ring.
      intros i Hi. rewrite Hz by lia. ring.
    - rewrite IHk by lia. rewrite Hz by lia. ring. Qed.
  Lemma sumf_const c k : sumf (fun _ => c) k = c * ofnat k.
  Proof. induction k; simpl; [ring|]. rewrite IHk. ring. Qed.

  Lemma W_period z k : W (z + k * Z.of_nat n)%Z = W z.
  Proof.
    assert (P : forall k : nat, W (Z.of_nat k * Z.of_nat n)%Z = 1).
    { induction k0 as [|k0 IH]. - change (Z.of_nat 0) with 0%Z. rewrite Z.mul_0_l. apply W_0.
      - rewrite Nat2Z.inj_succ, Z.mul_succ_l, W_add, IH, W_n. ring. }
    rewrite W_add. destruct (Z_le_gt_dec 0 k).
    - rewrite <- (Z2Nat.id k) by lia. rewrite P. ring.
    - assert (E: W (k * Z.of_nat n)%Z * W (Z.of_nat (Z.to_nat (-k)) * Z.of_nat n)%Z = 1).
      { rewrite <- W_add. rewrite Z2Nat.id by lia. replace (k * Z.of_nat n + - k * Z.of_nat n)%Z with 0%Z by ring. apply W_0. }
      assert (H : W (k * Z.of_nat n)%Z = 1) by (rewrite P in E; transitivity (W (k * Z.of_nat n)%Z * 1); [ring|exact E]).
      rewrite H. ring. Qed.

  (* geometric sum / orthogonality *)
  Lemma geom z k : (W z - 1) * sumf (fun i => W (z * Z.of_nat i)%Z) k = W (z * Z.of_nat k)%Z - 1.
  Proof. induction k; cbn [sumf]. - change (Z.of_nat 0) with 0%Z. rewrite Z.mul_0_r, W_0. ring.
    - rewrite Nat2Z.inj_succ, Z.mul_succ_r, W_add.
      transitivity ((W z - 1) * sumf (fun i => W (z * Z.of_nat i)%Z) k + (W z - 1) * W (z * Z.of_nat k)%Z); [ring|].
      rewrite IHk. ring. Qed.

  Lemma orth z : (z mod Z.of_nat n <> 0)%Z -> sumf (fun i => W (z * Z.of_nat i)%Z) n = 0.
  Proof. intros Hz. pose proof (geom z n) as G.
    replace (z * Z.of_nat n)%Z with (0 + z * Z.of_nat n)%Z in G by ring.
    rewrite W_period, W_0 in G.
    assert (G' : (W z - 1) * sumf (fun i => W (z * Z.of_nat i)%Z) n = 0) by (rewrite G; ring).
    destruct (Tint _ _ G') as [H|H]; [|exact H].
    exfalso. apply Hz. apply W_prim. transitivity ((W z - 1) + 1); [ring|]. rewrite H. ring. Qed.

  Lemma orth1 z : (z mod Z.of_nat n = 0)%Z -> sumf (fun i => W (z * Z.of_nat i)%Z) n = ofnat n.
  Proof. intros Hz. rewrite (sumf_ext _ (fun _ => 1)). rewrite sumf_const. ring.
    intros i _. apply Z.mod_divide in Hz; [|lia]. destruct Hz as [q ->].
    replace (q * Z.of_nat n * Z.of_nat i)%Z with (0 + (q * Z.of_nat i) * Z.of_nat n)%Z by ring.
    rewrite W_period. apply W_0. Qed.

  Definition dft (x : nat -> T) (k : nat) : T := sumf (fun m => x m * W (- (Z.of_nat k * Z.of_nat m))%Z) n.
  Definition idft (X : nat -> T) (m : nat) : T := ninv * sumf (fun k => X k * W (Z.of_nat k * Z.of_nat m)%Z) n.

  (* diagonal operator between dft and idft with multiplier W(-k*s): integer circular delay *)
  Theorem shift_theorem (x : nat -> T) (s : Z) (m : nat) : (m < n)%nat ->
    idft (fun k => dft x k * W (- (Z.of_nat k * s))%Z) m = x (Z.to_nat ((Z.of_nat m - s) mod Z.of_nat n)).
  Proof.
    intros Hm. unfold idft, dft.
    set (m0 := Z.to_nat ((Z.of_nat m - s) mod Z.of_nat n)).
    assert (Hm0 : (m0 < n)%nat) by (unfold m0; pose proof (Z.mod_pos_bound (Z.of_nat m - s) (Z.of_nat n)); lia).
    (* push everything inside, swap sums *)
    rewrite (sumf_ext _ (fun k => sumf (fun j => x j * W ((Z.of_nat m - s - Z.of_nat j) * Z.of_nat k)%Z) n)).
    2:{ intros k _.
        transitivity ((W (- (Z.of_nat k * s))%Z * W (Z.of_nat k * Z.of_nat m)%Z) *
                      sumf (fun m1 => x m1 * W (- (Z.of_nat k * Z.of_nat m1))%Z) n); [ring|].
        rewrite <- sumf_scal. apply sumf_ext. intros j _.
        replace ((Z.of_nat m - s - Z.of_nat j) * Z.of_nat k)%Z with
          (- (Z.of_nat k * Z.of_nat j) + (- (Z.of_nat k * s) + Z.of_nat k * Z.of_nat m))%Z by ring.
        rewrite !W_add. ring. }
    rewrite sumf_swap.
    rewrite (sumf_ext _ (fun j => x j * (if Nat.eq_dec j m0 then ofnat n else 0))).
    2:{ intros j Hj. rewrite sumf_scal. f_equal. destruct (Nat.eq_dec j m0) as [->|Hne].
        - apply orth1. unfold m0. rewrite Z2Nat.id by (apply Z.mod_pos_bound; lia).
          rewrite Zminus_mod_idemp_r. replace (Z.of_nat m - s - (Z.of_nat m - s))%Z with 0%Z by ring. apply Z.mod_0_l. lia.
        - apply orth. intros E. apply Hne. unfold m0.
          assert (((Z.of_nat m - s) mod Z.of_nat n) = Z.of_nat j)%Z.
          { apply Z.mod_divide in E; [|lia]. destruct E as [q E].
            replace (Z.of_nat m - s)%Z with (Z.of_nat j + q * Z.of_nat n)%Z by lia.
            rewrite Z_mod_plus_full. apply Z.mod_small. lia. }
          lia. }
    rewrite (sumf_ext _ (fun j => (x j * ofnat n) * (if Nat.eq_dec j m0 then 1 else 0))).
    2:{ intros j _. destruct (Nat.eq_dec j m0); ring. }
    rewrite (sumf_delta (fun j => x j * ofnat n) m0 n); auto.
    - transitivity (x m0 * (ninv * ofnat n)); [ring|]. rewrite ninv_ok. ring.
    - intros i Hi. destruct (Nat.eq_dec i m0); [contradiction|reflexivity].
    - destruct (Nat.eq_dec m0 m0); [reflexivity|contradiction].
  Qed.

  Corollary dft_inv x m : (m < n)%nat -> idft (dft x) m = x m.
  Proof. intros Hm. transitivity (idft (fun k => dft x k * W (- (Z.of_nat k * 0))%Z) m).
    - unfold idft. f_equal. apply sumf_ext. intros k _. rewrite Z.mul_0_r. simpl. rewrite W_0. ring.
    - rewrite shift_theorem by exact Hm. rewrite Z.sub_0_r, Z.mod_small, Nat2Z.id by lia. reflexivity. Qed.
End Dft.

