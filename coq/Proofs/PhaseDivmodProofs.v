(* Proofs/PhaseDivmodProofs.v -- C07, floor_divide / remainder / divmod branch of the bit-exact model: whatever quotient q the branch
   returns, the remainder it returns is the phase minus q * divisor to within 2^-51 cycles, normalised, with an integer count
   (the divmod identity a = q d + r); both passes build the remainder the same way (rem_of). *)
From Coq Require Import ZArith Reals Psatz Floats Bool List Lia.
From Flocq Require Import Core BinarySingleNaN PrimFloat.
From PB Require Import Proofs.TwoSumExact Model.Phase2 Model.PhaseOrd Model.PhaseDivmod Proofs.Floor Proofs.DayFrac Proofs.DayFrac3
  Proofs.PhaseAdd Proofs.PhaseMore Proofs.DayFracTail Proofs.FoldHalf Proofs.DayFracFold Proofs.TwoProduct Proofs.PhaseMul Proofs.DivChain Proofs.PhaseArgmin Proofs.PhaseSort Proofs.PhaseRemainder.
Open Scope R_scope.

Lemma divmod_rem (p : ph) (d q : PrimFloat.float) (rem : ph) : op_divmod p d = Some (q, rem) -> rem_of p d q = Some rem.
Proof.
  unfold op_divmod. destruct (rem_of p d (np_floor_divide (cyc p) d)) as [r1|] eqn:E1; [|discriminate].
  destruct (negb (PrimFloat.eqb (np_floor_divide (cyc r1) d) 0)).
  - destruct (rem_of p d (PrimFloat.add (np_floor_divide (cyc p) d) (np_floor_divide (cyc r1) d))) as [r2|] eqn:E2; [|discriminate].
    intros H. injection H as <- <-. exact E2.
  - intros H. injection H as <- <-. exact E1.
Qed.

Lemma rem_of_unfold (p : ph) (d fd : PrimFloat.float) : p_imag p = false ->
  rem_of p d fd =
  let '(c, f) := day_frac_gen d 0 (Some fd) None in
  let '(d', f') := phase_sub (p_int p) (p_frac p) c f in
  Some {| p_int := d'; p_frac := f'; p_imag := false |}.
Proof.
  intros Hp. unfold rem_of. cbn [from_angles check_imaginary andb xorb].
  destruct (day_frac_gen d 0 (Some fd) None) as [c f].
  rewrite (op_sub_real p {| p_int := c; p_frac := f; p_imag := false |} Hp eq_refl). cbn [p_int p_frac].
  destruct (phase_sub (p_int p) (p_frac p) c f) as [d' f']. reflexivity.
Qed.

Theorem rem_of_sound (p : ph) (d fd : PrimFloat.float) (k : Z) :
  p_imag p = false -> fin (p_int p) -> fin (p_frac p) -> R_of (p_int p) = IZR k -> (Z.abs k <= 2 ^ 51 - 2)%Z ->
  Rabs (R_of (p_frac p)) <= / 2 + bpow radix2 (-50) ->
  fin d -> fin fd -> (R_of d = 0 \/ bpow radix2 (-60) <= Rabs (R_of d)) -> Rabs (R_of d) <= bpow radix2 52 ->
  (R_of fd = 0 \/ bpow radix2 (-900) <= Rabs (R_of fd)) -> Rabs (R_of fd) <= bpow radix2 400 ->
  Rabs (R_of d * R_of fd) <= IZR (2 ^ 51 - 3) ->
  exists rem, rem_of p d fd = Some rem /\ p_imag rem = false /\ fin (p_int rem) /\ fin (p_frac rem) /\
    (exists kr : Z, R_of (p_int rem) = IZR kr) /\
    Rabs (V rem - (V p - R_of d * R_of fd)) <= bpow radix2 (-51) /\
    Rabs (R_of (p_frac rem)) <= / 2.
Proof.
  intros Hp Fi Ff Ek Kk Bf Fd Ffd Hd0 Bd Hf0 Bfd Bprod. pose proof p50_half as P50.
  rewrite (rem_of_unfold p d fd Hp). destruct R_zero as [E0 F0].
  pose proof (phase_mul_sound d 0%float fd Fd F0 Ffd Bd) as HM. rewrite E0, Rabs_R0, Rplus_0_r in HM.
  assert (P51 : IZR (2 ^ 51 - 3) <= bpow radix2 52 - 2).
  { rewrite minus_IZR. assert (bpow radix2 52 = 2 * IZR (2 ^ 51)) by (simpl; lra). simpl in *. lra. }
  specialize (HM ltac:(lra) Bfd Hd0 Hf0 ltac:(lra)).
  destruct (day_frac_gen d 0 (Some fd) None) as [c f]. destruct HM as (Fc & Ffc & (kc & Ekc) & Hacc & Hfc).
  assert (Kc : (Z.abs kc <= 2 ^ 51 - 2)%Z).
  { apply Rabs_le_inv in Hacc. apply Rabs_le_inv in Hfc. apply Rabs_le_inv in Bprod.
    assert (Pm : 0 < bpow radix2 (-52) <= / 1024) by (split; [apply bpow_gt_0|apply Rle_trans with (bpow radix2 (-10)); [apply bpow_le; lia|simpl; lra]]).
    rewrite Ekc in Hacc. rewrite minus_IZR in Bprod.
    assert (IZR kc < IZR (2 ^ 51 - 2) + 1) by (rewrite minus_IZR; lra).
    assert (- (IZR (2 ^ 51 - 2) + 1) < IZR kc) by (rewrite minus_IZR; lra).
    rewrite <- plus_IZR in *. rewrite <- opp_IZR in *. apply lt_IZR in H. apply lt_IZR in H0. lia. }
  pose proof (phase_sub_sound_wide (p_int p) (p_frac p) c f k kc Fi Ff Fc Ffc Ek Ekc Kk Kc Bf (half_slack _ Hfc)) as HS.
  destruct (phase_sub (p_int p) (p_frac p) c f) as [d' f']. destruct HS as (Fd' & Ff' & Hint & Hsub & Hnorm).
  eexists. split; [reflexivity|]. cbn [p_imag p_int p_frac]. split; [reflexivity|]. split; [exact Fd'|]. split; [exact Ff'|].
  split; [exact Hint|]. split; [|exact Hnorm].
  unfold V. cbn [p_int p_frac].
  replace (R_of d' + R_of f' - (R_of (p_int p) + R_of (p_frac p) - R_of d * R_of fd))
    with ((R_of d' + R_of f' - (R_of (p_int p) + R_of (p_frac p) - (R_of c + R_of f))) - (R_of c + R_of f - R_of d * R_of fd)) by ring.
  apply Rle_trans with (1:=Rabs_sub_le _ _).
  assert (E51 : bpow radix2 (-51) = 2 * bpow radix2 (-52)) by (change (-51)%Z with (-52 + 1)%Z; rewrite bpow_S; ring).
  lra.
Qed.

(* the divmod identity for what the branch returns *)
Theorem divmod_identity (p : ph) (d q : PrimFloat.float) (rem : ph) (k : Z) :
  op_divmod p d = Some (q, rem) ->
  p_imag p = false -> fin (p_int p) -> fin (p_frac p) -> R_of (p_int p) = IZR k -> (Z.abs k <= 2 ^ 51 - 2)%Z ->
  Rabs (R_of (p_frac p)) <= / 2 + bpow radix2 (-50) ->
  fin d -> fin q -> (R_of d = 0 \/ bpow radix2 (-60) <= Rabs (R_of d)) -> Rabs (R_of d) <= bpow radix2 52 ->
  (R_of q = 0 \/ bpow radix2 (-900) <= Rabs (R_of q)) -> Rabs (R_of q) <= bpow radix2 400 ->
  Rabs (R_of d * R_of q) <= IZR (2 ^ 51 - 3) ->
  p_imag rem = false /\ fin (p_int rem) /\ fin (p_frac rem) /\ (exists kr : Z, R_of (p_int rem) = IZR kr) /\
  Rabs (R_of q * R_of d + V rem - V p) <= bpow radix2 (-51) /\ Rabs (R_of (p_frac rem)) <= / 2.
Proof.
  intros H Hp Fi Ff Ek Kk Bf Fd Fq Hd0 Bd Hq0 Bq Bprod.
  destruct (rem_of_sound p d q k Hp Fi Ff Ek Kk Bf Fd Fq Hd0 Bd Hq0 Bq Bprod) as (rem' & E & A1 & A2 & A3 & A4 & A5 & A6).
  rewrite (divmod_rem p d q rem H) in E. injection E as <-.
  split; [exact A1|]. split; [exact A2|]. split; [exact A3|]. split; [exact A4|]. split; [|exact A6].
  replace (R_of q * R_of d + V rem - V p) with (V rem - (V p - R_of d * R_of q)) by ring. exact A5.
Qed.
