(* Proofs/DispGen.v -- C05 / C06: the arithmetic of Model/Disp IS the arithmetic translated from transforms/dedispersion.py
   (Gen/GenDisp.v, regenerated on every run by T5 with its unit algebra): dispersion delay in seconds and in samples, the chirp phase in
   cycles and the sign of the exponent, which band edge feeds which delay, the crop of coherent dedispersion, and the integer bookkeeping
   of incoherent dedispersion (crop_before, shifted delays, output length, new start time). *)
From Coq Require Import ZArith QArith Qabs Qround Qminmax List Bool Lia.
From PB Require Import Lib.PySlice Gen.GenConsts Model.FastLen Model.Ledger Model.Band Model.Disp Gen.GenDisp.
Import ListNotations.
Open Scope Q_scope.

Lemma inv_MHz_sq f : 1 / (MHz f * MHz f) == (1 / (f * f)) * (1000000000000 # 1).
Proof.
  unfold MHz, Qdiv. rewrite !Qinv_mult_distr. change (/ (1 # 1000000)) with (1000000 # 1). ring.
Qed.
Lemma inv_MHz f : 1 / MHz f == (1 / f) * (1000000 # 1).
Proof. unfold MHz, Qdiv. rewrite !Qinv_mult_distr. change (/ (1 # 1000000)) with (1000000 # 1). ring. Qed.

Theorem time_delay_generated dm f fr : time_delay dm f fr == gen_time_delay dm f fr.
Proof.
  unfold time_delay, gen_time_delay. rewrite !inv_MHz_sq. unfold Kdisp. change dispersion_literal with (241 # 1000000). ring.
Qed.
Theorem sample_delay_generated dm f fr rate : sample_delay dm f fr rate == gen_sample_delay dm f fr rate.
Proof. unfold sample_delay, gen_sample_delay. rewrite time_delay_generated. reflexivity. Qed.
Theorem chirp_phase_generated dm f fr : chirp_phase dm f fr == gen_chirp_phase dm f fr.
Proof.
  unfold chirp_phase, gen_chirp_phase. rewrite !inv_MHz. unfold Kdisp, MHz. change dispersion_literal with (241 # 1000000). ring.
Qed.
(* the transfer function is exp(-2 pi i phase): the sign the source writes *)
Theorem chirp_sign_generated : gen_chirp_sign = (-1)%Z.
Proof. reflexivity. Qed.

Theorem crop_start_generated dtop dbot : crop_start dtop dbot = gen_crop_start dtop dbot.
Proof. reflexivity. Qed.
Theorem crop_stop_generated N dtop dbot : crop_stop N dtop dbot = gen_crop_stop N dtop dbot.
Proof. reflexivity. Qed.

Lemma Qmin_comp' a b c d : a == b -> c == d -> Qmin a c == Qmin b d.
Proof. intros H1 H2. rewrite H1, H2. reflexivity. Qed.
Lemma Qmax_comp' a b c d : a == b -> c == d -> Qmax a c == Qmax b d.
Proof. intros H1 H2. rewrite H1, H2. reflexivity. Qed.

(* the whole crop of coherent_dedispersion: the top delay from max_freq, the bottom delay from min_freq, start and stop as generated *)
Theorem coherent_crop_generated (l : ledger) (fmax fmin dm fr : Q) :
  coherent_crop l fmax fmin dm fr =
  step l (ODedispCrop (gen_crop_start (gen_delay_top dm fmax fmin fr (rate l)) (gen_delay_bot dm fmax fmin fr (rate l)))
                      (gen_crop_stop (len l) (gen_delay_top dm fmax fmin fr (rate l)) (gen_delay_bot dm fmax fmin fr (rate l)))).
Proof.
  unfold coherent_crop, gen_delay_top, gen_delay_bot. cbv zeta.
  assert (A : crop_start (sample_delay dm fmax fr (rate l)) (sample_delay dm fmin fr (rate l)) =
              gen_crop_start (gen_sample_delay dm fmax fr (rate l)) (gen_sample_delay dm fmin fr (rate l))).
  { unfold crop_start, gen_crop_start. apply Qceiling_comp. apply Qopp_comp. apply Qmin_comp'; [reflexivity|].
    apply Qmin_comp'; apply sample_delay_generated. }
  assert (B : crop_stop (len l) (sample_delay dm fmax fr (rate l)) (sample_delay dm fmin fr (rate l)) =
              gen_crop_stop (len l) (gen_sample_delay dm fmax fr (rate l)) (gen_sample_delay dm fmin fr (rate l))).
  { unfold crop_stop, gen_crop_stop. f_equal. apply Qceiling_comp. apply Qmax_comp'; [reflexivity|].
    apply Qmax_comp'; apply sample_delay_generated. }
  rewrite A, B. reflexivity.
Qed.

(* incoherent dedispersion: the bookkeeping terms of the model are the generated ones *)
Theorem incoherent_generated (l : ledger) (ds : list Z) :
  incoherent l ds =
  match ds with
  | [] => IErr 1
  | d0 :: _ =>
    let cb := gen_inc_crop_before d0 (last ds d0) in
    let ds' := map (gen_inc_shift cb) ds in
    let N := gen_inc_N (len l) (zmax_list (d0 + cb) ds') in
    let lens := map (fun j => match slice_indices (Some j) (Some (j + N)%Z) None (len l) with
                              | Some (lo, hi, st) => range_len lo hi st | None => 0%Z end) ds' in
    match lens with
    | [] => IErr 1
    | n0 :: _ =>
      if forallb (fun n => (n =? n0)%Z) lens then
        IOk {| t0 := gen_inc_start (t0 l) cb (1 / rate l); rate := rate l; len := n0 |} cb ds'
      else IErr 1
    end
  end.
Proof. reflexivity. Qed.
