(* Model/Reader.v -- readers (C11): position arithmetic (time_at / offset_at / bounds of read), the per-call file handle of
   BasebandReader._read_baseband (open, seek, read, close on an immutable file) under arbitrary interleaving of concurrent
   reads, the real-baseband doubling of offsets, and the axis layouts.  No proofs in this file. *)
From Coq Require Import ZArith QArith Qround List Bool.
From PB Require Import Model.Disp.
Import ListNotations.
Open Scope Z_scope.

Record reader := { r_len : Z; r_rate : Q; r_t0 : option Q; r_real : bool }.

(* time_at(offset) = start_time + offset / sample_rate ; relative form: offset / sample_rate *)
Definition time_rel (r : reader) (k : Z) : Q := (inject_Z k / r_rate r)%Q.
Definition time_at (r : reader) (k : Z) : option Q := match r_t0 r with Some t => Some (t + time_rel r k)%Q | None => None end.
(* offset_at(t): int(round((t - start) * rate)), OutOfBoundsError outside [0, len]; np.round = half to even *)
Definition offset_rel (r : reader) (dt : Q) : option Z :=
  let o := round_half_even (dt * r_rate r)%Q in if (o <? 0) || (r_len r <? o) then None else Some o.
Definition offset_at (r : reader) (t : Q) : option Z :=
  match r_t0 r with Some t0 => offset_rel r (t - t0)%Q | None => None end.

(* read(offset, n): 1 = ValueError (negative), 2 = OutOfBoundsError; else (length, start time, file range [lo, hi)) *)
Inductive rres := RErr (e : Z) | ROk (n : Z) (start : option Q) (lo hi : Z).
Definition read (r : reader) (offset n : Z) : rres :=
  if offset <? 0 then RErr 1 else if n <? 0 then RErr 1
  else if r_len r <? offset + n then RErr 2
  else if r_real r then ROk n (time_at r offset) (2 * offset) (2 * offset + 2 * n)      (* fh.seek(2*offset); fh.read(2*n) *)
  else ROk n (time_at r offset) offset (offset + n).
(* the underlying file of a reader: real baseband holds two real samples per complex output sample *)
Definition file_len (r : reader) : Z := if r_real r then 2 * r_len r else r_len r.

(* ---------- per-call handles on an immutable file, any interleaving ---------- *)
Section Handles.
  Variable Smp : Type.
  Variable file : list Smp.
  (* a read request in file coordinates: (seek position, count).  Local state: program counter, cursor, result *)
  Record lstate := { pc : nat; cursor : Z; result : option (list Smp) }.
  Definition linit : lstate := {| pc := 0; cursor := -1; result := None |}.
  Definition lstep (req : Z * Z) (s : lstate) : lstate :=
    match pc s with
    | 0%nat => {| pc := 1; cursor := 0; result := None |}                                   (* baseband.open *)
    | 1%nat => {| pc := 2; cursor := fst req; result := None |}                             (* fh.seek *)
    | 2%nat => {| pc := 3; cursor := cursor s + snd req;
                  result := Some (firstn (Z.to_nat (snd req)) (skipn (Z.to_nat (cursor s)) file)) |}   (* fh.read *)
    | 3%nat => {| pc := 4; cursor := -1; result := result s |}                              (* close *)
    | _ => s
    end.
  Fixpoint iter (k : nat) (req : Z * Z) (s : lstate) : lstate := match k with O => s | S k' => iter k' req (lstep req s) end.
  Definition read_seq (req : Z * Z) : option (list Smp) := result (iter 4 req linit).

  (* concurrent reads: thread i executes request i; a schedule is a list of thread indices; one atomic step each *)
  Fixpoint upd {A} (l : list A) (i : nat) (f : A -> A) : list A :=
    match l, i with
    | [], _ => []
    | x :: r, O => f x :: r
    | x :: r, S j => x :: upd r j f
    end.
  Fixpoint run (reqs : list (Z * Z)) (sched : list nat) (st : list lstate) : list lstate :=
    match sched with
    | [] => st
    | i :: rest => run reqs rest (upd st i (lstep (nth i reqs (0, 0))))
    end.
  Definition count (i : nat) (sched : list nat) : nat := length (filter (Nat.eqb i) sched).
End Handles.

(* ---------- layouts (index maps from output to the baseband stream's sample array) ---------- *)
(* GUPPI: z.transpose(0, 2, 1): out[t, c, p] = raw[t, p, c] *)
Definition guppi_src (t c p : Z) : Z * Z * Z := (t, p, c).
(* DADA Stokes: flip over the last raw axis when lower sideband, then transpose(0, 2, 1): out[t, c, s] = raw[t, s, (nchan-1-c | c)] *)
Definition stokes_src (nchan : Z) (lsb : bool) (t c s : Z) : Z * Z * Z := (t, s, if lsb then nchan - 1 - c else c).
