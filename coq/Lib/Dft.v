(* Lib/Dft.v -- DFT algebra over an abstract commutative integral domain with a Z-indexed family of n-th
   roots of unity (Section hypotheses, no axioms): orthogonality, inversion, shift theorem (C03, C12),
   modulation theorem (C04), eigen-property of diagonal operators on tones, and -- with a conjugation --
   the real-part theorem of the Hilbert-weighted inverse (C19). *)
From Coq Require Import ZArith Lia List Ring Arith.

Section Dft.
  Variable T : Type.
  Variables (t0 t1 : T) (tadd tmul tsub : T -> T -> T) (topp : T -> T).
  Hypothesis Tring : ring_theory t0 t1 tadd tmul tsub topp (@eq T).
  Add Ring TR : Tring.
  Infix "+" := tadd. Infix "*" := tmul. Infix "-" := tsub. Notation "- x" := (topp x).
  Notation "0" := t0. Notation "1" := t1.

  (* integral domain *)
  Hypothesis Tint : forall a b, a * b = 0 -> a = 0 \/ b = 0.

  (* n-th roots of unity: W z = exp(2 pi i z / n) *)
  Variable n : nat.
  Hypothesis npos : (0 < n)%nat.
  Variable W : Z -> T.
  Hypothesis W_add : forall a b, W (a + b)%Z = W a * W b.
  Hypothesis W_0 : W 0%Z = 1.
  Hypothesis W_n : W (Z.of_nat n) = 1.
  Hypothesis W_prim : forall z, W z = 1 -> (z mod Z.of_nat n = 0)%Z.
  (* n is invertible *)
  Variable ninv : T.
  Fixpoint ofnat (k : nat) : T := match k with O => 0 | S k => ofnat k + 1 end.
  Hypothesis ninv_ok : ninv * ofnat n = 1.

  Fixpoint sumf (f : nat -> T) (k : nat) : T :=
    match k with O => 0 | S k => sumf f k + f k end.

  Lemma sumf_ext f g k : (forall i, (i < k)%nat -> f i = g i) -> sumf f k = sumf g k.
  Proof. induction k; intros H; simpl; [reflexivity|]. rewrite IHk, H by (intros; try apply H; lia). reflexivity. Qed.
  Lemma sumf_add f g k : sumf (fun i => f i + g i) k = sumf f k + sumf g k.
  Proof. induction k; simpl; [ring|]. rewrite IHk. ring. Qed.
  Lemma sumf_scal c f k : sumf (fun i => c * f i) k = c * sumf f k.
  Proof. induction k; simpl; [ring|]. rewrite IHk. ring. Qed.
  Lemma sumf_zero k : sumf (fun _ => 0) k = 0.
  Proof. induction k; simpl; [reflexivity|]. rewrite IHk. ring. Qed.
  Lemma sumf_swap (f : nat -> nat -> T) a b :
    sumf (fun i => sumf (fun j => f i j) b) a = sumf (fun j => sumf (fun i => f i j) a) b.
  Proof. induction a; simpl. - rewrite sumf_zero. reflexivity.
    - rewrite IHa, <- sumf_add. reflexivity. Qed.
  Lemma sumf_delta (g : nat -> T) (m k : nat) (d : nat -> T) :
    (forall i, i <> m -> d i = 0) -> d m = 1 -> (m < k)%nat -> sumf (fun i => g i * d i) k = g m.
  Proof. intros Hz H1. induction k; intros Hm; [lia|]. simpl.
    destruct (Nat.eq_dec m k) as [->|Hne].
    - rewrite H1. rewrite (sumf_ext _ (fun _ => 0)). rewrite sumf_zero. ring.
      intros i Hi. rewrite Hz by lia. ring.
    - rewrite IHk by lia. rewrite Hz by lia. ring. Qed.
  Lemma sumf_const c k : sumf (fun _ => c) k = c * ofnat k.
  Proof. induction k; simpl; [ring|]. rewrite IHk. ring. Qed.

  Lemma W_period z k : W (z + k * Z.of_nat n)%Z = W z.
  Proof.
    assert (P : forall k : nat, W (Z.of_nat k * Z.of_nat n)%Z = 1).
    { induction k0 as [|k0 IH]. - change (Z.of_nat 0) with 0%Z. rewrite Z.mul_0_l. apply W_0.
      - rewrite Nat2Z.inj_succ, Z.mul_succ_l, W_add, IH, W_n. ring. }
    rewrite W_add. destruct (Z_le_gt_dec 0 k).
    - rewrite <- (Z2Nat.id k) by lia. rewrite P. ring.
    - assert (E: W (k * Z.of_nat n)%Z * W (Z.of_nat (Z.to_nat (-k)) * Z.of_nat n)%Z = 1).
      { rewrite <- W_add. rewrite Z2Nat.id by lia. replace (k * Z.of_nat n + - k * Z.of_nat n)%Z with 0%Z by ring. apply W_0. }
      assert (H : W (k * Z.of_nat n)%Z = 1) by (rewrite P in E; transitivity (W (k * Z.of_nat n)%Z * 1); [ring|exact E]).
      rewrite H. ring. Qed.

  (* geometric sum / orthogonality *)
  Lemma geom z k : (W z - 1) * sumf (fun i => W (z * Z.of_nat i)%Z) k = W (z * Z.of_nat k)%Z - 1.
  Proof. induction k; cbn [sumf]. - change (Z.of_nat 0) with 0%Z. rewrite Z.mul_0_r, W_0. ring.
    - rewrite Nat2Z.inj_succ, Z.mul_succ_r, W_add.
      transitivity ((W z - 1) * sumf (fun i => W (z * Z.of_nat i)%Z) k + (W z - 1) * W (z * Z.of_nat k)%Z); [ring|].
      rewrite IHk. ring. Qed.

  Lemma orth z : (z mod Z.of_nat n <> 0)%Z -> sumf (fun i => W (z * Z.of_nat i)%Z) n = 0.
  Proof. intros Hz. pose proof (geom z n) as G.
    replace (z * Z.of_nat n)%Z with (0 + z * Z.of_nat n)%Z in G by ring.
    rewrite W_period, W_0 in G.
    assert (G' : (W z - 1) * sumf (fun i => W (z * Z.of_nat i)%Z) n = 0) by (rewrite G; ring).
    destruct (Tint _ _ G') as [H|H]; [|exact H].
    exfalso. apply Hz. apply W_prim. transitivity ((W z - 1) + 1); [ring|]. rewrite H. ring. Qed.

  Lemma orth1 z : (z mod Z.of_nat n = 0)%Z -> sumf (fun i => W (z * Z.of_nat i)%Z) n = ofnat n.
  Proof. intros Hz. rewrite (sumf_ext _ (fun _ => 1)). rewrite sumf_const. ring.
    intros i _. apply Z.mod_divide in Hz; [|lia]. destruct Hz as [q ->].
    replace (q * Z.of_nat n * Z.of_nat i)%Z with (0 + (q * Z.of_nat i) * Z.of_nat n)%Z by ring.
    rewrite W_period. apply W_0. Qed.

  Definition dft (x : nat -> T) (k : nat) : T := sumf (fun m => x m * W (- (Z.of_nat k * Z.of_nat m))%Z) n.
  Definition idft (X : nat -> T) (m : nat) : T := ninv * sumf (fun k => X k * W (Z.of_nat k * Z.of_nat m)%Z) n.

  (* diagonal operator between dft and idft with multiplier W(-k*s): integer circular delay *)
  Theorem shift_theorem (x : nat -> T) (s : Z) (m : nat) : (m < n)%nat ->
    idft (fun k => dft x k * W (- (Z.of_nat k * s))%Z) m = x (Z.to_nat ((Z.of_nat m - s) mod Z.of_nat n)).
  Proof.
    intros Hm. unfold idft, dft.
    set (m0 := Z.to_nat ((Z.of_nat m - s) mod Z.of_nat n)).
    assert (Hm0 : (m0 < n)%nat) by (unfold m0; pose proof (Z.mod_pos_bound (Z.of_nat m - s) (Z.of_nat n)); lia).
    (* push everything inside, swap sums *)
    rewrite (sumf_ext _ (fun k => sumf (fun j => x j * W ((Z.of_nat m - s - Z.of_nat j) * Z.of_nat k)%Z) n)).
    2:{ intros k _.
        transitivity ((W (- (Z.of_nat k * s))%Z * W (Z.of_nat k * Z.of_nat m)%Z) *
                      sumf (fun m1 => x m1 * W (- (Z.of_nat k * Z.of_nat m1))%Z) n); [ring|].
        rewrite <- sumf_scal. apply sumf_ext. intros j _.
        replace ((Z.of_nat m - s - Z.of_nat j) * Z.of_nat k)%Z with
          (- (Z.of_nat k * Z.of_nat j) + (- (Z.of_nat k * s) + Z.of_nat k * Z.of_nat m))%Z by ring.
        rewrite !W_add. ring. }
    rewrite sumf_swap.
    rewrite (sumf_ext _ (fun j => x j * (if Nat.eq_dec j m0 then ofnat n else 0))).
    2:{ intros j Hj. rewrite sumf_scal. f_equal. destruct (Nat.eq_dec j m0) as [->|Hne].
        - apply orth1. unfold m0. rewrite Z2Nat.id by (apply Z.mod_pos_bound; lia).
          rewrite Zminus_mod_idemp_r. replace (Z.of_nat m - s - (Z.of_nat m - s))%Z with 0%Z by ring. apply Z.mod_0_l. lia.
        - apply orth. intros E. apply Hne. unfold m0.
          assert (((Z.of_nat m - s) mod Z.of_nat n) = Z.of_nat j)%Z.
          { apply Z.mod_divide in E; [|lia]. destruct E as [q E].
            replace (Z.of_nat m - s)%Z with (Z.of_nat j + q * Z.of_nat n)%Z by lia.
            rewrite Z_mod_plus_full. apply Z.mod_small. lia. }
          lia. }
    rewrite (sumf_ext _ (fun j => (x j * ofnat n) * (if Nat.eq_dec j m0 then 1 else 0))).
    2:{ intros j _. destruct (Nat.eq_dec j m0); ring. }
    rewrite (sumf_delta (fun j => x j * ofnat n) m0 n); auto.
    - transitivity (x m0 * (ninv * ofnat n)); [ring|]. rewrite ninv_ok. ring.
    - intros i Hi. destruct (Nat.eq_dec i m0); [contradiction|reflexivity].
    - destruct (Nat.eq_dec m0 m0); [reflexivity|contradiction].
  Qed.

  Corollary dft_inv x m : (m < n)%nat -> idft (dft x) m = x m.
  Proof. intros Hm. transitivity (idft (fun k => dft x k * W (- (Z.of_nat k * 0))%Z) m).
    - unfold idft. f_equal. apply sumf_ext. intros k _. rewrite Z.mul_0_r. simpl. rewrite W_0. ring.
    - rewrite shift_theorem by exact Hm. rewrite Z.sub_0_r, Z.mod_small, Nat2Z.id by lia. reflexivity. Qed.

  (* ---- signed frequencies: for integer shifts the fftfreq ramp equals the unsigned one ---- *)
  Lemma ramp_signed (k : nat) (s : Z) : W (- ((Z.of_nat k - Z.of_nat n) * s))%Z = W (- (Z.of_nat k * s))%Z.
  Proof.
    replace (- ((Z.of_nat k - Z.of_nat n) * s))%Z with (- (Z.of_nat k * s) + s * Z.of_nat n)%Z by ring.
    apply W_period.
  Qed.

  (* ---- modulation theorem (freq_shift by whole bins): mixing with W(b*m) moves bin k-b to bin k ---- *)
  Theorem modulation_theorem (x : nat -> T) (b : Z) (k : nat) : (k < n)%nat ->
    dft (fun m => x m * W (b * Z.of_nat m)%Z) k = dft x (Z.to_nat ((Z.of_nat k - b) mod Z.of_nat n)).
  Proof.
    intros Hk. unfold dft. apply sumf_ext. intros m _.
    set (k' := Z.to_nat ((Z.of_nat k - b) mod Z.of_nat n)).
    assert (Hk' : (Z.of_nat k' = (Z.of_nat k - b) mod Z.of_nat n)%Z).
    { unfold k'. rewrite Z2Nat.id; [reflexivity|]. apply Z.mod_pos_bound. lia. }
    pose proof (Z.div_mod (Z.of_nat k - b) (Z.of_nat n) ltac:(lia)) as D.
    transitivity (x m * (W (b * Z.of_nat m)%Z * W (- (Z.of_nat k * Z.of_nat m))%Z)); [ring|].
    rewrite <- W_add. f_equal.
    replace (b * Z.of_nat m + - (Z.of_nat k * Z.of_nat m))%Z with
      (- (Z.of_nat k' * Z.of_nat m) + (- ((Z.of_nat k - b) / Z.of_nat n) * Z.of_nat m) * Z.of_nat n)%Z by (rewrite Hk'; nia).
    apply W_period.
  Qed.

  (* ---- diagonal operators: a tone at bin k0 is an eigenvector with eigenvalue M k0 ---- *)
  Definition tone (k0 : nat) (m : nat) : T := W (Z.of_nat k0 * Z.of_nat m)%Z.

  Lemma dft_tone k0 k : (k0 < n)%nat -> (k < n)%nat -> dft (tone k0) k = if Nat.eq_dec k k0 then ofnat n else 0.
  Proof.
    intros H0 Hk. unfold dft, tone.
    rewrite (sumf_ext _ (fun m => W ((Z.of_nat k0 - Z.of_nat k) * Z.of_nat m)%Z)).
    2:{ intros m _. rewrite <- W_add. f_equal. ring. }
    destruct (Nat.eq_dec k k0) as [->|Hne].
    - apply orth1. rewrite Z.sub_diag. apply Z.mod_0_l. lia.
    - apply orth. intros E. apply Hne. apply Z.mod_divide in E; [|lia]. destruct E as [q E].
      assert (q = 0)%Z by nia. lia.
  Qed.

  Theorem diag_tone (M : nat -> T) k0 m : (k0 < n)%nat ->
    idft (fun k => dft (tone k0) k * M k) m = M k0 * tone k0 m.
  Proof.
    intros H0. unfold idft.
    rewrite (sumf_ext _ (fun k => (ofnat n * M k0 * W (Z.of_nat k0 * Z.of_nat m)%Z) * (if Nat.eq_dec k k0 then 1 else 0))).
    2:{ intros k Hk. rewrite dft_tone by assumption. destruct (Nat.eq_dec k k0) as [->|]; ring. }
    rewrite (sumf_delta (fun _ => ofnat n * M k0 * W (Z.of_nat k0 * Z.of_nat m)%Z) k0 n).
    - unfold tone. transitivity ((ninv * ofnat n) * (M k0 * W (Z.of_nat k0 * Z.of_nat m)%Z)); [ring|]. rewrite ninv_ok. ring.
    - intros i Hi. destruct (Nat.eq_dec i k0); [contradiction|reflexivity].
    - destruct (Nat.eq_dec k0 k0); [reflexivity|contradiction].
    - exact H0.
  Qed.

  (* the operator is linear: together with diag_tone this is "the DFT interpolant evaluated with multiplier M" *)
  Lemma dft_add x y k : dft (fun m => x m + y m) k = dft x k + dft y k.
  Proof. unfold dft. rewrite <- sumf_add. apply sumf_ext. intros; ring. Qed.
  Lemma dft_scal c x k : dft (fun m => c * x m) k = c * dft x k.
  Proof. unfold dft. rewrite <- sumf_scal. apply sumf_ext. intros; ring. Qed.
  Lemma diag_linear (M : nat -> T) a x b y m :
    idft (fun k => dft (fun j => a * x j + b * y j) k * M k) m =
    a * idft (fun k => dft x k * M k) m + b * idft (fun k => dft y k * M k) m.
  Proof.
    unfold idft. rewrite (sumf_ext _ (fun k => a * (dft x k * M k * W (Z.of_nat k * Z.of_nat m)%Z) + b * (dft y k * M k * W (Z.of_nat k * Z.of_nat m)%Z))).
    - rewrite sumf_add, !sumf_scal. ring.
    - intros k _. rewrite dft_add, !dft_scal. ring.
  Qed.

  (* ---- the other inverse, and spectral filters (multiply bin k by H k): composition and inversion ---- *)
  Theorem dft_idft (X : nat -> T) (k : nat) : (k < n)%nat -> dft (idft X) k = X k.
  Proof.
    intros Hk. unfold dft, idft.
    rewrite (sumf_ext _ (fun m => sumf (fun j => (ninv * X j) * W ((Z.of_nat j - Z.of_nat k) * Z.of_nat m)%Z) n)).
    2:{ intros m _. transitivity (sumf (fun j => (ninv * W (- (Z.of_nat k * Z.of_nat m))%Z) * (X j * W (Z.of_nat j * Z.of_nat m)%Z)) n).
        - rewrite sumf_scal. ring.
        - apply sumf_ext. intros j _.
          replace ((Z.of_nat j - Z.of_nat k) * Z.of_nat m)%Z with (Z.of_nat j * Z.of_nat m + - (Z.of_nat k * Z.of_nat m))%Z by ring.
          rewrite W_add. ring. }
    rewrite sumf_swap.
    rewrite (sumf_ext _ (fun j => (ninv * X j * ofnat n) * (if Nat.eq_dec j k then 1 else 0))).
    2:{ intros j Hj. rewrite sumf_scal. destruct (Nat.eq_dec j k) as [->|Hne].
        - rewrite orth1; [ring|]. rewrite Z.sub_diag. apply Z.mod_0_l. lia.
        - rewrite orth; [ring|]. intros E. apply Hne. apply Z.mod_divide in E; [|lia]. destruct E as [q E].
          assert (q = 0)%Z by nia. lia. }
    rewrite (sumf_delta (fun j => ninv * X j * ofnat n) k n).
    - transitivity (X k * (ninv * ofnat n)); [ring|]. rewrite ninv_ok. ring.
    - intros i Hi. destruct (Nat.eq_dec i k); [contradiction|reflexivity].
    - destruct (Nat.eq_dec k k); [reflexivity|contradiction].
    - exact Hk.
  Qed.

  Definition filt (H x : nat -> T) : nat -> T := idft (fun k => dft x k * H k).
  Lemma dft_filt H x k : (k < n)%nat -> dft (filt H x) k = dft x k * H k.
  Proof. intros Hk. unfold filt. apply (dft_idft (fun k => dft x k * H k) k Hk). Qed.
  Theorem filt_compose H1 H2 x m : filt H2 (filt H1 x) m = filt (fun k => H1 k * H2 k) x m.
  Proof. unfold filt at 1 3. unfold idft. f_equal. apply sumf_ext. intros k Hk. rewrite dft_filt by exact Hk. ring. Qed.
  Theorem filt_inverse H1 H2 x m : (forall k, (k < n)%nat -> H1 k * H2 k = 1) -> (m < n)%nat -> filt H2 (filt H1 x) m = x m.
  Proof.
    intros HH Hm. rewrite filt_compose. rewrite <- (dft_inv x m Hm). unfold filt, idft. f_equal. apply sumf_ext.
    intros k Hk. rewrite (HH k Hk). ring.
  Qed.
  Lemma filt_tone H k0 m : (k0 < n)%nat -> filt H (tone k0) m = H k0 * tone k0 m.
  Proof. intros H0. apply diag_tone. exact H0. Qed.
  Lemma filt_linear H a x b y m : filt H (fun j => a * x j + b * y j) m = a * filt H x m + b * filt H y m.
  Proof. apply diag_linear. Qed.

  (* ---- conjugation: real-part theorem for Hilbert-type weights ---- *)
  Variable conj : T -> T.
  Hypothesis conj_add : forall a b, conj (a + b) = conj a + conj b.
  Hypothesis conj_mul : forall a b, conj (a * b) = conj a * conj b.
  Hypothesis conj_0 : conj 0 = 0.
  Hypothesis conj_W : forall z, conj (W z) = W (- z)%Z.
  Hypothesis conj_ninv : conj ninv = ninv.

  Lemma conj_sumf f k : conj (sumf f k) = sumf (fun i => conj (f i)) k.
  Proof. induction k; simpl; [apply conj_0|]. rewrite conj_add, IHk. reflexivity. Qed.

  (* sum reversal and the re-indexing k -> (n - k) mod n *)
  Lemma sumf_first g p : sumf g (S p) = g 0%nat + sumf (fun i => g (S i)) p.
  Proof. induction p; [simpl; ring|]. cbn [sumf] in *. rewrite IHp. ring. Qed.

  Lemma sumf_rev : forall k f, sumf (fun i => f (k - 1 - i)%nat) k = sumf f k.
  Proof.
    induction k as [|k IH]; intros f; [reflexivity|].
    rewrite (sumf_first f k). cbn [sumf]. replace (S k - 1 - k)%nat with 0%nat by lia.
    rewrite (sumf_ext _ (fun i => (fun j => f (S j)) (k - 1 - i)%nat)) by (intros i Hi; cbv beta; f_equal; lia).
    rewrite (IH (fun j => f (S j))). ring.
  Qed.

  Definition negidx (k : nat) : nat := Z.to_nat ((Z.of_nat n - Z.of_nat k) mod Z.of_nat n).
  Lemma negidx_0 : negidx 0 = 0%nat.
  Proof. unfold negidx. rewrite Z.sub_0_r, Z.mod_same by lia. reflexivity. Qed.
  Lemma negidx_pos k : (0 < k < n)%nat -> negidx k = (n - k)%nat.
  Proof. intros H. unfold negidx. rewrite Z.mod_small by lia. lia. Qed.

  Lemma sumf_negidx f : sumf (fun k => f (negidx k)) n = sumf f n.
  Proof.
    pose (p := Nat.pred n). assert (En : n = S p) by (unfold p; lia).
    rewrite En. (* split off k = 0 on both sides *)
    rewrite (sumf_first (fun k => f (negidx k))), (sumf_first f). rewrite negidx_0. f_equal.
    rewrite (sumf_ext _ (fun i => (fun j => f (S j)) (p - 1 - i)%nat)).
    - apply (sumf_rev p (fun j => f (S j))).
    - intros i Hi. f_equal. rewrite negidx_pos by lia. lia.
  Qed.

  (* conjugate symmetry of the DFT of a real (conj-fixed) sequence *)
  Lemma dft_conj_sym x k : (forall m, conj (x m) = x m) -> (k < n)%nat -> conj (dft x k) = dft x (negidx k).
  Proof.
    intros Hx Hk. unfold dft. rewrite conj_sumf. apply sumf_ext. intros m _.
    rewrite conj_mul, Hx, conj_W. f_equal.
    assert (E : (Z.of_nat (negidx k) = (Z.of_nat n - Z.of_nat k) mod Z.of_nat n)%Z).
    { unfold negidx. rewrite Z2Nat.id; [reflexivity|]. apply Z.mod_pos_bound. lia. }
    pose proof (Z.div_mod (Z.of_nat n - Z.of_nat k) (Z.of_nat n) ltac:(lia)) as D.
    replace (- - (Z.of_nat k * Z.of_nat m))%Z with
      (- (Z.of_nat (negidx k) * Z.of_nat m) + ((1 - (Z.of_nat n - Z.of_nat k) / Z.of_nat n) * Z.of_nat m) * Z.of_nat n)%Z by (rewrite E; nia).
    apply W_period.
  Qed.

  (* weights h with h k + h (negidx k) = two  ==>  analytic + conj analytic = two * x  (Re(analytic) = x) *)
  Theorem hilbert_real_part (h : nat -> T) (two : T) x m :
    (forall k, conj (h k) = h k) -> (forall k, (k < n)%nat -> h k + h (negidx k) = two) ->
    (forall j, conj (x j) = x j) -> (m < n)%nat ->
    let a := idft (fun k => dft x k * h k) m in
    a + conj a = two * x m.
  Proof.
    intros Hh Hpair Hx Hm a. unfold a, idft.
    rewrite conj_mul, conj_ninv, conj_sumf.
    (* conj side: re-index through negidx *)
    rewrite (sumf_ext (fun i => conj (dft x i * h i * W (Z.of_nat i * Z.of_nat m)%Z))
                      (fun i => (fun k => dft x k * h (negidx k) * W (Z.of_nat k * Z.of_nat m)%Z) (negidx i))).
    2:{ intros k Hk. rewrite !conj_mul, (dft_conj_sym x k Hx Hk), Hh, conj_W.
        assert (Hnk : (negidx k < n)%nat) by (unfold negidx; pose proof (Z.mod_pos_bound (Z.of_nat n - Z.of_nat k) (Z.of_nat n)); lia).
        assert (Hnn : negidx (negidx k) = k).
        { destruct k; [rewrite negidx_0; apply negidx_0|]. rewrite (negidx_pos (S k)) by lia.
          destruct (Nat.eq_dec (n - S k) 0); [lia|]. rewrite negidx_pos by lia. lia. }
        rewrite Hnn. f_equal.
        assert (E : (Z.of_nat (negidx k) = (Z.of_nat n - Z.of_nat k) mod Z.of_nat n)%Z).
        { unfold negidx. rewrite Z2Nat.id; [reflexivity|]. apply Z.mod_pos_bound. lia. }
        pose proof (Z.div_mod (Z.of_nat n - Z.of_nat k) (Z.of_nat n) ltac:(lia)) as D.
        replace (- (Z.of_nat k * Z.of_nat m))%Z with
          (Z.of_nat (negidx k) * Z.of_nat m + (((Z.of_nat n - Z.of_nat k) / Z.of_nat n - 1) * Z.of_nat m) * Z.of_nat n)%Z by (rewrite E; nia).
        apply W_period. }
    rewrite (sumf_negidx (fun k => dft x k * h (negidx k) * W (Z.of_nat k * Z.of_nat m)%Z)).
    transitivity (ninv * sumf (fun k => two * (dft x k * W (Z.of_nat k * Z.of_nat m)%Z)) n).
    - transitivity (ninv * (sumf (fun k => dft x k * h k * W (Z.of_nat k * Z.of_nat m)%Z) n +
                            sumf (fun k => dft x k * h (negidx k) * W (Z.of_nat k * Z.of_nat m)%Z) n)); [ring|].
      rewrite <- sumf_add. f_equal. apply sumf_ext. intros k Hk. rewrite <- (Hpair k Hk). ring.
    - rewrite sumf_scal. pose proof (dft_inv x m Hm) as I. unfold idft in I.
      transitivity (two * (ninv * sumf (fun k => dft x k * W (Z.of_nat k * Z.of_nat m)%Z) n)); [ring|]. rewrite I. reflexivity.
  Qed.
End Dft.

