"""C06: dispersion delays obey the f^-2 law; incoherent dedispersion realigns by them.
(P) Props/C06.v; (T) Model/Disp.v evaluated on the same inputs (exact Q); (M) exact-Fraction delay law,
antisymmetry / additivity on the implementation's own values, and every output sample traced back to
its source through channel-and-time coded data."""
from fractions import Fraction
import math
import numpy as np
import astropy.units as u
from astropy.time import Time
import pulsarbat as pb
from harness.common import qlit, zlit, optlit, listlit
from harness import exact as X

VFILES = ['Lib/PySlice.v', 'Gen/GenConsts.v', 'Model/FastLen.v', 'Gen/GenUtils.v', 'Model/Ledger.v', 'Model/Band.v', 'Model/Disp.v',
          'Proofs/LedgerProofs.v', 'Proofs/BandProofs.v', 'Proofs/DispProofs.v', 'Gen/GenDisp.v', 'Proofs/DispGen.v', 'Props/C06.v']
ALIGN = {'bottom': 0, 'center': 1, 'top': 2}
K = Fraction(1000000, 241)

HEADER = '''From Coq Require Import ZArith QArith Qabs List. Import ListNotations. Open Scope Z_scope.
From PB Require Import Model.Ledger Model.Band Model.Disp.
Definition L (t : option Q) (r : Q) (n : Z) : ledger := {| t0 := t; rate := r; len := n |}.
Definition Bd (c b : Q) (n a : Z) : band := {| cf := c; bw := b; nchan := n; align := a |}.
Definition chk_delay (dm f fr impl tol : Q) : Z := if Band.Qclose tol (time_delay dm f fr) impl then 0 else 1.
Definition chk_sdelay (dm f fr r impl tol : Q) : Z := if Band.Qclose tol (sample_delay dm f fr r) impl then 0 else 1.
Fixpoint eqlist (a b : list Z) : bool := match a, b with [], [] => true | x :: a', y :: b' => (x =? y) && eqlist a' b' | _, _ => false end.
(* impl: None = raised; Some (len, start, observed shifted delays d'_i (empty list when len = 0)) *)
Definition chk_incoh (l : ledger) (b : band) (dm fr ttol : Q) (impl : option (Z * option Q * list Z)) : Z :=
  match incoherent l (chan_delays b dm fr (rate l)), impl with
  | IOk l' cb ds', Some (n, s, dobs) =>
      (if len l' =? n then 0 else 1) + (if oQclose ttol (t0 l') s then 0 else 2) +
      (if (n =? 0) || eqlist ds' dobs then 0 else 4)
  | IErr _, None => 0
  | IOk _ _ _, None => 8
  | IErr _, Some _ => 16
  end.
'''


def rhe(q):
    f = math.floor(q)
    r = q - f
    if r < Fraction(1, 2):
        return f
    if r > Fraction(1, 2):
        return f + 1
    return f if f % 2 == 0 else f + 1


def exact_delay(dm, f, fr):
    return K * dm * (Fraction(10 ** 12) / (f * f) - Fraction(10 ** 12) / (fr * fr))


def run(ctx):
    rng = ctx.rng
    ctx.rule = ('(A) delay law: DM of either sign over 1e-3..3e3, frequency pairs 10 MHz..50 GHz in 4 units, sample rates; '
                '(B) incoherent dedispersion on every radio class, 1..8 channels, 3 alignments, reference inside / at the edge / '
                'outside the band, lengths 30..400, with and without start time, trailing dims, time-and-channel coded data; '
                'degenerate crops (delays beyond the signal). non-trivial: non-zero delays; distinct by all parameters.')
    ctx.trusted = ['translator T5 translate/py_disp2coq.py (unit algebra: time_delay, sample_delay, bookkeeping of incoherent_dedispersion; other statements pinned)', 'Coq 8.16.1 kernel; vm_compute', 'translator T2 (dispersion literal 2.41e-4)', 'astropy unit arithmetic within 1e-13 relative',
                   'np.round = round half to even (modelled)']
    ctx.assumptions = ['cases whose exact delay lies within 1e-9*(1+|d|) of a half-integer are regenerated (float noise decides the rounding)']
    ctx.regen()
    built = ctx.build(['Props/C06.vo'])
    ctx.count_obligations(VFILES)
    if built:
        ctx.assumptions_of('Props/C06.v', allowed=set())

    items, meta = [], []
    NA = 300 if ctx.tier == 'quick' else 5000
    NB = 260 if ctx.tier == 'quick' else 4000

    def rf(lo=7, hi=10.7):
        v = 10 ** rng.uniform(lo, hi)
        return (v * u.Hz).to(rng.choice([u.Hz, u.kHz, u.MHz, u.GHz]))

    def rdm():
        return rng.choice([-1, 1]) * 10 ** rng.uniform(-3, 3.5)

    # ---- (A) the law -------------------------------------------------------------------------------
    for i in range(NA):
        dmv = rdm()
        dm = X.make_dm(rng, dmv)
        f, g, h = rf(), rf(), rf()
        rate = rf(3, 9.5)
        inp = dict(op='delay', dm=dmv, f=str(f), fref=str(g), rate=str(rate))
        ctx.seen(inp)
        ctx.count('delay_law')
        d_fg = dm.time_delay(f, g)
        fq, gq, hq = X.hz(f), X.hz(g), X.hz(h)
        dq = Fraction(dmv)
        want = exact_delay(dq, fq, gq)
        scale = K * abs(dq) * (Fraction(10 ** 12) / (fq * fq) + Fraction(10 ** 12) / (gq * gq))
        tol = scale / 10 ** 13
        got = X.secs(d_fg)
        ctx.ratio(abs(got - want), tol)
        if abs(got - want) > tol:
            ctx.fail('delay_law', inp, impl=float(got), model=float(want))
        if d_fg.unit != u.s:
            ctx.fail('delay_unit', inp, impl=str(d_fg.unit))
        items.append(f'chk_delay {qlit(dq)} {qlit(fq)} {qlit(gq)} {qlit(got)} {qlit(tol)}')
        meta.append(dict(inp=inp, impl=float(got)))
        # antisymmetry and additivity on the implementation's own values
        d_gf = X.secs(dm.time_delay(g, f))
        if abs(got + d_gf) > 2 * tol:
            ctx.fail('delay_antisymmetry', inp, impl=[float(got), float(d_gf)])
        d_gh, d_fh = X.secs(dm.time_delay(g, h)), X.secs(dm.time_delay(f, h))
        sc3 = scale + K * abs(dq) * Fraction(10 ** 12) / (hq * hq) * 2
        if abs(got + d_gh - d_fh) > sc3 / 10 ** 13 * 3:
            ctx.fail('delay_chain', inp, impl=[float(got), float(d_gh), float(d_fh)])
        sd = dm.sample_delay(f, g, rate)
        sdq = Fraction(float(sd))
        wants = want * X.hz(rate)
        if abs(sdq - wants) > tol * X.hz(rate) * 2:
            ctx.fail('sample_delay', inp, impl=float(sdq), model=float(wants))
        items.append(f'chk_sdelay {qlit(dq)} {qlit(fq)} {qlit(gq)} {qlit(X.hz(rate))} {qlit(sdq)} {qlit(tol * X.hz(rate) * 2)}')
        meta.append(dict(inp=inp, impl=float(sdq)))
        # array input keeps shape
        fa = u.Quantity([f, g, h])
        da = dm.time_delay(fa, g)
        if da.shape != (3,) or abs(X.secs(da[0]) - got) > tol:
            ctx.fail('delay_array_form', inp, impl=str(da))

    # ---- (B) incoherent dedispersion ------------------------------------------------------------------
    done = 0
    tries = 0
    while done < NB and tries < NB * 5:
        tries += 1
        cls = rng.choice(X.RADIO)
        nchan = rng.choice([1, 2, 3, 4, 5, 8])
        tail = {'FullStokesSignal': (4,), 'DualPolarizationSignal': (2,)}.get(cls, ())
        if rng.random() < 0.25:
            tail = tail + (rng.choice([1, 2]),)
        Ln = rng.randint(30, 400)
        dtp = np.complex128 if cls in ('BasebandSignal', 'DualPolarizationSignal') else np.float64
        t = np.arange(Ln, dtype=np.float64).reshape((Ln, 1) + (1,) * len(tail)) * 1000
        ch = np.arange(nchan, dtype=np.float64).reshape((1, nchan) + (1,) * len(tail))
        data = np.broadcast_to(t + ch, (Ln, nchan) + tail).astype(dtp)
        cf = rng.choice([150.0, 400.0, 800.0, 1400.0]) * u.MHz
        bw = rng.choice([0.1, 1.0, 4.0, 12.5, 25.0]) * u.MHz
        rate = bw if cls in ('BasebandSignal', 'DualPolarizationSignal') else rng.choice([1.0, 10.0, 100.0, 1000.0, 3e4]) * u.kHz
        al = rng.choice(['bottom', 'center', 'top'])
        start = Time(rng.choice(X.EPOCHS), precision=9) if rng.random() < 0.7 else None
        cf, rate = cf.to(rng.choice([u.Hz, u.kHz, u.MHz, u.GHz])), rate.to(rng.choice([u.Hz, u.kHz, u.MHz, u.GHz]))       # assorted units
        kw = dict(sample_rate=rate, center_freq=cf, freq_align=al, start_time=start)
        if cls in ('RadioSignal', 'IntensitySignal', 'FullStokesSignal'):
            kw['chan_bw'] = bw.to(rng.choice([u.Hz, u.kHz, u.MHz, u.GHz]))
        if cls == 'DualPolarizationSignal':
            kw['pol_type'] = 'linear'
        z = getattr(pb, cls)(data, **kw)
        # choose DM so that the delay spread over the band is a sensible number of samples (sometimes beyond the length)
        spread = rng.choice([0.3, 3, 20, 60, Ln / 2, Ln * 0.9, Ln * 1.5])
        refsel = rng.choice(['default', 'center', 'top', 'bottom', 'above', 'below', 'inside'])
        ref = {'default': None, 'center': z.center_freq, 'top': z.max_freq, 'bottom': z.min_freq,
               'above': z.max_freq * 1.02, 'below': z.min_freq * 0.98, 'inside': z.min_freq + 0.3 * z.bandwidth}[refsel]
        if ref is not None and rng.random() < 0.6:
            ref = ref.to(rng.choice([u.Hz, u.kHz, u.MHz, u.GHz]))
        rfq = X.hz(z.center_freq if ref is None else ref)
        labs = [X.hz(f) for f in z.channel_freqs]
        ends = [X.hz(z.min_freq), X.hz(z.max_freq), rfq] + labs
        unit_spread = max(abs(exact_delay(Fraction(1), a, rfq)) for a in ends) * X.hz(rate)
        dmv = float(spread / float(unit_spread)) * rng.choice([-1, 1])
        dm = X.make_dm(rng, dmv)
        dq = Fraction(dmv)
        exact = [exact_delay(dq, f, rfq) * X.hz(rate) for f in labs]
        if any(abs((d - math.floor(d)) - Fraction(1, 2)) < Fraction(1, 10 ** 9) * (1 + abs(d)) for d in exact):
            ctx.count('regenerated_half_integer')
            continue
        done += 1
        inp = dict(op='incoherent', cls=cls, nchan=nchan, align=al, cf=str(cf), bw=str(bw), rate=str(rate), len=Ln, ref=refsel,
                   dm=dmv, has_start=start is not None, tail=list(tail))
        dround = [rhe(d) for d in exact]
        ctx.seen(inp, nontrivial=any(dround))
        ctx.count('incoherent')
        ctx.count('ref:' + refsel)
        err = None
        if rng.random() < 0.5:
            # the recorded call is not the first with these parameters: an earlier block of the same stream was dedispersed before
            # (state kept between calls - a cache, a reused buffer - must not change the result)
            inp['earlier_block'] = True
            ctx.count('after_an_earlier_block')
            try:
                prev = z if z.start_time is None or rng.random() < 0.5 else type(z).like(z, start_time=z.start_time - len(z) * z.dt)
                pb.incoherent_dedispersion(prev, dm, ref_freq=ref)
            except ValueError:
                pass
        try:
            y = pb.incoherent_dedispersion(z, dm, ref_freq=ref)
        except ValueError as e:
            err = e
            ctx.count('raised:ValueError')
        el = Fraction(Ln + 4) / X.hz(rate)
        ttol = max(Fraction(100, 10 ** 12), el / 10 ** 15 * 8)
        lin = f'(L {optlit(X.sec(z.start_time), qlit)} {qlit(X.hz(rate))} {Ln})'
        bnd = f'(Bd {qlit(X.hz(z.center_freq))} {qlit(X.hz(z.chan_bw))} {nchan} {ALIGN[z.freq_align]})'
        if err is None:
            yd = np.asarray(y.data).reshape(len(y), nchan, -1).real if len(y) else None
            dobs = [int(round(float(yd[0, i, 0] - i))) // 1000 for i in range(nchan)] if len(y) else []
            impl = f'(Some ({len(y)}%Z, {optlit(X.sec(y.start_time), qlit)}, {listlit(dobs, lambda v: zlit(v) + "%Z")}))'
        else:
            impl = 'None'
        items.append(f'chk_incoh {lin} {bnd} {qlit(dq)} {qlit(rfq)} {qlit(ttol)} {impl}')
        meta.append(dict(inp=inp, impl=str(err) if err else dict(len=len(y), delays=dobs)))
        # (M) monitor: independent of the Coq model
        cb = -min(0, dround[0], dround[-1])
        nmax = Ln - max(d + cb for d in dround)
        if err is not None:
            if nmax > 0 and min(d + cb for d in dround) >= 0:
                ctx.fail('valid_dedispersion_raised', inp, impl=str(err))
            continue
        if len(y) == 0:
            if nmax > 0:
                ctx.fail('no_samples_returned', inp, impl=0, model=nmax)
            continue
        if type(y) is not type(z) or y.shape[1:] != z.shape[1:]:
            ctx.fail('type_or_sample_shape_changed', inp, impl=[type(y).__name__, list(y.shape)])
            continue
        fa, fb = [X.hz(f) for f in y.channel_freqs], labs
        if any(abs(a - b) > abs(b) / 2 ** 48 for a, b in zip(fa, fb)) or y.sample_rate != z.sample_rate:
            ctx.fail('labels_or_rate_changed', inp)
            continue
        # every output sample traced back: value(k, i) = 1000*(k + d'_i) + i with d'_i = round(delay_i) + shift,
        # and the absolute-time statement T_out(k) + round(delay_i)/rate = T_in(source)
        full = np.asarray(y.data).reshape(len(y), nchan, -1).real
        srcs = np.rint((full[:, :, 0] - np.arange(nchan)[None, :]) / 1000).astype(np.int64)      # (k, i) -> source time index
        same_elems = np.array_equal(full, np.broadcast_to(full[:, :, :1], full.shape))
        ok_range = bool(np.all(srcs >= 0) and np.all(srcs < Ln))
        shift = int(srcs[0, 0]) - dround[0]
        ok_delay = all(np.array_equal(srcs[:, i], np.arange(len(y)) + dround[i] + shift) for i in range(nchan))
        if not (same_elems and ok_range and ok_delay):
            ctx.fail('sample_not_from_delay_shifted_source', inp, impl=dict(first_sources=srcs[0].tolist(), shift=shift),
                     model=dict(rounded_delays=dround))
            continue
        if start is not None:
            # T_out(0) = T_in(shift): start advances by exactly shift samples
            want = X.sec(z.start_time) + Fraction(shift) / X.hz(rate)
            e = abs(X.sec(y.start_time) - want)
            ctx.ratio(e, ttol)
            if e > ttol:
                ctx.fail('absolute_time_of_output_samples', inp, impl=y.start_time.isot, model=dict(shift=shift))
        elif y.start_time is not None:
            ctx.fail('start_time_acquired', inp)
        if len(y) != nmax:
            ctx.fail('not_all_valid_samples_returned', inp, impl=len(y), model=nmax)

    # ---- delays that the code itself computes as EXACT half-sample ties (and one ulp below a half): numpy's round is to nearest, ties to
    # even - 0.5 -> 0, 1.5 -> 2, 2.5 -> 2, -1.5 -> -2, -3.5 -> -4; 0.49999999999999994 -> 0.  The sample rate is tuned until the code's own
    # sample_delay of the middle channel IS the target double; the other channels' delays then are what they are (regenerated near ties).
    for c in range(24 if ctx.tier == 'quick' else 240):
        target = rng.choice([0.5, 1.5, 2.5, 4.5, -0.5, -1.5, -3.5, 6.5, math.nextafter(0.5, 0.0), -math.nextafter(0.5, 0.0)])
        Ln = 64
        data = (np.arange(Ln, dtype=np.float64).reshape(Ln, 1) * 1000 + np.arange(3, dtype=np.float64).reshape(1, 3))
        cf, bw = rng.choice([400.0, 800.0, 1400.0]) * u.MHz, rng.choice([1.0, 4.0]) * u.MHz
        dm = pb.DM(rng.choice([3.0, 10.0, 30.0]) * (1 if target > 0 else -1))
        ref = cf + 5 * bw                                      # above the band: every channel is delayed the same way as the DM's sign
        z0 = pb.IntensitySignal(data, sample_rate=1 * u.kHz, center_freq=cf, chan_bw=bw, start_time=Time('2021-03-04T05:06:07', precision=9))
        td = dm.time_delay(z0.channel_freqs[1], ref)
        rate = None
        r0 = target / td.to_value(u.s)
        for k in range(-40, 41):
            r = r0
            for _ in range(abs(k)):
                r = math.nextafter(r, math.inf if k > 0 else -math.inf)
            if r > 0 and float(dm.sample_delay(z0.channel_freqs[1], ref, r * u.Hz)) == target:
                rate = r * u.Hz
                break
        if rate is None:
            ctx.count('tie_not_reachable')
            continue
        z = pb.IntensitySignal(data, sample_rate=rate, center_freq=cf, chan_bw=bw, start_time=z0.start_time)
        ds = [float(d) for d in dm.sample_delay(z.channel_freqs, ref, rate)]
        if any(abs((d - math.floor(d)) - 0.5) < 1e-6 for i, d in enumerate(ds) if i != 1):
            continue
        want = [int(np.round(d)) if i != 1 else int(rhe(Fraction(target))) for i, d in enumerate(ds)]
        inp = dict(op='incoherent_tie', target=target, dm=float(dm.value), cf=str(cf), bw=str(bw), rate=float(rate.value), delays=ds)
        ctx.seen(inp); ctx.count('incoherent_tie')
        try:
            y = pb.incoherent_dedispersion(z, dm, ref_freq=ref)
        except Exception as e:
            ctx.fail('valid_dedispersion_raised', inp, impl=repr(e))
            continue
        if len(y) == 0:
            continue
        yd = np.asarray(y.data)
        got = [int(round(float(yd[0, i] - i))) // 1000 for i in range(3)]          # source sample of output sample 0, per channel
        cb = -min(0, want[0], want[-1])
        if got != [w + cb for w in want]:
            ctx.fail('tie_not_rounded_to_nearest_even', inp, impl=got, model=[w + cb for w in want])

    res = ctx.run_cases(HEADER, items, shard=max(60, len(items) // 32 + 1))
    if res is None:
        return
    for r, m in zip(res, meta):
        if r:
            ctx.mismatch(f'dispersion model vs implementation (code {r})', m['inp'], impl=m['impl'])
