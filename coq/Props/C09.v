(* Props/C09.v -- Dask-backed signals give identical results, lazily, for any chunks or scheduler: the part that is logic.
   Statements only (axiom-free); Model/Chunk.v, Proofs/ChunkProofs.v.  What these theorems do NOT cover is named in the manifest:
   dask's own graph machinery and schedulers, thread safety of the numeric kernels. *)
From Coq Require Import List Arith.
From PB Require Import Model.Chunk Proofs.ChunkProofs Gen.GenDask Proofs.DaskGen.
Import ListNotations.

(* for EVERY split of the sample-shape columns into blocks and EVERY schedule that runs each block's task at least once (any
   order, repetitions allowed), assembling the per-block results gives exactly the unchunked (NumPy) result - for any operation
   that acts column by column (time_shift, freq_shift, dedispersion per channel lane, polarisation / Stokes per time-channel lane,
   real_to_complex along time, FFTs along axes that are not chunked) *)
Theorem C09_schedule_independent : forall (A B : Type) (f : list A -> list B) sizes cols order,
  fold_right Nat.add 0 sizes = length cols -> (forall j, j < length sizes -> In j order) ->
  fst (compute A B f (build A sizes cols) order) = eager A B f cols.
Proof. exact schedule_independent. Qed.
(* element-wise operations (ufuncs, slices of other axes) may also be chunked along time *)
Theorem C09_elementwise : forall (A B : Type) (g : A -> B) sizes x,
  fold_right Nat.add 0 sizes = length x -> chunked_map A B g sizes x = map g x.
Proof. exact elementwise_time_chunks. Qed.
(* building the result graph performs no computation; computing runs exactly the scheduled tasks *)
Theorem C09_build_lazy : forall (A : Type) sizes cols, g_executed A (build A sizes cols) = 0.
Proof. exact build_is_lazy. Qed.
Theorem C09_compute_counts : forall (A B : Type) (f : list A -> list B) sizes cols order,
  snd (compute A B f (build A sizes cols) order) = length order.
Proof. exact compute_counts. Qed.

Example C09_witness :     (* 5 columns, chunks (2, 1, 2), tasks run in the order 2, 0, 2, 1 *)
  compute nat nat (map S) (build nat [2; 1; 2] [[1]; [2; 3]; []; [4]; [5; 6]]) [2; 0; 2; 1] = ([[2]; [3; 4]; []; [5]; [6; 7]], 4).
Proof. reflexivity. Qed.

(* tie to the source (T15): the statements the chunk model stands for are pinned as syntax trees and re-read on every run: the
   signal_transform wrapper is one pure task per block (da.map_blocks of the SAME function the NumPy branch applies to the whole array),
   and compute / persist / to_dask_array / rechunk return like(self, <the same data in another container>) *)
Theorem C09_generated_glue :
  gen_signal_transform_is_map_blocks = true /\ gen_compute_changes_only_the_container = true /\
  gen_persist_changes_only_the_container = true /\ gen_to_dask_array_changes_only_the_container = true /\
  gen_rechunk_changes_only_the_container = true.
Proof. exact dask_glue_generated. Qed.

Print Assumptions C09_schedule_independent.
Print Assumptions C09_elementwise.
Print Assumptions C09_build_lazy.
