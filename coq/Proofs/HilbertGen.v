(* Proofs/HilbertGen.v -- C19: the Hilbert weights, the output length, the dtype rule, the decimation step and the direction of the mixing
   ramp of Model/Hilbert ARE those translated from utils.real_to_complex (Gen/GenHilbert.v, regenerated on every run by T8).  The weights
   are generated as the sequence of array writes the source performs (last write wins, the slice write through CPython normalisation);
   the closed form [h] of the model is proved equal to that sequence at every index of the array. *)
From Coq Require Import ZArith Bool Lia.
From PB Require Import Lib.PySlice Lib.Dft Lib.F64 Model.Hilbert Gen.GenHilbert.
Open Scope Z_scope.
Ltac Zify.zify_post_hook ::= Z.to_euclidean_division_equations.

Theorem h_generated (N k : Z) : 0 <= k < N -> h N k = gen_h N k.
Proof.
  intros Hk. unfold h, gen_h, in_py_slice, slice_indices, clip. cbv zeta.
  change (1 <=? 0) with false. cbv iota. change (1 <? 0) with false. cbv iota.
  destruct (1 <? N) eqn:E1; destruct (k =? N / 2) eqn:E2; cbn [andb].
  - destruct (N mod 2 =? 0); reflexivity.
  - destruct (N <? 1) eqn:E3; [lia|].
    destruct (N / 2 <? 0) eqn:E4; [lia|]. destruct (N <? N / 2) eqn:E5; [lia|].
    destruct (1 <=? k) eqn:E6; destruct (k <? N / 2) eqn:E7; cbn [andb]; try reflexivity.
  - assert (N = 1) by lia. subst N. assert (k = 0) by lia. subst k. reflexivity.
  - assert (N = 1) by lia. subst N. assert (k = 0) by lia. subst k. discriminate.
Qed.

Theorem out_len_generated (N : Z) : 0 <= N -> out_len N = gen_out_len N.
Proof.
  intros HN. unfold out_len, gen_out_len, slice_indices, clip, range_len. change (2 <=? 0) with false. cbv iota.
  destruct (N =? 0) eqn:E; [reflexivity|]. destruct (0 <? N) eqn:E2; [|lia]. f_equal. f_equal. lia.
Qed.

Theorem out_dtype_generated a b : out_dtype a b = gen_out_dtype a b.
Proof. reflexivity. Qed.

(* the model mixes sample j by cis_turn (- j) 4, i.e. exp(-i pi/2 j), and keeps every second sample *)
Theorem mix_generated (j : nat) : - Z.of_nat j = gen_mix_quarter_turns * Z.of_nat j.
Proof. unfold gen_mix_quarter_turns. lia. Qed.
Theorem dec_step_generated : gen_dec_step = 2.
Proof. reflexivity. Qed.
