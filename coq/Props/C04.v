(* Props/C04.v -- freq_shift moves the spectrum by the given amount, zeroing what leaves the band.
   Statements only; proofs in Proofs/ShiftProofs.v / Proofs/ShiftC.v.  The zero-fill loop is the one of time_shift
   applied to the fftshift-ordered spectrum with a = ft * N bins (Model/Shift.shift_idx false). *)
From Coq Require Import ZArith QArith Qround Qabs List Bool Reals.
From Coquelicot Require Import Complex.
From PB Require Import Lib.PySlice Lib.Dft Lib.DftC Model.Shift Proofs.ShiftProofs Proofs.ShiftC Gen.GenShift Proofs.ShiftGen.
Import ListNotations.
Open Scope Z_scope.

(* bins zeroed for an element shifted by a bins: exactly the (fftshift-ordered) bins j whose source j - a is outside the band *)
Theorem C04_zero_exact : forall N a j, 0 <= N -> 0 <= j < N -> in_range (zero_range N a) j = outside N a j.
Proof. exact zero_range_exact. Qed.
(* every element of the sample shape, scalar and broadcast shifts included (no early exit in freq_shift) *)
Theorem C04_every_element : forall N ss sh vals r, 0 <= N ->
  shift_idx false N ss sh vals = Some r ->
  length (sr_zero r) = length (indices ss) /\
  forall k, (k < length (indices ss))%nat ->
    let mi := nth k (indices ss) [] in
    valid_mi mi ss /\
    nth k (sr_zero r) (0, 0) = zero_range N (bval sh vals (length ss) mi) /\
    (forall n, 0 <= n < N -> in_range (nth k (sr_zero r) (0, 0)) n = outside N (bval sh vals (length ss) mi) n).
Proof.
  intros N ss sh vals r HN E. apply (shift_idx_elements false N ss sh vals r HN E).
  unfold shift_idx in E. destruct (length ss <? length sh)%nat; [discriminate|]. cbn [andb] in E.
  destruct (negb (bcast_ok (pad sh (length ss)) ss)); [discriminate|]. injection E as <-. reflexivity.
Qed.

(* whole-bin shift over C, every n >= 1: in fftshift order the spectrum moves by exactly b bins (a circular move of
   the DFT with the wrapped part removed): bin j holds the input's bin j - b, or 0 when that lies outside the band *)
Theorem C04_whole_bins : forall (n : nat), (0 < n)%nat -> forall (x : nat -> C) (b : Z) (j : nat), (j < n)%nat ->
  fshift_spec_intC n b x j =
  if (0 <=? Z.of_nat j - b) && (Z.of_nat j - b <? Z.of_nat n)
  then dftC n x (Z.to_nat (unshift_idx (Z.of_nat n) (Z.of_nat j - b))) else RtoC 0.
Proof. exact fshift_int_exact_C. Qed.
(* shifts of a full bandwidth or more give an all-zero spectrum *)
Theorem C04_full_band : forall (n : nat), (0 < n)%nat -> forall (x : nat -> C) (b : Z) (j : nat), (j < n)%nat ->
  Z.of_nat n <= Z.abs b -> fshift_spec_intC n b x j = RtoC 0.
Proof. exact fshift_int_full_C. Qed.
(* the modulation theorem itself: mixing with exp(2 pi i b m/n) is the circular move of the DFT *)
Theorem C04_modulation : forall (n : nat), (0 < n)%nat -> forall (x : nat -> C) (b : Z) (k : nat), (k < n)%nat ->
  dftC n (fun m => Cmult (x m) (W n (b * Z.of_nat m))) k = dftC n x (Z.to_nat ((Z.of_nat k - b) mod Z.of_nat n)).
Proof. exact modulation_theorem_C. Qed.

Example C04_witness :     (* scalar shift of 2.5 bins on sample shape (2,2): all four elements get bins [0,3) zeroed *)
  shift_idx_flat false 8 [2; 2] [1] [(5 # 2)%Q] = [0; 3; 0; 3; 8; 0; 3; 0; 3; 0; 3; 0; 3].
Proof. vm_compute. reflexivity. Qed.


(* tie to the source by translation (T6): the per-element logic of the zero-fill loop of freq_shift (sign test, floor / ceil, which
   slice of the fftshifted spectrum is set to zero; nothing is accumulated) and the sign of the mixing ramp are GENERATED from
   transforms.freq_shift on this run *)
Theorem C04_generated_zero_range : forall N a st, zero_range N a = zr_of N (snd (gen_fshift_step st a)) /\ fst (gen_fshift_step st a) = st.
Proof. exact (fun N a st => conj (zero_range_generated_f N a st) (fshift_step_state st a)). Qed.
Theorem C04_generated_ramp_sign : forall b m, b * m = gen_fshift_sign * (b * m).
Proof. exact fshift_ramp_generated. Qed.

Print Assumptions C04_zero_exact.
Print Assumptions C04_every_element.
Print Assumptions C04_whole_bins.
Print Assumptions C04_full_band.
Print Assumptions C04_modulation.
Print Assumptions C04_generated_zero_range.
