(* Proofs/ContractProofs.v -- C16: whatever the constructor accepts satisfies the class contract; every violated clause is
   refused; like() reproduces a well-formed signal exactly. *)
From Coq Require Import ZArith String List Bool Lia.
From PB Require Import Gen.GenConsts Model.Contract.
Import ListNotations.
Open Scope string_scope.

Lemma dtype_result_allowed d req dt : dtype_result d req = Some dt -> dtype_allowed dt req = true.
Proof.
  unfold dtype_result, dtype_allowed. destruct req as [|r0 r]; [reflexivity|].
  destruct (existsb (String.eqb d) (r0 :: r)) eqn:E.
  - intros H. injection H as <-. exact E.
  - destruct (can_cast_safe d r0); [|discriminate]. intros H. injection H as <-. cbn [existsb]. rewrite String.eqb_refl. reflexivity.
Qed.
Lemma dtype_result_idem d req : dtype_allowed d req = true -> dtype_result d req = Some d.
Proof. unfold dtype_result, dtype_allowed. destruct req as [|r0 r]; [reflexivity|]. intros H. rewrite H. reflexivity. Qed.

(* everything the constructor returns satisfies the contract *)
Theorem construct_wf c a s : construct c a = Ok s -> WF s = true.
Proof.
  unfold construct. destruct (lookup c) as [e|] eqn:L; [|discriminate].
  destruct (length (a_shape a) <? length (req_shape e))%nat eqn:C1; [discriminate|].
  destruct (shape_ok (a_shape a) (req_shape e)) eqn:C2; cbn [negb]; [|discriminate].
  destruct (prodZ (tl (a_shape a)) =? 0)%Z eqn:C3; [discriminate|].
  destruct (dtype_result (a_dtype a) (req_dtype e)) as [dt|] eqn:C4; [|discriminate].
  destruct (q_positive (a_rate a)) eqn:C5; cbn [negb]; [|discriminate].
  destruct (t_ok (a_start a)) eqn:C6; cbn [negb]; [|discriminate].
  destruct (m_ok (a_meta a)) eqn:C7; cbn [negb]; [|discriminate].
  apply Nat.ltb_ge in C1. apply Nat.leb_le in C1.
  pose proof (dtype_result_allowed _ _ _ C4) as D.
  destruct (is_radio c) eqn:R; cbn [negb].
  - destruct (q_scalar_freq (a_center a)) eqn:C8; cbn [negb]; [|discriminate].
    destruct (q_positive (if has_param e "chan_bw" then a_bw a else a_rate a)) eqn:C9; cbn [negb]; [|discriminate].
    destruct (align_ok (a_align a)) eqn:C10; cbn [negb]; [|discriminate].
    assert (AL : align_ok (if Z.odd (nchan (a_shape a)) then "center" else a_align a) = true)
      by (destruct (Z.odd (nchan (a_shape a))); [reflexivity|exact C10]).
    assert (AO : (if Z.odd (nchan (a_shape a)) then String.eqb (if Z.odd (nchan (a_shape a)) then "center" else a_align a) "center" else true) = true)
      by (destruct (Z.odd (nchan (a_shape a))); reflexivity).
    assert (BW : (if has_param e "chan_bw" then true
                  else Nat.eqb (q_id (if has_param e "chan_bw" then a_bw a else a_rate a)) (q_id (a_rate a))) = true)
      by (destruct (has_param e "chan_bw"); [reflexivity|apply Nat.eqb_refl]).
    destruct (has_param e "pol_type") eqn:PP.
    + destruct (pol_ok (a_pol a)) eqn:C11; cbn [negb]; [|discriminate].
      intros H. injection H as <-. unfold WF. cbn [g_cls g_shape g_dtype g_rate g_start g_meta g_center g_bw g_align g_pol].
      rewrite L, C1, C2, C3, D, C5, C6, C7, R, C8, C9, AL, AO, BW, PP, C11. reflexivity.
    + intros H. injection H as <-. unfold WF. cbn [g_cls g_shape g_dtype g_rate g_start g_meta g_center g_bw g_align g_pol].
      rewrite L, C1, C2, C3, D, C5, C6, C7, R, C8, C9, AL, AO, BW, PP. reflexivity.
  - intros H. injection H as <-. unfold WF. cbn [g_cls g_shape g_dtype g_rate g_start g_meta g_center g_bw g_align g_pol].
    rewrite L, C1, C2, C3, D, C5, C6, C7, R. reflexivity.
Qed.

(* every violated clause is refused: if an object comes back, none of the clauses was violated *)
Theorem construct_accepts_only c a s : construct c a = Ok s ->
  exists e, lookup c = Some e /\
  (length (req_shape e) <= length (a_shape a))%nat /\ shape_ok (a_shape a) (req_shape e) = true /\ prodZ (tl (a_shape a)) <> 0%Z /\
  dtype_result (a_dtype a) (req_dtype e) = Some (g_dtype s) /\
  q_positive (a_rate a) = true /\ t_ok (a_start a) = true /\ m_ok (a_meta a) = true /\
  (is_radio c = true -> q_scalar_freq (a_center a) = true /\ align_ok (a_align a) = true /\
                        q_positive (if has_param e "chan_bw" then a_bw a else a_rate a) = true /\
                        (has_param e "pol_type" = true -> pol_ok (a_pol a) = true)).
Proof.
  unfold construct. destruct (lookup c) as [e|] eqn:L; [|discriminate]. intros H. exists e. split; [reflexivity|].
  destruct (length (a_shape a) <? length (req_shape e))%nat eqn:C1; [discriminate|].
  destruct (shape_ok (a_shape a) (req_shape e)) eqn:C2; cbn [negb] in H; [|discriminate].
  destruct (prodZ (tl (a_shape a)) =? 0)%Z eqn:C3; [discriminate|].
  destruct (dtype_result (a_dtype a) (req_dtype e)) as [dt|] eqn:C4; [|discriminate].
  destruct (q_positive (a_rate a)) eqn:C5; cbn [negb] in H; [|discriminate].
  destruct (t_ok (a_start a)) eqn:C6; cbn [negb] in H; [|discriminate].
  destruct (m_ok (a_meta a)) eqn:C7; cbn [negb] in H; [|discriminate].
  apply Nat.ltb_ge in C1. apply Z.eqb_neq in C3.
  assert (DT : dt = g_dtype s).
  { destruct (is_radio c); cbn [negb] in H; [|injection H as <-; reflexivity].
    destruct (q_scalar_freq (a_center a)); cbn [negb] in H; [|discriminate].
    destruct (q_positive (if has_param e "chan_bw" then a_bw a else a_rate a)); cbn [negb] in H; [|discriminate].
    destruct (align_ok (a_align a)); cbn [negb] in H; [|discriminate].
    destruct (has_param e "pol_type"); [destruct (pol_ok (a_pol a)); cbn [negb] in H; [|discriminate]|]; injection H as <-; reflexivity. }
  rewrite DT. repeat (split; [first [assumption|reflexivity]|]).
  intros R. rewrite R in H. cbn [negb] in H.
  destruct (q_scalar_freq (a_center a)) eqn:C8; cbn [negb] in H; [|discriminate].
  destruct (q_positive (if has_param e "chan_bw" then a_bw a else a_rate a)) eqn:C9; cbn [negb] in H; [|discriminate].
  destruct (align_ok (a_align a)) eqn:C10; cbn [negb] in H; [|discriminate].
  repeat (split; [reflexivity|]). intros PP. rewrite PP in H. destruct (pol_ok (a_pol a)); [reflexivity|discriminate].
Qed.

(* like(): a well-formed signal is reproduced exactly *)
Lemma qarg_eq (a b : qarg) : q_kind a = q_kind b -> q_id a = q_id b -> a = b.
Proof. destruct a, b. cbn. intros -> ->. reflexivity. Qed.
Theorem like_reproduces s : WF s = true -> like s = Ok s.
Proof.
  unfold WF, like, construct. destruct (lookup (g_cls s)) as [e|] eqn:L; [|discriminate].
  destruct s as [c sh dt rate st me ce bw al po]. cbn [g_cls g_shape g_dtype g_rate g_start g_meta g_center g_bw g_align g_pol args_of
    a_shape a_dtype a_rate a_start a_meta a_center a_bw a_align a_pol] in *.
  intros H.
  repeat match goal with X : _ && _ = true |- _ => apply andb_true_iff in X; destruct X end.
  match goal with X : (_ <=? _)%nat = true |- _ => apply Nat.leb_le in X; apply Nat.ltb_ge in X; rewrite X end.
  match goal with X : shape_ok _ _ = true |- _ => rewrite X end. cbn [negb].
  match goal with X : negb _ = true |- _ => apply negb_true_iff in X; rewrite X end.
  match goal with X : dtype_allowed _ _ = true |- _ => rewrite (dtype_result_idem _ _ X) end.
  match goal with X : q_positive rate = true |- _ => rewrite X end.
  match goal with X : t_ok _ = true |- _ => rewrite X end.
  match goal with X : m_ok _ = true |- _ => rewrite X end. cbn [negb].
  destruct (is_radio c) eqn:R; cbn [negb].
  - destruct ce as [cq|]; [|discriminate]. destruct bw as [bq|]; [|discriminate]. destruct al as [al|]; [|discriminate].
    repeat match goal with X : _ && _ = true |- _ => apply andb_true_iff in X; destruct X end.
    match goal with X : q_scalar_freq _ = true |- _ => rewrite X end. cbn [negb].
    assert (BQ : (if has_param e "chan_bw" then bq else rate) = bq).
    { destruct (has_param e "chan_bw"); [reflexivity|].
      match goal with X : Nat.eqb _ _ = true |- _ => apply Nat.eqb_eq in X; symmetry; apply qarg_eq; [|exact X] end.
      match goal with X : q_positive bq = true, Y : q_positive rate = true |- _ => unfold q_positive in X, Y;
        destruct (q_kind bq), (q_kind rate); try discriminate; reflexivity end. }
    rewrite BQ.
    match goal with X : q_positive bq = true |- _ => rewrite X end.
    match goal with X : align_ok _ = true |- _ => rewrite X end. cbn [negb].
    assert (AL : (if Z.odd (nchan sh) then "center" else al) = al).
    { destruct (Z.odd (nchan sh)); [|reflexivity].
      match goal with X : String.eqb _ _ = true |- _ => apply String.eqb_eq in X; symmetry; exact X end. }
    rewrite AL.
    destruct (has_param e "pol_type").
    + destruct po as [p|]; [|discriminate]. match goal with X : pol_ok _ = true |- _ => rewrite X end. reflexivity.
    + destruct po; [discriminate|reflexivity].
  - destruct ce, bw, al, po; try discriminate. reflexivity.
Qed.

(* baseband classes (no chan_bw parameter): chan_bw of every constructed object IS its sample_rate *)
Theorem baseband_bw c a s e : construct c a = Ok s -> lookup c = Some e -> is_radio c = true -> has_param e "chan_bw" = false ->
  g_bw s = Some (g_rate s).
Proof.
  unfold construct. intros H L R P. rewrite L, R in H.
  destruct (length (a_shape a) <? length (req_shape e))%nat; [discriminate|].
  destruct (shape_ok (a_shape a) (req_shape e)); cbn [negb] in H; [|discriminate].
  destruct (prodZ (tl (a_shape a)) =? 0)%Z; [discriminate|].
  destruct (dtype_result (a_dtype a) (req_dtype e)); [|discriminate].
  destruct (q_positive (a_rate a)); cbn [negb] in H; [|discriminate].
  destruct (t_ok (a_start a)); cbn [negb] in H; [|discriminate].
  destruct (m_ok (a_meta a)); cbn [negb] in H; [|discriminate].
  rewrite P in H.
  destruct (q_scalar_freq (a_center a)); cbn [negb] in H; [|discriminate].
  destruct (q_positive (a_rate a)); cbn [negb] in H; [|discriminate].
  destruct (align_ok (a_align a)); cbn [negb] in H; [|discriminate].
  destruct (has_param e "pol_type"); [destruct (pol_ok (a_pol a)); cbn [negb] in H; [|discriminate]|]; injection H as <-; reflexivity.
Qed.

(* the generated class table carries the fixed axis lengths and dtype sets the property names *)
Lemma table_facts :
  option_map req_shape (lookup "FullStokesSignal") = Some [0; 0; 4]%Z /\
  option_map req_shape (lookup "DualPolarizationSignal") = Some [0; 0; 2]%Z /\
  option_map req_shape (lookup "Signal") = Some [0]%Z /\ option_map req_shape (lookup "RadioSignal") = Some [0; 0]%Z /\
  option_map req_dtype (lookup "IntensitySignal") = Some ["float64"; "float32"] /\
  option_map req_dtype (lookup "FullStokesSignal") = Some ["float64"; "float32"] /\
  option_map req_dtype (lookup "BasebandSignal") = Some ["complex128"; "complex64"] /\
  option_map req_dtype (lookup "DualPolarizationSignal") = Some ["complex128"; "complex64"] /\
  option_map (fun e => has_param e "chan_bw") (lookup "BasebandSignal") = Some false /\
  option_map (fun e => has_param e "chan_bw") (lookup "DualPolarizationSignal") = Some false /\
  map is_radio ["Signal"; "RadioSignal"; "IntensitySignal"; "FullStokesSignal"; "BasebandSignal"; "DualPolarizationSignal"]
    = [false; true; true; true; true; true] /\
  baseband_ties_chan_bw = true.
Proof. vm_compute. repeat split; reflexivity. Qed.
