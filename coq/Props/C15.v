(* Props/C15.v -- Phase ordering and decimal I/O use the full two-part value.  Statements only. *)
From Coq Require Import ZArith QArith Reals Floats Bool String List Sorting.Permutation Sorting.Sorted.
From Flocq Require Import Core BinarySingleNaN PrimFloat.
From PB Require Import Proofs.TwoSumExact Model.Phase2 Model.DecStr Proofs.Floor Proofs.PhaseCmp Proofs.PhaseCmpAll Proofs.DecStrProofs Model.PhaseOrd Proofs.PhaseArgmin Proofs.PhaseSort Proofs.PhaseRemainder Gen.GenPhase Proofs.PhaseGen Gen.GenPhaseOrd Proofs.PhaseOrdGen.
Open Scope R_scope.

(* comparison branch, bit-exact model: diff = (int1 - int2) + (frac1 - frac2) has exactly the sign of the exact difference
   whenever the two phases are equal or at least 2^-53 cycles apart (counts up to 2^52, normalised fractions) *)
Theorem C15_diff_sign : forall (i1 f1 i2 f2 : PrimFloat.float) (k1 k2 : Z),
  fin i1 -> fin f1 -> fin i2 -> fin f2 ->
  R_of i1 = IZR k1 -> R_of i2 = IZR k2 -> (Z.abs k1 <= 2 ^ 52)%Z -> (Z.abs k2 <= 2 ^ 52)%Z ->
  Rabs (R_of f1) <= / 2 -> Rabs (R_of f2) <= / 2 ->
  let T := (R_of i1 + R_of f1) - (R_of i2 + R_of f2) in
  let d := R_of (PhaseCmp.phase_diff i1 f1 i2 f2) in
  fin (PhaseCmp.phase_diff i1 f1 i2 f2) /\
  (T = 0 -> d = 0) /\ (bpow radix2 (-53) <= T -> 0 < d) /\ (T <= - bpow radix2 (-53) -> d < 0).
Proof. exact phase_diff_sign. Qed.

(* hence all six operators ==, !=, <, <=, >, >= of the model's comparison branch decide the EXACT order *)
Theorem C15_comparisons : forall (a b : ph) (k1 k2 : Z),
  p_imag a = false -> p_imag b = false ->
  fin (p_int a) -> fin (p_frac a) -> fin (p_int b) -> fin (p_frac b) ->
  R_of (p_int a) = IZR k1 -> R_of (p_int b) = IZR k2 -> (Z.abs k1 <= 2 ^ 52)%Z -> (Z.abs k2 <= 2 ^ 52)%Z ->
  Rabs (R_of (p_frac a)) <= / 2 -> Rabs (R_of (p_frac b)) <= / 2 ->
  let T := (R_of (p_int a) + R_of (p_frac a)) - (R_of (p_int b) + R_of (p_frac b)) in
  (T = 0 \/ bpow radix2 (-53) <= Rabs T) ->
  op_cmp 0 (OPh a) (OPh b) = Some (Req_bool T 0) /\
  op_cmp 1 (OPh a) (OPh b) = Some (negb (Req_bool T 0)) /\
  op_cmp 2 (OPh a) (OPh b) = Some (Rlt_bool T 0) /\
  op_cmp 3 (OPh a) (OPh b) = Some (Rle_bool T 0) /\
  op_cmp 4 (OPh a) (OPh b) = Some (Rlt_bool 0 T) /\
  op_cmp 5 (OPh a) (OPh b) = Some (Rle_bool 0 T).
Proof. exact cmp_all. Qed.

(* parsing, exact arithmetic: for every digit string s_count, s_frac and every exponent the digit shuffling of _parse_string
   preserves the value: count + fraction = (s_count . s_frac) * 10^e *)
Theorem C15_parse_split : forall s_count s_frac (e a b : Z) (c f : Q),
  digits_val s_count = Some a -> digits_val s_frac = Some b ->
  parse_exact_core s_count s_frac (Some e) = Some (c, f) ->
  (c + f == (inject_Z a + inject_Z b / inject_Z (10 ^ slen s_frac)) * pow10Q e)%Q.
Proof. exact shuffle_value. Qed.
Theorem C15_parse_no_exponent : forall s_count s_frac (a b : Z) (c f : Q),
  digits_val s_count = Some a -> digits_val s_frac = Some b ->
  parse_exact_core s_count s_frac None = Some (c, f) ->
  (c + f == inject_Z a + inject_Z b / inject_Z (10 ^ slen s_frac))%Q.
Proof. exact no_exponent_value. Qed.
(* the count is integral whenever the exponent is absorbed by the digits of the integer part *)
Theorem C15_parse_count_integral : forall s_count s_frac (e : Z) (c f : Q),
  parse_exact_core s_count s_frac (Some e) = Some (c, f) -> (- slen s_count <= e)%Z -> exists k : Z, (c == inject_Z k)%Q.
Proof. exact count_integral. Qed.

(* non-vacuity and the repaired spellings, on the executable bit-exact model *)
Example C15_strings :
  from_string "5" = RPh {| p_int := 5; p_frac := 0; p_imag := false |} /\
  from_string "0.5" = RPh {| p_int := 1; p_frac := -0.5; p_imag := false |} /\
  from_string "1e3" = RPh {| p_int := 1000; p_frac := 0; p_imag := false |} /\
  from_string "0.0" = RPh {| p_int := 0; p_frac := 0; p_imag := false |} /\
  from_string "-225d-2" = RPh {| p_int := -2; p_frac := -0.25; p_imag := false |} /\
  from_string "1.0j" = RPh {| p_int := 1; p_frac := 0; p_imag := true |} /\
  from_string "1e" = RErr.
Proof. vm_compute. repeat split; reflexivity. Qed.

(* reductions, bit-exact model (approx = min / max of the ROUNDED cycles, then the first minimum / maximum of (int - approx) + frac):
   ok_ph q := int, frac finite, |int| <= 2^52, |frac| <= 1/2 + 2^-50;  V q := exact two-part value.
   The selected element's exact value is within 2^-50 cycles of the exact minimum / maximum of the list -- for every non-empty list,
   near-ties below the resolution of the count included (approx alone is off by up to half a cycle at counts near 2^52) *)
Theorem C15_argmin : forall p r, Forall ok_ph (p :: r) ->
  let l := p :: r in let j := argmin l in
  (j < length l)%nat /\ In (nth j l dflt) l /\ forall y, In y l -> V (nth j l dflt) <= V y + bpow radix2 (-50).
Proof. exact argmin_near. Qed.
Theorem C15_argmax : forall p r, Forall ok_ph (p :: r) ->
  let l := p :: r in let j := argmax l in
  (j < length l)%nat /\ In (nth j l dflt) l /\ forall y, In y l -> V y <= V (nth j l dflt) + bpow radix2 (-50).
Proof. exact argmax_near. Qed.
Theorem C15_min : forall p r, Forall ok_ph (p :: r) ->
  In (pmin (p :: r)) (p :: r) /\ forall y, In y (p :: r) -> V (pmin (p :: r)) <= V y + bpow radix2 (-50).
Proof. exact pmin_near. Qed.
Theorem C15_max : forall p r, Forall ok_ph (p :: r) ->
  In (pmax (p :: r)) (p :: r) /\ forall y, In y (p :: r) -> V y <= V (pmax (p :: r)) + bpow radix2 (-50).
Proof. exact pmax_near. Qed.
(* hence: an element below all others by more than 2^-50 cycles is found exactly *)
Theorem C15_argmin_exact : forall p r k, Forall ok_ph (p :: r) -> (k < length (p :: r))%nat ->
  (forall i, (i < length (p :: r))%nat -> i <> k -> V (nth k (p :: r) dflt) + bpow radix2 (-50) < V (nth i (p :: r) dflt)) ->
  argmin (p :: r) = k.
Proof. exact argmin_exact. Qed.
Theorem C15_argmax_exact : forall p r k, Forall ok_ph (p :: r) -> (k < length (p :: r))%nat ->
  (forall i, (i < length (p :: r))%nat -> i <> k -> V (nth i (p :: r) dflt) + bpow radix2 (-50) < V (nth k (p :: r) dflt)) ->
  argmax (p :: r) = k.
Proof. exact argmax_exact. Qed.

(* argsort / sort (stable insertion by the key (count, fraction) on the two stored doubles -- the order np.lexsort produces): every index
   exactly once, for EVERY list (no hypothesis); the output is sorted by that key whenever the keys are finite doubles *)
Theorem C15_argsort_perm : forall l, Permutation (argsort l) (seq 0 (length l)).
Proof. exact argsort_perm. Qed.
Theorem C15_sort_perm : forall l, Permutation (psort l) l.
Proof. exact psort_perm. Qed.
Theorem C15_argsort_sorted_partial : forall l, Forall good_key (keyed l) ->
  argsort l = map (fun k : key => snd k) (isort key key_le (keyed l)) /\
  StronglySorted (fun a b => key_le a b = true) (isort key key_le (keyed l)).
Proof. intros l G. split; [apply argsort_is|apply argsort_sorted; exact G]. Qed.
(* the single-double cycle (still what argmin / argmax start from) is monotone: a smaller rounded cycle is a strictly smaller exact value *)
Theorem C15_cycle_order_exact : forall a b, ok_ph a -> ok_ph b -> PrimFloat.ltb (cycle a) (cycle b) = true -> V a < V b.
Proof. exact cycle_lt_exact. Qed.

(* EXACT order (after repair D26): ok_norm q := finite doubles, an INTEGER count, |frac| <= 1/2 -- what every Phase operation returns
   (C07).  On such phases the key order is the order of the exact values, so argsort / sort put the phases in exact order: for any two
   positions i < j of the result, V (l[out_i]) <= V (l[out_j]) -- however close the two are, at any count *)
Theorem C15_key_order_exact : forall (a b : ph) (i j : nat), ok_norm a -> ok_norm b ->
  (key_le (key_of a i) (key_of b j) = true -> V a <= V b) /\ (V a < V b -> key_le (key_of b j) (key_of a i) = false).
Proof. exact (fun a b i j Ha Hb => conj (key_le_V a b i j Ha Hb) (key_lt_V a b i j Ha Hb)). Qed.
Theorem C15_argsort_ordered : forall l, Forall ok_norm l ->
  StronglySorted (fun i j => V (nth i l dflt) <= V (nth j l dflt)) (argsort l).
Proof. exact argsort_ordered. Qed.
Theorem C15_sort_ordered : forall l, Forall ok_norm l -> StronglySorted (fun a b => V a <= V b) (psort l).
Proof. exact psort_ordered. Qed.

(* PARTIAL (carried by the exact correspondence + monitor on every run): ptp (Model/PhaseOrd.v is compared index for index and bit
   for bit), ties of argmin / argmax closer than 2^-50 (first-occurrence rule), the
   float-level parser (count, frac as doubles) being within 2^-52 of the exact parser above, to_string = exact value rounded to the
   digits shown, from_string (to_string p) = p. *)

(* tie to the source by translation (T7): the difference the comparison branch of Phase.__array_ufunc__ compares with zero is the
   expression GENERATED from pulsar/phase.py on this run *)
Theorem C15_generated_diff : forall a b : ph, Phase2.phase_diff a b = gen_cmp_diff a b.
Proof. exact phase_diff_generated. Qed.
(* ... and so are the single-double cycle, argmin / argmax (which reduction, which difference, which pick), the two sort keys of argsort
   with their lexsort priority, and min / max / ptp through the index functions *)
Theorem C15_generated_arg : forall l : list ph, argmin l = gen_argmin l /\ argmax l = gen_argmax l.
Proof. exact (fun l => conj (argmin_generated l) (argmax_generated l)). Qed.
Theorem C15_generated_argsort : forall l : list ph,
  argsort l =
  map (fun k => snd k)
      (fold_left (fun acc x => insert_stable x acc)
                 (map (fun ip => (fst (gen_sort_keys (snd ip)), snd (gen_sort_keys (snd ip)), fst ip)) (combine (seq 0 (length l)) l)) nil).
Proof. exact argsort_generated. Qed.
Theorem C15_generated_reductions : forall l : list ph, pmin l = gen_pmin l /\ pmax l = gen_pmax l /\ ptp l = gen_ptp l.
Proof. exact (fun l => conj (pmin_generated l) (conj (pmax_generated l) (ptp_generated l))). Qed.
Theorem C15_generated_strings :
  gen_str_parse_string_as_modelled = true /\ gen_str_repr_as_modelled = true /\ gen_str_str_as_modelled = true /\
  gen_str_format_as_modelled = true /\ gen_str_to_string_as_modelled = true /\ gen_str_from_string_as_modelled = true.
Proof. exact string_methods_generated. Qed.

Print Assumptions C15_diff_sign.
Print Assumptions C15_comparisons.
Print Assumptions C15_parse_split.
Print Assumptions C15_parse_count_integral.
Print Assumptions C15_argmin.
Print Assumptions C15_argmax.
Print Assumptions C15_argmin_exact.
Print Assumptions C15_argsort_perm.
Print Assumptions C15_argsort_sorted_partial.
Print Assumptions C15_cycle_order_exact.
Print Assumptions C15_argsort_ordered.
Print Assumptions C15_generated_diff.
Print Assumptions C15_generated_argsort.
