(* Proofs/ChirpR.v -- real/complex-analysis facts of C05: the chirp is unit-modulus, its phase has the
   dispersion delay as group delay, and DM followed by -DM is the identity filter.  Over R (Coquelicot). *)
From Coq Require Import Reals Lra.
From Coquelicot Require Import Coquelicot.
Open Scope R_scope.

(* phase in cycles of the transfer function exp(-2 pi i phase):  K*DM*f*(1/fref - 1/f)^2 *)
Definition phaseR (K DM f fr : R) : R := K * DM * f * (/ fr - / f) ^ 2.
(* time_delay(f, fref) = K*DM*(f^-2 - fref^-2) *)
Definition delayR (K DM f fr : R) : R := K * DM * (/ (f * f) - / (fr * fr)).

(* group delay: d(phase)/df = -delay(f, fref); a filter exp(-2 pi i phase(f)) ADVANCES frequency f by delay(f) *)
Lemma group_delay K DM f fr : f <> 0 -> fr <> 0 ->
  is_derive (fun f => phaseR K DM f fr) f (- delayR K DM f fr).
Proof. intros Hf Hr. unfold phaseR, delayR. auto_derive. exact Hf. field. split; assumption. Qed.

Lemma phase_at_ref K DM fr : fr <> 0 -> phaseR K DM fr fr = 0.
Proof. intros. unfold phaseR. field. assumption. Qed.
Lemma phase_neg_dm K DM f fr : phaseR K (- DM) f fr = - phaseR K DM f fr.
Proof. unfold phaseR. ring. Qed.

Definition cis (x : R) : C := (cos (2 * PI * x), sin (2 * PI * x)).

Lemma cis_add a b : cis (a + b) = Cmult (cis a) (cis b).
Proof.
  unfold cis, Cmult. cbn [fst snd].
  replace (2 * PI * (a + b)) with (2 * PI * a + 2 * PI * b) by ring.
  rewrite cos_plus, sin_plus. f_equal; ring.
Qed.
Lemma cis_0 : cis 0 = RtoC 1.
Proof. unfold cis, RtoC. replace (2 * PI * 0) with 0 by ring. rewrite cos_0, sin_0. reflexivity. Qed.
Lemma cis_unit x : Cmult (cis x) (Cconj (cis x)) = RtoC 1.
Proof.
  unfold cis, Cmult, Cconj, RtoC. cbn [fst snd]. f_equal; [|ring].
  pose proof (sin2_cos2 (2 * PI * x)) as H. unfold Rsqr in H. lra.
Qed.
Lemma cis_mod x : Cmod (cis x) = 1.
Proof.
  unfold Cmod, cis. cbn [fst snd]. rewrite <- sqrt_1. f_equal.
  pose proof (sin2_cos2 (2 * PI * x)) as H. unfold Rsqr in H. simpl. lra.
Qed.

(* chirp transfer function and its inverse *)
Definition chirpR (K DM f fr : R) : C := cis (- phaseR K DM f fr).
Lemma chirp_unit K DM f fr : Cmod (chirpR K DM f fr) = 1.
Proof. apply cis_mod. Qed.
Lemma chirp_inverse K DM f fr : Cmult (chirpR K DM f fr) (chirpR K (- DM) f fr) = RtoC 1.
Proof.
  unfold chirpR. rewrite <- cis_add, phase_neg_dm.
  replace (- phaseR K DM f fr + - - phaseR K DM f fr) with 0 by ring. apply cis_0.
Qed.
