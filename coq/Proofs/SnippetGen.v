(* Proofs/SnippetGen.v -- C12: the decisions and arithmetic of Model/Snippet.snippet ARE those translated from transforms.snippet
   (Gen/GenSnippet.v, regenerated on every run by T6): the length check, the out-of-bounds test (with the float sum t + n supplied as tn),
   the fractional-start test, shift = i - t, the new start time start - shift * dt, and the final slice z[i : i + n]. *)
From Coq Require Import ZArith QArith Qabs Qround List Bool Lia.
From PB Require Import Lib.PySlice Model.FastLen Model.Ledger Model.Snippet Gen.GenSnippet.
Open Scope Z_scope.

Lemma lt_dec_bool (a b : Q) : (if Qlt_le_dec a b then true else false) = negb (Qle_bool b a).
Proof.
  destruct (Qlt_le_dec a b) as [H|H].
  - destruct (Qle_bool b a) eqn:E; [apply Qle_bool_iff in E; exfalso; exact (Qlt_not_le _ _ H E)|reflexivity].
  - apply Qle_bool_iff in H. rewrite H. reflexivity.
Qed.
Lemma if_dec (A : Type) (a b : Q) (x y : A) : (if Qlt_le_dec a b then x else y) = (if negb (Qle_bool b a) then x else y).
Proof. rewrite <- lt_dec_bool. destruct (Qlt_le_dec a b); reflexivity. Qed.

Theorem snippet_generated (l : ledger) (t tn : Q) (n : Z) :
  snippet l t tn n =
  if gen_snip_bad_n n then SErr 1 else
  if gen_snip_oob t tn (len l) then SErr 1 else
  let i := gen_snip_i t in
  if gen_snip_fractional i t then
    let shift := gen_snip_shift i t in
    let new_t0 := gen_snip_new_start (t0 l) shift (1 / rate l) in
    let l1 := if tiny shift then {| t0 := new_t0; rate := rate l; len := len l |}
              else match step l (OShiftCrop 0 (-1)) with
                   | Ok l' _ _ => {| t0 := new_t0; rate := rate l; len := len l' |}
                   | Err _ => l end in
    match time_slice l1 (fst (gen_snip_slice i n)) (snd (gen_snip_slice i n)) None with
    | Ok l2 off _ => SOk l2 off (t - inject_Z i)%Q (negb (tiny shift))
    | Err e => SErr e
    end
  else
    match time_slice l (fst (gen_snip_slice i n)) (snd (gen_snip_slice i n)) None with
    | Ok l2 off _ => SOk l2 off 0 false
    | Err e => SErr e
    end.
Proof.
  unfold snippet, gen_snip_bad_n, gen_snip_oob, gen_snip_i, gen_snip_fractional, gen_snip_shift, gen_snip_new_start, gen_snip_slice.
  cbn [fst snd]. destruct (n <? 0); [reflexivity|].
  rewrite (if_dec _ t 0). destruct (negb (Qle_bool 0 t)); [reflexivity|]. cbn [orb].
  rewrite (if_dec _ (inject_Z (len l)) tn). destruct (negb (Qle_bool tn (inject_Z (len l)))); [reflexivity|].
  cbv zeta. rewrite (if_dec _ (inject_Z (Qfloor t)) t). reflexivity.
Qed.
