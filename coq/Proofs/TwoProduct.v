(* Proofs/TwoProduct.v -- C07: astropy's two_product (Veltkamp split + Dekker product, as transcribed in Model/Phase2.v) is
   error-free on the bit-exact binary64 model: x + y = a * b exactly, for finite doubles bounded by 2^400 whose product is 0 or at
   least 2^-969 in magnitude (no underflow).  From Flocq's Pff2Flocq.Dekker through the PrimFloat bridge. *)
From Coq Require Import ZArith Reals Psatz Floats.
From Flocq Require Import Core BinarySingleNaN PrimFloat Pff2Flocq.
From PB Require Import Proofs.TwoSumExact Model.Phase2 Proofs.Floor Proofs.DayFrac.
Open Scope R_scope.

Notation fexp := (FLT_exp (-1074) 53).
Notation rnd := (round radix2 fexp ZnearestE).

Lemma mul_R (x y : PrimFloat.float) : fin x -> fin y ->
  Rabs (rnd (R_of x * R_of y)) < bpow radix2 1024 ->
  R_of (PrimFloat.mul x y) = rnd (R_of x * R_of y) /\ fin (PrimFloat.mul x y).
Proof.
  intros Fx Fy Hb. unfold R_of, fin in *. rewrite mul_equiv.
  generalize (Bmult_correct 53 1024 eq_refl eq_refl mode_NE (Prim2B x) (Prim2B y)).
  simpl round_mode. rewrite Rlt_bool_true by exact Hb.
  intros (H1 & H2 & _). split; [exact H1|]. exact (eq_trans H2 (f_equal2 andb Fx Fy)).
Qed.
Lemma mul_b x y k j : (-1074 < k + j)%Z -> (k + j < 1024)%Z -> bnd x k -> bnd y j ->
  R_of (PrimFloat.mul x y) = rnd (R_of x * R_of y) /\ bnd (PrimFloat.mul x y) (k + j).
Proof.
  intros K1 K2 [Fx Bx] [Fy By].
  assert (B : Rabs (R_of x * R_of y) <= bpow radix2 (k + j)).
  { rewrite Rabs_mult, bpow_plus. apply Rmult_le_compat; try apply Rabs_pos; assumption. }
  pose proof (rnd_bound _ _ K1 B) as B'.
  destruct (mul_R x y Fx Fy) as [E F]. { apply Rle_lt_trans with (1:=B'). apply bpow_lt. lia. }
  split; [exact E|]. split; [exact F|]. rewrite E. exact B'.
Qed.

Definition splitter : PrimFloat.float := 134217729%float.
Lemma R_splitter : R_of splitter = bpow radix2 27 + 1 /\ fin splitter.
Proof. unfold R_of, fin, splitter. split; [|reflexivity]. unfold Prim2B. cbn. unfold B2R, SF2B; cbn. unfold F2R; cbn. lra. Qed.
Lemma bnd_splitter : bnd splitter 28.
Proof. destruct R_splitter as [E F]. split; [exact F|]. rewrite E.
  assert (1 <= bpow radix2 27) by (change 1 with (bpow radix2 0); apply bpow_le; lia).
  rewrite Rabs_pos_eq by lra. change 28%Z with (27 + 1)%Z. rewrite bpow_S. lra. Qed.
Lemma rnd_opp x : rnd (- x) = - rnd x.
Proof. apply round_NE_opp. Qed.
Lemma choiceE : forall x : Z, negb (Z.even x) = negb (negb (Z.even (- (x + 1)))).
Proof. intros x. rewrite Z.even_opp, Z.even_add. simpl. destruct (Z.even x); reflexivity. Qed.

Lemma neg_sum u v : rnd (- u + v) = - rnd (u - v).
Proof. rewrite <- rnd_opp. f_equal. ring. Qed.

(* split: the four rounded-real equations, with the signs Flocq's Veltkamp uses *)
Lemma split_eqs (a : PrimFloat.float) k : (0 <= k)%Z -> (k <= 400)%Z -> bnd a k ->
  let '(ah, al) := split a in
  let px := rnd (R_of a * (bpow radix2 27 + 1)) in
  let qx := rnd (R_of a - px) in
  let hx := rnd (qx + px) in
  let tx := rnd (R_of a - hx) in
  bnd ah (k + 31) /\ bnd al (k + 32) /\ R_of ah = hx /\ R_of al = tx.
Proof.
  intros K1 K2 Ba. unfold split. fold splitter.
  destruct R_splitter as [Es _].
  destruct (mul_b splitter a 28 k ltac:(lia) ltac:(lia) bnd_splitter Ba) as [Ec Bc]. rewrite Es in Ec.
  set (c := PrimFloat.mul splitter a) in *.
  destruct (sub_b c a (28 + k) ltac:(lia) ltac:(lia) Bc (bnd_weaken a k (28 + k) ltac:(lia) Ba)) as [Eabig Babig].
  set (abig := PrimFloat.sub c a) in *.
  destruct (sub_b c abig (28 + k + 1) ltac:(lia) ltac:(lia) (bnd_weaken c (28 + k) (28 + k + 1) ltac:(lia) Bc) Babig) as [Eah Bah].
  set (ah := PrimFloat.sub c abig) in *.
  destruct (sub_b a ah (28 + k + 1 + 1) ltac:(lia) ltac:(lia) (bnd_weaken a k (28 + k + 1 + 1) ltac:(lia) Ba) Bah) as [Eal Bal].
  set (al := PrimFloat.sub a ah) in *.
  cbv zeta.
  assert (Epx : R_of c = rnd (R_of a * (bpow radix2 27 + 1))) by (rewrite Ec; f_equal; ring).
  assert (Eq : rnd (R_of a - R_of c) = - R_of abig).
  { rewrite Eabig. rewrite <- rnd_opp. f_equal. ring. }
  rewrite <- Epx. rewrite Eq.
  assert (Eh : rnd (- R_of abig + R_of c) = R_of ah) by (rewrite Eah; f_equal; ring).
  rewrite Eh.
  split; [apply (bnd_weaken ah (28 + k + 1 + 1) (k + 31)); [lia|exact Bah]|].
  split; [apply (bnd_weaken al (28 + k + 1 + 1 + 1) (k + 32)); [lia|exact Bal]|].
  split; [reflexivity|exact Eal].
Qed.

Theorem two_product_exact (a b : PrimFloat.float) :
  fin a -> fin b -> Rabs (R_of a) <= bpow radix2 400 -> Rabs (R_of b) <= bpow radix2 400 ->
  (R_of a * R_of b = 0 \/ bpow radix2 (-969) <= Rabs (R_of a * R_of b)) ->
  let '(x, y) := two_product a b in
  fin x /\ fin y /\ R_of x = rnd (R_of a * R_of b) /\ R_of x + R_of y = R_of a * R_of b.
Proof.
  intros Fa Fb Ba Bb Hund. unfold two_product.
  assert (BA : bnd a 400) by (split; assumption). assert (BB : bnd b 400) by (split; assumption).
  pose proof (split_eqs a 400 ltac:(lia) ltac:(lia) BA) as Sa. destruct (split a) as [ah al].
  pose proof (split_eqs b 400 ltac:(lia) ltac:(lia) BB) as Sb. destruct (split b) as [bh bl].
  cbv zeta in Sa, Sb. destruct Sa as (Bah & Bal & Eah & Eal). destruct Sb as (Bbh & Bbl & Ebh & Ebl).
  change (400 + 31)%Z with 431%Z in Bah, Bbh. change (400 + 32)%Z with 432%Z in Bal, Bbl.
  destruct (mul_b a b 400 400 ltac:(lia) ltac:(lia) BA BB) as [Ex Bx]. change (400 + 400)%Z with 800%Z in Bx. set (x := PrimFloat.mul a b) in *.
  destruct (mul_b ah bh 431 431 ltac:(lia) ltac:(lia) Bah Bbh) as [Ey1 By1]. change (431 + 431)%Z with 862%Z in By1. set (y1 := PrimFloat.mul ah bh) in *.
  destruct (sub_b x y1 862 ltac:(lia) ltac:(lia) (bnd_weaken x 800 862 ltac:(lia) Bx) By1) as [Eya Bya]. set (ya := PrimFloat.sub x y1) in *.
  destruct (mul_b al bh 432 431 ltac:(lia) ltac:(lia) Bal Bbh) as [Ey2 By2]. change (432 + 431)%Z with 863%Z in By2. set (y2 := PrimFloat.mul al bh) in *.
  destruct (sub_b ya y2 863 ltac:(lia) ltac:(lia) Bya By2) as [Eyb Byb]. set (yb := PrimFloat.sub ya y2) in *.
  destruct (mul_b ah bl 431 432 ltac:(lia) ltac:(lia) Bah Bbl) as [Ey3 By3]. change (431 + 432)%Z with 863%Z in By3. set (y3 := PrimFloat.mul ah bl) in *.
  destruct (sub_b yb y3 864 ltac:(lia) ltac:(lia) Byb (bnd_weaken y3 863 864 ltac:(lia) By3)) as [Eyc Byc]. set (yc := PrimFloat.sub yb y3) in *.
  destruct (mul_b al bl 432 432 ltac:(lia) ltac:(lia) Bal Bbl) as [Ey4 By4]. change (432 + 432)%Z with 864%Z in By4. set (y4 := PrimFloat.mul al bl) in *.
  destruct (sub_b y4 yc 865 ltac:(lia) ltac:(lia) (bnd_weaken y4 864 865 ltac:(lia) By4) Byc) as [Ey Byf]. set (yf := PrimFloat.sub y4 yc) in *.
  split; [exact (proj1 Bx)|]. split; [exact (proj1 Byf)|]. split; [exact Ex|].
  (* Flocq's Dekker with its x := b, y := a *)
  pose proof (Dekker radix2 (-1074) 53 (fun z => negb (Z.even z)) ltac:(lia) ltac:(lia) (R_of b) (R_of a)
                (format_R_of b) (format_R_of a) (or_introl eq_refl)) as [D _].
  change (53 - Z.div2 53)%Z with 27%Z in D.
  assert (Hund' : R_of b * R_of a = 0 \/ bpow radix2 (-1074 + 2 * 53 - 1) <= Rabs (R_of b * R_of a)).
  { rewrite (Rmult_comm (R_of b)). exact Hund. }
  specialize (D Hund').
  rewrite (Rmult_comm (R_of a)). rewrite D. f_equal.
  - rewrite Ex. f_equal. ring.
  - (* t4 = yf *)
    rewrite Ey, Eyc, Eyb, Eya, Ey1, Ey2, Ey3, Ey4, Ex, Eah, Eal, Ebh, Ebl.
    set (hb := rnd (rnd (R_of b - rnd (R_of b * (bpow radix2 27 + 1))) + rnd (R_of b * (bpow radix2 27 + 1)))).
    set (ha := rnd (rnd (R_of a - rnd (R_of a * (bpow radix2 27 + 1))) + rnd (R_of a * (bpow radix2 27 + 1)))).
    set (tb := rnd (R_of b - hb)). set (ta := rnd (R_of a - ha)).
    set (r := rnd (R_of a * R_of b)).
    replace (rnd (R_of b * R_of a)) with r by (unfold r; f_equal; ring).
    rewrite (Rmult_comm hb ha), (Rmult_comm hb ta), (Rmult_comm tb ha), (Rmult_comm tb ta).
    rewrite (neg_sum r). rewrite (neg_sum (rnd (r - rnd (ha * hb)))). rewrite (neg_sum (rnd (rnd (r - rnd (ha * hb)) - rnd (ta * hb)))).
    f_equal. ring.
Qed.
