(* probe: the comparison branch of Phase.__array_ufunc__ decides on the exact two-part value (C15_cmp) *)
From Coq Require Import ZArith Reals Psatz Floats.
From Flocq Require Import Core BinarySingleNaN PrimFloat.
From PB Require Import Proofs.TwoSumExact Model.Phase2 Proofs.Floor Proofs.DayFrac Proofs.DayFrac3 Proofs.DayFracTail Proofs.DayFracFold.
Open Scope R_scope.

Notation fexp := (FLT_exp (-1074) 53).
Notation rnd := (round radix2 fexp ZnearestE).

(* diff = (int1 - int2) + (frac1 - frac2), then compared with 0 *)
Definition phase_diff (i1 f1 i2 f2 : PrimFloat.float) : PrimFloat.float :=
  PrimFloat.add (PrimFloat.sub i1 i2) (PrimFloat.sub f1 f2).

Lemma rnd_pos_lower x p : (-1074 <= p)%Z -> bpow radix2 p <= x -> bpow radix2 p <= rnd x.
Proof.
  intros Hp H. assert (V : Valid_exp fexp) by (apply FLT_exp_valid; red; lia).
  rewrite <- (round_generic radix2 fexp ZnearestE (bpow radix2 p)).
  - apply round_le; try typeclasses eauto. exact H.
  - apply generic_format_FLT_bpow; [red; lia|lia].
Qed.
Lemma rnd_opp x : rnd (- x) = - rnd x.
Proof. apply round_NE_opp. Qed.

Theorem phase_diff_sign (i1 f1 i2 f2 : PrimFloat.float) (k1 k2 : Z) :
  fin i1 -> fin f1 -> fin i2 -> fin f2 ->
  R_of i1 = IZR k1 -> R_of i2 = IZR k2 -> (Z.abs k1 <= 2 ^ 52)%Z -> (Z.abs k2 <= 2 ^ 52)%Z ->
  Rabs (R_of f1) <= / 2 -> Rabs (R_of f2) <= / 2 ->
  let T := (R_of i1 + R_of f1) - (R_of i2 + R_of f2) in          (* exact difference of the two phases *)
  let d := R_of (phase_diff i1 f1 i2 f2) in
  fin (phase_diff i1 f1 i2 f2) /\
  (T = 0 -> d = 0) /\ (bpow radix2 (-53) <= T -> 0 < d) /\ (T <= - bpow radix2 (-53) -> d < 0).
Proof.
  intros Fi1 Ff1 Fi2 Ff2 E1 E2 K1 K2 B1 B2 T d. unfold phase_diff in *.
  assert (P53 : bpow radix2 53 = IZR (2 ^ 53)) by (simpl; lra).
  (* integer difference is exact *)
  assert (HD : R_of (PrimFloat.sub i1 i2) = IZR (k1 - k2) /\ fin (PrimFloat.sub i1 i2)).
  { destruct (sub_R i1 i2 Fi1 Fi2) as [E F].
    - rewrite E1, E2, <- minus_IZR, rnd_IZR by lia. apply Rle_lt_trans with (bpow radix2 53); [|apply bpow_lt; lia].
      rewrite P53, <- abs_IZR. apply IZR_le. lia.
    - rewrite E1, E2, <- minus_IZR, rnd_IZR in E by lia. split; assumption. }
  destruct HD as [ED FD].
  apply Rabs_le_inv in B1. apply Rabs_le_inv in B2.
  set (g := R_of f1 - R_of f2) in *.
  assert (HG : R_of (PrimFloat.sub f1 f2) = rnd g /\ fin (PrimFloat.sub f1 f2)).
  { apply sub_R; try assumption. apply Rle_lt_trans with (bpow radix2 1); [|apply bpow_lt; lia].
    apply rnd_bound; [lia|]. simpl. apply Rabs_le. unfold g. lra. }
  destruct HG as [EG FG].
  assert (Herr : Rabs (rnd g - g) <= bpow radix2 (-54)).
  { destruct (Rlt_or_le (Rabs g) 1) as [Hlt|Hge].
    - apply (err_lt _ 0); [lia|exact Hlt].
    - assert (g = 1 \/ g = -1) as [-> | ->].
      { unfold Rabs in Hge. destruct (Rcase_abs g); [right|left]; unfold g in *; lra. }
      + rewrite (rnd_IZR 1) by (simpl; lia). rewrite Rminus_diag_eq, Rabs_R0 by reflexivity. apply bpow_ge_0.
      + rewrite (rnd_IZR (-1)) by (simpl; lia). rewrite Rminus_diag_eq, Rabs_R0 by reflexivity. apply bpow_ge_0. }
  apply Rabs_le_inv in Herr.
  assert (BG : Rabs (rnd g) <= 1).
  { change 1 with (bpow radix2 0). apply rnd_bound; [lia|]. simpl. apply Rabs_le. unfold g. lra. }
  destruct (add_R _ _ FD FG) as [Ed Fd].
  { rewrite ED, EG. apply Rle_lt_trans with (bpow radix2 55); [|apply bpow_lt; lia]. apply rnd_bound; [lia|].
    apply Rle_trans with (1:=Rabs_triang _ _). rewrite <- abs_IZR.
    assert (IZR (Z.abs (k1 - k2)) <= IZR (2^53)) by (apply IZR_le; lia). rewrite <- P53 in H.
    assert (bpow radix2 53 + 1 <= bpow radix2 55).
    { change 55%Z with (53 + 1 + 1)%Z. rewrite !bpow_S. pose proof (bpow_ge_0 radix2 53).
      assert (1 <= bpow radix2 53) by (change 1 with (bpow radix2 0); apply bpow_le; lia). lra. }
    lra. }
  split; [exact Fd|]. unfold d. rewrite Ed, ED, EG.
  assert (HT : T = IZR (k1 - k2) + g) by (unfold T, g; rewrite E1, E2, minus_IZR; ring).
  assert (P54 : bpow radix2 (-53) = 2 * bpow radix2 (-54)) by (change (-53)%Z with (-54 + 1)%Z; apply bpow_S).
  pose proof (bpow_gt_0 radix2 (-54)) as Pp.
  split; [|split].
  - intros H0. rewrite HT in H0.
    (* g = -(k1-k2) is an integer of magnitude <= 1, hence rounded exactly *)
    assert (Hg : g = IZR (- (k1 - k2))) by (rewrite opp_IZR; lra).
    assert ((Z.abs (- (k1 - k2)) <= 1)%Z).
    { apply le_IZR. rewrite abs_IZR, <- Hg. simpl. apply Rabs_le. unfold g. lra. }
    rewrite Hg, rnd_IZR by lia. rewrite <- plus_IZR. replace (k1 - k2 + - (k1 - k2))%Z with 0%Z by ring.
    apply round_0. typeclasses eauto.
  - intros Hpos. rewrite HT in Hpos.
    apply Rlt_le_trans with (bpow radix2 (-54)); [exact Pp|]. apply rnd_pos_lower; [lia|]. lra.
  - intros Hneg. rewrite HT in Hneg.
    assert (bpow radix2 (-54) <= rnd (- (IZR (k1 - k2) + rnd g))) by (apply rnd_pos_lower; [lia|]; lra).
    rewrite rnd_opp in H. lra.
Qed.
