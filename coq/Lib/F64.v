(* Lib/F64.v -- executing interpretation of the carrier-generic models: primitive binary64 floats.
   Complex numbers as pairs, and the unit phasor cis(num/den turns) = exp(2 pi i num/den) computed with an
   EXACT range reduction in Z followed by Taylor polynomials on [-pi/4, pi/4] (error < 1e-16).  These are
   model-side numerics used only by the correspondence run (within a stated tolerance); no theorem
   depends on them.  No proofs here. *)
From Coq Require Import ZArith PrimFloat Uint63 List.
Import ListNotations.

Definition F := float.
Definition Fc := (float * float)%type.
Definition f0 : F := 0%float.
Definition f1 : F := 1%float.
Definition c0 : Fc := (f0, f0).
Definition c1 : Fc := (f1, f0).
Definition cadd (a b : Fc) : Fc := (fst a + fst b, snd a + snd b)%float.
Definition csub (a b : Fc) : Fc := (fst a - fst b, snd a - snd b)%float.
Definition cmul (a b : Fc) : Fc := (fst a * fst b - snd a * snd b, fst a * snd b + snd a * fst b)%float.
Definition copp (a : Fc) : Fc := (- fst a, - snd a)%float.
Definition cconj (a : Fc) : Fc := (fst a, - snd a)%float.
Definition cscale (r : F) (a : Fc) : Fc := (r * fst a, r * snd a)%float.
Definition cabs2 (a : Fc) : F := (fst a * fst a + snd a * snd a)%float.

(* Z -> float, exact for |z| < 2^53, correctly rounded up to 2^63 *)
Definition of_pos_Z (z : Z) : F := PrimFloat.of_uint63 (Uint63.of_Z z).
Definition of_Z (z : Z) : F := if (z <? 0)%Z then (- of_pos_Z (- z))%float else of_pos_Z z.

Definition pi_f : F := 0x1.921fb54442d18p+1%float.

(* sin/cos on [-pi/4, pi/4] by Horner on x^2 *)
Definition sin_small (x : F) : F :=
  let y := (x * x)%float in
  (x * (1 + y * (-0x1.5555555555555p-3 + y * (0x1.1111111111111p-7 + y * (-0x1.a01a01a01a01ap-13 + y * (0x1.71de3a556c734p-19
      + y * (-0x1.ae64567f544e4p-26 + y * (0x1.6124613a86d09p-33 + y * (-0x1.ae7f3e733b81fp-41)))))))))%float.
Definition cos_small (x : F) : F :=
  let y := (x * x)%float in
  (1 + y * (-0x1p-1 + y * (0x1.5555555555555p-5 + y * (-0x1.6c16c16c16c17p-10 + y * (0x1.a01a01a01a01ap-16
      + y * (-0x1.27e4fb7789f5cp-22 + y * (0x1.1eed8eff8d898p-29 + y * (-0x1.93974a8c07c9dp-37 + y * 0x1.ae7f3e733b81fp-45))))))))%float.

(* exp(2 pi i num/den), den > 0 *)
Definition cis_turn (num den : Z) : Fc :=
  let p := (num mod den)%Z in                       (* fraction p/den in [0,1) *)
  let q := ((8 * p + den) / (2 * den))%Z in          (* nearest quarter turn: round(4 p/den) *)
  let r := (4 * p - q * den)%Z in                    (* remainder r/(4 den) turns, |r| <= den/2 *)
  let d4 := (4 * den)%Z in
  (* scale so that both fit below 2^62 *)
  let sh := Z.max 0 (Z.log2 d4 - 60)%Z in
  let x := (2 * pi_f * (of_Z (Z.shiftr r sh) / of_Z (Z.shiftr d4 sh)))%float in
  let c := cos_small x in let s := sin_small x in
  match (q mod 4)%Z with
  | 0%Z => (c, s)
  | 1%Z => ((- s)%float, c)
  | 2%Z => ((- c)%float, (- s)%float)
  | _ => (s, (- c)%float)
  end.

Definition Fclose (tol a b : F) : bool := PrimFloat.leb (PrimFloat.abs (a - b)) tol.
Definition Fcclose (tol : F) (a b : Fc) : bool := andb (Fclose tol (fst a) (fst b)) (Fclose tol (snd a) (snd b)).
Fixpoint Fcclose_list (tol : F) (a b : list Fc) : bool :=
  match a, b with [], [] => true | x :: a', y :: b' => andb (Fcclose tol x y) (Fcclose_list tol a' b') | _, _ => false end.
