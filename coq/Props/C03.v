(* Props/C03.v -- time_shift is a band-limited delay with exact zero-fill and no wrap-around.
   Statements only; proofs in Proofs/ShiftProofs.v (index logic over Z/Q, axiom-free) and Proofs/ShiftC.v (values over C). *)
From Coq Require Import ZArith QArith Qround Qabs List Bool Reals.
From Coquelicot Require Import Complex.
From PB Require Import Lib.PySlice Lib.Dft Lib.DftC Model.Shift Proofs.ShiftProofs Proofs.ShiftC Proofs.SnippetC Gen.GenShift Proofs.ShiftGen.
Import ListNotations.
Open Scope Z_scope.

(* the range zeroed for an element with shift a is EXACTLY the set of positions whose source n - a lies outside
   [0, N-1]: every N >= 0, every rational a of either sign (integer, fractional, |a| >= N) *)
Theorem C03_zero_exact : forall N a n, 0 <= N -> 0 <= n < N -> in_range (zero_range N a) n = outside N a n.
Proof. exact zero_range_exact. Qed.
(* ... which is the property's wording: the first ceil(s) samples for s >= 0, the last ceil(|s|) for s < 0 *)
Theorem C03_zero_wording : forall N a n, 0 <= N -> 0 <= n < N ->
  in_range (zero_range N a) n = true <->
  ((0 <= a)%Q /\ n < Qceiling a) \/ ((a < 0)%Q /\ N - Qceiling (Qabs a) <= n).
Proof. exact zero_range_wording. Qed.

(* every element of the sample shape (every valid multi-index, any rank) gets the range of ITS broadcast shift, also
   when the shift array has fewer or length-1 axes *)
Theorem C03_every_element : forall early N ss sh vals r, 0 <= N ->
  shift_idx early N ss sh vals = Some r -> sr_noop r = false ->
  length (sr_zero r) = length (indices ss) /\
  forall k, (k < length (indices ss))%nat ->
    let mi := nth k (indices ss) [] in
    valid_mi mi ss /\
    nth k (sr_zero r) (0, 0) = zero_range N (bval sh vals (length ss) mi) /\
    (forall n, 0 <= n < N -> in_range (nth k (sr_zero r) (0, 0)) n = outside N (bval sh vals (length ss) mi) n).
Proof. exact shift_idx_elements. Qed.
Theorem C03_indices_complete : forall ss mi, In mi (indices ss) <-> valid_mi mi ss.
Proof. exact indices_complete. Qed.

(* crop=True keeps exactly the samples that no element zero-filled (complement of the union of the zeroed edges) ... *)
Theorem C03_crop_exact : forall early N ss sh vals r n, 0 <= N ->
  shift_idx early N ss sh vals = Some r -> sr_noop r = false ->
  (in_range (sr_crop r) n = true <->
   0 <= n < N /\ forall mi, valid_mi mi ss -> in_range (zero_range N (bval sh vals (length ss) mi)) n = false).
Proof. exact shift_idx_crop. Qed.
(* ... and is the ledger operation OShiftCrop of C01 (so start time advances by start samples, rate kept) *)
Theorem C03_crop_is_slice : forall early N ss sh vals r, shift_idx early N ss sh vals = Some r -> sr_noop r = false ->
  0 <= sr_start r /\ sr_stop r <= 0 /\
  slice_indices (Some (sr_start r)) (Some (Z.max (sr_start r) (N + sr_stop r))) None N
    = Some (fst (sr_crop r), snd (sr_crop r), 1).
Proof. exact shift_idx_crop_is_slice. Qed.

(* the model's own zero mask satisfies the executable clause the monitor evaluates on the implementation's mask *)
Theorem C03_model_meets_spec : forall N ss sh vals,
  zero_ok N ss sh vals (map (fun mi => expected_zeros N (bval sh vals (length ss) mi)) (indices ss)) = 0.
Proof. exact zero_ok_model. Qed.

(* values, over the complex numbers, every n >= 1: a whole-sample shift moves samples exactly; where the source is
   outside the input the result is 0 -- never a wrapped-around sample *)
Theorem C03_integer_shift : forall (n : nat), (0 < n)%nat -> forall (x : nat -> C) (s : Z) (m : nat), (m < n)%nat ->
  tshift_intC n s x m =
  if (0 <=? Z.of_nat m - s) && (Z.of_nat m - s <? Z.of_nat n) then x (Z.to_nat (Z.of_nat m - s)) else RtoC 0.
Proof. exact tshift_int_exact_C. Qed.
Theorem C03_full_shift : forall (n : nat), (0 < n)%nat -> forall (x : nat -> C) (s : Z) (m : nat), (m < n)%nat ->
  Z.of_nat n <= Z.abs s -> tshift_intC n s x m = RtoC 0.
Proof. exact tshift_int_full_C. Qed.
(* any ramp M (fractional shifts: M k = exp(-2 pi i s fftfreq(k)/n)): a tone at bin k0 is multiplied by M k0 *)
Theorem C03_tone : forall (n : nat), (0 < n)%nat -> forall (M : nat -> C) (r : Z * Z) (k0 m : nat), (k0 < n)%nat ->
  in_range r (Z.of_nat m) = false ->
  tshiftC n M r (tone C (W n) k0) m = Cmult (M k0) (tone C (W n) k0 m).
Proof. exact tshift_tone_C. Qed.

(* the ramp the code uses for a FRACTIONAL shift s (exp(-2 pi i s fftfreq(k)/n)): a tone at bin k0 comes out, wherever it is not
   zero-filled, as its band-limited continuation evaluated at m - s: the band-limited delay of the property, every n >= 1, every real s *)
Theorem C03_fractional_tone : forall (n : nat), (0 < n)%nat -> forall (s : R) (r : Z * Z) (k0 m : nat), (k0 < n)%nat ->
  in_range r (Z.of_nat m) = false ->
  tshiftC n (ramp n s) r (tone C (W n) k0) m = tone_at n k0 (INR m - s).
Proof. exact shift_tone_fractional. Qed.
Theorem C03_continuation_at_samples : forall (n : nat), (0 < n)%nat -> forall (k0 m : nat), (k0 < n)%nat ->
  tone_at n k0 (INR m) = tone C (W n) k0 m.
Proof. exact tone_at_int. Qed.

(* non-vacuity: a concrete broadcast case (shift shape (2,) on sample shape (2,3), mixed signs) *)
Example C03_witness :
  shift_idx_flat true 10 [2; 3] [2] [(5 # 2)%Q; (-(7 # 3))%Q] = [0; 3; -3; 3; 7; 0; 3; 0; 3; 0; 3; 7; 10; 7; 10; 7; 10].
Proof. vm_compute. reflexivity. Qed.

(* tie to the source by translation (T6): the per-element logic of the zero-fill loop (sign test, floor / ceil, which slice is set to
   zero), the accumulation of start / stop from (0, 0), the crop window and the sign of the phase ramp are the terms GENERATED from
   transforms.time_shift on this run *)
Theorem C03_generated_zero_range : forall N a st, zero_range N a = zr_of N (snd (gen_tshift_step st a)).
Proof. exact zero_range_generated_t. Qed.
Theorem C03_generated_accumulation : forall vals,
  fold_left (fun st a => fst (gen_tshift_step st a)) vals gen_tshift_init = (acc_start vals, acc_stop vals).
Proof. exact acc_generated. Qed.
Theorem C03_generated_crop : forall early N ss sh vals r,
  shift_idx early N ss sh vals = Some r -> sr_noop r = false -> sr_crop r = zr_of N (gen_tshift_crop (sr_start r) (sr_stop r) N).
Proof. exact crop_generated. Qed.
Theorem C03_generated_ramp_sign : forall N k s, - (fftfreq N k * s) = gen_tshift_sign * (fftfreq N k * s).
Proof. exact tshift_ramp_generated. Qed.

Print Assumptions C03_zero_exact.
Print Assumptions C03_zero_wording.
Print Assumptions C03_every_element.
Print Assumptions C03_crop_exact.
Print Assumptions C03_crop_is_slice.
Print Assumptions C03_model_meets_spec.
Print Assumptions C03_integer_shift.
Print Assumptions C03_tone.
Print Assumptions C03_fractional_tone.
Print Assumptions C03_generated_accumulation.
Print Assumptions C03_generated_crop.
