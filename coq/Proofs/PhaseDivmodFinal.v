(* Proofs/PhaseDivmodFinal.v -- C07: the model's floor_divide satisfies fdiv_spec (Proofs/FloorDivSpec.v), so the floor theorem for the
   divmod branch holds for the bit-exact model without any hypothesis on floor_divide. *)
From Coq Require Import ZArith Reals Floats.
From Flocq Require Import Core BinarySingleNaN PrimFloat.
From PB Require Import Proofs.TwoSumExact Model.Phase2 Model.PhaseDivmod Proofs.PhaseArgmin Proofs.FloorDivSpec Proofs.PhaseDivmodFloor.
Open Scope R_scope.

Theorem model_fdiv_spec : fdiv_spec np_floor_divide.
Proof. intros a b Fa Fb Bb Ba. apply np_floor_divide_floor; assumption. Qed.

Theorem divmod_floor_model (p : ph) (d : PrimFloat.float) (k : Z) :
  p_imag p = false -> fin (p_int p) -> fin (p_frac p) -> R_of (p_int p) = IZR k -> (Z.abs k <= 2 ^ 39)%Z ->
  Rabs (R_of (p_frac p)) <= / 2 + bpow radix2 (-50) ->
  fin d -> bpow radix2 (-10) <= R_of d <= bpow radix2 10 ->
  forall (q : PrimFloat.float) (rem : ph), op_divmod p d = Some (q, rem) ->
  fin q /\ (exists Q : Z, R_of q = IZR Q) /\ ok_ph rem /\
  Rabs (R_of q * R_of d + V rem - V p) <= bpow radix2 (-51) /\
  - (bpow radix2 (-49) + bpow radix2 (-52) * R_of d) <= V rem < R_of d + (bpow radix2 (-49) + bpow radix2 (-52) * R_of d).
Proof. intros Hp Fi Ff Ek Kk Bf Fd Bd q rem H. exact (divmod_floor model_fdiv_spec p d k Hp Fi Ff Ek Kk Bf Fd Bd q rem H). Qed.
