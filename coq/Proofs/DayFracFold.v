(* Proofs/DayFracFold.v -- day_frac and its tail WITH the closing fold (Model/Phase2.day_frac, df_tail): the results of the analysis of the
   unfolded computation (DayFrac3, DayFracTail) carry over unchanged - the fold is exact - and the fraction now lies in [-1/2, 1/2] EXACTLY. *)
From Coq Require Import ZArith Reals Psatz Floats.
From Flocq Require Import Core BinarySingleNaN PrimFloat.
From PB Require Import Proofs.TwoSumExact Model.Phase2 Proofs.Floor Proofs.DayFrac Proofs.DayFrac3 Proofs.DayFracTail Proofs.FoldHalf.
Open Scope R_scope.

(* from the post-condition of the unfolded computation to the one of the folded: T is the exact target, |T| <= 2^52 + 1 *)
Lemma fold_post (d f : PrimFloat.float) (T : R) :
  Rabs T <= bpow radix2 52 + 1 ->
  fin d -> fin f -> (exists k : Z, R_of d = IZR k) ->
  Rabs (R_of d + R_of f - T) <= bpow radix2 (-53) -> Rabs (R_of f) <= / 2 + bpow radix2 (-50) ->
  let '(d', f') := fold_half d f in
  fin d' /\ fin f' /\ (exists k : Z, R_of d' = IZR k) /\
  Rabs (R_of d' + R_of f' - T) <= bpow radix2 (-53) /\ Rabs (R_of f') <= / 2.
Proof.
  intros HT Fd Ff [k Ek] Hacc Hf.
  assert (P50 : bpow radix2 (-50) <= / 1024).
  { apply Rle_trans with (bpow radix2 (-10)); [apply bpow_le; lia|]. simpl. lra. }
  assert (P53 : bpow radix2 (-53) <= / 1024).
  { apply Rle_trans with (bpow radix2 (-10)); [apply bpow_le; lia|]. simpl. lra. }
  assert (B52 : bpow radix2 52 = IZR (2 ^ 52)) by (simpl; lra).
  assert (Hk : (Z.abs k <= 2 ^ 53 - 1)%Z).
  { apply Rabs_le_inv in HT, Hacc, Hf. rewrite Ek in Hacc. rewrite B52 in HT.
    assert (IZR k <= IZR (2 ^ 52 + 2)) by (rewrite plus_IZR; simpl (IZR 2); lra).
    assert (IZR (- 2 ^ 52 - 2) <= IZR k) by (rewrite minus_IZR, opp_IZR; simpl (IZR 2); lra).
    apply le_IZR in H, H0. change (2 ^ 53)%Z with (2 * 2 ^ 52)%Z. lia. }
  pose proof (fold_half_sound d f k Fd Ff Ek Hk Hf) as H.
  destruct (fold_half d f) as [d' f']. destruct H as (Fd' & Ff' & (k' & Ek' & _) & Hsum & Hn).
  split; [exact Fd'|]. split; [exact Ff'|]. split; [exists k'; exact Ek'|]. split; [rewrite Hsum; exact Hacc|exact Hn].
Qed.

Theorem day_frac_sound (v1 v2 : PrimFloat.float) :
  fin v1 -> fin v2 ->
  Rabs (R_of v1) <= bpow radix2 53 -> Rabs (R_of v2) <= bpow radix2 53 ->
  Rabs (R_of v1 + R_of v2) <= bpow radix2 52 ->
  let '(d, f) := day_frac v1 v2 in
  fin d /\ fin f /\ (exists k : Z, R_of d = IZR k) /\
  Rabs (R_of d + R_of f - (R_of v1 + R_of v2)) <= bpow radix2 (-53) /\
  Rabs (R_of f) <= / 2.
Proof.
  intros F1 F2 B1 B2 HV. unfold day_frac.
  pose proof (day_frac0_sound v1 v2 F1 F2 B1 B2 HV) as H.
  destruct (day_frac0 v1 v2) as [d f]. destruct H as (Fd & Ff & Hint & Hacc & Hn).
  apply fold_post; try assumption. lra.
Qed.

Theorem df_tail_sound (s e : PrimFloat.float) :
  fin s -> fin e -> Rabs (R_of s) <= bpow radix2 52 -> Rabs (R_of e) <= / 2 ->
  let '(d, f) := df_tail s e in
  fin d /\ fin f /\ (exists k : Z, R_of d = IZR k) /\
  Rabs (R_of d + R_of f - (R_of s + R_of e)) <= bpow radix2 (-53) /\
  Rabs (R_of f) <= / 2.
Proof.
  intros Fs Fe Bs Be. unfold df_tail.
  pose proof (df_tail0_sound s e Fs Fe Bs Be) as H.
  destruct (df_tail0 s e) as [d f]. destruct H as (Fd & Ff & Hint & Hacc & Hn).
  apply fold_post; try assumption.
  apply Rle_trans with (Rabs (R_of s) + Rabs (R_of e)); [apply Rabs_triang|lra].
Qed.
