"""Interpreter-independent hash of a function's syntax tree (docstring dropped) for whole-function pins."""
import ast, hashlib

SKIP = {'type_params', 'type_comment', 'kind', 'ctx'}


def sdump(n):
    if isinstance(n, ast.AST):
        return type(n).__name__ + '(' + ','.join(f'{k}={sdump(v)}' for k, v in ast.iter_fields(n) if k not in SKIP) + ')'
    if isinstance(n, list):
        return '[' + ','.join(sdump(x) for x in n) + ']'
    return repr(n)


def fn_hash(fn):
    body = [s for s in fn.body if not (isinstance(s, ast.Expr) and isinstance(s.value, ast.Constant) and isinstance(s.value.value, str))]
    txt = sdump(fn.args) + '|' + '[' + ','.join(sdump(d) for d in fn.decorator_list) + ']|' + sdump(body)
    return hashlib.sha256(txt.encode()).hexdigest()[:32]
