(* Proofs/ConcatMore.v -- C10, second part: what an ACCEPTED concatenation implies (class, rate, bandwidth, time contiguity at
   every position, equal start times and labels off-axis, frequency contiguity), hence rejection of a perturbed piece anywhere in a
   list; split/concat round trip along frequency. *)
From Coq Require Import ZArith QArith Qabs Lia Lqa List Bool.
From PB Require Import Lib.PySlice Model.Ledger Model.Band Model.Concat Proofs.BandProofs Proofs.ConcatProofs.
Import ListNotations.
Open Scope Z_scope.

(* ---------- the scan loop: invariants ---------- *)
Lemma scan_keeps_ref eps r : forall ps rf n ref', scan eps r (Some rf) n ps = Some ref' -> ref' = Some rf.
Proof.
  induction ps as [|p ps IH]; intros rf n ref' H; cbn [scan] in H; [congruence|].
  destruct (t0 p) as [t|]; [|eapply IH; exact H].
  destruct (close_abs eps _ t); [eapply IH; exact H|discriminate].
Qed.

(* every piece with a start time sits within eps of (reference + samples before it / rate) *)
Lemma scan_inv eps r : (0 <= eps)%Q -> ~ (r == 0)%Q -> forall ps ref0 n ref,
  scan eps r ref0 n ps = Some ref ->
  forall pre p post t, ps = pre ++ p :: post -> t0 p = Some t ->
  exists rf, ref = Some rf /\ (Qabs (rf + inject_Z (n + total_len pre) / r - t) <= eps)%Q.
Proof.
  intros He Hr. induction ps as [|q ps IH]; intros ref0 n ref H pre p post t E Ht.
  - destruct pre; discriminate.
  - cbn [scan] in H. destruct pre as [|q' pre]; cbn [app] in E; injection E as E1 E2.
    + subst q. rewrite Ht in H. cbn [total_len fold_right]. rewrite Z.add_0_r.
      destruct ref0 as [rf0|].
      * destruct (close_abs eps (rf0 + inject_Z n / r) t) eqn:C; [|discriminate].
        rewrite (scan_keeps_ref _ _ _ _ _ _ H). exists rf0. split; [reflexivity|]. apply Qle_bool_iff. exact C.
      * rewrite (scan_keeps_ref _ _ _ _ _ _ H). eexists. split; [reflexivity|].
        setoid_replace (t - inject_Z n / r + inject_Z n / r - t)%Q with 0%Q by (field; exact Hr). exact He.
    + subst q' ps. cbn [total_len fold_right]. fold (total_len pre).
      replace (n + (len q + total_len pre)) with ((n + len q) + total_len pre) by ring.
      destruct (t0 q) as [tq|]; [destruct ref0 as [rf0|]|].
      * destruct (close_abs eps _ tq); [|discriminate]. eapply IH; [exact H|reflexivity|exact Ht].
      * eapply IH; [exact H|reflexivity|exact Ht].
      * eapply IH; [exact H|reflexivity|exact Ht].
Qed.

Lemma scan_same_keeps_ref eps : forall ps rf ref', scan_same eps (Some rf) ps = Some ref' -> ref' = Some rf.
Proof.
  induction ps as [|p ps IH]; intros rf ref' H; cbn [scan_same] in H; [congruence|].
  destruct (t0 p) as [t|]; [|eapply IH; exact H].
  destruct (close_abs eps rf t); [eapply IH; exact H|discriminate].
Qed.
Lemma scan_same_inv eps : (0 <= eps)%Q -> forall ps ref0 ref,
  scan_same eps ref0 ps = Some ref ->
  forall p t, In p ps -> t0 p = Some t -> exists rf, ref = Some rf /\ (Qabs (rf - t) <= eps)%Q.
Proof.
  intros He. induction ps as [|q ps IH]; intros ref0 ref H p t Hin Ht; [contradiction|].
  cbn [scan_same] in H. destruct Hin as [->|Hin].
  - rewrite Ht in H. destruct ref0 as [rf0|].
    + destruct (close_abs eps rf0 t) eqn:C; [|discriminate]. rewrite (scan_same_keeps_ref _ _ _ _ H).
      exists rf0. split; [reflexivity|]. apply Qle_bool_iff. exact C.
    + rewrite (scan_same_keeps_ref _ _ _ _ H). exists t. split; [reflexivity|].
      setoid_replace (t - t)%Q with 0%Q by ring. exact He.
  - destruct (t0 q) as [tq|]; [destruct ref0 as [rf0|]|].
    + destruct (close_abs eps rf0 tq); [|discriminate]. eapply IH; eassumption.
    + eapply IH; eassumption.
    + eapply IH; eassumption.
Qed.

(* ---------- what acceptance implies ---------- *)
Definition time_check (eps : Q) (axis : Z) (r0 : Q) (leds : list ledger) : option (option Q) :=
  if axis =? 0 then scan eps r0 None 0 leds else scan_same eps None leds.

(* one unfolding of concat on success: every test passed, and the result's ledger *)
Lemma concat_ok_unfold eps rt axis p0 rest s' : concat eps rt axis (p0 :: rest) = COk s' ->
  let ps := p0 :: rest in
  forallb (fun p => s_cls p =? s_cls p0) ps = true /\
  forallb (fun p => close_rel rt (rate (s_led p0)) (rate (s_led p))) ps = true /\
  time_check eps axis (rate (s_led p0)) (map s_led ps) = Some (t0 (s_led s')) /\
  s_cls s' = s_cls p0 /\ rate (s_led s') = rate (s_led p0) /\
  len (s_led s') = (if axis =? 0 then total_len (map s_led ps) else len (s_led p0)) /\
  (axis <> 0 -> forallb (fun p => len (s_led p) =? len (s_led p0)) ps = true) /\
  match s_band p0 with
  | None => axis <> 1 /\ s_band s' = None
  | Some b0 => exists bs, bands_of ps = Some bs /\
      forallb (fun b => close_rel rt (bw b0) (bw b)) bs = true /\
      (axis = 1 -> contiguous rt (bw b0) bs = true /\
         s_band s' = Some (mk_band ((label b0 0 + label (last_band b0 bs) (nchan (last_band b0 bs) - 1)) / 2)%Q (bw b0) (total_chan bs) 1)) /\
      (axis <> 1 -> forallb (fun b => all_close_abs (rt * bw b0) (labels b0) (labels b)) bs = true /\
         s_band s' = Some (mk_band ((label b0 0 + label b0 (nchan b0 - 1)) / 2)%Q (bw b0) (nchan b0) 1))
  end.
Proof.
  intros H ps. unfold concat in H. fold ps in H. unfold time_check.
  destruct (forallb (fun p => s_cls p =? s_cls p0) ps); cbn [negb] in H; [|discriminate].
  destruct (forallb (fun p => close_rel rt (rate (s_led p0)) (rate (s_led p))) ps); cbn [negb] in H; [|discriminate].
  split; [reflexivity|]. split; [reflexivity|].
  destruct (if axis =? 0 then scan eps (rate (s_led p0)) None 0 (map s_led ps) else scan_same eps None (map s_led ps)) as [ref|]; [|discriminate].
  assert (G : forall s0, (if negb (axis =? 0) && negb (forallb (fun p => len (s_led p) =? len (s_led p0)) ps) then CErr 1 else COk s0) = COk s' ->
     s0 = s' /\ (axis <> 0 -> forallb (fun p => len (s_led p) =? len (s_led p0)) ps = true)).
  { intros s0 G. destruct (axis =? 0) eqn:Ea; cbn [negb andb] in G.
    - split; [congruence|]. intros N. apply Z.eqb_eq in Ea. contradiction.
    - destruct (forallb (fun p => len (s_led p) =? len (s_led p0)) ps); cbn [negb] in G; [|discriminate]. split; [congruence|reflexivity]. }
  destruct (s_band p0) as [b0|].
  - destruct (bands_of ps) as [bs|]; [|discriminate].
    destruct (forallb (fun b => close_rel rt (bw b0) (bw b)) bs) eqn:Ebw; cbn [negb] in H; [|discriminate].
    destruct (axis =? 1) eqn:E1.
    + destruct (contiguous rt (bw b0) bs) eqn:Ec; [|discriminate].
      apply G in H. destruct H as [<- HL]. cbn [s_led s_cls s_band t0 rate len].
      split; [reflexivity|]. split; [reflexivity|]. split; [reflexivity|]. split; [reflexivity|]. split; [exact HL|].
      exists bs. split; [reflexivity|]. split; [exact Ebw|]. split; [intros _; split; [exact Ec|reflexivity]|].
      intros N. apply Z.eqb_eq in E1. contradiction.
    + destruct (forallb (fun b => all_close_abs (rt * bw b0) (labels b0) (labels b)) bs) eqn:Ec; [|discriminate].
      apply G in H. destruct H as [<- HL]. cbn [s_led s_cls s_band t0 rate len].
      split; [reflexivity|]. split; [reflexivity|]. split; [reflexivity|]. split; [reflexivity|]. split; [exact HL|].
      exists bs. split; [reflexivity|]. split; [exact Ebw|]. split; [intros ->; discriminate|]. intros _. split; [exact Ec|reflexivity].
  - destruct (axis =? 1) eqn:E1; [discriminate|].
    apply G in H. destruct H as [<- HL]. cbn [s_led s_cls s_band t0 rate len].
    split; [reflexivity|]. split; [reflexivity|]. split; [reflexivity|]. split; [reflexivity|]. split; [exact HL|]. split; [intros ->; discriminate|reflexivity].
Qed.

Lemma concat_nil eps rt axis : concat eps rt axis [] = CErr 1.
Proof. reflexivity. Qed.

Lemma map_app_cons {A B} (f : A -> B) pre p post : map f (pre ++ p :: post) = map f pre ++ f p :: map f post.
Proof. rewrite map_app. reflexivity. Qed.

(* ACCEPTED along time => same class, rates close to the first, total length, and every piece that has a start time sits within
   eps of (start of the result + samples before it / rate): contiguity at EVERY position of the list *)
Theorem accepted_time eps rt ps s' : (0 <= eps)%Q -> concat eps rt 0 ps = COk s' -> ~ (rate (s_led s') == 0)%Q ->
  (forall p, In p ps -> s_cls p = s_cls s') /\
  (forall p, In p ps -> close_rel rt (rate (s_led s')) (rate (s_led p)) = true) /\
  len (s_led s') = total_len (map s_led ps) /\
  (forall pre p post t, ps = pre ++ p :: post -> t0 (s_led p) = Some t ->
     exists rf, t0 (s_led s') = Some rf /\
       (Qabs (rf + inject_Z (total_len (map s_led pre)) / rate (s_led s') - t) <= eps)%Q).
Proof.
  intros He H Hr. destruct ps as [|p0 rest]; [discriminate|].
  destruct (concat_ok_unfold _ _ _ _ _ _ H) as (C1 & C2 & C3 & C4 & C5 & C6 & _). rewrite C4, C5 in *.
  split; [intros p Hin; rewrite forallb_forall in C1; apply Z.eqb_eq; apply C1; exact Hin|].
  split; [intros p Hin; rewrite forallb_forall in C2; apply C2; exact Hin|].
  split; [exact C6|].
  intros pre p post t E Ht. unfold time_check in C3. change (0 =? 0) with true in C3. cbv iota in C3.
  rewrite E, map_app_cons in C3.
  destruct (scan_inv eps _ He Hr _ _ _ _ C3 (map s_led pre) (s_led p) (map s_led post) t eq_refl Ht) as (rf & E1 & E2).
  exists rf. split; [exact E1|]. rewrite Z.add_0_l in E2. exact E2.
Qed.

(* ACCEPTED along another axis => equal lengths, and all present start times within eps of the result's *)
Theorem accepted_off_time eps rt axis ps s' : (0 <= eps)%Q -> axis <> 0 -> concat eps rt axis ps = COk s' ->
  (forall p, In p ps -> s_cls p = s_cls s') /\
  (forall p, In p ps -> close_rel rt (rate (s_led s')) (rate (s_led p)) = true) /\
  (forall p, In p ps -> len (s_led p) = len (s_led s')) /\
  (forall p t, In p ps -> t0 (s_led p) = Some t -> exists rf, t0 (s_led s') = Some rf /\ (Qabs (rf - t) <= eps)%Q).
Proof.
  intros He Ha H. destruct ps as [|p0 rest]; [discriminate|].
  destruct (concat_ok_unfold _ _ _ _ _ _ H) as (C1 & C2 & C3 & C4 & C5 & C6 & C7 & _). rewrite C4, C5 in *.
  assert (Ea : (axis =? 0) = false) by (apply Z.eqb_neq; exact Ha). rewrite Ea in C6.
  split; [intros p Hin; rewrite forallb_forall in C1; apply Z.eqb_eq; apply C1; exact Hin|].
  split; [intros p Hin; rewrite forallb_forall in C2; apply C2; exact Hin|].
  split. { intros p Hin. specialize (C7 Ha). rewrite forallb_forall in C7. rewrite C6. apply Z.eqb_eq. apply C7. exact Hin. }
  intros p t Hin Ht. unfold time_check in C3. rewrite Ea in C3.
  destruct (scan_same_inv eps He _ _ _ C3 (s_led p) t (in_map s_led _ _ Hin) Ht) as (rf & E1 & E2).
  exists rf. split; [exact E1|exact E2].
Qed.

Lemma bands_of_in : forall ps bs, bands_of ps = Some bs -> forall p, In p ps -> exists b, s_band p = Some b /\ In b bs.
Proof.
  induction ps as [|q ps IH]; intros bs H p Hin; [contradiction|]. cbn [bands_of] in H.
  destruct (s_band q) as [bq|] eqn:Eq; [|discriminate]. destruct (bands_of ps) as [bs'|]; [|discriminate]. injection H as <-.
  destruct Hin as [->|Hin]; [exists bq; split; [exact Eq|left; reflexivity]|].
  destruct (IH bs' eq_refl p Hin) as (b & E & I). exists b. split; [exact E|right; exact I].
Qed.
Lemma bands_of_app : forall ps qs bs, bands_of (ps ++ qs) = Some bs ->
  exists b1 b2, bands_of ps = Some b1 /\ bands_of qs = Some b2 /\ bs = b1 ++ b2.
Proof.
  induction ps as [|p ps IH]; intros qs bs H; cbn [app bands_of] in *.
  - exists [], bs. split; [reflexivity|]. split; [exact H|reflexivity].
  - destruct (s_band p) as [b|]; [|discriminate]. destruct (bands_of (ps ++ qs)) as [bs'|] eqn:E; [|discriminate]. injection H as <-.
    destruct (IH qs bs' E) as (b1 & b2 & E1 & E2 & ->). rewrite E1. exists (b :: b1), b2. split; [reflexivity|]. split; [exact E2|reflexivity].
Qed.

Lemma contiguous_at rt cbw : forall pre x y post, contiguous rt cbw (pre ++ x :: y :: post) = true ->
  close_rel rt (label y 0 - label x (nchan x - 1))%Q cbw = true.
Proof.
  induction pre as [|a pre IH]; intros x y post H.
  - cbn [app contiguous] in H. apply andb_true_iff in H. exact (proj1 H).
  - cbn [app] in H. destruct pre as [|a' pre']; cbn [app contiguous] in H; apply andb_true_iff in H; destruct H as [_ H].
    + apply (IH x y post). exact H.
    + apply (IH x y post). exact H.
Qed.

(* ACCEPTED => every piece of a radio signal has a band whose channel width is close to the first's; along frequency the bands
   are contiguous AT EVERY JOIN; along other axes every piece carries (within tolerance) the first piece's labels *)
Theorem accepted_bands eps rt axis p0 rest s' b0 : concat eps rt axis (p0 :: rest) = COk s' -> s_band p0 = Some b0 ->
  exists bs, bands_of (p0 :: rest) = Some bs /\
  (forall b, In b bs -> close_rel rt (bw b0) (bw b) = true) /\
  (axis = 1 -> forall pre x y post, bs = pre ++ x :: y :: post ->
     close_rel rt (label y 0 - label x (nchan x - 1))%Q (bw b0) = true) /\
  (axis <> 1 -> forall b, In b bs -> all_close_abs (rt * bw b0) (labels b0) (labels b) = true).
Proof.
  intros H Hb. destruct (concat_ok_unfold _ _ _ _ _ _ H) as (_ & _ & _ & _ & _ & _ & _ & C8). rewrite Hb in C8.
  destruct C8 as (bs & E & Cbw & C1 & C2). exists bs. split; [exact E|].
  split; [intros b Hin; rewrite forallb_forall in Cbw; apply Cbw; exact Hin|].
  split.
  - intros Ha pre x y post ->. destruct (C1 Ha) as [Cc _]. eapply contiguous_at. exact Cc.
  - intros Ha b Hin. destruct (C2 Ha) as [Cl _]. rewrite forallb_forall in Cl. apply Cl. exact Hin.
Qed.
Theorem accepted_needs_bands eps rt axis p0 rest s' : concat eps rt axis (p0 :: rest) = COk s' -> s_band p0 = None ->
  axis <> 1 /\ s_band s' = None.
Proof. intros H Hb. destruct (concat_ok_unfold _ _ _ _ _ _ H) as (_ & _ & _ & _ & _ & _ & _ & C8). rewrite Hb in C8. exact C8. Qed.

(* ---------- rejection anywhere in the list ---------- *)
Definition rejected (r : cres) : Prop := exists e, r = CErr e.
Lemma not_ok_rejected r : (forall s, r <> COk s) -> rejected r.
Proof. intros H. destruct r as [s|e]; [exfalso; exact (H s eq_refl)|exists e; reflexivity]. Qed.

Lemma total_len_app a b : total_len (a ++ b) = total_len a + total_len b.
Proof. induction a as [|x a IH]; cbn [app total_len fold_right]; [reflexivity|]. fold (total_len (a ++ b)). fold (total_len a). rewrite IH. ring. Qed.

(* two pieces with start times anywhere in the list, the later one displaced by d samples (|d| >= 1) relative to the earlier one:
   refused whenever the closeness tolerance is below half a sample *)
Theorem reject_displaced_anywhere eps rt pre p mid q post tp tq d r :
  (0 <= eps)%Q -> (0 < r)%Q -> (2 * eps < 1 / r)%Q -> (1 <= Qabs d)%Q ->
  (match pre ++ [p] with x :: _ => rate (s_led x) | [] => r end) = r ->
  t0 (s_led p) = Some tp -> t0 (s_led q) = Some tq ->
  (tq == tp + (inject_Z (len (s_led p) + total_len (map s_led mid)) + d) / r)%Q ->
  rejected (concat eps rt 0 (pre ++ p :: mid ++ q :: post)).
Proof.
  intros He Hr Htol Hd Hrate Hp Hq Hgap. apply not_ok_rejected. intros s' H.
  assert (Hrs : rate (s_led s') = r).
  { destruct (pre ++ p :: mid ++ q :: post) as [|x l] eqn:E; [discriminate|].
    destruct (concat_ok_unfold _ _ _ _ _ _ H) as (_ & _ & _ & _ & C5 & _). rewrite C5.
    destruct pre as [|x' pre']; cbn [app] in E, Hrate; injection E as <- _; exact Hrate. }
  assert (Hr0 : ~ (rate (s_led s') == 0)%Q) by (rewrite Hrs; lra).
  destruct (accepted_time _ _ _ _ He H Hr0) as (_ & _ & _ & HT). rewrite Hrs in HT.
  destruct (HT pre p (mid ++ q :: post) tp eq_refl Hp) as (rf & E1 & B1).
  destruct (HT (pre ++ p :: mid) q post tq) as (rf' & E1' & B2). { rewrite <- app_assoc. reflexivity. } { exact Hq. }
  rewrite E1 in E1'. injection E1' as <-.
  rewrite map_app_cons, total_len_app in B2. cbn [total_len fold_right] in B2. fold (total_len (map s_led mid)) in B2.
  set (a := total_len (map s_led pre)) in *. set (m := total_len (map s_led mid)) in *. set (np := len (s_led p)) in *.
  assert (X : (rf + inject_Z (a + (np + m)) / r - tq == (rf + inject_Z a / r - tp) - d / r)%Q).
  { rewrite Hgap. rewrite !inject_Z_plus. field. lra. }
  rewrite X in B2. pose proof (Qabs_ge_mult d r Hr Hd) as G.
  pose proof (Qabs_triangle_reverse (rf + inject_Z a / r - tp - d / r) (rf + inject_Z a / r - tp)) as T.
  assert (Y : (rf + inject_Z a / r - tp - d / r - (rf + inject_Z a / r - tp) == - (d / r))%Q) by ring.
  rewrite Y, Qabs_opp in T.
  assert (T2 : (Qabs (d / r) <= Qabs (rf + inject_Z a / r - tp - d / r) + Qabs (rf + inject_Z a / r - tp))%Q).
  { pose proof (Qabs_triangle (rf + inject_Z a / r - tp - d / r) (- (rf + inject_Z a / r - tp))) as T3.
    rewrite Qabs_opp in T3. setoid_replace (rf + inject_Z a / r - tp - d / r + - (rf + inject_Z a / r - tp))%Q with (- (d / r))%Q in T3 by ring.
    rewrite Qabs_opp in T3. exact T3. }
  lra.
Qed.

(* a piece whose sample rate is not close to the first piece's, anywhere, on any axis *)
Theorem reject_rate_anywhere eps rt axis p0 rest p : In p (p0 :: rest) ->
  close_rel rt (rate (s_led p0)) (rate (s_led p)) = false -> rejected (concat eps rt axis (p0 :: rest)).
Proof.
  intros Hin F. apply not_ok_rejected. intros s' H.
  destruct (concat_ok_unfold _ _ _ _ _ _ H) as (_ & C2 & _). rewrite forallb_forall in C2. rewrite (C2 p Hin) in F. discriminate.
Qed.
(* a piece whose channel width is not close to the first piece's, or that has no band at all *)
Theorem reject_bw_anywhere eps rt axis p0 rest p b0 : In p (p0 :: rest) -> s_band p0 = Some b0 ->
  match s_band p with Some b => close_rel rt (bw b0) (bw b) = false | None => True end ->
  rejected (concat eps rt axis (p0 :: rest)).
Proof.
  intros Hin Hb F. apply not_ok_rejected. intros s' H.
  destruct (accepted_bands _ _ _ _ _ _ _ H Hb) as (bs & E & Cbw & _).
  destruct (bands_of_in _ _ E p Hin) as (b & Eb & Ib). rewrite Eb in F. rewrite (Cbw b Ib) in F. discriminate.
Qed.
(* joining along another axis: two pieces whose start times differ by more than twice the tolerance *)
Theorem reject_start_mismatch eps rt axis ps p q tp tq : (0 <= eps)%Q -> axis <> 0 -> In p ps -> In q ps ->
  t0 (s_led p) = Some tp -> t0 (s_led q) = Some tq -> (2 * eps < Qabs (tp - tq))%Q ->
  rejected (concat eps rt axis ps).
Proof.
  intros He Ha Hp Hq Tp Tq Hd. apply not_ok_rejected. intros s' H.
  destruct (accepted_off_time _ _ _ _ _ He Ha H) as (_ & _ & _ & HT).
  destruct (HT p tp Hp Tp) as (rf & E1 & B1). destruct (HT q tq Hq Tq) as (rf' & E2 & B2). rewrite E1 in E2. injection E2 as <-.
  pose proof (Qabs_triangle (tp - rf) (rf - tq)) as T. setoid_replace (tp - rf + (rf - tq))%Q with (tp - tq)%Q in T by ring.
  setoid_replace (tp - rf)%Q with (- (rf - tp))%Q in T by ring. rewrite Qabs_opp in T. lra.
Qed.
(* joining along another axis: a piece of a different length *)
Theorem reject_length_mismatch eps rt axis p0 rest p : axis <> 0 -> In p (p0 :: rest) -> len (s_led p) <> len (s_led p0) ->
  rejected (concat eps rt axis (p0 :: rest)).
Proof.
  intros Ha Hin Hne. apply not_ok_rejected. intros s' H.
  destruct (concat_ok_unfold _ _ _ _ _ _ H) as (_ & _ & _ & _ & _ & _ & C7 & _). specialize (C7 Ha). rewrite forallb_forall in C7.
  apply Hne. apply Z.eqb_eq. apply C7. exact Hin.
Qed.
(* along frequency: two adjacent bands anywhere in the list, the upper one displaced by d channels, |d| >= 1, rt < 1 *)
Theorem reject_freq_gap_anywhere eps rt p0 rest b0 bs pre x y post d :
  s_band p0 = Some b0 -> bands_of (p0 :: rest) = Some bs -> bs = pre ++ x :: y :: post ->
  (0 <= rt)%Q -> (rt < 1)%Q -> (0 < bw b0)%Q -> (1 <= Qabs d)%Q ->
  (label y 0 == label x (nchan x - 1) + bw b0 * (1 + d))%Q ->
  rejected (concat eps rt 1 (p0 :: rest)).
Proof.
  intros Hb HB Hbs Hrt Hrt1 Hbw Hd Hl. apply not_ok_rejected. intros s' H.
  destruct (accepted_bands _ _ _ _ _ _ _ H Hb) as (bs' & E & _ & C1 & _). rewrite HB in E. injection E as <-.
  specialize (C1 eq_refl pre x y post Hbs). unfold close_rel in C1. apply Qle_bool_iff in C1.
  assert (X : (label y 0 - label x (nchan x - 1) - bw b0 == bw b0 * d)%Q) by (rewrite Hl; ring).
  rewrite X, Qabs_Qmult, !(Qabs_pos (bw b0)) in C1 by lra.
  assert (bw b0 * 1 <= bw b0 * Qabs d)%Q by (apply Qmult_le_l; assumption).
  assert (rt * bw b0 < 1 * bw b0)%Q by (apply Qmult_lt_compat_r; assumption). lra.
Qed.
(* off the frequency axis: a piece whose labels are not those of the first piece *)
Theorem reject_label_mismatch eps rt axis p0 rest p b0 b : axis <> 1 -> In p (p0 :: rest) -> s_band p0 = Some b0 -> s_band p = Some b ->
  all_close_abs (rt * bw b0) (labels b0) (labels b) = false -> rejected (concat eps rt axis (p0 :: rest)).
Proof.
  intros Ha Hin Hb Hp F. apply not_ok_rejected. intros s' H.
  destruct (accepted_bands _ _ _ _ _ _ _ H Hb) as (bs & E & _ & _ & C2).
  destruct (bands_of_in _ _ E p Hin) as (b' & Eb & Ib). rewrite Hp in Eb. injection Eb as <-. rewrite (C2 Ha b Ib) in F. discriminate.
Qed.

(* ---------- split along frequency, concatenate: the band comes back ---------- *)
Definition fsplit (s : sig) (b : band) (cuts : list Z) : list sig :=
  map (fun x => {| s_cls := s_cls s; s_led := s_led s; s_band := Some x |}) (fsplit_at b 0 cuts).

Lemma chan_piece_label b c0 c1 j : (label (chan_piece b c0 c1) j == label b (c0 + j))%Q.
Proof.
  unfold chan_piece, label. cbn [cf bw nchan align mk_band].
  assert (Hal : norm_align (c1 - c0) 1 = 1) by (unfold norm_align; destruct (Z.odd _); reflexivity).
  rewrite Hal. destruct align_q_vals as (_ & H1 & _). rewrite H1.
  unfold Z.sub. rewrite !inject_Z_plus, !inject_Z_opp. change (inject_Z 1) with 1%Q. field.
Qed.

Lemma scan_same_const eps (l : ledger) : (0 <= eps)%Q -> forall n : nat, scan_same eps None (repeat l (S n)) = Some (t0 l).
Proof.
  intros He n. destruct (t0 l) as [t|] eqn:Et.
  - assert (B : forall m, scan_same eps (Some t) (repeat l m) = Some (Some t)).
    { induction m as [|m IH]; cbn [repeat scan_same]; [reflexivity|]. rewrite Et, close_abs_refl; [exact IH|exact He|reflexivity]. }
    cbn [repeat scan_same]. rewrite Et. apply B.
  - assert (A : forall m ref, scan_same eps ref (repeat l m) = Some ref).
    { induction m as [|m IH]; intros ref; cbn [repeat scan_same]; [reflexivity|]. rewrite Et. apply IH. }
    apply A.
Qed.

Lemma contiguous_cons rt c x y r : contiguous rt c (x :: y :: r) = close_rel rt (label y 0 - label x (nchan x - 1))%Q c && contiguous rt c (y :: r).
Proof. reflexivity. Qed.
Lemma fsplit_contiguous rt b : (0 <= rt)%Q -> forall cuts c0, contiguous rt (bw b) (fsplit_at b c0 cuts) = true.
Proof.
  intros Hrt. induction cuts as [|c1 cs IH]; intros c0; [reflexivity|].
  destruct cs as [|c2 cs']; [reflexivity|].
  change (fsplit_at b c0 (c1 :: c2 :: cs')) with (chan_piece b c0 c1 :: chan_piece b c1 c2 :: fsplit_at b c2 cs').
  rewrite contiguous_cons. specialize (IH c1). change (fsplit_at b c1 (c2 :: cs')) with (chan_piece b c1 c2 :: fsplit_at b c2 cs') in IH.
  rewrite IH, andb_true_r.
  apply close_rel_refl; [exact Hrt|].
  rewrite !chan_piece_label. unfold chan_piece. cbn [nchan mk_band].
  replace (c0 + (c1 - c0 - 1)) with (c1 - 1) by ring. rewrite Z.add_0_r.
  pose proof (label_spacing b (c1 - 1)) as S. replace (c1 - 1 + 1) with c1 in S by ring. exact S.
Qed.
Lemma fsplit_total b : forall cuts c0, total_chan (fsplit_at b c0 cuts) = flast_cut c0 cuts - c0.
Proof. induction cuts as [|c1 cs IH]; intros c0; cbn [fsplit_at total_chan fold_right flast_cut]; [lia|].
  fold (total_chan (fsplit_at b c1 cs)). rewrite IH. unfold chan_piece. cbn [nchan mk_band]. lia. Qed.
Lemma fsplit_last_label b d : forall cuts c0 c1,
  let bl := last (fsplit_at b c0 (c1 :: cuts)) d in
  (label bl (nchan bl - 1) == label b (flast_cut c0 (c1 :: cuts) - 1))%Q.
Proof.
  induction cuts as [|c2 cs IH]; intros c0 c1.
  - cbn [fsplit_at last flast_cut]. rewrite chan_piece_label. unfold chan_piece. cbn [nchan mk_band].
    replace (c0 + (c1 - c0 - 1)) with (c1 - 1) by ring. reflexivity.
  - specialize (IH c1 c2). cbn [fsplit_at flast_cut] in IH |- *. cbn [last]. exact IH.
Qed.
Lemma fsplit_bw b : forall cuts c0 x, In x (fsplit_at b c0 cuts) -> bw x = bw b.
Proof. induction cuts as [|c1 cs IH]; intros c0 x H; cbn [fsplit_at] in H; [contradiction|].
  destruct H as [<-|H]; [reflexivity|eapply IH; exact H]. Qed.

Lemma bands_of_map_some (c : Z) (l : ledger) : forall xs,
  bands_of (map (fun x => {| s_cls := c; s_led := l; s_band := Some x |}) xs) = Some xs.
Proof. induction xs as [|x xs IH]; cbn [map bands_of s_band]; [reflexivity|]. rewrite IH. reflexivity. Qed.

Lemma label_cf_compat c c' w n a j : (c == c')%Q ->
  (label {| cf := c; bw := w; nchan := n; align := a |} j == label {| cf := c'; bw := w; nchan := n; align := a |} j)%Q.
Proof. intros E. unfold label. cbn [cf bw nchan align]. rewrite E. reflexivity. Qed.

Theorem split_concat_freq eps rt s b c1 cs :
  (0 <= eps)%Q -> (0 <= rt)%Q -> s_band s = Some b ->
  flast_cut 0 (c1 :: cs) = nchan b ->
  exists s', concat eps rt 1 (fsplit s b (c1 :: cs)) = COk s' /\
    s_cls s' = s_cls s /\ s_led s' = s_led s /\ band_labels_eq (s_band s') (Some b).
Proof.
  intros He Hrt Hb Hlast. unfold fsplit. set (cuts := c1 :: cs) in *.
  set (mk := fun x => {| s_cls := s_cls s; s_led := s_led s; s_band := Some x |}).
  destruct (fsplit_at b 0 cuts) as [|x0 xs] eqn:Hs; [discriminate|].
  unfold concat. cbn [map]. cbn [s_cls s_led s_band mk].
  assert (C1 : forallb (fun p : sig => s_cls p =? s_cls s) (mk x0 :: map mk xs) = true).
  { apply forallb_forall. intros p Hin. destruct Hin as [<-|Hin]; [apply Z.eqb_refl|].
    apply in_map_iff in Hin. destruct Hin as (? & <- & _). apply Z.eqb_refl. }
  rewrite C1. cbn [negb].
  assert (C2 : forallb (fun p : sig => close_rel rt (rate (s_led s)) (rate (s_led p))) (mk x0 :: map mk xs) = true).
  { apply forallb_forall. intros p Hin. apply close_rel_refl; [exact Hrt|].
    destruct Hin as [<-|Hin]; [reflexivity|]. apply in_map_iff in Hin. destruct Hin as (? & <- & _). reflexivity. }
  rewrite C2. cbn [negb]. change (1 =? 0) with false. cbv iota.
  assert (Hleds : s_led s :: map s_led (map mk xs) = repeat (s_led s) (S (length xs))).
  { cbn [repeat]. f_equal. rewrite map_map. cbn [s_led mk]. clear. induction xs as [|x xs IH]; [reflexivity|]. cbn [map length repeat]. rewrite IH. reflexivity. }
  rewrite Hleds, (scan_same_const eps (s_led s) He).
  assert (C3 : forallb (fun p : sig => len (s_led p) =? len (s_led s)) (mk x0 :: map mk xs) = true).
  { apply forallb_forall. intros p Hin. destruct Hin as [<-|Hin]; [apply Z.eqb_refl|].
    apply in_map_iff in Hin. destruct Hin as (? & <- & _). apply Z.eqb_refl. }
  rewrite C3. cbn [negb andb].
  change (mk x0 :: map mk xs) with (map mk (x0 :: xs)). unfold mk. rewrite bands_of_map_some. fold mk.
  assert (Hbw0 : bw x0 = bw b) by (apply (fsplit_bw b cuts 0); rewrite Hs; left; reflexivity).
  assert (C4 : forallb (fun b1 : band => close_rel rt (bw x0) (bw b1)) (x0 :: xs) = true).
  { apply forallb_forall. intros b1 Hin. apply close_rel_refl; [exact Hrt|]. rewrite Hbw0.
    rewrite (fsplit_bw b cuts 0 b1); [reflexivity|rewrite Hs; exact Hin]. }
  rewrite C4. cbn [negb]. change (1 =? 1) with true. cbv iota.
  rewrite Hbw0, <- Hs, (fsplit_contiguous rt b Hrt cuts 0).
  eexists. split; [reflexivity|]. cbn [s_cls s_led s_band]. split; [reflexivity|].
  split. { destruct (s_led s); reflexivity. }
  cbn [band_labels_eq]. rewrite fsplit_total, Hlast, Z.sub_0_r. cbn [nchan bw mk_band]. split; [reflexivity|]. split; [reflexivity|].
  intros j. unfold last_band. rewrite Hs.
  assert (E0 : (label x0 0 == label b 0)%Q).
  { assert (x0 = chan_piece b 0 c1) as -> by (unfold cuts in Hs; cbn [fsplit_at] in Hs; congruence). rewrite chan_piece_label. reflexivity. }
  assert (E1 : (label (last (x0 :: xs) x0) (nchan (last (x0 :: xs) x0) - 1) == label b (nchan b - 1))%Q).
  { rewrite <- Hs, <- Hlast. unfold cuts. apply (fsplit_last_label b x0 cs 0 c1). }
  unfold mk_band. rewrite (label_cf_compat _ ((label b 0 + label b (nchan b - 1)) / 2)%Q) by (rewrite E0, E1; reflexivity).
  apply recentre_labels.
Qed.

Example split_concat_freq_example :
  let b := mk_band (1400#1) (2#1) 6 0 in
  let s := {| s_cls := 5; s_led := {| t0 := Some (100#1); rate := 10#1; len := 7 |}; s_band := Some b |} in
  match concat (1#1000) (1#100000) 1 (fsplit s b [1; 4; 6]) with
  | COk s' => len (s_led s') = 7 /\ (match s_band s' with Some b' => nchan b' = 6 /\ (label b' 3 == label b 3)%Q | None => False end)
  | CErr _ => False end.
Proof. vm_compute. repeat split; reflexivity. Qed.
