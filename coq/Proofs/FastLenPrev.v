(* probe: optimality of the T1-generated prev_fast_len *)
From PB Require Import Gen.GenUtils Proofs.FastLenA Proofs.FastLenB.
From Coq Require Import ZArith Lia List Bool.
Open Scope Z_scope.
Import prev_fast_len.

(* every candidate of lower 3-level that is <= N is <= g *)
Definition accp (N f g : Z) (j : nat) : Prop :=
  forall i' j', (j' < j)%nat -> val f i' j' <= N -> val f i' j' <= g.

Lemma loop1_step fuel N f7 g f75 x :
  loop1 (S fuel) (mk N f7 g f75 x) =
    if x <? N then loop1 fuel (mk N f7 (if x >? g then x else g) f75 (x * 3))
    else if x >? N then
      if Z.land x 1 =? 0 then loop1 fuel (mk N f7 g f75 (Z.shiftr x 1))
      else Normal (mk N f7 g f75 x)
    else Ret N.
Proof.
  cbn [loop1 GenUtils.seq v_N v_f7 v_guess v_f75 v_x].
  destruct (x <? N).
  - destruct (x >? g); cbn [GenUtils.seq v_N v_f7 v_guess v_f75 v_x]; reflexivity.
  - destruct (x >? N); [|reflexivity]. destruct (Z.land x 1 =? 0); reflexivity.
Qed.

Lemma loop1_spec : forall fuel N f7 f75 f g i j,
  0 < f -> Z.odd f = true -> 0 < N ->
  N < 2 * val f i j -> accp N f g j ->
  match loop1 fuel (mk N f7 g f75 (val f i j)) with
  | Normal s' => v_N s' = N /\ v_f7 s' = f7 /\ v_f75 s' = f75 /\
                 g <= v_guess s' /\ (forall i' j', val f i' j' <= N -> val f i' j' <= v_guess s')
                 /\ (v_guess s' = g \/ exists a b, v_guess s' = val f a b /\ v_guess s' < N)
  | Ret v => v = N /\ exists a b, N = val f a b
  | Brk _ => False
  | OutOfFuel => True
  end.
Proof.
  induction fuel as [|fuel IH]; intros N f7 f75 f g i j Hf Hodd HN H2x Hacc; [exact I|].
  rewrite loop1_step. set (x := val f i j) in *.
  destruct (x <? N) eqn:E1.
  - apply Z.ltb_lt in E1. replace (x * 3) with (val f i (S j)) by (unfold x; rewrite val_S_j; ring).
    set (g1 := if x >? g then x else g).
    assert (Hg1 : g <= g1 /\ x <= g1 /\ (g1 = g \/ g1 = x)).
    { unfold g1. destruct (x >? g) eqn:E3; [apply Z.gtb_lt in E3|rewrite Z.gtb_ltb in E3; apply Z.ltb_ge in E3]; lia. }
    specialize (IH N f7 f75 f g1 i (S j) Hf Hodd HN).
    assert (H2x' : N < 2 * val f i (S j)) by (rewrite val_S_j; fold x; lia).
    assert (Hacc' : accp N f g1 (S j)).
    { intros i' j' Hj Hv. destruct (Nat.eq_dec j' j) as [->|Hne].
      - destruct (Nat.le_gt_cases i' i) as [Hle|Hgt].
        + pose proof (val_mono_i f i' i j Hf Hle). fold x in H. lia.
        + assert (val f (S i) j <= val f i' j) by (apply val_mono_i; [assumption|lia]).
          rewrite val_S_i in H. fold x in H. lia.
      - assert (val f i' j' <= g) by (apply Hacc; [lia|assumption]). lia. }
    specialize (IH H2x' Hacc').
    destruct (loop1 fuel (mk N f7 g1 f75 (val f i (S j)))) as [s'|s'|v|]; auto.
    destruct IH as (A1 & A2 & A3 & A4 & A5 & A6). repeat (split; [assumption|]). split; [lia|]. split; [exact A5|].
    destruct A6 as [A6|A6]; [|right; exact A6]. rewrite A6.
    destruct Hg1 as (_ & _ & [->| ->]); [left; reflexivity|right]. exists i, j. split; [reflexivity|]. fold x. lia.
  - apply Z.ltb_ge in E1. destruct (x >? N) eqn:E2.
    + apply Z.gtb_lt in E2.
      destruct (Z.land x 1 =? 0) eqn:E4.
      * apply Z.eqb_eq in E4.
        destruct i as [|i].
        { exfalso. pose proof (val_odd f j Hodd) as Ho. fold x in Ho. apply odd_mod in Ho. rewrite land1 in E4. lia. }
        assert (Hx : x = 2 * val f i j) by (unfold x; apply val_S_i).
        rewrite Z.shiftr_div_pow2 by lia. change (2^1) with 2.
        replace (x / 2) with (val f i j) by (rewrite Hx, Z.mul_comm, Z.div_mul; lia).
        apply IH; auto. lia.
      * apply Z.eqb_neq in E4.
        assert (Hi : i = 0%nat).
        { destruct i as [|i]; auto. exfalso. apply E4.
          assert (Hx : x = 2 * val f i j) by (unfold x; apply val_S_i).
          rewrite land1, Hx, Z.mul_comm. apply Z.mod_mul. lia. }
        subst i. cbn [v_N v_f7 v_f75 v_guess]. split; [reflexivity|]. split; [reflexivity|]. split; [reflexivity|].
        split; [lia|]. split; [|left; reflexivity].
        intros i' j' Hv.
        destruct (Nat.lt_ge_cases j' j) as [Hlt|Hge]; [apply Hacc; assumption|].
        exfalso. assert (x <= val f i' j').
        { unfold x. apply Z.le_trans with (val f i' j); [apply val_mono_i; [assumption|lia] | apply val_mono_j; [assumption|lia]]. }
        lia.
    + rewrite Z.gtb_ltb in E2. apply Z.ltb_ge in E2. split; [reflexivity|]. exists i, j. fold x. lia.
Qed.

Lemma loop1_fuel : forall fuel N f7 f75 f g i j,
  0 < f -> Z.odd f = true -> 0 < N -> N < 2 * val f i j ->
  (2 * i + (if (val f i j <? N)%Z then 1 else 0) + 2 <= fuel)%nat ->
  loop1 fuel (mk N f7 g f75 (val f i j)) <> OutOfFuel.
Proof.
  induction fuel as [|fuel IH]; intros N f7 f75 f g i j Hf Hodd HN H2x Hfu; [lia|].
  rewrite loop1_step. set (x := val f i j) in *.
  destruct (x <? N) eqn:E1.
  - apply Z.ltb_lt in E1. replace (x * 3) with (val f i (S j)) by (unfold x; rewrite val_S_j; ring).
    apply IH; auto; rewrite val_S_j; fold x; [lia|].
    destruct (3 * x <? N) eqn:E; [apply Z.ltb_lt in E|]; lia.
  - destruct (x >? N) eqn:E2; [|discriminate]. apply Z.gtb_lt in E2.
    destruct (Z.land x 1 =? 0) eqn:E4; [|discriminate].
    apply Z.eqb_eq in E4.
    destruct i as [|i].
    { exfalso. pose proof (val_odd f j Hodd) as Ho. fold x in Ho. apply odd_mod in Ho. rewrite land1 in E4. lia. }
    assert (Hx : x = 2 * val f i j) by (unfold x; apply val_S_i).
    rewrite Z.shiftr_div_pow2 by lia. change (2^1) with 2.
    replace (x / 2) with (val f i j) by (rewrite Hx, Z.mul_comm, Z.div_mul; lia).
    apply IH; auto; [lia|]. destruct (val f i j <? N); lia.
Qed.

(* doubling loop: while x <= N: x *= 2 *)
Lemma loop2_step fuel N f7 g f75 x :
  loop2 (S fuel) (mk N f7 g f75 x) =
    if x <=? N then loop2 fuel (mk N f7 g f75 (x * 2)) else Normal (mk N f7 g f75 x).
Proof. cbn [loop2 v_N v_f7 v_guess v_f75 v_x]. destruct (x <=? N); reflexivity. Qed.

Lemma loop2_spec : forall fuel N f7 g f75 f i,
  0 < f -> 0 < N -> N < val f i 0 * 2 ^ (Z.of_nat fuel - 1) ->
  exists i', loop2 fuel (mk N f7 g f75 (val f i 0)) = Normal (mk N f7 g f75 (val f i' 0))
             /\ (i <= i')%nat /\ N < val f i' 0 /\ (i' = i \/ val f i' 0 <= 2 * N).
Proof.
  induction fuel as [|fuel IH]; intros N f7 g f75 f i Hf HN Hfu.
  - exfalso. change (Z.of_nat 0 - 1) with (-1) in Hfu. rewrite Z.pow_neg_r in Hfu by lia. lia.
  - rewrite loop2_step. destruct (val f i 0 <=? N) eqn:E.
    + apply Z.leb_le in E.
      replace (val f i 0 * 2) with (val f (S i) 0) by (rewrite val_S_i; ring).
      destruct (IH N f7 g f75 f (S i) Hf HN) as (i' & H1 & H2 & H3 & H4).
      { rewrite val_S_i. destruct fuel as [|fuel].
        - change (Z.of_nat 1 - 1) with 0 in Hfu. rewrite Z.pow_0_r in Hfu. lia.
        - replace (Z.of_nat (S (S fuel)) - 1) with (Z.succ (Z.of_nat (S fuel) - 1)) in Hfu by lia.
          rewrite Z.pow_succ_r in Hfu by lia. lia. }
      exists i'. split; [exact H1|]. split; [lia|]. split; [exact H3|]. right.
      destruct H4 as [->|H4]; [rewrite val_S_i; lia|exact H4].
    + apply Z.leb_gt in E. exists i. repeat split; auto.
Qed.

Definition Gokp (N g : Z) : Prop := smooth g /\ g <= N.
Definition acc3p (N g : Z) (c d : nat) : Prop :=
  forall i j c' d', ((d' < d)%nat \/ (d' = d /\ (c' < c)%nat)) -> cand i j c' d' <= N -> cand i j c' d' <= g.

Section Outer.
Variable fuel0 : nat.
Variable L : nat.
Variable N : Z.
Hypothesis HN : 0 < N.
Hypothesis HL : N < 2 ^ Z.of_nat L.
Hypothesis Hfuel0 : (2 * L + 4 <= fuel0)%nat.

Lemma pow2_boundp i f : 0 < f -> val f i 0 <= 2 * N -> (i <= L)%nat.
Proof.
  intros Hf H. destruct (Nat.le_gt_cases i L) as [|Hgt]; [assumption|exfalso].
  assert (2 ^ Z.of_nat (S L) <= 2 ^ Z.of_nat i) by (apply Z.pow_le_mono_r; lia).
  rewrite Nat2Z.inj_succ, Z.pow_succ_r in H0 by lia.
  unfold val in H. rewrite Z.pow_0_r, Z.mul_1_r in H.
  assert (0 < 2 ^ Z.of_nat i) by (apply Z.pow_pos_nonneg; lia). nia.
Qed.

Lemma fuel0_bigp : 2 * N < 2 ^ (Z.of_nat fuel0 - 1).
Proof.
  apply Z.lt_le_trans with (2 ^ Z.of_nat (S L)).
  - rewrite Nat2Z.inj_succ, Z.pow_succ_r by lia. lia.
  - apply Z.pow_le_mono_r; lia.
Qed.

Lemma loop3_step fuel f7 g f75 x :
  loop3 fuel0 (S fuel) (mk N f7 g f75 x) =
    if f75 <=? N then
      match loop2 fuel0 (mk N f7 g f75 f75) with
      | Normal s1 =>
        match loop1 fuel0 (mk (v_N s1) (v_f7 s1) (v_guess s1) (v_f75 s1) (Z.shiftr (v_x s1) 1)) with
        | Normal s2 => loop3 fuel0 fuel (mk (v_N s2) (v_f7 s2) (v_guess s2) (v_f75 s2 * 5) (v_x s2))
        | Brk s' => Normal s' | Ret v => Ret v | OutOfFuel => OutOfFuel
        end
      | Brk s' => Normal s' | Ret v => Ret v | OutOfFuel => OutOfFuel
      end
    else Normal (mk N f7 g f75 x).
Proof.
  cbn [loop3 GenUtils.seq v_N v_f7 v_guess v_f75 v_x]. destruct (f75 <=? N); [|reflexivity].
  destruct (loop2 fuel0 (mk N f7 g f75 f75)) as [s1|s1|v|]; cbn [GenUtils.seq]; try reflexivity.
  destruct (loop1 fuel0 _) as [s2|s2|v|]; cbn [GenUtils.seq]; reflexivity.
Qed.

Lemma pass_spec f7 g f75x c d :
  F75 c d <= N -> Gokp N g -> acc3p N g c d ->
  match loop2 fuel0 (mk N f7 g f75x (F75 c d)) with
  | Normal s1 =>
    match loop1 fuel0 (mk (v_N s1) (v_f7 s1) (v_guess s1) (v_f75 s1) (Z.shiftr (v_x s1) 1)) with
    | Normal s2 => v_N s2 = N /\ v_f7 s2 = f7 /\ v_f75 s2 = f75x /\ g <= v_guess s2 /\ Gokp N (v_guess s2)
                   /\ acc3p N (v_guess s2) (S c) d
    | Ret v => v = N /\ smooth N
    | _ => False
    end
  | _ => False
  end.
Proof.
  intros HfN HG Hacc. set (f := F75 c d) in *. pose proof (F75_pos c d) as Hf. fold f in Hf.
  destruct (loop2_spec fuel0 N f7 g f75x f 0 Hf HN) as (i1 & E2 & _ & Hgt & Hi1).
  { rewrite val_00. pose proof fuel0_bigp.
    assert (0 <= 2 ^ (Z.of_nat fuel0 - 1)) by (apply Z.pow_nonneg; lia). nia. }
  rewrite val_00 in E2. rewrite E2. cbn [v_N v_f7 v_guess v_f75 v_x].
  (* the loop ran at least once because f <= N *)
  destruct i1 as [|i0]; [rewrite val_00 in Hgt; lia|].
  assert (Hx : val f (S i0) 0 = 2 * val f i0 0) by apply val_S_i.
  rewrite Z.shiftr_div_pow2 by lia. change (2^1) with 2.
  replace (val f (S i0) 0 / 2) with (val f i0 0) by (rewrite Hx, Z.mul_comm, Z.div_mul; lia).
  assert (Hle : val f i0 0 <= N) by (destruct Hi1 as [Hi1|Hi1]; [discriminate|lia]).
  assert (Hi0L : (S i0 <= L)%nat) by (destruct Hi1 as [Hi1|Hi1]; [discriminate|apply (pow2_boundp (S i0) f Hf Hi1)]).
  pose proof (loop1_spec fuel0 N f7 f75x f g i0 0 Hf (F75_odd c d) HN) as S1.
  pose proof (loop1_fuel fuel0 N f7 f75x f g i0 0 Hf (F75_odd c d) HN) as T1.
  assert (Hacc0 : accp N f g 0) by (intros i' j' Hj; lia).
  specialize (S1 ltac:(lia) Hacc0). specialize (T1 ltac:(lia)).
  destruct (loop1 fuel0 (mk N f7 g f75x (val f i0 0))) as [s2|s2|v|] eqn:E1.
  - destruct S1 as (A1 & A2 & A3 & A4 & A5 & A6). repeat (split; [assumption|]). split.
    + destruct A6 as [->|(a & b & Ea & Hlt)]; [exact HG|]. split; [|lia].
      exists a, b, c, d. exact Ea.
    + intros i j c' d' Hc Hv. destruct Hc as [Hc|[-> Hc]].
      * assert (cand i j c' d' <= g) by (apply Hacc; auto). lia.
      * destruct (Nat.eq_dec c' c) as [->|Hne].
        -- apply A5. exact Hv.
        -- assert (cand i j c' d <= g) by (apply Hacc; auto; right; split; auto; lia). lia.
  - exact S1.
  - destruct S1 as [-> (a & b & Ea)]. split; [reflexivity|]. exists a, b, c, d. exact Ea.
  - apply T1; [|reflexivity]. destruct (val f i0 0 <? N); lia.
Qed.

Lemma loop3_spec : forall fuel f7 g x c d,
  Gokp N g -> acc3p N g c d ->
  N < F75 c d * 2 ^ (Z.of_nat fuel - 1) ->
  match loop3 fuel0 fuel (mk N f7 g (F75 c d) x) with
  | Normal s' => v_N s' = N /\ v_f7 s' = f7 /\ g <= v_guess s' /\ Gokp N (v_guess s') /\ acc3p N (v_guess s') 0 (S d)
  | Ret v => v = N /\ smooth N
  | _ => False
  end.
Proof.
  induction fuel as [|fuel IH]; intros f7 g x c d HG Hacc Hfu.
  - exfalso. change (Z.of_nat 0 - 1) with (-1) in Hfu. rewrite Z.pow_neg_r in Hfu by lia. lia.
  - rewrite loop3_step. destruct (F75 c d <=? N) eqn:E.
    + apply Z.leb_le in E.
      pose proof (pass_spec f7 g (F75 c d) c d E HG Hacc) as P.
      destruct (loop2 fuel0 (mk N f7 g (F75 c d) (F75 c d))) as [s1|s1|v|]; try contradiction.
      destruct (loop1 fuel0 _) as [s2|s2|v|]; try contradiction; [|exact P].
      destruct P as (A1 & A2 & A3 & A4 & A5 & A6). rewrite A1, A2, A3.
      replace (F75 c d * 5) with (F75 (S c) d) by (rewrite F75_S_c; ring).
      specialize (IH f7 (v_guess s2) (v_x s2) (S c) d A5 A6).
      assert (Hfu' : N < F75 (S c) d * 2 ^ (Z.of_nat fuel - 1)).
      { rewrite F75_S_c. pose proof (F75_pos c d). destruct fuel as [|fuel].
        - change (Z.of_nat 1 - 1) with 0 in Hfu. rewrite Z.pow_0_r in Hfu. lia.
        - replace (Z.of_nat (S (S fuel)) - 1) with (Z.succ (Z.of_nat (S fuel) - 1)) in Hfu by lia.
          rewrite Z.pow_succ_r in Hfu by lia.
          assert (0 <= 2 ^ (Z.of_nat (S fuel) - 1)) by (apply Z.pow_nonneg; lia). nia. }
      specialize (IH Hfu').
      destruct (loop3 fuel0 fuel (mk N f7 (v_guess s2) (F75 (S c) d) (v_x s2))) as [s'|s'|v|]; try contradiction; [|exact IH].
      destruct IH as (B1 & B2 & B3 & B4 & B5). split; [assumption|]. split; [assumption|]. split; [lia|]. split; assumption.
    + apply Z.leb_gt in E. cbn [v_N v_f7 v_guess]. split; [reflexivity|]. split; [reflexivity|]. split; [lia|]. split; [exact HG|].
      intros i j c' d' Hc Hv. destruct Hc as [Hc|[_ Hc]]; [|lia].
      destruct (Nat.eq_dec d' d) as [->|Hne].
      * destruct (Nat.lt_ge_cases c' c) as [Hlt|Hge].
        -- apply Hacc; auto.
        -- exfalso. pose proof (cand_ge_F i j c' d). pose proof (F75_mono_c c c' d Hge). lia.
      * apply Hacc; auto. left. lia.
Qed.

Lemma loop4_step fuel f7 g f75 x :
  loop4 fuel0 (S fuel) (mk N f7 g f75 x) =
    if f7 <=? N then
      match loop3 fuel0 fuel0 (mk N f7 g f7 x) with
      | Normal s1 => loop4 fuel0 fuel (mk (v_N s1) (v_f7 s1 * 7) (v_guess s1) (v_f75 s1) (v_x s1))
      | Brk s' => Normal s' | Ret v => Ret v | OutOfFuel => OutOfFuel
      end
    else Normal (mk N f7 g f75 x).
Proof.
  cbn [loop4 GenUtils.seq v_N v_f7 v_guess v_f75 v_x]. destruct (f7 <=? N); [|reflexivity].
  destruct (loop3 fuel0 fuel0 (mk N f7 g f7 x)) as [s1|s1|v|]; cbn [GenUtils.seq]; reflexivity.
Qed.

Lemma loop4_spec : forall fuel g f75 x d,
  Gokp N g -> acc3p N g 0 d ->
  N < F75 0 d * 2 ^ (Z.of_nat fuel - 1) ->
  match loop4 fuel0 fuel (mk N (F75 0 d) g f75 x) with
  | Normal s' => Gokp N (v_guess s') /\ (forall m, smooth m -> m <= N -> m <= v_guess s')
  | Ret v => v = N /\ smooth N
  | _ => False
  end.
Proof.
  induction fuel as [|fuel IH]; intros g f75 x d HG Hacc Hfu.
  - exfalso. change (Z.of_nat 0 - 1) with (-1) in Hfu. rewrite Z.pow_neg_r in Hfu by lia. lia.
  - rewrite loop4_step. destruct (F75 0 d <=? N) eqn:E.
    + apply Z.leb_le in E.
      pose proof (loop3_spec fuel0 (F75 0 d) g x 0 d HG Hacc) as P.
      assert (Hf0 : N < F75 0 d * 2 ^ (Z.of_nat fuel0 - 1)).
      { pose proof fuel0_bigp. pose proof (F75_pos 0 d).
        assert (0 <= 2 ^ (Z.of_nat fuel0 - 1)) by (apply Z.pow_nonneg; lia). nia. }
      specialize (P Hf0).
      destruct (loop3 fuel0 fuel0 (mk N (F75 0 d) g (F75 0 d) x)) as [s1|s1|v|]; try contradiction; [|exact P].
      destruct P as (A1 & A2 & A3 & A4 & A5). rewrite A1, A2.
      replace (F75 0 d * 7) with (F75 0 (S d)) by (rewrite F75_S_d; ring).
      specialize (IH (v_guess s1) (v_f75 s1) (v_x s1) (S d) A4 A5).
      assert (Hfu' : N < F75 0 (S d) * 2 ^ (Z.of_nat fuel - 1)).
      { rewrite F75_S_d. pose proof (F75_pos 0 d). destruct fuel as [|fuel].
        - change (Z.of_nat 1 - 1) with 0 in Hfu. rewrite Z.pow_0_r in Hfu. lia.
        - replace (Z.of_nat (S (S fuel)) - 1) with (Z.succ (Z.of_nat (S fuel) - 1)) in Hfu by lia.
          rewrite Z.pow_succ_r in Hfu by lia.
          assert (0 <= 2 ^ (Z.of_nat (S fuel) - 1)) by (apply Z.pow_nonneg; lia). nia. }
      specialize (IH Hfu').
      destruct (loop4 fuel0 fuel (mk N (F75 0 (S d)) (v_guess s1) (v_f75 s1) (v_x s1))) as [s'|s'|v|]; try contradiction; [|exact IH].
      exact IH.
    + apply Z.leb_gt in E. cbn [v_guess]. split; [exact HG|].
      intros m (i & j & c & d' & ->) Hm.
      destruct (Nat.lt_ge_cases d' d) as [Hlt|Hge].
      * apply Hacc; auto.
      * exfalso. pose proof (cand_ge_F i j c d'). pose proof (F75_mono_d c d d' Hge). pose proof (F75_mono_c 0 c d ltac:(lia)). lia.
Qed.
End Outer.

Definition prev_spec (N r : Z) : Prop := smooth r /\ r <= N /\ forall m, smooth m -> m <= N -> m <= r.

Theorem prev_fast_len_correct (N : Z) (fuel : nat) :
  1 <= N -> (2 * Z.to_nat (Z.log2 N + 1) + 4 <= fuel)%nat ->
  exists r, run fuel N = Ret r /\ prev_spec N r.
Proof.
  intros HN Hfuel. unfold run, body. cbn [GenUtils.seq v_N v_f7 v_guess v_f75 v_x].
  destruct (N <=? 10) eqn:E10.
  - apply Z.leb_le in E10. exists N. split; [reflexivity|].
    split; [apply smooth_small; lia|]. split; [lia|]. intros; assumption.
  - apply Z.leb_gt in E10. cbn [GenUtils.seq v_N v_f7 v_guess v_f75 v_x].
    set (L := Z.to_nat (Z.log2 N + 1)).
    assert (HL : N < 2 ^ Z.of_nat L).
    { unfold L. rewrite Z2Nat.id by (pose proof (Z.log2_nonneg N); lia).
      replace (Z.log2 N + 1) with (Z.succ (Z.log2 N)) by lia. apply Z.log2_spec. lia. }
    pose proof (loop4_spec fuel L N ltac:(lia) HL Hfuel fuel 1 0 0 0%nat) as P.
    change (F75 0 0) with 1 in P.
    assert (G1 : Gokp N 1) by (split; [apply smooth_small; lia|lia]).
    assert (A0 : acc3p N 1 0 0) by (intros i j c' d' [Hc|[_ Hc]]; lia).
    specialize (P G1 A0).
    assert (Hf : N < 1 * 2 ^ (Z.of_nat fuel - 1)).
    { rewrite Z.mul_1_l. pose proof (fuel0_bigp fuel L N HL Hfuel). lia. }
    specialize (P Hf).
    destruct (loop4 fuel fuel (mk N 1 1 0 0)) as [s'|s'|v|]; try contradiction.
    + cbn [GenUtils.seq]. destruct P as ((B1 & B2) & B3).
      exists (v_guess s'). split; [reflexivity|]. split; [exact B1|]. split; [exact B2|exact B3].
    + cbn [GenUtils.seq]. destruct P as [-> P]. exists N. split; [reflexivity|].
      split; [exact P|]. split; [lia|]. intros; assumption.
Qed.

