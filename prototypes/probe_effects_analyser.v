(* probe: verified "no operation writes to its inputs" analyser over a structured effect IR (C14) *)
From Coq Require Import List Bool Arith Lia.
Import ListNotations.

Definition var := nat.
Inductive expr : Type :=
| EVar (x : var)
| EAlias (es : list expr)    (* may share memory with any argument: view, attribute, wrapper, view-or-copy *)
| EFresh (es : list expr).   (* newly allocated result *)
Inductive stmt : Type :=
| SSkip
| SAssign (x : var) (e : expr)
| SWrite (e : expr)               (* in-place store through e:  e *= k, e[ix] = v, out=e *)
| SCallUnknown (es : list expr)   (* unclassified callee: may store through any argument *)
| SSeq (a b : stmt)
| SIf (a b : stmt)
| SLoop (a : stmt).

(* ---------- concrete semantics: a value is the set of INPUT buffers it really shares memory with ---------- *)
Definition env := var -> list nat.
Definition upd (r : env) (x : var) (v : list nat) : env := fun y => if Nat.eqb y x then v else r y.

Inductive eval (r : env) : expr -> list nat -> Prop :=
| ev_var x : eval r (EVar x) (r x)
| ev_alias es vs v : evals r es vs -> incl v (concat vs) -> eval r (EAlias es) v
| ev_fresh es : eval r (EFresh es) []
with evals (r : env) : list expr -> list (list nat) -> Prop :=
| evs_nil : evals r [] []
| evs_cons e es v vs : eval r e v -> evals r es vs -> evals r (e :: es) (v :: vs).
Scheme eval_ind2 := Induction for eval Sort Prop with evals_ind2 := Induction for evals Sort Prop.
Combined Scheme eval_evals_ind from eval_ind2, evals_ind2.

Definition state := (env * list nat)%type.      (* environment, input buffers written so far *)

Inductive full : stmt -> state -> state -> Prop :=
| f_skip st : full SSkip st st
| f_assign x e r w v : eval r e v -> full (SAssign x e) (r, w) (upd r x v, w)
| f_write e r w v : eval r e v -> full (SWrite e) (r, w) (r, v ++ w)
| f_call es r w vs v : evals r es vs -> incl v (concat vs) -> full (SCallUnknown es) (r, w) (r, v ++ w)
| f_seq a b s1 s2 s3 : full a s1 s2 -> full b s2 s3 -> full (SSeq a b) s1 s3
| f_if_l a b s1 s2 : full a s1 s2 -> full (SIf a b) s1 s2
| f_if_r a b s1 s2 : full b s1 s2 -> full (SIf a b) s1 s2
| f_loop_0 a s : full (SLoop a) s s
| f_loop_S a s1 s2 s3 : full a s1 s2 -> full (SLoop a) s2 s3 -> full (SLoop a) s1 s3.

(* states reachable part-way through a statement: what is observable if the call raises there *)
Inductive part : stmt -> state -> state -> Prop :=
| p_here s st : part s st st
| p_full s st st' : full s st st' -> part s st st'
| p_seq_l a b s1 s2 : part a s1 s2 -> part (SSeq a b) s1 s2
| p_seq_r a b s1 s2 s3 : full a s1 s2 -> part b s2 s3 -> part (SSeq a b) s1 s3
| p_if_l a b s1 s2 : part a s1 s2 -> part (SIf a b) s1 s2
| p_if_r a b s1 s2 : part b s1 s2 -> part (SIf a b) s1 s2
| p_loop a s1 s2 s3 : full (SLoop a) s1 s2 -> part a s2 s3 -> part (SLoop a) s1 s3.

(* ---------- abstract domain: the set of variables that may reach an input buffer ---------- *)
Definition taint := list var.
Definition mem (x : var) (t : taint) : bool := existsb (Nat.eqb x) t.
Definition remove (x : var) (t : taint) : taint := filter (fun y => negb (Nat.eqb y x)) t.
Definition subset (a b : taint) : bool := forallb (fun x => mem x b) a.

Fixpoint aexpr (t : taint) (e : expr) : bool :=
  match e with
  | EVar x => mem x t
  | EAlias es => existsb (aexpr t) es
  | EFresh _ => false
  end.

Fixpoint loopfix (body : taint -> option taint) (fuel : nat) (t : taint) : option taint :=
  match body t with
  | None => None
  | Some t' => if subset t' t then Some t
               else match fuel with O => None | S fuel => loopfix body fuel (t' ++ t) end
  end.

Fixpoint check (fuel : nat) (s : stmt) (t : taint) : option taint :=
  match s with
  | SSkip => Some t
  | SAssign x e => Some (if aexpr t e then x :: t else remove x t)
  | SWrite e => if aexpr t e then None else Some t
  | SCallUnknown es => if existsb (aexpr t) es then None else Some t
  | SSeq a b => match check fuel a t with Some t1 => check fuel b t1 | None => None end
  | SIf a b => match check fuel a t, check fuel b t with Some t1, Some t2 => Some (t1 ++ t2) | _, _ => None end
  | SLoop a => loopfix (check fuel a) fuel t
  end.

(* ---------- soundness ---------- *)
Definition le (r : env) (t : taint) : Prop := forall x, r x <> [] -> mem x t = true.

Lemma mem_In x t : mem x t = true <-> In x t.
Proof. unfold mem. rewrite existsb_exists. split.
  - intros (y & Hy & E). apply Nat.eqb_eq in E. subst. exact Hy.
  - intros H. exists x. split; [exact H|apply Nat.eqb_refl]. Qed.
Lemma subset_spec a b : subset a b = true -> forall x, mem x a = true -> mem x b = true.
Proof. unfold subset. rewrite forallb_forall. intros H x Hx. apply H. apply mem_In. exact Hx. Qed.
Lemma mem_app x a b : mem x (a ++ b) = mem x a || mem x b.
Proof. unfold mem. apply existsb_app. Qed.
Lemma le_mono r a b : le r a -> (forall x, mem x a = true -> mem x b = true) -> le r b.
Proof. intros H S x Hx. apply S, H, Hx. Qed.

Lemma eval_sound r t : le r t ->
  (forall e v, eval r e v -> aexpr t e = false -> v = []) /\
  (forall es vs, evals r es vs -> existsb (aexpr t) es = false -> concat vs = []).
Proof.
  intros Hle. apply eval_evals_ind.
  - intros x H. simpl in H. destruct (r x) eqn:E; [reflexivity|].
    assert (mem x t = true) by (apply Hle; rewrite E; discriminate). congruence.
  - intros es vs v _ IH Hincl H. simpl in H. rewrite (IH H) in Hincl.
    destruct v as [|a v]; [reflexivity|]. exfalso. apply (Hincl a). left. reflexivity.
  - reflexivity.
  - reflexivity.
  - intros e es v vs _ IHe _ IHes H. simpl in H. apply orb_false_iff in H. destruct H as [H1 H2].
    simpl. rewrite (IHe H1), (IHes H2). reflexivity.
Qed.

Lemma le_upd r t x e v : le r t -> eval r e v ->
  le (upd r x v) (if aexpr t e then x :: t else remove x t).
Proof.
  intros Hle Hev y Hy. unfold upd in Hy. destruct (Nat.eqb y x) eqn:E.
  - apply Nat.eqb_eq in E. subst y. destruct (aexpr t e) eqn:A.
    + simpl. rewrite Nat.eqb_refl. reflexivity.
    + exfalso. apply Hy. apply (proj1 (eval_sound r t Hle) e v Hev A).
  - specialize (Hle y Hy). destruct (aexpr t e).
    + simpl. rewrite E. exact Hle.
    + apply mem_In. unfold remove. apply filter_In. split; [apply mem_In; exact Hle|]. rewrite E. reflexivity.
Qed.

Lemma loopfix_inv body fuel : forall t t_inv, loopfix body fuel t = Some t_inv ->
  (forall x, mem x t = true -> mem x t_inv = true) /\
  exists t', body t_inv = Some t' /\ subset t' t_inv = true.
Proof.
  induction fuel as [|fuel IH]; intros t t_inv H; simpl in H.
  - destruct (body t) as [t'|] eqn:B; [|discriminate]. destruct (subset t' t) eqn:S; [|discriminate].
    inversion H; subst. split; [auto|]. exists t'. auto.
  - destruct (body t) as [t'|] eqn:B; [|discriminate]. destruct (subset t' t) eqn:S.
    + inversion H; subst. split; [auto|]. exists t'. auto.
    + destruct (IH _ _ H) as [M E]. split; [|exact E].
      intros x Hx. apply M. rewrite mem_app, Hx. apply orb_true_r.
Qed.

Theorem check_full_sound fuel : forall s st st', full s st st' ->
  forall t t', check fuel s t = Some t' -> le (fst st) t ->
  snd st' = snd st /\ le (fst st') t'.
Proof.
  intros s st st' H. induction H; intros t t' C Hle; simpl in *.
  - inversion C; subst. auto.
  - inversion C; subst. split; [reflexivity|]. apply le_upd; assumption.
  - destruct (aexpr t e) eqn:A; [discriminate|]. inversion C; subst.
    rewrite (proj1 (eval_sound r t' Hle) e v H A). auto.
  - destruct (existsb (aexpr t) es) eqn:A; [discriminate|]. inversion C; subst.
    pose proof (proj2 (eval_sound r t' Hle) es vs H A) as Hc. rewrite Hc in H0.
    destruct v as [|a v]; [auto|]. exfalso. apply (H0 a). left. reflexivity.
  - destruct (check fuel a t) as [t1|] eqn:Ca; [|discriminate].
    destruct (IHfull1 _ _ Ca Hle) as [W1 L1]. destruct (IHfull2 _ _ C L1) as [W2 L2].
    split; [congruence|exact L2].
  - destruct (check fuel a t) as [t1|] eqn:Ca; [|discriminate]. destruct (check fuel b t) as [t2|]; [|discriminate].
    inversion C; subst. destruct (IHfull _ _ Ca Hle) as [W L]. split; [exact W|].
    eapply le_mono; [exact L|]. intros x Hx. rewrite mem_app, Hx. reflexivity.
  - destruct (check fuel a t) as [t1|]; [|discriminate]. destruct (check fuel b t) as [t2|] eqn:Cb; [|discriminate].
    inversion C; subst. destruct (IHfull _ _ Cb Hle) as [W L]. split; [exact W|].
    eapply le_mono; [exact L|]. intros x Hx. rewrite mem_app, Hx. apply orb_true_r.
  - destruct (loopfix_inv _ _ _ _ C) as [M _]. split; [reflexivity|]. eapply le_mono; [exact Hle|exact M].
  - destruct (loopfix_inv _ _ _ _ C) as [M (t1 & B & S)].
    assert (Hinv : le (fst s1) t') by (eapply le_mono; [exact Hle|exact M]).
    destruct (IHfull1 _ _ B Hinv) as [W1 L1].
    assert (L1' : le (fst s2) t') by (eapply le_mono; [exact L1|apply subset_spec; exact S]).
    (* the invariant t' is itself accepted as a loop invariant: re-run the loop check from t' *)
    assert (C' : check fuel (SLoop a) t' = Some t').
    { simpl. destruct fuel; simpl; rewrite B, S; reflexivity. }
    destruct (IHfull2 _ _ C' L1') as [W2 L2]. split; [congruence|exact L2].
Qed.

Theorem check_part_sound fuel : forall s st st', part s st st' ->
  forall t t', check fuel s t = Some t' -> le (fst st) t -> snd st' = snd st.
Proof.
  intros s st st' H. induction H; intros t t' C Hle.
  - reflexivity.
  - eapply check_full_sound; eauto.
  - simpl in C. destruct (check fuel a t) as [t1|] eqn:Ca; [|discriminate]. eapply IHpart; eauto.
  - simpl in C. destruct (check fuel a t) as [t1|] eqn:Ca; [|discriminate].
    destruct (check_full_sound fuel _ _ _ H _ _ Ca Hle) as [W L].
    rewrite (IHpart _ _ C L). exact W.
  - simpl in C. destruct (check fuel a t) as [t1|] eqn:Ca; [|discriminate]. destruct (check fuel b t); [|discriminate].
    eapply IHpart; eauto.
  - simpl in C. destruct (check fuel a t) as [t1|]; [|discriminate]. destruct (check fuel b t) as [t2|] eqn:Cb; [|discriminate].
    eapply IHpart; eauto.
  - destruct (check_full_sound fuel _ _ _ H _ _ C Hle) as [W L].
    simpl in C. destruct (loopfix_inv _ _ _ _ C) as [M (t1 & B & S)].
    rewrite (IHpart _ _ B L). exact W.
Qed.

(* the property, as used per function: parameters 0..n-1 hold the inputs, nothing else is bound *)
Definition init_env (n : nat) : env := fun x => if x <? n then [x] else [].
Corollary no_input_written fuel n s t' st' :
  check fuel s (seq 0 n) = Some t' -> part s (init_env n, []) st' -> snd st' = [].
Proof.
  intros C P. eapply (check_part_sound fuel s _ _ P _ _ C).
  intros x Hx. unfold init_env in Hx. simpl in Hx. destruct (x <? n) eqn:E; [|congruence].
  apply Nat.ltb_lt in E. apply mem_In. apply in_seq. lia.
Qed.

(* non-vacuity: today's istft  (x = z.data.reshape(..); x *= nperseg)  is rejected, the repaired one accepted *)
Example istft_today : check 5 (SSeq (SAssign 1 (EAlias [EAlias [EVar 0]])) (SWrite (EVar 1))) [0] = None.
Proof. reflexivity. Qed.
Example istft_fixed : check 5 (SSeq (SAssign 1 (EAlias [EAlias [EVar 0]]))
                               (SSeq (SAssign 1 (EFresh [EVar 1])) (SWrite (EVar 1)))) [0] = Some [0].
Proof. reflexivity. Qed.
Print Assumptions no_input_written.
