(* Proofs/ShiftGen.v -- C03 / C04: the index logic of Model/Shift IS the logic translated from transforms.time_shift / freq_shift
   (Gen/GenShift.v, regenerated on every run by T6): the per-element sign test, floor / ceil, the zero-filled slice, the start / stop
   accumulation from (0, 0), the crop window, and the sign of the two phase ramps. *)
From Coq Require Import ZArith QArith Qround Qabs List Bool Lia.
From PB Require Import Lib.PySlice Model.Shift Gen.GenShift.
Import ListNotations.
Open Scope Z_scope.

(* what a[lo:hi] = 0 touches on an axis of length N *)
Definition zr_of (N : Z) (s : option Z * option Z) : Z * Z :=
  match slice_indices (fst s) (snd s) None N with Some (lo, hi, _) => (lo, hi) | None => (0, 0) end.

Theorem zero_range_generated_t N a st : zero_range N a = zr_of N (snd (gen_tshift_step st a)).
Proof. unfold zero_range, gen_tshift_step, zr_of, Qneg. destruct (Qle_bool 0 a); reflexivity. Qed.
Theorem zero_range_generated_f N a st : zero_range N a = zr_of N (snd (gen_fshift_step st a)).
Proof. unfold zero_range, gen_fshift_step, zr_of, Qneg. destruct (Qle_bool 0 a); reflexivity. Qed.
(* freq_shift accumulates nothing *)
Theorem fshift_step_state st a : fst (gen_fshift_step st a) = st.
Proof. unfold gen_fshift_step. destruct st as [s e]. destruct (Qle_bool 0 a); reflexivity. Qed.

Lemma acc_generated_from vals : forall s e,
  fold_left (fun st a => fst (gen_tshift_step st a)) vals (s, e) =
  (fold_left (fun s a => if Qneg a then s else Z.max s (Qceiling a)) vals s,
   fold_left (fun s a => if Qneg a then Z.min s (Qfloor a) else s) vals e).
Proof.
  induction vals as [|a r IH]; intros s e; [reflexivity|]. cbn [fold_left].
  unfold gen_tshift_step at 2. unfold Qneg at 2 4. cbn [fst snd]. destruct (Qle_bool 0 a); cbn [negb fst]; apply IH.
Qed.
Theorem acc_generated vals :
  fold_left (fun st a => fst (gen_tshift_step st a)) vals gen_tshift_init = (acc_start vals, acc_stop vals).
Proof. apply acc_generated_from. Qed.

Theorem crop_generated early N ss sh vals r :
  shift_idx early N ss sh vals = Some r -> sr_noop r = false ->
  sr_crop r = zr_of N (gen_tshift_crop (sr_start r) (sr_stop r) N).
Proof.
  unfold shift_idx. destruct (length ss <? length sh)%nat; [discriminate|].
  destruct (early && all_tiny vals); [intros H; injection H as <-; discriminate|].
  destruct (negb (bcast_ok (pad sh (length ss)) ss)); [discriminate|].
  intros H _. injection H as <-. reflexivity.
Qed.

(* the signs of the two phase ramps: exp(-2 pi i shift f) in time_shift, exp(+2 pi i ft n) in freq_shift *)
Theorem tshift_ramp_generated N k s : - (fftfreq N k * s) = gen_tshift_sign * (fftfreq N k * s).
Proof. unfold gen_tshift_sign. lia. Qed.
Theorem fshift_ramp_generated b m : b * m = gen_fshift_sign * (b * m).
Proof. unfold gen_fshift_sign. lia. Qed.
