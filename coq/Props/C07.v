(* Props/C07.v -- Phase arithmetic keeps two-double precision.  Statements only (proofs: Proofs/TwoSumExact, Floor, DayFrac,
   DayFrac3, PhaseAdd, PhaseMore).  All statements are about the BIT-EXACT binary64 model of Model/Phase2.v (kernel floats,
   tied to IEEE 754 by the standard library's FloatAxioms through Flocq); R_of x is the real value of the double x. *)
From Coq Require Import ZArith Reals Floats Bool.
From Flocq Require Import Core BinarySingleNaN PrimFloat.
From Coquelicot Require Import Complex.
From PB Require Import Proofs.TwoSumExact Model.Phase2 Proofs.Floor Proofs.DayFrac Proofs.DayFrac3 Proofs.PhaseAdd Proofs.PhaseMore Proofs.PhaseAddWide
  Proofs.DayFracTail Proofs.FoldHalf Proofs.DayFracFold Proofs.TwoProduct Proofs.PhaseMul Proofs.PhaseAbs Proofs.PhaseDiv Model.PhaseOrd Model.PhaseDivmod Proofs.PhaseArgmin Proofs.PhaseDivmodProofs Proofs.PhaseDivmodFloor Proofs.FmodSpec Proofs.FloorDivSpec Proofs.PhaseDivmodFinal Gen.GenPhase Proofs.PhaseGen Gen.GenPhaseOrd Proofs.PhaseOrdGen.
Open Scope R_scope.
Notation fexp := (FLT_exp (-1074) 53).
Notation rnd := (round radix2 fexp ZnearestE).

(* error-free addition (astropy two_sum): s = fl(a+b) and s + e = a + b exactly, for all finite doubles below 2^1000 *)
Theorem C07_two_sum_exact : forall a b : PrimFloat.float, fin a -> fin b ->
  Rabs (R_of a) <= bpow radix2 1000 -> Rabs (R_of b) <= bpow radix2 1000 ->
  let '(s, e) := TwoSumExact.two_sum a b in
  fin s /\ fin e /\ R_of s = rnd (R_of a + R_of b) /\ R_of s + R_of e = R_of a + R_of b.
Proof. exact two_sum_exact. Qed.

(* the floor the model uses (built from + - compare) is the mathematical floor of every finite double *)
Theorem C07_floor : forall x : PrimFloat.float, fin x -> R_of (ffloor x) = IZR (Zfloor (R_of x)) /\ fin (ffloor x).
Proof. exact ffloor_spec. Qed.

(* construction from one or two numbers: an integer-valued count plus a fraction, within 2^-53 of the exact sum,
   for unnormalised inputs up to 2^53 with |sum| <= 2^52 *)
Theorem C07_construct : forall x y : PrimFloat.float, fin x -> fin y ->
  Rabs (R_of x) <= bpow radix2 53 -> Rabs (R_of y) <= bpow radix2 53 -> Rabs (R_of x + R_of y) <= bpow radix2 52 ->
  let '(d, g) := day_frac_gen x y None None in
  fin d /\ fin g /\ (exists k : Z, R_of d = IZR k) /\
  Rabs (R_of d + R_of g - (R_of x + R_of y)) <= bpow radix2 (-53) /\ Rabs (R_of g) <= / 2.
Proof. exact phase_construct_sound. Qed.

(* Phase + Phase and Phase - Phase: within 2^-52 of the exact result, normalised, for counts up to 2^51 - 1 *)
Theorem C07_add : forall (i1 f1 i2 f2 : PrimFloat.float) (k1 k2 : Z),
  fin i1 -> fin f1 -> fin i2 -> fin f2 ->
  R_of i1 = IZR k1 -> R_of i2 = IZR k2 -> (Z.abs k1 <= 2 ^ 51 - 1)%Z -> (Z.abs k2 <= 2 ^ 51 - 1)%Z ->
  Rabs (R_of f1) <= / 2 -> Rabs (R_of f2) <= / 2 ->
  let '(d, f) := phase_add i1 f1 i2 f2 in
  fin d /\ fin f /\ (exists k : Z, R_of d = IZR k) /\
  Rabs (R_of d + R_of f - ((R_of i1 + R_of f1) + (R_of i2 + R_of f2))) <= bpow radix2 (-52) /\
  Rabs (R_of f) <= / 2.
Proof. exact phase_add_sound. Qed.
Theorem C07_sub : forall (i1 f1 i2 f2 : PrimFloat.float) (k1 k2 : Z),
  fin i1 -> fin f1 -> fin i2 -> fin f2 ->
  R_of i1 = IZR k1 -> R_of i2 = IZR k2 -> (Z.abs k1 <= 2 ^ 51 - 1)%Z -> (Z.abs k2 <= 2 ^ 51 - 1)%Z ->
  Rabs (R_of f1) <= / 2 -> Rabs (R_of f2) <= / 2 ->
  let '(d, f) := phase_sub i1 f1 i2 f2 in
  fin d /\ fin f /\ (exists k : Z, R_of d = IZR k) /\
  Rabs (R_of d + R_of f - ((R_of i1 + R_of f1) - (R_of i2 + R_of f2))) <= bpow radix2 (-52) /\
  Rabs (R_of f) <= / 2.
Proof. exact phase_sub_sound. Qed.
(* ... and over the property's full range: operand counts up to 2^52, result count up to 2^52 - 2 *)
Theorem C07_add_full : forall (i1 f1 i2 f2 : PrimFloat.float) (k1 k2 : Z),
  fin i1 -> fin f1 -> fin i2 -> fin f2 ->
  R_of i1 = IZR k1 -> R_of i2 = IZR k2 -> (Z.abs k1 <= 2 ^ 52)%Z -> (Z.abs k2 <= 2 ^ 52)%Z -> (Z.abs (k1 + k2) <= 2 ^ 52 - 2)%Z ->
  Rabs (R_of f1) <= / 2 -> Rabs (R_of f2) <= / 2 ->
  let '(d, f) := phase_add i1 f1 i2 f2 in
  fin d /\ fin f /\ (exists k : Z, R_of d = IZR k) /\
  Rabs (R_of d + R_of f - ((R_of i1 + R_of f1) + (R_of i2 + R_of f2))) <= bpow radix2 (-52) /\
  Rabs (R_of f) <= / 2.
Proof. exact phase_add_sound_wide. Qed.
Theorem C07_sub_full : forall (i1 f1 i2 f2 : PrimFloat.float) (k1 k2 : Z),
  fin i1 -> fin f1 -> fin i2 -> fin f2 ->
  R_of i1 = IZR k1 -> R_of i2 = IZR k2 -> (Z.abs k1 <= 2 ^ 52)%Z -> (Z.abs k2 <= 2 ^ 52)%Z -> (Z.abs (k1 - k2) <= 2 ^ 52 - 2)%Z ->
  Rabs (R_of f1) <= / 2 -> Rabs (R_of f2) <= / 2 ->
  let '(d, f) := phase_sub i1 f1 i2 f2 in
  fin d /\ fin f /\ (exists k : Z, R_of d = IZR k) /\
  Rabs (R_of d + R_of f - ((R_of i1 + R_of f1) - (R_of i2 + R_of f2))) <= bpow radix2 (-52) /\
  Rabs (R_of f) <= / 2.
Proof. exact phase_sub_sound_wide. Qed.
Theorem C07_neg : forall i f : PrimFloat.float,
  fin i -> fin f -> Rabs (R_of i) <= bpow radix2 52 - 1 -> Rabs (R_of f) <= / 2 ->
  let '(d, g) := day_frac (PrimFloat.opp i) (PrimFloat.opp f) in
  fin d /\ fin g /\ (exists k : Z, R_of d = IZR k) /\
  Rabs (R_of d + R_of g - (- (R_of i + R_of f))) <= bpow radix2 (-53) /\ Rabs (R_of g) <= / 2.
Proof. exact phase_neg_sound. Qed.

(* the __array_ufunc__ branches of the model ARE these functions (real phases) *)
Theorem C07_add_branch : forall a b : ph, p_imag a = false -> p_imag b = false ->
  op_addsub false (OPh a) (OPh b) =
  let '(d, f) := phase_add (p_int a) (p_frac a) (p_int b) (p_frac b) in RPh {| p_int := d; p_frac := f; p_imag := false |}.
Proof. exact op_add_real. Qed.
Theorem C07_sub_branch : forall a b : ph, p_imag a = false -> p_imag b = false ->
  op_addsub true (OPh a) (OPh b) =
  let '(d, f) := phase_sub (p_int a) (p_frac a) (p_int b) (p_frac b) in RPh {| p_int := d; p_frac := f; p_imag := false |}.
Proof. exact op_sub_real. Qed.
Theorem C07_neg_branch : forall a : ph, p_imag a = false ->
  op_neg a = let '(d, f) := day_frac (PrimFloat.opp (p_int a)) (PrimFloat.opp (p_frac a)) in RPh {| p_int := d; p_frac := f; p_imag := false |}.
Proof. exact op_neg_real. Qed.

(* error-free multiplication (astropy two_product = Veltkamp split + Dekker product): x = fl(a*b) and x + y = a*b exactly, for finite
   doubles up to 2^400 whose product is 0 or at least 2^-969 in magnitude (no underflow) *)
Theorem C07_two_product_exact : forall a b : PrimFloat.float,
  fin a -> fin b -> Rabs (R_of a) <= bpow radix2 400 -> Rabs (R_of b) <= bpow radix2 400 ->
  (R_of a * R_of b = 0 \/ bpow radix2 (-969) <= Rabs (R_of a * R_of b)) ->
  let '(x, y) := two_product a b in
  fin x /\ fin y /\ R_of x = rnd (R_of a * R_of b) /\ R_of x + R_of y = R_of a * R_of b.
Proof. exact two_product_exact. Qed.
(* the normalising tail of day_frac on its own: any finite (s, e) with |s| <= 2^52, |e| <= 1/2 *)
Theorem C07_tail : forall s e : PrimFloat.float,
  fin s -> fin e -> Rabs (R_of s) <= bpow radix2 52 -> Rabs (R_of e) <= / 2 ->
  let '(d, f) := df_tail s e in
  fin d /\ fin f /\ (exists k : Z, R_of d = IZR k) /\
  Rabs (R_of d + R_of f - (R_of s + R_of e)) <= bpow radix2 (-53) /\ Rabs (R_of f) <= / 2.
Proof. exact df_tail_sound. Qed.
(* Phase * dimensionless number: within 2^-52 cycles of the exact product, normalised, for |product| <= 2^52 - 2 (phase and
   factor zero or not absurdly small: no underflow inside the Dekker product) *)
Theorem C07_mul : forall i f fac : PrimFloat.float,
  fin i -> fin f -> fin fac ->
  Rabs (R_of i) <= bpow radix2 52 -> Rabs (R_of f) <= / 2 -> Rabs (R_of fac) <= bpow radix2 400 ->
  let V := R_of i + R_of f in
  (V = 0 \/ bpow radix2 (-60) <= Rabs V) -> (R_of fac = 0 \/ bpow radix2 (-900) <= Rabs (R_of fac)) ->
  Rabs (V * R_of fac) <= bpow radix2 52 - 2 ->
  let '(d, g) := day_frac_gen i f (Some fac) None in
  fin d /\ fin g /\ (exists k : Z, R_of d = IZR k) /\
  Rabs (R_of d + R_of g - V * R_of fac) <= bpow radix2 (-52) /\ Rabs (R_of g) <= / 2.
Proof. exact phase_mul_sound. Qed.
Theorem C07_mul_branch : forall (a : ph) (fac : PrimFloat.float), p_imag a = false ->
  op_mul a (NReal fac) =
  let '(d, g) := day_frac_gen (p_int a) (p_frac a) (Some fac) None in RPh {| p_int := d; p_frac := g; p_imag := false |}.
Proof. exact op_mul_real. Qed.

(* Phase / dimensionless number (quotient, exact residual through two_product and two_sum, correction quotient, renormalisation):
   within 2^-52 cycles of the exact quotient and normalised, for |quotient| <= 2^47 and divisors between 2^-100 and 2^100 *)
Theorem C07_div : forall i f dv : PrimFloat.float,
  fin i -> fin f -> fin dv ->
  Rabs (R_of i) <= bpow radix2 52 -> Rabs (R_of f) <= / 2 ->
  bpow radix2 (-100) <= Rabs (R_of dv) <= bpow radix2 100 ->
  let V := R_of i + R_of f in
  (V = 0 \/ bpow radix2 (-60) <= Rabs V) ->
  Rabs (V / R_of dv) <= bpow radix2 47 ->
  let '(d, g) := day_frac_gen i f None (Some dv) in
  fin d /\ fin g /\ (exists k : Z, R_of d = IZR k) /\
  Rabs (R_of d + R_of g - V / R_of dv) <= bpow radix2 (-52) /\
  Rabs (R_of g) <= / 2.
Proof. exact phase_div_sound. Qed.
Theorem C07_div_branch : forall (a : ph) (dv : PrimFloat.float), p_imag a = false ->
  op_div a (NReal dv) =
  let '(d, g) := day_frac_gen (p_int a) (p_frac a) None (Some dv) in RPh {| p_int := d; p_frac := g; p_imag := false |}.
Proof. exact op_div_real. Qed.
(* abs(Phase) (multiplication by the sign of count + fraction): within 2^-52 cycles of |value|, normalised *)
Theorem C07_abs : forall i f : PrimFloat.float,
  fin i -> fin f -> Rabs (R_of i) <= bpow radix2 52 - 3 -> Rabs (R_of f) <= / 2 ->
  let V := R_of i + R_of f in
  (V = 0 \/ bpow radix2 (-60) <= Rabs V) ->
  let '(d, g) := day_frac_gen i f (Some (fsign (PrimFloat.add i f))) None in
  fin d /\ fin g /\ (exists k : Z, R_of d = IZR k) /\
  Rabs (R_of d + R_of g - Rabs V) <= bpow radix2 (-52) /\ Rabs (R_of g) <= / 2.
Proof. exact phase_abs_sound. Qed.
Theorem C07_abs_branch : forall a : ph,
  op_abs a = let '(d, g) := day_frac_gen (p_int a) (p_frac a) (Some (fsign (PrimFloat.add (p_int a) (p_frac a)))) None in
             RPh {| p_int := d; p_frac := g; p_imag := false |}.
Proof. exact op_abs_is. Qed.

(* floor_divide / remainder / divmod branch (Model/PhaseDivmod.v: numpy's npy_divmod with exact fmod, the correction Phase
   from_angles(divisor, factor=q), Phase - Phase, second pass; compared bit for bit with the implementation on every run):
   both passes build the remainder as rem_of p d q, and for ANY finite quotient q with |q d| <= 2^51 - 3 that remainder is the phase
   minus q d to within 2^-51 cycles, normalised, with an integer count -- so the pair the branch returns satisfies a = q d + r.
   V p := exact two-part value of p (PhaseArgmin.V). *)
Theorem C07_divmod_builds_rem : forall (p : ph) (d q : PrimFloat.float) (rem : ph), op_divmod p d = Some (q, rem) -> rem_of p d q = Some rem.
Proof. exact divmod_rem. Qed.
Theorem C07_divmod_identity : forall (p : ph) (d q : PrimFloat.float) (rem : ph) (k : Z),
  op_divmod p d = Some (q, rem) ->
  p_imag p = false -> fin (p_int p) -> fin (p_frac p) -> R_of (p_int p) = IZR k -> (Z.abs k <= 2 ^ 51 - 2)%Z ->
  Rabs (R_of (p_frac p)) <= / 2 + bpow radix2 (-50) ->
  fin d -> fin q -> (R_of d = 0 \/ bpow radix2 (-60) <= Rabs (R_of d)) -> Rabs (R_of d) <= bpow radix2 52 ->
  (R_of q = 0 \/ bpow radix2 (-900) <= Rabs (R_of q)) -> Rabs (R_of q) <= bpow radix2 400 ->
  Rabs (R_of d * R_of q) <= IZR (2 ^ 51 - 3) ->
  p_imag rem = false /\ fin (p_int rem) /\ fin (p_frac rem) /\ (exists kr : Z, R_of (p_int rem) = IZR kr) /\
  Rabs (R_of q * R_of d + V rem - V p) <= bpow radix2 (-51) /\ Rabs (R_of (p_frac rem)) <= / 2.
Proof. exact divmod_identity. Qed.

(* the FLOOR half.  numpy's float floor_divide is an external routine; its statement-by-statement model np_divmod (exact fmod computed
   on the decoded operands, quotient, Python-sign adjustment, snap to the nearest integer) is compared with numpy bit for bit on every
   run, and about that model:  fmod is exact (a - t b for an integer t, |.| < |b|, sign of a), and floor_divide returns the EXACT floor
   of the quotient of two doubles for divisors in [2^-10, 2^10] and |a| <= 2^40. *)
Theorem C07_fmod_exact : forall a b : PrimFloat.float, fin a -> fin b -> R_of b <> 0 ->
  exists t : Z, fin (fmod_f a b) /\ R_of (fmod_f a b) = R_of a - IZR t * R_of b /\
    Rabs (R_of (fmod_f a b)) < Rabs (R_of b) /\
    (0 <= R_of a -> 0 <= R_of (fmod_f a b)) /\ (R_of a <= 0 -> R_of (fmod_f a b) <= 0).
Proof. exact fmod_spec. Qed.
Theorem C07_floor_divide_exact : forall a b : PrimFloat.float, fin a -> fin b ->
  bpow radix2 (-10) <= R_of b <= bpow radix2 10 -> Rabs (R_of a) <= bpow radix2 40 ->
  fin (np_floor_divide a b) /\ R_of (np_floor_divide a b) = IZR (Zfloor (R_of a / R_of b)).
Proof. exact np_floor_divide_floor. Qed.
(* hence, for every real phase with an integer count up to 2^39 and every divisor d in [2^-10, 2^10], the branch returns an INTEGER
   quotient q and a normalised remainder r with a = q d + r within 2^-51 and -delta <= r < d + delta, delta = 2^-49 + 2^-52 d:
   the two-pass method the source marks "TODO: check this method is really correct" does compute the floor. *)
Theorem C07_divmod_floor : forall (p : ph) (d : PrimFloat.float) (k : Z),
  p_imag p = false -> fin (p_int p) -> fin (p_frac p) -> R_of (p_int p) = IZR k -> (Z.abs k <= 2 ^ 39)%Z ->
  Rabs (R_of (p_frac p)) <= / 2 + bpow radix2 (-50) ->
  fin d -> bpow radix2 (-10) <= R_of d <= bpow radix2 10 ->
  forall (q : PrimFloat.float) (rem : ph), op_divmod p d = Some (q, rem) ->
  fin q /\ (exists Q : Z, R_of q = IZR Q) /\ ok_ph rem /\
  Rabs (R_of q * R_of d + V rem - V p) <= bpow radix2 (-51) /\
  - (bpow radix2 (-49) + bpow radix2 (-52) * R_of d) <= V rem < R_of d + (bpow radix2 (-49) + bpow radix2 (-52) * R_of d).
Proof. exact divmod_floor_model. Qed.

(* imaginary phases, factors and divisors: the flag / sign rules of from_angles are complex multiplication and division *)
Theorem C07_imag_factor : forall (a b : bool) (x f : R),
  Cmult (cplx a x) (cplx b f) = cplx (xorb a b) (x * (if b && a then - f else f)).
Proof. exact factor_rule. Qed.
Theorem C07_imag_divisor : forall (a b : bool) (x d : R), d <> 0 ->
  Cdiv (cplx a x) (cplx b d) = cplx (xorb a b) (x / (if b && negb a then - d else d)).
Proof. exact divisor_rule. Qed.
Theorem C07_i_times_i : forall x f : R, Cmult (cplx true x) (cplx true f) = cplx false (- (x * f)).
Proof. exact i_times_i. Qed.
Theorem C07_from_angles_flags : forall v1 v2 fv (im imf : bool),
  let n1 := if im then NCplx 0 v1 else NReal v1 in
  let n2 := if im then NCplx 0 v2 else NReal v2 in
  let nf := if imf then NCplx 0 fv else NReal fv in
  is0 v1 = false -> is0 v2 = false -> is0 fv = false ->
  from_angles n1 (Some n2) (Some nf) None =
  let '(c, f) := day_frac_gen v1 v2 (Some (if imf && im then PrimFloat.opp fv else fv)) None in
  Some {| p_int := c; p_frac := f; p_imag := xorb im imf |}.
Proof. exact from_angles_factor_flags. Qed.

(* PARTIAL (not proved here, carried by the bit-exact correspondence + exact-rational monitor on every run):
   |frac| <= 1/2 exactly at ties; numpy's C routine = its model np_divmod (bit-exact comparison on every run);
   the ranges outside the hypotheses above (divisors beyond 2^+-100, quotients beyond 2^47, subnormal phases). *)

(* tie to the source by translation (T7): day_frac statement by statement over primitive floats (the same IEEE operations in the same
   order, for factor / divisor present or absent), the real / imaginary bookkeeping of Phase.from_angles, and what the add, subtract,
   multiply, divide, negative, positive and absolute branches of Phase.__array_ufunc__ hand to from_angles are GENERATED from
   pulsar/phase.py on this run; the model is proved equal to them *)
Theorem C07_generated_day_frac : forall (val1 val2 : PrimFloat.float) (factor divisor : option PrimFloat.float),
  day_frac_gen val1 val2 factor divisor = gen_day_frac val1 val2 factor divisor.
Proof. exact day_frac_generated. Qed.
Theorem C07_generated_day_frac_specialised : forall val1 val2 factor,
  day_frac val1 val2 = gen_day_frac val1 val2 None None /\ day_frac_factor val1 val2 factor = gen_day_frac val1 val2 (Some factor) None.
Proof. exact (fun a b c => conj (day_frac_plain_generated a b) (day_frac_factor_generated a b c)). Qed.
Theorem C07_generated_from_angles : forall (p1 : num) (p2 factor divisor : option num),
  from_angles p1 p2 factor divisor = gen_from_angles p1 p2 factor divisor.
Proof. exact from_angles_generated. Qed.
Theorem C07_generated_addsub : forall (sub : bool) (a b : operand),
  op_addsub sub a b =
  match to_phase a, to_phase b with
  | Some pa, Some pb =>
    if Bool.eqb (p_imag pa) (p_imag pb) then
      let args := gen_addsub_args (if sub then nsub else nadd) pa pb in
      of_opt (from_angles (fst args) (Some (snd args)) None None)
    else RDecay
  | _, _ => RErr
  end.
Proof. exact op_addsub_generated. Qed.
Theorem C07_generated_mul_div : forall (p : ph) (x : num),
  op_mul p x = match (let '(a, b, fc, dv) := gen_mul_args p x in from_angles a (Some b) fc dv) with Some r => RPh r | None => RDecay end /\
  op_div p x = match (let '(a, b, fc, dv) := gen_div_args p x in from_angles a (Some b) fc dv) with Some r => RPh r | None => RDecay end.
Proof. exact (fun p x => conj (op_mul_generated p x) (op_div_generated p x)). Qed.
Theorem C07_generated_unary : forall p : ph,
  op_neg p = of_opt (from_angles (fst (gen_neg_args p)) (Some (snd (gen_neg_args p))) None None) /\
  op_pos p = of_opt (from_angles (fst (gen_pos_args p)) (Some (snd (gen_pos_args p))) None None) /\
  op_abs p = of_opt (let '(a, b, s) := gen_abs_args p in from_angles a (Some b) (Some s) None).
Proof. exact (fun p => conj (op_neg_generated p) (conj (op_pos_generated p) (op_abs_generated p))). Qed.
Theorem C07_generated_divmod : forall (p : ph) (d : PrimFloat.float), op_divmod p d = gen_divmod p d.
Proof. exact op_divmod_generated. Qed.

(* the closing fold of day_frac is needed: the computation WITHOUT it (day_frac as it stood before repair D25) returns, on the pair that
   (-3.5000000000000004) / 7 hands to its tail, count 0 and a fraction below -1/2; with it, (-1, a fraction in [-1/2, 1/2]) *)
Theorem C07_unfolded_refuted :
  let s := (-0x1.0000000000001p-1)%float in let e := 0x1.b6db6db6db6dbp-55%float in
  (snd (df_tail0 s e) <? - 0.5)%float = true /\ (fst (df_tail0 s e) =? 0)%float = true /\
  (- 0.5 <=? snd (df_tail s e))%float = true /\ (snd (df_tail s e) <=? 0.5)%float = true /\ (fst (df_tail s e) =? - 1)%float = true.
Proof. exact df_tail0_refuted. Qed.
(* the fold itself: exact, value preserving, and the fraction ends in [-1/2, 1/2] *)
Theorem C07_fold : forall (d f : PrimFloat.float) (k : Z),
  fin d -> fin f -> R_of d = IZR k -> (Z.abs k <= 2 ^ 53 - 1)%Z -> Rabs (R_of f) <= / 2 + bpow radix2 (-50) ->
  let '(d', f') := fold_half d f in
  fin d' /\ fin f' /\ (exists k' : Z, R_of d' = IZR k' /\ (Z.abs (k' - k) <= 1)%Z) /\
  R_of d' + R_of f' = R_of d + R_of f /\ Rabs (R_of f') <= / 2.
Proof. exact fold_half_sound. Qed.

Print Assumptions C07_two_sum_exact.
Print Assumptions C07_floor.
Print Assumptions C07_construct.
Print Assumptions C07_add.
Print Assumptions C07_sub.
Print Assumptions C07_neg.
Print Assumptions C07_two_product_exact.
Print Assumptions C07_mul.
Print Assumptions C07_divmod_identity.
Print Assumptions C07_divmod_floor.
Print Assumptions C07_fmod_exact.
Print Assumptions C07_floor_divide_exact.
Print Assumptions C07_div.
Print Assumptions C07_abs.
Print Assumptions C07_div_branch.
Print Assumptions C07_abs_branch.
Print Assumptions C07_add_branch.
Print Assumptions C07_imag_factor.
Print Assumptions C07_from_angles_flags.
Print Assumptions C07_generated_day_frac.
Print Assumptions C07_generated_from_angles.
Print Assumptions C07_generated_unary.
Print Assumptions C07_generated_divmod.
Print Assumptions C07_fold.
Print Assumptions C07_unfolded_refuted.
Print Assumptions C07_add_full.
