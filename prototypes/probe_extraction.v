Require Import PySlice.
From Coq Require Import ZArith QArith ExtrOcamlBasic.
Definition qred_ledger (l : ledger) : ledger :=
  {| t0 := match t0 l with None => None | Some t => Some (Qred t) end; rate := Qred (rate l); len := len l |}.
Definition run_slice (l : ledger) (a b c : option Z) := 
  match time_slice l a b c with None => None | Some (l', p) => Some (qred_ledger l', p) end.
Extraction "model.ml" run_slice Z.of_nat Z.add Z.mul Z.opp Z.to_nat Pos.to_nat Z.abs Z.ltb Z.div Z.modulo Z.eqb.
