"""C10: concatenate is the exact inverse of splitting and refuses non-contiguous pieces.
(P) Props/C10.v; (T) Model/Concat.v evaluated on the exact observations of the very pieces handed to
pb.concatenate; (M) result = original (data bit-identical, metadata) / perturbed inputs must raise."""
from fractions import Fraction
import numpy as np
import astropy.units as u
from astropy.time import Time
import pulsarbat as pb
from harness.common import qlit, zlit, optlit, listlit
from harness import exact as X

VFILES = ['Lib/PySlice.v', 'Gen/GenConsts.v', 'Model/FastLen.v', 'Gen/GenUtils.v', 'Model/Ledger.v', 'Model/Band.v',
          'Model/Concat.v', 'Proofs/BandProofs.v', 'Proofs/ConcatProofs.v', 'Proofs/ConcatMore.v', 'Proofs/ConcatAssoc.v', 'Proofs/ConcatGroup.v', 'Gen/GenConcat.v', 'Proofs/ConcatGen.v', 'Props/C10.v']
ALIGN = {'bottom': 0, 'center': 1, 'top': 2}
CLS = {c: i for i, c in enumerate(X.CLASSES)}
EPS = Fraction(86400, 2 ** 51)     # Time.isclose default: 2 * eps(float64) days
RT = Fraction(1, 100000)

HEADER = '''From Coq Require Import ZArith QArith Qabs List. Import ListNotations. Open Scope Z_scope.
From PB Require Import Model.Ledger Model.Band Model.Concat.
Definition S (c : Z) (t : option Q) (r : Q) (n : Z) (b : option band) : sig :=
  {| s_cls := c; s_led := {| t0 := t; rate := r; len := n |}; s_band := b |}.
Definition Bd (c b : Q) (n a : Z) : band := {| cf := c; bw := b; nchan := n; align := a |}.
Definition oclose (tol : Q) (a b : option Q) : bool :=
  match a, b with Some x, Some y => Band.Qclose tol x y | None, None => true | _, _ => false end.
(* compare a model result with the implementation's (ierr: 0 = returned, 1 = ValueError, 4 = TypeError) *)
Definition cmp (ttol ftol : Q) (m : cres) (ierr : Z) (o : option sig) : Z :=
  match m, o with
  | COk a, Some b =>
      (if s_cls a =? s_cls b then 0 else 1) + (if len (s_led a) =? len (s_led b) then 0 else 2) +
      (if oclose ttol (t0 (s_led a)) (t0 (s_led b)) then 0 else 4) +
      (if Band.Qclose (ftol * rate (s_led a)) (rate (s_led a)) (rate (s_led b)) then 0 else 8) +
      match s_band a, s_band b with
      | Some x, Some y => (if nchan x =? nchan y then 0 else 16) + (if align x =? align y then 0 else 32) +
                          (if Band.all_close (ftol * (Qabs (cf x) + inject_Z (nchan x) * bw x)) (labels x) (labels y) then 0 else 64)
      | None, None => 0 | _, _ => 16 end
  | CErr e, None => if e =? ierr then 0 else 128
  | COk _, None => 256
  | CErr _, Some _ => 512
  end.
Definition chk (eps rt : Q) (axis : Z) (ps : list sig) (ttol ftol : Q) (ierr : Z) (o : option sig) : Z :=
  cmp ttol ftol (concat eps rt axis ps) ierr o.
(* two-level grouping *)
Definition chk_grp (eps rt : Q) (axis : Z) (gs : list (list sig)) (ttol ftol : Q) (o : option sig) : Z :=
  let inner := map (concat eps rt axis) gs in
  match fold_right (fun r acc => match r, acc with COk s, Some l => Some (s :: l) | _, _ => None end) (Some []) inner with
  | Some ss => cmp ttol ftol (concat eps rt axis ss) 0 o
  | None => 1024
  end.
'''


def sig_lit(z):
    b = 'None'
    if isinstance(z, pb.RadioSignal):
        b = f'(Some (Bd {qlit(X.hz(z.center_freq))} {qlit(X.hz(z.chan_bw))} {z.nchan} {ALIGN[z.freq_align]}))'
    return f'(S {CLS[type(z).__name__]} {optlit(X.sec(z.start_time), qlit)} {qlit(X.hz(z.sample_rate))} {len(z)} {b})'


def coded(cls, L, rng):
    """data = 1000*t + channel (radio) so both time and frequency provenance are readable."""
    shp = X.sample_shape(rng, cls)
    dt = X.dtype_for(cls, rng)
    t = np.arange(L, dtype=np.float64).reshape((L,) + (1,) * len(shp)) * 1000
    a = np.broadcast_to(t, (L,) + shp).copy()
    if cls != 'Signal':
        ch = np.arange(shp[0], dtype=np.float64).reshape((1, shp[0]) + (1,) * (len(shp) - 1))
        a = a + ch
    return a.astype(dt), shp


def describe(z):
    return dict(cls=type(z).__name__, len=len(z), start=None if z.start_time is None else z.start_time.isot,
                rate=str(z.sample_rate), **({'cf': str(z.center_freq), 'nchan': z.nchan, 'align': z.freq_align}
                                            if isinstance(z, pb.RadioSignal) else {}))


def run(ctx):
    rng = ctx.rng
    ctx.rule = ('signals of all six classes, lengths 0..120, random sorted cut sets (repeats, end points, empty pieces), random '
                'erasure of start times, axis given as 0/"time"/1/"freq"; random two-level groupings; single-piece perturbations '
                '(>= 1 sample, >= 1 channel, class, rate, chan_bw, off-axis start/labels, order). non-trivial = >= 2 pieces; '
                'distinct by (class, len, cuts, erasures, perturbation).')
    ctx.trusted = ['translator T12 translate/py_concat2coq.py (loop bodies and arithmetic of concatenate; other statements pinned, none left over)', 'Coq 8.16.1 kernel; vm_compute', 'astropy isclose semantics transcribed: Time.isclose atol = 2 eps days, '
                   'u.isclose rtol = 1e-5', 'harness/exact.py (TAI seconds)']
    ctx.assumptions = ['sample spacing > 38.4 ps (rates below 26 GHz)', '|cf|/bw <= 2^30']
    built = ctx.build(['Props/C10.vo'])
    ctx.count_obligations(VFILES)
    if built:
        ctx.assumptions_of('Props/C10.v', allowed=set())

    items, meta = [], []
    n_rt = 220 if ctx.tier == 'quick' else 3000
    n_pert = 220 if ctx.tier == 'quick' else 3000

    def tols(z):
        el = Fraction(len(z) + 4) / X.hz(z.sample_rate)
        return max(Fraction(100, 10 ** 12), el / 10 ** 15 * 8), Fraction(1, 2 ** 46)

    def base(cls=None, L=None):
        cls = cls or rng.choice(X.CLASSES)
        L = rng.choice([0, 1, 2, 3, 5, 8, 13, rng.randint(0, 120)]) if L is None else L
        data, shp = coded(cls, L, rng)
        start = X.rand_start(rng)
        if start is None and rng.random() < 0.7:
            start = Time('2021-03-04T05:06:07.5', precision=9)
        over = {} if cls == 'Signal' else dict(center_freq=rng.choice([400.0, 1400.0, 8400.0]) * u.MHz)
        # domain: |cf|/bw <= 2^30 (float64 labels must resolve the channel spacing; DESIGN 5 C10)
        if cls in ('RadioSignal', 'IntensitySignal', 'FullStokesSignal'):
            over['chan_bw'] = 10 ** rng.uniform(3, 8) * u.Hz
        elif cls != 'Signal':
            over['rate'] = 10 ** rng.uniform(3, 9.5) * u.Hz
        z = X.make_signal(rng, cls, L, sshape=shp, start=start, data=data, **over)
        return z

    def emit(kind, inp, pieces, axis, ax_code, z_tol, expect, groups=None, must_raise=False, orig=None):
        """Runs pb.concatenate, records the Coq item; expect: original signal (round trip) or None."""
        ttol, ftol = tols(z_tol)
        err = None
        try:
            if groups is None:
                y = pb.concatenate(pieces, axis=axis)
            else:
                y = pb.concatenate([pb.concatenate(g, axis=axis) for g in groups], axis=axis)
        except (ValueError, TypeError) as e:
            err, y = e, None
        ctx.seen(inp, nontrivial=len(pieces) >= 2)
        ctx.count(kind)
        ierr = 0 if err is None else (4 if isinstance(err, TypeError) else 1)
        if err is not None:
            ctx.count('raised:' + type(err).__name__)
        o = 'None' if y is None else f'(Some {sig_lit(y)})'
        if groups is None:
            items.append(f'chk {qlit(EPS)} {qlit(RT)} {ax_code} {listlit([sig_lit(p) for p in pieces])} {qlit(ttol)} {qlit(ftol)} {ierr} {o}')
        else:
            gl = listlit([listlit([sig_lit(p) for p in g]) for g in groups])
            items.append(f'chk_grp {qlit(EPS)} {qlit(RT)} {ax_code} {gl} {qlit(ttol)} {qlit(ftol)} {o}')
        meta.append(dict(inp=inp, impl=f'raised {type(err).__name__}: {err}' if err else describe(y)))
        # (M) monitor
        if must_raise and err is None:
            ctx.fail('perturbed_pieces_were_joined', inp, impl=describe(y))
        if orig is not None:
            if err is not None:
                ctx.fail('split_pieces_rejected', inp, impl=repr(err))
            else:
                ok = (type(y) is type(orig) and y.shape == orig.shape and np.array_equal(np.asarray(y.data), np.asarray(orig.data))
                      and abs(X.hz(y.sample_rate) - X.hz(orig.sample_rate)) <= ftol * X.hz(orig.sample_rate))
                anyt = any(p.start_time is not None for p in pieces)
                if anyt:
                    ok = ok and y.start_time is not None and abs(X.sec(y.start_time) - X.sec(orig.start_time)) <= ttol
                else:
                    ok = ok and y.start_time is None
                if isinstance(orig, pb.RadioSignal):
                    fa, fb = [X.hz(f) for f in y.channel_freqs], [X.hz(f) for f in orig.channel_freqs]
                    tolf = ftol * (abs(X.hz(orig.center_freq)) + orig.nchan * X.hz(orig.chan_bw))
                    ok = ok and len(fa) == len(fb) and all(abs(a - b) <= tolf for a, b in zip(fa, fb)) \
                        and abs(X.hz(y.chan_bw) - X.hz(orig.chan_bw)) <= tolf
                if not ok:
                    ctx.fail('concat_of_split_differs_from_original', inp, impl=describe(y), model=describe(orig))
        return y

    def time_pieces(z, erase_p=0.35):
        L = len(z)
        k = rng.choice([1, 2, 2, 3, 4, 6])
        cuts = sorted(rng.choice([0, L, rng.randint(0, L)]) for _ in range(k - 1))
        cuts = [0] + cuts + [L]
        ps = []
        er = []
        for a, b in zip(cuts, cuts[1:]):
            p = z[a:b]
            if rng.random() < erase_p:
                p = type(p).like(p, start_time=None)
                er.append(True)
            else:
                er.append(False)
            ps.append(p)
        return ps, cuts, er

    def freq_pieces(z):
        n = z.nchan
        k = rng.randint(1, min(n, 4))
        cuts = sorted(rng.sample(range(1, n), k - 1)) if n > 1 else []
        cuts = [0] + cuts + [n]
        ps = []
        er = []
        for a, b in zip(cuts, cuts[1:]):
            p = z[:, a:b]
            if rng.random() < 0.3:
                p = type(p).like(p, start_time=None)
                er.append(True)
            else:
                er.append(False)
            ps.append(p)
        return ps, cuts, er

    # --- round trips -------------------------------------------------------------------------
    for i in range(n_rt):
        z = base()
        if isinstance(z, pb.RadioSignal) and rng.random() < 0.45:
            ps, cuts, er = freq_pieces(z)
            axis = rng.choice([1, 'freq'])
            axc = 1
            z0 = z if any(not e for e in er) or z.start_time is None else type(z).like(z, start_time=None)
        else:
            ps, cuts, er = time_pieces(z)
            axis = rng.choice([0, 'time'])
            axc = 0
            z0 = z
        inp = dict(op='split_concat', axis=axis, cuts=cuts, erased=er, **describe(z))
        groups = None
        if len(ps) >= 3 and rng.random() < 0.5:
            # random grouping into consecutive groups
            k = rng.randint(1, len(ps) - 1)
            bounds = sorted(rng.sample(range(1, len(ps)), k))
            bounds = [0] + bounds + [len(ps)]
            groups = [ps[a:b] for a, b in zip(bounds, bounds[1:])]
            inp['grouping'] = bounds
            emit('grouped_round_trip', inp, ps, axis, axc, z, z0, groups=groups, orig=z0)
        else:
            emit('round_trip', inp, ps, axis, axc, z, z0, orig=z0)

    # --- perturbations (malformed stream): must raise ---------------------------------------------
    for i in range(n_pert):
        z = base(L=rng.randint(4, 60))
        kind = rng.choice(['time_shift', 'time_shift_masked', 'offaxis_start_masked', 'offaxis_start_masked', 'order', 'rate', 'class', 'chan_bw', 'freq_shift', 'offaxis_start', 'offaxis_labels', 'empty', 'freq_on_signal'])
        if kind in ('chan_bw', 'freq_shift', 'offaxis_labels', 'offaxis_start_masked') and not isinstance(z, pb.RadioSignal):
            z = base(cls=rng.choice(X.RADIO), L=rng.randint(4, 60))
        if kind == 'chan_bw' and rng.random() < 0.5 and not isinstance(z, pb.BasebandSignal):
            z = z[:, :1]          # a single channel: its label does not depend on chan_bw, only the chan_bw test can refuse
        if kind == 'freq_on_signal':
            z = base(cls='Signal', L=rng.randint(2, 20))
        if z.start_time is None:
            z = type(z).like(z, start_time=Time('2021-03-04T05:06:07.5', precision=9))
        inp = dict(op='perturb', kind=kind, **describe(z))
        must = True
        if kind == 'empty':
            emit(kind, inp, [], 0, 0, z, None, must_raise=True)
            continue
        if kind == 'freq_on_signal':
            ps, cuts, er = time_pieces(z, 0)
            emit(kind, inp, ps, 'freq', 1, z, None, must_raise=True)
            continue
        if kind == 'time_shift_masked':
            # three to five pieces, some without a start time (at least two with one), ONE timed piece moved by whole samples: whatever
            # lies between the timed pieces, the sequence is not contiguous and must be refused
            L = len(z)
            k = rng.randint(3, 5)
            cuts = sorted(rng.randint(0, L) for _ in range(k - 1))
            bounds = [0] + cuts + [L]
            ps = [z[a:b] for a, b in zip(bounds[:-1], bounds[1:])]
            timed = sorted(rng.sample(range(k), rng.randint(2, k)))
            j = rng.choice(timed)
            d = rng.choice([1, -1, 2, -3, 10])
            ps = [p if i in timed else type(p).like(p, start_time=None) for i, p in enumerate(ps)]
            ps[j] = type(z).like(ps[j], start_time=ps[j].start_time + d * z.dt)
            inp.update(samples=d, pieces=[len(p) for p in ps], timed=timed, moved=j)
            emit(kind, inp, ps, rng.choice([0, 'time']), 0, z, None, must_raise=True)
            continue
        if kind in ('time_shift', 'order', 'rate', 'class', 'chan_bw'):
            L = len(z)
            c = rng.randint(1, L - 1)
            ps = [z[:c], z[c:]]
            axis, axc = rng.choice([0, 'time']), 0
            j = rng.randint(0, 1)
            if kind == 'time_shift':
                d = rng.choice([1, -1, 2, -3, 10, 1.0, 1.5])
                ps[j] = type(z).like(ps[j], start_time=ps[j].start_time + d * z.dt)
                inp['samples'] = d
            elif kind == 'order':
                ps = [ps[1], ps[0]]
                if len(ps[0]) == len(ps[1]) == 0:
                    must = False
            elif kind == 'rate':
                f = rng.choice([2, 0.5, 1.001, 0.999])
                kw = dict(sample_rate=ps[j].sample_rate * f)
                ps[j] = type(z).like(ps[j], **kw)
                inp['factor'] = f
            elif kind == 'class':
                other = {'Signal': 'RadioSignal', 'RadioSignal': 'Signal', 'IntensitySignal': 'RadioSignal',
                         'FullStokesSignal': 'IntensitySignal', 'BasebandSignal': 'RadioSignal',
                         'DualPolarizationSignal': 'BasebandSignal'}[type(z).__name__]
                kw = {}
                if other in ('RadioSignal',) and not isinstance(z, pb.RadioSignal):
                    d2 = ps[j].data.reshape(len(ps[j]), -1)
                    ps[j] = pb.RadioSignal(d2, sample_rate=z.sample_rate, start_time=ps[j].start_time, center_freq=1 * u.GHz, chan_bw=z.sample_rate)
                elif other == 'RadioSignal' and type(z).__name__ in ('BasebandSignal',):
                    ps[j] = pb.RadioSignal(ps[j].data, sample_rate=z.sample_rate, start_time=ps[j].start_time,
                                           center_freq=z.center_freq, chan_bw=z.chan_bw, freq_align=z.freq_align)
                else:
                    ps[j] = getattr(pb, other).like(ps[j])
            elif kind == 'chan_bw':
                if isinstance(z, pb.BasebandSignal):
                    continue
                ps[j] = type(z).like(ps[j], chan_bw=ps[j].chan_bw * rng.choice([2, 0.5, 1.01]))
            emit(kind, inp, ps, axis, axc, z, None, must_raise=must)
            continue
        if kind == 'freq_shift':
            if z.nchan < 2:
                continue
            c = rng.randint(1, z.nchan - 1)
            ps = [z[:, :c], z[:, c:]]
            j = rng.randint(0, 1)
            d = rng.choice([1, -1, 2, -2, 1.0])
            ps[j] = type(z).like(ps[j], center_freq=ps[j].center_freq + d * z.chan_bw)
            inp['channels'] = d
            emit(kind, inp, ps, rng.choice([1, 'freq']), 1, z, None, must_raise=True)
            continue
        if kind == 'offaxis_start_masked':
            # along the frequency axis: three or more pieces, some without a start time (at least two with one), ONE timed piece moved:
            # every pair of timed pieces must agree, whatever lies between them
            if not isinstance(z, pb.RadioSignal) or z.nchan < 3:
                continue
            k = rng.randint(3, min(5, z.nchan))
            cuts = sorted(rng.sample(range(1, z.nchan), k - 1))
            bounds = [0] + cuts + [z.nchan]
            ps = [z[:, a:b] for a, b in zip(bounds[:-1], bounds[1:])]
            timed = sorted(rng.sample(range(k), rng.randint(2, k)))
            j = rng.choice(timed)
            d = rng.choice([1, -1, 5])
            ps = [p if i in timed else type(p).like(p, start_time=None) for i, p in enumerate(ps)]
            ps[j] = type(z).like(ps[j], start_time=ps[j].start_time + d * z.dt)
            inp.update(samples=d, timed=timed, moved=j)
            emit(kind, inp, ps, rng.choice([1, 'freq']), 1, z, None, must_raise=True)
            continue
        if kind == 'offaxis_start':
            if not isinstance(z, pb.RadioSignal) or z.nchan < 2:
                continue
            c = rng.randint(1, z.nchan - 1)
            ps = [z[:, :c], z[:, c:]]
            j = rng.randint(0, 1)
            ps[j] = type(z).like(ps[j], start_time=ps[j].start_time + rng.choice([1, -1, 5]) * z.dt)
            emit(kind, inp, ps, rng.choice([1, 'freq']), 1, z, None, must_raise=True)
            continue
        if kind == 'offaxis_labels':
            L = len(z)
            c = rng.randint(1, L - 1)
            ps = [z[:c], z[c:]]
            j = rng.randint(0, 1)
            how = rng.choice(['cf', 'align'])
            if how == 'cf' or z.nchan % 2 == 1:
                ps[j] = type(z).like(ps[j], center_freq=ps[j].center_freq + rng.choice([1, -1, 3]) * z.chan_bw)
            else:
                new = rng.choice([a for a in ('bottom', 'center', 'top') if a != z.freq_align])
                ps[j] = type(z).like(ps[j], freq_align=new)
                inp['align_to'] = new
            emit(kind, inp, ps, rng.choice([0, 'time']), 0, z, None, must_raise=True)
            continue

    res = ctx.run_cases(HEADER, items, shard=max(40, len(items) // 32 + 1))
    if res is None:
        return
    for r, m in zip(res, meta):
        if r:
            ctx.mismatch(f'concatenate model vs implementation (code {r})', m['inp'], impl=m['impl'])
