"""C05: coherent dedispersion applies the cold-plasma chirp and crops to valid times.
(P) Props/C05.v (crop soundness/tightness over Q, group delay / unit modulus / inverse over R);
(T) Model/Disp.v: exact chirp phase and crop bounds vs the implementation; (M) chirp arrays against the
exact phase reduced mod 1, dedispersed data against an independent complex128 filter, supplied chirp =
internal chirp, DM then -DM restores a compactly supported input."""
from fractions import Fraction
import math
import numpy as np
import astropy.units as u
from astropy.time import Time
import pulsarbat as pb
from harness.common import qlit, zlit, optlit, listlit
from harness.common import asked_before
from harness import exact as X

VFILES = ['Lib/PySlice.v', 'Gen/GenConsts.v', 'Model/FastLen.v', 'Gen/GenUtils.v', 'Model/Ledger.v', 'Model/Band.v', 'Model/Disp.v',
          'Proofs/LedgerProofs.v', 'Proofs/BandProofs.v', 'Proofs/DispProofs.v', 'Gen/GenDisp.v', 'Proofs/DispGen.v', 'Proofs/ChirpR.v', 'Lib/Dft.v', 'Lib/DftC.v', 'Proofs/ChirpFilter.v', 'Props/C05.v']
ALIGN = {'bottom': 0, 'center': 1, 'top': 2}
K = Fraction(1000000, 241)
REAL_AX = {'ClassicalDedekindReals.sig_forall_dec', 'ClassicalDedekindReals.sig_not_dec',
           'FunctionalExtensionality.functional_extensionality_dep', 'Classical_Prop.classic'}

HEADER = '''From Coq Require Import ZArith QArith Qabs List. Import ListNotations. Open Scope Z_scope.
From PB Require Import Model.Ledger Model.Band Model.Disp.
Definition L (t : option Q) (r : Q) (n : Z) : ledger := {| t0 := t; rate := r; len := n |}.
Definition Bd (c b : Q) (n a : Z) : band := {| cf := c; bw := b; nchan := n; align := a |}.
(* the harness oracle's exact phase (cycles) must be the model's, exactly *)
Definition chk_phase (dm f fr want : Q) : Z := if Qeq_bool (chirp_phase dm f fr) want then 0 else 1.
Definition chk_freq (cfq : Q) (N k : Z) (r want : Q) : Z := if Qeq_bool (cfq + fftfreq N k * r) want then 0 else 1.
Definition chk_crop (l : ledger) (fmax fmin : Q) (dm fr ttol : Q) (n : Z) (s : option Q) : Z :=
  match coherent_crop l fmax fmin dm fr with
  | Ok l' off st => (if len l' =? n then 0 else 1) + (if oQclose ttol (t0 l') s then 0 else 2)
  | Err _ => 4
  end.
'''


def exact_phase(dm, f, fr):
    """cycles; f, fr in Hz (Fractions)"""
    fm, rm = f / 10 ** 6, fr / 10 ** 6
    return K * dm * 10 ** 6 * fm * (1 / rm - 1 / fm) ** 2


def exact_delay(dm, f, fr):
    return K * dm * (Fraction(10 ** 12) / (f * f) - Fraction(10 ** 12) / (fr * fr))


def bin_freq(cfq, N, k, rate):
    kk = k if 2 * k < N else k - N
    return cfq + Fraction(kk, N) * rate


def oracle_chirp(dm, cfq, N, rate, frq):
    """complex128 transfer function from the exact phase reduced modulo one cycle before rounding"""
    out = np.empty(N, dtype=np.complex128)
    mx = 0.0
    for k in range(N):
        fk = bin_freq(cfq, N, k, rate)
        ph = exact_phase(dm, fk, frq)
        # float64 evaluation of coeff*f*(1/fr - 1/f)^2: besides ~|phase| ulps, the difference of the reciprocals is only known to
        # 2^-53*(1/fr + 1/f), which the factor 2*coeff*f*|1/fr - 1/f| turns into this many cycles (the conditioning term)
        fm, rm = fk / 10 ** 6, frq / 10 ** 6
        cond = K * abs(dm) * 10 ** 6 * fm * 2 * abs(1 / rm - 1 / fm) * (1 / abs(rm) + 1 / abs(fm))
        mx = max(mx, abs(float(ph)) + float(cond))
        fr = ph - math.floor(ph)
        a = 2 * math.pi * float(fr)
        out[k] = complex(math.cos(a), -math.sin(a))
    return out, mx


def run(ctx):
    rng = ctx.rng
    nprng = np.random.default_rng(ctx.seed + 5)
    ctx.rule = ('baseband / dual-polarisation signals, 1..4 channels, 3 alignments, lengths not only powers of two (odd, prime, 7-smooth), '
                'DM of either sign chosen so the band-edge delays span 0.2 .. 1.3 signal lengths, center 100 MHz..10 GHz, rates 10 kHz..400 MHz, '
                'reference default / centre / edges / outside the band, extra sample dims, complex64/128. '
                'non-trivial: non-zero crop; distinct by all parameters.')
    ctx.trusted = ['translator T5 translate/py_disp2coq.py (unit algebra: chirp phase, sample delay, crop of coherent_dedispersion; other statements pinned)', 'Coq 8.16.1 kernel; vm_compute', 'translator T2 (dispersion literal)', 'scipy.fft = mathematical DFT (numerical validation: '
                   'independent numpy complex128 filter)', 'libm cos/sin', 'astropy unit arithmetic']
    ctx.assumptions = ['chirp tolerance 1.2e-7 + 8*pi*2^-50*(|phase| + conditioning term 2 coeff f |1/fr-1/f| (1/fr+1/f)) per channel (complex64 storage + float64 phase evaluation); '
                       'cases whose band-edge delay is within 1e-9*(1+|d|) of an integer are regenerated (ceil decided by float noise)']
    ctx.regen()
    built = ctx.build(['Props/C05.vo'])
    ctx.count_obligations(VFILES)
    if built:
        ctx.assumptions_of('Props/C05.v', allowed=REAL_AX)

    items, meta = [], []
    NC = 70 if ctx.tier == 'quick' else 900
    done = tries = 0
    while done < NC and tries < NC * 6:
        tries += 1
        cls = rng.choice(['BasebandSignal', 'BasebandSignal', 'DualPolarizationSignal'])
        nchan = rng.choice([1, 1, 2, 3, 4])
        tail = (2,) if cls == 'DualPolarizationSignal' else ()
        if rng.random() < 0.25:
            tail = tail + (rng.choice([1, 2]),)
        N = rng.choice([63, 64, 100, 125, 127, 128, 189, 243, 256, 257, 343, 360, rng.randint(40, 400)])
        cdt = rng.choice([np.complex128, np.complex128, np.complex64])
        rate = (10 ** rng.uniform(4, 8.6)) * u.Hz
        if rng.random() < 0.4:
            rate = rng.choice([1.0, 8.0, 16.0, 100.0, 400.0]) * u.MHz
        cf = (10 ** rng.uniform(8, 10)) * u.Hz
        if rng.random() < 0.4:
            cf = rng.choice([327.0, 800.0, 1400.0, 4850.0]) * u.MHz
        # the same quantities in assorted units (code that reads .value instead of converting is unit-dependent)
        rate, cf = rate.to(rng.choice([u.Hz, u.kHz, u.MHz, u.GHz])), cf.to(rng.choice([u.Hz, u.kHz, u.MHz, u.GHz]))
        if X.hz(cf) < 2 * nchan * X.hz(rate):
            continue
        al = rng.choice(['bottom', 'center', 'top'])
        start = Time(rng.choice(X.EPOCHS), precision=9) + rng.random() * u.s if rng.random() < 0.75 else None
        x = (nprng.standard_normal((N, nchan) + tail) + 1j * nprng.standard_normal((N, nchan) + tail)).astype(cdt)
        kind = rng.choice(['noise', 'impulse', 'tone'])
        if kind == 'impulse':
            x = np.zeros_like(x)
            x[N // 2] = 1
        elif kind == 'tone':
            kb = rng.randint(0, N - 1)
            x = np.broadcast_to(np.exp(2j * np.pi * kb * np.arange(N) / N).reshape((N, 1) + (1,) * len(tail)), x.shape).astype(cdt)
        kw = dict(sample_rate=rate, center_freq=cf, freq_align=al, start_time=start)
        if cls == 'DualPolarizationSignal':
            kw['pol_type'] = 'linear'
        z = getattr(pb, cls)(x, **kw)
        refsel = rng.choice(['default', 'center', 'top', 'bottom', 'above', 'below', 'inside'])
        ref = {'default': None, 'center': z.center_freq, 'top': z.max_freq, 'bottom': z.min_freq,
               'above': z.max_freq * 1.03, 'below': z.min_freq * 0.97, 'inside': z.min_freq + 0.3 * z.bandwidth}[refsel]
        converted = False
        if ref is not None and rng.random() < 0.6:
            ref, converted = ref.to(rng.choice([u.Hz, u.kHz, u.MHz, u.GHz])), True
        rq = X.hz(rate)
        frq = X.hz(z.center_freq if ref is None else ref)
        fmin, fmax = X.hz(z.min_freq), X.hz(z.max_freq)
        unit = max(abs(exact_delay(Fraction(1), a, frq)) for a in (fmin, fmax)) * rq
        if unit == 0:
            continue
        spread = rng.choice([0.2, 1.5, 7, N / 8, N / 3, N * 0.6, N * 1.3])
        dmv = float(spread / float(unit)) * rng.choice([-1, 1])
        dm = X.make_dm(rng, dmv)
        dq = Fraction(dmv)
        dtop, dbot = exact_delay(dq, fmax, frq) * rq, exact_delay(dq, fmin, frq) * rq
        # (an exactly zero delay stays exactly zero in the code only when the reference IS the band-edge object, not a re-expressed copy)
        # ... and a delay is the difference of two terms K DM rate / f^2 of size `scale` evaluated in doubles: within ~2^-48 * scale of a
        # whole sample the ceil() of the code and of the exact model may differ (e.g. 2e-9 samples at scale 5e6 - C05 thorough, seed 0)
        scale = abs(K * dq * Fraction(10 ** 12) / (fmin * fmin) * rq)
        if any(abs(d - round(d)) < Fraction(1, 10 ** 9) * (1 + abs(d)) + scale / 2 ** 48 and (d != 0 or converted) for d in (dtop, dbot)):
            ctx.count('regenerated_integer_delay')
            continue
        done += 1
        inp = dict(cls=cls, nchan=nchan, N=N, dtype=np.dtype(cdt).name, rate=str(rate), cf=str(cf), align=al, ref=refsel, dm=dmv,
                   data=kind, tail=list(tail), has_start=start is not None)
        start_w = math.ceil(-min(0, dtop, dbot))
        stop_w = N - math.ceil(max(0, dtop, dbot))
        ctx.seen(inp, nontrivial=(start_w > 0 or stop_w < N))
        ctx.count('coherent')
        ctx.count('ref:' + refsel)
        if asked_before(ctx, rng, lambda: pb.coherent_dedispersion(z, dm, ref_freq=ref), lambda: dm.chirp_from_signal(z, ref_freq=ref)):
            inp['asked_before'] = True
        y = pb.coherent_dedispersion(z, dm, ref_freq=ref)
        # --- chirp per channel against the exact phase (M) and the model's phase (T)
        chirp = np.asarray(dm.chirp_from_signal(z, ref_freq=ref))
        if chirp.shape[:2] != (N, nchan) or chirp.dtype != np.complex64:
            ctx.fail('chirp_shape_or_dtype', inp, impl=[list(chirp.shape), str(chirp.dtype)])
            continue
        labs = [X.hz(f) for f in z.channel_freqs]
        H = np.empty((N, nchan), dtype=np.complex128)
        worst_phase = 0.0
        bad = False
        for i, cfq in enumerate(labs):
            H[:, i], mx = oracle_chirp(dq, cfq, N, rq, frq)
            worst_phase = max(worst_phase, mx)
            tolc = 1.2e-7 + 2 * math.pi * 2.0 ** -50 * mx * 4
            e = float(np.max(np.abs(chirp[:, i].reshape(N) - H[:, i])))
            ctx.ratio(e, tolc, 'chirp')
            if e > tolc:
                ctx.fail('chirp_transfer_function', inp, impl=e, model=tolc, note=f'channel {i}')
                bad = True
                break
            if abs(float(np.max(np.abs(np.abs(chirp[:, i].reshape(N)) - 1)))) > 2e-7:
                ctx.fail('chirp_not_unit_modulus', inp)
                bad = True
                break
            for k in {0, 1, N // 2, N - 1, rng.randrange(N)}:
                f = bin_freq(cfq, N, k, rq)
                items.append(f'chk_freq {qlit(cfq)} {N} {k} {qlit(rq)} {qlit(f)}')
                meta.append(dict(inp=inp, impl='bin frequency'))
                items.append(f'chk_phase {qlit(dq)} {qlit(f)} {qlit(frq)} {qlit(exact_phase(dq, f, frq))}')
                meta.append(dict(inp=inp, impl='phase'))
        if bad:
            continue
        # --- crop: length and start (T) + (M)
        el = Fraction(N + 4) / rq
        ttol = max(Fraction(100, 10 ** 12), el / 10 ** 15 * 8)
        lin = f'(L {optlit(X.sec(z.start_time), qlit)} {qlit(rq)} {N})'
        bnd = f'(Bd {qlit(X.hz(z.center_freq))} {qlit(X.hz(z.chan_bw))} {nchan} {ALIGN[z.freq_align]})'
        items.append(f'chk_crop {lin} {qlit(fmax)} {qlit(fmin)} {qlit(dq)} {qlit(frq)} {qlit(ttol)} {len(y)} {optlit(X.sec(y.start_time), qlit)}')
        meta.append(dict(inp=inp, impl=dict(len=len(y), start=None if y.start_time is None else y.start_time.isot)))
        want_len = max(0, min(stop_w, N) - min(start_w, N)) if stop_w >= 0 else None
        if want_len is not None and len(y) != want_len:
            ctx.fail('crop_length', inp, impl=len(y), model=dict(start=start_w, stop=stop_w))
            continue
        if (y.start_time is None) != (start is None):
            ctx.fail('start_none', inp)
            continue
        if start is not None and want_len:
            e = abs(X.sec(y.start_time) - (X.sec(z.start_time) + Fraction(start_w) / rq))
            ctx.ratio(e, ttol, 'start_time')
            if e > ttol:
                ctx.fail('start_time_not_advanced_by_front_crop', inp, impl=y.start_time.isot, model=start_w)
                continue
        if type(y) is not type(z) or y.sample_rate != z.sample_rate or y.center_freq != z.center_freq or y.freq_align != z.freq_align:
            ctx.fail('metadata_changed', inp)
            continue
        # --- data: independent complex128 filter (numpy.fft, oracle chirp)
        if want_len:
            Hx = H.reshape((N, nchan) + (1,) * len(tail))
            ref_y = np.fft.ifft(np.fft.fft(x.astype(np.complex128), axis=0) * Hx, axis=0)[start_w:stop_w]
            epsv = 1.2e-7 + 2 * math.pi * 2.0 ** -50 * worst_phase * 4 + (6e-7 if cdt is np.complex64 else 0)
            tolv = 4 * epsv * math.sqrt(N) * float(np.max(np.abs(x))) + 1e-12
            e = float(np.max(np.abs(np.asarray(y.data) - ref_y)))
            ctx.ratio(e, tolv, 'data')
            if e > tolv:
                ctx.fail('dedispersed_data', inp, impl=e, model=tolv)
                continue
            # supplied chirp gives the same result as the internal one
            y2 = pb.coherent_dedispersion(z, dm, ref_freq=ref, chirp=dm.chirp_from_signal(z, ref_freq=ref))
            if not (np.array_equal(np.asarray(y2.data), np.asarray(y.data)) and len(y2) == len(y) and
                    (y2.start_time is None or y2.start_time == y.start_time)):
                ctx.fail('supplied_chirp_differs', inp)
        # --- DM then -DM restores a compactly supported input (only when enough samples survive)
        if kind == 'impulse' and want_len and want_len > N // 2 and start is not None:
            back = pb.coherent_dedispersion(y, pb.DM(-dmv), ref_freq=ref)
            if len(back) > 4:
                off = (X.sec(back.start_time) - X.sec(z.start_time)) * rq
                offi = int(round(float(off)))
                seg = np.asarray(z.data)[offi:offi + len(back)]
                # the impulse must survive both crops for the statement to apply
                if abs(off - offi) < Fraction(1, 1000) and seg.shape == back.data.shape and np.any(seg):
                    e = float(np.max(np.abs(np.asarray(back.data) - seg)))
                    # a phase-only filter sampled on N bins has a time response with sinc-like tails over all N
                    # samples; the crop between the two passes drops part of them, so the restoration is exact only
                    # up to that leakage (measured: a few 1e-3 of the impulse).  A wrong inverse is O(1).
                    tolr = 0.05
                    # the dispersed impulse may have been cropped: require only that it was fully retained
                    width = abs(dtop - dbot) + 2
                    if start_w + width < N // 2 < stop_w - width:
                        ctx.count('round_trip_checked')
                        ctx.ratio(e, tolr, 'round_trip')
                        if e > tolr:
                            ctx.fail('dm_then_minus_dm_does_not_restore', inp, impl=e, model=tolr)

    # ---- an infinite reference frequency (delays relative to infinite frequency: 1 / ref_freq = 0): the chirp is exp(-2 pi i K DM / f),
    # every delay is non-negative for DM > 0 and the crop follows from them; the result must be finite and equal to the oracle filter
    for c in range(12 if ctx.tier == 'quick' else 120):
        N = rng.choice([32, 48, 64, 81])
        nchan = rng.choice([1, 2])
        cdt = rng.choice([np.complex64, np.complex128])
        rate = rng.choice([1.0, 8.0, 16.0]) * u.MHz
        cf = rng.choice([327.0, 800.0, 1400.0]) * u.MHz
        x = (nprng.standard_normal((N, nchan)) + 1j * nprng.standard_normal((N, nchan))).astype(cdt)
        z = pb.BasebandSignal(x, sample_rate=rate, center_freq=cf, start_time=Time('2021-03-04T05:06:07.5', precision=9))
        rq, fmin, fmax = X.hz(rate), X.hz(z.min_freq), X.hz(z.max_freq)
        inf_delay = lambda dmq, f: K * dmq * Fraction(10 ** 12) / (f * f)
        spread = rng.choice([0.3, 2.5, N / 6])
        dmv = float(spread / float(inf_delay(Fraction(1), fmin) * rq)) * rng.choice([-1, 1])
        dm, dq = pb.DM(dmv), Fraction(dmv)
        ref = rng.choice([np.inf * u.MHz, np.inf * u.Hz, (np.inf * u.GHz)])
        inp = dict(cls='BasebandSignal', nchan=nchan, N=N, dtype=np.dtype(cdt).name, rate=str(rate), cf=str(cf), ref='infinite', dm=dmv)
        ctx.seen(inp); ctx.count('coherent'); ctx.count('ref:infinite')
        try:
            y = pb.coherent_dedispersion(z, dm, ref_freq=ref)
            chirp = np.asarray(dm.chirp_from_signal(z, ref_freq=ref))
        except Exception as e:
            ctx.fail('infinite_reference_raised', inp, impl=repr(e))
            continue
        dtop, dbot = inf_delay(dq, fmax) * rq, inf_delay(dq, fmin) * rq
        if any(abs(d - round(d)) < Fraction(1, 10 ** 9) * (1 + abs(d)) for d in (dtop, dbot)):
            continue
        start_w, stop_w = math.ceil(-min(0, dtop, dbot)), N - math.ceil(max(0, dtop, dbot))
        H = np.empty((N, nchan), dtype=np.complex128)
        for i, cfq in enumerate(X.hz(f) for f in z.channel_freqs):
            for k in range(N):
                ph = K * dq * Fraction(10 ** 12) / bin_freq(cfq, N, k, rq)          # cycles: K DM f (0 - 1/f)^2 in MHz units
                H[k, i] = np.exp(-2j * np.pi * float(ph - math.floor(ph)))
        tolc = 1.2e-7 + 2 * math.pi * 2.0 ** -50 * float(abs(K * dq * Fraction(10 ** 12) / fmin)) * 4
        if not np.all(np.isfinite(chirp)) or float(np.max(np.abs(chirp.reshape(N, nchan) - H))) > tolc:
            ctx.fail('chirp_transfer_function', inp, impl='infinite reference: chirp not finite / not exp(-2 pi i K DM / f)')
            continue
        want = np.fft.ifft(np.fft.fft(x.astype(np.complex128), axis=0) * H, axis=0)[max(0, start_w):max(0, stop_w)]
        got = np.asarray(y.data)
        if got.shape != want.shape:
            ctx.fail('crop_length', inp, impl=len(y), model=dict(start=start_w, stop=stop_w))
            continue
        tolv = (2e-5 if cdt is np.complex64 else 1e-6) * (float(np.max(np.abs(x))) + 1e-30) * 4
        if want.size and not (float(np.max(np.abs(got - want))) <= tolv):
            ctx.fail('dedispersed_values', inp, impl='infinite reference: values differ from the oracle filter (or are not finite)')
            continue
        if abs(X.sec(y.start_time) - (X.sec(z.start_time) + Fraction(max(0, start_w)) / rq)) > Fraction(1, 10 ** 9):
            ctx.fail('crop_start_time', inp)

    res = ctx.run_cases(HEADER, items, shard=max(100, len(items) // 32 + 1))
    if res is None:
        return
    for r, m in zip(res, meta):
        if r:
            ctx.mismatch(f'chirp/crop model vs implementation or oracle (code {r}; {m["impl"]})', m['inp'], impl=m['impl'])
