(* probe: bit-exact PrimFloat model of pulsarbat.pulsar.phase.day_frac (no factor / divisor, and factor) *)
From Coq Require Import ZArith PrimFloat Uint63 SpecFloat FloatOps List.
Import ListNotations.
Open Scope float_scope.

Definition two_sum (a b : float) : float * float :=
  let x := a + b in
  let eb := x - a in
  let ea := x - eb in
  let eb := b - eb in
  let ea := a - ea in
  (x, ea + eb).

Definition split (a : float) : float * float :=
  let c := 134217729 * a in
  let abig := c - a in
  let ah := c - abig in
  let al := a - ah in
  (ah, al).

Definition two_product (a b : float) : float * float :=
  let x := a * b in
  let '(ah, al) := split a in
  let '(bh, bl) := split b in
  let y1 := ah * bh in
  let y := x - y1 in
  let y2 := al * bh in
  let y := y - y2 in
  let y3 := ah * bl in
  let y := y - y3 in
  let y4 := al * bl in
  let y := y4 - y in
  (x, y).

Definition two52 : float := 4503599627370496.
(* floor for binary64 using only +,-,compare: |x| < 2^52 -> round to nearest integer via the 2^52 trick, then correct *)
Definition ffloor (x : float) : float :=
  let a := abs x in
  if a <? two52 then
    let r := (a + two52) - two52 in
    if 0 <=? x then (if r <=? a then r else r - 1)
    else (if a <=? r then - r else - (r + 1))
  else x.

Definition day_frac (val1 val2 : float) : float * float :=
  let '(sum12, err12) := two_sum val1 val2 in
  let day := ffloor (sum12 + 0.5) in
  let '(extra, frac) := two_sum sum12 (- day) in
  let frac := frac + (extra + err12) in
  let excess := ffloor (frac + 0.5) in
  let day := day + excess in
  let '(extra, frac) := two_sum sum12 (- day) in
  let frac := frac + (extra + err12) in
  (day, frac).

Definition day_frac_factor (val1 val2 factor : float) : float * float :=
  let '(sum12, err12) := two_sum val1 val2 in
  let '(sum12, carry) := two_product sum12 factor in
  let carry := carry + err12 * factor in
  let '(sum12, err12) := two_sum sum12 carry in
  let day := ffloor (sum12 + 0.5) in
  let '(extra, frac) := two_sum sum12 (- day) in
  let frac := frac + (extra + err12) in
  let excess := ffloor (frac + 0.5) in
  let day := day + excess in
  let '(extra, frac) := two_sum sum12 (- day) in
  let frac := frac + (extra + err12) in
  (day, frac).

(* exact I/O: a finite double as (mantissa, exponent) with value m * 2^e *)
Definition of_me (m e : Z) : float :=
  let a := of_uint63 (Uint63.of_Z (Z.abs m)) in
  let a := if (m <? 0)%Z then - a else a in
  ldshiftexp a (Uint63.of_Z (e + 2101)%Z).
Definition to_me (x : float) : Z * Z :=
  match Prim2SF x with
  | S754_zero _ => (0, 0)%Z
  | S754_finite s m e => ((if s then Z.neg m else Z.pos m), e)
  | _ => (0, 99999)%Z
  end.
Definition run2 (f : float -> float -> float * float) (c : (Z * Z) * (Z * Z)) :=
  let '((m1, e1), (m2, e2)) := c in
  let '(d, fr) := f (of_me m1 e1) (of_me m2 e2) in (to_me d, to_me fr).
