(* probe: the comparison/addition-only floor used by the bit-exact model computes the mathematical floor *)
From Coq Require Import ZArith Reals Psatz Floats.
From Flocq Require Import Core BinarySingleNaN PrimFloat.
From PB Require Import Proofs.TwoSumExact Model.Phase2.
Open Scope R_scope.

Notation fexp := (FLT_exp (-1074) 53).
Notation rnd := (round radix2 fexp ZnearestE).

Lemma rnd_int_range y : bpow radix2 52 <= y < bpow radix2 53 -> rnd y = IZR (ZnearestE y).
Proof.
  intros H. unfold round, F2R, scaled_mantissa, cexp. cbn [Fnum Fexp].
  assert (M : (mag radix2 y : Z) = 53%Z).
  { apply mag_unique. rewrite Rabs_pos_eq; [exact H|]. apply Rle_trans with (2:=proj1 H). apply bpow_ge_0. }
  rewrite M. unfold FLT_exp. replace (Z.max (53 - 53) (-1074)) with 0%Z by reflexivity.
  simpl (bpow radix2 (-0)). simpl (bpow radix2 0). rewrite !Rmult_1_r. reflexivity.
Qed.

Lemma format_IZR n : (Z.abs n <= 2 ^ 53)%Z -> generic_format radix2 fexp (IZR n).
Proof.
  intros H. apply generic_format_FLT. 
  destruct (Z.eq_dec (Z.abs n) (2^53)) as [E|E].
  - exists (Float radix2 (n / 2) 1); cbn [Fnum Fexp].
    + unfold F2R. cbn [Fnum Fexp]. simpl (bpow radix2 1). rewrite <- mult_IZR. f_equal.
      assert (n = 2^53 \/ n = - 2^53)%Z as [-> | ->] by lia; reflexivity.
    + assert (n = 2^53 \/ n = - 2^53)%Z as [-> | ->] by lia; vm_compute; reflexivity.
    + lia.
  - exists (Float radix2 n 0); cbn [Fnum Fexp].
    + unfold F2R. cbn [Fnum Fexp]. simpl. ring.
    + change (Z.pow (radix_val radix2) 53) with 9007199254740992%Z. change (2 ^ 53)%Z with 9007199254740992%Z in *. lia.
    + lia.
Qed.

Lemma rnd_IZR n : (Z.abs n <= 2 ^ 53)%Z -> rnd (IZR n) = IZR n.
Proof. intros H. apply round_generic; [typeclasses eauto|apply format_IZR; exact H]. Qed.

Definition two52R : R := bpow radix2 52.
Lemma R_two52 : R_of two52 = two52R /\ fin two52.
Proof. unfold R_of, fin, two52R. split; [|reflexivity].
  unfold Prim2B. cbn. unfold B2R, SF2B; cbn. unfold F2R; cbn. lra. Qed.

Lemma ltb_R x y : fin x -> fin y -> PrimFloat.ltb x y = Rlt_bool (R_of x) (R_of y).
Proof. intros. rewrite ltb_equiv. apply Bltb_correct; assumption. Qed.
Lemma leb_R x y : fin x -> fin y -> PrimFloat.leb x y = Rle_bool (R_of x) (R_of y).
Proof. intros. rewrite leb_equiv. apply Bleb_correct; assumption. Qed.
Lemma abs_R x : R_of (PrimFloat.abs x) = Rabs (R_of x) /\ (fin x -> fin (PrimFloat.abs x)).
Proof. unfold R_of, fin. rewrite abs_equiv. rewrite B2R_Babs, is_finite_Babs. auto. Qed.
Lemma opp_R x : R_of (PrimFloat.opp x) = - R_of x /\ (fin x -> fin (PrimFloat.opp x)).
Proof. unfold R_of, fin. rewrite opp_equiv. rewrite B2R_Bopp, is_finite_Bopp. auto. Qed.
Lemma R_zero : R_of 0%float = 0 /\ fin 0%float.
Proof. unfold R_of, fin. split; reflexivity. Qed.
Lemma R_one : R_of 1%float = 1 /\ fin 1%float.
Proof. unfold R_of, fin. split; [|reflexivity]. unfold Prim2B. cbn. unfold B2R, SF2B; cbn. unfold F2R; cbn. lra. Qed.

Lemma small_lt_1024 z : Rabs z <= bpow radix2 54 -> Rabs (rnd z) < bpow radix2 1024.
Proof. intros H. apply Rle_lt_trans with (bpow radix2 54); [apply rnd_bound; [lia|exact H]|apply bpow_lt; lia]. Qed.

Lemma bpow53 : bpow radix2 53 = 2 * bpow radix2 52.
Proof. change 53%Z with (52 + 1)%Z. rewrite bpow_plus_1. reflexivity. Qed.

(* nearest integer of a in [0, 2^52) by the 2^52 trick *)
Lemma rint_trick (a : PrimFloat.float) : fin a -> 0 <= R_of a < two52R ->
  let r := PrimFloat.sub (PrimFloat.add a two52) two52 in
  exists n : Z, R_of r = IZR n /\ fin r /\ (0 <= n <= 2 ^ 52)%Z /\ Rabs (R_of a - IZR n) <= / 2.
Proof.
  intros Fa Ha r. destruct R_two52 as [E52 F52]. unfold two52R in *.
  assert (B52 : bpow radix2 52 = IZR (2 ^ 52)) by (simpl; lra).
  set (A := R_of a) in *.
  assert (Hs : bpow radix2 52 <= A + bpow radix2 52 < bpow radix2 53).
  { rewrite bpow53. lra. }
  destruct (add_R a two52 Fa F52) as [Es Fs].
  { fold A. rewrite E52. apply small_lt_1024. rewrite Rabs_pos_eq by lra.
    apply Rle_trans with (bpow radix2 53); [lra|apply bpow_le; lia]. }
  fold A in Es. rewrite E52, (rnd_int_range _ Hs) in Es.
  set (m := ZnearestE (A + bpow radix2 52)) in *.
  pose proof (Znearest_half (fun x => negb (Z.even x)) (A + bpow radix2 52)) as Hh. fold m in Hh.
  assert (B53 : bpow radix2 53 = IZR (2 ^ 53)) by (simpl; lra).
  assert (Hm : (2 ^ 52 <= m <= 2 ^ 53)%Z).
  { apply Rabs_le_inv in Hh. split.
    - destruct (Z_le_gt_dec (2 ^ 52) m) as [|G]; [assumption|exfalso].
      assert (IZR m <= IZR (2 ^ 52 - 1)) by (apply IZR_le; lia).
      rewrite minus_IZR, <- B52 in H. lra.
    - destruct (Z_le_gt_dec m (2 ^ 53)) as [|G]; [assumption|exfalso].
      assert (IZR (2 ^ 53 + 1) <= IZR m) by (apply IZR_le; lia).
      rewrite plus_IZR, <- B53 in H. lra. }
  destruct (sub_R (PrimFloat.add a two52) two52 Fs F52) as [Er Fr].
  { rewrite Es, E52, B52, <- minus_IZR. apply small_lt_1024.
    rewrite <- abs_IZR. replace (bpow radix2 54) with (IZR (2^54)) by (simpl; lra).
    apply IZR_le. lia. }
  rewrite Es, E52, B52, <- minus_IZR, rnd_IZR in Er by lia.
  exists (m - 2 ^ 52)%Z. split; [exact Er|]. split; [exact Fr|]. split; [lia|].
  rewrite minus_IZR, <- B52. replace (A - (IZR m - bpow radix2 52)) with (A + bpow radix2 52 - IZR m) by ring. exact Hh.
Qed.

Lemma format_ge_52_int x : generic_format radix2 fexp x -> bpow radix2 52 <= Rabs x -> exists k : Z, x = IZR k.
Proof.
  intros Fx Hx. unfold generic_format in Fx. rewrite Fx. unfold F2R. cbn [Fnum Fexp].
  set (m := Ztrunc (scaled_mantissa radix2 fexp x)).
  assert (He : (0 <= cexp radix2 fexp x)%Z).
  { unfold cexp, FLT_exp. assert (53 <= mag radix2 x)%Z by (apply mag_ge_bpow; exact Hx). lia. }
  exists (m * 2 ^ cexp radix2 fexp x)%Z. rewrite mult_IZR. f_equal.
  rewrite <- (IZR_Zpower radix2) by exact He. reflexivity.
Qed.

Theorem ffloor_spec (x : PrimFloat.float) : fin x ->
  R_of (ffloor x) = IZR (Zfloor (R_of x)) /\ fin (ffloor x).
Proof.
  intros Fx. unfold ffloor.
  destruct (abs_R x) as [Ea Fa0]. specialize (Fa0 Fx).
  destruct R_two52 as [E52 F52]. destruct R_zero as [E0 F0]. destruct R_one as [E1 F1].
  rewrite (ltb_R _ _ Fa0 F52), Ea, E52.
  destruct (Rlt_bool_spec (Rabs (R_of x)) two52R) as [Hlt|Hge].
  - destruct (rint_trick (PrimFloat.abs x) Fa0) as (n & Er & Fr & Hn & Hh).
    { rewrite Ea. split; [apply Rabs_pos|exact Hlt]. }
    set (r := PrimFloat.sub (PrimFloat.add (PrimFloat.abs x) two52) two52) in *.
    rewrite Ea in Hh. apply Rabs_le_inv in Hh.
    rewrite (leb_R _ _ F0 Fx), E0.
    destruct (Rle_bool_spec 0 (R_of x)) as [Hpos|Hneg].
    + rewrite Rabs_pos_eq in Hh by exact Hpos.
      rewrite (leb_R _ _ Fr Fa0), Er, Ea, (Rabs_pos_eq _ Hpos).
      destruct (Rle_bool_spec (IZR n) (R_of x)) as [H1|H1].
      * split; [|exact Fr]. rewrite Er. f_equal. symmetry. apply Zfloor_imp. rewrite plus_IZR. lra.
      * destruct (sub_R r 1%float Fr F1) as [Es Fs].
        { rewrite Er, E1, <- minus_IZR. apply small_lt_1024. rewrite <- abs_IZR.
          replace (bpow radix2 54) with (IZR (2^54)) by (simpl; lra). apply IZR_le. lia. }
        rewrite Er, E1, <- minus_IZR, rnd_IZR in Es by lia.
        split; [|exact Fs]. rewrite Es. f_equal. symmetry. apply Zfloor_imp.
        rewrite plus_IZR, minus_IZR. lra.
    + rewrite Rabs_left in Hh by exact Hneg.
      rewrite (leb_R _ _ Fa0 Fr), Er, Ea, (Rabs_left _ Hneg).
      destruct (Rle_bool_spec (- R_of x) (IZR n)) as [H1|H1].
      * destruct (opp_R r) as [Eo Fo]. split; [|exact (Fo Fr)]. rewrite Eo, Er, <- opp_IZR. f_equal.
        symmetry. apply Zfloor_imp. rewrite plus_IZR, opp_IZR. lra.
      * destruct (add_R r 1%float Fr F1) as [Es Fs].
        { rewrite Er, E1, <- plus_IZR. apply small_lt_1024. rewrite <- abs_IZR.
          replace (bpow radix2 54) with (IZR (2^54)) by (simpl; lra). apply IZR_le. lia. }
        rewrite Er, E1, <- plus_IZR, rnd_IZR in Es by lia.
        destruct (opp_R (PrimFloat.add r 1%float)) as [Eo Fo]. split; [|exact (Fo Fs)].
        rewrite Eo, Es, <- opp_IZR. f_equal. symmetry. apply Zfloor_imp.
        rewrite plus_IZR, opp_IZR, plus_IZR. lra.
  - split; [|exact Fx].
    destruct (format_ge_52_int (R_of x) (format_R_of x) Hge) as (k & Ek).
    rewrite Ek, Zfloor_IZR. reflexivity.
Qed.
