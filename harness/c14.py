"""C14: no operation modifies the signal or arguments it is given.
(P) Props/C14.v: verified may-alias effect analyser, accepted on every function lowered by T3 from the current source;
(T) translator T3 regenerates Gen/GenEffects.v on every run; (M) dynamic snapshot run: byte-wise snapshots (underlying base
buffer, dtype, strides, shape, every public attribute, deep-copied meta) of every input signal and array/Quantity argument
around every public operation, on contiguous and non-contiguous writable buffers, on success and on raised errors, over random
operation sequences that share inputs.  The analyser's verdict must agree with what the snapshots observe."""
import copy
import numpy as np
import astropy.units as u
from astropy.time import Time
import dask.array as da
import pulsarbat as pb
from harness import exact as X

VFILES = ['Gen/GenEffects.v', 'Model/Effects.v', 'Proofs/EffectsProofs.v', 'Props/C14.v']
ATTRS = ('sample_rate', 'start_time', 'center_freq', 'chan_bw', 'freq_align', 'pol_type')


def base_of(a):
    while getattr(a, 'base', None) is not None and isinstance(a.base, np.ndarray):
        a = a.base
    return a


def snap_array(a):
    if isinstance(a, u.Quantity):
        return ('Q', str(a.unit), snap_array(a.value))
    if isinstance(a, Time):
        return ('T', a.jd1.tobytes() if hasattr(a.jd1, 'tobytes') else float(a.jd1), a.jd2.tobytes() if hasattr(a.jd2, 'tobytes') else float(a.jd2), a.scale)
    if isinstance(a, np.ndarray):
        b = base_of(a)
        return ('A', a.dtype.str, a.shape, a.strides, a.tobytes(), b.tobytes() if b is not a else None, a.flags.writeable)
    if isinstance(a, (list, tuple)):
        return (type(a).__name__,) + tuple(snap_any(x) for x in a)
    if isinstance(a, dict):
        return ('D',) + tuple((k, snap_any(v)) for k, v in sorted(a.items(), key=lambda kv: str(kv[0])))
    return ('V', repr(a))


def snap_signal(z):
    d = z.data
    data = snap_array(d) if isinstance(d, np.ndarray) else ('dask', str(d.dtype), d.shape, str(d.chunks), d.name)
    attrs = tuple((k, snap_any(getattr(z, k))) for k in ATTRS if hasattr(z, k))
    return ('S', type(z).__name__, id(d), data, attrs, snap_any(copy.deepcopy(z.meta)))


def snap_any(x):
    if isinstance(x, pb.Signal):
        return snap_signal(x)
    return snap_array(x)


def snap_predictor(p):
    """every column of a PhasePredictor (a table): Times, Quantities, and the Polynomial objects of the 'poly' column by their contents"""
    cols = []
    for name in p.colnames:
        c = p[name]
        if isinstance(c, Time):
            cols.append((name, snap_array(c)))
        elif isinstance(c, u.Quantity):
            v = np.asarray(c.view(np.ndarray))
            cols.append((name, str(c.unit), v.dtype.str, v.tobytes()))
        else:
            a = np.asarray(c)
            if a.dtype == object:
                cols.append((name, tuple((np.asarray(q.coef).tobytes(), np.asarray(q.domain).tobytes(), np.asarray(q.window).tobytes())
                                         if hasattr(q, 'coef') else repr(q) for q in a.ravel())))
            else:
                cols.append((name, a.dtype.str, a.tobytes()))
    return ('P', len(p), tuple(cols))


class _NdSub(np.ndarray):
    pass


def make_buffer(rng, nprng, shape, dtype, layout):
    """writable buffer with the given logical shape; layout: contiguous / strided (every 2nd sample of a bigger base) /
    transposed (Fortran order) / offset view"""
    cplx = np.issubdtype(dtype, np.complexfloating)

    def rnd(shp):
        a = nprng.standard_normal(shp) + 1.5
        if cplx:
            a = a + 1j * nprng.standard_normal(shp)
        return a.astype(dtype)
    if layout == 'contiguous':
        return rnd(shape)
    if layout == 'strided':
        big = rnd((2 * shape[0] + 1,) + tuple(shape[1:]))
        return big[1::2]
    if layout == 'fortran':
        return np.asfortranarray(rnd(shape))
    if layout == 'subclass':
        # a C-contiguous buffer held by an ndarray SUBCLASS (what np.memmap, np.recarray or any .view(Sub) gives): helpers such as
        # np.ascontiguousarray return a new base-class object that still shares this memory
        return rnd(shape).view(_NdSub)
    big = rnd((shape[0] + 5,) + tuple(s + 1 for s in shape[1:]))
    return big[(slice(3, 3 + shape[0]),) + tuple(slice(0, s) for s in shape[1:])]


def make_signal(rng, nprng, cls=None, L=None):
    cls = cls or rng.choice(X.CLASSES + ['BasebandSignal', 'DualPolarizationSignal', 'BasebandSignal'])
    L = L or rng.choice([8, 12, 16, 24, 30, 32])
    ss = X.sample_shape(rng, cls)
    cplx = cls in ('BasebandSignal', 'DualPolarizationSignal') or (cls == 'Signal' and rng.random() < 0.4)
    single = rng.random() < 0.3
    dtype = np.dtype((np.complex64 if single else np.complex128) if cplx else (np.float32 if single else np.float64))
    layout = rng.choice(['contiguous', 'strided', 'fortran', 'offset', 'subclass'])
    buf = make_buffer(rng, nprng, (L,) + tuple(ss), dtype, layout)
    if rng.random() < 0.25:
        # flagged dropouts: a few NaN / +-Inf samples (an operation that 'cleans' them in place changes the caller's buffer)
        for _ in range(rng.randint(1, 4)):
            ix = tuple(rng.randrange(n) for n in buf.shape)
            buf[ix] = rng.choice([np.nan, np.inf, -np.inf])
    rate = (rng.choice([1.0, 2.5, 1e3, 1e6]) * u.Hz * rng.choice([1, 1000])).to(rng.choice([u.Hz, u.kHz, u.MHz]))
    start = Time('2021-03-04T05:06:07', precision=9) + rng.random() * u.s if rng.random() < 0.7 else None
    kw = dict(sample_rate=rate, start_time=start, meta=rng.choice([None, {'a': [1, 2, {'b': 3}], 'name': 'x'}]))
    if cls != 'Signal':
        # metadata Quantities in assorted units (an in-place unit conversion of a shared metadata object changes unit and bytes)
        kw['center_freq'] = (rng.choice([400.0, 1400.0]) * u.MHz).to(rng.choice([u.MHz, u.GHz, u.Hz, u.kHz]))
        kw['freq_align'] = rng.choice(['bottom', 'center', 'top'])
        if cls in ('RadioSignal', 'IntensitySignal', 'FullStokesSignal'):
            kw['chan_bw'] = rate
    if cls == 'DualPolarizationSignal':
        kw['pol_type'] = rng.choice(['linear', 'circular'])
    z = getattr(pb, cls)(buf, **kw)
    return z, layout


def ops_for(rng, nprng, z, pool):
    """-> list of (name, thunk, extra args to snapshot).  Valid and deliberately invalid requests."""
    L = len(z)
    bb = isinstance(z, pb.BasebandSignal)
    radio = isinstance(z, pb.RadioSignal)
    out = []
    a, b = sorted(rng.sample(range(L + 1), 2))
    out.append(('slice_time', lambda: z[a:b:rng.choice([1, 2])], []))
    out.append(('slice_neg_step', lambda: z[::-1], []))
    out.append(('index_int', lambda: z[3], []))
    if radio:
        out.append(('slice_freq', lambda: z[:, :max(1, z.nchan - 1)], []))
        out.append(('slice_freq_bad', lambda: z[:, ::2], []))
    if isinstance(z, pb.FullStokesSignal):
        out.append(('stokes_component', lambda: z[rng.choice(['I', 'Q', 'U', 'V'])], []))
        out.append(('stokes_bad', lambda: z['W'], []))
    out.append(('like', lambda: type(z).like(z, z.data[: L // 2]), []))
    out.append(('like_meta', lambda: type(z).like(z, meta={'k': [1]}), []))
    out.append(('like_bad', lambda: type(z).like(z, sample_rate=-1 * u.Hz), []))
    sh = rng.choice([1.0, 2.5, -3.25, 1e-10, -1e-9, 0.0, float(L + 2)])
    shape_arr = np.full(z.sample_shape[:rng.randint(0, len(z.sample_shape))] or (), sh) if z.sample_shape else np.array(sh)
    out.append(('time_shift', lambda: pb.time_shift(z, shape_arr, crop=rng.random() < 0.5), [shape_arr]))
    q = (sh / z.sample_rate).to(u.ms)
    out.append(('time_shift_quantity', lambda: pb.time_shift(z, q), [q]))
    if z.sample_shape:
        # an array Quantity whose unit is exactly the reciprocal of the sample-rate unit (conversion factor 1: to_value gives a view)
        qa = (np.full(z.sample_shape[:1], sh, dtype=float) / z.sample_rate.value) * (1 / z.sample_rate.unit)
        out.append(('time_shift_quantity_array', lambda: pb.time_shift(z, qa, crop=rng.random() < 0.5), [qa]))
        qs = (np.full(z.sample_shape[:1], sh, dtype=float) / z.sample_rate.to_value(u.Hz)) * u.s
        out.append(('time_shift_seconds_array', lambda: pb.time_shift(z, qs), [qs]))
    out.append(('time_shift_bad', lambda: pb.time_shift(z, np.ones(z.shape + (1,))), []))
    t = rng.choice([2, 2.5, 3 + 1e-10, 0, 1.75])
    out.append(('snippet', lambda: pb.snippet(z, t, rng.randint(0, L - 4)), []))
    out.append(('snippet_time', lambda: pb.snippet(z, z.start_time + 2.25 * z.dt, 3), []))
    out.append(('snippet_bad', lambda: pb.snippet(z, L - 1, 5), []))
    out.append(('fast_len', lambda: pb.fast_len(z), []))
    out.append(('contains', lambda: z.contains(Time('2021-03-04T05:06:08')), []))
    out.append(('asarray', lambda: np.asarray(z), []))
    out.append(('asarray_dtype', lambda: np.asarray(z, dtype=np.complex128), []))
    out.append(('ufunc_add', lambda: z + z, []))
    out.append(('ufunc_mul_scalar', lambda: 2.0 * z, []))
    out.append(('ufunc_abs', lambda: np.abs(z), []))
    arr = np.ones(z.shape[1:])
    out.append(('ufunc_array', lambda: np.multiply(z, arr), [arr]))
    out.append(('ufunc_reduce_refused', lambda: np.add.reduce(z), []))
    out.append(('ufunc_modf', lambda: np.modf(z) if not np.iscomplexobj(z.data) else np.conj(z), []))
    out.append(('compute', lambda: z.compute(), []))
    out.append(('persist', lambda: z.persist(), []))
    out.append(('to_dask', lambda: z.to_dask_array(), []))
    out.append(('rechunk', lambda: z.rechunk().compute(), []))
    out.append(('dask_shift', lambda: pb.time_shift(z.to_dask_array(), 1.5).compute(), []))
    out.append(('repr', lambda: (repr(z), str(z)), []))
    mates = [w for w in pool if type(w) is type(z) and w.sample_shape == z.sample_shape and w is not z]
    zz = rng.choice(mates) if mates else z
    out.append(('concatenate_time', lambda: pb.concatenate([z, type(z).like(zz, start_time=None)]), []))
    out.append(('concatenate_time_gap', lambda: pb.concatenate([z, z]), []))
    if radio:
        out.append(('concatenate_freq', lambda: pb.concatenate([z, z], axis='freq'), []))
        DM = pb.DM(rng.choice([0.5, -0.3, 2.0]))
        out.append(('incoherent_dedispersion', lambda: pb.incoherent_dedispersion(z, DM), [DM]))
        rf = (450 * u.MHz).to(rng.choice([u.MHz, u.GHz, u.Hz]))
        out.append(('incoherent_dedispersion_ref', lambda: pb.incoherent_dedispersion(z, DM, ref_freq=rf), [DM, rf]))
    else:
        out.append(('concatenate_freq_bad', lambda: pb.concatenate([z, z], axis='freq'), []))
    if bb:
        df = rng.choice([0.3, -1.7, 1.0, 40.0]) * z.sample_rate / L
        dfa = np.full(z.sample_shape[:1], df.to_value(u.Hz)) * u.Hz
        out.append(('freq_shift', lambda: pb.freq_shift(z, df), [df]))
        out.append(('freq_shift_array', lambda: pb.freq_shift(z, dfa), [dfa]))
        out.append(('freq_shift_bad', lambda: pb.freq_shift(z, 3.0), []))
        DM = pb.DM(rng.choice([1e-7, -2e-7, 1e-6]))
        out.append(('coherent_dedispersion', lambda: pb.coherent_dedispersion(z, DM), [DM]))
        ch = DM.chirp_from_signal(z)
        out.append(('coherent_dedispersion_chirp', lambda: pb.coherent_dedispersion(z, DM, chirp=ch), [DM, ch]))
        out.append(('chirp_from_signal', lambda: DM.chirp_from_signal(z, ref_freq=z.max_freq), [DM]))
        ftab = (np.array([[0.4, 0.5, 0.6], [0.7, 0.8, 0.9]]) * u.GHz).to(rng.choice([u.GHz, u.MHz, u.Hz]))
        frow, fref = ftab[1], (1.0 * u.GHz).to(rng.choice([u.GHz, u.MHz]))
        out.append(('time_delay', lambda: DM.time_delay(frow, fref), [DM, frow, fref, ftab]))
        out.append(('sample_delay', lambda: DM.sample_delay(frow, fref, z.sample_rate), [DM, frow, fref, ftab]))
        out.append(('to_intensity', lambda: z.to_intensity(), []))
        nps = rng.choice([2, 4, L])
        out.append(('stft', lambda: pb.contrib.stft(z, nperseg=nps), []))
        if z.nchan % nps == 0:
            out.append(('istft', lambda: pb.contrib.istft(z, nperseg=nps), []))
        st = pb.contrib.stft(z, nperseg=2)
        pool.append(st)
        out.append(('istft_of_stft', lambda: pb.contrib.istft(st, nperseg=2), [st]))
        out.append(('stft_bad', lambda: pb.contrib.stft(pb.Signal(np.zeros((4, 2)), sample_rate=1 * u.Hz), nperseg=2), []))
    else:
        out.append(('freq_shift_not_baseband', lambda: pb.freq_shift(z, 1 * u.Hz), []))
        out.append(('coherent_not_baseband', lambda: pb.coherent_dedispersion(z, pb.DM(1.0)), []))
    if isinstance(z, pb.DualPolarizationSignal):
        out.append(('to_linear', lambda: z.to_linear(), []))
        out.append(('to_circular', lambda: z.to_circular(), []))
        out.append(('to_stokes', lambda: z.to_stokes(), []))
    if not np.iscomplexobj(z.data):
        raw = z.data
        out.append(('real_to_complex', lambda: pb.utils.real_to_complex(raw, axis=rng.randrange(raw.ndim)), [raw]))
    else:
        raw = z.data
        out.append(('real_to_complex_refused', lambda: pb.utils.real_to_complex(raw), [raw]))

    @pb.signal_transform
    def smooth(x, k=1):
        return np.roll(x, k, axis=0) + x
    out.append(('signal_transform', lambda: smooth(z, k=2), []))
    return out


def run(ctx):
    rng = ctx.rng
    nprng = np.random.default_rng(ctx.seed + 14)
    ctx.rule = ('every public operation (slices, like, time/freq shift, snippet, fast_len, concatenate, (in)coherent dedispersion, chirp, '
                'stft/istft, polarisation and Stokes conversions, ufuncs without out=, np.asarray, dask helpers, real_to_complex, '
                'signal_transform, reader calls) in valid and deliberately invalid forms, on signals of every class whose data are writable NumPy buffers '
                'in four layouts (contiguous, strided view of a larger base, Fortran order, offset window of a larger base); the WHOLE base '
                'buffer is snapshotted; random sequences share inputs and feed results (often views of inputs) back into the pool. '
                'non-trivial: every call; distinct by (op, class, layout, dtype, shape).')
    ctx.trusted = ['Coq 8.16.1 kernel (analyser soundness is axiom-free)', 'translator T3 translate/py_effects2coq.py incl. its alias/fresh/'
                   'sink classification tables (cross-validated by this snapshot run)', 'numpy .tobytes() as the observation of a buffer']
    ctx.assumptions = ['soundness is with respect to the IR produced by T3; Signal.__array_ufunc__ is the sanctioned out=/in-place path and is '
                       'not lowered', 'dask graph execution does not write into the NumPy blocks it was built from (observed, not proved)']
    built = ctx.build(['Props/C14.vo'])
    ctx.count_obligations(VFILES)
    if built:
        ctx.assumptions_of('Props/C14.v', allowed=set())
    # T3 side information: unknown callees make the analyser fail closed; report them
    try:
        from translate import py_effects2coq
        _, names, unknown = py_effects2coq.generate('/repo')
        ctx.extra['lowered_functions'] = len(names)
        ctx.extra['unclassified_callees'] = unknown
    except Exception as e:
        ctx.extra['lowered_functions'] = 0
        ctx.extra['translator_error'] = repr(e)
    if not built:
        # which functions are rejected?  (evaluated outside the failing Props file)
        verdict_report(ctx)

    rounds = 300 if ctx.tier == 'quick' else 4000
    for r in range(rounds):
        pool = []
        for _ in range(rng.choice([2, 3])):
            z, layout = make_signal(rng, nprng)
            z._verif_layout = layout
            pool.append(z)
        originals = list(pool)
        snaps = {id(z): snap_signal(z) for z in originals}
        steps = rng.randint(6, 14) if ctx.tier == 'quick' else rng.randint(10, 30)
        history = []
        for s in range(steps):
            z = rng.choice(pool)
            if isinstance(z.data, da.Array) or len(z) < 8:
                z = rng.choice(originals)
            try:
                table = ops_for(rng, nprng, z, pool)
            except Exception as e:
                ctx.count('setup_error:' + type(e).__name__)
                continue
            name, thunk, extra = rng.choice(table)
            before_z = snap_signal(z)
            before_x = [snap_any(x) for x in extra]
            inp = dict(op=name, cls=type(z).__name__, layout=getattr(z, '_verif_layout', 'derived'), dtype=str(z.dtype),
                       shape=list(z.shape), round=r, step=s, history=list(history))
            ctx.seen(dict(op=name, cls=type(z).__name__, layout=inp['layout'], dtype=inp['dtype'], shape=inp['shape']))
            ctx.count('op:' + name); ctx.count('layout:' + inp['layout'])
            res, err = None, None
            try:
                res = thunk()
                ctx.count('returned')
            except Exception as e:
                err = e
                ctx.count('raised:' + type(e).__name__)
            history.append(name + ('!' if err else ''))
            changed = []
            if snap_signal(z) != before_z:
                changed.append('input signal of the call')
            for k, x in enumerate(extra):
                if snap_any(x) != before_x[k]:
                    changed.append(f'argument {k} ({type(x).__name__})')
            for o in originals:
                if snap_signal(o) != snaps[id(o)]:
                    changed.append(f'pool signal {type(o).__name__} ({o._verif_layout})')
                    snaps[id(o)] = snap_signal(o)      # report once
            if changed:
                what = describe_change(z, before_z)
                ctx.fail('input_modified', inp, impl=dict(changed=changed, raised=repr(err) if err else None, detail=what))
            if isinstance(res, pb.Signal) and rng.random() < 0.5 and len(res) >= 8 and not isinstance(res.data, da.Array):
                res._verif_layout = 'derived:' + name
                pool.append(res)

    # ---- reader calls: arguments (Time / Quantity scalars and arrays) and the files themselves are unchanged, whether the call
    # returns or raises
    import glob, hashlib
    import pulsarbat.readers as pbr
    DATA = '/repo/tests/data/'
    files = sorted(glob.glob(DATA + 'fake.*.raw')) + [DATA + 'sample.dada', DATA + 'sample.vdif', DATA + 'stokes_ef.dada']
    fhash = {f: hashlib.sha256(open(f, 'rb').read()).hexdigest() for f in files}
    lsb_arr = (np.arange(8) % 3).astype(bool)
    mk = [('dada', lambda: pbr.BasebandReader(DATA + 'sample.dada')), ('dada_lsb', lambda: pbr.BasebandReader(DATA + 'sample.dada', lower_sideband=True)),
          ('vdif', lambda: pbr.BasebandReader(DATA + 'sample.vdif')), ('vdif_mixed', lambda: pbr.BasebandReader(DATA + 'sample.vdif', lower_sideband=lsb_arr)),
          ('guppi', lambda: pbr.GUPPIRawReader(sorted(glob.glob(DATA + 'fake.*.raw')))), ('stokes', lambda: pbr.DADAStokesReader(DATA + 'stokes_ef.dada'))]
    for nm, f in mk:
        try:
            r = f()
        except Exception as e:
            ctx.fail('reader_open_raised', dict(reader=nm), impl=repr(e))
            continue
        L = len(r)
        for k in range(12 if ctx.tier == 'quick' else 120):
            o = rng.randint(0, max(0, L - 40))
            n = rng.choice([0, 1, 7, 16, 33])
            tq = (np.array([o, o + 1.25, L + 3.0]) / r.sample_rate).to(u.us)
            tt = r.start_time + tq
            t1 = r.start_time + (o / r.sample_rate)
            q1 = (o / r.sample_rate).to(u.ms)
            calls = [('read', lambda: r.read(o, n), []), ('read_beyond', lambda: r.read(L - 1, 5), []), ('read_negative', lambda: r.read(-1, 2), []),
                     ('dask_read', lambda: r.dask_read(o, n).compute(), []), ('offset_at_time', lambda: r.offset_at(t1), [t1]),
                     ('offset_at_quantity', lambda: r.offset_at(q1), [q1]), ('offset_at_outside', lambda: r.offset_at(tq[2]), [tq]),
                     ('time_at', lambda: (r.time_at(o), r.time_at(o, unit=u.ms)), []), ('contains_array', lambda: r.contains(tt), [tt]),
                     ('contains_scalar', lambda: t1 in r, [t1]), ('repr', lambda: (repr(r), str(r), len(r), r.shape), [])]
            if nm == 'vdif_mixed':
                calls.append(('read_mixed_sideband', lambda: r.read(o, n), [lsb_arr]))
            name, thunk, extra = rng.choice(calls)
            before = [snap_any(x) for x in extra]
            inp = dict(op='reader:' + name, reader=nm, offset=o, n=n)
            ctx.seen(inp); ctx.count('op:reader:' + name)
            err = None
            try:
                thunk()
                ctx.count('returned')
            except Exception as e:
                err = e
                ctx.count('raised:' + type(e).__name__)
            changed = [f'argument {j} ({type(x).__name__})' for j, x in enumerate(extra) if snap_any(x) != before[j]]
            if changed:
                ctx.fail('input_modified', inp, impl=dict(changed=changed, raised=repr(err) if err else None))

    # ---- predictor calls: the predictor itself (every column, the stored polynomials by content) and the Time / Phase arguments are
    # unchanged, whether the call returns or raises
    import io
    two = ('PSRX      1-Jan-20  000000.00   58849.00000000000            10.000000 -0.000 -6.000\n'
           '   100000000.250000      2.000000000000    0   60    3  1400.000\n'
           '  1.00000000000000000D-01  2.00000000000000000D-03  3.00000000000000000D-06\n'
           'PSRX      1-Jan-20  000000.00   58849.04166666667            10.000000 -0.000 -6.000\n'
           '   100007200.750000      2.000000000000    0   60    3  1400.000\n'
           ' -1.00000000000000000D-01  5.00000000000000000D-03 -3.00000000000000000D-06\n')
    preds = []
    for nm, f in (('timing.dat', lambda: pb.PhasePredictor.from_polyco(DATA + 'timing.dat')), ('two_entries', lambda: pb.PhasePredictor.from_polyco(io.StringIO(two)))):
        try:
            preds.append((nm, f()))
        except Exception as e:
            ctx.fail('predictor_open_raised', dict(predictor=nm), impl=repr(e))
    for nm, p in preds:
        half = float(p['span'][0].to_value(u.s)) / 2
        for k in range(16 if ctx.tier == 'quick' else 160):
            i = rng.randrange(len(p))
            off = rng.choice([0.0, 100.0, -250.0, 0.4 * half, -0.9 * half, rng.uniform(-0.99, 0.99) * half])
            t1 = p['tmid'][i] + off * u.s
            if rng.random() < 0.3:
                t1 = getattr(t1, rng.choice(['tt', 'tai']))
            ta = p['tmid'][i] + np.array([off, -off / 2, 17.0]) * u.s
            tout = p['tmid'][0] - 10 * u.day
            try:
                ph = p(t1)
            except Exception as e:
                ctx.fail('predictor_call_raised', dict(predictor=nm, entry=i, offset=off), impl=repr(e))
                continue
            calls = [('call_scalar', lambda: p(t1), [t1]), ('call_array', lambda: p(ta), [ta]), ('call_outside', lambda: p(tout), [tout]),
                     ('f0', lambda: p.f0(t1), [t1]), ('f0_second_derivative', lambda: p.f0(ta, 2), [ta]),
                     ('phasepol', lambda: p.phasepol(t1), [t1]), ('phasepol_outside', lambda: p.phasepol(tout), [tout]),
                     ('time_at', lambda: p.time_at(ph), [ph]), ('intervals', lambda: p.intervals, []),
                     ('phasepol_then_call', lambda: (p.phasepol(t1), p(ta)), [t1, ta])]
            name, thunk, extra = rng.choice(calls)
            before, pbefore = [snap_any(x) for x in extra], snap_predictor(p)
            inp = dict(op='predictor:' + name, predictor=nm, entry=i, offset=off, scale=t1.scale)
            ctx.seen(inp); ctx.count('op:predictor:' + name)
            err = None
            try:
                thunk()
                ctx.count('returned')
            except Exception as e:
                err = e
                ctx.count('raised:' + type(e).__name__)
            changed = [f'argument {j} ({type(x).__name__})' for j, x in enumerate(extra) if snap_any(x) != before[j]]
            pafter = snap_predictor(p)
            if pafter != pbefore:
                changed.append('the predictor: column(s) ' + ', '.join(a[0] for a, b in zip(pbefore[2], pafter[2]) if a != b))
            if changed:
                ctx.fail('input_modified', inp, impl=dict(changed=changed, raised=repr(err) if err else None))
    for f_ in files:
        if hashlib.sha256(open(f_, 'rb').read()).hexdigest() != fhash[f_]:
            ctx.fail('input_modified', dict(op='reader', file=f_), impl='file bytes changed')


def describe_change(z, before):
    try:
        now = snap_signal(z)
        out = []
        if now[3] != before[3]:
            a = np.frombuffer(before[3][4], dtype=np.dtype(before[3][1]))
            b = np.frombuffer(now[3][4], dtype=np.dtype(now[3][1]))
            if a.shape == b.shape:
                idx = np.nonzero(a != b)[0][:5]
                out.append(dict(flat_index=[int(i) for i in idx], before=[str(a[i]) for i in idx], after=[str(b[i]) for i in idx]))
        if now[4] != before[4]:
            out.append('attributes differ')
        if now[5] != before[5]:
            out.append('meta differs')
        return out
    except Exception as e:
        return repr(e)


def verdict_report(ctx):
    """evaluate the analyser per function when Props/C14.v no longer builds, to name the rejected functions"""
    import os, subprocess
    from harness.common import COQ
    p = os.path.join(COQ, 'Cases', 'C14_verdicts.v')
    os.makedirs(os.path.dirname(p), exist_ok=True)
    open(p, 'w').write('From Coq Require Import List. Import ListNotations.\nFrom PB Require Import Model.Effects Gen.GenEffects.\n'
                       'Eval vm_compute in verdicts.\n')
    r = subprocess.run(['bash', '-c', f'cd {COQ} && timeout 300 make Gen/GenEffects.vo >/dev/null 2>&1; timeout 300 coqc -q -Q . PB {p}'],
                       stdout=subprocess.PIPE, stderr=subprocess.STDOUT, text=True)
    import re
    vals = re.findall(r'\b(true|false)\b', r.stdout)
    try:
        from translate import py_effects2coq
        _, names, _ = py_effects2coq.generate('/repo')
        rej = [n for n, v in zip(names, vals) if v == 'false']
        ctx.extra['rejected_functions'] = rej
        if rej:
            ctx.broke('proof', 'C14_every_function_accepted', 'analyser rejects: ' + ', '.join(rej))
    except Exception as e:
        ctx.extra['rejected_functions'] = repr(e)
