"""Shared machinery of the checks: translators, Coq build, case evaluation by vm_compute,
decision logic (violation / known finding / no-failing-input-found) and evidence writing.
DESIGN.md section 2.4 describes the flow this file implements."""
import fcntl, hashlib, json, os, random, re, shutil, subprocess, sys, time, traceback
from fractions import Fraction

VERIF = '/verif'
COQ = os.path.join(VERIF, 'coq')
REPO = '/repo'
NPROC = 16

FORBIDDEN = re.compile(r'\b(Admitted|admit|Axiom|Axioms|Parameter|Parameters|Conjecture|Conjectures|Hypothesis|Hypotheses|Variable|Variables|bypass_check)\b|Unset\s+Guard|Unset\s+Positivity|Unset\s+Universe|type-in-type|impredicative-set|Admit\s+Obligations|native_compute')

# Axioms of the standard library that may appear under Print Assumptions (DESIGN section 4).
REAL_AXIOMS = {
    'ClassicalDedekindReals.sig_forall_dec', 'ClassicalDedekindReals.sig_not_dec',
    'FunctionalExtensionality.functional_extensionality_dep', 'Classical_Prop.classic',
}
# axioms (FloatAxioms.v) and primitives (PrimFloat.v, PrimInt63.v) DECLARED BY THE STANDARD LIBRARY, as Print Assumptions
# prints them when the modules are imported (short names)
STDLIB_FLOAT_NAMES = set('''Prim2SF_SF2Prim Prim2SF_valid SF2Prim_Prim2SF abs abs_spec add add_spec addc addcarryc addmuldiv asr classify
classify_spec compare compare_spec compares div div_spec diveucl diveucl_21 divs eqb eqb_spec float frshiftexp frshiftexp_spec head0 int land
ldshiftexp ldshiftexp_spec leb leb_spec lesb lor lsl lsr ltb ltb_spec ltsb lxor mod mods mul mul_spec mulc next_down next_down_spec next_up
next_up_spec normfr_mantissa normfr_mantissa_spec of_uint63 of_uint63_spec opp opp_spec sqrt sqrt_spec sub sub_spec subc subcarryc tail0'''.split())
FLOAT_PRIMS_PREFIX = ('PrimFloat.', 'FloatAxioms.', 'Uint63.', 'PrimInt63.', 'Sint63.', 'FloatOps.', 'Uint63Axioms.')


def sh(cmd, timeout=None, cwd=None, env=None, input=None):
    p = subprocess.run(cmd, shell=isinstance(cmd, str), cwd=cwd, env=env, input=input,
                       stdout=subprocess.PIPE, stderr=subprocess.STDOUT, text=True, timeout=timeout)
    return p.returncode, p.stdout


# ----------------------------------------------------------------------------------------------
# exact conversions (pitfalls file: always TAI for Time)
def frac_of_float(x):
    return Fraction(float(x))


def time_to_frac_days(t):
    """astropy Time -> exact rational TAI Julian date (days)."""
    tt = t.tai
    return Fraction(float(tt.jd1)) + Fraction(float(tt.jd2))


def qlit(fr):
    """Fraction -> Coq Q literal."""
    fr = Fraction(fr)
    n, d = fr.numerator, fr.denominator
    return f'(({n})#{d})' if n < 0 else f'({n}#{d})'


def zlit(n):
    n = int(n)
    return f'({n})' if n < 0 else f'{n}'


def optlit(x, f):
    return 'None' if x is None else f'(Some {f(x)})'


def listlit(xs, f=str):
    return '[' + '; '.join(f(x) for x in xs) + ']'


def boollit(b):
    return 'true' if b else 'false'


def float_lit(x):
    """Python float -> Coq primitive float literal (hex, exact)."""
    import math
    x = float(x)
    if math.isnan(x):
        return 'nan%float'
    if math.isinf(x):
        return '(infinity)%float' if x > 0 else '(neg_infinity)%float'
    h = x.hex()
    if h.startswith('-'):
        return f'(-{h[1:]})%float'
    return f'({h})%float'


# ----------------------------------------------------------------------------------------------
class Ctx:
    def __init__(self, prop, tier, seed, level='proof'):
        self.prop, self.tier, self.seed, self.level = prop, tier, seed, level
        self.rng = random.Random(seed * 1000003 + int(prop[1:]))
        self.t0 = time.time()
        self.cases = 0                  # evaluations
        self.distinct = set()           # hashes of distinct non-trivial cases
        self.samples = []
        self.dist = {}                  # input distribution counters
        self.failures = []              # monitor failures: dict(clause, input, impl, model, note)
        self.mismatches = []            # model/impl disagreements (correspondence)
        self.broken = []                # broken obligations: dict(kind, name, detail)
        self.obligations = 0
        self.discharged = 0
        self.axioms = []
        self.assumptions = []
        self.trusted = []
        self.extra = {}
        self.rule = ''
        self.checker_cmd = ''
        self.worst_ratio = 0.0          # worst observed error / tolerance
        self.known = load_known()
        self.known_hits = {}
        self.notes = []

    # -- bookkeeping --------------------------------------------------------------------------
    def count(self, key, n=1):
        self.dist[key] = self.dist.get(key, 0) + n

    def seen(self, case, nontrivial=True, sample=True):
        self.cases += 1
        if nontrivial:
            h = hashlib.sha1(json.dumps(case, sort_keys=True, default=str).encode()).hexdigest()
            if h not in self.distinct:
                self.distinct.add(h)
                if sample and len(self.samples) < 6 and (not self.samples or len(self.distinct) % 53 == 0):
                    self.samples.append(case)

    def ratio(self, err, tol, label=None):
        if tol > 0:
            r = float(err) / float(tol)
            self.worst_ratio = max(self.worst_ratio, r)
            if label is not None:
                d = self.extra.setdefault('worst_ratio_by_clause', {})
                d[label] = max(d.get(label, 0.0), r)

    def fail(self, clause, inp, impl=None, model=None, note=''):
        self.failures.append(dict(clause=clause, input=inp, impl=impl, model=model, note=note))

    def mismatch(self, what, inp, impl=None, model=None):
        self.mismatches.append(dict(what=what, input=inp, impl=impl, model=model))

    def broke(self, kind, name, detail=''):
        self.broken.append(dict(kind=kind, name=name, detail=detail[-3000:]))

    # -- translators / build ------------------------------------------------------------------
    def regen(self, targets=None):
        """Regenerate coq/Gen/*.v from /repo's working tree (fail-closed translators).  A failing translator breaks
        this property only when its generated file is in the dependency closure of the property's targets."""
        from translate import regen_all
        if getattr(self, '_regen_done', False):
            return
        self._regen_done = True
        res = regen_all.run()
        need = None
        if targets:
            deps = makefile_deps()
            if deps:
                need, todo = set(), [t[:-1] if t.endswith('.vo') else t for t in targets]
                while todo:
                    f = todo.pop()
                    if f not in need:
                        need.add(f)
                        todo += deps.get(f, [])
        for name, err in res.items():
            if err and (need is None or ('Gen/' + name) in need):
                self.broke('translator', name, err)

    def build(self, targets, timeout=1500):
        """make the given .vo targets (full .vo build).  Returns True when all built.  Gen/ is regenerated first."""
        self.regen(targets)
        ok, log = coq_make(targets, timeout)
        self.checker_cmd = f'make -C {COQ} -j{NPROC} ' + ' '.join(targets) + ' (coqc 8.16.1, full .vo)'
        if not ok:
            m = re.findall(r'File "\./([^"]+)", line (\d+)', log)
            name = f'{m[-1][0]}:{m[-1][1]}' if m else 'build'
            self.broke('proof', name, log)
        return ok

    def count_obligations(self, vfiles):
        """Obligations = proof scripts closed with Qed/Defined in the closure files; discharged = those
        whose file is compiled and up to date w.r.t. its source and (transitively) its dependencies."""
        deps = makefile_deps()
        memo = {}

        def fresh(f):
            if f in memo:
                return memo[f]
            memo[f] = False
            p = os.path.join(COQ, f)
            vo = p[:-2] + '.vo'
            ok = os.path.exists(p) and os.path.exists(vo) and os.path.getmtime(vo) >= os.path.getmtime(p)
            for d in deps.get(f, []):
                ok = ok and fresh(d) and os.path.getmtime(vo) >= os.path.getmtime(os.path.join(COQ, d)[:-2] + '.vo')
            memo[f] = ok
            return ok
        tot = done = 0
        for f in vfiles:
            p = os.path.join(COQ, f)
            if not os.path.exists(p):
                continue
            src = open(p).read()
            n = len(re.findall(r'\b(Qed|Defined)\.', src))
            tot += n
            if fresh(f):
                done += n
            if not f.startswith('Gen/') and not section_local_only(src):
                bad = FORBIDDEN.search(strip_comments(src))
                self.broke('forbidden-token', f, bad.group(0) if bad else '?')
        self.obligations += tot
        self.discharged += done

    def assumptions_of(self, propfile, allowed):
        """Recompile Props/Cxx.v (theorem + exact + Print Assumptions only) and whitelist its axioms."""
        rc, out = coqc(propfile, timeout=600)
        if rc != 0:
            self.broke('proof', propfile, out)
            return
        axs = parse_assumptions(out)
        self.axioms = sorted(axs)
        if self.tier == 'thorough':
            self.coqchk(propfile, allowed)
        for a in axs:
            base = a
            if base in allowed or ('float' in allowed and (any(base.startswith(p) for p in FLOAT_PRIMS_PREFIX) or base in STDLIB_FLOAT_NAMES)):
                continue
            self.broke('axiom', a, 'axiom outside the whitelist of this property')

    def coqchk(self, propfile, allowed):
        """thorough tier: re-check the compiled Props file and everything it depends on with the independent checker;
        the axioms it lists (for the whole loaded context) are recorded; anything outside the stdlib sets is an obligation broken."""
        mod = 'PB.' + propfile[:-2].replace('/', '.')
        t = time.time()
        rc, out = sh(['bash', '-c', f'ulimit -s unlimited; timeout 3000 coqchk -silent -o -Q . PB {mod}'], cwd=COQ, timeout=3100)
        self.extra['coqchk'] = dict(module=mod, exit=rc, wall_s=round(time.time() - t, 1))
        if rc != 0:
            self.broke('proof', 'coqchk ' + mod, out)
            return
        m = re.search(r'\* Axioms:(.*?)\n\s*\n\* Constants', out, re.S)
        axs = []
        if m and '<none>' not in m.group(1):
            axs = [a.strip() for a in m.group(1).strip().split('\n') if a.strip()]
        self.extra['coqchk']['axioms'] = axs
        for sect in ('type-in-type', 'unsafe (co)fixpoints', 'positivity is assumed'):
            mm = re.search(re.escape(sect) + r':\s*(.*?)\n\s*\n', out + '\n\n', re.S)
            if mm and '<none>' not in mm.group(1):
                self.broke('proof', 'coqchk: ' + sect, mm.group(1)[:500])
        ok_prefix = ('Coq.', 'Flocq.', 'Coquelicot.', 'mathcomp.')
        for a in axs:
            if not a.startswith(ok_prefix):
                self.broke('axiom', a, 'coqchk lists an axiom declared outside the installed libraries')

    # -- evaluating model + spec inside Coq ---------------------------------------------------
    def run_cases(self, header, items, result_ty='Z', shard=400, timeout=900, tag='cases'):
        """items: list of Coq terms (strings) each of type result_ty (Z or list Z).  They are written
        into shards  Definition r := [t1; t2; ...]  evaluated with vm_compute; returns the parsed
        results (list of ints or list of lists) or None if evaluation failed."""
        d = os.path.join(COQ, 'Cases')
        os.makedirs(d, exist_ok=True)
        files = []
        for k in range(0, len(items), shard):
            name = f'{self.prop}_{tag}_{k // shard}'
            path = os.path.join(d, name + '.v')
            with open(path, 'w') as f:
                f.write(header + '\n')
                f.write('Definition results := [\n' + ';\n'.join(items[k:k + shard]) + '\n].\n')
                f.write('Redirect "%s" Eval vm_compute in results.\n' % os.path.join(d, name))
            files.append((name, path))
        procs = []
        outs = {}
        running = []
        for name, path in files:
            while len(running) >= NPROC:
                running = [r for r in running if r[1].poll() is None]
                time.sleep(0.02)
            p = subprocess.Popen(['bash', '-c', f'ulimit -s unlimited; timeout {timeout} coqc -q -Q {COQ} PB -w none {path}'],
                                 cwd=d, stdout=subprocess.PIPE, stderr=subprocess.STDOUT, text=True)
            running.append((name, p))
            procs.append((name, p))
        res = []
        for name, p in procs:
            out, _ = p.communicate()
            if p.returncode != 0:
                self.broke('correspondence', f'Cases/{name}.v', out)
                return None
            txt = open(os.path.join(d, name + '.out')).read()
            res.extend(parse_results(txt, result_ty))
        if len(res) != len(items):
            self.broke('correspondence', 'result-count', f'{len(res)} results for {len(items)} cases')
            return None
        return res

    # -- decision and evidence ----------------------------------------------------------------
    def finish(self):
        os.makedirs(os.path.join(VERIF, 'evidence'), exist_ok=True)
        os.makedirs(os.path.join(VERIF, 'replays'), exist_ok=True)
        lines = []
        new_viol = []
        for f in self.failures:
            k = match_known(self.known, self.prop, f)
            if k is not None:
                self.known_hits[k['id']] = self.known_hits.get(k['id'], 0) + 1
            else:
                new_viol.append(f)
        for kid, n in sorted(self.known_hits.items()):
            k = [x for x in self.known if x['id'] == kid][0]
            lines.append(f"KNOWN-FINDING: property={self.prop} {k['what']} [{kid}; {n} case(s) this run]")
        rc = 0
        if new_viol:
            f = min(new_viol, key=lambda z: len(json.dumps(z, default=str)))
            path = self.write_replay(dict(kind='failing-input', **f, other_failures=len(new_viol) - 1,
                                          broken=self.broken, mismatches=self.mismatches[:5]))
            lines.append(f'VIOLATION property={self.prop} replay={path}')
            rc = 1
        elif self.broken or self.mismatches:
            what = self.broken[0] if self.broken else dict(kind='correspondence', name=self.mismatches[0]['what'])
            path = self.write_replay(dict(kind='no-failing-input-found', broken=self.broken,
                                          mismatches=self.mismatches[:10],
                                          explanation='a proof obligation, translator or model/implementation '
                                          'correspondence no longer checks; the search found no input on which the '
                                          'property itself fails'))
            lines.append(f'VIOLATION property={self.prop} replay={path} no-failing-input-found')
            rc = 1
        ev = dict(
            property_id=self.prop, tier=self.tier, seed=self.seed, level=self.level,
            coverage=dict(
                obligations=self.obligations, discharged=self.discharged,
                checker_cmd=self.checker_cmd or 'coqc 8.16.1',
                trusted_base=self.trusted,
                axioms_printed=self.axioms,
                evaluations=self.cases, distinct_nontrivial=len(self.distinct),
                rule=self.rule, samples=self.samples[:6], input_distribution=self.dist,
                model_impl_mismatches=len(self.mismatches), monitor_failures=len(self.failures),
                known_findings_hit=self.known_hits, broken_obligations=self.broken[:5],
                worst_error_over_tolerance=round(self.worst_ratio, 6),
                **self.extra),
            assumptions=self.assumptions, wall_s=round(time.time() - self.t0, 2),
            violations=len(new_viol) + (1 if (rc and not new_viol) else 0))
        with open(os.path.join(VERIF, 'evidence', f'{self.prop}.json'), 'w') as fh:
            json.dump(ev, fh, indent=1, default=str)
        for ln in lines:
            print(ln)
        print(f'[{self.prop}] tier={self.tier} seed={self.seed} obligations={self.obligations}/{self.discharged} '
              f'cases={self.cases} distinct={len(self.distinct)} mismatches={len(self.mismatches)} '
              f'failures={len(self.failures)} known={sum(self.known_hits.values())} '
              f'worst_ratio={self.worst_ratio:.3g} wall={time.time() - self.t0:.1f}s -> exit {rc}')
        return rc

    def write_replay(self, obj):
        obj = dict(property=self.prop, seed=self.seed, tier=self.tier, **obj)
        txt = json.dumps(obj, indent=1, default=str)
        h = hashlib.sha1(txt.encode()).hexdigest()[:10]
        path = os.path.join(VERIF, 'replays', f'{self.prop}-{h}.json')
        with open(path, 'w') as fh:
            fh.write(txt)
        return path


# ----------------------------------------------------------------------------------------------
def strip_comments(src):
    out, depth, i = [], 0, 0
    while i < len(src):
        if src.startswith('(*', i):
            depth += 1; i += 2
        elif src.startswith('*)', i) and depth:
            depth -= 1; i += 2
        else:
            if not depth:
                out.append(src[i])
            i += 1
    return ''.join(out)


def section_local_only(src):
    """True when every Variable/Hypothesis sits inside a Section and no other forbidden token occurs."""
    s = strip_comments(src)
    stack = []
    pat = (r'\bSection\s+(\w+)\s*\.|\bEnd\s+(\w+)\s*\.|\b(Variables?|Hypothes[ie]s|Context)\b|'
           r'\b(Admitted|admit|Axioms?|Parameters?|Conjectures?|bypass_check|native_compute)\b|'
           r'Unset\s+Guard|Unset\s+Positivity|Unset\s+Universe|Admit\s+Obligations')
    for m in re.finditer(pat, s):
        if m.group(1):
            stack.append(m.group(1))
        elif m.group(2):
            if stack and stack[-1] == m.group(2):
                stack.pop()
        elif m.group(3):
            if not stack:
                return False
        else:
            return False
    return True


def makefile_deps():
    """file.v -> [dep.v, ...] from coq_makefile's .Makefile.d"""
    deps = {}
    p = os.path.join(COQ, '.Makefile.d')
    if not os.path.exists(p):
        return deps
    for ln in open(p):
        if ':' not in ln:
            continue
        lhs, rhs = ln.split(':', 1)
        tg = [x for x in lhs.split() if x.endswith('.vo')]
        if not tg:
            continue
        deps[tg[0][:-1]] = [x[:-1] for x in rhs.split() if x.endswith('.vo') and not x.startswith('/')]
    return deps


def coq_make(targets, timeout=1500):
    lock = open(os.path.join(COQ, '.lock'), 'w')
    fcntl.flock(lock, fcntl.LOCK_EX)
    try:
        if not os.path.exists(os.path.join(COQ, 'Makefile')) or \
           os.path.getmtime(os.path.join(COQ, 'Makefile')) < os.path.getmtime(os.path.join(COQ, '_CoqProject')):
            rc, out = sh('coq_makefile -f _CoqProject -o Makefile', cwd=COQ, timeout=120)
            if rc:
                return False, out
        cmd = f'ulimit -s unlimited; timeout {timeout} make -j{NPROC} ' + ' '.join(targets)
        rc, out = sh(['bash', '-c', cmd], cwd=COQ, timeout=timeout + 30)
        return rc == 0, out
    finally:
        fcntl.flock(lock, fcntl.LOCK_UN)
        lock.close()


def coqc(vfile, timeout=600):
    lock = open(os.path.join(COQ, '.lock'), 'w')
    fcntl.flock(lock, fcntl.LOCK_EX)
    try:
        return sh(['bash', '-c', f'ulimit -s unlimited; timeout {timeout} coqc -q -Q . PB -w none {vfile}'], cwd=COQ,
                  timeout=timeout + 30)
    finally:
        fcntl.flock(lock, fcntl.LOCK_UN)
        lock.close()


def parse_assumptions(out):
    axs = set()
    for blk in re.split(r'\n(?=Axioms:|Closed under the global context)', out):
        if blk.startswith('Axioms:'):
            for m in re.finditer(r'^([A-Za-z_][\w.\']*)\s*(?::|$)', blk[len('Axioms:'):], re.M):
                axs.add(m.group(1))
    return axs


def parse_results(txt, ty):
    body = txt.split('=', 1)[1]
    body = body.rsplit(':', 1)[0]
    body = re.sub(r'%Z|\s+', '', body)
    if ty == 'Z':
        inner = body.strip()[1:-1]
        return [int(x.strip('()')) for x in inner.split(';') if x != '']
    # list of lists
    res = []
    for m in re.finditer(r'\[([^\[\]]*)\]', body[1:-1] if body.startswith('[[') or body.startswith('[[]') else body):
        res.append([int(x.strip('()')) for x in m.group(1).split(';') if x != ''])
    return res


def load_known():
    p = os.path.join(VERIF, 'known_findings.json')
    if not os.path.exists(p):
        return []
    return [k for k in json.load(open(p))['findings'] if k.get('kind') == 'known']


def match_known(known, prop, failure):
    """A known finding matches on property + clause + a predicate over the failing input
    (every key of k['match'] must be present in the failure's input with an equal value, or satisfy
    the named range predicate).  Never on the property id alone."""
    for k in known:
        if k['property'] != prop or k.get('clause') != failure['clause']:
            continue
        inp = failure['input'] if isinstance(failure['input'], dict) else {}
        ok = bool(k.get('match'))
        for key, want in k['match'].items():
            got = inp.get(key)
            if isinstance(want, dict) and 'lt' in want:
                ok = ok and got is not None and got < want['lt']
            elif isinstance(want, dict) and 'ge' in want:
                ok = ok and got is not None and got >= want['ge']
            elif isinstance(want, dict) and 'in' in want:
                ok = ok and got in want['in']
            else:
                ok = ok and got == want
        if ok:
            return k
    return None


def asked_before(ctx, rng, *fns, p=0.3):
    """With probability p run the given thunks once and discard what they return: the recorded call that follows is then not the first of
    its kind in the process, so state kept between calls (a memo keyed too coarsely, a cached array that a later statement updates in
    place, a reused buffer) shows up as a difference.  Exceptions are ignored here - the recorded call reports them."""
    if rng.random() >= p:
        return False
    ctx.count('asked_before')
    for fn in fns:
        try:
            fn()
        except Exception:
            pass
    return True
