"""Translator T5: the arithmetic of transforms/dedispersion.py -> Gallina (Gen/GenDisp.v), with a small unit algebra.

Quantities are rendered as exact rational terms in fixed base units (seconds, pc, cm, cycles): every sub-expression carries
(term, scale, dims); `*`, `/`, `**` combine scales and dimensions, `+`/`-` demand equal dimensions and rescale, `.to(u.X)` /
`.to_value(u.X)` demand the dimensions of X and fold the scale into the term.  So `u.MHz ** 2` contributes 10^12 and a change of a unit,
an exponent, a sign, an operand or the literal changes the generated term.  Proofs/DispGen.v proves Model/Disp equal to these terms.

Translated: DispersionMeasure.dispersion_constant, time_delay, sample_delay, the phase of _transfer_function (in cycles, as a function of the
absolute frequency f) and the sign of the exponent, the crop of coherent_dedispersion (start / stop and which band edge feeds which delay)
and the integer bookkeeping of incoherent_dedispersion (crop_before, N, the new start time).

Fail-closed: anything outside the expected shapes raises Unsupported."""
import ast, pathlib, sys
from fractions import Fraction


class Unsupported(Exception):
    pass


UNITS = {   # name -> (scale, dims) in base units s, pc, cm, cycle
    's': (Fraction(1), {'s': 1}), 'Hz': (Fraction(1), {'s': -1}), 'kHz': (Fraction(10 ** 3), {'s': -1}),
    'MHz': (Fraction(10 ** 6), {'s': -1}), 'GHz': (Fraction(10 ** 9), {'s': -1}),
    'cm': (Fraction(1), {'cm': 1}), 'pc': (Fraction(1), {'pc': 1}), 'cycle': (Fraction(1), {'cycle': 1}), 'one': (Fraction(1), {}),
}


def qlit(fr):
    return f'({fr.numerator}#{fr.denominator})' if fr >= 0 else f'(({fr.numerator})#{fr.denominator})'


def dims_mul(a, b, k=1):
    d = dict(a)
    for x, e in b.items():
        d[x] = d.get(x, 0) + k * e
    return {x: e for x, e in d.items() if e}


class V:
    def __init__(self, term, scale=Fraction(1), dims=None):
        self.term, self.scale, self.dims = term, Fraction(scale), dict(dims or {})


class UEx:
    def __init__(self, src, env, calls=None):
        self.src, self.env, self.calls = src, env, calls or {}

    def unit(self, n):
        if isinstance(n, ast.Attribute) and isinstance(n.value, ast.Name) and n.value.id == 'u' and n.attr in UNITS:
            s, d = UNITS[n.attr]
            return V(None, s, d)
        raise Unsupported('unit ' + ast.dump(n))

    def key(self, n):
        try:
            return ast.unparse(n)
        except Exception:
            return None

    def ev(self, n):
        k = self.key(n)
        if k in self.env:
            return self.env[k]
        if isinstance(n, ast.Attribute) and isinstance(n.value, ast.Name) and n.value.id == 'u':
            return self.unit(n)
        if isinstance(n, ast.Constant) and isinstance(n.value, (int, float)) and not isinstance(n.value, bool):
            txt = ast.get_source_segment(self.src, n)
            return V(qlit(Fraction(txt)))          # the decimal the source writes
        if isinstance(n, ast.UnaryOp) and isinstance(n.op, (ast.USub, ast.UAdd)):
            a = self.ev(n.operand)
            return a if isinstance(n.op, ast.UAdd) else V(f'(- {a.term})', a.scale, a.dims)
        if isinstance(n, ast.BinOp):
            if isinstance(n.op, ast.Pow):
                if not (isinstance(n.right, ast.Constant) and isinstance(n.right.value, int) and 1 <= n.right.value <= 4):
                    raise Unsupported('exponent ' + ast.dump(n.right))
                a, e = self.ev(n.left), n.right.value
                t = None if a.term is None else '(' + ' * '.join([a.term] * e) + ')'
                return V(t, a.scale ** e, dims_mul({}, a.dims, e))
            a, b = self.ev(n.left), self.ev(n.right)
            if isinstance(n.op, (ast.Mult, ast.Div)):
                k = 1 if isinstance(n.op, ast.Mult) else -1
                op = '*' if k == 1 else '/'
                if b.term is None:
                    t = a.term
                elif a.term is None:
                    t = b.term if k == 1 else f'(1 / {b.term})'
                else:
                    t = f'({a.term} {op} {b.term})'
                return V(t, a.scale * b.scale ** k, dims_mul(a.dims, b.dims, k))
            if isinstance(n.op, (ast.Add, ast.Sub)):
                if a.dims != b.dims:
                    raise Unsupported(f'adding {a.dims} to {b.dims}')
                if a.term is None or b.term is None:
                    raise Unsupported('bare unit in a sum')
                op = '+' if isinstance(n.op, ast.Add) else '-'
                bt = b.term if a.scale == b.scale else f'({b.term} * {qlit(b.scale / a.scale)})'
                return V(f'({a.term} {op} {bt})', a.scale, a.dims)
            raise Unsupported('operator ' + ast.dump(n.op))
        if isinstance(n, ast.Call) and isinstance(n.func, ast.Attribute) and n.func.attr in ('to', 'to_value') and len(n.args) == 1 and not n.keywords:
            a, tgt = self.ev(n.func.value), self.unit(n.args[0])
            if a.dims != tgt.dims:
                raise Unsupported(f'conversion of {a.dims} to {tgt.dims}')
            r = a.scale / tgt.scale
            t = a.term if r == 1 else f'({a.term} * {qlit(r)})'
            return V(t, tgt.scale, tgt.dims)
        if isinstance(n, ast.Call) and not n.keywords:
            f = self.key(n.func)
            if f in self.calls:
                return self.calls[f]([self.ev(a) for a in n.args])
        raise Unsupported('expression ' + ast.dump(n))


def is_src(node, text):
    """node is the statement / expression `text` (compared as syntax trees, independent of the unparser)"""
    try:
        if isinstance(node, ast.stmt):
            return ast.dump(node) == ast.dump(ast.parse(text).body[0])
        return ast.dump(node) == ast.dump(ast.parse(text, mode='eval').body)
    except SyntaxError:
        return False


def final(v, dims, what):
    """the value in base units (scale folded in)"""
    if v.dims != dims:
        raise Unsupported(f'{what}: dimensions {v.dims}, expected {dims}')
    return v.term if v.scale == 1 else f'({v.term} * {qlit(v.scale)})'


def find_func(body, name):
    for n in body:
        if isinstance(n, ast.FunctionDef) and n.name == name:
            return n
    raise Unsupported(name + ' not found')


def stmts(fn):
    return [s for s in fn.body if not (isinstance(s, ast.Expr) and isinstance(s.value, ast.Constant) and isinstance(s.value.value, str))]


def argnames(fn):
    a = fn.args
    if a.vararg or a.kwarg:
        raise Unsupported('signature of ' + fn.name)
    return [x.arg for x in a.posonlyargs + a.args], [x.arg for x in a.kwonlyargs]


def assign(st, what):
    if not (isinstance(st, ast.Assign) and len(st.targets) == 1 and isinstance(st.targets[0], ast.Name)):
        raise Unsupported(what + ': ' + ast.dump(st))
    return st.targets[0].id, st.value


HZ = {'s': -1}
DMD = {'pc': 1, 'cm': -3}


def generate(repo='/repo'):
    src = pathlib.Path(repo, 'pulsarbat', 'transforms', 'dedispersion.py').read_text()
    tree = ast.parse(src)
    cls = None
    for n in tree.body:
        if isinstance(n, ast.ClassDef) and n.name == 'DispersionMeasure':
            cls = n
    if cls is None:
        raise Unsupported('class DispersionMeasure')
    out = ['(* GENERATED by translate/py_disp2coq.py from transforms/dedispersion.py -- do not edit *)',
           'From Coq Require Import ZArith QArith Qround Qminmax.', 'From PB Require Import Model.Ledger.', 'Open Scope Q_scope.',
           '(* base units: seconds, Hz, pc/cm^3, cycles *)']
    # ---- class attributes: default unit of a DM and the dispersion constant
    dconst = dunit = None
    for n in cls.body:
        if isinstance(n, ast.Assign):
            names = [t.id for t in n.targets if isinstance(t, ast.Name)]
            if 'dispersion_constant' in names:
                dconst = n.value
            if '_default_unit' in names or '_equivalent_unit' in names:
                dunit = n.value
    if dconst is None or dunit is None:
        raise Unsupported('dispersion_constant / _default_unit')
    ue = UEx(src, {})
    du = ue.ev(dunit)
    if du.term is not None or du.dims != DMD:
        raise Unsupported('default unit of DispersionMeasure')
    K = ue.ev(dconst)
    # self: a DM of `dm` default units
    selfv = V('dm', du.scale, du.dims)
    # ---- time_delay(self, f, ref_freq)
    fn = find_func(cls.body, 'time_delay')
    if argnames(fn) != (['self', 'f', 'ref_freq'], []):
        raise Unsupported('signature of time_delay')
    env = {'self': selfv, 'self.dispersion_constant': K, 'f': V('f', 1, HZ), 'ref_freq': V('fr', 1, HZ)}
    body = stmts(fn)
    for st in body[:-1]:
        name, val = assign(st, 'time_delay')
        env[name] = UEx(src, env).ev(val)
    if not isinstance(body[-1], ast.Return):
        raise Unsupported('time_delay: last statement')
    td = final(UEx(src, env).ev(body[-1].value), {'s': 1}, 'time_delay')
    out.append(f'Definition gen_time_delay (dm f fr : Q) : Q := {td}.')
    # ---- sample_delay(self, f, ref_freq, sample_rate)
    fn = find_func(cls.body, 'sample_delay')
    if argnames(fn) != (['self', 'f', 'ref_freq', 'sample_rate'], []):
        raise Unsupported('signature of sample_delay')

    def call_td(args):
        if [a.term for a in args] != ['f', 'fr'] or any(a.dims != HZ or a.scale != 1 for a in args):
            raise Unsupported('arguments of self.time_delay')
        return V('gen_time_delay dm f fr', 1, {'s': 1})
    env = {'self': selfv, 'f': V('f', 1, HZ), 'ref_freq': V('fr', 1, HZ), 'sample_rate': V('rate', 1, HZ)}
    body = stmts(fn)
    for st in body[:-1]:
        name, val = assign(st, 'sample_delay')
        env[name] = UEx(src, env, {'self.time_delay': call_td}).ev(val)
    if not isinstance(body[-1], ast.Return):
        raise Unsupported('sample_delay: last statement')
    sd = final(UEx(src, env).ev(body[-1].value), {}, 'sample_delay')
    out.append(f'Definition gen_sample_delay (dm f fr rate : Q) : Q := {sd}.')
    # ---- chirp_function: coeff and the order of the arguments handed to _transfer_function
    fn = find_func(cls.body, 'chirp_function')
    body = stmts(fn)
    n0, v0 = assign(body[0], 'chirp_function')
    n1, v1 = assign(body[1], 'chirp_function')
    tfn = find_func(tree.body, '_transfer_function')
    targs, _ = argnames(tfn)
    if n0 != 'coeff' or not isinstance(v1, ast.Tuple) or [ast.unparse(e) for e in v1.elts] != ['coeff', 'N', 'dt', 'center_freq', 'ref_freq'] \
       or targs != ['coeff', 'N', 'dt', 'center_freq', 'ref_freq'] or argnames(fn)[0][:5] != ['self', 'N', 'dt', 'center_freq', 'ref_freq']:
        raise Unsupported('chirp_function: coeff / tf_args')
    calls = [c for c in ast.walk(fn) if isinstance(c, ast.Call)]
    tfc = [c for c in calls if any(isinstance(x, ast.Name) and x.id == '_transfer_function' for x in ast.walk(c))]
    if len(tfc) != 2 or not any(is_src(c, 'dask.delayed(_transfer_function, pure=True)') for c in tfc) \
       or not any(is_src(c, f'_transfer_function(*{n1})') for c in tfc) or not any(is_src(c, f'delayed_tf(*{n1})') for c in calls):
        raise Unsupported('chirp_function: calls of _transfer_function')
    coeff = UEx(src, {'self': selfv, 'self.dispersion_constant': K}).ev(v0)
    # ---- _transfer_function: f = center_freq.to(Hz) + fftfreq(N, dt).to(Hz) ; phase = ... ; tf = exp(-1j * phase.to_value(rad))
    body = stmts(tfn)
    if len(body) != 4:
        raise Unsupported('_transfer_function: expected four statements')
    fname, fval = assign(body[0], '_transfer_function')
    if not is_src(fval, 'center_freq.to(u.Hz) + np.fft.fftfreq(N, dt).to(u.Hz)'):
        raise Unsupported('_transfer_function: frequency grid ' + ast.unparse(fval))
    pname, pval = assign(body[1], '_transfer_function')
    ph = UEx(src, {'coeff': coeff, fname: V('f', 1, HZ), 'ref_freq': V('fr', 1, HZ)}).ev(pval)
    out.append(f'(* phase of the transfer function in cycles, at absolute frequency f = center_freq + fftfreq *)')
    out.append(f'Definition gen_chirp_phase (dm f fr : Q) : Q := {final(ph, {"cycle": 1}, "phase")}.')
    tname, tval = assign(body[2], '_transfer_function')
    sign = -1 if is_src(tval, f'np.exp(-1j * {pname}.to_value(u.rad))') else 1 if is_src(tval, f'np.exp(1j * {pname}.to_value(u.rad))') else None
    if sign is None:
        raise Unsupported('_transfer_function: exponential ' + ast.unparse(tval))
    out.append(f'Definition gen_chirp_sign : Z := ({sign})%Z.')
    if not is_src(body[3], f'return {tname}.astype(np.complex64)'):
        raise Unsupported('_transfer_function: return')
    # ---- chirp_from_signal: one chirp per channel, at that channel's label, with the signal's length, spacing and reference (pinned)
    fn = find_func(cls.body, 'chirp_from_signal')
    pins = ['N, dt = len(z), z.dt', 'if ref_freq is None:\n    ref_freq = z.center_freq',
            'chirps = [self.chirp_function(N, dt, f, ref_freq, isinstance(z.data, da.Array)) for f in z.channel_freqs]',
            'ix = tuple(slice(None) if i < 2 else None for i in range(z.ndim))', 'return np.stack(chirps, axis=1)[ix]']
    body = stmts(fn)
    for pin in pins:
        if sum(is_src(st, pin) for st in body) != 1:
            raise Unsupported('chirp_from_signal: expected exactly one statement  ' + pin)
    if len(body) != len(pins) + 1 or not isinstance(body[0], ast.If):
        raise Unsupported('chirp_from_signal: extra statements')
    out.append('(* chirp_from_signal: chirp_function(len(z), z.dt, f, ref_freq) for f in z.channel_freqs, ref_freq defaulting to center_freq *)')
    out.append('Definition gen_chirp_per_channel_label : bool := true.')
    # ---- coherent_dedispersion: the crop
    fn = find_func(tree.body, 'coherent_dedispersion')
    pos, kwo = argnames(fn)
    if pos != ['z', 'DM'] or kwo != ['ref_freq', 'chirp']:
        raise Unsupported('signature of coherent_dedispersion')
    body = stmts(fn)
    tail = body[-5:]
    edge = {}
    for st, nm in zip(tail[:2], ('delay_top', 'delay_bot')):
        name, val = assign(st, 'coherent_dedispersion')
        if name != nm or not (isinstance(val, ast.Call) and ast.unparse(val.func) == 'DM.sample_delay' and len(val.args) == 3 and not val.keywords
                              and ast.unparse(val.args[1]) == 'ref_freq' and ast.unparse(val.args[2]) == 'z.sample_rate'
                              and ast.unparse(val.args[0]) in ('z.max_freq', 'z.min_freq')):
            raise Unsupported('coherent_dedispersion: ' + ast.unparse(st))
        edge[nm] = {'z.max_freq': 'fmax', 'z.min_freq': 'fmin'}[ast.unparse(val.args[0])]
    out.append(f'Definition gen_delay_top (dm fmax fmin fr rate : Q) : Q := gen_sample_delay dm {edge["delay_top"]} fr rate.')
    out.append(f'Definition gen_delay_bot (dm fmax fmin fr rate : Q) : Q := gen_sample_delay dm {edge["delay_bot"]} fr rate.')

    def qz(n):
        """integer-valued expression over the two delays -> Coq Z term"""
        if isinstance(n, ast.BinOp) and isinstance(n.op, (ast.Add, ast.Sub)):
            return f'({qz(n.left)} {"+" if isinstance(n.op, ast.Add) else "-"} {qz(n.right)})%Z'
        if ast.unparse(n) == 'x.shape[0]':
            return 'N'
        if isinstance(n, ast.Call) and ast.unparse(n.func) == 'math.ceil' and len(n.args) == 1:
            return f'(Qceiling {qq(n.args[0])})'
        raise Unsupported('integer expression ' + ast.unparse(n))

    def qq(n):
        if isinstance(n, ast.UnaryOp) and isinstance(n.op, ast.USub):
            return f'(- {qq(n.operand)})'
        if isinstance(n, ast.UnaryOp) and isinstance(n.op, ast.UAdd):
            return qq(n.operand)
        if isinstance(n, ast.Call) and isinstance(n.func, ast.Name) and n.func.id in ('min', 'max') and len(n.args) >= 2 and not n.keywords:
            f = 'Qmin' if n.func.id == 'min' else 'Qmax'
            args = [qq(a) for a in n.args]
            t = args[-1]
            for a in reversed(args[:-1]):
                t = f'({f} {a} {t})'
            return t
        if isinstance(n, ast.Constant) and isinstance(n.value, int) and not isinstance(n.value, bool):
            return f'{n.value}' if n.value >= 0 else f'({n.value})'
        if isinstance(n, ast.Name) and n.id in ('delay_top', 'delay_bot'):
            return {'delay_top': 'dtop', 'delay_bot': 'dbot'}[n.id]
        raise Unsupported('delay expression ' + ast.unparse(n))
    n_s, v_s = assign(tail[2], 'coherent_dedispersion')
    n_e, v_e = assign(tail[3], 'coherent_dedispersion')
    out.append(f'Definition gen_crop_start (dtop dbot : Q) : Z := {qz(v_s)}.')
    out.append(f'Definition gen_crop_stop (N : Z) (dtop dbot : Q) : Z := {qz(v_e)}.')
    if not is_src(tail[4], f'return type(z).like(z, x)[{n_s}:{n_e}]'):
        raise Unsupported('coherent_dedispersion: return ' + ast.unparse(tail[4]))
    for pin in ('if ref_freq is None:\n    ref_freq = z.center_freq', 'if chirp is None:\n    chirp = DM.chirp_from_signal(z, ref_freq=ref_freq)',
                'chirp = chirp[(slice(None),) * chirp.ndim + (None,) * (z.ndim - chirp.ndim)]'):
        if sum(is_src(st, pin) for st in body) != 1:
            raise Unsupported('coherent_dedispersion: expected exactly one statement  ' + pin)
    if len(body) != 10 or not is_src(body[0], 'if not isinstance(z, pb.BasebandSignal):\n    raise TypeError("Signal must be a BasebandSignal object.")'):
        raise Unsupported('coherent_dedispersion: a statement that is neither translated nor pinned')
    xs = [st for st in body if isinstance(st, ast.Assign) and ast.unparse(st.targets[0]) == 'x']
    if len(xs) != 1 or not is_src(xs[0].value, 'pb.fft.ifft(pb.fft.fft(z.data, axis=0) * chirp, axis=0)'):
        raise Unsupported('coherent_dedispersion: the filtering statement')
    # ---- incoherent_dedispersion: integer bookkeeping
    fn = find_func(tree.body, 'incoherent_dedispersion')
    body = stmts(fn)
    i0 = next((i for i, st in enumerate(body) if isinstance(st, ast.Assign) and ast.unparse(st.targets[0]) == 'delays'), None)
    if i0 is None:
        raise Unsupported('incoherent_dedispersion: delays')
    if i0 != 2 or not is_src(body[0], 'if not isinstance(z, pb.RadioSignal):\n    raise TypeError("Signal must be a RadioSignal object.")') \
       or not is_src(body[1], 'if ref_freq is None:\n    ref_freq = z.center_freq'):
        raise Unsupported('incoherent_dedispersion: a statement that is neither translated nor pinned')
    want = ['delays = DM.sample_delay(z.channel_freqs, ref_freq, z.sample_rate)', 'delays = delays.round().astype(np.int64)']
    if not all(is_src(a, b) for a, b in zip(body[i0:i0 + 2], want)):
        raise Unsupported('incoherent_dedispersion: delays are not round(sample_delay(channel_freqs, ref_freq, sample_rate))')
    rest = body[i0 + 2:]
    if len(rest) != 7:
        raise Unsupported('incoherent_dedispersion: expected seven statements after the delays')

    def zz(n, env):
        k = ast.unparse(n)
        if k in env:
            return env[k]
        if isinstance(n, ast.UnaryOp) and isinstance(n.op, ast.USub):
            return f'(- {zz(n.operand, env)})'
        if isinstance(n, ast.BinOp) and isinstance(n.op, (ast.Add, ast.Sub)):
            return f'({zz(n.left, env)} {"+" if isinstance(n.op, ast.Add) else "-"} {zz(n.right, env)})'
        if isinstance(n, ast.Call) and isinstance(n.func, ast.Name) and n.func.id in ('min', 'max') and len(n.args) >= 2 and not n.keywords:
            f = 'Z.min' if n.func.id == 'min' else 'Z.max'
            args = [zz(a, env) for a in n.args]
            t = args[-1]
            for a in reversed(args[:-1]):
                t = f'({f} {a} {t})'
            return t
        if isinstance(n, ast.Constant) and isinstance(n.value, int) and not isinstance(n.value, bool):
            return f'{n.value}' if n.value >= 0 else f'({n.value})'
        raise Unsupported('integer expression ' + k)
    cbn, cbv = assign(rest[0], 'incoherent_dedispersion')
    out.append(f'Definition gen_inc_crop_before (d0 dl : Z) : Z := {zz(cbv, {"delays[0]": "d0", "delays[-1]": "dl"})}%Z.')
    if not is_src(rest[1], f'delays += {cbn}'):
        raise Unsupported('incoherent_dedispersion: ' + ast.unparse(rest[1]))
    out.append('Definition gen_inc_shift (cb d : Z) : Z := (d + cb)%Z.')
    Nn, Nv = assign(rest[2], 'incoherent_dedispersion')
    out.append(f'Definition gen_inc_N (len maxd : Z) : Z := {zz(Nv, {"len(z)": "len", "max(delays)": "maxd"})}%Z.')
    if not is_src(rest[3], f'x = np.stack([z.data[j:j + {Nn}, i] for (i, j) in enumerate(delays)], axis=1)'):
        raise Unsupported('incoherent_dedispersion: gather ' + ast.unparse(rest[3]))
    if not is_src(rest[4], 'new_start = z.start_time'):
        raise Unsupported('incoherent_dedispersion: ' + ast.unparse(rest[4]))
    st = rest[5]
    if not (isinstance(st, ast.If) and not st.orelse and len(st.body) == 1 and is_src(st.test, f'{cbn} and z.start_time is not None')
            and isinstance(st.body[0], ast.AugAssign) and isinstance(st.body[0].op, ast.Add) and ast.unparse(st.body[0].target) == 'new_start'):
        raise Unsupported('incoherent_dedispersion: start time update ' + ast.unparse(st))
    inc = UEx(src, {cbn: V('inject_Z cb'), 'z.dt': V('dt', 1, {'s': 1})}).ev(st.body[0].value)
    out.append(f'Definition gen_inc_start (t0 : option Q) (cb : Z) (dt : Q) : option Q :=\n'
               f'  match t0 with None => None | Some t => Some (if (cb =? 0)%Z then t else t + {final(inc, {"s": 1}, "start increment")}) end.')
    last = rest[6]
    if not is_src(last, 'return type(z).like(z, x, start_time=new_start)'):
        raise Unsupported('incoherent_dedispersion: return ' + ast.unparse(last))
    return '\n'.join(out) + '\n'


if __name__ == '__main__':
    sys.stdout.write(generate(sys.argv[1] if len(sys.argv) > 1 else '/repo'))
