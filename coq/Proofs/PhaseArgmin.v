(* Proofs/PhaseArgmin.v -- C15: argmin / argmax / min / max of the model (approx = min of the rounded cycles; dt = (int - approx) +
   frac; first minimum of dt) select an element whose EXACT two-part value is within 2^-50 cycles of the exact minimum / maximum,
   for every non-empty list of finite normalised phases with counts up to 2^52 -- although approx itself is off by up to half a cycle. *)
From Coq Require Import ZArith Reals Psatz Floats Bool List Lia.
From Flocq Require Import Core BinarySingleNaN PrimFloat Relative.
From PB Require Import Proofs.TwoSumExact Model.Phase2 Model.PhaseOrd Proofs.Floor Proofs.DayFrac Proofs.DayFrac3 Proofs.DayFracTail Proofs.DayFracFold Proofs.PhaseMul
  Proofs.DivChain Proofs.PhaseDiv.
Import ListNotations.
Open Scope R_scope.

(* ---------- R level: a minimiser of perturbed values is a near-minimiser of the values ---------- *)
Definition ea : R := bpow radix2 (-51).
Definition eb : R := bpow radix2 (-53).
Lemma ea_val : ea = / 2251799813685248. Proof. unfold ea. simpl. lra. Qed.
Lemma eb_val : eb = / 9007199254740992. Proof. unfold eb. simpl. lra. Qed.

Lemma near_min_R (Dj Ds tj ts : R) :
  Rabs (tj - Dj) <= ea * Rabs Dj + eb -> Rabs (ts - Ds) <= ea * Rabs Ds + eb ->
  tj <= ts -> Ds <= Dj -> Rabs Ds <= / 2 -> Dj - Ds <= bpow radix2 (-50).
Proof.
  intros Hj Hs Hle Hmin HDs.
  assert (P50 : bpow radix2 (-50) = / 1125899906842624) by (simpl; lra). rewrite P50.
  rewrite ea_val, eb_val in *.
  assert (A1 : Dj - (/ 2251799813685248 * Rabs Dj + / 9007199254740992) <= tj) by (apply Rabs_le_inv in Hj; lra).
  assert (A2 : ts <= Ds + (/ 2251799813685248 * Rabs Ds + / 9007199254740992)) by (apply Rabs_le_inv in Hs; lra).
  assert (A3 : Rabs Ds <= / 2) by exact HDs.
  apply Rabs_le_inv in HDs.
  unfold Rabs in A1. destruct (Rcase_abs Dj) as [N|N].
  - (* Dj < 0: |Dj| <= 1/2 as Ds <= Dj *)
    unfold Rabs in A2, A3. destruct (Rcase_abs Ds); lra.
  - unfold Rabs in A2, A3. destruct (Rcase_abs Ds); nra.
Qed.

(* ---------- one element: dt = fl(fl(i - A) + f) is D = i + f - A up to ea*|D| + eb ---------- *)
Lemma dt_err (i f A : PrimFloat.float) : fin i -> fin f -> fin A ->
  Rabs (R_of i) <= bpow radix2 52 -> Rabs (R_of f) <= / 2 + bpow radix2 (-50) -> Rabs (R_of A) <= bpow radix2 53 ->
  let dt := PrimFloat.add (PrimFloat.sub i A) f in
  let D := R_of i + R_of f - R_of A in
  fin dt /\ Rabs (R_of dt - D) <= ea * Rabs D + eb.
Proof.
  intros Fi Ff FA Bi Bf BA dt D.
  assert (b52 : bpow radix2 52 <= bpow radix2 53) by (apply bpow_le; lia).
  assert (BI : bnd i 53) by (split; [exact Fi|lra]).
  assert (BAA : bnd A 53) by (split; [exact FA|exact BA]).
  assert (BF : bnd f 54).
  { split; [exact Ff|]. apply Rle_trans with (1:=Bf). apply Rle_trans with (bpow radix2 0); [simpl|apply bpow_le; lia].
    assert (bpow radix2 (-50) <= / 2) by (apply Rle_trans with (bpow radix2 (-1)); [apply bpow_le; lia|simpl; lra]). lra. }
  destruct (sub_b i A 53 ltac:(lia) ltac:(lia) BI BAA) as [Ex Bx]. set (x := PrimFloat.sub i A) in *.
  destruct (add_b x f 54 ltac:(lia) ltac:(lia) Bx BF) as [Ed Bd]. fold dt in Ed, Bd.
  split; [exact (proj1 Bd)|].
  pose proof (gen_err (R_of i - R_of A)) as G1. rewrite <- Ex in G1.
  pose proof (gen_err (R_of x + R_of f)) as G2. rewrite <- Ed in G2.
  assert (Peta : 0 <= eta <= bpow radix2 (-1000)) by (unfold eta; split; [apply bpow_ge_0|apply bpow_le; lia]).
  assert (P1000 : bpow radix2 (-1000) <= / 9007199254740992 * / 9007199254740992 * / 16).
  { apply Rle_trans with (bpow radix2 (-110)); [apply bpow_le; lia|]. simpl. lra. }
  assert (P50 : bpow radix2 (-50) = / 1125899906842624) by (simpl; lra). rewrite P50 in Bf.
  rewrite ea_val, eb_val. unfold u53 in G1, G2.
  set (X := R_of x) in *. set (I := R_of i) in *. set (Fv := R_of f) in *. set (Av := R_of A) in *. set (T := R_of dt) in *.
  assert (HD : D = I + Fv - Av) by reflexivity. clearbody D.
  (* |I - Av| <= |D| + |Fv| *)
  assert (T1 : Rabs (I - Av) <= Rabs D + Rabs Fv).
  { replace (I - Av) with (D + - Fv) by lra. apply Rle_trans with (1:=Rabs_triang _ _). rewrite Rabs_Ropp. lra. }
  assert (T2 : Rabs (X + Fv) <= Rabs D + Rabs (X - (I - Av))).
  { replace (X + Fv) with (D + (X - (I - Av))) by lra. apply Rabs_triang. }
  assert (T3 : Rabs (T - D) <= Rabs (T - (X + Fv)) + Rabs (X - (I - Av))).
  { replace (T - D) with ((T - (X + Fv)) + (X - (I - Av))) by lra. apply Rabs_triang. }
  pose proof (Rabs_pos D). pose proof (Rabs_pos Fv). pose proof (Rabs_pos (I - Av)). pose proof (Rabs_pos (X + Fv)).
  pose proof (Rabs_pos (X - (I - Av))). pose proof (Rabs_pos (T - (X + Fv))).
  nra.
Qed.

(* ---------- generic first-minimum search over finite doubles ---------- *)
Definition lt_f (a b : PrimFloat.float) : bool := PrimFloat.ltb a b.
Definition gt_f (a b : PrimFloat.float) : bool := PrimFloat.ltb b a.

Definition best_of (better : PrimFloat.float -> PrimFloat.float -> bool) (l : list PrimFloat.float) (best : PrimFloat.float) : PrimFloat.float :=
  fold_left (fun b x => if better x b then x else b) l best.

(* the index returned by the search designates the value the fold ends with *)
Lemma arg_first_val better d : forall l i best bi, (bi < i)%nat ->
  let j := arg_first better l i best bi in
  (j = bi /\ best_of better l best = best) \/ ((i <= j < i + length l)%nat /\ best_of better l best = nth (j - i) l d).
Proof.
  induction l as [|x r IH]; intros i best bi Hb; cbn [arg_first best_of fold_left length]; [left; split; reflexivity|].
  fold (best_of better r (if better x best then x else best)).
  destruct (better x best).
  - destruct (IH (S i) x i ltac:(lia)) as [[E1 E2]|[E1 E2]]; right.
    + rewrite E1, Nat.sub_diag. cbn [nth]. split; [lia|exact E2].
    + split; [lia|]. rewrite E2. replace (arg_first better r (S i) x i - i)%nat with (S (arg_first better r (S i) x i - S i)) by lia. reflexivity.
  - destruct (IH (S i) best bi ltac:(lia)) as [[E1 E2]|[E1 E2]]; [left; split; assumption|right].
    split; [lia|]. rewrite E2. replace (arg_first better r (S i) best bi - i)%nat with (S (arg_first better r (S i) best bi - S i)) by lia. reflexivity.
Qed.

Lemma best_of_lt : forall l best, fin best -> Forall fin l ->
  fin (best_of lt_f l best) /\ R_of (best_of lt_f l best) <= R_of best /\ forall y, In y l -> R_of (best_of lt_f l best) <= R_of y.
Proof.
  induction l as [|x r IH]; intros best Fb Fl; cbn [best_of fold_left].
  - split; [exact Fb|]. split; [lra|intros y []].
  - inversion Fl as [|? ? Fx Fr]; subst. fold (best_of lt_f r (if lt_f x best then x else best)).
    assert (E : lt_f x best = Rlt_bool (R_of x) (R_of best)) by (unfold lt_f; apply ltb_R; assumption). rewrite E. destruct (Rlt_bool_spec (R_of x) (R_of best)) as [L|L].
    + destruct (IH x Fx Fr) as (F & B & H). split; [exact F|]. split; [lra|]. intros y [<-|Hy]; [exact B|apply H; exact Hy].
    + destruct (IH best Fb Fr) as (F & B & H). split; [exact F|]. split; [exact B|]. intros y [<-|Hy]; [lra|apply H; exact Hy].
Qed.
Lemma best_of_gt : forall l best, fin best -> Forall fin l ->
  fin (best_of gt_f l best) /\ R_of best <= R_of (best_of gt_f l best) /\ forall y, In y l -> R_of y <= R_of (best_of gt_f l best).
Proof.
  induction l as [|x r IH]; intros best Fb Fl; cbn [best_of fold_left].
  - split; [exact Fb|]. split; [lra|intros y []].
  - inversion Fl as [|? ? Fx Fr]; subst. fold (best_of gt_f r (if gt_f x best then x else best)).
    assert (E : gt_f x best = Rlt_bool (R_of best) (R_of x)) by (unfold gt_f; apply ltb_R; assumption). rewrite E. destruct (Rlt_bool_spec (R_of best) (R_of x)) as [L|L].
    + destruct (IH x Fx Fr) as (F & B & H). split; [exact F|]. split; [lra|]. intros y [<-|Hy]; [exact B|apply H; exact Hy].
    + destruct (IH best Fb Fr) as (F & B & H). split; [exact F|]. split; [exact B|]. intros y [<-|Hy]; [lra|apply H; exact Hy].
Qed.

(* argmin_f / argmax_f of a non-empty list of finite doubles: a valid index of a minimal / maximal element *)
Lemma argmin_f_spec (x : PrimFloat.float) r d : Forall fin (x :: r) ->
  let j := argmin_f (x :: r) in (j < length (x :: r))%nat /\ fin (nth j (x :: r) d) /\ forall y, In y (x :: r) -> R_of (nth j (x :: r) d) <= R_of y.
Proof.
  intros Fl. inversion Fl as [|? ? Fx Fr]; subst. unfold argmin_f. change (fun a b => (a <? b)%float) with lt_f.
  destruct (best_of_lt r x Fx Fr) as (F & B & H).
  destruct (arg_first_val lt_f d r 1 x 0 ltac:(lia)) as [[E1 E2]|[E1 E2]]; cbv zeta.
  - rewrite E1. cbn [nth length]. rewrite E2 in *. split; [lia|]. split; [exact Fx|]. intros y [<-|Hy]; [lra|apply H; exact Hy].
  - set (j := arg_first lt_f r 1 x 0) in *. cbn [length]. split; [lia|].
    replace (nth j (x :: r) d) with (nth (j - 1) r d) by (destruct j; [lia|cbn [nth]; f_equal; lia]).
    rewrite <- E2. split; [exact F|]. intros y [<-|Hy]; [exact B|apply H; exact Hy].
Qed.
Lemma argmax_f_spec (x : PrimFloat.float) r d : Forall fin (x :: r) ->
  let j := argmax_f (x :: r) in (j < length (x :: r))%nat /\ fin (nth j (x :: r) d) /\ forall y, In y (x :: r) -> R_of y <= R_of (nth j (x :: r) d).
Proof.
  intros Fl. inversion Fl as [|? ? Fx Fr]; subst. unfold argmax_f. change (fun a b => (b <? a)%float) with gt_f.
  destruct (best_of_gt r x Fx Fr) as (F & B & H).
  destruct (arg_first_val gt_f d r 1 x 0 ltac:(lia)) as [[E1 E2]|[E1 E2]]; cbv zeta.
  - rewrite E1. cbn [nth length]. rewrite E2 in *. split; [lia|]. split; [exact Fx|]. intros y [<-|Hy]; [lra|apply H; exact Hy].
  - set (j := arg_first gt_f r 1 x 0) in *. cbn [length]. split; [lia|].
    replace (nth j (x :: r) d) with (nth (j - 1) r d) by (destruct j; [lia|cbn [nth]; f_equal; lia]).
    rewrite <- E2. split; [exact F|]. intros y [<-|Hy]; [exact B|apply H; exact Hy].
Qed.

(* ---------- the phases ---------- *)
Definition ok_ph (q : ph) : Prop :=
  fin (p_int q) /\ fin (p_frac q) /\ Rabs (R_of (p_int q)) <= bpow radix2 52 /\ Rabs (R_of (p_frac q)) <= / 2 + bpow radix2 (-50).
Definition V (q : ph) : R := R_of (p_int q) + R_of (p_frac q).

Lemma V_bound q : ok_ph q -> Rabs (V q) < bpow radix2 53.
Proof.
  intros (_ & _ & Bi & Bf). unfold V. apply Rle_lt_trans with (1:=Rabs_triang _ _).
  assert (bpow radix2 (-50) <= / 2) by (apply Rle_trans with (bpow radix2 (-1)); [apply bpow_le; lia|simpl; lra]).
  assert (bpow radix2 53 = 2 * bpow radix2 52) by (change 53%Z with (52 + 1)%Z; apply bpow_S).
  assert (2 <= bpow radix2 52) by (apply Rle_trans with (bpow radix2 1); [simpl; lra|apply bpow_le; lia]). lra.
Qed.
Lemma cycle_R q : ok_ph q -> R_of (cycle q) = rnd (V q) /\ fin (cycle q) /\ Rabs (R_of (cycle q)) <= bpow radix2 53.
Proof.
  intros H. pose proof (V_bound q H) as VB. destruct H as (Fi & Ff & Bi & Bf). unfold cycle.
  assert (B : Rabs (rnd (R_of (p_int q) + R_of (p_frac q))) <= bpow radix2 53) by (apply rnd_bound; [lia|apply Rlt_le; exact VB]).
  destruct (add_R (p_int q) (p_frac q) Fi Ff) as [E F]. { apply Rle_lt_trans with (1:=B). apply bpow_lt. lia. }
  split; [exact E|]. split; [exact F|]. rewrite E. exact B.
Qed.

Lemma best_of_in better : forall l best, best_of better l best = best \/ In (best_of better l best) l.
Proof.
  induction l as [|x r IH]; intros best; cbn [best_of fold_left]; [left; reflexivity|].
  fold (best_of better r (if better x best then x else best)).
  destruct (better x best).
  - destruct (IH x) as [E|I]; [right; left; symmetry; exact E|right; right; exact I].
  - destruct (IH best) as [E|I]; [left; exact E|right; right; exact I].
Qed.

Lemma exists_min (p : ph) : forall r, exists m, In m (p :: r) /\ forall y, In y (p :: r) -> V m <= V y.
Proof.
  induction r as [|x r IH].
  - exists p. split; [left; reflexivity|]. intros y [<-|[]]. lra.
  - destruct IH as (m & Hin & Hm). destruct (Rle_dec (V m) (V x)) as [L|L].
    + exists m. split; [destruct Hin as [<-|Hin]; [left; reflexivity|right; right; exact Hin]|].
      intros y [<-|[<-|Hy]]; [apply Hm; left; reflexivity|exact L|apply Hm; right; exact Hy].
    + exists x. split; [right; left; reflexivity|].
      intros y [<-|[<-|Hy]]; [assert (V m <= V p) by (apply Hm; left; reflexivity); lra|lra|assert (V m <= V y) by (apply Hm; right; exact Hy); lra].
Qed.
Lemma exists_max (p : ph) : forall r, exists m, In m (p :: r) /\ forall y, In y (p :: r) -> V y <= V m.
Proof.
  induction r as [|x r IH].
  - exists p. split; [left; reflexivity|]. intros y [<-|[]]. lra.
  - destruct IH as (m & Hin & Hm). destruct (Rle_dec (V x) (V m)) as [L|L].
    + exists m. split; [destruct Hin as [<-|Hin]; [left; reflexivity|right; right; exact Hin]|].
      intros y [<-|[<-|Hy]]; [apply Hm; left; reflexivity|exact L|apply Hm; right; exact Hy].
    + exists x. split; [right; left; reflexivity|].
      intros y [<-|[<-|Hy]]; [assert (V p <= V m) by (apply Hm; left; reflexivity); lra|lra|assert (V y <= V m) by (apply Hm; right; exact Hy); lra].
Qed.

Lemma rnd_le x y : x <= y -> rnd x <= rnd y.
Proof. intros H. apply round_le; [apply FLT_exp_valid; red; lia|apply valid_rnd_N|exact H]. Qed.

(* approx = the rounded cycle of a true minimum: within half a cycle of it *)
Lemma approx_min p r : Forall ok_ph (p :: r) ->
  let A := fmin_list (map cycle (p :: r)) (cycle p) in
  fin A /\ Rabs (R_of A) <= bpow radix2 53 /\
  exists m, In m (p :: r) /\ (forall y, In y (p :: r) -> V m <= V y) /\ Rabs (V m - R_of A) <= / 2.
Proof.
  intros Hok A. rewrite Forall_forall in Hok.
  assert (EAd : A = best_of lt_f (map cycle (p :: r)) (cycle p)) by reflexivity. clearbody A.
  assert (Fl : Forall fin (map cycle (p :: r))).
  { apply Forall_forall. intros c Hc. apply in_map_iff in Hc. destruct Hc as (q & <- & Hq). apply (cycle_R q (Hok q Hq)). }
  destruct (best_of_lt (map cycle (p :: r)) (cycle p) (proj1 (proj2 (cycle_R p (Hok p (or_introl eq_refl))))) Fl) as (FA & _ & HA).
  rewrite <- EAd in FA, HA.
  assert (HinA : exists q, In q (p :: r) /\ A = cycle q).
  { destruct (best_of_in lt_f (map cycle (p :: r)) (cycle p)) as [E|I]; rewrite <- EAd in *.
    - exists p. split; [left; reflexivity|exact E].
    - apply in_map_iff in I. destruct I as (q & E & Hq). exists q. split; [exact Hq|symmetry; exact E]. }
  destruct HinA as (qa & Hqa & EA).
  split; [exact FA|]. split; [rewrite EA; apply (cycle_R qa (Hok qa Hqa))|].
  destruct (exists_min p r) as (m & Hm & Hmin). exists m. split; [exact Hm|]. split; [exact Hmin|].
  assert (E : R_of A = rnd (V m)).
  { apply Rle_antisym.
    - rewrite <- (proj1 (cycle_R m (Hok m Hm))). apply HA. apply in_map. exact Hm.
    - rewrite EA, (proj1 (cycle_R qa (Hok qa Hqa))). apply rnd_le. apply Hmin. exact Hqa. }
  rewrite E. replace (V m - rnd (V m)) with (- (rnd (V m) - V m)) by ring. rewrite Rabs_Ropp.
  apply Rle_trans with (bpow radix2 (53 - 54)); [apply err_lt; [lia|apply V_bound; apply Hok; exact Hm]|simpl; lra].
Qed.
Lemma approx_max p r : Forall ok_ph (p :: r) ->
  let A := fmax_list (map cycle (p :: r)) (cycle p) in
  fin A /\ Rabs (R_of A) <= bpow radix2 53 /\
  exists m, In m (p :: r) /\ (forall y, In y (p :: r) -> V y <= V m) /\ Rabs (V m - R_of A) <= / 2.
Proof.
  intros Hok A. rewrite Forall_forall in Hok.
  assert (EAd : A = best_of gt_f (map cycle (p :: r)) (cycle p)) by reflexivity. clearbody A.
  assert (Fl : Forall fin (map cycle (p :: r))).
  { apply Forall_forall. intros c Hc. apply in_map_iff in Hc. destruct Hc as (q & <- & Hq). apply (cycle_R q (Hok q Hq)). }
  destruct (best_of_gt (map cycle (p :: r)) (cycle p) (proj1 (proj2 (cycle_R p (Hok p (or_introl eq_refl))))) Fl) as (FA & _ & HA).
  rewrite <- EAd in FA, HA.
  assert (HinA : exists q, In q (p :: r) /\ A = cycle q).
  { destruct (best_of_in gt_f (map cycle (p :: r)) (cycle p)) as [E|I]; rewrite <- EAd in *.
    - exists p. split; [left; reflexivity|exact E].
    - apply in_map_iff in I. destruct I as (q & E & Hq). exists q. split; [exact Hq|symmetry; exact E]. }
  destruct HinA as (qa & Hqa & EA).
  split; [exact FA|]. split; [rewrite EA; apply (cycle_R qa (Hok qa Hqa))|].
  destruct (exists_max p r) as (m & Hm & Hmax). exists m. split; [exact Hm|]. split; [exact Hmax|].
  assert (E : R_of A = rnd (V m)).
  { apply Rle_antisym.
    - rewrite EA, (proj1 (cycle_R qa (Hok qa Hqa))). apply rnd_le. apply Hmax. exact Hqa.
    - rewrite <- (proj1 (cycle_R m (Hok m Hm))). apply HA. apply in_map. exact Hm. }
  rewrite E. replace (V m - rnd (V m)) with (- (rnd (V m) - V m)) by ring. rewrite Rabs_Ropp.
  apply Rle_trans with (bpow radix2 (53 - 54)); [apply err_lt; [lia|apply V_bound; apply Hok; exact Hm]|simpl; lra].
Qed.

Definition dflt : ph := {| p_int := nan; p_frac := nan; p_imag := false |}.

Theorem argmin_near p r : Forall ok_ph (p :: r) ->
  let l := p :: r in let j := argmin l in
  (j < length l)%nat /\ In (nth j l dflt) l /\ forall y, In y l -> V (nth j l dflt) <= V y + bpow radix2 (-50).
Proof.
  intros Hok l j. destruct (approx_min p r Hok) as (FA & BA & m & Hm & Hmin & HDm). set (A := fmin_list (map cycle (p :: r)) (cycle p)) in *.
  pose proof Hok as Hok'. rewrite Forall_forall in Hok'.
  set (g := fun q : ph => PrimFloat.add (PrimFloat.sub (p_int q) A) (p_frac q)).
  assert (Ej : j = argmin_f (map g l)) by reflexivity.
  assert (HG : forall q, In q l -> fin (g q) /\ Rabs (R_of (g q) - (V q - R_of A)) <= ea * Rabs (V q - R_of A) + eb).
  { intros q Hq. destruct (Hok' q Hq) as (Fi & Ff & Bi & Bf). destruct (dt_err (p_int q) (p_frac q) A Fi Ff FA Bi Bf BA) as [F E].
    split; [exact F|]. unfold V. replace (R_of (p_int q) + R_of (p_frac q) - R_of A) with (R_of (p_int q) + R_of (p_frac q) - R_of A) by ring. exact E. }
  assert (Fl : Forall fin (map g l)).
  { apply Forall_forall. intros c Hc. apply in_map_iff in Hc. destruct Hc as (q & <- & Hq). apply HG. exact Hq. }
  change (map g l) with (g p :: map g r) in Fl, Ej.
  destruct (argmin_f_spec (g p) (map g r) (g dflt) Fl) as (Jl & _ & Jmin). rewrite <- Ej in Jl, Jmin.
  change (g p :: map g r) with (map g l) in Jl, Jmin. rewrite map_length in Jl. rewrite (map_nth g l dflt j) in Jmin.
  split; [exact Jl|]. assert (Hj : In (nth j l dflt) l) by (apply nth_In; exact Jl). split; [exact Hj|].
  intros y Hy. set (qj := nth j l dflt) in *.
  assert (T : V qj - R_of A - (V m - R_of A) <= bpow radix2 (-50)).
  { apply (near_min_R (V qj - R_of A) (V m - R_of A) (R_of (g qj)) (R_of (g m))).
    - apply HG. exact Hj.
    - apply HG. exact Hm.
    - apply Jmin. apply in_map. exact Hm.
    - assert (V m <= V qj) by (apply Hmin; exact Hj). lra.
    - exact HDm. }
  assert (V m <= V y) by (apply Hmin; exact Hy). lra.
Qed.

Lemma near_max_R (Dj Ds tj ts : R) :
  Rabs (tj - Dj) <= ea * Rabs Dj + eb -> Rabs (ts - Ds) <= ea * Rabs Ds + eb ->
  ts <= tj -> Dj <= Ds -> Rabs Ds <= / 2 -> Ds - Dj <= bpow radix2 (-50).
Proof.
  intros Hj Hs Hle Hmax HDs.
  replace (Ds - Dj) with (- Dj - - Ds) by ring.
  apply (near_min_R (- Dj) (- Ds) (- tj) (- ts)).
  - replace (- tj - - Dj) with (- (tj - Dj)) by ring. rewrite !Rabs_Ropp. exact Hj.
  - replace (- ts - - Ds) with (- (ts - Ds)) by ring. rewrite !Rabs_Ropp. exact Hs.
  - lra.
  - lra.
  - rewrite Rabs_Ropp. exact HDs.
Qed.

Theorem argmax_near p r : Forall ok_ph (p :: r) ->
  let l := p :: r in let j := argmax l in
  (j < length l)%nat /\ In (nth j l dflt) l /\ forall y, In y l -> V y <= V (nth j l dflt) + bpow radix2 (-50).
Proof.
  intros Hok l j. destruct (approx_max p r Hok) as (FA & BA & m & Hm & Hmax & HDm). set (A := fmax_list (map cycle (p :: r)) (cycle p)) in *.
  pose proof Hok as Hok'. rewrite Forall_forall in Hok'.
  set (g := fun q : ph => PrimFloat.add (PrimFloat.sub (p_int q) A) (p_frac q)).
  assert (Ej : j = argmax_f (map g l)) by reflexivity.
  assert (HG : forall q, In q l -> fin (g q) /\ Rabs (R_of (g q) - (V q - R_of A)) <= ea * Rabs (V q - R_of A) + eb).
  { intros q Hq. destruct (Hok' q Hq) as (Fi & Ff & Bi & Bf). destruct (dt_err (p_int q) (p_frac q) A Fi Ff FA Bi Bf BA) as [F E].
    split; [exact F|exact E]. }
  assert (Fl : Forall fin (map g l)).
  { apply Forall_forall. intros c Hc. apply in_map_iff in Hc. destruct Hc as (q & <- & Hq). apply HG. exact Hq. }
  change (map g l) with (g p :: map g r) in Fl, Ej.
  destruct (argmax_f_spec (g p) (map g r) (g dflt) Fl) as (Jl & _ & Jmax). rewrite <- Ej in Jl, Jmax.
  change (g p :: map g r) with (map g l) in Jl, Jmax. rewrite map_length in Jl. rewrite (map_nth g l dflt j) in Jmax.
  split; [exact Jl|]. assert (Hj : In (nth j l dflt) l) by (apply nth_In; exact Jl). split; [exact Hj|].
  intros y Hy. set (qj := nth j l dflt) in *.
  assert (T : V m - R_of A - (V qj - R_of A) <= bpow radix2 (-50)).
  { apply (near_max_R (V qj - R_of A) (V m - R_of A) (R_of (g qj)) (R_of (g m))).
    - apply HG. exact Hj.
    - apply HG. exact Hm.
    - apply Jmax. apply in_map. exact Hm.
    - assert (V qj <= V m) by (apply Hmax; exact Hj). lra.
    - exact HDm. }
  assert (V y <= V m) by (apply Hmax; exact Hy). lra.
Qed.

(* min / max return that element *)
Corollary pmin_near p r : Forall ok_ph (p :: r) ->
  In (pmin (p :: r)) (p :: r) /\ forall y, In y (p :: r) -> V (pmin (p :: r)) <= V y + bpow radix2 (-50).
Proof. intros H. destruct (argmin_near p r H) as (_ & I & M). split; [exact I|exact M]. Qed.
Corollary pmax_near p r : Forall ok_ph (p :: r) ->
  In (pmax (p :: r)) (p :: r) /\ forall y, In y (p :: r) -> V y <= V (pmax (p :: r)) + bpow radix2 (-50).
Proof. intros H. destruct (argmax_near p r H) as (_ & I & M). split; [exact I|exact M]. Qed.

(* consequence: when every other element exceeds the minimum by more than 2^-50, argmin is THE index of the minimum *)
Corollary argmin_exact p r k : Forall ok_ph (p :: r) -> (k < length (p :: r))%nat ->
  (forall i, (i < length (p :: r))%nat -> i <> k -> V (nth k (p :: r) dflt) + bpow radix2 (-50) < V (nth i (p :: r) dflt)) ->
  argmin (p :: r) = k.
Proof.
  intros H Hk Hsep. destruct (argmin_near p r H) as (Jl & _ & M). cbv zeta in *.
  destruct (Nat.eq_dec (argmin (p :: r)) k) as [E|N]; [exact E|exfalso].
  specialize (Hsep _ Jl N). specialize (M (nth k (p :: r) dflt) (nth_In _ _ Hk)). lra.
Qed.
Corollary argmax_exact p r k : Forall ok_ph (p :: r) -> (k < length (p :: r))%nat ->
  (forall i, (i < length (p :: r))%nat -> i <> k -> V (nth i (p :: r) dflt) + bpow radix2 (-50) < V (nth k (p :: r) dflt)) ->
  argmax (p :: r) = k.
Proof.
  intros H Hk Hsep. destruct (argmax_near p r H) as (Jl & _ & M). cbv zeta in *.
  destruct (Nat.eq_dec (argmax (p :: r)) k) as [E|N]; [exact E|exfalso].
  specialize (Hsep _ Jl N). specialize (M (nth k (p :: r) dflt) (nth_In _ _ Hk)). lra.
Qed.

(* non-vacuity: two phases at count 2^52 - 1 that differ by 2^-40 cycles only in the fraction -- their rounded cycles coincide *)
Example argmin_example :
  let a := {| p_int := 4503599627370495; p_frac := 0.25; p_imag := false |} in
  let b := {| p_int := 4503599627370495; p_frac := 0x1.fffffffff8p-3; p_imag := false |} in
  (PrimFloat.eqb (cycle a) (cycle b) = true) /\ argmin [a; b; a] = 1%nat /\ argmax [b; a; b] = 1%nat.
Proof. vm_compute. repeat split. Qed.
