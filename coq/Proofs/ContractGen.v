(* Proofs/ContractGen.v -- C16: the validation statements the constructor model of Model/Contract.v transcribes are the ones in core.py now
   (Gen/GenContract.v: syntax trees re-read on every run by T16, raise messages ignored). *)
From PB Require Import Gen.GenContract.
Lemma contract_statements_generated :
  gen_Signal_init_as_modelled = true /\ gen_Signal_sample_rate_setter_as_modelled = true /\
  gen_Signal_start_time_setter_as_modelled = true /\ gen_Signal_meta_setter_as_modelled = true /\
  gen_RadioSignal_center_freq_setter_as_modelled = true /\ gen_RadioSignal_chan_bw_setter_as_modelled = true /\
  gen_RadioSignal_freq_align_setter_as_modelled = true /\ gen_DualPolarizationSignal_pol_type_setter_as_modelled = true.
Proof. repeat split; reflexivity. Qed.
