(* Props/C06.v -- dispersion delays obey the f^-2 law; incoherent dedispersion realigns by them. *)
From Coq Require Import ZArith QArith Qround List Bool.
From PB Require Import Gen.GenConsts Model.Ledger Model.Band Model.Disp Proofs.LedgerProofs Proofs.DispProofs Lib.PySlice Gen.GenDisp Proofs.DispGen.
Open Scope Q_scope.

Theorem C06_constant : Kdisp == 1000000 # 241.     (* 1/2.41e-4, from the GENERATED literal *)
Proof. exact Kdisp_value. Qed.
Theorem C06_law : forall dm f fr, ~ f == 0 -> ~ fr == 0 ->
  time_delay dm f fr == Kdisp * dm * (1000000000000 / (f * f) - 1000000000000 / (fr * fr)).
Proof. exact delay_law. Qed.
Theorem C06_antisym : forall dm f g, ~ f == 0 -> ~ g == 0 -> time_delay dm f g == - time_delay dm g f.
Proof. exact delay_antisym. Qed.
Theorem C06_chain : forall dm a b c, ~ a == 0 -> ~ b == 0 -> ~ c == 0 ->
  time_delay dm a b + time_delay dm b c == time_delay dm a c.
Proof. exact delay_chain. Qed.
Theorem C06_sample : forall dm f fr r, sample_delay dm f fr r == time_delay dm f fr * r.
Proof. exact sample_delay_def. Qed.
Theorem C06_round_nearest : forall q, inject_Z (round_half_even q) - (1 # 2) <= q <= inject_Z (round_half_even q) + (1 # 2).
Proof. exact rhe_bounds. Qed.

(* every returned sample (k, i) has its source k + d'_i inside the input and sits, in absolute time, d_i/rate
   before that source: out[T, i] = in[T + d_i/rate, i] *)
Theorem C06_realign : forall l ds l' cb ds',
  (0 <= len l)%Z -> (0 < rate l) -> ends_min ds ->
  incoherent l ds = IOk l' cb ds' ->
  (0 <= cb)%Z /\ ds' = map (fun d => (d + cb)%Z) ds /\ rate l' = rate l /\ (0 <= len l')%Z /\
  (t0 l' = None <-> t0 l = None) /\
  (forall d', In d' ds' -> (0 <= d')%Z /\ forall k, (0 <= k < len l')%Z -> (0 <= k + d' < len l)%Z) /\
  (forall d k, In d ds -> opt_Qeq (match time_of l' k with Some t => Some (t + inject_Z d / rate l) | None => None end)
                                  (time_of l (k + (d + cb)))).
Proof. exact incoherent_sound. Qed.

(* the premise ends_min holds for the delays of every band with positive labels, for either sign of DM *)
Theorem C06_band_delays : forall b dm fr rate, 0 < bw b -> 0 < rate -> 0 < label b 0 ->
  ends_min (chan_delays b dm fr rate).
Proof. exact chan_delays_ends_min. Qed.


(* tie to the source by translation (T5, with its unit algebra): the delay in seconds and in samples and the integer bookkeeping of
   incoherent_dedispersion (crop_before from the two end delays, the shifted delays, the output length, the new start time) are the
   terms GENERATED from dedispersion.py on this run *)
Theorem C06_generated_delay : forall dm f fr rate,
  time_delay dm f fr == gen_time_delay dm f fr /\ sample_delay dm f fr rate == gen_sample_delay dm f fr rate.
Proof. exact (fun dm f fr rate => conj (time_delay_generated dm f fr) (sample_delay_generated dm f fr rate)). Qed.
Theorem C06_generated_incoherent : forall (l : ledger) (ds : list Z),
  incoherent l ds =
  match ds with
  | nil => IErr 1
  | d0 :: _ =>
    let cb := gen_inc_crop_before d0 (last ds d0) in
    let ds' := map (gen_inc_shift cb) ds in
    let N := gen_inc_N (len l) (zmax_list (d0 + cb) ds') in
    let lens := map (fun j => match slice_indices (Some j) (Some (j + N)%Z) None (len l) with
                              | Some (lo, hi, st) => range_len lo hi st | None => 0%Z end) ds' in
    match lens with
    | nil => IErr 1
    | n0 :: _ =>
      if forallb (fun n => (n =? n0)%Z) lens then
        IOk {| t0 := gen_inc_start (t0 l) cb (1 / rate l); rate := rate l; len := n0 |} cb ds'
      else IErr 1
    end
  end.
Proof. exact incoherent_generated. Qed.

Print Assumptions C06_constant.
Print Assumptions C06_chain.
Print Assumptions C06_realign.
Print Assumptions C06_band_delays.
Print Assumptions C06_generated_incoherent.
Print Assumptions C06_generated_delay.
