(* Proofs/StftGen.v -- C20: the bookkeeping of Model/Stft IS that translated from contrib.stft / contrib.istft (Gen/GenStft.v, regenerated on
   every run by T9): samples kept, output lengths, sample rates, the alignment rule, and the two scalings by nperseg. *)
From Coq Require Import ZArith QArith Bool String Lia.
From PB Require Import Lib.PySlice Gen.GenConsts Model.Band Model.Stft Gen.GenStft.
Open Scope Z_scope.

Theorem stft_len_generated len P : stft_len len P = gen_stft_keep len P / P.
Proof. reflexivity. Qed.
Theorem istft_len_generated len P : istft_len len P = len * gen_istft_cols P.
Proof. reflexivity. Qed.

(* alignment: "center" for an odd number of sub-bands, "bottom" otherwise; "center" after the inverse *)
Theorem stft_align_generated P : align_name (if Z.odd P then 1 else 0) = gen_stft_align P.
Proof. unfold gen_stft_align. rewrite Zmod_odd. destruct (Z.odd P); reflexivity. Qed.
Theorem istft_align_generated : align_name 1 = gen_istft_align.
Proof. reflexivity. Qed.

Theorem stft_band_generated (b : band) (P : Z) :
  stft_band b P = match freq_slice b None None None with
                  | BOk b1 _ => Some (mk_band (cf b1) (gen_stft_rate (bw b) P) (nchan b * P) (if Z.odd P then 1 else 0))
                  | BErr _ => None end.
Proof. reflexivity. Qed.
Theorem istft_band_generated (b : band) (P : Z) : istft_band b P = mk_band (cf b) (gen_istft_rate (bw b) P) (nchan b / P) 1.
Proof. reflexivity. Qed.

(* the forward transform divides by nperseg, the inverse multiplies by it *)
Theorem scales_generated P : P <> 0 -> (gen_stft_scale P == 1 / inject_Z P)%Q /\ (gen_istft_scale P == inject_Z P)%Q /\
  (gen_stft_scale P * gen_istft_scale P == 1)%Q.
Proof.
  intros HP. unfold gen_stft_scale, gen_istft_scale. repeat split; try reflexivity.
  field. intros H. apply HP. unfold inject_Z, Qeq in H. simpl in H. lia.
Qed.
