(* Lib/PySlice.v -- CPython slice normalisation (slice.indices / PySlice_AdjustIndices) for positive
   steps, and the arithmetic of the index range it denotes.  Modelled, not verified: validated against
   CPython by the correspondence runs of C01/C02/C10/C12. *)
From Coq Require Import ZArith Lia Bool.
Open Scope Z_scope.

Definition clip (len : Z) (v : option Z) (dflt : Z) : Z :=
  match v with
  | None => dflt
  | Some i => if i <? 0 then (if i + len <? 0 then 0 else i + len)
              else (if len <? i then len else i)
  end.

(* None: step = 0 (ValueError) or step < 0 (the AssertionError of _time_slice) *)
Definition slice_indices (start stop step : option Z) (len : Z) : option (Z * Z * Z) :=
  let st := match step with None => 1 | Some s => s end in
  if st <=? 0 then None
  else Some (clip len start 0, clip len stop len, st).

Definition range_len (lo hi st : Z) : Z := if lo <? hi then (hi - lo - 1) / st + 1 else 0.

Lemma clip_range len v d : 0 <= len -> 0 <= d <= len -> 0 <= clip len v d <= len.
Proof. intros Hl Hd. unfold clip. destruct v as [i|]; [|lia].
  destruct (i <? 0) eqn:E1; [destruct (i + len <? 0) eqn:E2|destruct (len <? i) eqn:E2]; lia. Qed.

Lemma range_len_nonneg lo hi st : 0 < st -> 0 <= range_len lo hi st.
Proof. intros. unfold range_len. destruct (lo <? hi) eqn:E; [|lia].
  apply Z.ltb_lt in E. assert (0 <= (hi - lo - 1) / st) by (apply Z.div_pos; lia). lia. Qed.

Lemma range_len_index lo hi st k : 0 < st -> 0 <= k < range_len lo hi st -> lo <= lo + k * st < hi.
Proof. intros Hs [Hk0 Hk]. unfold range_len in Hk. destruct (lo <? hi) eqn:E; [|lia].
  apply Z.ltb_lt in E. assert (k <= (hi - lo - 1) / st) by lia.
  assert (k * st <= (hi - lo - 1) / st * st) by nia.
  pose proof (Z.mul_div_le (hi - lo - 1) st Hs). nia. Qed.

Lemma range_len_maximal lo hi st k : 0 < st -> 0 <= k -> lo + k * st < hi -> k < range_len lo hi st.
Proof. intros Hs Hk H. unfold range_len. destruct (lo <? hi) eqn:E.
  - assert (k * st <= hi - lo - 1) by lia. assert (k <= (hi - lo - 1) / st) by (apply Z.div_le_lower_bound; lia). lia.
  - apply Z.ltb_ge in E. nia. Qed.

Lemma range_len_step1 lo hi : range_len lo hi 1 = Z.max 0 (hi - lo).
Proof. unfold range_len. destruct (lo <? hi) eqn:E; [apply Z.ltb_lt in E|apply Z.ltb_ge in E].
  - rewrite Z.div_1_r. lia. - lia. Qed.

Lemma range_len_le lo hi st : 0 < st -> range_len lo hi st <= Z.max 0 (hi - lo).
Proof. intros Hs. unfold range_len. destruct (lo <? hi) eqn:E; [apply Z.ltb_lt in E|lia].
  assert ((hi - lo - 1) / st <= hi - lo - 1) by (apply Z.div_le_upper_bound; nia). lia. Qed.
