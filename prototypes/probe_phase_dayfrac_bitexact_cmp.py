import warnings; warnings.filterwarnings("ignore")
import numpy as np, random, math, subprocess, re
from pulsarbat.pulsar.phase import day_frac
rnd = random.Random(7)
def me(x):
    if x == 0: return (0, 0)
    m, e = math.frexp(x); m = int(m * 2**53); e -= 53
    while m % 2 == 0: m //= 2; e += 1
    return (m, e)
def canon(t):
    m, e = t
    if m == 0: return (0, 0)
    while m % 2 == 0: m //= 2; e += 1
    return (m, e)
cases = []
specials = [0.0, 0.5, -0.5, 1.5, 2.5, -1.5, 0.49999999999999994, 0.5000000000000001, 2.0**52, 2.0**52-0.5, 2.0**51+0.5, -2.0**52, 1e-300, -1e-300, 5e-324, 2.0**53, 123456789.25, 0.25, 0.75, 1-2**-53]
for a in specials:
    for b in specials: cases.append((a, b))
for _ in range(1200):
    k = rnd.choice(['int+frac','any','tie','small'])
    if k == 'int+frac': a = float(rnd.randint(-2**52, 2**52)); b = rnd.uniform(-1, 1)
    elif k == 'any': a = rnd.uniform(-1,1)*2.0**rnd.randint(-60, 52); b = rnd.uniform(-1,1)*2.0**rnd.randint(-60, 52)
    elif k == 'tie': a = float(rnd.randint(-2**40, 2**40)); b = rnd.choice([0.5,-0.5]) + rnd.choice([0, 2**-54, -2**-54, 2**-53, -2**-53, 2**-60])
    else: a = rnd.uniform(-3,3); b = rnd.uniform(-1e-16, 1e-16)
    cases.append((a, b))
with open('/tmp/scratch/ph/Cases.v','w') as f:
    f.write("Require Import Phase2.\nFrom Coq Require Import ZArith List. Import ListNotations. Open Scope Z_scope.\n")
    f.write("Definition cases : list ((Z*Z)*(Z*Z)) := [\n" + ";\n".join(f"(({me(a)[0]},{me(a)[1]}),({me(b)[0]},{me(b)[1]}))" for a,b in cases) + "].\n")
    f.write("Eval vm_compute in (map (run2 day_frac) cases).\n")
out = subprocess.run(['coqc','Cases.v'], cwd='/tmp/scratch/ph', capture_output=True, text=True)
txt = out.stdout.replace('\n',' ').replace(' ','')
tuples = re.findall(r'\((-?\d+),(-?\d+),\((-?\d+),(-?\d+)\)\)', txt.split(':list')[0])
print('coq results', len(tuples), 'cases', len(cases), out.stderr[:300], txt[:200])
bad = 0
for (a,b), t in zip(cases, tuples):
    d, fr = day_frac(np.float64(a), np.float64(b))
    got = (canon((int(t[0]), int(t[1]))), canon((int(t[2]), int(t[3]))))
    exp = (me(float(d)), me(float(fr)))
    if got != exp:
        bad += 1
        if bad < 6: print('MISMATCH', a, b, got, exp)
print('mismatches', bad)
