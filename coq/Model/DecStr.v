(* Model/DecStr.v -- decimal input / output of Phase (C15): _parse_string / from_string and to_string.do_format,
   statement by statement, on Coq strings and bit-exact binary64 (kernel floats).  The two conversions CPython supplies are
   modelled by exact-arithmetic functions: float(str) = correctly rounded decimal -> binary64 ([float_of_Q]); repr(float) =
   shortest decimal that round-trips ([repr_digits]); '{:1.Nf}'.format = exact value rounded half-even to N decimals.
   No proofs in this file. *)
From Coq Require Import ZArith QArith Qround Bool String Ascii List PrimFloat Uint63 SpecFloat FloatOps.
From PB Require Import Model.Phase2.
Import ListNotations.
Open Scope Z_scope.

(* ---------------- exact rational <-> binary64 ---------------- *)
(* correctly rounded (nearest, ties to even) n/d > 0 as m * 2^e, 0 <= m <= 2^53, e >= -1074 *)
Definition round_pos (n d : Z) : Z * Z :=
  let e0 := Z.log2 n - Z.log2 d - 53 in
  let scaled e := if e <? 0 then (n * 2 ^ (- e), d) else (n, d * 2 ^ e) in
  let '(nn, dd) := scaled e0 in
  let e := if 2 ^ 53 <=? nn / dd then e0 + 1 else e0 in
  let e := Z.max e (-1074) in
  let '(nn, dd) := scaled e in
  let m := nn / dd in let r := nn mod dd in
  let m := if (dd <? 2 * r) || ((dd =? 2 * r) && Z.odd m) then m + 1 else m in
  (m, e).
Definition float_of_me (neg : bool) (m e : Z) : float :=
  let a := ldshiftexp (of_uint63 (Uint63.of_Z m)) (Uint63.of_Z (e + 2101)) in if neg then (- a)%float else a.
Definition float_of_Q (q : Q) : float :=
  match Qnum q with
  | Z0 => 0%float
  | Zpos p => let '(m, e) := round_pos (Zpos p) (Zpos (Qden q)) in float_of_me false m e
  | Zneg p => let '(m, e) := round_pos (Zpos p) (Zpos (Qden q)) in float_of_me true m e
  end.
(* exact value of a finite double *)
Definition Q_of_float (x : float) : Q :=
  match Prim2SF x with
  | S754_finite s m e =>
    let v := if 0 <=? e then inject_Z (Zpos m * 2 ^ e) else Qmake (Zpos m) (Z.to_pos (2 ^ (- e))) in
    if s then Qopp v else v
  | _ => 0%Q
  end.
Definition Z_of_float (x : float) : Z := Qfloor (Q_of_float x).     (* int(x) for integral x *)

(* ---------------- strings ---------------- *)
Definition digit_of (c : ascii) : option Z :=
  let n := Z.of_nat (nat_of_ascii c) in if (48 <=? n) && (n <=? 57) then Some (n - 48) else None.
Fixpoint digits_val_acc (s : string) (acc : Z) : option Z :=
  match s with
  | EmptyString => Some acc
  | String c r => match digit_of c with Some d => digits_val_acc r (acc * 10 + d) | None => None end
  end.
Definition digits_val (s : string) : option Z := digits_val_acc s 0.     (* "" -> 0 *)
Definition slen (s : string) : Z := Z.of_nat (String.length s).
Fixpoint partition (sep : ascii) (s : string) : string * bool * string :=     (* str.partition *)
  match s with
  | EmptyString => (EmptyString, false, EmptyString)
  | String c r => if Ascii.eqb c sep then (EmptyString, true, r)
                  else let '(a, f, b) := partition sep r in (String c a, f, b)
  end.
Definition lower_d2e (c : ascii) : ascii :=
  let n := nat_of_ascii c in
  let c' := if (Nat.leb 65 n && Nat.leb n 90)%bool then ascii_of_nat (n + 32) else c in
  if Ascii.eqb c' "d"%char then "e"%char else c'.
Fixpoint smap (f : ascii -> ascii) (s : string) : string :=
  match s with EmptyString => EmptyString | String c r => String (f c) (smap f r) end.
Fixpoint srev_acc (s acc : string) : string := match s with EmptyString => acc | String c r => srev_acc r (String c acc) end.
Definition srev (s : string) : string := srev_acc s EmptyString.
Definition is_space (c : ascii) : bool := let n := nat_of_ascii c in Nat.eqb n 32 || (Nat.leb 9 n && Nat.leb n 13).
Fixpoint lstrip (s : string) : string := match s with String c r => if is_space c then lstrip r else s | _ => s end.
Definition strip (s : string) : string := srev (lstrip (srev (lstrip s))).
Fixpoint takeN (n : nat) (s : string) : string :=
  match n, s with S k, String c r => String c (takeN k r) | _, _ => EmptyString end.
Fixpoint dropN (n : nat) (s : string) : string :=
  match n, s with S k, String c r => dropN k r | _, _ => s end.
Definition take (n : Z) (s : string) : string := takeN (Z.to_nat n) s.      (* s[:n], n >= 0 *)
Definition drop (n : Z) (s : string) : string := dropN (Z.to_nat n) s.      (* s[n:], n >= 0 *)
(* int(s_exp): optional sign, digits *)
Definition int_of_string (s : string) : option Z :=
  match s with
  | String "+"%char r => match r with EmptyString => None | _ => digits_val r end
  | String "-"%char r => match r with EmptyString => None | _ => option_map Z.opp (digits_val r) end
  | EmptyString => None
  | _ => digits_val s
  end.

(* the rational denoted by  digits* [. digits*] [e [+-] digits+]  (at least one digit in the mantissa); None = float() raises *)
Definition decimal_value (s : string) : option Q :=
  let '(mant, has_e, sexp) := partition "e"%char s in
  let '(ip, has_dot, fp) := partition "."%char mant in
  if (slen ip + slen fp =? 0) then None else
  match digits_val ip, digits_val fp, (if has_e then int_of_string sexp else Some 0) with
  | Some a, Some b, Some e =>
    let m := Qmake (a * 10 ^ slen fp + b) (Z.to_pos (10 ^ slen fp)) in
    Some (if 0 <=? e then Qmult m (inject_Z (10 ^ e)) else Qdiv m (inject_Z (10 ^ (- e))))
  | _, _, _ => None
  end.
Definition py_float (s : string) : option float := option_map float_of_Q (decimal_value s).
(* 10 ** exponent as the double it becomes when multiplied into a float (int -> float conversion / libm pow) *)
Definition pow10_float (e : Z) : float :=
  if 0 <=? e then float_of_Q (inject_Z (10 ^ e)) else float_of_Q (Qmake 1 (Z.to_pos (10 ^ (- e)))).


(* the digit shuffling of _parse_string: move up to |exponent| digits across the decimal point *)
Definition shuffle (s_count s_frac : string) (exponent : Z) : string * string * option Z :=
  if exponent <? 0 then
    let n := Z.min (slen s_count) (- exponent) in
    (take (slen s_count - n) s_count, append (drop (slen s_count - n) s_count) s_frac, Some (exponent + n))
  else if 0 <? exponent then
    let n := Z.min (slen s_frac) exponent in
    (append s_count (take n s_frac), drop n s_frac, Some (exponent - n))
  else (s_count, s_frac, Some 0).

(* _parse_string(s) -> (count, frac) as the values handed to Phase(count, frac); None = an exception *)
Definition cmul_f (x : float) (neg imag : bool) (p10 : option float) : float :=   (* x * factor for a real factor (+-1)[*10^e] *)
  let x := if neg then (x * (-1))%float else x in
  match p10 with None => x | Some p => (x * p)%float end.

Definition parse_string (s0 : string) : option (float * float * bool) :=     (* count, frac (real coefficients), imaginary *)
  let s := smap lower_d2e (strip s0) in
  match srev s with
  | EmptyString => None
  | String last _ =>
    let imag := Ascii.eqb last "j"%char in
    let s := if imag then take (slen s - 1) s else s in
    match s with
    | EmptyString => None
    | String c0 r0 =>
      let neg := Ascii.eqb c0 "-"%char in
      let s := if Ascii.eqb c0 "+"%char || neg then r0 else s in
      match py_float s with
      | None => None                                                  (* float(s) raises ValueError *)
      | Some test =>
        let '(s_float, has_e, s_exp) := partition "e"%char s in
        let '(s_count, _, s_frac) := partition "."%char s_float in
        let r := if has_e then match int_of_string s_exp with None => None | Some e => Some (shuffle s_count s_frac e) end
                 else Some (s_count, s_frac, None) in
        match r with
        | None => None
        | Some (s_count, s_frac, ex) =>
          match py_float (append "0." s_frac), py_float (append "0" s_count) with
          | Some ff, Some cf =>
            let p10 := option_map pow10_float ex in
            (* factor = (+-1 or +-1j) * 10**exponent ; imaginary: the real coefficient is what check_imaginary extracts *)
            let fac (x : float) := match ex with
                                   | None => if neg then (x * (-1))%float else x
                                   | Some e => (x * (if neg then (- (pow10_float e))%float else pow10_float e))%float
                                   end in
            Some (fac cf, fac ff, imag)
          | _, _ => None
          end
        end
      end
    end
  end.


(* the same function in exact arithmetic (no rounding): count and fraction as rationals *)
Definition pow10Q (e : Z) : Q := if 0 <=? e then inject_Z (10 ^ e) else (1 / inject_Z (10 ^ (- e)))%Q.
Definition frac_val (s : string) : option Q := option_map (fun v => (inject_Z v / inject_Z (10 ^ slen s))%Q) (digits_val s).
Definition parse_exact_core (s_count s_frac : string) (ex : option Z) : option (Q * Q) :=
  let '(sc, sf, e) := match ex with None => (s_count, s_frac, None) | Some e => shuffle s_count s_frac e end in
  match digits_val sc, frac_val sf with
  | Some c, Some f => let p := match e with None => 1%Q | Some e => pow10Q e end in
                      Some (Qmult (inject_Z c) p, Qmult f p)
  | _, _ => None
  end.

(* from_string = Phase(count, frac) *)
Definition from_string (s : string) : res :=
  match parse_string s with
  | None => RErr
  | Some (c, f, imag) =>
    (* from_string hands over the real parts when no imaginary part is non-zero *)
    if imag && negb (is0 c && is0 f) then op_construct (NCplx 0 c) (Some (NCplx 0 f))
    else if imag then op_construct (NReal 0) (Some (NReal 0))
    else op_construct (NReal c) (Some (NReal f))
  end.

(* ---------------- output ---------------- *)
Fixpoint digits_of_pos_fuel (fuel : nat) (n : Z) (acc : string) : string :=
  match fuel with
  | O => acc
  | S k => let acc' := String (ascii_of_nat (Z.to_nat (48 + n mod 10))) acc in
           if n / 10 =? 0 then acc' else digits_of_pos_fuel k (n / 10) acc'
  end.
Definition str_of_Z (n : Z) : string :=
  if n <? 0 then String "-"%char (digits_of_pos_fuel 400 (- n) EmptyString) else digits_of_pos_fuel 400 n EmptyString.
Fixpoint zeros (k : nat) : string := match k with O => EmptyString | S k' => String "0"%char (zeros k') end.
Definition pad_left (k : nat) (s : string) : string := append (zeros (k - String.length s)) s.

Definition round_half_even_Q (q : Q) : Z :=
  let f := Qfloor q in
  match Qcompare (q - inject_Z f) (1 # 2) with
  | Lt => f | Gt => f + 1 | Eq => if Z.even f then f else f + 1 end.

(* '{0:1.Nf}'.format(x) for x >= 0 *)
Definition fixed_format (N : nat) (x : float) : string :=
  let q := round_half_even_Q (Qmult (Q_of_float x) (inject_Z (10 ^ Z.of_nat N))) in
  let ip := q / 10 ^ Z.of_nat N in let fp := q mod 10 ^ Z.of_nat N in
  match N with
  | O => str_of_Z ip
  | _ => append (str_of_Z ip) (String "."%char (pad_left N (str_of_Z fp)))
  end.
(* repr(x) for 1e-4 <= x < 1e16 with x < 10: the shortest k-decimal string that round-trips (k = 1 .. 17) *)
Fixpoint repr_search (fuel : nat) (k : nat) (x : float) : string :=
  match fuel with
  | O => fixed_format 17 x
  | S fuel' =>
    let q := round_half_even_Q (Qmult (Q_of_float x) (inject_Z (10 ^ Z.of_nat k))) in
    if (float_of_Q (Qmake q (Z.to_pos (10 ^ Z.of_nat k))) =? x)%float then fixed_format k x
    else repr_search fuel' (S k) x
  end.
Definition py_repr (x : float) : string := repr_search 20 1 x.

Definition sget (s : string) (i : nat) : ascii := match String.get i s with Some c => c | None => " "%char end.
Definition two_digits (s : string) : Z :=       (* int(frac_str[2:4]) *)
  match digits_val (String.substring 2 2 s) with Some v => v | None => -1 end.

(* do_format(count, frac) of to_string, decimal branch.  precision = None: func = str *)
Definition do_format (precision : option nat) (alwayssign imaginary : bool) (count frac : float) : string :=
  let func := match precision with None => py_repr | Some p => fixed_format p end in
  let neg := ((count + frac) <? 0)%float in
  let count := if neg then (- count)%float else count in
  let frac := if neg then (- frac)%float else frac in
  let sign := if neg then "-"%string else if alwayssign then "+"%string else ""%string in
  let adj := (frac <? 0)%float in
  let frac := if adj then (frac + 1)%float else frac in
  let count := if adj then (count - 1)%float else count in
  let small := (frac <? 0.25)%float && (match precision with None => true | Some p => Nat.leb 2 p end) in
  let '(count, frac_str) :=
    if small then
      let fs := func (frac + 0.25)%float in
      let f24 := two_digits fs in
      let len := String.length fs in
      let mid :=
        if (match precision with None => true | _ => false end) &&
           (Nat.eqb len 3 || (Nat.eqb len 4 && Ascii.eqb (sget fs 3) "5"%char))
        then (if Nat.eqb len 3 then pad_left 2 (str_of_Z (f24 * 10 - 25)) else str_of_Z ((f24 - 5) / 10 - 2))
        else pad_left 2 (str_of_Z (f24 - 25)) in
      (count, append (String.substring 0 2 fs) (append mid (String.substring 4 (len - 4) fs)))
    else
      let fs := func (abs frac) in
      ((if Ascii.eqb (sget fs 0) "1"%char then (count + 1)%float else count), fs) in
  let s := append sign (append (str_of_Z (Z_of_float count)) (String.substring 1 (String.length frac_str - 1) frac_str)) in
  if imaginary then append s "j" else s.
Definition to_string (precision : option nat) (alwayssign : bool) (p : ph) : string :=
  do_format precision alwayssign (p_imag p) (p_int p) (p_frac p).

(* ---------------- exact-digit specification of the parser (what the property demands) ---------------- *)
(* the value a plain decimal string denotes, its sign and its trailing j: Some (value, imaginary) *)
Definition string_value (s0 : string) : option (Q * bool) :=
  let s := smap lower_d2e (strip s0) in
  match srev s with
  | EmptyString => None
  | String last _ =>
    let imag := Ascii.eqb last "j"%char in
    let s := if imag then take (slen s - 1) s else s in
    match s with
    | EmptyString => None
    | String c0 r0 =>
      let neg := Ascii.eqb c0 "-"%char in
      let s := if Ascii.eqb c0 "+"%char || neg then r0 else s in
      match decimal_value s with
      | Some v => Some ((if neg then Qopp v else v), imag)
      | None => None
      end
    end
  end.
Definition ph_value (p : ph) : Q := (Q_of_float (p_int p) + Q_of_float (p_frac p))%Q.
Definition string_eqb (a b : string) : bool := String.eqb a b.
