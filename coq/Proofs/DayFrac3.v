(* probe: soundness of the bit-exact day_frac model (C07 core), part 2: real analysis of the rounded equations *)
From Coq Require Import ZArith Reals Psatz Floats.
From Flocq Require Import Core BinarySingleNaN PrimFloat.
From PB Require Import Proofs.TwoSumExact Model.Phase2 Proofs.Floor Proofs.DayFrac.
Open Scope R_scope.

Notation fexp := (FLT_exp (-1074) 53).
Notation rnd := (round radix2 fexp ZnearestE).

Lemma err_lt x p : (-1020 <= p)%Z -> Rabs x < bpow radix2 p -> Rabs (rnd x - x) <= bpow radix2 (p - 54).
Proof.
  intros Hp Hx.
  assert (V : Valid_exp fexp) by (apply FLT_exp_valid; red; lia).
  destruct (Req_dec x 0) as [->|Hx0].
  - rewrite round_0 by typeclasses eauto. rewrite Rminus_0_r, Rabs_R0. apply bpow_ge_0.
  - apply Rle_trans with (/ 2 * ulp radix2 fexp x); [apply error_le_half_ulp; typeclasses eauto|].
    rewrite ulp_neq_0 by exact Hx0. unfold cexp.
    assert (M : (mag radix2 x <= p)%Z) by (apply mag_le_bpow; assumption).
    apply Rle_trans with (/ 2 * bpow radix2 (p - 53)).
    + apply Rmult_le_compat_l; [lra|]. apply bpow_le. unfold FLT_exp. lia.
    + replace (p - 53)%Z with ((p - 54) + 1)%Z by ring. rewrite bpow_S. lra.
Qed.

Lemma floor_half y : Rabs (y + / 2) <= bpow radix2 53 - 1 ->
  let a := rnd (y + / 2) in let d := Zfloor a in
  y - IZR d < / 2 /\ - / 2 - Rabs (a - (y + / 2)) <= y - IZR d.
Proof.
  intros Hy a d. split.
  - set (k := Zfloor (y + / 2)).
    pose proof (Zfloor_lb (y + / 2)) as K1. pose proof (Zfloor_ub (y + / 2)) as K2. fold k in K1, K2.
    assert (Hk : (Z.abs k <= 2 ^ 53)%Z).
    { apply Rabs_le_inv in Hy. assert (B : bpow radix2 53 = IZR (2^53)) by (simpl; lra). rewrite B in Hy.
      assert (IZR k <= IZR (2^53)) by lra. assert (IZR (- 2^53) <= IZR k) by (rewrite opp_IZR; lra).
      apply le_IZR in H, H0. lia. }
    assert (IZR k <= a).
    { rewrite <- (rnd_IZR k Hk). unfold a. apply round_le; try typeclasses eauto; [apply FLT_exp_valid; red; lia|exact K1]. }
    assert (k <= d)%Z by (apply Zfloor_lub; exact H).
    apply IZR_le in H0. lra.
  - pose proof (Zfloor_lb a) as D1. fold d in D1.
    pose proof (Rle_abs (a - (y + / 2))). lra.
Qed.

Theorem dayfrac_eqs_sound V1 V2 D F :
  dayfrac_eqs V1 V2 D F -> Rabs (V1 + V2) <= bpow radix2 52 ->
  (exists k : Z, D = IZR k) /\
  Rabs (D + F - (V1 + V2)) <= bpow radix2 (-53) /\
  Rabs F <= / 2 + bpow radix2 (-50).
Proof.
  intros [S E d0 ex0 fr0 f1 e1 ex2 fr2 eq_S eq_SE eq_d0 eq_ex0 eq_sum0 eq_f1 eq_e1 eq_D eq_ex2 eq_sum2 eq_F] HV.
  set (V := V1 + V2) in *.
  set (e53 := bpow radix2 (-53)).
  assert (P0 : 0 < e53) by apply bpow_gt_0.
  assert (P1 : e53 <= / 1024).
  { apply Rle_trans with (bpow radix2 (-10)); [apply bpow_le; lia|]. simpl. lra. }
  assert (P52 : bpow radix2 (-52) = 2 * e53) by (change (-52)%Z with (-53 + 1)%Z; apply bpow_S).
  assert (P51 : bpow radix2 (-51) = 4 * e53) by (change (-51)%Z with (-52 + 1)%Z; rewrite bpow_S, P52; ring).
  assert (P50 : bpow radix2 (-50) = 8 * e53) by (change (-50)%Z with (-51 + 1)%Z; rewrite bpow_S, P51; ring).
  assert (P54 : bpow radix2 (-54) = e53 / 2).
  { unfold e53. change (-53)%Z with (-54 + 1)%Z. rewrite bpow_S. lra. }
  assert (B51 : bpow radix2 51 = IZR (2^51)) by (simpl; lra).
  assert (B52 : bpow radix2 52 = 2 * bpow radix2 51) by (change 52%Z with (51 + 1)%Z; apply bpow_S).
  assert (B53 : bpow radix2 53 = 4 * bpow radix2 51) by (change 53%Z with (52 + 1)%Z; rewrite bpow_S, B52; ring).
  assert (Big : 1024 <= bpow radix2 51).
  { apply Rle_trans with (bpow radix2 10); [simpl; lra|apply bpow_le; lia]. }
  assert (b1 : bpow radix2 1 = 2) by (simpl; lra).
  assert (b0 : bpow radix2 0 = 1) by reflexivity.
  assert (bm1 : bpow radix2 (-1) = / 2) by (simpl; lra).
  assert (bm2 : bpow radix2 (-2) = / 4) by (simpl; lra).
  (* 1. S and E *)
  assert (HS : Rabs S <= bpow radix2 52) by (rewrite eq_S; apply rnd_bound; [lia|exact HV]).
  assert (HE : Rabs E <= / 2).
  { replace E with (- (rnd V - V)) by (rewrite <- eq_S; lra). rewrite Rabs_Ropp, <- bm1.
    apply (err_lt V 53); [lia|]. rewrite B53. rewrite B52 in HV. lra. }
  apply Rabs_le_inv in HS. apply Rabs_le_inv in HE.
  (* 2. first floor *)
  set (y := S - IZR d0) in *.
  assert (Hy : - 1 <= y < / 2).
  { destruct (floor_half S) as [U L]. { apply Rabs_le. rewrite B53. rewrite B52 in HS. lra. }
    cbv zeta in U, L. rewrite <- eq_d0 in U, L. fold y in U, L.
    assert (Rabs (rnd (S + / 2) - (S + / 2)) <= / 2).
    { rewrite <- bm1. apply (err_lt _ 53); [lia|]. apply Rabs_lt. rewrite B53. rewrite B52 in HS. lra. }
    lra. }
  (* 3. first fraction *)
  assert (Hfr0 : Rabs fr0 <= e53).
  { replace fr0 with (- (rnd y - y)) by (rewrite <- eq_ex0; lra). rewrite Rabs_Ropp.
    apply (err_lt y 1); [lia|]. apply Rabs_lt. rewrite b1. lra. }
  apply Rabs_le_inv in Hfr0.
  assert (Ht0 : Rabs (rnd (ex0 + E) - (ex0 + E)) <= e53).
  { apply (err_lt _ 1); [lia|]. apply Rabs_lt. rewrite b1. lra. }
  apply Rabs_le_inv in Ht0. set (t0 := rnd (ex0 + E)) in *.
  assert (Hf1 : Rabs (f1 - (fr0 + t0)) <= e53).
  { rewrite eq_f1. apply (err_lt _ 1); [lia|]. apply Rabs_lt. rewrite b1. lra. }
  apply Rabs_le_inv in Hf1.
  (* f1 = y + E + delta, |delta| <= 2 e53 *)
  (* 4. second floor *)
  set (z := f1 - IZR e1).
  assert (Hz : - / 2 - 2 * e53 <= z < / 2).
  { destruct (floor_half f1) as [U L]. { apply Rabs_le. rewrite B53. lra. }
    cbv zeta in U, L. rewrite <- eq_e1 in U, L. fold z in U, L.
    assert (Rabs (rnd (f1 + / 2) - (f1 + / 2)) <= 2 * e53).
    { rewrite <- P52. apply (err_lt _ 2); [lia|]. apply Rabs_lt. simpl. lra. }
    lra. }
  (* 5. D is the integer d0 + e1 *)
  assert (B52' : bpow radix2 52 = IZR (2^52)) by (simpl; lra).
  assert (Hd0 : (Z.abs d0 <= 2 ^ 52 + 1)%Z).
  { assert (IZR d0 <= IZR (2^52 + 1)) by (rewrite plus_IZR, <- B52'; unfold y in Hy; lra).
    assert (IZR (- 2^52 - 1) <= IZR d0) by (rewrite minus_IZR, opp_IZR, <- B52'; unfold y in Hy; lra).
    apply le_IZR in H, H0. lia. }
  assert (He1 : (Z.abs e1 <= 3)%Z).
  { assert (IZR e1 <= IZR 3) by (unfold z in Hz; simpl; lra).
    assert (IZR (-3) <= IZR e1) by (unfold z in Hz; simpl; lra).
    apply le_IZR in H, H0. lia. }
  assert (HD : D = IZR (d0 + e1)).
  { rewrite eq_D, <- plus_IZR. apply rnd_IZR. change (2^53)%Z with 9007199254740992%Z. change (2^52)%Z with 4503599627370496%Z in Hd0. lia. }
  split; [exists (d0 + e1)%Z; exact HD|].
  (* 6. W = V - D *)
  set (W := V - D).
  assert (HW : - / 2 - 4 * e53 <= W <= / 2 + 2 * e53).
  { unfold W. rewrite HD, plus_IZR. replace V with (S + E) by exact eq_SE. unfold z, y in *. lra. }
  (* 7. final pass *)
  set (y2 := S - D) in *.
  assert (Hy2 : y2 = W - E) by (unfold y2, W; lra).
  assert (Hfr2 : Rabs fr2 <= e53).
  { replace fr2 with (- (rnd y2 - y2)) by (rewrite <- eq_ex2; lra). rewrite Rabs_Ropp.
    apply (err_lt y2 1); [lia|]. apply Rabs_lt. rewrite b1, Hy2. lra. }
  apply Rabs_le_inv in Hfr2.
  set (x3 := ex2 + E) in *.
  assert (Hx3 : x3 = W - fr2) by (unfold x3; lra).
  assert (Ht2 : Rabs (rnd x3 - x3) <= e53 / 2).
  { rewrite <- P54. apply (err_lt x3 0); [lia|]. apply Rabs_lt. rewrite b0, Hx3. lra. }
  apply Rabs_le_inv in Ht2. set (t2 := rnd x3) in *.
  assert (HF : Rabs (F - (fr2 + t2)) <= e53 / 2).
  { rewrite eq_F, <- P54. apply (err_lt _ 0); [lia|]. apply Rabs_lt. rewrite b0. lra. }
  apply Rabs_le_inv in HF.
  split.
  - replace (D + F - V) with (F - W) by (unfold W; lra). apply Rabs_le. lra.
  - rewrite P50. apply Rabs_le. lra.
Qed.

(* the theorem about the bit-exact model *)
Theorem day_frac0_sound (v1 v2 : PrimFloat.float) :
  fin v1 -> fin v2 ->
  Rabs (R_of v1) <= bpow radix2 53 -> Rabs (R_of v2) <= bpow radix2 53 ->
  Rabs (R_of v1 + R_of v2) <= bpow radix2 52 ->
  let '(d, f) := day_frac0 v1 v2 in
  fin d /\ fin f /\ (exists k : Z, R_of d = IZR k) /\
  Rabs (R_of d + R_of f - (R_of v1 + R_of v2)) <= bpow radix2 (-53) /\
  Rabs (R_of f) <= / 2 + bpow radix2 (-50).
Proof.
  intros F1 F2 B1 B2 HV.
  pose proof (day_frac_eqs v1 v2 (conj F1 B1) (conj F2 B2)) as H.
  destruct (day_frac0 v1 v2) as [d f]. destruct H as (Fd & Ff & Heqs).
  split; [exact Fd|]. split; [exact Ff|]. exact (dayfrac_eqs_sound _ _ _ _ Heqs HV).
Qed.
