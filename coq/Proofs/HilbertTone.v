(* Proofs/HilbertTone.v -- C19 over the complex numbers, every n >= 1: the conversion is linear; the analytic signal of the REAL
   tone cos(2 pi w j / n), 0 < 2w < n, is the complex tone exp(2 pi i w j / n) (negative frequency removed, weight 2 on the
   positive one); mixed by (-i)^j and decimated by two it is exp(2 pi i (w - n/4) (2m) / n): a tone at w - n/4 cycles per n samples. *)
From Coq Require Import ZArith Reals Lra Lia Bool.
From Coquelicot Require Import Complex.
From PB Require Import Lib.Dft Lib.DftC Model.Hilbert Proofs.HilbertProofs Proofs.HilbertC.
Open Scope R_scope.

Section HT.
  Variable n : nat.
  Hypothesis npos : (0 < n)%nat.

  Definition Hw (k : nat) : C := inj C (RtoC 0) (RtoC 1) Cplus (h (Z.of_nat n) (Z.of_nat k)).
  Lemma analytic_is_filt x m : analyticC n x m = filt C (RtoC 0) Cplus Cmult n (W n) (RtoC (/ INR n)) Hw x m.
  Proof. reflexivity. Qed.

  (* the whole conversion: analytic signal, times exp(-i pi/2 j), every second sample *)
  Definition rtcC (x : nat -> C) (m : nat) : C := Cmult (analyticC n x (2 * m)) (cpow (Copp Ci) (2 * m)).

  Theorem analytic_linear_C a x b y m :
    analyticC n (fun j => Cplus (Cmult a (x j)) (Cmult b (y j))) m = Cplus (Cmult a (analyticC n x m)) (Cmult b (analyticC n y m)).
  Proof. rewrite !analytic_is_filt. apply (filt_linear_C n npos). Qed.
  Theorem rtc_linear_C a x b y m :
    rtcC (fun j => Cplus (Cmult a (x j)) (Cmult b (y j))) m = Cplus (Cmult a (rtcC x m)) (Cmult b (rtcC y m)).
  Proof. unfold rtcC. rewrite analytic_linear_C. ring. Qed.

  Lemma analytic_tone k0 m : (k0 < n)%nat -> analyticC n (tone C (W n) k0) m = Cmult (Hw k0) (tone C (W n) k0 m).
  Proof. intros H0. rewrite analytic_is_filt. apply (filt_tone_C n npos). exact H0. Qed.

  (* weights at a positive frequency below Nyquist and at its mirror *)
  Lemma h_pos (w : nat) : (0 < w)%nat -> (2 * w < n)%nat -> h (Z.of_nat n) (Z.of_nat w) = 2%Z.
  Proof.
    intros H1 H2. unfold h. set (N := Z.of_nat n). set (k := Z.of_nat w).
    assert (A : (0 < k)%Z) by (unfold k; lia). assert (B : (2 * k < N)%Z) by (unfold k, N; lia).
    pose proof (Z.div_mod N 2 ltac:(lia)) as D. pose proof (Z.mod_pos_bound N 2 ltac:(lia)) as M.
    destruct (1 <? N)%Z eqn:E1; destruct (k =? N / 2)%Z eqn:E2; cbn [andb].
    - apply Z.eqb_eq in E2. destruct (N mod 2 =? 0)%Z eqn:E3; [apply Z.eqb_eq in E3; lia|reflexivity].
    - assert ((1 <=? k)%Z = true) as -> by (apply Z.leb_le; lia).
      assert ((k <? N / 2)%Z = true) as -> by (apply Z.ltb_lt; apply Z.eqb_neq in E2; lia). reflexivity.
    - apply Z.ltb_ge in E1. lia.
    - apply Z.ltb_ge in E1. lia.
  Qed.
  Lemma h_neg (w : nat) : (0 < w)%nat -> (2 * w < n)%nat -> h (Z.of_nat n) (Z.of_nat (n - w)) = 0%Z.
  Proof.
    intros H1 H2. unfold h. set (N := Z.of_nat n). set (k := Z.of_nat (n - w)).
    assert (A : (2 * k > N)%Z) by (unfold k, N; lia). assert (B : (k < N)%Z) by (unfold k, N; lia).
    pose proof (Z.div_mod N 2 ltac:(lia)) as D. pose proof (Z.mod_pos_bound N 2 ltac:(lia)) as M.
    assert ((k =? N / 2)%Z = false) as -> by (apply Z.eqb_neq; lia). rewrite andb_false_r.
    assert ((k <? N / 2)%Z = false) as -> by (apply Z.ltb_ge; lia). rewrite andb_false_r.
    assert ((k =? 0)%Z = false) as -> by (apply Z.eqb_neq; lia). reflexivity.
  Qed.

  (* the mirror tone is the conjugate *)
  Lemma tone_mirror (w j : nat) : (w < n)%nat -> tone C (W n) (n - w) j = Cconj (tone C (W n) w j).
  Proof.
    intros Hw'. unfold tone. rewrite (conj_WC n npos).
    replace (Z.of_nat (n - w) * Z.of_nat j)%Z with (- (Z.of_nat w * Z.of_nat j) + Z.of_nat j * Z.of_nat n)%Z by (rewrite Nat2Z.inj_sub by lia; ring).
    apply (W_period C (RtoC 0) (RtoC 1) Cplus Cmult Cminus Copp C_ring_theory n npos (W n) (W_add n npos) (W_0 n npos) (W_n n npos)).
  Qed.

  (* the real tone cos(2 pi w j / n), written with the tone itself *)
  Definition real_tone (w j : nat) : C := RtoC (cos (2 * PI * IZR (Z.of_nat w * Z.of_nat j) / INR n)).
  Lemma real_tone_split w j : (w < n)%nat ->
    real_tone w j = Cplus (Cmult (RtoC (/ 2)) (tone C (W n) w j)) (Cmult (RtoC (/ 2)) (tone C (W n) (n - w) j)).
  Proof.
    intros Hw'. rewrite (tone_mirror w j Hw'). unfold real_tone, tone, W. set (th := 2 * PI * IZR (Z.of_nat w * Z.of_nat j) / INR n).
    unfold Cconj, Cplus, Cmult, RtoC. cbn [fst snd]. apply injective_projections; cbn [fst snd]; field.
  Qed.

  Lemma analytic_ext x y m : (forall j, (j < n)%nat -> x j = y j) -> analyticC n x m = analyticC n y m.
  Proof.
    intros E. unfold analyticC, analytic, idft. f_equal. apply (sumf_ext C (RtoC 0) Cplus n npos). intros k _. f_equal. f_equal.
    unfold dft. apply (sumf_ext C (RtoC 0) Cplus n npos). intros j Hj. rewrite (E j Hj). reflexivity.
  Qed.

  Theorem analytic_real_tone (w m : nat) : (0 < w)%nat -> (2 * w < n)%nat ->
    analyticC n (real_tone w) m = tone C (W n) w m.
  Proof.
    intros H1 H2. assert (Hwn : (w < n)%nat) by lia.
    rewrite (analytic_ext (real_tone w) (fun j => Cplus (Cmult (RtoC (/ 2)) (tone C (W n) w j)) (Cmult (RtoC (/ 2)) (tone C (W n) (n - w) j))) m)
      by (intros j _; apply real_tone_split; exact Hwn).
    rewrite analytic_linear_C, !analytic_tone by lia. unfold Hw. rewrite (h_pos w H1 H2), (h_neg w H1 H2).
    unfold inj. change (2 =? 0)%Z with false. change (2 =? 1)%Z with false. change (0 =? 0)%Z with true. cbv iota.
    unfold Cmult, Cplus, RtoC. cbn [fst snd]. destruct (tone C (W n) w m) as [a b].
    destruct (tone C (W n) (n - w) m) as [c d]. cbn [fst snd]. f_equal; field.
  Qed.

  (* ... and the conversion turns it into the tone at w - n/4 cycles per n samples (sampled at the even positions 2m):
     exp(2 pi i w (2m)/n) * (-i)^(2m) = exp(2 pi i (w - n/4) (2m) / n) *)
  Theorem rtc_real_tone (w m : nat) : (0 < w)%nat -> (2 * w < n)%nat ->
    rtcC (real_tone w) m =
    (cos (2 * PI * ((INR w - INR n / 4) * INR (2 * m)) / INR n), sin (2 * PI * ((INR w - INR n / 4) * INR (2 * m)) / INR n)).
  Proof.
    intros H1 H2. unfold rtcC. rewrite (analytic_real_tone w (2 * m) H1 H2), mix_even. unfold tone, W.
    assert (nR : INR n <> 0) by (apply not_0_INR; lia).
    replace (2 * PI * ((INR w - INR n / 4) * INR (2 * m)) / INR n) with (2 * PI * IZR (Z.of_nat w * Z.of_nat (2 * m)) / INR n - INR m * PI).
    2:{ rewrite mult_IZR, <- !INR_IZR_INZ, !mult_INR. simpl (INR 2). field. exact nR. }
    set (th := 2 * PI * IZR (Z.of_nat w * Z.of_nat (2 * m)) / INR n).
    assert (Cm : cos (INR m * PI) = (-1) ^ m /\ sin (INR m * PI) = 0).
    { clear. induction m as [|m [IHc IHs]]; [simpl; rewrite Rmult_0_l, cos_0, sin_0; split; lra|].
      rewrite S_INR. replace ((INR m + 1) * PI) with (INR m * PI + PI) by ring. rewrite cos_plus, sin_plus, cos_PI, sin_PI, IHc, IHs.
      split; simpl; ring. }
    destruct Cm as [Cc Cs]. rewrite cos_minus, sin_minus, Cc, Cs. unfold Cmult, RtoC. cbn [fst snd]. f_equal; ring.
  Qed.
End HT.
