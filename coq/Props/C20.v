(* Props/C20.v -- pb.fft dispatch; STFT labels; ISTFT inverts STFT.  Statements only. *)
From Coq Require Import ZArith QArith Reals String List Bool.
From Coquelicot Require Import Complex.
From PB Require Import Gen.GenConsts Model.Band Model.Shift Model.Stft Lib.Dft Lib.DftC Proofs.BandProofs Proofs.StftProofs Gen.GenStft Proofs.StftGen.
Import ListNotations.
Open Scope Z_scope.

(* the GENERATED _FFT_FUNCS is exactly the fourteen names; each resolves to the wrapper of the SAME-named scipy.fft transform
   (with a dask fft_wrap branch); every other name raises AttributeError *)
Theorem C20_generated : fft_funcs = the_fourteen /\ fft_target_is_same_name = true /\
  fft_guard_raises_attribute_error = true /\ fft_has_dask_branch = true.
Proof. exact generated_names. Qed.
Theorem C20_generated_pass_through : fft_passes_arguments_through = true.
Proof. exact generated_pass_through. Qed.
Theorem C20_names : forall name,
  (In name the_fourteen -> dispatch name = Some name) /\ (~ In name the_fourteen -> dispatch name = None).
Proof. exact dispatch_spec. Qed.

(* STFT: nchan * P channels of width sr / P; sub-channel j of channel i is labelled label(i) + (j - floor(P/2)) sr/P, the true
   frequency of DFT bin j - floor(P/2) of a segment of channel i: every alignment, channel count and nperseg parity *)
Theorem C20_stft_labels : forall (b sb : band) (P : Z),
  1 <= nchan b -> 1 <= P -> valid_align (align b) -> stft_band b P = Some sb ->
  nchan sb = nchan b * P /\ (bw sb == bw b / inject_Z P)%Q /\
  forall i j, (label sb (stft_chan P i j) == label b i + (inject_Z j - inject_Z (P / 2)) * (bw b / inject_Z P))%Q.
Proof. exact stft_labels. Qed.
(* ISTFT(STFT(z)) has the original channel count, channel width and channel labels *)
Theorem C20_istft_band : forall (b sb : band) (P : Z),
  1 <= nchan b -> 1 <= P -> valid_align (align b) -> stft_band b P = Some sb ->
  let rb := istft_band sb P in
  nchan rb = nchan b /\ (bw rb == bw b)%Q /\ align rb = 1 /\ forall i, (label rb i == label b i)%Q.
Proof. exact istft_stft_band. Qed.
(* lengths: whole segments only, the round trip returns len - len mod P samples (the truncated tail is < P samples) *)
Theorem C20_ledger : forall len P, 0 <= len -> 1 <= P ->
  0 <= stft_len len P /\ istft_len (stft_len len P) P = len - len mod P /\ len - P < istft_len (stft_len len P) P <= len.
Proof. exact stft_ledger. Qed.
(* samples: per segment and channel, ISTFT(STFT(x)) = x over the complex numbers, every nperseg >= 1 *)
Theorem C20_istft_inverts : forall (n : nat), (0 < n)%nat -> forall (x : nat -> C) (m : nat), (m < n)%nat ->
  istft_seg C (RtoC 0) (RtoC 1) Cplus Cmult n (W n) (RtoC (/ INR n))
    (stft_seg C (RtoC 0) Cplus Cmult n (W n) (RtoC (/ INR n)) x) m = x m.
Proof.
  intros n npos. exact (istft_stft_seg C (RtoC 0) (RtoC 1) Cplus Cmult Cminus Copp C_ring_theory C_int n npos (W n)
    (W_add n npos) (W_0 n npos) (W_n n npos) (W_prim n npos) (RtoC (/ INR n)) (ninv_C n npos)).
Qed.
(* content: a tone at DFT bin k0 of a segment appears with unit amplitude in exactly the sub-channel holding that bin (sub-channel j
   holds bin (j - P/2) mod P; its label is that bin's frequency by C20_stft_labels) and is zero in every other sub-channel *)
Theorem C20_stft_tone : forall (n : nat), (0 < n)%nat -> forall (k0 j : nat), (k0 < n)%nat -> (j < n)%nat ->
  stft_seg C (RtoC 0) Cplus Cmult n (W n) (RtoC (/ INR n)) (tone C (W n) k0) j =
  if Nat.eq_dec (Z.to_nat (stft_bin (Z.of_nat n) (Z.of_nat j))) k0 then RtoC 1 else RtoC 0.
Proof.
  intros n npos. exact (stft_seg_tone C (RtoC 0) (RtoC 1) Cplus Cmult Cminus Copp C_ring_theory C_int n npos (W n)
    (W_add n npos) (W_0 n npos) (W_n n npos) (W_prim n npos) (RtoC (/ INR n)) (ninv_C n npos)).
Qed.
(* fft / ifft of the reference DFT are mutually inverse (the pair the STFT uses) *)
Theorem C20_ifft_fft : forall (n : nat), (0 < n)%nat -> forall (x : nat -> C) (m : nat), (m < n)%nat ->
  idft C (RtoC 0) Cplus Cmult n (W n) (RtoC (/ INR n)) (dft C (RtoC 0) Cplus Cmult n (W n) x) m = x m.
Proof. exact dft_inv_C. Qed.

Example C20_witness :      (* 2 channels, top-aligned, nperseg 4: 8 sub-channels, bottom-aligned, labels 996 .. 1010 = 1000 + (j-2)*2 and 1008 + (j-2)*2 *)
  option_map (fun sb => (nchan sb, align sb, Qred (label sb 0), Qred (label sb 7)))
    (stft_band (mk_band 1000 8 2 2) 4) = Some (8, 0, 996 # 1, 1010 # 1).
Proof. vm_compute. reflexivity. Qed.

(* tie to the source by translation (T9): the samples kept (whole segments), the output lengths, the sample rates, the alignment rule and
   the two scalings by nperseg are GENERATED from contrib.stft / contrib.istft on this run; the model is proved equal to them *)
Theorem C20_generated_lengths : forall len P, stft_len len P = gen_stft_keep len P / P /\ istft_len len P = len * gen_istft_cols P.
Proof. exact (fun len P => conj (stft_len_generated len P) (istft_len_generated len P)). Qed.
Theorem C20_generated_bands : forall (b : band) (P : Z),
  stft_band b P = match freq_slice b None None None with
                  | BOk b1 _ => Some (mk_band (cf b1) (gen_stft_rate (bw b) P) (nchan b * P) (if Z.odd P then 1 else 0))
                  | BErr _ => None end /\
  istft_band b P = mk_band (cf b) (gen_istft_rate (bw b) P) (nchan b / P) 1 /\
  align_name (if Z.odd P then 1 else 0) = gen_stft_align P /\ align_name 1 = gen_istft_align.
Proof. exact (fun b P => conj (stft_band_generated b P) (conj (istft_band_generated b P) (conj (stft_align_generated P) istft_align_generated))). Qed.
Theorem C20_generated_scales : forall P, P <> 0 -> (gen_stft_scale P == 1 / inject_Z P)%Q /\ (gen_istft_scale P == inject_Z P)%Q /\
  (gen_stft_scale P * gen_istft_scale P == 1)%Q.
Proof. exact scales_generated. Qed.

Print Assumptions C20_names.
Print Assumptions C20_stft_labels.
Print Assumptions C20_istft_band.
Print Assumptions C20_ledger.
Print Assumptions C20_istft_inverts.
Print Assumptions C20_stft_tone.
Print Assumptions C20_generated_bands.
Print Assumptions C20_generated_scales.
