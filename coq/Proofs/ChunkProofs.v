(* Proofs/ChunkProofs.v -- C09: for every chunking and every schedule the assembled result of a column-separable operation
   equals the unchunked one; building a graph executes nothing. *)
From Coq Require Import List Arith Bool Lia.
From PB Require Import Model.Chunk.
Import ListNotations.

Section P.
  Variables A B : Type.
  Variable f : list A -> list B.

  Lemma concat_split sizes : forall (cols : list (list A)), fold_right Nat.add 0 sizes = length cols -> concat (split_at A sizes cols) = cols.
  Proof.
    induction sizes as [|s r IH]; intros cols H; cbn [fold_right split_at concat] in *.
    - destruct cols; [reflexivity|discriminate].
    - rewrite IH; [apply firstn_skipn|]. rewrite skipn_length. symmetry. apply Nat.add_sub_eq_l. exact H.
  Qed.
  Lemma split_length sizes cols : length (split_at A sizes cols) = length sizes.
  Proof. revert cols. induction sizes as [|s r IH]; intros cols; cbn; [reflexivity|rewrite IH; reflexivity]. Qed.

  Lemma set_slot_length st i v : length (set_slot B st i v) = length st.
  Proof. revert i. induction st as [|x r IH]; intros i; [reflexivity|]. destruct i; cbn; [reflexivity|rewrite IH; reflexivity]. Qed.
  Lemma set_slot_same st i v : i < length st -> nth i (set_slot B st i v) None = Some v.
  Proof. revert i. induction st as [|x r IH]; intros i H; [cbn in H; lia|]. destruct i; cbn; [reflexivity|apply IH; cbn in H; lia]. Qed.
  Lemma set_slot_other st i j v : i <> j -> nth j (set_slot B st i v) None = nth j st None.
  Proof. revert i j. induction st as [|x r IH]; intros i j H; [reflexivity|]. destruct i, j; cbn; try reflexivity; try lia. apply IH. lia. Qed.

  (* every slot holds either nothing or the result of ITS task; a scheduled slot holds the result - whatever the order *)
  Lemma exec_slots blocks : forall order st,
    length st = length blocks ->
    (forall j, j < length blocks -> nth j st None = None \/ nth j st None = Some (task A B f (nth j blocks []))) ->
    let st' := exec A B f blocks order st in
    length st' = length blocks /\
    (forall j, j < length blocks -> nth j st' None = None \/ nth j st' None = Some (task A B f (nth j blocks []))) /\
    (forall j, j < length blocks -> In j order -> nth j st' None = Some (task A B f (nth j blocks []))).
  Proof.
    induction order as [|i rest IH]; intros st Hl Hinv; cbn [exec].
    - split; [exact Hl|]. split; [exact Hinv|]. intros j _ [].
    - set (st1 := set_slot B st i (task A B f (nth i blocks []))).
      assert (Hl1 : length st1 = length blocks) by (unfold st1; rewrite set_slot_length; exact Hl).
      assert (Hinv1 : forall j, j < length blocks -> nth j st1 None = None \/ nth j st1 None = Some (task A B f (nth j blocks []))).
      { intros j Hj. unfold st1. destruct (Nat.eq_dec i j) as [->|Hn].
        - right. apply set_slot_same. lia.
        - rewrite set_slot_other by exact Hn. apply Hinv. exact Hj. }
      destruct (IH st1 Hl1 Hinv1) as (L & I & S). split; [exact L|]. split; [exact I|].
      intros j Hj [<-|Hin]; [|apply S; assumption].
      destruct (in_dec Nat.eq_dec i rest) as [Hr|Hr]; [apply S; assumption|].
      (* i not scheduled again: its slot is untouched by the rest *)
      assert (G : forall order st, ~ In i order -> nth i (exec A B f blocks order st) None = nth i st None).
      { clear. induction order as [|k r IHo]; intros st Hn; cbn [exec]; [reflexivity|].
        rewrite IHo by (intro C; apply Hn; right; exact C). apply set_slot_other. intro E. apply Hn. left. exact E. }
      rewrite G by exact Hr. unfold st1. apply set_slot_same. lia.
  Qed.

  Lemma assemble_full (blocks : list (list (list A))) : forall st, length st = length blocks ->
    (forall j, j < length blocks -> nth j st None = Some (task A B f (nth j blocks []))) ->
    assemble B st = concat (map (task A B f) blocks).
  Proof.
    induction blocks as [|b r IH]; intros st Hl H; destruct st as [|x st']; cbn in Hl; try discriminate; [reflexivity|].
    unfold assemble. cbn [map concat]. pose proof (H 0 ltac:(cbn; lia)) as H0. cbn in H0. subst x. f_equal.
    apply IH; [lia|]. intros j Hj. apply (H (S j)). cbn. lia.
  Qed.
  Lemma concat_map_task (blocks : list (list (list A))) : concat (map (task A B f) blocks) = map f (concat blocks).
  Proof. unfold task. induction blocks as [|b r IH]; cbn; [reflexivity|]. rewrite map_app, IH. reflexivity. Qed.

  (* any chunking, any schedule that runs every task at least once (in any order, with repetitions): same result as NumPy *)
  Theorem schedule_independent sizes cols order :
    fold_right Nat.add 0 sizes = length cols -> (forall j, j < length sizes -> In j order) ->
    fst (compute A B f (build A sizes cols) order) = eager A B f cols.
  Proof.
    intros Hs Hall. unfold compute, build, eager. cbn [fst g_blocks].
    set (blocks := split_at A sizes cols).
    destruct (exec_slots blocks order (repeat None (length blocks))) as (L & _ & S).
    - apply repeat_length.
    - intros j Hj. left. clear. revert j. induction (length blocks) as [|n IH]; intros j; destruct j; cbn; auto.
    - rewrite (assemble_full blocks); [|exact L|].
      + rewrite concat_map_task. unfold blocks. rewrite concat_split by exact Hs. reflexivity.
      + intros j Hj. apply S; [exact Hj|]. apply Hall. unfold blocks in Hj. rewrite split_length in Hj. exact Hj.
  Qed.
  (* building the graph runs no task; computing runs exactly the scheduled ones *)
  Theorem build_is_lazy sizes cols : g_executed A (build A sizes cols) = 0.
  Proof. reflexivity. Qed.
  Theorem compute_counts sizes cols order : snd (compute A B f (build A sizes cols) order) = length order.
  Proof. reflexivity. Qed.
End P.

Section E.
  Variables A B : Type.
  Variable g : A -> B.
  (* element-wise operations: any chunking of the time axis as well *)
  Theorem elementwise_time_chunks sizes : forall x, fold_right Nat.add 0 sizes = length x -> chunked_map A B g sizes x = map g x.
  Proof.
    unfold chunked_map. induction sizes as [|s r IH]; intros x H; cbn [fold_right split_time map concat] in *.
    - destruct x; [reflexivity|discriminate].
    - rewrite IH by (rewrite skipn_length; symmetry; apply Nat.add_sub_eq_l; exact H). rewrite <- map_app, firstn_skipn. reflexivity.
  Qed.
End E.
