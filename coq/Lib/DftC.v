(* Lib/DftC.v -- the hypotheses of Lib/Dft.v are satisfiable for EVERY n >= 1: Coquelicot's complex numbers with
   W z = exp(2 pi i z / n) and complex conjugation.  (Real-number axioms of the standard library.) *)
From Coq Require Import ZArith Reals Lra Lia Psatz Ring.
From Coquelicot Require Import Complex.
From PB Require Import Lib.Dft.
Open Scope R_scope.

Lemma cos_2ZPI (m : Z) : cos (2 * IZR m * PI) = 1.
Proof.
  assert (P : forall k : nat, cos (2 * INR k * PI) = 1).
  { intros k. replace (2 * INR k * PI) with (0 + 2 * INR k * PI) by ring. rewrite cos_period. apply cos_0. }
  destruct (Z_le_gt_dec 0 m).
  - rewrite <- (Z2Nat.id m) by lia. rewrite <- INR_IZR_INZ. apply P.
  - replace (2 * IZR m * PI) with (- (2 * IZR (- m) * PI)) by (rewrite opp_IZR; ring).
    rewrite cos_neg. rewrite <- (Z2Nat.id (- m)) by lia. rewrite <- INR_IZR_INZ. apply P.
Qed.
Lemma sin_2ZPI (m : Z) : sin (2 * IZR m * PI) = 0.
Proof. apply sin_eq_0_1. exists (2 * m)%Z. rewrite mult_IZR. ring. Qed.

Lemma cos_eq_1 x : cos x = 1 -> exists m : Z, x = 2 * IZR m * PI.
Proof.
  intros Hc. assert (Hs : sin x = 0).
  { pose proof (sin2_cos2 x) as H. unfold Rsqr in H. rewrite Hc in H. nra. }
  destruct (sin_eq_0_0 x Hs) as [k Hk].
  destruct (Z.Even_or_Odd k) as [[m Hm]|[m Hm]].
  - exists m. rewrite Hk, Hm, mult_IZR. ring.
  - exfalso. rewrite Hk, Hm in Hc. rewrite plus_IZR, mult_IZR in Hc.
    replace ((2 * IZR m + 1) * PI) with (2 * IZR m * PI + PI) in Hc by ring.
    rewrite neg_cos, cos_2ZPI in Hc. lra.
Qed.

Section Inst.
  Variable n : nat.
  Hypothesis npos : (0 < n)%nat.
  Definition W (z : Z) : C := (cos (2 * PI * IZR z / INR n), sin (2 * PI * IZR z / INR n)).
  Lemma nR : INR n <> 0. Proof. apply not_0_INR. lia. Qed.

  Lemma W_add a b : W (a + b) = Cmult (W a) (W b).
  Proof. unfold W, Cmult. cbn [fst snd]. rewrite plus_IZR.
    replace (2 * PI * (IZR a + IZR b) / INR n) with (2 * PI * IZR a / INR n + 2 * PI * IZR b / INR n) by (field; apply nR).
    rewrite cos_plus, sin_plus. f_equal; ring. Qed.
  Lemma W_0 : W 0 = RtoC 1.
  Proof. unfold W, RtoC. replace (2 * PI * 0 / INR n) with 0 by (field; apply nR). rewrite cos_0, sin_0. reflexivity. Qed.
  Lemma W_n : W (Z.of_nat n) = RtoC 1.
  Proof. unfold W, RtoC. rewrite <- INR_IZR_INZ. replace (2 * PI * INR n / INR n) with (2 * PI) by (field; apply nR).
    rewrite cos_2PI, sin_2PI. reflexivity. Qed.
  Lemma W_prim z : W z = RtoC 1 -> (z mod Z.of_nat n = 0)%Z.
  Proof.
    unfold W, RtoC. intros H. injection H as Hc _.
    destruct (cos_eq_1 _ Hc) as [m Hm].
    assert (E : IZR z = IZR (m * Z.of_nat n)).
    { rewrite mult_IZR, <- INR_IZR_INZ. pose proof PI_RGT_0. pose proof nR.
      assert (2 * PI * IZR z = 2 * IZR m * PI * INR n) by (rewrite <- Hm; field; assumption). nra. }
    apply eq_IZR in E. rewrite E. apply Z.mod_mul. lia.
  Qed.
  Lemma C_int (a b : C) : Cmult a b = RtoC 0 -> a = RtoC 0 \/ b = RtoC 0.
  Proof.
    destruct a as [ar ai], b as [br bi]. unfold Cmult, RtoC. cbn [fst snd]. intros H. injection H as H1 H2.
    destruct (Req_dec (ar * ar + ai * ai) 0) as [Ha|Ha].
    - left. assert (ar = 0) by nra. assert (ai = 0) by nra. subst. reflexivity.
    - right. assert ((ar * ar + ai * ai) * (br * br + bi * bi) = 0) by nra.
      assert (br * br + bi * bi = 0) by (apply Rmult_integral in H; tauto).
      assert (br = 0) by nra. assert (bi = 0) by nra. subst. reflexivity.
  Qed.
  Lemma ofnat_C k : ofnat C (RtoC 0) (RtoC 1) Cplus k = RtoC (INR k).
  Proof. induction k; [reflexivity|]. cbn [ofnat]. rewrite IHk, S_INR. unfold Cplus, RtoC. cbn [fst snd]. f_equal; ring. Qed.
  Lemma ninv_C : Cmult (RtoC (/ INR n)) (ofnat C (RtoC 0) (RtoC 1) Cplus n) = RtoC 1.
  Proof. rewrite ofnat_C. unfold Cmult, RtoC. cbn [fst snd]. f_equal; field; apply nR. Qed.

  Lemma conj_addC a b : Cconj (Cplus a b) = Cplus (Cconj a) (Cconj b).
  Proof. destruct a, b. unfold Cconj, Cplus. cbn [fst snd]. f_equal. ring. Qed.
  Lemma conj_mulC a b : Cconj (Cmult a b) = Cmult (Cconj a) (Cconj b).
  Proof. destruct a, b. unfold Cconj, Cmult. cbn [fst snd]. f_equal; ring. Qed.
  Lemma conj_0C : Cconj (RtoC 0) = RtoC 0.
  Proof. unfold Cconj, RtoC. cbn [fst snd]. f_equal. ring. Qed.
  Lemma conj_WC z : Cconj (W z) = W (- z).
  Proof. unfold Cconj, W. cbn [fst snd]. rewrite opp_IZR.
    replace (2 * PI * - IZR z / INR n) with (- (2 * PI * IZR z / INR n)) by (field; apply nR).
    rewrite cos_neg, sin_neg. reflexivity. Qed.
  Lemma conj_ninvC : Cconj (RtoC (/ INR n)) = RtoC (/ INR n).
  Proof. unfold Cconj, RtoC. cbn [fst snd]. f_equal. ring. Qed.

  (* the theorems of Lib/Dft.v hold for the complex numbers, for this (arbitrary) n *)
  Definition shift_theorem_C :=
    shift_theorem C (RtoC 0) (RtoC 1) Cplus Cmult Cminus Copp C_ring_theory C_int n npos W W_add W_0 W_n W_prim (RtoC (/ INR n)) ninv_C.
  Definition dft_inv_C :=
    dft_inv C (RtoC 0) (RtoC 1) Cplus Cmult Cminus Copp C_ring_theory C_int n npos W W_add W_0 W_n W_prim (RtoC (/ INR n)) ninv_C.
  Definition modulation_theorem_C :=
    modulation_theorem C (RtoC 0) (RtoC 1) Cplus Cmult Cminus Copp C_ring_theory n npos W W_add W_0 W_n.
  Definition diag_tone_C :=
    diag_tone C (RtoC 0) (RtoC 1) Cplus Cmult Cminus Copp C_ring_theory C_int n npos W W_add W_0 W_n W_prim (RtoC (/ INR n)) ninv_C.
  Definition hilbert_real_part_C :=
    hilbert_real_part C (RtoC 0) (RtoC 1) Cplus Cmult Cminus Copp C_ring_theory C_int n npos W W_add W_0 W_n W_prim (RtoC (/ INR n)) ninv_C
      Cconj conj_addC conj_mulC conj_0C conj_WC conj_ninvC.
  Definition dft_idft_C :=
    dft_idft C (RtoC 0) (RtoC 1) Cplus Cmult Cminus Copp C_ring_theory C_int n npos W W_add W_0 W_n W_prim (RtoC (/ INR n)) ninv_C.
  Definition filt_compose_C :=
    filt_compose C (RtoC 0) (RtoC 1) Cplus Cmult Cminus Copp C_ring_theory C_int n npos W W_add W_0 W_n W_prim (RtoC (/ INR n)) ninv_C.
  Definition filt_inverse_C :=
    filt_inverse C (RtoC 0) (RtoC 1) Cplus Cmult Cminus Copp C_ring_theory C_int n npos W W_add W_0 W_n W_prim (RtoC (/ INR n)) ninv_C.
  Definition dft_filt_C :=
    dft_filt C (RtoC 0) (RtoC 1) Cplus Cmult Cminus Copp C_ring_theory C_int n npos W W_add W_0 W_n W_prim (RtoC (/ INR n)) ninv_C.
  Definition filt_tone_C :=
    filt_tone C (RtoC 0) (RtoC 1) Cplus Cmult Cminus Copp C_ring_theory C_int n npos W W_add W_0 W_n W_prim (RtoC (/ INR n)) ninv_C.
  Definition filt_linear_C :=
    filt_linear C (RtoC 0) (RtoC 1) Cplus Cmult Cminus Copp C_ring_theory n npos W (RtoC (/ INR n)).
End Inst.
