(* Model/PhaseOrd.v -- ordering and reductions of real Phase arrays (C15): argmin / argmax / argsort / min / max / ptp / sort
   exactly as phase.py computes them (one lane = one list), on the bit-exact model of Model/Phase2.v.  No proofs. *)
From Coq Require Import ZArith Bool List PrimFloat.
From PB Require Import Model.Phase2.
Import ListNotations.
Open Scope float_scope.

Definition cycle (p : ph) : float := p_int p + p_frac p.                 (* self["int"] + self["frac"] *)
Definition fmin_list (l : list float) (d : float) : float := fold_left (fun m x => if x <? m then x else m) l d.
Definition fmax_list (l : list float) (d : float) : float := fold_left (fun m x => if m <? x then x else m) l d.
(* index of the first minimum / maximum (numpy argmin / argmax on doubles, no NaN) *)
Fixpoint arg_first (better : float -> float -> bool) (l : list float) (i : nat) (best : float) (bi : nat) : nat :=
  match l with
  | [] => bi
  | x :: r => if better x best then arg_first better r (S i) x i else arg_first better r (S i) best bi
  end.
Definition argmin_f (l : list float) : nat := match l with [] => O | x :: r => arg_first (fun a b => a <? b) r 1 x 0 end.
Definition argmax_f (l : list float) : nat := match l with [] => O | x :: r => arg_first (fun a b => b <? a) r 1 x 0 end.

(* argmin: approx = min(cycle); dt = (int - approx) + frac; dt.argmin() *)
Definition argmin (l : list ph) : nat :=
  match l with
  | [] => O
  | p :: _ => let approx := fmin_list (map cycle l) (cycle p) in
              argmin_f (map (fun q => (p_int q - approx) + p_frac q) l)
  end.
Definition argmax (l : list ph) : nat :=
  match l with
  | [] => O
  | p :: _ => let approx := fmax_list (map cycle l) (cycle p) in
              argmax_f (map (fun q => (p_int q - approx) + p_frac q) l)
  end.

(* argsort: np.lexsort((frac, int)) on the two stored doubles - a normalised phase (integer count, fraction in [-1/2, 1/2]) is ordered
   exactly by (count, fraction); stable *)
Definition key_le (a b : float * float * nat) : bool :=      (* (count, fraction, index): a sorts before-or-equal b *)
  let '(ai, af, _) := a in let '(bi, bf, _) := b in
  (ai <? bi) || ((ai =? bi) && (af <=? bf)).
Fixpoint insert_stable (x : float * float * nat) (l : list (float * float * nat)) : list (float * float * nat) :=
  match l with
  | [] => [x]
  | y :: r => if key_le y x then y :: insert_stable x r else x :: l      (* after every element that is <= x *)
  end.
Definition argsort (l : list ph) : list nat :=
  let keyed := map (fun ip => (p_int (snd ip), p_frac (snd ip), fst ip)) (combine (seq 0 (length l)) l) in
  map (fun k => snd k) (fold_left (fun acc x => insert_stable x acc) keyed []).

Definition nth_ph (l : list ph) (i : nat) : ph := nth i l {| p_int := nan; p_frac := nan; p_imag := false |}.
Definition pmin (l : list ph) : ph := nth_ph l (argmin l).
Definition pmax (l : list ph) : ph := nth_ph l (argmax l).
Definition ptp (l : list ph) : res := op_addsub true (OPh (pmax l)) (OPh (pmin l)).
Definition psort (l : list ph) : list ph := map (nth_ph l) (argsort l).

Definition nat_list_eqb (a b : list nat) : bool :=
  (Nat.eqb (length a) (length b)) && forallb (fun p => Nat.eqb (fst p) (snd p)) (combine a b).
