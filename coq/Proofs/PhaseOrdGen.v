(* Proofs/PhaseOrdGen.v -- C07 (divmod branch) and C15 (ordering): the scalar-lane model of the floor_divide / remainder / divmod branch of
   Phase.__array_ufunc__ and the list-lane models of Phase.argmin / argmax / argsort / min / max / ptp ARE the functions translated from
   pulsar/phase.py (Gen/GenPhaseOrd.v, regenerated on every run by T7). *)
From Coq Require Import ZArith Bool List PrimFloat.
From PB Require Import Model.Phase2 Model.PhaseDivmod Model.PhaseOrd Gen.GenPhaseOrd.
Import ListNotations.
Open Scope float_scope.

Theorem op_divmod_generated (p : ph) (d : float) : op_divmod p d = gen_divmod p d.
Proof.
  unfold op_divmod, gen_divmod, rem_of.
  destruct (from_angles (NReal d) None (Some (NReal (np_floor_divide (cyc p) d))) None) as [corr|]; [|reflexivity].
  destruct (op_addsub true (OPh p) (OPh corr)) as [r| |]; try reflexivity.
  destruct (negb (np_floor_divide (cyc r) d =? 0)); [|reflexivity].
  destruct (from_angles (NReal d) None (Some (NReal (np_floor_divide (cyc p) d + np_floor_divide (cyc r) d))) None) as [corr2|]; [|reflexivity].
  destruct (op_addsub true (OPh p) (OPh corr2)) as [r2| |]; reflexivity.
Qed.

Theorem cycle_generated (q : ph) : cycle q = gen_cycle q.
Proof. reflexivity. Qed.
Theorem argmin_generated (l : list ph) : argmin l = gen_argmin l.
Proof. reflexivity. Qed.
Theorem argmax_generated (l : list ph) : argmax l = gen_argmax l.
Proof. reflexivity. Qed.
(* np.lexsort with the count as primary and the fraction as secondary key, stable *)
Theorem argsort_generated (l : list ph) :
  argsort l =
  map (fun k => snd k)
      (fold_left (fun acc x => insert_stable x acc)
                 (map (fun ip => (fst (gen_sort_keys (snd ip)), snd (gen_sort_keys (snd ip)), fst ip)) (combine (seq 0 (length l)) l)) []).
Proof. reflexivity. Qed.
Theorem pmin_generated (l : list ph) : pmin l = gen_pmin l.
Proof. reflexivity. Qed.
Theorem pmax_generated (l : list ph) : pmax l = gen_pmax l.
Proof. reflexivity. Qed.
Theorem ptp_generated (l : list ph) : ptp l = gen_ptp l.
Proof. reflexivity. Qed.

(* the decimal I/O methods the character-exact model of Model/DecStr.v transcribes are the ones in phase.py now (whole-function pins by
   syntax-tree hash, re-read on every run) *)
Theorem string_methods_generated :
  gen_str_parse_string_as_modelled = true /\ gen_str_repr_as_modelled = true /\ gen_str_str_as_modelled = true /\
  gen_str_format_as_modelled = true /\ gen_str_to_string_as_modelled = true /\ gen_str_from_string_as_modelled = true.
Proof. repeat split; reflexivity. Qed.
