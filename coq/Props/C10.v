(* Props/C10.v -- concatenate is the inverse of splitting and refuses non-contiguous pieces. *)
From Coq Require Import ZArith QArith Qabs List.
From PB Require Import Model.Ledger Model.Band Model.Concat Proofs.ConcatProofs.
Import ListNotations.
Open Scope Z_scope.

(* time axis, every tolerance eps >= 0 and rt >= 0, every cut list (repeats, end points, empty pieces)
   and every pattern of erased start times: class, length, rate, start time (whenever any piece kept one)
   and channel labels of the original are reproduced *)
Theorem C10_split_concat_time : forall eps rt s c1 k cs,
  (0 <= eps)%Q -> (0 <= rt)%Q -> (0 < rate (s_led s))%Q ->
  (match s_band s with Some b => (0 <= bw b)%Q | None => True end) ->
  last_cut 0 ((c1, k) :: cs) = len (s_led s) ->
  exists s', concat eps rt 0 (tsplit s ((c1, k) :: cs)) = COk s' /\
    s_cls s' = s_cls s /\ len (s_led s') = len (s_led s) /\ rate (s_led s') = rate (s_led s) /\
    ref_ok (s_led s) (t0 (s_led s')) /\
    (t0 (s_led s') = None -> t0 (s_led s) = None \/ forall c b, In (c, b) ((c1, k) :: cs) -> b = false) /\
    band_labels_eq (s_band s') (s_band s).
Proof. exact split_concat_time. Qed.

Theorem C10_reject_class : forall eps rt axis p0 rest,
  (exists p, In p rest /\ s_cls p <> s_cls p0) -> concat eps rt axis (p0 :: rest) = CErr 4.
Proof. exact reject_other_class. Qed.

Theorem C10_reject_time_gap : forall eps rt c r tp np nq bnd d,
  (0 <= rt)%Q -> (0 < r)%Q -> (eps < 1 / r)%Q -> (1 <= Qabs d)%Q ->
  let p := {| s_cls := c; s_led := {| t0 := Some tp; rate := r; len := np |}; s_band := bnd |} in
  let q := {| s_cls := c; s_led := {| t0 := Some (tp + (inject_Z np + d) / r)%Q; rate := r; len := nq |}; s_band := bnd |} in
  concat eps rt 0 [p; q] = CErr 1.
Proof. exact reject_time_gap. Qed.

Theorem C10_reject_freq_gap : forall eps rt c l x y d,
  (0 <= rt)%Q -> (rt < 1)%Q -> (0 < bw x)%Q -> (bw y == bw x)%Q -> (1 <= Qabs d)%Q ->
  (label y 0 == label x (nchan x - 1) + bw x * (1 + d))%Q ->
  concat eps rt 1 [ {| s_cls := c; s_led := l; s_band := Some x |}; {| s_cls := c; s_led := l; s_band := Some y |} ] = CErr 1.
Proof. exact reject_freq_gap. Qed.

(* Not (yet) stated as theorems -- carried by the correspondence run and the monitor on every sampled case:
   C10_split_concat_freq (channel cuts), C10_assoc (any grouping), rejection at an arbitrary position of
   a longer list, rejection for differing rate / chan_bw / off-axis start time or labels. *)

Print Assumptions C10_split_concat_time.
Print Assumptions C10_reject_class.
Print Assumptions C10_reject_time_gap.
Print Assumptions C10_reject_freq_gap.
