(* Proofs/DecStrProofs.v -- C15: the digit shuffling of _parse_string preserves the decimal value: in exact arithmetic
   count + fraction equals the number the string denotes, for every digit string and every exponent. *)
From Coq Require Import ZArith QArith Qfield Lia Lqa Bool String Ascii List.
From PB Require Import Model.Phase2 Model.DecStr.
Open Scope Z_scope.

(* ---------- digit strings ---------- *)
Lemma digits_val_acc_app a : forall b acc,
  digits_val_acc (append a b) acc = match digits_val_acc a acc with Some v => digits_val_acc b v | None => None end.
Proof. induction a as [|c r IH]; intros b acc; cbn [append digits_val_acc]; [reflexivity|].
  destruct (digit_of c); [apply IH|reflexivity]. Qed.
Lemma acc_indep s : forall z z', (exists v, digits_val_acc s z = Some v) -> exists w, digits_val_acc s z' = Some w.
Proof. induction s as [|c r IH]; intros z z' [v Hv]; cbn [digits_val_acc] in *; [eexists; reflexivity|].
  destruct (digit_of c); [|discriminate]. eapply IH. eexists. exact Hv. Qed.
Lemma digits_val_acc_scale s : forall acc v, digits_val_acc s 0 = Some v -> digits_val_acc s acc = Some (acc * 10 ^ slen s + v).
Proof.
  induction s as [|c r IH]; intros acc v H; cbn [digits_val_acc] in *.
  - injection H as <-. unfold slen. cbn. f_equal. lia.
  - destruct (digit_of c) as [d|]; [|discriminate]. cbn [Z.mul Z.add] in H.
    assert (Hd : exists w, digits_val_acc r 0 = Some w) by (eapply acc_indep; eexists; exact H).
    destruct Hd as [w Hw].
    rewrite (IH d w Hw) in H. injection H as <-.
    rewrite (IH (acc * 10 + d) w Hw). f_equal. unfold slen. cbn [String.length]. rewrite Nat2Z.inj_succ, Z.pow_succ_r by lia. lia.
Qed.
Lemma digits_val_app a b va vb : digits_val a = Some va -> digits_val b = Some vb ->
  digits_val (append a b) = Some (va * 10 ^ slen b + vb).
Proof. unfold digits_val. intros Ha Hb. rewrite digits_val_acc_app, Ha. apply digits_val_acc_scale. exact Hb. Qed.
Lemma slen_app a b : slen (append a b) = slen a + slen b.
Proof. unfold slen. induction a as [|c r IH]; cbn [append String.length]; [lia|]. rewrite !Nat2Z.inj_succ. lia. Qed.
Lemma slen_nonneg s : 0 <= slen s. Proof. unfold slen. lia. Qed.

Lemma take_drop n s : append (takeN n s) (dropN n s) = s.
Proof. revert s. induction n as [|n IH]; intros s; [destruct s; reflexivity|].
  destruct s as [|c r]; [reflexivity|]. cbn [takeN dropN append]. rewrite IH. reflexivity. Qed.
Lemma length_takeN n s : String.length (takeN n s) = Nat.min n (String.length s).
Proof. revert s. induction n as [|n IH]; intros s; [destruct s; reflexivity|].
  destruct s as [|c r]; [reflexivity|]. cbn [takeN String.length]. rewrite IH. reflexivity. Qed.
Lemma digits_split n s v : digits_val s = Some v ->
  exists a b, digits_val (takeN n s) = Some a /\ digits_val (dropN n s) = Some b.
Proof.
  revert s v. induction n as [|n IH]; intros s v H.
  - exists 0, v. split; [destruct s; reflexivity|destruct s; exact H].
  - destruct s as [|c r]; [exists 0, 0; split; reflexivity|].
    unfold digits_val in *. cbn [digits_val_acc takeN dropN] in *.
    destruct (digit_of c) as [d|]; [|discriminate].
    assert (Hr : exists w, digits_val_acc r 0 = Some w) by (eapply acc_indep; eexists; exact H).
    destruct Hr as [w Hw]. destruct (IH r w Hw) as (a & b & Ha & Hb).
    exists (d * 10 ^ slen (takeN n r) + a), b. split; [|exact Hb].
    rewrite (digits_val_acc_scale _ (0 * 10 + d) a Ha). f_equal; lia.
Qed.

(* ---------- powers of ten in Q ---------- *)
Lemma pow10_pos k : 0 <= k -> 0 < 10 ^ k. Proof. intros. apply Z.pow_pos_nonneg; lia. Qed.
Lemma inj_pow_nz k : 0 <= k -> ~ (inject_Z (10 ^ k) == 0)%Q.
Proof. intros H E. pose proof (pow10_pos k H). unfold Qeq, inject_Z in E. cbn in E. lia. Qed.
Lemma inj_pow_add a b : 0 <= a -> 0 <= b -> (inject_Z (10 ^ (a + b)) == inject_Z (10 ^ a) * inject_Z (10 ^ b))%Q.
Proof. intros. rewrite Z.pow_add_r by assumption. rewrite inject_Z_mult. reflexivity. Qed.
Lemma pow10Q_nonneg e : 0 <= e -> (pow10Q e == inject_Z (10 ^ e))%Q.
Proof. intros H. unfold pow10Q. destruct (0 <=? e) eqn:E; [reflexivity|apply Z.leb_gt in E; lia]. Qed.
Lemma pow10Q_nonpos e : e <= 0 -> (pow10Q e == 1 / inject_Z (10 ^ (- e)))%Q.
Proof. intros H. unfold pow10Q. destruct (0 <=? e) eqn:E; [|reflexivity]. apply Z.leb_le in E.
  assert (e = 0) by lia. subst. cbn. reflexivity. Qed.

(* ---------- the shuffle preserves the value ---------- *)
Theorem shuffle_value s_count s_frac (e a b : Z) (c f : Q) :
  digits_val s_count = Some a -> digits_val s_frac = Some b ->
  parse_exact_core s_count s_frac (Some e) = Some (c, f) ->
  (c + f == (inject_Z a + inject_Z b / inject_Z (10 ^ slen s_frac)) * pow10Q e)%Q.
Proof.
  intros Ha Hb. unfold parse_exact_core, shuffle.
  pose proof (slen_nonneg s_count) as Lc. pose proof (slen_nonneg s_frac) as Lf.
  destruct (e <? 0) eqn:E1.
  - apply Z.ltb_lt in E1.
    set (n := Z.min (slen s_count) (- e)). set (k := slen s_count - n).
    assert (Hn : 0 <= n <= slen s_count) by (unfold n; lia). assert (Hk : 0 <= k) by (unfold k; lia).
    unfold take, drop. fold k.
    destruct (digits_split (Z.to_nat k) s_count a Ha) as (hd & mv & Hhd & Hmv).
    pose proof (take_drop (Z.to_nat k) s_count) as TD.
    assert (Lmv : slen (dropN (Z.to_nat k) s_count) = n).
    { pose proof (slen_app (takeN (Z.to_nat k) s_count) (dropN (Z.to_nat k) s_count)) as SA. rewrite TD in SA.
      assert (slen (takeN (Z.to_nat k) s_count) = k).
      { unfold slen. rewrite length_takeN. unfold slen in Lc, k, Hn. lia. }
      unfold k in *. lia. }
    assert (Aeq : a = hd * 10 ^ n + mv).
    { pose proof (digits_val_app _ _ hd mv Hhd Hmv) as DA. rewrite TD, Ha, Lmv in DA. injection DA as ->. reflexivity. }
    rewrite Hhd. unfold frac_val. rewrite (digits_val_app _ _ mv b Hmv Hb). cbn [option_map].
    rewrite slen_app, Lmv.
    intros H. injection H as <- <-.
    rewrite (pow10Q_nonpos (e + n)) by (unfold n; lia). rewrite (pow10Q_nonpos e) by lia.
    assert (X1 : (inject_Z (10 ^ (- e)) == inject_Z (10 ^ n) * inject_Z (10 ^ (- (e + n))))%Q).
    { rewrite <- inj_pow_add by (unfold n; lia). replace (n + - (e + n)) with (- e) by lia. reflexivity. }
    rewrite X1. rewrite (inj_pow_add n (slen s_frac)) by lia.
    rewrite Aeq. rewrite !inject_Z_plus, !inject_Z_mult.
    pose proof (inj_pow_nz n ltac:(lia)). pose proof (inj_pow_nz (slen s_frac) Lf). pose proof (inj_pow_nz (- (e + n)) ltac:(unfold n; lia)).
    field. repeat split; assumption.
  - destruct (0 <? e) eqn:E2.
    + apply Z.ltb_lt in E2.
      set (n := Z.min (slen s_frac) e). assert (Hn : 0 <= n <= slen s_frac) by (unfold n; lia).
      unfold take, drop.
      destruct (digits_split (Z.to_nat n) s_frac b Hb) as (t & d & Ht & Hd).
      pose proof (take_drop (Z.to_nat n) s_frac) as TD.
      assert (Lt : slen (takeN (Z.to_nat n) s_frac) = n).
      { unfold slen. rewrite length_takeN. unfold slen in Lf, Hn. lia. }
      assert (Ld : slen (dropN (Z.to_nat n) s_frac) = slen s_frac - n).
      { pose proof (slen_app (takeN (Z.to_nat n) s_frac) (dropN (Z.to_nat n) s_frac)) as SA. rewrite TD in SA. lia. }
      assert (Beq : b = t * 10 ^ (slen s_frac - n) + d).
      { pose proof (digits_val_app _ _ t d Ht Hd) as DA. rewrite TD, Hb, Ld in DA. injection DA as ->. reflexivity. }
      rewrite (digits_val_app _ _ a t Ha Ht). unfold frac_val. rewrite Hd. cbn [option_map]. rewrite Lt, Ld.
      intros H. injection H as <- <-.
      rewrite (pow10Q_nonneg (e - n)) by (unfold n; lia). rewrite (pow10Q_nonneg e) by lia.
      assert (X1 : (inject_Z (10 ^ e) == inject_Z (10 ^ n) * inject_Z (10 ^ (e - n)))%Q).
      { rewrite <- inj_pow_add by (unfold n; lia). replace (n + (e - n)) with e by lia. reflexivity. }
      assert (X2 : (inject_Z (10 ^ slen s_frac) == inject_Z (10 ^ n) * inject_Z (10 ^ (slen s_frac - n)))%Q).
      { rewrite <- inj_pow_add by lia. replace (n + (slen s_frac - n)) with (slen s_frac) by lia. reflexivity. }
      rewrite X1, X2.
      rewrite Beq. rewrite !inject_Z_plus, !inject_Z_mult.
      pose proof (inj_pow_nz n ltac:(lia)). pose proof (inj_pow_nz (slen s_frac - n) ltac:(lia)).
      field. repeat split; assumption.
    + apply Z.ltb_ge in E1. apply Z.ltb_ge in E2. assert (e = 0) by lia. subst e.
      rewrite Ha. unfold frac_val. rewrite Hb. cbn [option_map]. intros H. injection H as <- <-.
      pose proof (inj_pow_nz (slen s_frac) Lf). cbn [pow10Q Z.leb]. change (inject_Z (10 ^ 0)) with 1%Q. field. assumption.
Qed.

(* without an exponent nothing moves *)
Theorem no_exponent_value s_count s_frac (a b : Z) (c f : Q) :
  digits_val s_count = Some a -> digits_val s_frac = Some b ->
  parse_exact_core s_count s_frac None = Some (c, f) ->
  (c + f == inject_Z a + inject_Z b / inject_Z (10 ^ slen s_frac))%Q.
Proof.
  intros Ha Hb. unfold parse_exact_core. rewrite Ha. unfold frac_val. rewrite Hb. cbn [option_map].
  intros H. injection H as <- <-. pose proof (inj_pow_nz (slen s_frac) (slen_nonneg _)). field. assumption.
Qed.

(* the count is an integer whenever the exponent has been absorbed (no negative power of ten left over) *)
Theorem count_integral s_count s_frac (e : Z) (c f : Q) :
  parse_exact_core s_count s_frac (Some e) = Some (c, f) -> - slen s_count <= e -> exists k : Z, (c == inject_Z k)%Q.
Proof.
  unfold parse_exact_core, shuffle. intros H He. pose proof (slen_nonneg s_count) as Lc.
  destruct (e <? 0) eqn:E1.
  - apply Z.ltb_lt in E1. rewrite Z.min_r in H by lia.
    destruct (digits_val (take (slen s_count - - e) s_count)) as [v|]; [|discriminate].
    destruct (frac_val _); [|discriminate]. injection H as <- _.
    replace (e + - e) with 0 by lia. exists v. cbn. ring.
  - destruct (0 <? e) eqn:E2.
    + apply Z.ltb_lt in E2. destruct (digits_val _) as [v|]; [|discriminate]. destruct (frac_val _); [|discriminate].
      injection H as <- _. exists (v * 10 ^ (e - Z.min (slen s_frac) e)).
      rewrite pow10Q_nonneg by lia. rewrite inject_Z_mult. reflexivity.
    + destruct (digits_val s_count) as [v|]; [|discriminate]. destruct (frac_val _); [|discriminate].
      injection H as <- _. exists v. cbn. ring.
Qed.
