(* Props/C17.v -- elementwise NumPy operations on signals equal the same operations on their data.  Statements only; the model
   (Model/Ufunc.v) follows Signal.__array_ufunc__ over an abstract array type and an arbitrary ufunc. *)
From Coq Require Import List Bool Arith.
From PB Require Import Model.Ufunc Proofs.UfuncProofs Gen.GenUfunc Proofs.UfuncGen.
Import ListNotations.

(* every ufunc, any number of inputs and outputs, any operand arrangement with at least one signal among the inputs:
   result i is wrap ref (value i of the ufunc on the unwrapped data) out_i, ref = the FIRST signal operand *)
Theorem C17_results : forall (A : Type) (ufunc : list A -> list A) inputs out (ref : sig A),
  first_sig A inputs = Some ref -> length out = length (ufunc (map (unwrap A) inputs)) ->
  exists rs, array_ufunc A ufunc MCall false inputs out = Results A rs /\ length rs = length out /\
  forall i a o, nth_error (ufunc (map (unwrap A) inputs)) i = Some a -> nth_error out i = Some o ->
    nth_error rs i = Some (wrap A ref a o).
Proof. exact call_results. Qed.
Theorem C17_first_signal : forall (A : Type) inputs (s : sig A), first_sig A inputs = Some s ->
  exists pre post, inputs = pre ++ OSig A s :: post /\ forallb (fun o => negb (is_sig A o)) pre = true.
Proof. exact first_sig_first. Qed.
Theorem C17_no_out : forall (A : Type) (ref : sig A) a,
  wrap A ref a None = RSig A {| s_id := 0; s_cls := s_cls A ref; s_meta := s_meta A ref; s_data := a |}.
Proof. exact no_out_result. Qed.
Theorem C17_out_signal : forall (A : Type) (ref z : sig A) a,
  wrap A ref a (Some (OSig A z)) = RSig A {| s_id := s_id A z; s_cls := s_cls A z; s_meta := s_meta A z; s_data := a |}.
Proof. exact out_signal_result. Qed.
Theorem C17_out_array : forall (A : Type) (ref : sig A) a b, wrap A ref a (Some (OArr A b)) = RArr A a.
Proof. exact out_array_result. Qed.
(* reductions, accumulations, outer, at, reduceat and matmul are refused (NotImplemented from every operand = TypeError) *)
Theorem C17_refused : forall (A : Type) (ufunc : list A -> list A) m mm inputs out,
  m <> MCall \/ mm = true -> array_ufunc A ufunc m mm inputs out = NotImplemented A.
Proof. exact refused. Qed.
(* chains of in-place operations of any length keep the identity, class and metadata of their target *)
Theorem C17_inplace_chain : forall (A : Type) (ufunc : list A -> list A), (forall l, length (ufunc l) = 1) ->
  forall xs z, exists z', chain A ufunc z xs = Some z' /\ s_id A z' = s_id A z /\ s_cls A z' = s_cls A z /\ s_meta A z' = s_meta A z.
Proof. exact chain_keeps_identity. Qed.

Example C17_witness :   (* np.modf(arr, sig, out=(None, sig2)) style: two outputs, the reference is the second operand *)
  array_ufunc nat (fun l => [hd 0 l + 1; hd 0 l + 2]) MCall false
    [OArr nat 10; OSig nat {| s_id := 7; s_cls := 4; s_meta := 3; s_data := 20 |}]
    [None; Some (OSig nat {| s_id := 9; s_cls := 1; s_meta := 5; s_data := 0 |})]
  = Results nat [RSig nat {| s_id := 0; s_cls := 4; s_meta := 3; s_data := 11 |};
                 RSig nat {| s_id := 9; s_cls := 1; s_meta := 5; s_data := 12 |}].
Proof. reflexivity. Qed.

(* tie to the source by translation (T10): the refusal test, the reference signal (first signal among the inputs, else self) and the
   wrapping rule (a fresh signal like the reference exactly where no destination was given) are GENERATED from Signal.__array_ufunc__ on
   this run - its remaining statements (unwrapping, the call handing out= and **kwargs on, the relays) are pinned as syntax trees *)
Theorem C17_generated : forall (A : Type) (ufunc : list A -> list A) (m : method) (is_matmul : bool)
    (inputs : list (operand A)) (out : list (option (operand A))),
  array_ufunc A ufunc m is_matmul inputs out =
  if gen_refused (match m with MCall => true | _ => false end) is_matmul then NotImplemented A
  else match first_sig A (inputs ++ flat_map (fun o => match o with Some x => [x] | None => [] end) out) with
       | None => NotImplemented A
       | Some self =>
           let ref := gen_ref A inputs self in
           Results A (map (fun p => gen_wrap A ref (fst p) (snd p)) (combine (ufunc (map (unwrap A) inputs)) out))
       end.
Proof. exact array_ufunc_generated. Qed.

Print Assumptions C17_results.
Print Assumptions C17_refused.
Print Assumptions C17_inplace_chain.
Print Assumptions C17_generated.
