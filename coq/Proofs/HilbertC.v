(* Proofs/HilbertC.v -- C19 for the complex numbers: Re(analytic signal) = input for every N >= 1, and the
   mixing/decimation sign rule (-i)^(2m) = (-1)^m.  Instance of Proofs/HilbertProofs.v on Coquelicot's C. *)
From Coq Require Import ZArith Reals Lra Lia.
From Coquelicot Require Import Complex.
From PB Require Import Lib.Dft Lib.DftC Model.Hilbert Proofs.HilbertProofs.
Open Scope R_scope.

Section Inst.
  Variable n : nat.
  Hypothesis npos : (0 < n)%nat.

  Definition analyticC (x : nat -> C) (m : nat) : C :=
    analytic C (RtoC 0) Cplus Cmult n (W n) (RtoC (/ INR n)) (inj C (RtoC 0) (RtoC 1) Cplus) x m.

  Theorem analytic_real_part_C (x : nat -> R) (m : nat) : (m < n)%nat ->
    fst (analyticC (fun j => RtoC (x j)) m) = x m.
  Proof.
    intros Hm.
    pose proof (analytic_real_part C (RtoC 0) (RtoC 1) Cplus Cmult Cminus Copp C_ring_theory C_int n npos (W n)
                  (W_add n npos) (W_0 n npos) (W_n n npos) (W_prim n npos) (RtoC (/ INR n)) (ninv_C n npos)
                  Cconj conj_addC conj_mulC conj_0C (conj_WC n npos) (conj_ninvC n)
                  (fun j => RtoC (x j)) m) as H.
    assert (Hx : forall j, Cconj (RtoC (x j)) = RtoC (x j)).
    { intros j. unfold Cconj, RtoC. cbn [fst snd]. f_equal. ring. }
    specialize (H Hx Hm). cbv zeta in H. fold (analyticC (fun j => RtoC (x j)) m) in H.
    set (a := analyticC (fun j => RtoC (x j)) m) in *.
    apply (f_equal fst) in H. destruct a as [ar ai]. unfold Cplus, Cconj, Cmult, RtoC in H. cbn [fst snd] in *. lra.
  Qed.
End Inst.

(* mixing by exp(-i pi/2 k) followed by decimation by two: (-i)^(2m) = (-1)^m, a real sign *)
Fixpoint cpow (z : C) (k : nat) : C := match k with O => RtoC 1 | S k' => Cmult z (cpow z k') end.
Lemma mix_even (m : nat) : cpow (Copp Ci) (2 * m) = RtoC ((-1) ^ m).
Proof.
  induction m as [|m IH]; [reflexivity|].
  replace (2 * S m)%nat with (S (S (2 * m))) by lia. cbn [cpow]. rewrite IH.
  unfold Cmult, Copp, Ci, RtoC. cbn [fst snd pow]. f_equal; ring.
Qed.
