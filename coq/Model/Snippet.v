(* Model/Snippet.v -- pulsarbat.snippet (transforms.py:151-208) on the time ledger (C12).
   t is the start in samples as an exact rational (the float the code holds after normalising the three
   input forms), n the requested length.  No proofs here. *)
From Coq Require Import ZArith QArith Qabs Qround List Bool.
From PB Require Import Lib.PySlice Model.FastLen Model.Ledger.
Open Scope Z_scope.

(* np.allclose(shift, 0): |shift| <= atol = 1e-8 -- time_shift then returns its input unchanged *)
Definition tiny (s : Q) : bool := Qle_bool (Qabs s) (1 # 100000000).

(* result: ledger, provenance of the retained window in the (possibly shifted) signal: off, and
   frac = t - floor t (the band-limited offset; 0 for whole-sample requests).  Err 1 = ValueError *)
Inductive sres := SOk (l : ledger) (off : Z) (frac : Q) (shifted : bool) | SErr (e : Z).

(* tn: the double the code obtains for  t + n  (IEEE addition, supplied by the caller; the theorems
   assume only  t + n - tn <= 1e-8, true of any double sum below 2^26) *)
Definition snippet (l : ledger) (t tn : Q) (n : Z) : sres :=
  if n <? 0 then SErr 1 else
  if Qlt_le_dec t 0 then SErr 1 else
  if Qlt_le_dec (inject_Z (len l)) tn then SErr 1 else
  let i := Qfloor t in                                   (* int(t), t >= 0 *)
  if Qlt_le_dec (inject_Z i) t then
    (* fractional start: shift = i - t in (-1, 0) *)
    let shift := (inject_Z i - t)%Q in
    let new_t0 := match t0 l with None => None | Some a => Some (a - shift * (1 / rate l))%Q end in
    (* time_shift(z, shift, crop=True): unchanged when |shift| <= 1e-8, else one trailing sample cropped *)
    let l1 := if tiny shift then {| t0 := new_t0; rate := rate l; len := len l |}
              else match step l (OShiftCrop 0 (-1)) with
                   | Ok l' _ _ => {| t0 := new_t0; rate := rate l; len := len l' |}
                   | Err _ => l end in
    match time_slice l1 (Some i) (Some (i + n)) None with
    | Ok l2 off _ => SOk l2 off (t - inject_Z i)%Q (negb (tiny shift))
    | Err e => SErr e
    end
  else
    match time_slice l (Some i) (Some (i + n)) None with
    | Ok l2 off _ => SOk l2 off 0 false
    | Err e => SErr e
    end.
