"""C18: next_fast_len / prev_fast_len are the nearest 7-smooth numbers; fast_len crops to prev_fast_len(len).
(P) Props/C18.v about the T1-generated loops; (T) regeneration + model-vs-implementation run;
(M) independent oracle: sorted list of all 7-smooth integers below 2^64."""
import bisect, os, sys
from harness.common import zlit

VFILES = ['Gen/GenUtils.v', 'Model/FastLen.v', 'Proofs/FastLenA.v', 'Proofs/FastLenB.v', 'Proofs/FastLenPrev.v',
          'Proofs/FastLenTop.v', 'Lib/PySlice.v', 'Model/Ledger.v', 'Gen/GenLedger.v', 'Gen/GenFastLenCrop.v', 'Proofs/LedgerGen.v', 'Props/C18.v']


def smooth_numbers(limit):
    out = []
    a = 1
    while a < limit:
        b = a
        while b < limit:
            c = b
            while c < limit:
                d = c
                while d < limit:
                    out.append(d)
                    d *= 7
                c *= 5
            b *= 3
        a *= 2
    return sorted(out)


def run(ctx):
    import numpy as np
    ctx.rule = ('N enumerated exhaustively on [0, M]; plus s-1, s, s+1 and random interior points of the gap for '
                '7-smooth s < 2^62; a case is non-trivial when N > 10 (the loops run); distinct by N. '
                'fast_len cases: signal class x length x start time.')
    ctx.trusted = ['translator T6 translate/py_shift2coq.py (fast_len is a time slice with generated bounds)', 'Coq 8.16.1 kernel (coqc; vm_compute for Examples and case evaluation)',
                   'translator T1 translate/py_int2coq.py (Python ast -> Gallina over Z; lru_cache dropped: pure function)',
                   'this harness (generators, comparison), CPython int = Z']
    ctx.assumptions = ['Python int arithmetic is unbounded integer arithmetic (Z)',
                       'functools.lru_cache does not change results of a pure function']
    ctx.regen()
    built = ctx.build(['Props/C18.vo'])
    ctx.count_obligations(VFILES)
    if built:
        ctx.assumptions_of('Props/C18.v', allowed=set())

    # import the implementation from /repo's working tree; defeat the lru_cache so every call runs the loops
    from pulsarbat import utils
    nfl = getattr(utils.next_fast_len, '__wrapped__', utils.next_fast_len)
    pfl = getattr(utils.prev_fast_len, '__wrapped__', utils.prev_fast_len)

    S = smooth_numbers(2 ** 64)
    rng = ctx.rng
    M = 30000 if ctx.tier == 'quick' else 400000
    Ns = list(range(0, M + 1))
    S62 = [s for s in S if s < 2 ** 62]
    # structured part, always: every 7-smooth number with at most two distinct prime factors (prime powers, 2^a 3^b, ...)
    def nprimes(s):
        return sum(1 for q in (2, 3, 5, 7) if s % q == 0)
    structured = [s for s in S62 if nprimes(s) <= 2] if ctx.tier == 'thorough' else [s for s in S62 if nprimes(s) <= 1 or (nprimes(s) == 2 and s % 6 == 0 and s % 5 and s % 7)]
    escalate = bool(ctx.broken)        # a translator / proof obligation broke: search with the thorough-size sample
    pick = (rng.sample(S62, 6000) if ctx.tier == 'thorough' else rng.sample(S62, 380)) + S62[-20:] + structured
    if escalate:
        pick = list(S62)
        ctx.notes.append('obligation broken: searching around every 7-smooth number below 2^62')
    for s in pick:
        i = bisect.bisect_left(S, s)
        Ns += [s - 1, s, s + 1]
        lo, hi = S[i - 1] if i else 0, s
        if hi - lo > 2:
            Ns += [rng.randrange(lo + 1, hi) for _ in range(3 if ctx.tier == 'thorough' else 1)]
    Ns = [n for n in Ns if 0 <= n < 2 ** 62]

    def oracle_next(n):
        return 0 if n == 0 else S[bisect.bisect_left(S, n)]

    def oracle_prev(n):
        return 0 if n == 0 else S[bisect.bisect_right(S, n) - 1]

    impl = []
    for n in Ns:
        try:
            a, b = nfl(n), pfl(n)
        except Exception as e:
            ctx.fail('raises', dict(N=n), impl=repr(e))
            a = b = -2
        impl.append((a, b))
        ctx.seen(dict(N=n), nontrivial=n > 10, sample=n > 1000)
        ctx.count('N<=10' if n <= 10 else 'N<2^20' if n < 2 ** 20 else 'N<2^40' if n < 2 ** 40 else 'N<2^62')
        # (M) monitor against the independent oracle
        if a != oracle_next(n):
            ctx.fail('next_is_least_smooth', dict(N=n), impl=a, model=oracle_next(n))
        if b != oracle_prev(n):
            ctx.fail('prev_is_greatest_smooth', dict(N=n), impl=b, model=oracle_prev(n))

    # (T) correspondence: the generated Gallina functions on the same inputs, compared inside Coq
    header = ('From Coq Require Import ZArith List. Import ListNotations. Open Scope Z_scope.\n'
              'From PB Require Import Model.FastLen.\n'
              'Definition chk (n a b : Z) : Z := (if get (next_fast_len n) =? a then 0 else 1) + (if get (prev_fast_len n) =? b then 0 else 2).\n')
    # exhaustive part summarised by run lengths, the rest one term per case
    # (when an obligation is already broken the generated model is unavailable / not trusted: the escalated search is monitor-only)
    big = [] if escalate else [(n, a, b) for n, (a, b) in zip(Ns, impl) if n > M]
    items = [f'chk {zlit(n)} {zlit(a)} {zlit(b)}' for n, a, b in big]
    res = ctx.run_cases(header, items, shard=max(50, len(items) // 48 + 1), tag='pts') if items else None
    if res is not None:
        for (n, a, b), r in zip(big, res):
            if r:
                ctx.mismatch('next/prev_fast_len model vs implementation', dict(N=n), impl=[a, b], model=f'code {r}')
    # exhaustive range: the model's outputs over [0,M], run-length encoded, compared with the implementation's
    def rle(vals):
        out = []
        for v in vals:
            if out and out[-1][0] == v:
                out[-1][1] += 1
            else:
                out.append([v, 1])
        return [x for p in out for x in p]
    step = 2500 if ctx.tier == 'quick' else 10000
    items2 = []
    for lo in range(0, M + 1, step):
        n = min(step, M + 1 - lo)
        items2.append(f'flat (rle next_fast_len {lo} (Z.to_nat {n}))')
        items2.append(f'flat (rle prev_fast_len {lo} (Z.to_nat {n}))')
    res2 = None if escalate else ctx.run_cases(header, items2, result_ty='list', shard=2, tag='rle')
    if res2 is not None:
        k = 0
        for lo in range(0, M + 1, step):
            n = min(step, M + 1 - lo)
            for which, col in (('next', 0), ('prev', 1)):
                want = rle([impl[i][col] for i in range(lo, lo + n)])
                if res2[k] != want:
                    # locate first differing N
                    ctx.mismatch(f'{which}_fast_len model vs implementation on [{lo},{lo + n})', dict(lo=lo, n=n),
                                 impl=want[:20], model=res2[k][:20])
                k += 1
    ctx.extra['exhaustive_range'] = [0, M]
    ctx.extra['smooth_numbers_probed'] = len(pick)

    # fast_len on signals (Python-side monitor; ledger theorem C18_fast_len gives the prefix property)
    import astropy.units as u
    from astropy.time import Time
    import pulsarbat as pb
    nsig = 150 if ctx.tier == 'quick' else 1500
    for k in range(nsig):
        L = rng.choice([0, 1, 2, 10, 11, 13, 17, rng.randrange(0, 300), rng.randrange(300, 6000)])
        cls = rng.choice(['Signal', 'RadioSignal', 'BasebandSignal', 'IntensitySignal'])
        st = None if rng.random() < 0.3 else Time('2021-03-04T05:06:07.123456789', precision=9) + rng.random() * 1e4 * u.s
        sr = rng.choice([1 * u.Hz, 1.6 * u.GHz, 33.3 * u.kHz, 0.001 * u.Hz])
        shape = (L, 2) if cls != 'Signal' else (L,)
        data = (np.arange(L * (2 if cls != 'Signal' else 1)).reshape(shape) + 1).astype(
            np.complex64 if cls == 'BasebandSignal' else np.float64)
        kw = dict(sample_rate=sr, start_time=st)
        if cls in ('RadioSignal', 'IntensitySignal'):
            kw.update(center_freq=1 * u.GHz, chan_bw=sr)
        if cls == 'BasebandSignal':
            kw.update(center_freq=1 * u.GHz)
        # a third of the signals are Dask-backed (readers' use_dask=True path), with one or several chunks along time
        chunks = None
        if L > 0 and rng.random() < 0.34:
            import dask.array as da
            c0 = rng.choice([L, max(1, L // 2), max(1, L // 3), rng.randrange(1, L + 1)])
            chunks = (c0,) + shape[1:]
            z = getattr(pb, cls)(da.from_array(data, chunks=chunks), **kw)
        else:
            z = getattr(pb, cls)(data, **kw)
        inp = dict(op='fast_len', cls=cls, len=L, has_start=st is not None, sample_rate=str(sr), dask_chunks=chunks and list(chunks))
        ctx.seen(inp, nontrivial=L > 10, sample=L > 10)
        ctx.count('fast_len')
        try:
            y = pb.fast_len(z)
        except Exception as e:
            ctx.fail('fast_len_raises', inp, impl=repr(e))
            continue
        want = oracle_prev(L)
        try:
            ydata = np.asarray(y.data)
        except Exception as e:
            ctx.fail('fast_len_result_does_not_compute', inp, impl=repr(e))
            continue
        ok = (len(y) == want and type(y) is type(z) and ydata.shape == y.shape and np.array_equal(ydata, data[:want])
              and y.sample_rate == z.sample_rate
              and ((y.start_time is None) == (st is None))
              and (st is None or abs((y.start_time - z.start_time).to_value(u.s)) == 0))
        if not ok:
            ctx.fail('fast_len_crops_to_prev_fast_len_prefix', inp, impl=dict(len=len(y)), model=dict(len=want))
