From Coq Require Import ZArith Lia List Bool.
Open Scope Z_scope.

Inductive outcome (S : Type) := Normal (s : S) | Ret (v : Z) | OutOfFuel.
Arguments Normal {S}. Arguments Ret {S}. Arguments OutOfFuel {S}.

(* inner `while 1:` of next_fast_len, state (x, guess) *)
Fixpoint walk (fuel : nat) (N x g : Z) : outcome (Z * Z) :=
  match fuel with O => OutOfFuel | S fuel =>
    if x <? N then walk fuel N (x * 3) g
    else if x >? N then
      let g := if x <? g then x else g in
      if Z.land x 1 =? 0 then walk fuel N (Z.shiftr x 1) g else Normal (x, g)
    else Ret N
  end.

Definition val (f : Z) (i j : nat) : Z := f * 2 ^ Z.of_nat i * 3 ^ Z.of_nat j.

Lemma val_S_i f i j : val f (S i) j = 2 * val f i j.
Proof. unfold val. rewrite Nat2Z.inj_succ, Z.pow_succ_r by lia. ring. Qed.
Lemma val_S_j f i j : val f i (S j) = 3 * val f i j.
Proof. unfold val. rewrite Nat2Z.inj_succ, Z.pow_succ_r by lia. ring. Qed.
Lemma val_pos f i j : 0 < f -> 0 < val f i j.
Proof. intros. unfold val. assert (0 < 2 ^ Z.of_nat i) by (apply Z.pow_pos_nonneg; lia).
  assert (0 < 3 ^ Z.of_nat j) by (apply Z.pow_pos_nonneg; lia). nia. Qed.
Lemma val_mono_i f i i' j : 0 < f -> (i <= i')%nat -> val f i j <= val f i' j.
Proof. intros Hf H. induction H; [lia|]. rewrite val_S_i. pose proof (val_pos f m j Hf). lia. Qed.
Lemma val_mono_j f i j j' : 0 < f -> (j <= j')%nat -> val f i j <= val f i j'.
Proof. intros Hf H. induction H; [lia|]. rewrite val_S_j. pose proof (val_pos f i m Hf). lia. Qed.
Lemma val_odd f j : Z.odd f = true -> Z.odd (val f 0 j) = true.
Proof. intros Hf. unfold val. simpl (2 ^ _). rewrite Z.mul_1_r.
  induction j. - simpl. rewrite Z.mul_1_r. exact Hf.
  - rewrite Nat2Z.inj_succ, Z.pow_succ_r by lia.
    replace (f * (3 * 3 ^ Z.of_nat j)) with (3 * (f * 3 ^ Z.of_nat j)) by ring.
    rewrite Z.odd_mul, IHj. reflexivity. Qed.

Lemma land1 x : Z.land x 1 = x mod 2.
Proof. change 1 with (Z.ones 1) at 1. rewrite Z.land_ones by lia. reflexivity. Qed.
Lemma odd_mod x : Z.odd x = true -> x mod 2 = 1.
Proof. intros H. rewrite Zmod_odd, H. reflexivity. Qed.

(* accounted: every candidate strictly "before" (i,j) in the walk order that is >= N is >= g *)
Definition acc (N f g : Z) (i j : nat) : Prop :=
  forall i' j', ((j' < j)%nat \/ (j' = j /\ (i < i')%nat)) -> N <= val f i' j' -> g <= val f i' j'.

Lemma walk_spec : forall fuel N f g i j,
  0 < f -> Z.odd f = true -> 0 < N ->
  N <= 2 * val f i j -> g <= 2 * N -> acc N f g i j ->
  match walk fuel N (val f i j) g with
  | Normal (_, g') => g' <= g /\ (forall i' j', N <= val f i' j' -> g' <= val f i' j')
                      /\ (g' = g \/ exists a b, g' = val f a b /\ N < g')
  | Ret v => v = N /\ exists a b, N = val f a b
  | OutOfFuel => True
  end.
Proof.
  induction fuel as [|fuel IH]; intros N f g i j Hf Hodd HN H2x Hg Hacc; [exact I|].
  cbn [walk]. set (x := val f i j) in *.
  destruct (x <? N) eqn:E1.
  - (* triple *)
    apply Z.ltb_lt in E1. replace (x * 3) with (val f i (S j)) by (unfold x; rewrite val_S_j; ring).
    apply IH; auto.
    + rewrite val_S_j. fold x. lia.
    + intros i' j' Hc Hv. destruct Hc as [Hc|[-> Hc]].
      * destruct (Nat.eq_dec j' j) as [->|Hne].
        -- (* same level j: i' <= i impossible since val < N; so i' > i *)
           destruct (Nat.le_gt_cases i' i) as [Hle|Hgt].
           ++ pose proof (val_mono_i f i' i j Hf Hle). fold x in H. lia.
           ++ apply Hacc; auto.
        -- apply Hacc; auto. left. lia.
      * (* level j+1, i' > i : dominated by val (i+1) j which is accounted *)
        assert (Hd: g <= val f (S i) j).
        { apply Hacc. right; split; auto. rewrite val_S_i. fold x. lia. }
        assert (val f (S i) j <= val f i' (S j)).
        { apply Z.le_trans with (val f i' j); [apply val_mono_i; [assumption|lia] | apply val_mono_j; [assumption|lia]]. }
        lia.
  - apply Z.ltb_ge in E1. destruct (x >? N) eqn:E2.
    + apply Z.gtb_lt in E2.
      set (g1 := if x <? g then x else g).
      assert (Hg1: g1 <= g /\ g1 <= x /\ (g1 = g \/ g1 = x)).
      { unfold g1. destruct (x <? g) eqn:E3; [apply Z.ltb_lt in E3|apply Z.ltb_ge in E3]; lia. }
      destruct (Z.land x 1 =? 0) eqn:E4.
      * (* even: halve. i must be > 0 *)
        apply Z.eqb_eq in E4.
        destruct i as [|i].
        { exfalso. pose proof (val_odd f j Hodd) as Ho. fold x in Ho.
          apply odd_mod in Ho. rewrite land1 in E4. lia. }
        assert (Hx : x = 2 * val f i j) by (unfold x; apply val_S_i).
        rewrite Z.shiftr_div_pow2 by lia. change (2^1) with 2.
        replace (x / 2) with (val f i j) by (rewrite Hx, Z.mul_comm, Z.div_mul; lia).
        specialize (IH N f g1 i j Hf Hodd HN).
        destruct (walk fuel N (val f i j) g1) as [[x' g']| v|] eqn:EW; auto.
        -- destruct IH as (A & B & C); try lia.
           { intros i' j' Hc Hv. destruct Hc as [Hc|[-> Hc]].
             - assert (g <= val f i' j') by (apply Hacc; auto). lia.
             - destruct (Nat.eq_dec i' (S i)) as [->|Hne].
               + fold x. lia.
               + assert (g <= val f i' j) by (apply Hacc; auto; right; split; auto; lia). lia. }
           split; [lia|]. split; [exact B|].
           destruct C as [->|C]; [|right; exact C].
           destruct Hg1 as (_ & _ & [->| ->]); [left; reflexivity|right]. exists (S i), j. split; [reflexivity|lia].
        -- apply IH; try lia.
           intros i' j' Hc Hv. destruct Hc as [Hc|[-> Hc]].
           ++ assert (g <= val f i' j') by (apply Hacc; auto). lia.
           ++ destruct (Nat.eq_dec i' (S i)) as [->|Hne].
              ** fold x. lia.
              ** assert (g <= val f i' j) by (apply Hacc; auto; right; split; auto; lia). lia.
      * (* odd: break; i = 0 *)
        apply Z.eqb_neq in E4.
        assert (Hi : i = 0%nat).
        { destruct i as [|i]; auto. exfalso. apply E4.
          assert (Hx : x = 2 * val f i j) by (unfold x; apply val_S_i).
          rewrite land1, Hx, Z.mul_comm. apply Z.mod_mul. lia. }
        subst i. split; [lia|]. split.
        -- intros i' j' Hv.
           destruct (Nat.lt_ge_cases j' j) as [Hlt|Hge].
           { assert (g <= val f i' j') by (apply Hacc; auto). lia. }
           destruct (Nat.eq_dec j' j) as [->|Hne].
           { destruct i' as [|i']. - fold x. lia.
             - assert (g <= val f (S i') j) by (apply Hacc; auto; right; split; auto; lia). lia. }
           assert (x <= val f i' j').
           { unfold x. apply Z.le_trans with (val f i' j); [apply val_mono_i; [assumption|lia] | apply val_mono_j; [assumption|lia]]. }
           lia.
        -- destruct Hg1 as (_ & _ & [->| ->]); [left; reflexivity|right]. exists 0%nat, j. split; [reflexivity|lia].
    + rewrite Z.gtb_ltb in E2. apply Z.ltb_ge in E2. split; [reflexivity|]. exists i, j. fold x. lia.
Qed.
Print Assumptions walk_spec.
