(* Proofs/PolGen.v -- C13: the conversion and Stokes formulas of Model/Pol ARE those translated from core.py (Gen/GenPol.v, regenerated on
   every run by T11), over the same abstract carrier: so the theorems over R and the binary64 instance run against the code are both about
   the translated source. *)
From Coq Require Import List.
From PB Require Import Model.Pol Gen.GenPol.
Import ListNotations.

Section PolGen.
  Variable T : Type.
  Variables (add sub mul div : T -> T -> T) (opp : T -> T) (zero two s : T).

  Theorem to_intensity_generated a : to_intensity T add mul a = gen_intensity T add mul a.
  Proof. reflexivity. Qed.
  Theorem to_lin_generated l r : to_lin T add sub div opp s l r = gen_to_lin T add sub div opp s l r.
  Proof. reflexivity. Qed.
  Theorem to_circ_generated x y : to_circ T add sub div opp s x y = gen_to_circ T add sub div opp s x y.
  Proof. reflexivity. Qed.
  Theorem stokes_lin_generated x y : stokes_lin T add sub mul opp two x y = gen_stokes_lin T add sub mul opp two x y.
  Proof. reflexivity. Qed.
  Theorem stokes_circ_generated l r : stokes_circ T add sub mul opp two l r = gen_stokes_circ T add sub mul opp two l r.
  Proof. reflexivity. Qed.
End PolGen.
