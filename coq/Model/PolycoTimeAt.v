(* Model/PolycoTimeAt.v -- PhasePredictor.time_at (pulsar/predictor.py): the LOGIC around the root finder - the range check, the choice
   of the entry whose TMID is the first guess, and what is returned.  scipy.optimize.root_scalar is a parameter of the model (a function
   from the residual to a root, or None when it fails); nothing about Newton's iteration is modelled.  No proofs in this file. *)
From Coq Require Import ZArith QArith List Bool.
From PB Require Import Model.Polyco.
Import ListNotations.
Open Scope Q_scope.

Definition Qlt_bool (a b : Q) : bool := negb (Qle_bool b a).

(* check = reduce(or, ((self(a) < phase) & (phase < self(b)) for a, b in self.intervals)); None = evaluating self(.) raised *)
Fixpoint ta_check (eps : Q) (es : list entry) (iv : list (Q * Q)) (ph : Q) : option bool :=
  match iv with
  | [] => Some false
  | (a, b) :: r =>
      match predict eps es a, predict eps es b, ta_check eps es r ph with
      | Some pa, Some pb, Some c => Some ((Qlt_bool pa ph && Qlt_bool ph pb) || c)
      | _, _, _ => None
      end
  end.

(* ph_end = (self(self["tmid"] + self["span"] / 2) - phase).value *)
Fixpoint ta_ph_end (eps : Q) (all es : list entry) (ph : Q) : option (list Q) :=
  match es with
  | [] => Some []
  | e :: r => match predict eps all (e_end e), ta_ph_end eps all r ph with
              | Some p, Some l => Some ((p - ph) :: l)
              | _, _ => None
              end
  end.

(* index = np.searchsorted(ph_end, 0); guess = self["tmid"][index]   (None: an IndexError / ValueError on the way) *)
Definition ta_guess (eps : Q) (es : list entry) (ph : Q) : option Q :=
  match ta_ph_end eps es es ph with
  | Some l => match nth_error es (searchsorted l 0) with Some e => Some (e_tmid e) | None => None end
  | None => None
  end.

Inductive ta_res := TaTime (t : Q) | TaValueError | TaOther.

(* solver f: a root of the residual f (x in seconds from the guess), or None *)
Definition time_at (solver : (Q -> option Q) -> option Q) (eps : Q) (es : list entry) (ph : Q) (guess : option Q) : ta_res :=
  match ta_check eps es (intervals eps es) ph with
  | None => TaOther
  | Some false => TaValueError
  | Some true =>
      match (match guess with Some g => Some g | None => ta_guess eps es ph end) with
      | None => TaOther
      | Some g =>
          match solver (fun x => match predict eps es (g + x) with Some p => Some (p - ph) | None => None end) with
          | Some x => TaTime (g + x)
          | None => TaOther
          end
      end
  end.
