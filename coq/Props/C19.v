(* Props/C19.v -- real_to_complex is the exact analytic-baseband conversion. *)
From Coq Require Import ZArith Reals.
From Coquelicot Require Import Complex.
From PB Require Import Lib.Dft Lib.DftC Model.Hilbert Proofs.HilbertProofs Proofs.HilbertC.

(* the Hilbert weights, as the code assigns them, pair up to 2 for EVERY N >= 1 (DC / Nyquist, both parities) *)
Theorem C19_weights : forall N k, (1 <= N)%Z -> (0 <= k < N)%Z -> (h N k + h N ((N - k) mod N) = 2)%Z.
Proof. exact weights_pair. Qed.
Theorem C19_len : forall N, (0 <= N)%Z -> out_len N = ((N + 1) / 2)%Z.          (* ceil(N/2); N = 0 -> 0 *)
Proof. exact out_len_ceil. Qed.
Theorem C19_decimation_index : forall N m, (0 <= N)%Z -> (0 <= m < out_len N)%Z -> (0 <= 2 * m < N)%Z.
Proof. exact out_len_index. Qed.
(* real part of the analytic signal is the input: every real input, every N >= 1, every sample *)
Theorem C19_real : forall (n : nat) (npos : (0 < n)%nat) (x : nat -> R) (m : nat), (m < n)%nat ->
  fst (analyticC n (fun j => RtoC (x j)) m) = x m.
Proof. exact analytic_real_part_C. Qed.
(* mixing by exp(-i pi/2 k) then keeping even k: the factor is the real sign (-1)^m, so (-1)^m Re(out m) = x(2m) *)
Theorem C19_mix : forall m, cpow (Copp Ci) (2 * m) = RtoC ((-1) ^ m).
Proof. exact mix_even. Qed.
Theorem C19_dtype : out_dtype true false = Some 0%Z /\ out_dtype false false = Some 1%Z /\ forall b, out_dtype b true = None.
Proof. repeat split; reflexivity. Qed.
(* linearity (abstract carrier): Proofs/HilbertProofs.analytic_linear; tone w -> w - N/4 and axis independence are
   checked against the code by the correspondence run. *)

Print Assumptions C19_weights.
Print Assumptions C19_len.
Print Assumptions C19_real.
Print Assumptions C19_mix.
