"""C19: real_to_complex is the exact analytic-baseband conversion along any axis.
(P) Props/C19.v; (T) the carrier-generic transform of Model/Hilbert.v, instantiated with binary64 floats,
evaluated by vm_compute on 1-d lanes; weights/length compared exactly; (M) an independent O(N^2)
longdouble evaluation of the definition, real-part / tone / linearity / dtype / axis clauses."""
import numpy as np
import pulsarbat as pb
from pulsarbat.utils import real_to_complex
from harness.common import float_lit, zlit, listlit

VFILES = ['Lib/Dft.v', 'Lib/DftC.v', 'Lib/F64.v', 'Model/Hilbert.v', 'Proofs/HilbertProofs.v', 'Lib/PySlice.v', 'Gen/GenHilbert.v', 'Proofs/HilbertGen.v', 'Proofs/HilbertC.v', 'Proofs/HilbertTone.v', 'Props/C19.v']
REAL_AX = {'ClassicalDedekindReals.sig_forall_dec', 'ClassicalDedekindReals.sig_not_dec',
           'FunctionalExtensionality.functional_extensionality_dep', 'Classical_Prop.classic'}

HEADER = '''From Coq Require Import ZArith PrimFloat List Bool. Import ListNotations. Open Scope Z_scope.
From PB Require Import Lib.F64 Model.Hilbert.
Definition chk_lane (xs : list float) (out : list Fc) (tol : float) : Z := if Fcclose_list tol (rtc_f xs) out then 0 else 1.
Definition chk_len (N n : Z) : Z := if out_len N =? n then 0 else 1.
'''


def oracle(x):
    """definition evaluated directly: analytic signal (negative frequencies removed), mixed by -fs/4, decimated by 2."""
    N = x.shape[0]
    xs = x.astype(np.longdouble)
    n = np.arange(N, dtype=np.longdouble)
    twopi = 2 * np.pi * np.longdouble(1)
    k = np.arange(N, dtype=np.longdouble)
    X = np.tensordot(np.exp(-1j * twopi * np.outer(k, n) / N), xs.astype(np.clongdouble), axes=(1, 0))
    w = np.zeros(N, dtype=np.longdouble)
    for kk in range(N):
        if kk == 0 or (N % 2 == 0 and kk == N // 2):
            w[kk] = 1            # DC and Nyquist are shared between positive and negative frequencies
        elif kk < (N + 1) // 2:
            w[kk] = 2
    a = np.tensordot(np.exp(1j * twopi * np.outer(n, k) / N), X * w.reshape((N,) + (1,) * (x.ndim - 1)), axes=(1, 0)) / N
    a = a * np.exp(-1j * (np.pi * np.longdouble(1)) / 2 * n).reshape((N,) + (1,) * (x.ndim - 1))
    return a[::2]


def run(ctx):
    rng = ctx.rng
    nprng = np.random.default_rng(ctx.seed + 19)
    ctx.rule = ('lengths 0..65 (both parities, 1, 2, 3) and a few up to 300, ranks 1..4, every axis, every real dtype '
                '(float16/32/64, int8..64, uint8, bool), random (not tone) data plus tones incl. DC and Nyquist; complex input. '
                'non-trivial: N >= 2; distinct by (shape, axis, dtype, kind, seed).')
    ctx.trusted = ['translator T8 translate/py_hilbert2coq.py (weights as the sequence of array writes, output length, dtype rule, ramp direction; other statements pinned)', 'Coq 8.16.1 kernel + stdlib real axioms (C19_real, C19_mix); vm_compute on primitive floats',
                   'Lib/F64.cis_turn (model-side phasor, 1e-16)', 'scipy.fft = DFT (validated here numerically)']
    ctx.assumptions = ['tolerance 4e-6*max|x| (float32 and float16 input: scipy.fft works in single precision for both) / 1e-12*N*max|x| (otherwise)']
    built = ctx.build(['Props/C19.vo'])
    ctx.count_obligations(VFILES)
    if built:
        ctx.assumptions_of('Props/C19.v', allowed=REAL_AX)

    items, meta = [], []
    NC = 260 if ctx.tier == 'quick' else 3000
    dts = [np.float64, np.float64, np.float32, np.float32, np.float16, np.int8, np.int16, np.int32, np.int64, np.uint8, np.bool_]
    for c in range(NC):
        N = rng.choice([0, 1, 2, 3, 4, 5, 6, 7, 8, 9, 15, 16, 17, 31, 32, 33, 64, 65, rng.randint(0, 65), rng.randint(0, 65)])
        if ctx.tier == 'thorough' and rng.random() < 0.05:
            N = rng.randint(66, 300)
        rank = rng.choice([1, 1, 2, 3, 4])
        axis = rng.randrange(rank)
        shape = [rng.choice([1, 2, 3]) for _ in range(rank)]
        shape[axis] = N
        dt = rng.choice(dts)
        kind = rng.choice(['noise', 'noise', 'tone', 'nyquist', 'dc'])
        if dt is np.bool_:
            x = nprng.integers(0, 2, size=shape).astype(dt)
        elif np.issubdtype(dt, np.integer):
            x = nprng.integers(0 if dt is np.uint8 else -100, 100, size=shape).astype(dt)
        else:
            x = nprng.standard_normal(shape)
            t = np.arange(N).reshape([N if i == axis else 1 for i in range(rank)])
            if kind == 'tone' and N > 2:
                w = rng.randint(0, N // 2)
                x = np.broadcast_to(np.cos(2 * np.pi * w * t / N + 0.3), shape).copy()
            elif kind == 'nyquist' and N >= 2:
                x = np.broadcast_to(np.cos(np.pi * t), shape).copy()
            elif kind == 'dc':
                x = np.ones(shape)
            x = x.astype(dt)
        use_neg_axis = rng.random() < 0.2
        ax_arg = axis - rank if use_neg_axis else axis
        inp = dict(shape=shape, axis=ax_arg, dtype=np.dtype(dt).name, kind=kind, N=N, case=c)
        ctx.seen(inp, nontrivial=N >= 2)
        ctx.count(f'rank{rank}')
        ctx.count('even' if N % 2 == 0 else 'odd')
        ctx.count('dtype:' + np.dtype(dt).name)
        try:
            y = real_to_complex(x, axis=ax_arg) if (rank > 1 or axis != 0 or rng.random() < 0.5) else real_to_complex(x)
        except Exception as e:
            ctx.fail('raised_on_real_input', inp, impl=repr(e))
            continue
        want_dt = np.complex64 if dt is np.float32 else np.complex128
        want_shape = list(shape)
        want_shape[axis] = (N + 1) // 2
        items.append(f'chk_len {N} {y.shape[axis] if y.ndim == rank else -1}')
        meta.append(dict(inp=inp, impl=list(y.shape)))
        if y.dtype != want_dt or list(y.shape) != want_shape:
            ctx.fail('dtype_or_shape', inp, impl=[str(y.dtype), list(y.shape)], model=[np.dtype(want_dt).name, want_shape])
            continue
        if N == 0:
            continue
        xm = np.moveaxis(x.astype(np.float64), axis, 0)
        ym = np.moveaxis(y, axis, 0)
        ref = oracle(xm)
        mx = float(np.max(np.abs(xm))) + 1e-300
        single = dt in (np.float32, np.float16)      # scipy.fft computes float16 input in single precision
        tol = (4e-6 if single else 1e-12 * max(N, 1)) * mx
        e = float(np.max(np.abs(ym.astype(np.clongdouble) - ref)))
        ctx.ratio(e, tol)
        if e > tol:
            ctx.fail('analytic_baseband_definition', inp, impl=e, model=tol)
            continue
        # (-1)^m Re(out[m]) = x[2m]
        sign = ((-1.0) ** np.arange(ym.shape[0])).reshape((-1,) + (1,) * (ym.ndim - 1))
        e = float(np.max(np.abs(sign * ym.real - xm[::2])))
        if e > tol:
            ctx.fail('real_part_is_input', inp, impl=e, model=tol)
        # axis independence: same lanes through axis 0
        y0 = real_to_complex(np.ascontiguousarray(np.moveaxis(x, axis, 0)), axis=0)
        if not np.allclose(y0, ym, rtol=0, atol=tol):
            ctx.fail('axis_dependence', inp)
        # linearity
        if np.issubdtype(dt, np.floating) and dt is not np.float16:
            x2 = nprng.standard_normal(shape).astype(dt)
            lhs = real_to_complex((2 * x + 3 * x2).astype(dt), axis=axis)
            rhs = 2 * y + 3 * real_to_complex(x2, axis=axis)
            mx2 = float(np.max(np.abs(x2))) + mx
            if float(np.max(np.abs(lhs - rhs))) > 40 * tol * (mx2 / mx) + (2e-6 * mx2 if single else 0):
                ctx.fail('linearity', inp)
        # tone at w cycles -> complex tone at w - N/4 (checked through the spectrum of the output for even N/2 grids)
        # (T) one lane through the binary64 instance of the Gallina transform
        if N <= 40 or rng.random() < 0.15:
            lane = tuple(rng.randrange(s) for s in xm.shape[1:])
            xs = [float(v) for v in xm[(slice(None),) + lane]]
            out = [complex(v) for v in ym[(slice(None),) + lane]]
            items.append(f'chk_lane {listlit(xs, float_lit)} {listlit(out, lambda v: "(" + float_lit(v.real) + ", " + float_lit(v.imag) + ")")} {float_lit(tol)}')
            meta.append(dict(inp=inp, impl='lane values'))

    # tones: a real tone at w cycles per N samples becomes a complex tone at w - N/4 cycles per N samples
    for N in ([8, 16, 32, 64, 12, 20] if ctx.tier == 'quick' else [8, 12, 16, 20, 24, 32, 40, 64, 128, 256]):
        for w in range(1, N // 2):
            x = np.cos(2 * np.pi * w * np.arange(N) / N)
            y = real_to_complex(x)
            m = np.arange(N // 2)
            want = np.exp(2j * np.pi * (w - N / 4) * (2 * m) / N)
            inp = dict(op='tone', N=N, w=w)
            ctx.seen(inp)
            ctx.count('tone')
            if float(np.max(np.abs(y - want))) > 1e-10:
                ctx.fail('tone_maps_to_w_minus_N_over_4', inp, impl=float(np.max(np.abs(y - want))))
    # long arrays (monitor only): the single-precision result must stay within single-precision rounding of the definition at every
    # sample index.  Reference: the definition through a double-precision FFT; the mixing phase -pi/2*n is reduced exactly (i^-n).
    def fft_oracle(x64):
        N = x64.shape[0]
        Xf = np.fft.fft(x64, axis=0)
        w = np.zeros(N)
        w[0] = 1
        if N % 2 == 0:
            w[N // 2] = 1
        w[1:(N + 1) // 2] = 2
        a = np.fft.ifft(Xf * w.reshape((N,) + (1,) * (x64.ndim - 1)), axis=0)
        mix = np.array([1, -1j, -1, 1j])[np.arange(N) % 4].reshape((N,) + (1,) * (x64.ndim - 1))
        return (a * mix)[::2]
    for c in range(8 if ctx.tier == 'quick' else 60):
        N = rng.choice([4096, 4097, 10000, 65536, 100001, 300000])
        dt = rng.choice([np.float32, np.float32, np.float32, np.float64, np.float16])
        two_d = rng.random() < 0.4
        shape = [N, 2] if two_d else [N]
        axis = 0
        if two_d and rng.random() < 0.5:
            shape, axis = [2, N], 1
        x = nprng.standard_normal(shape).astype(dt)
        inp = dict(shape=shape, axis=axis, dtype=np.dtype(dt).name, kind='long')
        ctx.seen(inp, nontrivial=True); ctx.count('long'); ctx.count('dtype:' + np.dtype(dt).name)
        try:
            y = real_to_complex(x, axis=axis)
        except Exception as e:
            ctx.fail('raised_on_real_input', inp, impl=repr(e))
            continue
        want_dt = np.complex64 if dt is np.float32 else np.complex128
        if y.dtype != want_dt or y.shape[axis] != (N + 1) // 2:
            ctx.fail('dtype_or_shape', inp, impl=[str(y.dtype), list(y.shape)])
            continue
        xm = np.moveaxis(x.astype(np.float64), axis, 0)
        ym = np.moveaxis(y, axis, 0)
        mx = float(np.max(np.abs(xm))) + 1e-300
        single = dt in (np.float32, np.float16)
        tol = (1e-5 if single else 1e-9) * mx      # double: any-length (Bluestein) FFT rounding, far above; the point is the single path
        e = float(np.max(np.abs(ym.astype(np.complex128) - fft_oracle(xm))))
        ctx.ratio(e, tol)
        if e > tol:
            ctx.fail('analytic_baseband_definition', inp, impl=e, model=tol)
            continue
        sign = ((-1.0) ** np.arange(ym.shape[0])).reshape((-1,) + (1,) * (ym.ndim - 1))
        e = float(np.max(np.abs(sign * ym.real - xm[::2])))
        if e > tol:
            ctx.fail('real_part_is_input', inp, impl=e, model=tol)

    # arrays that are empty because ANOTHER dimension has length zero: the converted axis still ends with ceil(N / 2) samples
    for shape, axis in (((5, 0), 0), ((4, 0, 2), 0), ((0, 5), 1), ((6, 0), 0), ((3, 0, 7), 2), ((3, 0, 7), -1), ((0, 4), -1), ((2, 0), 0)):
        for dt in (np.float32, np.float64, np.int16):
            inp = dict(op='empty_other_dimension', shape=list(shape), axis=axis, dtype=np.dtype(dt).name)
            ctx.seen(inp); ctx.count('empty_other_dimension')
            try:
                y = real_to_complex(np.zeros(shape, dtype=dt), axis=axis)
            except Exception as e:
                ctx.fail('conversion_raised', inp, impl=repr(e))
                continue
            want = list(shape)
            want[axis] = (shape[axis] + 1) // 2
            wdt = np.complex64 if dt is np.float32 else np.complex128
            if list(y.shape) != want or y.dtype != wdt:
                ctx.fail('output_shape_or_dtype', inp, impl=[list(y.shape), str(y.dtype)], model=[want, np.dtype(wdt).name])

    # complex input refused
    for dt in (np.complex64, np.complex128):
        try:
            real_to_complex(np.zeros(4, dtype=dt))
            ctx.fail('complex_input_not_refused', dict(dtype=np.dtype(dt).name))
        except ValueError:
            pass
        ctx.seen(dict(op='complex_input', dtype=np.dtype(dt).name))

    res = ctx.run_cases(HEADER, items, shard=max(40, len(items) // 32 + 1))
    if res is None:
        return
    for r, m in zip(res, meta):
        if r:
            ctx.mismatch(f'real_to_complex model (binary64 instance) vs implementation: {m["impl"]}', m['inp'], impl=m['impl'])
