"""C15: Phase ordering, reductions and decimal I/O use the full two-part value.
(P) Props/C15.v; (T) bit-exact models (kernel floats + exact decimal arithmetic) of the comparison branch, of argmin / argmax /
argsort / min / max / ptp / sort (Model/PhaseOrd.v), of _parse_string / from_string and of to_string.do_format (Model/DecStr.v),
evaluated by vm_compute and compared exactly (booleans, indices, (int, frac) bit patterns, strings) with the implementation;
(M) the property on exact rationals: order of exact values, |parsed - decimal value| <= 2^-52, printed string = exact value rounded
to the digits shown, from_string(to_string(p)) = p, a real string never yields an imaginary phase."""
from fractions import Fraction as Fr
import math
import numpy as np
import astropy.units as u
from pulsarbat.pulsar.phase import Phase
from harness.common import float_lit, zlit, listlit
from harness.c07 import ph_lit, num_lit, exact, rand_count, rand_frac, REAL_AX

VFILES = ['Model/Phase2.v', 'Gen/GenPhase.v', 'Proofs/PhaseGen.v', 'Model/PhaseOrd.v', 'Model/DecStr.v', 'Proofs/TwoSumExact.v', 'Proofs/Floor.v', 'Proofs/DayFrac.v',
          'Proofs/DayFrac3.v', 'Proofs/DayFracTail.v', 'Proofs/FoldHalf.v', 'Proofs/DayFracFold.v', 'Proofs/PhaseCmp.v', 'Proofs/PhaseCmpAll.v', 'Proofs/PhaseMul.v', 'Proofs/DivChain.v', 'Proofs/PhaseDiv.v', 'Proofs/PhaseArgmin.v', 'Proofs/PhaseSort.v', 'Proofs/PhaseRemainder.v', 'Proofs/PhaseAdd.v', 'Proofs/PhaseMore.v', 'Proofs/DecStrProofs.v', 'Model/PhaseDivmod.v', 'Gen/GenPhaseOrd.v', 'Proofs/PhaseOrdGen.v', 'Props/C15.v']
TOL = Fr(1, 2 ** 52)

HEADER = '''From Coq Require Import ZArith Bool PrimFloat List String. Import ListNotations.
From PB Require Import Model.Phase2 Model.PhaseOrd Model.DecStr.
Definition P (i f : float) (b : bool) : ph := {| p_int := i; p_frac := f; p_imag := b |}.
Definition cmp_code (m : option bool) (impl : Z) : Z :=
  match m, impl with Some true, 1%Z => 0 | Some false, 0%Z => 0 | None, 2%Z => 0 | _, _ => 1 end%Z.
Definition idx_code (m : nat) (impl : Z) : Z := if (Z.of_nat m =? impl)%Z then 0%Z else 1%Z.
Definition idxs_code (m : list nat) (impl : list Z) : Z := if nat_list_eqb m (map Z.to_nat impl) then 0%Z else 1%Z.
Definition ph_code (m impl : ph) : Z := if ph_eqb m impl then 0%Z else 1%Z.
Definition phs_code (m impl : list ph) : Z :=
  if (Nat.eqb (List.length m) (List.length impl)) && forallb (fun p => ph_eqb (fst p) (snd p)) (combine m impl) then 0%Z else 1%Z.
Definition str_code (m impl : string) : Z := if String.eqb m impl then 0%Z else 1%Z.
Open Scope Z_scope. Open Scope string_scope.
'''
CMP = [('eq', 0, lambda a, b: a == b), ('ne', 1, lambda a, b: a != b), ('lt', 2, lambda a, b: a < b), ('le', 3, lambda a, b: a <= b),
       ('gt', 4, lambda a, b: a > b), ('ge', 5, lambda a, b: a >= b)]


def coq_str(s):
    return '"' + s.replace('"', '""') + '"'


def near_phase(rng, base_c, base_f):
    """a phase equal to, or a few 2^-53 away from, (base_c, base_f), possibly written with another count"""
    k = rng.choice([0, 0, 1, -1, 2, -3, 7, 1 << 10, -(1 << 20)])
    f = base_f + k * 2.0 ** -53
    c = base_c
    if rng.random() < 0.3:          # same value, count moved by one (unnormalised on purpose: Phase() renormalises)
        c, f = base_c + 1, f - 1
    return Phase(float(c), float(f))


def rand_string(rng):
    nd, nf = rng.randint(0, 16), rng.randint(0, 18)
    if rng.random() < 0.15:
        nd = 0
    if rng.random() < 0.15:
        nf = 0
    if nd + nf == 0:
        nd = 1
    ip = ''.join(rng.choice('0123456789') for _ in range(nd))
    if ip and rng.random() < 0.2:
        ip = '0' * len(ip) if rng.random() < 0.5 else ip
    s = ip
    if nf or rng.random() < 0.3:
        s += '.' + ''.join(rng.choice('0123456789') for _ in range(nf))
    if rng.random() < 0.5:
        s += rng.choice('eEdD') + rng.choice(['', '+', '-']) + str(rng.randint(0, 12)).zfill(rng.choice([1, 1, 2]))
    s = rng.choice(['', '', '-', '+']) + s
    if rng.random() < 0.12:
        s += rng.choice('jJ')
    if rng.random() < 0.05:
        s = ' ' + s + ' '
    return s


def string_exact(s):
    t = s.strip().lower().replace('d', 'e')
    imag = t.endswith('j')
    if imag:
        t = t[:-1]
    m, _, e = t.partition('e')
    return Fr(m) * Fr(10) ** int(e or 0), imag


def run(ctx):
    rng = ctx.rng
    ctx.rule = ('comparisons of phases (counts up to 2^52) that are equal, 2^-53..2^-43 apart, or far apart, written with different counts, '
                'against phases and numbers, six operators, both orders; reductions on arrays (length 1..7, ties, near-ties, mixed signs, 2-d '
                'with every axis); decimal strings of 1..34 digits in every spelling (no dot, no integer part, zero parts, E/D exponents '
                '+-0..12, sign, trailing j, spaces) plus malformed ones; to_string with precision None and 0..20, alwayssign, negative and '
                'imaginary phases, fractions of every size incl. 1e-17 and exact +-1/2. non-trivial: all; distinct by input.')
    ctx.trusted = ['translator T7 translate/py_float2coq.py (comparison difference, cycle, argmin/argmax, lexsort keys, min/max/ptp; string methods pinned by syntax-tree hash, translate/pinhash.py)', 'Coq 8.16.1 kernel; stdlib FloatAxioms + real-number axioms through Flocq (comparison theorem); vm_compute',
                   'CPython float(str) = correctly rounded decimal->binary64, repr(float) = shortest round-trip digits, format(x, ".Nf") = '
                   'exact value rounded half-even, int -> float and 10**-k correctly rounded: modelled by exact arithmetic in Model/DecStr.v '
                   'and validated bit for bit / character for character on every case']
    ctx.assumptions = ['phases closer than 2^-53 cycles (but not equal) are below the resolution of the two-double format (D10): not sampled',
                       'fixed-point output is required to be the exact value rounded to the digits shown; deviations of at most 1e-16 cycles (last digit '
                       'at >= 16 decimals, or a value within 1e-16 of a rounding tie) are the recorded known finding D16']
    built = ctx.build(['Props/C15.vo'])
    ctx.count_obligations(VFILES)
    if built:
        ctx.assumptions_of('Props/C15.v', allowed=REAL_AX)
    items, meta = [], []

    def add_item(term, inp, impl, kind):
        items.append(term)
        meta.append(dict(inp=inp, impl=impl, kind=kind))

    # ---------------- comparisons
    NCMP = 300 if ctx.tier == 'quick' else 6000
    for c in range(NCMP):
        bc, bf = rand_count(rng), rand_frac(rng)
        a = Phase(float(bc), bf)
        mode = rng.choice(['near', 'near', 'equal', 'far', 'number'])
        if mode == 'near':
            b = near_phase(rng, bc, bf)
        elif mode == 'equal':
            b = Phase(float(bc + 1), bf - 1) if rng.random() < 0.5 else Phase(float(bc), bf)
        elif mode == 'far':
            b = Phase(float(rand_count(rng)), rand_frac(rng))
        else:
            b = None
        name, code, fn = rng.choice(CMP)
        if rng.random() < 0.4:
            # the ufunc itself, in the operand order written (no reflected operator in between): np.less(number, phase) reaches the
            # Phase as the SECOND input
            fn = {'eq': np.equal, 'ne': np.not_equal, 'lt': np.less, 'le': np.less_equal, 'gt': np.greater, 'ge': np.greater_equal}[name]
            ctx.count('cmp_through_ufunc')
        if b is None:
            x = rng.choice([float(bc), float(bc) + 0.5, 0.0, float(bc + 1)])
            xk = rng.choice([x, np.float64(x), x * u.cycle])
            order = rng.choice(['pn', 'np'])
            inp = dict(op='cmp_number', which=name, a=repr(a), x=x, order=order)
            try:
                r = fn(a, xk) if order == 'pn' else fn(xk, a)
                rb = 1 if bool(r) else 0
            except Exception as e:
                r, rb = e, 2
            lo = f'(OPh {ph_lit(a)}) (ONum {num_lit(x)})' if order == 'pn' else f'(ONum {num_lit(x)}) (OPh {ph_lit(a)})'
            add_item(f'cmp_code (op_cmp {code} {lo}) {rb}', inp, repr(r), 'cmp')
            ea, eb = (exact(a)[0], Fr(x)) if order == 'pn' else (Fr(x), exact(a)[0])
        else:
            inp = dict(op='cmp', which=name, a=repr(a), b=repr(b), mode=mode)
            try:
                r = fn(a, b)
                rb = 1 if bool(r) else 0
            except Exception as e:
                r, rb = e, 2
            add_item(f'cmp_code (op_cmp {code} (OPh {ph_lit(a)}) (OPh {ph_lit(b)})) {rb}', inp, repr(r), 'cmp')
            ea, eb = exact(a)[0], exact(b)[0]
        ctx.seen(inp); ctx.count('cmp:' + mode)
        gap = abs(ea - eb)
        if gap != 0 and gap < Fr(1, 2 ** 53):
            ctx.count('below_resolution_skipped')
            continue
        want = {'eq': ea == eb, 'ne': ea != eb, 'lt': ea < eb, 'le': ea <= eb, 'gt': ea > eb, 'ge': ea >= eb}[name]
        if rb == 2 or bool(rb) != want:
            ctx.fail('comparison_wrong', inp, impl=repr(r), model=want)

    # ---------------- reductions
    NRED = 240 if ctx.tier == 'quick' else 5000
    for c in range(NRED):
        n = rng.choice([1, 2, 3, 4, 5, 7])
        bc = rand_count(rng)
        mode = rng.choice(['cluster', 'neartie_top', 'neartie_bottom', 'random', 'neartie_top', 'neartie_bottom', 'straddle', 'straddle', 'neartie_fine', 'neartie_fine'])
        ctx.count('red_mode:' + mode)
        cs, fs = [], []
        if mode in ('neartie_top', 'neartie_bottom') and n >= 2:
            # an extreme that is a near-tie (gaps of a few 2^-53 .. 2^-40) with the true extreme NOT first, plus far-away elements
            sgn = 1 if mode == 'neartie_top' else -1
            big = abs(bc) if abs(bc) > 2 ** 30 else rng.randint(2 ** 40, 2 ** 51)
            f0 = rng.choice([0.25, -0.125, 0.3, rand_frac(rng) * 0.5])
            ties = rng.randint(2, min(n, 3))
            ks = sorted(rng.sample([0, 1, 2, 3, 5, 1 << 6, 1 << 10], ties))          # distinct multiples of 2^-53
            order = list(range(ties))
            rng.shuffle(order)
            if order[0] == ties - 1 and ties > 1:
                order[0], order[1] = order[1], order[0]
            for j in order:
                cs.append(float(sgn * big)); fs.append(f0 + sgn * ks[j] * 2.0 ** -53)
            while len(cs) < n:
                cs.append(float(-sgn * rng.choice([0, 1, 1000, big // 3, big]))); fs.append(rand_frac(rng))
            if rng.random() < 0.5:            # far element first
                cs = cs[ties:] + cs[:ties]; fs = fs[ties:] + fs[:ties]
        elif mode == 'neartie_fine' and n >= 2:
            # phases of the same (or a neighbouring) count whose fractions are NEIGHBOURING doubles: gaps of 2^-54 and finer, far below the
            # 2^-53 accuracy of a Phase subtraction - the order of the exact two-part values is still defined and must be respected
            big = rng.choice([0, 1, 1000, 2 ** 30, 2 ** 40 + 3, 2 ** 40 + 3, 2 ** 51 - 5, 2 ** 51 - 5]) * rng.choice([1, -1])
            f0 = rng.choice([0.4999999, -0.4999999, 0.4999999, -0.4999999, 0.3, -0.1, 0.01, rand_frac(rng) * 0.9])
            same = rng.random() < 0.7
            while len(cs) < n:
                f = f0
                for _ in range(rng.randint(0, 3)):
                    f = math.nextafter(f, rng.choice([math.inf, -math.inf]))
                cs.append(float(big + (0 if same else rng.choice([0, 0, 0, 1, -1])))); fs.append(max(-0.5, min(0.5, f)))
        elif mode == 'straddle' and n >= 2:
            # near-ties written with DIFFERENT counts: (k, 1/2 - a) and (k+1, -1/2 + b) with a, b tiny multiples of 2^-53
            # (their single-double cycle values tie, the two-part values do not), at counts where that matters
            big = rng.choice([2 ** 40, 2 ** 45, 2 ** 52 - 4, 2 ** 51 + 6, abs(bc) + 2 ** 30]) * rng.choice([1, -1])
            while len(cs) < n:
                r = rng.random()
                if r < 0.45:
                    cs.append(float(big)); fs.append(0.5 - rng.choice([0, 1, 2, 5, 1 << 8, 1 << 20, 1 << 30]) * 2.0 ** -53)
                elif r < 0.9:
                    cs.append(float(big + 1)); fs.append(-0.5 + rng.choice([0, 1, 3, 4, 1 << 9, 1 << 21, 1 << 31]) * 2.0 ** -53)
                else:
                    cs.append(float(rand_count(rng))); fs.append(rand_frac(rng))
            if abs(big) > 2 ** 51:        # grid of the cycle value is 0.5 there: also plain +-0.3 pairs
                cs[0], fs[0] = float(big), 0.3
                cs[1], fs[1] = float(big + 1), -0.3
        else:
            for k in range(n):
                if mode == 'cluster' or rng.random() < 0.6:
                    cs.append(float(bc + rng.choice([0, 0, 0, 1, -1])))
                else:
                    cs.append(float(rand_count(rng)))
                fs.append(rng.choice([rand_frac(rng), 0.25 + rng.choice([0, 1, -1, 5, 1 << 12]) * 2.0 ** -53, 0.25]))
        two_d = rng.random() < 0.3 and n >= 2
        if two_d:
            arr = Phase(np.array([cs, cs[::-1]]), np.array([fs, fs[::-1]]))
            axis = rng.choice([0, 1, -1])
        else:
            arr = Phase(np.array(cs), np.array(fs))
            axis = rng.choice([None, 0, -1])
        which = rng.choice(['argmin', 'argmax', 'argsort', 'min', 'max', 'ptp', 'sort', 'np.min', 'np.max', 'np.argmin', 'np.argmax'])
        if mode == 'neartie_fine' and rng.random() < 0.6:
            which = rng.choice(['argsort', 'sort'])
        inp = dict(op=which, arr=repr(arr), axis=axis, shape=list(arr.shape))
        ctx.seen(inp); ctx.count('red:' + which)
        # lanes the operation reduces over
        if arr.ndim == 1:
            lanes = [arr]
        elif axis is None:
            lanes = [arr.reshape(-1)] if which not in ('argsort', 'sort') else None
        else:
            ax = axis % 2
            lanes = [arr[:, j] for j in range(arr.shape[1])] if ax == 0 else [arr[i, :] for i in range(arr.shape[0])]
        if lanes is None:
            lanes = [arr.reshape(-1)]
        try:
            if which.startswith('np.'):
                r = getattr(np, which[3:])(arr, axis=axis) if axis is not None else getattr(np, which[3:])(arr)
            elif which in ('argsort', 'sort'):
                r = getattr(arr, which)(axis=axis) if axis is not None or arr.ndim == 1 else getattr(arr, which)(axis=None)
            else:
                r = getattr(arr, which)(axis=axis)
        except Exception as e:
            ctx.fail('reduction_raised', inp, impl=repr(e))
            continue
        base = which.replace('np.', '')
        rr = np.asarray(r) if base.startswith('arg') else r
        for li, lane in enumerate(lanes):
            ll = '[' + '; '.join(ph_lit(lane[k]) for k in range(len(lane))) + ']'
            ex = [exact(lane[k])[0] for k in range(len(lane))]
            gaps_ok = True          # the order of the exact two-part values is demanded however close they are (see D26)
            try:
                if base in ('argmin', 'argmax'):
                    got = int(rr.reshape(-1)[li]) if rr.ndim else int(rr)
                    add_item(f'idx_code ({base} {ll}) {got}', inp, got, 'reduction')
                    best = min(ex) if base == 'argmin' else max(ex)
                    if gaps_ok and ex[got] != best:
                        ctx.fail('arg_reduction_wrong', inp, impl=got, model=ex.index(best))
                elif base in ('min', 'max'):
                    got = r.reshape(-1)[li] if r.ndim else r
                    add_item(f'ph_code (p{base} {ll}) {ph_lit(got)}', inp, repr(got), 'reduction')
                    best = min(ex) if base == 'min' else max(ex)
                    if gaps_ok and exact(got)[0] != best:
                        ctx.fail('reduction_value_wrong', inp, impl=repr(got), model=float(best))
                elif base == 'ptp':
                    got = r.reshape(-1)[li] if r.ndim else r
                    add_item(f'res_code (ptp {ll}) (RPh {ph_lit(got)})', inp, repr(got), 'reduction')
                    if gaps_ok and abs(exact(got)[0] - (max(ex) - min(ex))) > TOL:
                        ctx.fail('ptp_wrong', inp, impl=repr(got), model=float(max(ex) - min(ex)))
                elif base == 'argsort':
                    got = [int(v) for v in (rr if rr.ndim == 1 else (rr[:, li] if (axis is not None and axis % 2 == 0) else rr[li, :]))]
                    add_item(f'idxs_code (argsort {ll}) {listlit(got, zlit)}', inp, got, 'reduction')
                    if gaps_ok and any(ex[got[i]] > ex[got[i + 1]] for i in range(len(got) - 1)) or sorted(got) != list(range(len(ex))):
                        ctx.fail('argsort_wrong', inp, impl=got)
                else:
                    g = r if r.ndim == 1 else (r[:, li] if (axis is not None and axis % 2 == 0) else r[li, :])
                    got = [g[k] for k in range(len(g))]
                    add_item(f'phs_code (psort {ll}) [{"; ".join(ph_lit(x) for x in got)}]', inp, repr(g), 'reduction')
                    ge = [exact(x)[0] for x in got]
                    if gaps_ok and (any(ge[i] > ge[i + 1] for i in range(len(ge) - 1)) or sorted(ge) != sorted(ex)):
                        ctx.fail('sort_wrong', inp, impl=repr(g))
                    if any(abs(float(x.view(np.ndarray)['frac'])) > 0.5 for x in got):
                        ctx.fail('sort_result_not_normalised', inp, impl=repr(g))
            except Exception as e:
                ctx.fail('reduction_result_shape', inp, impl=repr(e) + ' ' + repr(r)[:80])
                break

    # ---------------- from_string
    NSTR = 500 if ctx.tier == 'quick' else 12000
    corpus = ['5', '0.5', '5.0', '1e3', '-0.18e-2', '0.0', '1.7E-3', '6.73689510973282118d0', '.5', '5.', '0', '-0', '0.0j', '1.0j', '0.25j',
              '12345678901234.123456789012345', '4503599627370495.5', '-4503599627370495.75', '1e-5', '123e-5', '0.000123e5', '00012.5',
              '1.5e+02', '9999999999999999e-16', '0.5j', '-2.25J', '+3.25', ' 7.125 ']
    for c in range(NSTR):
        s = corpus[c] if c < len(corpus) else rand_string(rng)
        malformed = c >= len(corpus) and rng.random() < 0.06
        if malformed:
            s = rng.choice(['', 'abc', '1.2.3', '1e', '--1', '1e1.5', 'e5', '.', '+', 'j', '1 2', '0x10', 'nan', 'inf'])
        inp = dict(op='from_string', s=s, malformed=malformed)
        ctx.seen(inp); ctx.count('str:' + ('malformed' if malformed else ('imag' if s.strip().lower().endswith('j') else 'real')))
        try:
            r = Phase.from_string(s)
            code = None if isinstance(r, Phase) else 'RDecay'
        except Exception as e:
            r, code = e, 'RErr'
        if s.strip().lower() in ('nan', 'inf'):
            continue
        add_item(f'res_code (from_string {coq_str(s)}) ' + (code or f'(RPh {ph_lit(r)})'), inp, repr(r)[:100], 'parse')
        if malformed:
            if code is None:
                ctx.fail('malformed_string_accepted', inp, impl=repr(r))
            continue
        ev, imag = string_exact(s)
        if abs(ev) > 2 ** 52:
            ctx.count('str:beyond_2^52')
            continue
        if code is not None:
            ctx.fail('valid_string_rejected', inp, impl=repr(r))
            continue
        val, rim = exact(r)
        err = abs(val - ev)
        ctx.ratio(err, TOL)
        v = r.view(np.ndarray)
        if err > TOL:
            ctx.fail('parsed_value_beyond_2^-52', inp, impl=repr(r), model=float(ev))
        elif rim and not imag:
            ctx.fail('real_string_gave_imaginary_phase', inp, impl=repr(r))
        elif imag and not rim and ev != 0:
            ctx.fail('imaginary_string_gave_real_phase', inp, impl=repr(r))
        elif not float(v['int']).is_integer() or abs(float(v['frac'])) > 0.5:
            ctx.fail('parsed_phase_not_normalised', inp, impl=repr(r))

    # ---------------- to_string
    NFMT = 500 if ctx.tier == 'quick' else 12000
    for c in range(NFMT):
        cnt = float(rand_count(rng))
        fr = rng.choice([rand_frac(rng), rng.choice([0.05, 0.2, 0.24, 0.25, 0.3, -0.3, 0.96, 0.999, 1e-17, -1e-20, 0.049999999999999996,
                                                      0.15, 0.35, 0.0, 0.5, -0.5, 0.45, 0.005, 0.0049999, 0.095, 0.9995]),
                         # a hair on either side of a whole cycle (frac + 1 rounds to 1.0: the carry / borrow paths of to_string)
                         rng.choice([1, -1]) * rng.choice([1e-17, 2.0 ** -54, 2.0 ** -55, 3e-17, 5e-324, 2.0 ** -53, 1.2e-16])])
        imag = rng.random() < 0.1
        p = Phase(cnt * 1j, fr * 1j) if imag else Phase(cnt, fr)
        prec = rng.choice([None, None, None, 0, 1, 2, 3, 5, 8, 12, 15, 16, 17, 18, 20])
        always = rng.random() < 0.15
        inp = dict(op='to_string', p=repr(p), precision=prec, alwayssign=always)
        ctx.seen(inp); ctx.count('fmt:' + ('str' if prec is None else ('d<2' if prec < 2 else ('d<=15' if prec <= 15 else 'd>15'))))
        try:
            s = str(p.to_string(precision=prec, alwayssign=always))
        except Exception as e:
            ctx.fail('to_string_raised', inp, impl=repr(e))
            continue
        pl = 'None' if prec is None else f'(Some {prec}%nat)'
        add_item(f'str_code (to_string {pl} {"true" if always else "false"} {ph_lit(p)}) {coq_str(s)}', inp, s, 'format')
        # monitor: the string denotes the exact value rounded to the digits shown
        try:
            body = s[:-1] if s.endswith('j') else s
            sv = Fr(body)
        except Exception:
            ctx.fail('printed_string_not_a_decimal', inp, impl=s)
            continue
        ev = exact(p)[0]
        if s.endswith('j') != imag and ev != 0:
            ctx.fail('printed_imaginary_marker', inp, impl=s)
            continue
        if prec is None:
            tol = Fr(1, 10 ** 16)
        else:
            tol = Fr(1, 2 * 10 ** prec)
            digs = len(body.partition('.')[2])
            if digs != prec:
                ctx.fail('printed_digit_count', inp, impl=s)
                continue
        err = abs(sv - ev)
        if err > tol and prec is not None and err <= tol + Fr(1, 10 ** 16):
            # the digits are those of the binary64 fraction the code holds after frac + 1 / frac + 0.25 (2^-53 .. 3e-17 off):
            # wrong last digit at >= 16 decimals or when the exact value is within 1e-16 of a rounding tie (known finding D16)
            ctx.fail('printed_digits_limited_by_double_fraction', dict(inp, within_1e16=True, many_decimals=prec > 15), impl=s, model=float(ev))
            continue
        ctx.ratio(err, tol)
        if err > tol:
            ctx.fail('printed_value_not_the_rounded_value', inp, impl=s, model=float(ev))
            continue
        # round trip
        if prec is None:
            try:
                q = Phase.from_string(s)
                if abs(exact(q)[0] - ev) > Fr(1, 10 ** 16) + TOL or (bool(q.imaginary) != imag and exact(q)[0] != 0):
                    ctx.fail('from_string_of_to_string', inp, impl=repr(q), model=s)
            except Exception as e:
                ctx.fail('from_string_of_to_string', inp, impl=repr(e), model=s)
        # __format__ (fixed-point) agrees with to_string at the same precision
        if prec is not None and prec >= 1 and not imag:
            try:
                f2 = format(p, f'.{prec}f')
                if f2 != str(p.to_string(precision=prec)):
                    ctx.fail('format_differs_from_to_string', inp, impl=f2, model=str(p.to_string(precision=prec)))
            except Exception as e:
                ctx.fail('format_raised', inp, impl=repr(e))

    res = ctx.run_cases(HEADER, items, shard=max(60, len(items) // 32 + 1))
    if res is None:
        return
    for r, m in zip(res, meta):
        if r:
            ctx.mismatch(f'Phase {m["kind"]} model vs implementation', m['inp'], impl=m['impl'])
