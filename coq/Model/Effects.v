(* Model/Effects.v -- C14: structured effect IR produced by translator T3 (translate/py_effects2coq.py) from the Python source,
   its semantics (a value denotes the set of INPUT buffers it really shares memory with; views-or-copies are a free choice;
   executions may stop anywhere = the call raised) and the flow-sensitive may-alias analyser.  No proofs in this file. *)
From Coq Require Import List Bool Arith Lia.
Import ListNotations.

Definition var := nat.
Inductive expr : Type :=
| EVar (x : var)
| EAlias (es : list expr)    (* may share memory with any argument: view, attribute, wrapper, view-or-copy *)
| EFresh (es : list expr).   (* newly allocated result *)
Inductive stmt : Type :=
| SSkip
| SAssign (x : var) (e : expr)
| SWrite (e : expr)               (* in-place store through e:  e *= k, e[ix] = v, out=e *)
| SCallUnknown (es : list expr)   (* unclassified callee: may store through any argument *)
| SSeq (a b : stmt)
| SIf (a b : stmt)
| SLoop (a : stmt).

(* ---------- concrete semantics: a value is the set of INPUT buffers it really shares memory with ---------- *)
Definition env := var -> list nat.
Definition upd (r : env) (x : var) (v : list nat) : env := fun y => if Nat.eqb y x then v else r y.

Inductive eval (r : env) : expr -> list nat -> Prop :=
| ev_var x : eval r (EVar x) (r x)
| ev_alias es vs v : evals r es vs -> incl v (concat vs) -> eval r (EAlias es) v
| ev_fresh es : eval r (EFresh es) []
with evals (r : env) : list expr -> list (list nat) -> Prop :=
| evs_nil : evals r [] []
| evs_cons e es v vs : eval r e v -> evals r es vs -> evals r (e :: es) (v :: vs).
Scheme eval_ind2 := Induction for eval Sort Prop with evals_ind2 := Induction for evals Sort Prop.
Combined Scheme eval_evals_ind from eval_ind2, evals_ind2.

Definition state := (env * list nat)%type.      (* environment, input buffers written so far *)

Inductive full : stmt -> state -> state -> Prop :=
| f_skip st : full SSkip st st
| f_assign x e r w v : eval r e v -> full (SAssign x e) (r, w) (upd r x v, w)
| f_write e r w v : eval r e v -> full (SWrite e) (r, w) (r, v ++ w)
| f_call es r w vs v : evals r es vs -> incl v (concat vs) -> full (SCallUnknown es) (r, w) (r, v ++ w)
| f_seq a b s1 s2 s3 : full a s1 s2 -> full b s2 s3 -> full (SSeq a b) s1 s3
| f_if_l a b s1 s2 : full a s1 s2 -> full (SIf a b) s1 s2
| f_if_r a b s1 s2 : full b s1 s2 -> full (SIf a b) s1 s2
| f_loop_0 a s : full (SLoop a) s s
| f_loop_S a s1 s2 s3 : full a s1 s2 -> full (SLoop a) s2 s3 -> full (SLoop a) s1 s3.

(* states reachable part-way through a statement: what is observable if the call raises there *)
Inductive part : stmt -> state -> state -> Prop :=
| p_here s st : part s st st
| p_full s st st' : full s st st' -> part s st st'
| p_seq_l a b s1 s2 : part a s1 s2 -> part (SSeq a b) s1 s2
| p_seq_r a b s1 s2 s3 : full a s1 s2 -> part b s2 s3 -> part (SSeq a b) s1 s3
| p_if_l a b s1 s2 : part a s1 s2 -> part (SIf a b) s1 s2
| p_if_r a b s1 s2 : part b s1 s2 -> part (SIf a b) s1 s2
| p_loop a s1 s2 s3 : full (SLoop a) s1 s2 -> part a s2 s3 -> part (SLoop a) s1 s3.

(* ---------- abstract domain: the set of variables that may reach an input buffer ---------- *)
Definition taint := list var.
Definition mem (x : var) (t : taint) : bool := existsb (Nat.eqb x) t.
Definition remove (x : var) (t : taint) : taint := filter (fun y => negb (Nat.eqb y x)) t.
Definition subset (a b : taint) : bool := forallb (fun x => mem x b) a.

Fixpoint aexpr (t : taint) (e : expr) : bool :=
  match e with
  | EVar x => mem x t
  | EAlias es => existsb (aexpr t) es
  | EFresh _ => false
  end.

Fixpoint loopfix (body : taint -> option taint) (fuel : nat) (t : taint) : option taint :=
  match body t with
  | None => None
  | Some t' => if subset t' t then Some t
               else match fuel with O => None | S fuel => loopfix body fuel (t' ++ t) end
  end.

Fixpoint check (fuel : nat) (s : stmt) (t : taint) : option taint :=
  match s with
  | SSkip => Some t
  | SAssign x e => Some (if aexpr t e then x :: t else remove x t)
  | SWrite e => if aexpr t e then None else Some t
  | SCallUnknown es => if existsb (aexpr t) es then None else Some t
  | SSeq a b => match check fuel a t with Some t1 => check fuel b t1 | None => None end
  | SIf a b => match check fuel a t, check fuel b t with Some t1, Some t2 => Some (t1 ++ t2) | _, _ => None end
  | SLoop a => loopfix (check fuel a) fuel t
  end.


Definition init_env (n : nat) : env := fun x => if x <? n then [x] else [].
(* verdict for one function: parameters 0..n-1 are the inputs *)
Definition ok_fn (p : nat * stmt) : bool := match check 12 (snd p) (seq 0 (fst p)) with Some _ => true | None => false end.
