(* Proofs/LedgerProofs.v -- C01: every sample-subsetting operation, and every finite pipeline of them,
   keeps absolute timestamps (exact statement over Q). *)
From Coq Require Import ZArith QArith Qabs Lia Lqa List Bool.
From PB Require Import Lib.PySlice Model.FastLen Model.Ledger Proofs.FastLenTop.
Import ListNotations.
Open Scope Z_scope.

Definition opt_Qeq (a b : option Q) : Prop :=
  match a, b with Some x, Some y => (x == y)%Q | None, None => True | _, _ => False end.

Lemma opt_Qeq_refl a : opt_Qeq a a.
Proof. destruct a; simpl; [reflexivity|exact I]. Qed.
Lemma opt_Qeq_trans a b c : opt_Qeq a b -> opt_Qeq b c -> opt_Qeq a c.
Proof. destruct a, b, c; simpl; try tauto. intros H1 H2. rewrite H1. exact H2. Qed.

Inductive sound (l l' : ledger) (off stride : Z) : Prop :=
  mk_sound :
    0 <= len l' -> 0 < stride -> 0 <= off ->
    (0 < rate l')%Q -> (rate l' == rate l / inject_Z stride)%Q ->
    (t0 l' = None <-> t0 l = None) ->
    (forall k, 0 <= k < len l' -> 0 <= off + k * stride < len l) ->
    (forall k, opt_Qeq (time_of l' k) (time_of l (off + k * stride))) ->
    sound l l' off stride.

Lemma inject_Z_pos z : 0 < z -> (0 < inject_Z z)%Q.
Proof. intros. unfold Qlt; simpl; lia. Qed.

Lemma time_slice_sound l a b c l' off stride :
  (0 < rate l)%Q -> 0 <= len l ->
  time_slice l a b c = Ok l' off stride ->
  sound l l' off stride /\
  (* the slice is maximal: every in-range index of the arithmetic progression below the clipped stop is returned *)
  (forall k, 0 <= k -> off + k * stride < clip (len l) b (len l) -> k < len l') /\
  off = clip (len l) a 0 /\ stride = match c with None => 1 | Some s => s end.
Proof.
  intros Hr Hl H. unfold time_slice, slice_indices in H.
  set (st := match c with None => 1 | Some s => s end) in *.
  destruct (st <=? 0) eqn:Est; [discriminate|]. apply Z.leb_gt in Est.
  injection H as <- <- <-.
  pose proof (clip_range (len l) a 0 Hl ltac:(lia)) as Ca.
  pose proof (clip_range (len l) b (len l) Hl ltac:(lia)) as Cb.
  assert (Hst : (0 < inject_Z st)%Q) by (apply inject_Z_pos; exact Est).
  assert (R' : ((if 1 <? st then rate l / inject_Z st else rate l) == rate l / inject_Z st)%Q).
  { destruct (1 <? st) eqn:E; [reflexivity|]. apply Z.ltb_ge in E. assert (E1 : st = 1) by lia. rewrite E1.
    unfold Qdiv. change (/ inject_Z 1)%Q with 1%Q. ring. }
  split; [|split; [|split; reflexivity]].
  - constructor; cbn [len rate t0].
    + apply range_len_nonneg; exact Est.
    + exact Est.
    + lia.
    + rewrite R'. apply Qlt_shift_div_l; [exact Hst|]. rewrite Qmult_0_l. exact Hr.
    + exact R'.
    + destruct (t0 l); split; intro; congruence.
    + intros k Hk. pose proof (range_len_index _ _ _ k Est Hk). lia.
    + intros k. unfold time_of. cbn [t0 rate]. destruct (t0 l) as [t|]; [|exact I]. cbn [opt_Qeq].
      rewrite R'. rewrite inject_Z_plus, inject_Z_mult. field. split; lra.
  - cbn [len]. intros k Hk Hlt. apply range_len_maximal; assumption.
Qed.

Lemma step_sound l o l' off stride :
  (0 < rate l)%Q -> 0 <= len l ->
  step l o = Ok l' off stride -> sound l l' off stride.
Proof.
  intros Hr Hl H. destruct o as [a b c| |start stop|t n|start stop|cb nout]; cbn [step] in H.
  - eapply time_slice_sound; eassumption.
  - destruct (prev_fast_len (len l)); [|discriminate]. eapply time_slice_sound; eassumption.
  - eapply time_slice_sound; eassumption.
  - destruct ((n <? 0) || (t <? 0) || (len l <? t + n)); [discriminate|]. eapply time_slice_sound; eassumption.
  - eapply time_slice_sound; eassumption.
  - destruct ((cb <? 0) || (nout <? 0) || (len l <? cb + nout)) eqn:E; [discriminate|].
    apply orb_false_elim in E. destruct E as [E E3]. apply orb_false_elim in E. destruct E as [E1 E2].
    apply Z.ltb_ge in E1, E2, E3. injection H as <- <- <-.
    constructor; cbn [len rate t0]; try lia.
    + exact Hr.
    + unfold Qdiv. change (/ inject_Z 1)%Q with 1%Q. ring.
    + destruct (t0 l); split; intro; congruence.
    + intros k. unfold time_of. cbn [t0 rate]. destruct (t0 l) as [t|]; [|exact I]. cbn [opt_Qeq].
      rewrite inject_Z_plus, inject_Z_mult. change (inject_Z 1) with 1%Q. field. lra.
Qed.

Lemma sound_refl l : (0 < rate l)%Q -> 0 <= len l -> sound l l 0 1.
Proof.
  intros Hr Hl. constructor; try lia; try exact Hr.
  - unfold Qdiv. change (/ inject_Z 1)%Q with 1%Q. ring.
  - tauto.
  - intros k. replace (0 + k * 1) with k by lia. apply opt_Qeq_refl.
Qed.

Lemma sound_trans l l1 l2 o1 s1 o2 s2 :
  sound l l1 o1 s1 -> sound l1 l2 o2 s2 -> sound l l2 (o1 + s1 * o2) (s1 * s2).
Proof.
  intros [A1 A2 A2' A3 A4 A5 A6 A7] [B1 B2 B2' B3 B4 B5 B6 B7]. constructor.
  - exact B1.
  - nia.
  - nia.
  - exact B3.
  - rewrite B4, A4. rewrite inject_Z_mult.
    assert ((0 < inject_Z s1)%Q) by (apply inject_Z_pos; exact A2).
    assert ((0 < inject_Z s2)%Q) by (apply inject_Z_pos; exact B2).
    field. split; lra.
  - tauto.
  - intros k Hk. specialize (B6 k Hk). specialize (A6 (o2 + k * s2) ltac:(lia)). nia.
  - intros k. eapply opt_Qeq_trans; [apply B7|].
    replace (o1 + s1 * o2 + k * (s1 * s2)) with (o1 + (o2 + k * s2) * s1) by ring. apply A7.
Qed.

Theorem run_sound : forall ops l l' off stride,
  (0 < rate l)%Q -> 0 <= len l ->
  run l ops = Ok l' off stride -> sound l l' off stride.
Proof.
  induction ops as [|o ops IH]; intros l l' off stride Hr Hl H; cbn [run] in H.
  - injection H as <- <- <-. apply sound_refl; assumption.
  - destruct (step l o) as [l1 off1 st1|e] eqn:E1; [|discriminate].
    destruct (run l1 ops) as [l2 off2 st2|e] eqn:E2; [|discriminate].
    injection H as <- <- <-.
    pose proof (step_sound _ _ _ _ _ Hr Hl E1) as S1.
    assert (S1' := S1). destruct S1' as [A1 _ _ A3 _ _ _ _].
    eapply sound_trans; [exact S1|]. eapply IH; eassumption.
Qed.

(* stop_time = start_time + len / rate (definitional) and the membership test is the half-open interval *)
Lemma stop_time_spec l : opt_Qeq (stop_time l) (match t0 l with Some t => Some (t + inject_Z (len l) / rate l)%Q | None => None end).
Proof. unfold stop_time, time_of. destruct (t0 l); simpl; [reflexivity|exact I]. Qed.

Lemma contains_spec l t :
  contains l t = true <-> exists a, t0 l = Some a /\ (a <= t)%Q /\ (t < a + inject_Z (len l) / rate l)%Q.
Proof.
  unfold contains, stop_time, time_of. destruct (t0 l) as [a|].
  - rewrite andb_true_iff, negb_true_iff, Qle_bool_iff. split.
    + intros [H1 H2]. exists a. split; [reflexivity|]. split; [exact H1|].
      apply Qnot_le_lt. intro C. apply Qle_bool_iff in C. congruence.
    + intros (a' & E & H1 & H2). injection E as <-. split; [exact H1|].
      destruct (Qle_bool (a + inject_Z (len l) / rate l) t) eqn:C; [|reflexivity].
      apply Qle_bool_iff in C. lra.
  - split; [discriminate|]. intros (a & E & _). discriminate.
Qed.

(* every retained sample instant is inside, the stop instant is not *)
Lemma contains_samples l a : t0 l = Some a -> (0 < rate l)%Q ->
  (forall k, 0 <= k < len l -> contains l (a + inject_Z k / rate l) = true) /\
  contains l (a + inject_Z (len l) / rate l) = false.
Proof.
  intros E Hr. split.
  - intros k Hk. apply contains_spec. exists a. split; [exact E|].
    assert (H1 : (0 <= inject_Z k / rate l)%Q).
    { apply Qle_shift_div_l; [exact Hr|]. rewrite Qmult_0_l. unfold Qle; simpl; lia. }
    assert (H2 : (inject_Z k / rate l < inject_Z (len l) / rate l)%Q).
    { apply Qlt_shift_div_l; [exact Hr|]. unfold Qdiv. rewrite <- Qmult_assoc, (Qmult_comm (/ rate l)), Qmult_inv_r, Qmult_1_r by lra.
      unfold Qlt; simpl; lia. }
    split; lra.
  - destruct (contains l (a + inject_Z (len l) / rate l)) eqn:C; [|reflexivity].
    apply contains_spec in C. destruct C as (a' & E' & _ & H). rewrite E in E'. injection E' as <-. lra.
Qed.

(* ---------- the model satisfies the executable statement of the property ---------- *)
Lemma Qclose_refl tol a b : (0 <= tol)%Q -> (a == b)%Q -> Qclose tol a b = true.
Proof.
  intros Ht E. unfold Qclose. apply Qle_bool_iff. rewrite E.
  setoid_replace (b - b)%Q with 0%Q by ring. exact Ht.
Qed.

Theorem model_meets_spec l o l' off stride ttol rtol probes :
  (0 < rate l)%Q -> 0 <= len l -> (0 <= ttol)%Q -> (0 <= rtol)%Q ->
  step l o = Ok l' off stride ->
  C01_ok ttol rtol l (obs_of_model l' off stride probes) = 0.
Proof.
  intros Hr Hl Ht Hrt H. pose proof (step_sound _ _ _ _ _ Hr Hl H) as [A1 A2 A2' A3 A4 A5 A6 A7].
  unfold C01_ok, obs_of_model. cbn [o_len o_t0 o_rate o_stop o_dt o_tlen o_first o_stride o_contains].
  (* clause 1 *)
  assert (B1 : match t0 l', t0 l with None, None => true | Some _, Some _ => true | _, _ => false end = true).
  { destruct (t0 l') eqn:E1, (t0 l) eqn:E2; try reflexivity; exfalso.
    - destruct A5 as [_ A5]. specialize (A5 eq_refl). discriminate.
    - destruct A5 as [A5 _]. specialize (A5 eq_refl). discriminate. }
  rewrite B1.
  (* clause 2 *)
  assert (B2 : match t0 l', t0 l, (if 0 <? len l' then Some off else None) with
               | Some t', Some t, Some off0 => Qclose ttol t' (t + inject_Z off0 / rate l)
               | _, _, _ => true end = true).
  { destruct (t0 l') as [t'|] eqn:E1; [|reflexivity]. destruct (t0 l) as [t|] eqn:E2; [|reflexivity].
    destruct (0 <? len l'); [|reflexivity]. apply Qclose_refl; [exact Ht|].
    specialize (A7 0). unfold time_of in A7. rewrite E1, E2 in A7. cbn [opt_Qeq] in A7.
    replace (off + 0 * stride) with off in A7 by lia.
    rewrite <- A7. unfold Qdiv. change (inject_Z 0) with 0%Q. ring. }
  rewrite B2.
  (* clause 4 *)
  assert (B4 : match (if 1 <? len l' then Some stride else None) with
               | Some s => Qclose (rtol * rate l) (rate l') (rate l / inject_Z s)
               | None => true end = true).
  { destruct (1 <? len l'); [|reflexivity]. apply Qclose_refl; [|exact A4].
    apply Qmult_le_0_compat; [exact Hrt|lra]. }
  rewrite B4.
  (* clause 8 *)
  assert (B8 : match t0 l' with
               | Some t' => oQclose ttol (stop_time l') (Some (t' + inject_Z (len l') / rate l')%Q)
               | None => match stop_time l' with None => true | _ => false end end = true).
  { unfold stop_time, time_of. destruct (t0 l') as [t'|]; [|reflexivity]. cbn [oQclose].
    apply Qclose_refl; [exact Ht|reflexivity]. }
  rewrite B8.
  (* clause 16 *)
  match goal with |- context [forallb ?f ?pl] => assert (B16 : forallb f pl = true) end.
  { apply forallb_forall. intros [t b] Hin. apply in_map_iff in Hin. destruct Hin as (t' & E & _).
    injection E as <- <-. unfold stop_time, time_of. destruct (t0 l') as [a|] eqn:Ea; [|unfold contains; rewrite Ea; reflexivity].
    pose proof (contains_samples l' a Ea A3) as [Cs Cz].
    destruct (len l' =? 0) eqn:E0.
    - apply Z.eqb_eq in E0. destruct (Qclose ttol t' a); [reflexivity|]. apply negb_true_iff. destruct (contains l' t') eqn:C; [|reflexivity].
      apply contains_spec in C. destruct C as (a' & Ea' & H1 & H2). rewrite Ea in Ea'. injection Ea' as <-.
      rewrite E0 in H2. unfold Qdiv in H2. change (inject_Z 0) with 0%Q in H2. rewrite Qmult_0_l in H2. lra.
    - apply Z.eqb_neq in E0.
      destruct (Qeq_bool t' a) eqn:Q1.
      + apply Qeq_bool_iff in Q1. specialize (Cs 0 ltac:(lia)).
        apply contains_spec. apply contains_spec in Cs. destruct Cs as (a' & Ea' & H1 & H2).
        exists a'. split; [exact Ea'|]. rewrite Ea in Ea'. injection Ea' as <-. rewrite Q1.
        unfold Qdiv in H1, H2. change (inject_Z 0) with 0%Q in H1, H2. rewrite Qmult_0_l, Qplus_0_r in H1, H2. split; assumption.
      + destruct (Qeq_bool t' (a + inject_Z (len l') / rate l')) eqn:Q2.
        * apply Qeq_bool_iff in Q2. apply negb_true_iff. destruct (contains l' t') eqn:C; [|reflexivity].
          apply contains_spec in C. destruct C as (a' & Ea' & H1 & H2). rewrite Ea in Ea'. injection Ea' as <-. lra.
        * destruct (Qclose ttol t' a || Qclose ttol t' (a + inject_Z (len l') / rate l')); [reflexivity|].
          unfold contains, stop_time, time_of. rewrite Ea. apply eqb_reflx. }
  rewrite B16.
  (* clause 32 *)
  assert (B32 : Qclose (rtol / rate l') (dt_of l') (1 / rate l') &&
                Qclose (rtol * inject_Z (len l') / rate l') (time_length l') (inject_Z (len l') / rate l') = true).
  { apply andb_true_iff. split; (apply Qclose_refl; [|reflexivity]).
    - apply Qle_shift_div_l; [exact A3|]. rewrite Qmult_0_l. exact Hrt.
    - apply Qle_shift_div_l; [exact A3|]. rewrite Qmult_0_l. apply Qmult_le_0_compat; [exact Hrt|].
      unfold Qle; simpl; lia. }
  rewrite B32. reflexivity.
Qed.

(* D11 (repaired by a fix: commit): the crop of time_shift never wraps a negative stop any more *)
Lemma shift_crop_no_wrap l start stop l' off stride :
  (0 < rate l)%Q -> 0 <= len l -> 0 <= start -> stop <= 0 ->
  step l (OShiftCrop start stop) = Ok l' off stride ->
  off = Z.min start (len l) /\ stride = 1 /\ len l' = Z.max 0 (len l + stop - Z.min start (len l)) /\
  (forall k, 0 <= k < len l' -> start <= off + k < len l + stop).
Proof.
  intros Hr Hl Hs Hp H. cbn [step] in H. unfold time_slice in H.
  assert (E0 : slice_indices (Some start) (Some (Z.max start (len l + stop))) None (len l) =
              Some (clip (len l) (Some start) 0, clip (len l) (Some (Z.max start (len l + stop))) (len l), 1)) by reflexivity.
  assert (E1 : clip (len l) (Some start) 0 = Z.min start (len l)).
  { unfold clip. destruct (start <? 0) eqn:E; [lia|]. destruct (len l <? start) eqn:E2; lia. }
  assert (E2 : clip (len l) (Some (Z.max start (len l + stop))) (len l) = Z.min (Z.max start (len l + stop)) (len l)).
  { unfold clip. destruct (Z.max start (len l + stop) <? 0) eqn:E; [lia|].
    destruct (len l <? Z.max start (len l + stop)) eqn:E3; lia. }
  rewrite E0, E1, E2 in H. injection H as <- <- <-. cbn [len].
  rewrite range_len_step1. repeat split; try lia.
Qed.

(* the pre-repair crop x[start : len+stop] wrapped: kept for the record (witness N = 10, shift -12) *)
Example shift_crop_pre_fix_refuted :
  exists l', time_slice {| t0 := None; rate := 1; len := 10 |} (Some 0) (Some (10 + -12)) None = Ok l' 0 1 /\ len l' = 8.
Proof. eexists. split; reflexivity. Qed.

(* non-vacuity *)
Example pipeline_example :
  match run {| t0 := Some (59000#1); rate := 1000#1; len := 1001 |} [OSlice (Some (-900)) None (Some 3); OFastLen; OSnippet 2 10] with
  | Ok l' off st => len l' = 10 /\ off = 107 /\ st = 3 /\ opt_Qeq (t0 l') (Some (59000107#1000)) /\ (rate l' == 1000#3)%Q
  | Err _ => False end.
Proof. vm_compute. repeat split; reflexivity. Qed.
