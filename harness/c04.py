"""C04: freq_shift moves the spectrum by the given amount, zeroing what leaves the band.
(P) Props/C04.v; (T) Model/Shift.v (shift_idx false ...) evaluated by vm_compute on the very bin offsets the code holds,
compared exactly with the zero bins observed in the fftshifted spectrum of the result, plus the binary64 instance of the
carrier-generic transform on lanes; (M) Shift.zero_ok on the observed zero bins for the intended shift (boundary bin left
unconstrained when the shift is within 1e-9 of a whole bin), an independent O(N^2) longdouble oracle for the values
(mixing by exp(2 pi i df t), spectrum move, zero fill), metadata clauses, malformed requests."""
import math
from fractions import Fraction
import numpy as np
import astropy.units as u
import dask.array as da
import pulsarbat as pb
from harness.common import qlit, zlit, listlit, float_lit
from harness.common import asked_before
from harness import exact as X
from harness.c03 import bcast_elems, _same

VFILES = ['Lib/PySlice.v', 'Lib/Dft.v', 'Lib/DftC.v', 'Lib/F64.v', 'Model/Shift.v', 'Proofs/ShiftProofs.v', 'Gen/GenShift.v', 'Proofs/ShiftGen.v', 'Proofs/ShiftC.v', 'Props/C04.v']
REAL_AX = {'ClassicalDedekindReals.sig_forall_dec', 'ClassicalDedekindReals.sig_not_dec',
           'FunctionalExtensionality.functional_extensionality_dep', 'Classical_Prop.classic'}

HEADER = '''From Coq Require Import ZArith QArith PrimFloat List Bool. Import ListNotations. Open Scope Z_scope.
From PB Require Import Lib.F64 Model.Shift.
Fixpoint leqb (a b : list Z) : bool := match a, b with [], [] => true | x :: a', y :: b' => (x =? y) && leqb a' b' | _, _ => false end.
Definition sr_zero_of (r : list Z) : list (Z * Z) :=
  (fix go (l : list Z) : list (Z * Z) := match l with a :: b :: t => (a, b) :: go t | _ => [] end) (skipn 5 r).
(* correspondence: the model's zeroed bins (as a 0/1 table, bin-major) = the observed table; error flag *)
Definition chk_idx (N : Z) (ss sh : list Z) (vals : list Q) (obs : list Z) : Z :=
  let r := shift_idx_flat false N ss sh vals in
  match r with
  | [-1] => if leqb obs [-1] then 0 else 1
  | _ => if leqb (flat_map (fun n => map (fun p => if in_range p n then 1 else 0) (sr_zero_of r)) (zrange N)) obs then 0 else 1
  end.
Definition mon_zero (N : Z) (ss sh : list Z) (vals : list Q) (obs : list (list Z)) : Z := zero_ok N ss sh vals obs.
Definition chk_lane (xs : list Fc) (p q lo hi : Z) (out : list Fc) (tol : float) : Z :=
  if Fcclose_list tol (fshift_f xs p q (lo, hi)) out then 0 else 1.
'''


def oracle(x, a_elems, N):
    """x[n]*exp(2 pi i a n/N) -> DFT -> zero the fftshift-ordered bins j with j - a outside [0, N-1] -> inverse DFT."""
    xs = x.reshape(N, -1).astype(np.clongdouble)
    n = np.arange(N, dtype=np.longdouble)
    twopi = 2 * np.pi * np.longdouble(1)
    out = np.zeros_like(xs)
    spec = np.zeros_like(xs)
    F = np.exp(-1j * twopi * np.outer(n, n) / N)
    Fi = np.exp(1j * twopi * np.outer(n, n) / N) / N
    j = np.arange(N)
    for e, a in enumerate(a_elems):
        al = np.longdouble(a.numerator) / np.longdouble(a.denominator)
        y = xs[:, e] * np.exp(1j * twopi * ((al * n / N) % 1))
        Y = F @ y
        Ys = Y[(j - N // 2) % N]                       # fftshift order
        src = j.astype(np.longdouble) - al
        Ys[(src < 0) | (src > N - 1)] = 0
        spec[:, e] = Ys
        out[:, e] = Fi @ Ys[(j + N // 2) % N]          # ifftshift, inverse DFT
    return out, spec


def run(ctx):
    rng = ctx.rng
    nprng = np.random.default_rng(ctx.seed + 4)
    ctx.rule = ('BasebandSignal / DualPolarizationSignal, lengths 1..64, 1..8 channels (x2 pols, extra axes), complex64/128, NumPy and Dask, '
                'rates over 12 decades; shifts scalar or arrays of every prefix rank with matching or length-1 axes: whole bins, fractional, '
                'beyond the bandwidth, either sign, several frequency units; malformed: non-baseband class, non-frequency shift, too many '
                'dims, non-broadcastable. non-trivial: non-zero shift; distinct by (class, N, shapes, values, dtype).')
    ctx.trusted = ['translator T6 translate/py_shift2coq.py (loop body and ramp sign of freq_shift; every other statement pinned)', 'Coq 8.16.1 kernel; stdlib real-number axioms for the value theorems over C; vm_compute on primitive floats',
                   'scipy.fft = the mathematical DFT (validated numerically against an O(N^2) longdouble oracle on every case)',
                   'numpy broadcasting / nditer / fftshift as transcribed in Model/Shift.v (validated by the exact zero-bin comparison)']
    ctx.assumptions = ['values within 1e-10*N*max|x| (complex128) / 6e-6*max|x| (complex64: the phasor is cast to the signal dtype)',
                       'a requested shift within 1e-9 of a whole number of bins leaves the single boundary bin unconstrained (property text)']
    built = ctx.build(['Props/C04.vo'])
    ctx.count_obligations(VFILES)
    if built:
        ctx.assumptions_of('Props/C04.v', allowed=REAL_AX)

    items, meta = [], []
    NC = 240 if ctx.tier == 'quick' else 4000
    for c in range(NC):
        cls = rng.choice(['BasebandSignal', 'BasebandSignal', 'DualPolarizationSignal'])
        N = rng.choice([1, 2, 3, 5, 7, 8, 16, 31, 64, rng.randint(1, 64)])
        ss = list(X.sample_shape(rng, cls))
        single = rng.random() < 0.35
        data = (nprng.standard_normal((N,) + tuple(ss)) + 1j * nprng.standard_normal((N,) + tuple(ss)) + (1.5 + 0.5j))
        data = data.astype(np.complex64 if single else np.complex128)
        use_dask = rng.random() < 0.15
        rate = X.rand_rate(rng)
        z = X.make_signal(rng, cls, N, sshape=tuple(ss), rate=rate,
                          data=da.from_array(data, chunks=(-1,) + tuple(1 for _ in ss)) if use_dask else data)
        sr = X.hz(z.sample_rate)
        rank = len(ss)
        r = min(rank, rng.choice([0, 0, 1, rank, rng.randint(0, rank)]))
        sh = [ss[k] if rng.random() < 0.6 else 1 for k in range(r)]
        cnt = int(np.prod(sh)) if sh else 1
        style = rng.choice(['whole', 'frac', 'frac', 'big', 'mixed', 'mixed', 'tiny'])

        def one():
            s = style if style != 'mixed' else rng.choice(['whole', 'frac', 'big', 'zero', 'tiny'])
            sign = rng.choice([1, -1])
            if s == 'whole':
                return Fraction(sign * rng.randint(0, max(1, N)))
            if s == 'frac':
                return Fraction(sign * rng.uniform(0.01, max(1.0, N * 0.9))).limit_denominator(1000) + Fraction(1, 2003)
            if s == 'tiny':
                # a minute fraction of a bin (|df| <= 1e-8 of the sample rate): still a shift - the one wrapped bin is zeroed
                return Fraction(sign, 10 ** rng.choice([6, 7, 8, 9, 10, 12]))
            if s == 'big':
                return Fraction(sign) * (N + rng.choice([0, Fraction(1, 2), 1, Fraction(13, 4), N]))
            return Fraction(0)
        bins = [one() for _ in range(cnt)]                  # intended shift in bins
        unit = rng.choice([u.Hz, u.kHz, u.MHz])
        hzvals = [float(b * sr / N) for b in bins]          # df = bins * sr / N
        malformed = rng.random() < 0.1
        bad = None
        arr = np.array(hzvals, dtype=float).reshape(sh) if sh else float(hzvals[0])
        arg = (arr * u.Hz).to(unit)
        zz = z
        if malformed:
            bad = rng.choice(['not_baseband', 'not_frequency', 'too_many_dims', 'no_broadcast'])
            if bad == 'not_baseband':
                zz = pb.RadioSignal(np.abs(data), sample_rate=z.sample_rate, center_freq=z.center_freq, chan_bw=z.sample_rate)
            elif bad == 'not_frequency':
                arg = rng.choice([1.0, 3 * u.s, np.ones(1)])
            elif bad == 'too_many_dims':
                arg = np.ones(tuple(ss) + (1,)) * u.Hz
            else:
                arg = np.ones((ss[0] + 1,)) * 1.5 * u.Hz
        inp = dict(cls=cls, N=N, ss=ss, sh=sh, bins=[str(b) for b in bins], unit=str(unit), dtype=str(data.dtype), dask=use_dask,
                   rate=str(rate), malformed=bad, case=c)
        ctx.seen(inp, nontrivial=any(b != 0 for b in bins))
        ctx.count('rank%d' % rank); ctx.count('shiftrank%d' % len(sh)); ctx.count('dtype:' + str(data.dtype)); ctx.count('style:' + style)
        ctx.count('dask' if use_dask else 'numpy')
        if len(sh) < rank or any(a == 1 and b != 1 for a, b in zip(sh, ss)):
            ctx.count('broadcast_needed')
        err = None
        # ... also on a signal that differs ONLY in its sample rate (same shape, dtype and shift): nothing of that call may carry over
        if asked_before(ctx, rng, *rng.choice([[lambda: pb.freq_shift(zz, arg)], [lambda: pb.freq_shift(type(zz).like(zz, sample_rate=zz.sample_rate * 2), arg)]]), p=0.4):
            inp['asked_before'] = True
        try:
            y = pb.freq_shift(zz, arg)
            yd = np.asarray(y.data.compute() if use_dask else y.data)
        except (ValueError, TypeError) as e:
            err = e
            ctx.count('raised:' + type(e).__name__)
        except Exception as e:
            ctx.fail('unexpected_exception', inp, impl=repr(e))
            continue
        if bad is not None:
            want = TypeError if bad == 'not_baseband' else ValueError
            if err is None:
                ctx.fail('malformed_request_accepted', inp)
            elif not isinstance(err, want):
                ctx.fail('wrong_error_class', inp, impl=type(err).__name__, model=want.__name__)
            if bad in ('too_many_dims', 'no_broadcast'):
                shb = list(arg.shape)
                items.append(f'chk_idx {N} {listlit(ss, zlit)} {listlit(shb, zlit)} {listlit([Fraction(1)] * int(np.prod(shb)), qlit)} '
                             f'{"[-1]" if err is not None else "[0]"}')
                meta.append(dict(inp=inp, impl='raised' if err else 'returned', kind='idx'))
            continue
        if err is not None:
            ctx.fail('valid_shift_raised', inp, impl=str(err))
            continue
        # ---- the bin offsets the code holds (same float expressions as the code)
        q = arg.to(u.Hz)
        if q.isscalar:
            q = q[None]
        ixx = (slice(None),) * q.ndim + (None,) * (z.ndim - q.ndim - 1)
        ft = (q[ixx] * z.dt).to_value(u.one)
        held = np.asarray(ft * N, dtype=float)
        hsh = list(np.asarray(ft).shape)
        hq = [Fraction(float(v)) for v in held.reshape(-1)]
        ftq = [Fraction(float(v)) for v in np.asarray(ft, dtype=float).reshape(-1)]
        a_held = bcast_elems(hsh, hq, ss)
        ft_el = bcast_elems(hsh, ftq, ss)
        a_int = bcast_elems(sh if sh else [1], bins, ss)
        nel = len(a_held)
        # ---- observed spectrum of the result, fftshift order
        flat = yd.reshape(N, -1)
        Y = np.fft.fftshift(np.fft.fft(flat.astype(np.complex128), axis=0), axes=(0,))
        mxs = float(np.max(np.abs(np.fft.fft(data.reshape(N, -1).astype(np.complex128), axis=0)))) + 1e-300
        ztol = (3e-6 if single else 1e-11) * mxs * max(1, N) ** 0.5
        zeroed = np.abs(Y) <= ztol
        mask = [[int(i) for i in np.nonzero(zeroed[:, e])[0]] for e in range(nel)]
        # (T) model on held values vs observed zero bins
        items.append(f'chk_idx {N} {listlit(ss, zlit)} {listlit(hsh, zlit)} {listlit(hq, qlit)} '
                     f'{listlit([1 if zeroed[n, e] else 0 for n in range(N) for e in range(nel)], str)}')
        meta.append(dict(inp=inp, impl=mask, kind='idx'))
        # (M) zero clause for the intended shift; near-whole-bin elements use the held value (boundary bin unconstrained)
        near = [abs(h - round(h)) < 1e-9 and h != round(h) for h in a_held]
        mon_vals = [h if nr else a for a, h, nr in zip(a_int, a_held, near)]
        if any(abs(float(a) - float(h)) > 1e-9 * max(1.0, abs(float(a))) for a, h in zip(a_int, a_held)):
            ctx.fail('held_shift_differs_from_requested', inp, impl=[float(h) for h in a_held])
            continue
        items.append(f'mon_zero {N} {listlit(ss, zlit)} {listlit(ss, zlit)} {listlit(mon_vals, qlit)} {listlit(mask, lambda m: listlit(m, zlit))}')
        meta.append(dict(inp=inp, impl=mask, kind='monitor_zero'))
        # (M) values
        ref, _ = oracle(data, mon_vals, N)
        mx = float(np.max(np.abs(data)))
        tolv = (6e-6 if single else 1e-10 * max(N, 1)) * mx
        e = float(np.max(np.abs(flat.astype(np.clongdouble) - ref)))
        ctx.ratio(e, tolv)
        if e > tolv:
            ctx.fail('spectrum_move_value', inp, impl=e, model=tolv)
            continue
        # full-band shifts: all-zero signal
        if all(abs(a) >= N for a in a_int) and np.any(yd != 0):
            ctx.fail('full_band_shift_not_zero', inp)
            continue
        bad_meta = [k for k in ('sample_rate', 'start_time', 'center_freq', 'chan_bw', 'freq_align', 'pol_type', 'meta')
                    if hasattr(z, k) and (not hasattr(y, k) or not _same(getattr(z, k), getattr(y, k)))]
        if type(y) is not type(z) or bad_meta or y.shape != z.shape or yd.dtype != data.dtype or \
           not np.array_equal(y.channel_freqs.to_value(u.Hz), z.channel_freqs.to_value(u.Hz)):
            ctx.fail('metadata_changed', inp, impl=dict(type=type(y).__name__, attrs=bad_meta, shape=list(y.shape), dtype=str(yd.dtype)))
            continue
        # (T) one lane through the binary64 instance
        if N <= 32 and rng.random() < 0.5:
            el = rng.randrange(nel)
            f = ft_el[el]
            m = mask[el]
            rr = (m[0], m[-1] + 1) if m else (0, 0)
            if m and m != list(range(m[0], m[-1] + 1)):
                continue
            xs = [complex(v) for v in data.reshape(N, -1)[:, el]]
            out = [complex(v) for v in flat[:, el]]
            cl = lambda v: '(' + float_lit(v.real) + ', ' + float_lit(v.imag) + ')'
            items.append(f'chk_lane {listlit(xs, cl)} {zlit(f.numerator)} {f.denominator} {rr[0]} {rr[1]} {listlit(out, cl)} {float_lit(tolv)}')
            meta.append(dict(inp=inp, impl='lane values', kind='lane'))

    # ---- long signals (monitor only): the error of a single-precision mixer must not grow with the sample index / the shift size.
    # reference: double-precision FFT of x*exp(2 pi i a n/N) (phase reduced mod 1 exactly), out-of-band bins zeroed, inverse FFT.
    for c in range(6 if ctx.tier == 'quick' else 40):
        N = rng.choice([4096, 16384, 65536])
        nch = rng.choice([1, 2, 3])
        single = rng.random() < 0.75
        data = (nprng.standard_normal((N, nch)) + 1j * nprng.standard_normal((N, nch))).astype(np.complex64 if single else np.complex128)
        rate = X.rand_rate(rng)
        z = X.make_signal(rng, 'BasebandSignal', N, sshape=(nch,), rate=rate, data=data)
        kind = rng.choice(['whole', 'frac'])
        bins = [Fraction(rng.choice([1, -1]) * rng.randint(N // 16, N // 2 - 1)) + (Fraction(rng.randint(1, 15), 16) if kind == 'frac' else 0)
                for _ in range(nch if rng.random() < 0.5 else 1)]
        srq = X.hz(z.sample_rate)
        arg = np.array([float(b * srq / N) for b in bins]) * u.Hz
        if len(bins) == 1 and rng.random() < 0.5:
            arg = arg[0]
        inp = dict(cls='BasebandSignal', N=N, ss=[nch], bins=[str(b) for b in bins], dtype=str(data.dtype), rate=str(rate), case='long%d' % c)
        ctx.seen(inp, nontrivial=True); ctx.count('long_signal'); ctx.count('dtype:' + str(data.dtype))
        try:
            yd = np.asarray(pb.freq_shift(z, arg).data)
        except Exception as e:
            ctx.fail('valid_shift_raised', inp, impl=repr(e))
            continue
        # the bin offsets the code holds (same float expressions as the code); the reference uses exactly these
        q_ = arg.to(u.Hz)
        if q_.isscalar:
            q_ = q_[None]
        held = [Fraction(float(v)) for v in np.asarray((q_ * z.dt).to_value(u.one) * N, dtype=float).reshape(-1)]
        if any(abs(float(h) - float(b)) > 1e-9 * abs(float(b)) for h, b in zip(held, bins)):
            ctx.fail('held_shift_differs_from_requested', inp, impl=[float(h) for h in held])
            continue
        worst = 0.0
        for e_ in range(nch):
            a = held[e_ if len(held) > 1 else 0]
            pn, qn = a.numerator, a.denominator * N
            ph = np.array([((pn * k) % qn) / qn for k in range(N)], dtype=float)
            yy = data[:, e_].astype(np.complex128) * np.exp(2j * np.pi * ph)
            Ys = np.fft.fftshift(np.fft.fft(yy))
            jj = np.arange(N)
            Ys[(jj < math.ceil(a)) if a >= 0 else (jj >= N + math.floor(a))] = 0      # exactly: source bin j - a outside [0, N-1]
            ref = np.fft.ifft(np.fft.ifftshift(Ys))
            worst = max(worst, float(np.max(np.abs(yd[:, e_].astype(np.complex128) - ref))))
        tolv = (6e-6 if single else 1e-10) * float(np.max(np.abs(data))) * (1 if single else N)
        ctx.ratio(worst, tolv)
        if worst > tolv or yd.dtype != data.dtype:
            ctx.fail('spectrum_move_value', inp, impl=worst, model=tolv)

    res = ctx.run_cases(HEADER, items, shard=max(40, len(items) // 32 + 1))
    if res is None:
        return
    for r, m in zip(res, meta):
        if r:
            if m['kind'] == 'monitor_zero':
                ctx.fail('zero_fill_clause', m['inp'], impl=m['impl'],
                         note=f'{r} element(s) of the sample shape do not have exactly the out-of-band bins zeroed')
            else:
                ctx.mismatch(f'freq_shift model ({m["kind"]}) vs implementation', m['inp'], impl=m['impl'])
