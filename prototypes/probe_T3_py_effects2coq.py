#!/usr/bin/env python3
"""Probe of translator T3: lower public pulsarbat functions to the effect IR of probe_effects_analyser.v.
Classification is by a small committed table; anything unknown fails closed (SCallUnknown on its arguments)."""
import ast, sys, pathlib

# callee name (last dotted components) -> kind
FRESH = {'np.array','np.exp','np.stack','np.concatenate','np.take','np.fft.fftshift','np.fft.ifftshift','np.fft.fftfreq','np.arange','np.zeros',
         'np.allclose','np.iscomplexobj','np.floor','np.ceil','np.nditer','np.sqrt','np.flip', 'np.prod', 'np.broadcast_to_RO',
         'pb.fft.fft','pb.fft.ifft','scipy.fft.fft','scipy.fft.ifft','da.fft.fftfreq','da.arange','da.map_blocks','da.from_delayed','dask.delayed',
         'int','float','len','min','max','abs','math.ceil','math.floor','operator.index','isinstance','issubclass','type','tuple','slice','range','enumerate','zip','all','dict','list',
         'u.isclose','u.allclose','Time.isclose','ValueError','TypeError','IndexError','KeyError','InvalidSignalError','getattr','hasattr','inspect.signature',
         'func','delayed_tf','_transfer_function', 'np.int64', 'str', 'bool', 'round'}
ALIAS = {'np.asarray','np.asanyarray','np.broadcast_to','dask.array.asanyarray'}
FRESH_METHODS = {'to','to_value','astype_copy','conj','round','copy','compute','persist','rechunk','indices','items','get','format','split','strip','lower','sum','mean','isot'}
ALIAS_METHODS = {'reshape','swapaxes','transpose','view','astype','squeeze','ravel','like','real','imag'}
IMMUTABLE_ATTRS = {'start_time','stop_time','sample_rate','dt','center_freq','chan_bw','freq_align','pol_type','shape','sample_shape','ndim','dtype','nchan','time_length',
                   'max_freq','min_freq','bandwidth','channel_freqs','isscalar','multi_index','start','stop','step','T'}

class Lower:
    def __init__(self, fn, known):
        self.fn = fn; self.vars = {}; self.known = known
        for a in fn.args.posonlyargs + fn.args.args + fn.args.kwonlyargs: self.var(a.arg)
        self.nparams = len(self.vars)
    def var(self, name):
        if name not in self.vars: self.vars[name] = len(self.vars)
        return self.vars[name]
    def callee(self, f):
        try: return ast.unparse(f)
        except Exception: return '?'
    def e(self, n):
        """-> Coq expr term"""
        if n is None or isinstance(n, ast.Constant): return 'EFresh []'
        if isinstance(n, ast.Name): return f'EVar {self.var(n.id)}' if n.id in self.vars else 'EFresh []'
        if isinstance(n, ast.Attribute):
            if n.attr in IMMUTABLE_ATTRS: return f'EFresh [{self.e(n.value)}]'   # immutable value objects (Time, Quantity scalars are never stored through)
            return f'EAlias [{self.e(n.value)}]'                                  # .data, .meta, .real, .imag ...
        if isinstance(n, ast.Subscript): return f'EAlias [{self.e(n.value)}]'     # basic indexing = view
        if isinstance(n, (ast.BinOp,)): return f'EFresh [{self.e(n.left)}; {self.e(n.right)}]'
        if isinstance(n, ast.UnaryOp): return f'EFresh [{self.e(n.operand)}]'
        if isinstance(n, (ast.Compare, ast.BoolOp, ast.JoinedStr, ast.Lambda, ast.Dict, ast.Set)): return 'EFresh []'
        if isinstance(n, ast.IfExp): return f'EAlias [{self.e(n.body)}; {self.e(n.orelse)}]'
        if isinstance(n, (ast.Tuple, ast.List)): return 'EAlias [' + '; '.join(self.e(x) for x in n.elts) + ']'
        if isinstance(n, (ast.ListComp, ast.GeneratorExp)): return f'EAlias [{self.e_comp(n)}]'
        if isinstance(n, ast.Starred): return self.e(n.value)
        if isinstance(n, ast.NamedExpr): return self.e(n.value)
        if isinstance(n, ast.Call):
            args = [self.e(a) for a in n.args] + [self.e(k.value) for k in n.keywords]
            name = self.callee(n.func)
            if name in FRESH or name.split('.')[-1] in {'like'} and False: return 'EFresh [' + '; '.join(args) + ']'
            if name in ALIAS: return 'EAlias [' + '; '.join(args) + ']'
            if name in self.known:   # another public function of the package already checked: fresh result unless it may return its input
                return ('EAlias [' if self.known[name] else 'EFresh [') + '; '.join(args) + ']'
            if isinstance(n.func, ast.Attribute):
                recv = self.e(n.func.value)
                if n.func.attr in ALIAS_METHODS: return 'EAlias [' + '; '.join([recv] + args) + ']'
                if n.func.attr in FRESH_METHODS: return 'EFresh [' + '; '.join([recv] + args) + ']'
            return None   # unknown
        raise SystemExit(f'unsupported expr {ast.dump(n)[:80]}')
    def e_comp(self, n):
        for g in n.generators:
            for t in ast.walk(g.target):
                if isinstance(t, ast.Name): self.var(t.id)
        return self.e(n.elt)
    def expr_or_unknown(self, n, pre):
        t = self.e(n)
        if t is None:   # unknown callee: may write through any argument; result may alias anything given
            args = [self.e(a) or 'EFresh []' for a in n.args] + [self.e(k.value) or 'EFresh []' for k in n.keywords]
            if isinstance(n.func, ast.Attribute): args = [self.e(n.func.value) or 'EFresh []'] + args
            pre.append('SCallUnknown [' + '; '.join(args) + ']  (* ' + self.callee(n.func) + ' *)')
            return 'EAlias [' + '; '.join(args) + ']'
        return t
    def seq(self, stmts):
        out = 'SSkip'
        for s in reversed(stmts): out = f'SSeq ({s}) ({out})' if out != 'SSkip' else s
        return out
    def assign(self, target, val, pre):
        if isinstance(target, ast.Name): return [f'SAssign {self.var(target.id)} ({val})']
        if isinstance(target, (ast.Tuple, ast.List)):
            r = []
            for t in target.elts: r += self.assign(t, f'EAlias [{val}]', pre)
            return r
        if isinstance(target, ast.Starred): return self.assign(target.value, val, pre)
        if isinstance(target, (ast.Subscript, ast.Attribute)):
            return [f'SWrite ({self.e(target.value)})']      # x[...] = v ; obj.attr = v
        raise SystemExit('target')
    def s(self, n):
        pre = []
        if isinstance(n, ast.Assign):
            v = self.expr_or_unknown(n.value, pre)
            r = []
            for t in n.targets: r += self.assign(t, v, pre)
            return pre + r
        if isinstance(n, ast.AugAssign):
            v = self.expr_or_unknown(n.value, pre)
            if isinstance(n.target, ast.Name):
                x = self.var(n.target.id)
                # x op= v : in place if x is an array; rebinding otherwise. Sound over-approximation: both.
                return pre + [f'SWrite (EVar {x})', f'SAssign {x} (EAlias [EVar {x}; EFresh [{v}]])']
            return pre + [f'SWrite ({self.e(n.target.value)})']
        if isinstance(n, ast.Expr):
            if isinstance(n.value, ast.Constant): return []
            self.expr_or_unknown(n.value, pre); return pre
        if isinstance(n, ast.Return): 
            if n.value is not None: self.expr_or_unknown(n.value, pre)
            return pre
        if isinstance(n, ast.Raise) or isinstance(n, ast.Pass) or isinstance(n, ast.Assert): return []
        if isinstance(n, ast.If):
            self.expr_or_unknown(n.test, pre) if isinstance(n.test, ast.Call) else None
            return pre + [f'SIf ({self.block(n.body)}) ({self.block(n.orelse)})']
        if isinstance(n, ast.For):
            it = self.expr_or_unknown(n.iter, pre)
            tgt = self.assign(n.target, f'EAlias [{it}]', pre)
            return pre + [f'SLoop ({self.seq(tgt + [self.block(n.body)])})']
        if isinstance(n, ast.While): return [f'SLoop ({self.block(n.body)})']
        if isinstance(n, ast.Try):
            hs = [self.block(h.body) for h in n.handlers]
            body = self.block(n.body + n.orelse)
            out = body
            for h in hs: out = f'SIf ({out}) (SSeq ({body}) ({h}))'
            return [out] + ([self.block(n.finalbody)] if n.finalbody else [])
        if isinstance(n, ast.With): return [self.block(n.body)]
        if isinstance(n, (ast.FunctionDef, ast.Import, ast.ImportFrom)): return []
        raise SystemExit(f'unsupported stmt {type(n).__name__} in {self.fn.name}')
    def block(self, stmts):
        out = []
        for st in stmts: out += self.s(st)
        return self.seq(out) if out else 'SSkip'

def main(repo, out):
    targets = [('transforms/transforms.py', ['concatenate','snippet','time_shift','freq_shift','fast_len']),
               ('transforms/dedispersion.py', ['coherent_dedispersion','incoherent_dedispersion','_transfer_function']),
               ('contrib/misc.py', ['stft','istft']), ('utils.py', ['real_to_complex'])]
    known = {'pb.time_shift': True, 'pb.utils.prev_fast_len': False, 'pb.utils.real_to_complex': False, 'DM.chirp_from_signal': False, 'DM.sample_delay': False,
             'type(z).like': True, 'sig_type.like': True, 'IntensitySignal.like': True, 'FullStokesSignal.like': True}
    lines = ['Require Import Effects.', 'From Coq Require Import List. Import ListNotations.']
    names = []
    for rel, fns in targets:
        tree = ast.parse(pathlib.Path(repo, 'pulsarbat', rel).read_text())
        for n in ast.walk(tree):
            if isinstance(n, ast.FunctionDef) and n.name in fns:
                L = Lower(n, known); body = L.block(n.body)
                lines.append(f'(* {rel}::{n.name}  vars: {L.vars} *)')
                lines.append(f'Definition prog_{n.name} : stmt := {body}.')
                lines.append(f'Definition ok_{n.name} := match check 8 prog_{n.name} (seq 0 {L.nparams}) with Some _ => true | None => false end.')
                names.append(n.name)
    lines.append('Eval vm_compute in [' + '; '.join(f'ok_{n}' for n in names) + '].')
    lines.append('(* order: ' + ' '.join(names) + ' *)')
    pathlib.Path(out).write_text('\n'.join(lines) + '\n')
    print(names)
if __name__ == '__main__': main(sys.argv[1], sys.argv[2])
