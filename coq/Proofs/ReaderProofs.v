(* Proofs/ReaderProofs.v -- C11: position arithmetic, bounds, statelessness under every interleaving, adjacency. *)
From Coq Require Import ZArith QArith Qround Lia Lqa List Bool.
From PB Require Import Model.Disp Model.Reader Proofs.DispProofs.
Import ListNotations.
Open Scope Z_scope.

Lemma rhe_int k : round_half_even (inject_Z k) = k.
Proof.
  pose proof (rhe_bounds (inject_Z k)) as [L U].
  set (r := round_half_even (inject_Z k)) in *.
  assert (H1 : (inject_Z r <= inject_Z k + (1 # 2))%Q) by lra.
  assert (H2 : (inject_Z k <= inject_Z r + (1 # 2))%Q) by lra.
  destruct (Z_lt_le_dec r k) as [A|A].
  - assert (inject_Z (r + 1) <= inject_Z k)%Q by (rewrite <- Zle_Qle; lia). rewrite inject_Z_plus in H. change (inject_Z 1) with 1%Q in H. lra.
  - destruct (Z_lt_le_dec k r) as [B|B]; [|lia].
    assert (inject_Z (k + 1) <= inject_Z r)%Q by (rewrite <- Zle_Qle; lia). rewrite inject_Z_plus in H. change (inject_Z 1) with 1%Q in H. lra.
Qed.

(* offset_at(time_at(k)) = k for every 0 <= k <= len, absolute and relative *)
Theorem roundtrip_rel r k : (0 < r_rate r)%Q -> 0 <= k <= r_len r -> offset_rel r (time_rel r k) = Some k.
Proof.
  intros Hr Hk. unfold offset_rel, time_rel.
  assert (E : (inject_Z k / r_rate r * r_rate r == inject_Z k)%Q) by (field; lra).
  rewrite (rhe_comp _ _ E), rhe_int.
  destruct (k <? 0) eqn:A; [apply Z.ltb_lt in A; lia|]. destruct (r_len r <? k) eqn:B; [apply Z.ltb_lt in B; lia|]. reflexivity.
Qed.
Theorem roundtrip_abs r k t0 : (0 < r_rate r)%Q -> 0 <= k <= r_len r -> r_t0 r = Some t0 ->
  exists t, time_at r k = Some t /\ offset_at r t = Some k.
Proof.
  intros Hr Hk Ht. unfold time_at, offset_at. rewrite Ht. eexists. split; [reflexivity|].
  unfold offset_rel.
  assert (E : ((t0 + time_rel r k - t0) * r_rate r == inject_Z k)%Q) by (unfold time_rel; field; lra).
  rewrite (rhe_comp _ _ E), rhe_int.
  destruct (k <? 0) eqn:A; [apply Z.ltb_lt in A; lia|]. destruct (r_len r <? k) eqn:B; [apply Z.ltb_lt in B; lia|]. reflexivity.
Qed.
(* times that round to an offset outside [0, len] are refused *)
Theorem offset_bounds r dt o : offset_rel r dt = Some o -> 0 <= o <= r_len r.
Proof. unfold offset_rel. destruct (_ || _) eqn:E; [discriminate|]. intros H. injection H as <-.
  apply orb_false_iff in E. destruct E as [A B]. apply Z.ltb_ge in A. apply Z.ltb_ge in B. lia. Qed.

(* read: exactly the requests outside [0, len] raise; otherwise n samples starting at time_at(offset), read from inside the file *)
Theorem read_spec r offset n : 0 <= r_len r ->
  match read r offset n with
  | RErr _ => offset < 0 \/ n < 0 \/ r_len r < offset + n
  | ROk m start lo hi => 0 <= offset /\ 0 <= n /\ offset + n <= r_len r /\ m = n /\ start = time_at r offset /\
                         0 <= lo /\ hi <= file_len r /\ hi - lo = (if r_real r then 2 * n else n) /\
                         lo = (if r_real r then 2 * offset else offset)
  end.
Proof.
  intros Hl. unfold read, file_len.
  destruct (offset <? 0) eqn:A; [apply Z.ltb_lt in A; left; exact A|]. apply Z.ltb_ge in A.
  destruct (n <? 0) eqn:B; [apply Z.ltb_lt in B; right; left; exact B|]. apply Z.ltb_ge in B.
  destruct (r_len r <? offset + n) eqn:C; [apply Z.ltb_lt in C; right; right; exact C|]. apply Z.ltb_ge in C.
  destruct (r_real r); repeat split; lia.
Qed.

(* ---------- handles ---------- *)
Section H.
  Variable Smp : Type.
  Variable file : list Smp.
  Notation lstate := (lstate Smp).

  (* a sequential read returns the file's samples [pos, pos + cnt) *)
  Theorem read_seq_spec pos cnt : read_seq Smp file (pos, cnt) = Some (firstn (Z.to_nat cnt) (skipn (Z.to_nat pos) file)).
  Proof. reflexivity. Qed.

  Lemma upd_nth {A} (l : list A) i f d : (i < length l)%nat -> nth i (upd l i f) d = f (nth i l d).
  Proof. revert i. induction l as [|x r IH]; intros i H; [cbn in H; lia|]. destruct i; cbn; [reflexivity|apply IH; cbn in H; lia]. Qed.
  Lemma upd_nth_other {A} (l : list A) i j f d : i <> j -> nth j (upd l i f) d = nth j l d.
  Proof. revert i j. induction l as [|x r IH]; intros i j H; [reflexivity|]. destruct i, j; cbn; try reflexivity; try lia. apply IH. lia. Qed.
  Lemma upd_length {A} (l : list A) i f : length (upd l i f) = length l.
  Proof. revert i. induction l as [|x r IH]; intros i; [reflexivity|]. destruct i; cbn; [reflexivity|rewrite IH; reflexivity]. Qed.
  Lemma iter_step k req s : iter Smp file (S k) req s = lstep Smp file req (iter Smp file k req s).
  Proof. revert s. induction k as [|k IH]; intros s; [reflexivity|]. cbn [iter] in *. rewrite <- IH. reflexivity. Qed.

  (* any interleaving: the state of thread j is its own program run for as many steps as it was scheduled *)
  Theorem interleaving_local reqs : forall sched st j d,
    (forall i, In i sched -> (i < length st)%nat) -> (j < length st)%nat ->
    nth j (run Smp file reqs sched st) d = iter Smp file (count j sched) (nth j reqs (0, 0)) (nth j st d).
  Proof.
    induction sched as [|i rest IH]; intros st j d Hin Hj; [reflexivity|].
    cbn [run]. rewrite IH; [|intros i' Hi'; rewrite upd_length; apply Hin; right; exact Hi'|rewrite upd_length; exact Hj].
    unfold count. cbn [filter]. destruct (Nat.eqb j i) eqn:E.
    - apply Nat.eqb_eq in E. subst i. cbn [length]. rewrite upd_nth by exact Hj. reflexivity.
    - apply Nat.eqb_neq in E. rewrite upd_nth_other by lia. reflexivity.
  Qed.
  Lemma iter_done req : forall k s, pc Smp s = 4%nat -> iter Smp file k req s = s.
  Proof. induction k as [|k IH]; intros s H; [reflexivity|]. cbn [iter]. unfold lstep at 1. rewrite H. apply IH. exact H. Qed.
  (* hence: concurrent reads, each with its own handle, return exactly the sequential results - whatever the schedule,
     provided every read is run to completion (4 atomic steps) *)
  Theorem concurrent_equals_sequential reqs sched j :
    (forall i, In i sched -> (i < length reqs)%nat) -> (j < length reqs)%nat -> (4 <= count j sched)%nat ->
    result Smp (nth j (run Smp file reqs sched (map (fun _ => linit Smp) reqs)) (linit Smp)) = read_seq Smp file (nth j reqs (0, 0)).
  Proof.
    intros Hin Hj Hc. rewrite interleaving_local; [|intros i Hi; rewrite map_length; apply Hin; exact Hi|rewrite map_length; exact Hj].
    assert (E : nth j (map (fun _ : Z * Z => linit Smp) reqs) (linit Smp) = linit Smp).
    { clear. revert j. induction reqs as [|x r IH]; intros j; destruct j; cbn; auto. }
    rewrite E. unfold read_seq.
    replace (count j sched) with ((count j sched - 4) + 4)%nat by lia.
    generalize (count j sched - 4)%nat as k. intros k.
    assert (G : forall a b s, iter Smp file (a + b) (nth j reqs (0, 0)) s = iter Smp file a (nth j reqs (0, 0)) (iter Smp file b (nth j reqs (0, 0)) s)).
    { intros a b. revert a. induction b as [|b IHb]; intros a s; [rewrite Nat.add_0_r; reflexivity|].
      replace (a + S b)%nat with (S (a + b)) by lia. cbn [iter]. apply IHb. }
    rewrite G. rewrite iter_done; [reflexivity|reflexivity].
  Qed.

  (* adjacent reads concatenate to the spanning read (formats without Hilbert conversion) *)
  Theorem adjacent_reads pos n1 n2 : 0 <= pos -> 0 <= n1 -> 0 <= n2 ->
    firstn (Z.to_nat n1) (skipn (Z.to_nat pos) file) ++ firstn (Z.to_nat n2) (skipn (Z.to_nat (pos + n1)) file) =
    firstn (Z.to_nat (n1 + n2)) (skipn (Z.to_nat pos) file).
  Proof.
    intros Hp H1 H2. rewrite !Z2Nat.inj_add by lia.
    generalize (Z.to_nat pos) as p, (Z.to_nat n1) as a, (Z.to_nat n2) as b. intros p a b.
    assert (SK : forall (l : list Smp) p a, skipn (p + a) l = skipn a (skipn p l)).
    { clear. intros l p. revert l. induction p as [|p IH]; intros l a; [reflexivity|]. destruct l as [|x l]; [destruct a; reflexivity|]. cbn. apply IH. }
    rewrite SK. generalize (skipn p file) as l. clear. intros l.
    revert l. induction a as [|a IH]; intros l; [reflexivity|]. destruct l as [|x l]; [cbn; destruct b; reflexivity|].
    cbn [firstn skipn app Nat.add]. f_equal. apply IH.
  Qed.
End H.

(* layouts are coordinate permutations: applying them twice along the same axes is the identity *)
Lemma guppi_involutive t c p : let '(t', p', c') := guppi_src t c p in guppi_src t' p' c' = (t, c, p).
Proof. reflexivity. Qed.
Lemma stokes_flip_involutive nchan t c s : snd (stokes_src nchan true t (snd (stokes_src nchan true t c s)) s) = c.
Proof. unfold stokes_src. cbn. lia. Qed.

(* offset_at is the NEAREST sample, and refuses exactly when that sample lies outside [0, len]: in particular every time more than
   half a sample before the start or after the end is refused (no truncation towards zero) *)
Lemma offset_nearest r dt o : offset_rel r dt = Some o ->
  (inject_Z o - (1 # 2) <= dt * r_rate r <= inject_Z o + (1 # 2))%Q /\ 0 <= o <= r_len r.
Proof.
  intros H. split; [|eapply offset_bounds; exact H]. unfold offset_rel in H.
  destruct ((round_half_even (dt * r_rate r) <? 0) || (r_len r <? round_half_even (dt * r_rate r))); [discriminate|].
  injection H as <-. apply rhe_bounds.
Qed.
Lemma offset_refused_before r dt : (dt * r_rate r < - (1 # 2))%Q -> offset_rel r dt = None.
Proof.
  intros H. unfold offset_rel. pose proof (rhe_bounds (dt * r_rate r)) as [L _].
  set (o := round_half_even (dt * r_rate r)) in *.
  assert (o < 0). { destruct (Z_lt_le_dec o 0) as [A|A]; [exact A|]. assert (0 <= inject_Z o)%Q by (change 0%Q with (inject_Z 0); rewrite <- Zle_Qle; exact A). lra. }
  assert ((o <? 0) = true) as -> by (apply Z.ltb_lt; assumption). reflexivity.
Qed.
Lemma offset_refused_after r dt : (inject_Z (r_len r) + (1 # 2) < dt * r_rate r)%Q -> offset_rel r dt = None.
Proof.
  intros H. unfold offset_rel. pose proof (rhe_bounds (dt * r_rate r)) as [_ U].
  set (o := round_half_even (dt * r_rate r)) in *.
  assert (r_len r < o). { destruct (Z_lt_le_dec (r_len r) o) as [A|A]; [exact A|]. assert (inject_Z o <= inject_Z (r_len r))%Q by (rewrite <- Zle_Qle; exact A). lra. }
  assert ((r_len r <? o) = true) as -> by (apply Z.ltb_lt; assumption). rewrite orb_true_r. reflexivity.
Qed.
