(* Proofs/SnippetC.v -- C12 / C03, values at a FRACTIONAL offset over the complex numbers: with the ramp the code uses
   (exp(-2 pi i s fftfreq(k)/n)), a tone at bin k0 comes out of the shift, at every sample that is not zero-filled, as the
   band-limited continuation of that tone evaluated at m - s; for snippet (s = floor(t) - t, sample floor(t) + k) that is the
   value at t + k.  By linearity (Lib/Dft.diag_linear) this determines the result for every input. *)
From Coq Require Import ZArith QArith Reals Lia Lra.
From Coq Require Import Qabs Qround Lqa.
From Coquelicot Require Import Complex.
From PB Require Import Lib.PySlice Lib.Dft Lib.DftC Model.Shift Proofs.ShiftProofs Proofs.ShiftC.
Open Scope R_scope.

(* snippet's residual shift a = floor(t) - t lies in (-1, 0): only the last sample is zero-filled (and cropped) *)
Lemma snippet_not_zeroed N a m : (-1 < a)%Q -> (a < 0)%Q -> (0 <= m)%Z -> (m <= N - 2)%Z -> in_range (zero_range N a) m = false.
Proof.
  intros H1 H2 Hm HN. destruct (in_range (zero_range N a) m) eqn:E; [|reflexivity]. exfalso.
  apply (zero_range_wording N a m ltac:(lia) ltac:(lia)) in E. destruct E as [[P _]|[_ Q]]; [lra|].
  assert (C : (Qceiling (Qabs a) <= 1)%Z).
  { rewrite Qabs_neg by lra. change 1%Z with (Qceiling 1). apply Qceiling_resp_le. lra. }
  lia.
Qed.

Section SC.
  Variable n : nat.
  Hypothesis npos : (0 < n)%nat.

  Definition cisn (x : R) : C := (cos (2 * PI * x / INR n), sin (2 * PI * x / INR n)).
  Definition fqk (k : nat) : Z := fftfreq (Z.of_nat n) (Z.of_nat k).
  (* the multiplier the code applies to bin k for a shift of s samples *)
  Definition ramp (s : R) (k : nat) : C := cisn (- (s * IZR (fqk k))).
  (* the band-limited continuation of tone k0: its value at real position tau *)
  Definition tone_at (k0 : nat) (tau : R) : C := cisn (IZR (fqk k0) * tau).

  Lemma cisn_add a b : cisn (a + b) = Cmult (cisn a) (cisn b).
  Proof.
    unfold cisn, Cmult. cbn [fst snd].
    replace (2 * PI * (a + b) / INR n) with (2 * PI * a / INR n + 2 * PI * b / INR n) by (field; apply not_0_INR; lia).
    rewrite cos_plus, sin_plus. f_equal; ring.
  Qed.
  Lemma cisn_period (x : R) (j : Z) : cisn (x + IZR j * INR n) = cisn x.
  Proof.
    unfold cisn. replace (2 * PI * (x + IZR j * INR n) / INR n) with (2 * PI * x / INR n + 2 * IZR j * PI) by (field; apply not_0_INR; lia).
    rewrite cos_plus, sin_plus, cos_2ZPI, sin_2ZPI. f_equal; ring.
  Qed.
  Lemma fqk_cong k : (k < n)%nat -> exists j : Z, (fqk k = Z.of_nat k + j * Z.of_nat n)%Z.
  Proof.
    intros Hk. unfold fqk, fftfreq. destruct (Z.of_nat k <=? (Z.of_nat n - 1) / 2)%Z.
    - exists 0%Z. lia.
    - exists (-1)%Z. lia.
  Qed.
  Lemma W_cisn z : W n z = cisn (IZR z).
  Proof. reflexivity. Qed.

  (* at integer positions the continuation IS the tone *)
  Lemma tone_at_int k0 m : (k0 < n)%nat -> tone_at k0 (INR m) = tone C (W n) k0 m.
  Proof.
    intros H0. unfold tone_at, tone. rewrite W_cisn. destruct (fqk_cong k0 H0) as [j E]. rewrite E.
    rewrite mult_IZR, plus_IZR, mult_IZR, <- !INR_IZR_INZ.
    replace ((INR k0 + IZR j * INR n) * INR m) with (INR k0 * INR m + IZR (j * Z.of_nat m) * INR n).
    - apply cisn_period.
    - rewrite mult_IZR, <- INR_IZR_INZ. ring.
  Qed.

  Theorem shift_tone_fractional (s : R) (r : Z * Z) (k0 m : nat) : (k0 < n)%nat -> in_range r (Z.of_nat m) = false ->
    tshiftC n (ramp s) r (tone C (W n) k0) m = tone_at k0 (INR m - s).
  Proof.
    intros H0 Hr. apply eq_trans with (1 := tshift_tone_C n npos (ramp s) r k0 m H0 Hr). rewrite <- (tone_at_int k0 m H0).
    unfold ramp, tone_at. rewrite <- cisn_add. f_equal. ring.
  Qed.

  (* snippet: t = i + fr with 0 < fr < 1; shift s = i - t; sample k of the result is sample i + k of the shifted signal *)
  Corollary snippet_tone (t : R) (i k k0 : nat) (r : Z * Z) : (k0 < n)%nat -> in_range r (Z.of_nat (i + k)) = false ->
    tshiftC n (ramp (INR i - t)) r (tone C (W n) k0) (i + k) = tone_at k0 (t + INR k).
  Proof. intros H0 Hr. rewrite (shift_tone_fractional _ r k0 (i + k) H0 Hr). f_equal. rewrite plus_INR. ring. Qed.
End SC.
