(* Props/C08.v -- polyco prediction equals the tempo formula on every entry's span.  Statements only (exact rationals,
   axiom-free); proofs in Proofs/PolycoProofs.v about Model/Polyco.v. *)
From Coq Require Import ZArith QArith Qround List Bool.
From PB Require Import Model.Polyco Proofs.PolycoProofs Gen.GenPolyco Proofs.PolycoGen.
From PB Require Import Model.PolycoTimeAt Proofs.PolycoTimeAtProofs Proofs.PolycoTimeAtGen.
Import ListNotations.
Open Scope Q_scope.

(* the phase of an entry built by from_polyco (rphase split, coeffs[0] += frac, coeffs[1] += 60 F0, domain [-60, 60] converted)
   at dt seconds from TMID is  RPHASE + 60 DT F0 + sum COEFF(i) DT^(i-1)  with DT = dt/60 minutes: every coefficient count >= 2 *)
Theorem C08_formula : forall (r : raw_entry) (e : entry) (c0 c1 : Q) (rest : list Q) (dt : Q),
  pad2 (r_coeffs r) = c0 :: c1 :: rest -> mk_entry r = Some e ->
  inject_Z (e_rphase e) + peval (e_poly e) dt ==
  tempo (inject_Z (r_rint r) + r_rfrac r) (r_f0 r) (c0 :: c1 :: rest) (dt / 60).
Proof. exact entry_is_tempo. Qed.
(* pad2 leaves two or more coefficients alone and reads a single one as (COEFF(1), 0); only an empty list is refused *)
Theorem C08_single_coeff : forall c, pad2 [c] = [c; 0].
Proof. exact pad2_single. Qed.
Theorem C08_no_coeff : forall r, r_coeffs r = [] <-> mk_entry r = None.
Proof. exact entry_needs_a_coeff. Qed.

(* entries sorted by TMID, one common span: a time inside SOME span is evaluated from an entry whose span contains it *)
Theorem C08_select : forall (span : Q) (es : list entry) (t : Q),
  sorted_tmid es -> (forall e, In e es -> e_span e == span) ->
  (exists e, In e es /\ e_start e <= t <= e_end e) ->
  exists e, nth_error es (searchsorted (map e_end es) t) = Some e /\ e_start e <= t <= e_end e.
Proof. exact selection_contains. Qed.

(* f0(t, n) evaluates the (n+1)-th formal derivative; the formal derivative is THE derivative: it is the first Taylor
   coefficient of the polynomial recentred at any point, and the recentred polynomial is exact *)
Theorem C08_recentre : forall cs d x, peval (pshift cs d) x == peval cs (x + d).
Proof. exact peval_pshift. Qed.
Theorem C08_derivative : forall cs d, coeff (pshift cs d) 1 == peval (deriv cs) d.
Proof. exact coeff1_pshift. Qed.
Theorem C08_derivative_product_rule : forall c cs x, peval (deriv (c :: cs)) x == peval cs x + x * peval (deriv cs) x.
Proof. exact deriv_cons. Qed.

(* phasepol: reference phase + recentred polynomial reproduces the prediction around t0, and starts in [0, 1) *)
Theorem C08_phasepol : forall (e : entry) (dt x : Q),
  let a := Qfloor (peval (e_poly e) dt) in
  inject_Z (e_rphase e + a) + peval (padd [- inject_Z a] (pshift (e_poly e) dt)) x ==
  inject_Z (e_rphase e) + peval (e_poly e) (dt + x).
Proof. exact phasepol_value. Qed.
Theorem C08_phasepol_fraction : forall (e : entry) (dt : Q),
  let a := Qfloor (peval (e_poly e) dt) in 0 <= peval (padd [- inject_Z a] (pshift (e_poly e) dt)) 0 < 1.
Proof. exact phasepol_fraction. Qed.

(* validity intervals: every span lies inside one interval; intervals are more than eps apart (everything that touches or
   overlaps within eps has been merged); their end points are span end points *)
Theorem C08_intervals_cover : forall eps es e, In e es -> exists i, In i (intervals eps es) /\ inside (e_start e, e_end e) i.
Proof. exact intervals_cover. Qed.
Theorem C08_intervals_separated : forall eps es, 0 <= eps -> sep eps (intervals eps es).
Proof. exact intervals_separated. Qed.
Theorem C08_intervals_endpoints : forall eps es i, In i (intervals eps es) ->
  (exists e, In e es /\ fst i == e_start e) /\ (exists e, In e es /\ snd i == e_end e).
Proof. exact intervals_endpoints. Qed.
(* times outside every interval are refused *)
Theorem C08_outside_refused : forall eps es t, in_intervals (intervals eps es) t = false ->
  predict eps es t = None /\ (forall n, f0 eps es t n = None) /\ phasepol eps es t = None.
Proof. exact outside_refused. Qed.

(* non-vacuity: two touching 90-minute spans and one separate span: two intervals *)
Example C08_witness :
  let mk t := {| e_tmid := t; e_span := 5400; e_rphase := 7; e_poly := [1 # 2; 3] |} in
  map (fun i => (Qred (fst i), Qred (snd i))) (intervals (1 # 1000) [mk 0; mk 5400; mk 20000]) = [(-2700, 8100); (17300, 22700)] /\
  option_map Qred (predict (1 # 1000) [mk 0; mk 5400; mk 20000] 2700) = Some (16215 # 2) /\
  predict (1 # 1000) [mk 0; mk 5400; mk 20000] 10000 = None.
Proof. vm_compute. repeat split; reflexivity. Qed.

(* PARTIAL: time_at (Newton root finding) is decided by the correspondence run + monitor only (|p(time_at(phi)) - phi| <= 1e-8). *)

(* tie to the source by translation (T14): span edges, one pass of the interval-merge loop, the membership test and dt of
   _get_index_and_dt, how __call__ / f0 / phasepol use the selected entry, the coefficient updates, padding and line count of from_polyco
   are GENERATED from pulsar/predictor.py on this run (its other statements pinned); the model is proved equal to them *)
Theorem C08_generated_intervals : (forall e, e_start e = gen_e_start e /\ e_end e = gen_e_end e /\ e_end e = gen_span_end e) /\
  (forall eps l start stop acc, merge eps l start stop acc = merge_gen eps l start stop acc).
Proof. exact (conj span_edges_generated merge_generated). Qed.
Theorem C08_generated_selection : forall eps es t,
  index_dt eps es t =
  if existsb (fun ab => gen_in_interval ab t) (intervals eps es) then
    match nth_error es (searchsorted (map gen_span_end es) t) with Some e => Some (e, gen_dt e t) | None => None end
  else None.
Proof. exact index_dt_generated. Qed.
Theorem C08_generated_evaluation : forall eps es t n,
  predict eps es t = match index_dt eps es t with Some (e, dt) => Some (gen_predict e dt) | None => None end /\
  f0 eps es t n = match index_dt eps es t with Some (e, dt) => Some (gen_f0 e dt n) | None => None end /\
  phasepol eps es t = match index_dt eps es t with Some (e, dt) => Some (gen_phasepol e dt) | None => None end.
Proof. exact (fun eps es t n => conj (predict_generated eps es t) (conj (f0_generated eps es t n) (phasepol_generated eps es t))). Qed.
Theorem C08_generated_entry : forall r,
  mk_entry r = match gen_pad (r_coeffs r) with
               | c0 :: c1 :: rest => Some {| e_tmid := r_tmid r; e_span := r_span r; e_rphase := r_rint r;
                                            e_poly := conv 1 (gen_c0 r c0 :: gen_c1 r c1 :: rest) |}
               | _ => None end.
Proof. exact mk_entry_generated. Qed.
Theorem C08_generated_lines : forall n, (0 <= n)%Z -> (3 * (gen_coeff_lines n - 1) < n <= 3 * gen_coeff_lines n)%Z.
Proof. exact coeff_lines_generated. Qed.

(* time_at: the logic around the root finder, for EVERY root finder that returns roots of the residual it is given (scipy's
   root_scalar is a parameter, Newton's iteration is not modelled): whatever time is returned inverts the prediction; a phase that no
   validity interval's end predictions strictly enclose never yields a time (ValueError when those predictions can be evaluated); the
   first guess is the TMID of the first entry whose end-of-span phase is not below the requested phase.  C08_time_at_example: the
   assumption is satisfiable (a candidate-trying root finder) and all three statements have a concrete two-entry instance. *)
Theorem C08_time_at_inverts : forall solver eps es ph guess t,
  solver_returns_roots solver -> time_at solver eps es ph guess = TaTime t ->
  exists p, predict eps es t = Some p /\ p == ph.
Proof. exact time_at_inverts. Qed.
Theorem C08_time_at_refuses : forall solver eps es ph guess,
  (forall a b pa pb, In (a, b) (intervals eps es) -> predict eps es a = Some pa -> predict eps es b = Some pb -> ~ (pa < ph < pb)) ->
  forall t, time_at solver eps es ph guess <> TaTime t.
Proof. exact time_at_refuses. Qed.
Theorem C08_time_at_value_error : forall solver eps es ph guess,
  ta_check eps es (intervals eps es) ph = Some false -> time_at solver eps es ph guess = TaValueError.
Proof. exact time_at_value_error. Qed.
Theorem C08_time_at_first_guess : forall eps es ph g, ta_guess eps es ph = Some g ->
  exists i e p, nth_error es i = Some e /\ g = e_tmid e /\ predict eps es (e_end e) = Some p /\ ph <= p /\
    forall j e', (j < i)%nat -> nth_error es j = Some e' -> exists p', predict eps es (e_end e') = Some p' /\ p' < ph.
Proof. exact time_at_first_guess. Qed.
Theorem C08_time_at_solver_exists : forall cands, solver_returns_roots (try_solver cands).
Proof. exact try_solver_ok. Qed.
Theorem C08_time_at_example :
  ta_check (1 # 1000) ex_entries (intervals (1 # 1000) ex_entries) 230 = Some true /\
  ta_guess (1 # 1000) ex_entries 230 = Some 100 /\
  time_at (try_solver [1; 15; 7]) (1 # 1000) ex_entries 230 None = TaTime (100 + 15) /\
  predict (1 # 1000) ex_entries (100 + 15) = Some (inject_Z 200 + (0 + (100 + 15 - 100) * (2 + (100 + 15 - 100) * 0))) /\
  time_at (try_solver [1; 15; 7]) (1 # 1000) ex_entries 500 None = TaValueError.
Proof. exact time_at_example. Qed.
Theorem C08_generated_time_at : forall solver eps es ph guess,
  time_at solver eps es ph guess =
  match ta_check eps es (intervals eps es) ph with
  | None => TaOther
  | Some false => TaValueError
  | Some true =>
      match (match guess with Some g => Some g | None => ta_guess eps es ph end) with
      | None => TaOther
      | Some g =>
          match solver (fun x => match predict eps es (gen_ta_arg g x) with Some p => Some (gen_ta_residual p ph) | None => None end) with
          | Some x => TaTime (gen_ta_result g x)
          | None => TaOther
          end
      end
  end.
Proof. exact time_at_generated. Qed.
Theorem C08_generated_time_at_check : forall eps es a b r ph,
  ta_check eps es ((a, b) :: r) ph =
  match predict eps es a, predict eps es b, ta_check eps es r ph with
  | Some pa, Some pb, Some c => Some (gen_ta_enclosed pa pb ph || c)
  | _, _, _ => None
  end.
Proof. exact ta_check_generated. Qed.
Theorem C08_generated_time_at_guess : forall eps es ph,
  ta_guess eps es ph =
  match ta_ph_end eps es es ph with
  | Some l => match nth_error es (searchsorted l gen_ta_searched) with Some e => Some (e_tmid e) | None => None end
  | None => None
  end.
Proof. exact ta_guess_generated. Qed.

Print Assumptions C08_formula.
Print Assumptions C08_select.
Print Assumptions C08_derivative.
Print Assumptions C08_phasepol.
Print Assumptions C08_intervals_cover.
Print Assumptions C08_intervals_separated.
Print Assumptions C08_intervals_endpoints.
Print Assumptions C08_generated_intervals.
Print Assumptions C08_generated_entry.
Print Assumptions C08_time_at_inverts.
Print Assumptions C08_time_at_first_guess.
Print Assumptions C08_generated_time_at.
