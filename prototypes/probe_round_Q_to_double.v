(* probe: correctly rounded (nearest-even) conversion of a rational to binary64, executable (models CPython float(str)) *)
From Coq Require Import ZArith QArith PrimFloat Uint63 SpecFloat FloatOps List.
Import ListNotations.
Open Scope Z_scope.

(* returns (m, e) with result = m * 2^e, 0 <= m <= 2^53, e >= -1074 *)
Definition round_pos (n d : Z) : Z * Z :=      (* n > 0, d > 0 *)
  let e0 := Z.log2 n - Z.log2 d - 53 in          (* a*2^-e0 in (2^52, 2^54) *)
  let scaled e := if e <? 0 then (n * 2 ^ (- e), d) else (n, d * 2 ^ e) in
  let '(nn, dd) := scaled e0 in
  let e := if 2 ^ 53 <=? nn / dd then e0 + 1 else e0 in
  let e := Z.max e (-1074) in
  let '(nn, dd) := scaled e in
  let m := nn / dd in let r := nn mod dd in
  let m := if (dd <? 2 * r) || ((dd =? 2 * r) && Z.odd m) then m + 1 else m in
  (m, e).
Definition float_of_me (neg : bool) (m e : Z) : float :=
  let a := ldshiftexp (of_uint63 (Uint63.of_Z m)) (Uint63.of_Z (e + 2101)) in if neg then (- a)%float else a.
Definition float_of_Q (q : Q) : float :=
  match Qnum q with
  | Z0 => 0%float
  | Zpos p => let '(m, e) := round_pos (Zpos p) (Zpos (Qden q)) in float_of_me false m e
  | Zneg p => let '(m, e) := round_pos (Zpos p) (Zpos (Qden q)) in float_of_me true m e
  end.
Definition to_me (x : float) : Z * Z :=
  match Prim2SF x with
  | S754_zero _ => (0, 0) | S754_finite s m e => ((if s then Z.neg m else Z.pos m), e) | _ => (0, 99999) end.
Definition run (c : Z * Z) : Z * Z := to_me (float_of_Q (Qmake (fst c) (Z.to_pos (snd c)))).
