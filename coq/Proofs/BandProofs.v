(* Proofs/BandProofs.v -- C02: channel labels follow the band model and survive frequency slicing. *)
From Coq Require Import ZArith QArith Qabs Lia Lqa List Bool String.
From PB Require Import Lib.PySlice Gen.GenConsts Model.Band.
Import ListNotations.
Open Scope Z_scope.

(* the alignment constants written in core.py are 0, 1/2, 1 (proved on the GENERATED table) *)
Lemma align_q_vals : (align_q 0 == 0)%Q /\ (align_q 1 == 1 # 2)%Q /\ (align_q 2 == 1)%Q.
Proof. vm_compute. repeat split; reflexivity. Qed.
Lemma label_formula_canonical : label_formula_is_canonical = true.
Proof. reflexivity. Qed.

Definition valid_align (a : Z) : Prop := a = 0 \/ a = 1 \/ a = 2.
Lemma align_q_doc a : valid_align a -> (align_q a == a_doc a)%Q.
Proof. destruct align_q_vals as (H0 & H1 & H2). intros [-> | [-> | ->]]; assumption. Qed.
Lemma align_q_range a : valid_align a -> (0 <= align_q a <= 1)%Q.
Proof. destruct align_q_vals as (H0 & H1 & H2). intros [-> | [-> | ->]]; lra. Qed.

Lemma label_spacing b i : (label b (i + 1) - label b i == bw b)%Q.
Proof. unfold label. rewrite inject_Z_plus. change (inject_Z 1) with 1%Q. ring. Qed.

Lemma inject_Z_le_iff a b : a <= b -> (inject_Z a <= inject_Z b)%Q.
Proof. intros. unfold Qle; simpl; lia. Qed.

Lemma labels_in_band b i : valid_align (align b) -> (0 < bw b)%Q -> 0 <= i < nchan b ->
  (min_freq b <= label b i <= max_freq b)%Q.
Proof.
  intros Ha Hb Hi. pose proof (align_q_range _ Ha) as [A0 A1].
  assert (H1 : (0 <= inject_Z i)%Q) by (apply (inject_Z_le_iff 0 i); lia).
  assert (H2 : (inject_Z i + 1 <= inject_Z (nchan b))%Q).
  { change 1%Q with (inject_Z 1). rewrite <- inject_Z_plus. apply inject_Z_le_iff. lia. }
  set (P := (bw b * (inject_Z i + align_q (align b)))%Q).
  set (R := (bw b * (inject_Z (nchan b) - inject_Z i - align_q (align b)))%Q).
  assert (E1 : (label b i - min_freq b == P)%Q) by (unfold P, label, min_freq, bandwidth; field).
  assert (E2 : (max_freq b - label b i == R)%Q) by (unfold R, label, max_freq, bandwidth; field).
  assert (HP : (0 <= P)%Q) by (apply Qmult_le_0_compat; lra).
  assert (HR : (0 <= R)%Q) by (apply Qmult_le_0_compat; lra).
  clearbody P R. split; lra.
Qed.

Lemma band_width b : (max_freq b - min_freq b == inject_Z (nchan b) * bw b)%Q.
Proof. unfold max_freq, min_freq, bandwidth. field. Qed.

Lemma norm_align_valid n a : valid_align a -> valid_align (norm_align n a).
Proof. intros H. unfold norm_align. destruct (Z.odd n); [right; left; reflexivity|exact H]. Qed.
Lemma norm_align_odd n a : Z.odd n = true -> norm_align n a = 1.
Proof. intros H. unfold norm_align. rewrite H. reflexivity. Qed.

(* frequency slicing *)
Theorem freq_slice_labels b a c st b' lo :
  0 <= nchan b -> freq_slice b a c st = BOk b' lo ->
  0 <= lo /\ 1 <= nchan b' /\ lo + nchan b' <= nchan b /\ (bw b' == bw b)%Q /\ align b' = 1 /\
  lo = clip (nchan b) a 0 /\ lo + nchan b' = clip (nchan b) c (nchan b) /\
  forall j, (label b' j == label b (lo + j))%Q.
Proof.
  intros Hn H. unfold freq_slice in H.
  assert (Hs : exists lo0 hi0, slice_indices a c st (nchan b) = Some (lo0, hi0, 1) /\ lo0 <? hi0 = true /\
               BOk (mk_band ((label b lo0 + label b (hi0 - 1)) / 2)%Q (bw b) (hi0 - lo0) 1) lo0 = BOk b' lo).
  { destruct st as [s|].
    - destruct (Z.eq_dec s 0) as [->|Hs0]; [discriminate|].
      assert (E0 : match s with 0 => BErr 3 | _ => if s <? 0 then BErr 2 else
                match slice_indices a c (Some s) (nchan b) with
                | None => BErr 2
                | Some (lo, hi, s0) => if negb (s0 =? 1) then BErr 2 else if negb (lo <? hi) then BErr 2
                    else BOk (mk_band ((label b lo + label b (hi - 1)) / 2)%Q (bw b) (hi - lo) 1) lo end end = BOk b' lo)
        by (destruct s; [contradiction|exact H|exact H]).
      clear H. destruct s as [|p|p]; [contradiction| |discriminate].
      change (Z.pos p <? 0) with false in E0. cbv iota in E0.
      destruct (slice_indices a c (Some (Z.pos p)) (nchan b)) as [[[lo0 hi0] s0]|] eqn:E; [|discriminate].
      destruct (s0 =? 1) eqn:E1; [|discriminate]. apply Z.eqb_eq in E1. subst s0. cbn [negb] in E0.
      destruct (lo0 <? hi0) eqn:E2; [|discriminate]. cbn [negb] in E0.
      exists lo0, hi0. repeat split; assumption.
    - change (1 <? 0) with false in H. cbv iota in H.
      destruct (slice_indices a c None (nchan b)) as [[[lo0 hi0] s0]|] eqn:E; [|discriminate].
      destruct (s0 =? 1) eqn:E1; [|discriminate]. apply Z.eqb_eq in E1. subst s0. cbn [negb] in H.
      destruct (lo0 <? hi0) eqn:E2; [|discriminate]. cbn [negb] in H.
      exists lo0, hi0. repeat split; assumption. }
  destruct Hs as (lo0 & hi0 & E & Elt & Eb). apply Z.ltb_lt in Elt. injection Eb as <- <-.
  unfold slice_indices in E. destruct ((match st with None => 1 | Some s => s end) <=? 0); [discriminate|].
  injection E as E1 E2 _.
  pose proof (clip_range (nchan b) a 0 Hn ltac:(lia)) as Ca.
  pose proof (clip_range (nchan b) c (nchan b) Hn ltac:(lia)) as Cc.
  cbn [nchan bw align mk_band].
  assert (Hal : norm_align (hi0 - lo0) 1 = 1) by (unfold norm_align; destruct (Z.odd _); reflexivity).
  repeat split; try lia; try reflexivity; try exact Hal.
  intros j. unfold label. cbn [cf bw nchan align mk_band]. rewrite Hal.
  destruct align_q_vals as (_ & H1 & _). rewrite H1.
  unfold Z.sub. rewrite !inject_Z_plus, !inject_Z_opp. change (inject_Z 1) with 1%Q. field.
Qed.

Theorem freq_slices_labels : forall sl b b' lo,
  0 <= nchan b -> freq_slices b sl = BOk b' lo ->
  0 <= lo /\ lo + nchan b' <= nchan b /\ (bw b' == bw b)%Q /\ forall j, (label b' j == label b (lo + j))%Q.
Proof.
  induction sl as [|[a c] r IH]; intros b b' lo Hn H; cbn [freq_slices] in H.
  - injection H as <- <-. repeat split; try lia; try reflexivity.
  - destruct (freq_slice b a c None) as [b1 lo1|e] eqn:E1; [|discriminate].
    destruct (freq_slices b1 r) as [b2 lo2|e] eqn:E2; [|discriminate]. injection H as <- <-.
    destruct (freq_slice_labels _ _ _ _ _ _ Hn E1) as (A1 & A2 & A3 & A4 & _ & _ & _ & A5).
    assert (Hn1 : 0 <= nchan b1) by lia. destruct (IH _ _ _ Hn1 E2) as (B1 & B2 & B3 & B4).
    repeat split; try lia.
    + rewrite B3. exact A4.
    + intros j. rewrite B4, A5. replace (lo1 + (lo2 + j)) with (lo1 + lo2 + j) by lia. reflexivity.
Qed.

(* ---------- the model satisfies the executable statement ---------- *)
Lemma Qclose_refl tol a b : (0 <= tol)%Q -> (a == b)%Q -> Qclose tol a b = true.
Proof.
  intros Ht E. unfold Qclose. apply Qle_bool_iff. rewrite E.
  setoid_replace (b - b)%Q with 0%Q by ring. exact Ht.
Qed.

Lemma indexed_map_seq (g : Z -> Q) : forall N k i f,
  In (i, f) (indexed (Z.of_nat k) (map (fun j => g (Z.of_nat j)) (seq k N))) ->
  f = g i /\ Z.of_nat k <= i < Z.of_nat k + Z.of_nat N.
Proof.
  induction N as [|N IH]; intros k i f H; cbn [seq map indexed] in H; [contradiction|].
  destruct H as [H|H].
  - injection H as <- <-. split; [reflexivity|lia].
  - replace (Z.of_nat k + 1) with (Z.of_nat (S k)) in H by lia.
    destruct (IH _ _ _ H) as [A B]. split; [exact A|lia].
Qed.

Lemma labels_length b : List.length (labels b) = Z.to_nat (nchan b).
Proof. unfold labels. rewrite map_length, seq_length. reflexivity. Qed.

Theorem band_meets_spec b tol :
  1 <= nchan b -> (0 < bw b)%Q -> valid_align (align b) -> (Z.odd (nchan b) = true -> align b = 1) ->
  (0 <= tol)%Q -> C02_ok tol (bobs_of_model b) = 0.
Proof.
  intros Hn Hb Ha Hodd Ht. unfold C02_ok, bobs_of_model.
  cbn [bo_cf bo_bw bo_n bo_align bo_labels bo_min bo_max bo_bandwidth].
  rewrite labels_length, Z2Nat.id by lia. rewrite Z.eqb_refl.
  replace (1 <=? nchan b) with true by (symmetry; apply Z.leb_le; exact Hn). cbn [andb].
  match goal with |- context [forallb ?f (indexed 0 (labels b))] => assert (B2 : forallb f (indexed 0 (labels b)) = true) end.
  { apply forallb_forall. intros [i f] Hin. unfold labels in Hin. change 0 with (Z.of_nat 0) in Hin.
    apply indexed_map_seq in Hin. destruct Hin as [-> _]. apply Qclose_refl; [exact Ht|].
    unfold label. rewrite (align_q_doc _ Ha). reflexivity. }
  rewrite B2.
  assert (B4 : (if Z.odd (nchan b) then align b =? 1 else true) && ((align b =? 0) || (align b =? 1) || (align b =? 2)) = true).
  { apply andb_true_iff. split.
    - destruct (Z.odd (nchan b)) eqn:E; [|reflexivity]. rewrite (Hodd eq_refl). reflexivity.
    - destruct Ha as [-> | [-> | ->]]; reflexivity. }
  rewrite B4.
  match goal with |- context [forallb ?f (labels b)] => assert (B8 : forallb f (labels b) = true) end.
  { apply forallb_forall. intros f Hin. unfold labels in Hin. apply in_map_iff in Hin. destruct Hin as (j & <- & Hj).
    apply in_seq in Hj. pose proof (labels_in_band b (Z.of_nat j) Ha Hb ltac:(lia)) as [L1 L2].
    apply andb_true_iff. split; apply Qle_bool_iff; lra. }
  rewrite B8. cbn [andb].
  rewrite (Qclose_refl tol _ _ Ht (band_width b)).
  assert (E : (bandwidth b == inject_Z (nchan b) * bw b)%Q) by (unfold bandwidth; ring).
  rewrite (Qclose_refl tol _ _ Ht E). reflexivity.
Qed.

(* Stokes / trailing-axis component selection copies the band and the time ledger (like()):
   in the model it is the identity on [band]; stated for completeness *)
Definition select_component (b : band) : band := b.
Lemma select_component_labels b i : (label (select_component b) i == label b i)%Q.
Proof. reflexivity. Qed.

(* non-vacuity *)
Example slice_example :
  match freq_slice (mk_band (1400#1) (4#1) 8 0) (Some (-6)) (Some 7) None with
  | BOk b' lo => lo = 2 /\ nchan b' = 5 /\ (label b' 0 == label (mk_band (1400#1) (4#1) 8 0) 2)%Q /\ (cf b' == 1400 - 16 + 16)%Q
  | BErr _ => False end.
Proof. vm_compute. repeat split; reflexivity. Qed.
