(* Props/C18.v -- property C18, stated about the definitions GENERATED from pulsarbat/utils.py.
   Only statements, [exact] and Print Assumptions live here. *)
From Coq Require Import ZArith Znumtheory.
From PB Require Import Gen.GenUtils Model.FastLen Proofs.FastLenB Proofs.FastLenPrev Proofs.FastLenTop Model.Ledger Gen.GenFastLenCrop Proofs.LedgerGen.
Open Scope Z_scope.

(* smooth7 m := 0 < m /\ forall p, prime p -> (p | m) -> p <= 7 *)
Theorem C18_next : forall N, 0 <= N ->
  exists r, next_fast_len N = Some r /\ (N = 0 -> r = 0) /\
            (1 <= N -> smooth7 r /\ N <= r /\ forall m, smooth7 m -> N <= m -> r <= m).
Proof. exact next_fast_len_total. Qed.

Theorem C18_prev : forall N, 0 <= N ->
  exists r, prev_fast_len N = Some r /\ (N = 0 -> r = 0) /\
            (1 <= N -> smooth7 r /\ r <= N /\ forall m, smooth7 m -> m <= N -> m <= r).
Proof. exact prev_fast_len_total. Qed.

Theorem C18_smooth_forms : forall m, smooth m <-> smooth7 m.
Proof. exact smooth_iff. Qed.

Theorem C18_fast_len : forall len, 0 <= len ->
  exists k, fast_len_keep len = Some k /\ 0 <= k <= len /\ (1 <= len -> 1 <= k).
Proof. exact fast_len_prefix. Qed.

(* tie to the source by translation (T6): fast_len is a plain time slice of the signal itself with the bounds GENERATED from
   transforms.fast_len on this run - z[ : prev_fast_len(len z)] - so the ledger theorems of C01 (retained samples, their timestamps, the
   half-open extent) apply to it, whatever array backs the signal *)
Theorem C18_generated_crop : forall l : ledger,
  step l OFastLen = match gen_fast_len_lo (len l), gen_fast_len_hi (len l) with
                    | Some lo, Some hi => time_slice l lo hi None
                    | _, _ => Err 9 end.
Proof. exact fast_len_generated. Qed.

Print Assumptions C18_next.
Print Assumptions C18_prev.
Print Assumptions C18_smooth_forms.
Print Assumptions C18_fast_len.
Print Assumptions C18_generated_crop.
