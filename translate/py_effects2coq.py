#!/usr/bin/env python3
"""Translator T3: lowers pulsarbat's array-handling functions and methods to the effect IR of coq/Model/Effects.v (C14).

Fail-closed: a callee that is not in the committed classification tables below becomes SCallUnknown on everything it is
given (the analyser then rejects the function if any of that may reach an input buffer); syntax outside the subset aborts.

Classification (the trusted part of T3, cross-validated by the dynamic snapshot run of harness/c14.py):
  alias  - result may share memory with its arguments (views, attributes, wrappers, view-or-copy calls)
  fresh  - result is newly allocated (arithmetic, fft, stack, take, exp, ...)
  sinks  - in-place stores: AugAssign on a name, subscript / attribute stores, in-place methods, out= keyword
  fresh containers - **kwargs / *args parameters, locals only ever bound to dict()/list/tuple displays, and `self` inside
           __init__ / property setters: a store INTO them is a join of contents (SAssign), not a write; loads alias them.
"""
import ast, sys, pathlib

FRESH = {'np.array', 'np.exp', 'np.stack', 'np.concatenate', 'np.take', 'np.fft.fftshift', 'np.fft.ifftshift', 'np.fft.fftfreq', 'np.arange',
         'np.zeros', 'np.allclose', 'np.iscomplexobj', 'np.floor', 'np.ceil', 'np.nditer', 'np.sqrt', 'np.prod', 'np.dtype', 'np.can_cast',
         'np.issubdtype', 'np.isscalar', 'np.empty', 'np.ones', 'np.result_type',
         'pb.fft.fft', 'pb.fft.ifft', 'scipy.fft.fft', 'scipy.fft.ifft', 'da.fft.fftfreq', 'da.arange', 'da.map_blocks', 'da.from_delayed',
         'dask.delayed', 'dask.array.from_delayed',
         'int', 'float', 'complex', 'len', 'min', 'max', 'abs', 'sum', 'math.ceil', 'math.floor', 'math.prod', 'operator.index', 'isinstance', 'issubclass',
         'type', 'slice', 'range', 'enumerate', 'zip', 'all', 'any', 'hex', 'id', 'repr', 'str', 'bool', 'round', 'sorted', 'set', 'frozenset',
         'u.isclose', 'u.allclose', 'Time.isclose', 'u.Quantity', 'Time',
         'ValueError', 'TypeError', 'IndexError', 'KeyError', 'AttributeError', 'InvalidSignalError', 'OutOfBoundsError', 'NotImplementedError',
         'getattr', 'hasattr', 'inspect.signature', 'copy.deepcopy', 'deepcopy', 'func', 'delayed_tf', '_transfer_function',
         'np.int64', 'textwrap.indent', 'verify_scalar_quantity', 'super', 'np.shape', 'np.ndim', 'np.isrealobj', 'np.iscomplex',
         'np.bool_', 'np.round', 'np.rint', 'np.abs', 'np.conj', 'np.real_if_close'}
ALIAS = {'np.asarray', 'np.asanyarray', 'np.broadcast_to', 'dask.array.asanyarray', 'da.asanyarray', 'tuple', 'list', 'dict', 'np.moveaxis',
         'np.swapaxes', 'np.reshape', 'np.squeeze', 'np.atleast_1d', 'np.real', 'np.imag', 'np.flip', 'np.transpose'}
FRESH_METHODS = {'to', 'conj', 'round', 'copy', 'compute', 'persist', 'rechunk', 'indices', 'items', 'keys', 'values', 'get', 'format',
                 'split', 'strip', 'lower', 'upper', 'sum', 'mean', 'isot', 'index', 'count', 'join', 'startswith', 'endswith', 'is_equivalent',
                 'isclose', 'decompose', 'time_delay', 'sample_delay', 'chirp_function', 'chirp_from_signal', 'contains', 'get_axis',
                 '_time_slice', '_freq_slice', '_attr_repr', 'max', 'min', 'all', 'any', 'tolist', 'item'}
# to_value returns a VIEW of the Quantity's array when the conversion factor is 1 (astropy), .value always does
ALIAS_METHODS = {'reshape', 'swapaxes', 'transpose', 'view', 'astype', 'squeeze', 'ravel', 'like', 'to_dask_array', 'to_value', 'flatten_view'}
# in-place methods: a store through the receiver
WRITE_METHODS = {'update', 'append', 'extend', 'sort', 'fill', 'setdefault', 'pop', 'clear', 'insert', 'remove', 'resize', 'put', 'itemset',
                 'setflags', 'partition', 'byteswap', 'setfield', '__setitem__', '__iadd__', '__imul__'}
IMMUTABLE_ATTRS = {'start_time', 'stop_time', 'sample_rate', 'dt', 'center_freq', 'chan_bw', 'freq_align', 'pol_type', 'shape', 'sample_shape',
                   'ndim', 'dtype', 'nchan', 'time_length', 'max_freq', 'min_freq', 'bandwidth', 'channel_freqs', 'isscalar', 'multi_index',
                   'start', 'stop', 'step', 'nout', 'kind', 'default', 'parameters', 'unit', 'size', '__name__', '__class__',
                   'POSITIONAL_ONLY', 'empty', 'axes_labels', 'name', 'isot'}
# NOT immutable: .value of a Quantity is a view of its array -> alias (default for attributes)
# package-internal callees proved by their own obligation (no write); result may alias what they are given
KNOWN_ALIAS = {'self._signal_type', 'self.read', 'super().read', 'pb.time_shift', 'type(z).like', 'sig_type.like', 'sig_class.like', 'type(self).like', 'type(x).like', 'IntensitySignal.like',
               'FullStokesSignal.like', 'cls', 'super().__getitem__', 'super().__init__', 'pb.fast_len', 'pb.snippet'}
# reader internals: each is lowered and proved by its own obligation (returns data freshly read / new Time); fh.* is baseband's file handle
KNOWN_FRESH = {'self._get_index_and_dt', 'self._read_array', 'self._read_baseband', 'self._read_data', 'self.time_at', 'delayed_read', 'fh.read', 'fh.seek', 'self._get_fh',
               'pb.utils.prev_fast_len', 'pb.utils.next_fast_len', 'pb.utils.real_to_complex', 'DM.chirp_from_signal', 'DM.sample_delay',
               'self.chirp_function', 'self.time_delay', 'self.get_axis', 'self.contains', 'self._time_slice', 'self._freq_slice'}

TARGETS = [
    ('transforms/transforms.py', None, ['concatenate', 'snippet', 'time_shift', 'freq_shift', 'fast_len']),
    ('transforms/dedispersion.py', None, ['_transfer_function', 'coherent_dedispersion', 'incoherent_dedispersion']),
    ('transforms/dedispersion.py', 'DispersionMeasure', ['time_delay', 'sample_delay', 'chirp_function', 'chirp_from_signal']),
    ('contrib/misc.py', None, ['stft', 'istft']),
    ('utils.py', None, ['real_to_complex']),
    ('core.py', 'Signal', ['__init__', '__array__', '_time_slice', '__getitem__', 'get_axis', 'contains', 'compute', 'persist',
                           'to_dask_array', 'rechunk', 'like', 'meta.setter', 'sample_rate.setter', 'start_time.setter']),
    ('core.py', 'RadioSignal', ['__init__', '_freq_slice', '__getitem__', 'channel_freqs', 'center_freq.setter', 'chan_bw.setter', 'freq_align.setter']),
    ('core.py', 'FullStokesSignal', ['__getitem__']),
    ('core.py', 'BasebandSignal', ['__init__', 'to_intensity']),
    ('core.py', 'DualPolarizationSignal', ['__init__', 'to_linear', 'to_circular', 'to_stokes', 'pol_type.setter']),
    ('readers/_base.py', 'BaseReader', ['contains', 'offset_at', 'time_at', '_read_data', 'read', 'dask_read']),
    ('readers/_baseband_readers.py', 'BasebandReader', ['_read_baseband', '_read_array', 'read']),
    ('readers/_baseband_readers.py', 'GUPPIRawReader', ['_read_array']),
    ('readers/_baseband_readers.py', 'DADAStokesReader', ['_read_array']),
    ('transforms/transforms.py', None, ['signal_transform']),
    # the predictor's evaluation methods: the table (self), its stored polynomials and the Time argument are inputs
    ('pulsar/predictor.py', 'PhasePredictor', ['phasepol', 'f0']),   # __call__ ends in pb.Phase(ph1, ph2) on a possible alias of the table: not accepted by the analyser without trusting Phase.__new__, left to the run
]
# deliberately not lowered: Signal.__array_ufunc__ (the sanctioned out= / in-place operator path of the property text)


class Unsupported(Exception):
    pass


def is_display(n):
    if isinstance(n, (ast.Dict, ast.List, ast.Tuple, ast.ListComp, ast.DictComp, ast.GeneratorExp)):
        return True
    if isinstance(n, ast.Call) and isinstance(n.func, ast.Name) and n.func.id in ('dict', 'list', 'tuple') and True:
        return n.func.id == 'dict' or all(is_display(a) for a in n.args)
    if isinstance(n, ast.BinOp) and isinstance(n.op, (ast.Mult, ast.Add)):
        return is_display(n.left) or is_display(n.right)
    return False


class Lower:
    def __init__(self, fn, self_is_container):
        self.fn = fn
        self.vars = {}
        self.unknown = []
        a = fn.args
        params = [x.arg for x in a.posonlyargs + a.args + a.kwonlyargs]
        for p in params:
            self.var(p)
        self.containers = set()
        for extra in (a.vararg, a.kwarg):
            if extra is not None:
                self.var(extra.arg)          # its CONTENT is an input; the container itself is fresh
                self.containers.add(extra.arg)
        self.nparams = len(self.vars)
        if self_is_container and params and params[0] == 'self':
            self.containers.add('self')
        # locals bound only to displays are fresh containers
        bound = {}
        for n in ast.walk(fn):
            if isinstance(n, ast.Assign):
                for t in n.targets:
                    if isinstance(t, ast.Name):
                        bound.setdefault(t.id, []).append(is_display(n.value))
            elif isinstance(n, (ast.AugAssign, ast.For, ast.NamedExpr, ast.comprehension)):
                t = n.target
                for m in ast.walk(t):
                    if isinstance(m, ast.Name):
                        bound.setdefault(m.id, []).append(False)
        for k, v in bound.items():
            if all(v) and k not in params:
                self.containers.add(k)

    def var(self, name):
        if name not in self.vars:
            self.vars[name] = len(self.vars)
        return self.vars[name]

    @staticmethod
    def callee(f):
        try:
            return ast.unparse(f)
        except Exception:
            return '?'

    def e(self, n):
        """-> Coq expr term, or None for a call of an unclassified callee"""
        if n is None or isinstance(n, ast.Constant):
            return 'EFresh []'
        if isinstance(n, ast.Name):
            return f'EVar {self.var(n.id)}' if n.id in self.vars else 'EFresh []'
        if isinstance(n, ast.Attribute):
            if n.attr in IMMUTABLE_ATTRS:
                return f'EFresh [{self.eu(n.value)}]'
            return f'EAlias [{self.eu(n.value)}]'
        if isinstance(n, ast.Subscript):
            return f'EAlias [{self.eu(n.value)}]'
        if isinstance(n, ast.BinOp):
            return f'EFresh [{self.eu(n.left)}; {self.eu(n.right)}]'
        if isinstance(n, ast.UnaryOp):
            return f'EFresh [{self.eu(n.operand)}]'
        if isinstance(n, (ast.Compare, ast.BoolOp, ast.JoinedStr, ast.Lambda, ast.Set, ast.Slice)):
            return 'EFresh []'
        if isinstance(n, ast.Dict):
            return 'EAlias [' + '; '.join(self.eu(x) for x in n.values if x is not None) + ']'
        if isinstance(n, ast.IfExp):
            return f'EAlias [{self.eu(n.body)}; {self.eu(n.orelse)}]'
        if isinstance(n, (ast.Tuple, ast.List)):
            return 'EAlias [' + '; '.join(self.eu(x) for x in n.elts) + ']'
        if isinstance(n, (ast.ListComp, ast.GeneratorExp, ast.DictComp)):
            for g in n.generators:
                it = self.eu(g.iter)
                for t in ast.walk(g.target):
                    if isinstance(t, ast.Name):
                        self.pending.append(f'SAssign {self.var(t.id)} (EAlias [{it}])')
            elt = n.value if isinstance(n, ast.DictComp) else n.elt
            return f'EAlias [{self.eu(elt)}]'
        if isinstance(n, ast.Starred):
            return self.e(n.value)
        if isinstance(n, ast.NamedExpr):
            v = self.eu(n.value)
            self.pending.append(f'SAssign {self.var(n.target.id)} ({v})')
            return v
        if isinstance(n, ast.Call):
            args = [self.eu(a) for a in n.args] + [self.eu(k.value) for k in n.keywords]
            for k in n.keywords:
                if k.arg == 'out':
                    self.pending.append(f'SWrite ({self.eu(k.value)})')
            name = self.callee(n.func)
            if name in FRESH or name in KNOWN_FRESH:
                return 'EFresh [' + '; '.join(args) + ']'
            if name in ALIAS or name in KNOWN_ALIAS:
                return 'EAlias [' + '; '.join(args) + ']'
            if isinstance(n.func, ast.Attribute):
                recv = self.eu(n.func.value)
                if n.func.attr in WRITE_METHODS:
                    base = n.func.value
                    if isinstance(base, ast.Name) and base.id in self.containers:
                        self.pending.append(f'SAssign {self.var(base.id)} (EAlias [' + '; '.join([recv] + args) + '])')
                    else:
                        self.pending.append(f'SWrite ({recv})')
                    return 'EAlias [' + '; '.join([recv] + args) + ']'
                if n.func.attr in ALIAS_METHODS:
                    return 'EAlias [' + '; '.join([recv] + args) + ']'
                if n.func.attr in FRESH_METHODS:
                    return 'EFresh [' + '; '.join([recv] + args) + ']'
                args = [recv] + args
            self.unknown.append(name)
            self.pending.append('SCallUnknown [' + '; '.join(args) + ']')
            return 'EAlias [' + '; '.join(args) + ']'
        raise Unsupported(f'expr {type(n).__name__} in {self.fn.name}')

    def eu(self, n):
        return self.e(n)

    pending = None

    prefix_mode = False      # inside a loop body that contains break/continue: every block may stop after any statement

    def seq(self, stmts):
        out = None
        for s in reversed(stmts):
            if out is None:
                out = s
            elif self.prefix_mode:
                out = f'SSeq ({s}) (SIf ({out}) (SSkip))'
            else:
                out = f'SSeq ({s}) ({out})'
        return out or 'SSkip'

    def loop_body(self, n, mk):
        has_jump = any(isinstance(m, (ast.Break, ast.Continue)) for b in n.body for m in ast.walk(b))
        saved, self.prefix_mode = self.prefix_mode, self.prefix_mode or has_jump
        try:
            return mk()
        finally:
            self.prefix_mode = saved

    def assign(self, target, val):
        if isinstance(target, ast.Name):
            return [f'SAssign {self.var(target.id)} ({val})']
        if isinstance(target, (ast.Tuple, ast.List)):
            r = []
            for t in target.elts:
                r += self.assign(t, f'EAlias [{val}]')
            return r
        if isinstance(target, ast.Starred):
            return self.assign(target.value, val)
        if isinstance(target, (ast.Subscript, ast.Attribute)):
            base = target.value
            if isinstance(base, ast.Name) and base.id in self.containers:
                return [f'SAssign {self.var(base.id)} (EAlias [EVar {self.var(base.id)}; {val}])']
            return [f'SWrite ({self.eu(base)})']
        raise Unsupported('assignment target')

    def with_pending(self, f):
        saved, self.pending = self.pending, []
        try:
            r = f()
            return self.pending, r
        finally:
            self.pending = saved

    def s(self, n):
        if isinstance(n, ast.Assign):
            pre, v = self.with_pending(lambda: self.eu(n.value))
            r = []
            for t in n.targets:
                p2, a = self.with_pending(lambda: self.assign(t, v))
                r += p2 + a
            return pre + r
        if isinstance(n, ast.AugAssign):
            pre, v = self.with_pending(lambda: self.eu(n.value))
            if isinstance(n.target, ast.Name):
                x = self.var(n.target.id)
                return pre + [f'SWrite (EVar {x})', f'SAssign {x} (EAlias [EVar {x}; EFresh [{v}]])']
            p2, b = self.with_pending(lambda: self.eu(n.target.value))
            return pre + p2 + [f'SWrite ({b})']
        if isinstance(n, ast.Expr):
            if isinstance(n.value, ast.Constant):
                return []
            pre, _ = self.with_pending(lambda: self.eu(n.value))
            return pre
        if isinstance(n, ast.Return):
            pre, _ = self.with_pending(lambda: self.eu(n.value))
            return pre
        if isinstance(n, ast.Raise):
            pre, _ = self.with_pending(lambda: (self.eu(n.exc) if n.exc is not None else None))
            return pre
        if isinstance(n, ast.Assert):
            pre, _ = self.with_pending(lambda: self.eu(n.test))
            return pre
        if isinstance(n, ast.Pass):
            return []
        if isinstance(n, (ast.Break, ast.Continue)):
            if not self.prefix_mode:
                raise Unsupported('break/continue outside a lowered loop')
            return []
        if isinstance(n, ast.If):
            pre, _ = self.with_pending(lambda: self.eu(n.test))
            return pre + [f'SIf ({self.block(n.body)}) ({self.block(n.orelse)})']
        if isinstance(n, ast.For):
            pre, it = self.with_pending(lambda: self.eu(n.iter))
            p2, tgt = self.with_pending(lambda: self.assign(n.target, f'EAlias [{it}]'))
            body = self.loop_body(n, lambda: self.seq(p2 + tgt + [self.block(n.body)]))
            return pre + [f'SLoop ({body})'] + ([f'SIf ({self.block(n.orelse)}) (SSkip)'] if n.orelse else [])
        if isinstance(n, ast.While):
            pre, _ = self.with_pending(lambda: self.eu(n.test))
            body = self.loop_body(n, lambda: self.seq([self.block(n.body)] + pre))
            return pre + [f'SLoop ({body})']
        if isinstance(n, ast.Try):
            body = self.block(n.body)
            out = self.seq([body, self.block(n.orelse)]) if n.orelse else body
            for h in n.handlers:
                hb = []
                if h.name:
                    hb = [f'SAssign {self.var(h.name)} (EFresh [])']
                out = f'SIf ({out}) (SSeq ({body}) ({self.seq(hb + [self.block(h.body)])}))'
            return [out] + ([self.block(n.finalbody)] if n.finalbody else [])
        if isinstance(n, ast.With):
            pre = []
            for it in n.items:
                p, v = self.with_pending(lambda: self.eu(it.context_expr))
                pre += p
                if it.optional_vars is not None:
                    pre += self.assign(it.optional_vars, v)
            return pre + [self.block(n.body)]
        if isinstance(n, (ast.FunctionDef, ast.Import, ast.ImportFrom)):
            return []
        raise Unsupported(f'stmt {type(n).__name__} in {self.fn.name}')

    def block(self, stmts):
        out = []
        for st in stmts:
            out += self.s(st)
        return self.seq(out)


def find(tree, cls, name):
    body = tree.body
    if cls is not None:
        cs = [n for n in body if isinstance(n, ast.ClassDef) and n.name == cls]
        if not cs:
            return None
        body = cs[0].body
    want_setter = name.endswith('.setter')
    base = name.split('.')[0]
    for n in body:
        if isinstance(n, ast.FunctionDef) and n.name == base:
            decs = [ast.unparse(d) for d in n.decorator_list]
            if want_setter == any(d.endswith('.setter') for d in decs):
                return n
    return None


def generate(repo):
    """-> (coq text, names, {name: [unknown callees]}); raises Unsupported / FileNotFoundError (fail closed)"""
    lines = ['(* GENERATED by translate/py_effects2coq.py from the Python source -- do not edit *)',
             'From Coq Require Import List. Import ListNotations.', 'From PB Require Import Model.Effects.']
    names, unknown = [], {}
    for rel, cls, fns in TARGETS:
        tree = ast.parse(pathlib.Path(repo, 'pulsarbat', rel).read_text())
        for fn_name in fns:
            fn = find(tree, cls, fn_name)
            if fn is None:
                raise Unsupported(f'{rel}: {cls or ""}.{fn_name} not found')
            ctor = fn_name == '__init__' or fn_name.endswith('.setter')
            L = Lower(fn, self_is_container=ctor)
            L.pending = []
            body = L.block(fn.body)
            ident = (cls + '_' if cls else '') + fn_name.replace('.', '_').strip('_')
            lines.append(f'(* {rel}::{cls or ""}.{fn_name}  vars: {L.vars}  containers: {sorted(L.containers)} *)')
            lines.append(f'Definition prog_{ident} : stmt := {body}.')
            lines.append(f'Definition fn_{ident} : nat * stmt := ({L.nparams}, prog_{ident}).')
            names.append(ident)
            if L.unknown:
                unknown[ident] = L.unknown
    lines.append('Definition all_fns : list (nat * stmt) := [' + '; '.join(f'fn_{n}' for n in names) + '].')
    lines.append('Definition verdicts : list bool := map ok_fn all_fns.')
    lines.append('(* order: ' + ' '.join(names) + ' *)')
    return '\n'.join(lines) + '\n', names, unknown


if __name__ == '__main__':
    txt, names, unknown = generate(sys.argv[1] if len(sys.argv) > 1 else '/repo')
    pathlib.Path(sys.argv[2] if len(sys.argv) > 2 else '/verif/coq/Gen/GenEffects.v').write_text(txt)
    print(len(names), 'functions;', 'unknown callees:', unknown)
