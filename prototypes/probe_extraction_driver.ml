open Model
(* decimal string <-> extracted Z *)
let rec z_of_int (n : int) : z = if n = 0 then Z0 else if n < 0 then Z.opp (z_of_int (-n)) else
  let h = z_of_int (n / 2) in let d = Z.add h h in if n mod 2 = 1 then Z.add d (Zpos XH) else d
let ten = z_of_int 10
let z_of_string (s : string) : z =
  let neg = String.length s > 0 && s.[0] = '-' in
  let s = if neg then String.sub s 1 (String.length s - 1) else s in
  let v = ref Z0 in
  String.iter (fun c -> v := Z.add (Z.mul !v ten) (z_of_int (Char.code c - 48))) s;
  if neg then Z.opp !v else !v
let rec string_of_z (x : z) : string =
  match x with
  | Z0 -> "0"
  | Zneg p -> "-" ^ string_of_z (Zpos p)
  | Zpos _ ->
    let buf = Buffer.create 16 in
    let rec go v acc = if Z.eqb v Z0 then acc else
      let d = Z.modulo v ten in
      let rec nat_to_int = function O -> 0 | S n -> 1 + nat_to_int n in
      let di = nat_to_int (Z.to_nat d) in
      go (Z.div v ten) (string_of_int di :: acc)
    in ignore buf;
    String.concat "" (go x [])

let opt_z s = if s = "_" then None else Some (z_of_string s)
let q_of_string s = match String.split_on_char '/' s with
  | [n; d] -> { qnum = z_of_string n; qden = (match z_of_string d with Zpos p -> p | _ -> failwith "den") }
  | [n] -> { qnum = z_of_string n; qden = XH } | _ -> failwith "q"
let string_of_q q = string_of_z q.qnum ^ "/" ^ string_of_z (Zpos q.qden)
let () =
  try while true do
    let line = input_line stdin in
    match String.split_on_char ' ' line with
    | [t0; rate; len; a; b; c] ->
      let l = { t0 = (if t0 = "_" then None else Some (q_of_string t0)); rate = q_of_string rate; len = z_of_string len } in
      (match run_slice l (opt_z a) (opt_z b) (opt_z c) with
       | None -> print_endline "ERR"
       | Some (l', (off, st)) ->
         Printf.printf "%s %s %s %s %s\n" (match l'.t0 with None -> "_" | Some t -> string_of_q t) (string_of_q l'.rate) (string_of_z l'.len) (string_of_z off) (string_of_z st))
    | _ -> print_endline "BAD"
  done with End_of_file -> ()
