"""C12: snippet returns exactly n samples starting exactly at the requested time.
(P) Props/C12.v on the ledger; (T) Model/Snippet.v evaluated on the float t the code holds;
(M) length, start time vs the *intended* instant, bit-identical data for whole-sample t, independent
O(N^2) DFT interpolant for fractional t, ValueError exactly on out-of-range requests."""
import math
from fractions import Fraction
import numpy as np
import astropy.units as u
from astropy.time import Time
import pulsarbat as pb
from harness.common import qlit, zlit, optlit
from harness.common import asked_before
from harness import exact as X

VFILES = ['Lib/PySlice.v', 'Model/FastLen.v', 'Gen/GenUtils.v', 'Model/Ledger.v', 'Model/Snippet.v', 'Proofs/LedgerProofs.v',
          'Proofs/SnippetProofs.v', 'Gen/GenSnippet.v', 'Proofs/SnippetGen.v', 'Lib/Dft.v', 'Lib/DftC.v', 'Model/Shift.v', 'Proofs/ShiftProofs.v', 'Proofs/ShiftC.v', 'Proofs/SnippetC.v', 'Props/C12.v']

from harness.c03 import REAL_AX

HEADER = '''From Coq Require Import ZArith QArith List. Import ListNotations. Open Scope Z_scope.
From PB Require Import Model.Ledger Model.Snippet.
Definition L (t : option Q) (r : Q) (n : Z) : ledger := {| t0 := t; rate := r; len := n |}.
(* impl: None = raised ValueError; Some (len, start) *)
Definition chk (l : ledger) (t tn : Q) (n : Z) (ttol : Q) (impl : option (Z * option Q)) : Z :=
  match snippet l t tn n, impl with
  | SOk l' off fr sh, Some (n', s') => (if len l' =? n' then 0 else 1) + (if oQclose ttol (t0 l') s' then 0 else 2)
  | SErr _, None => 0
  | SOk _ _ _ _, None => 4
  | SErr _, Some _ => 8
  end.
'''


def interp_oracle(x, taus):
    """Trigonometric interpolant of x (axis 0) at real positions taus, by direct O(N^2) evaluation in
    longdouble: y(tau) = 1/N sum_k X_k exp(2 pi i f_k tau), f_k = fftfreq(N)."""
    N = x.shape[0]
    xs = x.reshape(N, -1).astype(np.clongdouble)
    n = np.arange(N, dtype=np.longdouble)
    f = np.fft.fftfreq(N).astype(np.longdouble)
    twopi = 2 * np.pi * np.longdouble(1)
    Xk = np.exp(-1j * twopi * np.outer(f * N, n) / N) @ xs           # DFT
    out = np.exp(1j * twopi * np.outer(np.asarray(taus, dtype=np.longdouble), f)) @ Xk / N
    return out.reshape((len(taus),) + x.shape[1:])


def run(ctx):
    rng = ctx.rng
    nprng = np.random.default_rng(ctx.seed + 12)
    ctx.rule = ('signals of all classes (real and complex, several sample shapes, with/without start time), lengths 1..128; '
                't given as count (int/float), duration Quantity or absolute Time; n in 0..len incl. 0, len and t+n = len; '
                'malformed stream: t<0, t+n>len, n<0, Time without start. non-trivial = fractional t or boundary request; '
                'distinct by (class, len, rate, form, t, n).')
    ctx.trusted = ['translator T6 translate/py_shift2coq.py (decisions and arithmetic of snippet; the two normalisations of t pinned)', 'Coq 8.16.1 kernel; vm_compute', 'scipy.fft = the mathematical DFT (validated numerically against an O(N^2) '
                   'longdouble evaluation on every fractional case)', 'astropy Time/Quantity within stated tolerance']
    ctx.assumptions = ['complex64 phase ramp in time_shift bounds the value accuracy: tolerance 1e-5*max|x| (worst ratio reported)']
    built = ctx.build(['Props/C12.vo'])
    ctx.count_obligations(VFILES)
    if built:
        ctx.assumptions_of('Props/C12.v', allowed=REAL_AX)      # the value theorem is over R / Coquelicot C

    items, meta = [], []
    N = 400 if ctx.tier == 'quick' else 6000
    for k in range(N):
        cls = rng.choice(X.CLASSES)
        L = rng.choice([1, 2, 3, 5, 8, 16, 31, 64, rng.randint(1, 128)])
        shp = X.sample_shape(rng, cls)
        dt = X.dtype_for(cls, rng)
        data = nprng.standard_normal((L,) + shp)
        if dt is np.complex128:
            data = data + 1j * nprng.standard_normal((L,) + shp)
        if rng.random() < 0.3:
            data = data.astype(np.complex64 if dt is np.complex128 else np.float32)
        rate = rng.choice([1 * u.Hz, 1 * u.kHz, 1.6 * u.GHz, 33.3 * u.kHz, 1 * u.MHz, 0.01 * u.Hz, 3.2 * u.GHz, (1 / 3) * u.Hz])
        start = Time(rng.choice(X.EPOCHS), precision=9) + rng.random() * u.s if rng.random() < 0.75 else None
        z = X.make_signal(rng, cls, L, sshape=shp, rate=rate, start=start, data=data)
        malformed = rng.random() < 0.15
        form = rng.choice(['count', 'count', 'quantity', 'time'])
        if form == 'time' and start is None and not malformed:
            form = 'quantity'
        r = rng.random()
        if r < 0.35:
            ti = float(rng.randint(0, L))                # whole sample
        elif r < 0.45:
            ti = rng.randint(0, L) + rng.choice([1e-10, -1e-10, 1e-7, 0.5, 1e-9])   # near-integer
            ti = min(max(ti, 0.0), float(L))
        else:
            ti = rng.uniform(0, L)
        nmax = L - math.ceil(ti)
        if nmax < 0:
            ti, nmax = float(L), 0
        n = rng.choice([0, nmax, nmax, rng.randint(0, nmax)])
        bad = None
        if malformed:
            bad = rng.choice(['t<0', 't+n>len', 'n<0', 'time_no_start'])
            if bad == 't<0':
                ti = -rng.choice([1, 0.5, 1e-3, 3.0])
            elif bad == 't+n>len':
                n = nmax + rng.choice([1, 2, 10])
            elif bad == 'n<0':
                n = -rng.choice([1, 2])
            else:
                form = 'time'
                if start is not None:
                    z = type(z).like(z, start_time=None)
                    start = None
        # the argument in the chosen form, and the float the code will hold (same expression as the code)
        if form == 'count':
            targ = int(ti) if (ti == int(ti) and rng.random() < 0.5) else ti
            teff = float(targ)
        elif form == 'quantity':
            targ = (ti / z.sample_rate).to(rng.choice([u.s, u.ms, u.us]))
            teff = float((targ * z.sample_rate).to_value(u.one))
        else:
            base = start if start is not None else Time('2020-01-01T00:00:00', precision=9)
            targ = base + ti * z.dt
            teff = float((((targ - z.start_time).to(u.s)) * z.sample_rate).to_value(u.one)) if start is not None else ti
        boundary = (bad is None) and (n == nmax) and (ti + n == L)
        inp = dict(cls=cls, len=L, shape=list(z.shape), dtype=str(z.dtype), rate=str(rate), has_start=start is not None,
                   form=form, t=ti, t_held=teff, n=n, malformed=bad, boundary=boundary)
        ctx.seen(inp, nontrivial=(ti != int(ti)) or boundary or bad is not None)
        ctx.count('form:' + form)
        ctx.count('malformed' if bad else ('whole' if ti == int(ti) else 'fractional'))
        err = None
        if asked_before(ctx, rng, lambda: pb.snippet(z, targ, n)):
            inp['asked_before'] = True
        try:
            y = pb.snippet(z, targ, n)
        except ValueError as e:
            err = e
            ctx.count('raised:ValueError')
        # --- (T) model on the float the code holds
        el = Fraction(L + 2) / X.hz(z.sample_rate)
        ttol = max(Fraction(100, 10 ** 12), el / 10 ** 15 * 8)
        lin = f'(L {optlit(X.sec(z.start_time), qlit)} {qlit(X.hz(z.sample_rate))} {L})'
        impl = 'None' if err else f'(Some ({len(y)}, {optlit(X.sec(y.start_time), qlit)}))'
        if bad != 'time_no_start':
            items.append(f'chk {lin} {qlit(Fraction(teff))} {qlit(Fraction(teff + n))} {zlit(n)} {qlit(ttol)} {impl}')
            meta.append(dict(inp=inp, impl=str(err) if err else dict(len=len(y), start=None if y.start_time is None else y.start_time.isot)))
        # --- (M) monitor against the intended request
        if bad is not None:
            if err is None and form in ('time', 'quantity') and bad in ('t<0', 't+n>len') and teff >= 0 and teff + n <= L and n >= 0:
                # the excess over the range is below what a Time / duration can express at this sample rate ("the same instant up to
                # time resolution"): the instant the code receives is inside the range
                ctx.count('out_of_range_by_less_than_time_resolution')
            elif err is None:
                ctx.fail('out_of_range_request_did_not_raise', inp, impl=dict(len=len(y)))
            continue
        if err is not None:
            # a request given through Time/Quantity that lies within the time resolution of the upper bound
            # (but not exactly on it) is indistinguishable from an out-of-range one: unconstrained
            res_samples = float((Fraction(ti + 1) / X.hz(z.sample_rate) / 2 ** 50 + Fraction(40, 10 ** 12)) * X.hz(z.sample_rate))
            if form in ('time', 'quantity') and 0 < L - (ti + n) <= res_samples:
                ctx.count('within_resolution_of_boundary')
                continue
            ctx.fail('valid_request_raised', inp, impl=str(err))
            continue
        if len(y) != n or type(y) is not type(z):
            ctx.fail('length_or_type', inp, impl=dict(len=len(y), type=type(y).__name__))
            continue
        if (y.start_time is None) != (start is None):
            ctx.fail('start_none_mismatch', inp)
            continue
        # time resolution of the request form: a float of magnitude t carries ~2^-52 relative error in t
        res_s = Fraction(ti + 1) / X.hz(z.sample_rate) / 2 ** 50 + ttol
        if start is not None:
            want = X.sec(z.start_time) + Fraction(ti) / X.hz(z.sample_rate)
            errt = abs(X.sec(y.start_time) - want)
            ctx.ratio(errt, res_s)
            if errt > res_s:
                ctx.fail('start_time', inp, impl=y.start_time.isot, model=float(want))
                continue
        yd = np.asarray(y.data)
        if teff == int(teff):
            i = int(teff)
            if not np.array_equal(yd, np.asarray(z.data)[i:i + n]) or yd.dtype != z.dtype:
                ctx.fail('whole_sample_data_not_identical', inp)
        elif n > 0:
            want = interp_oracle(np.asarray(z.data), teff + np.arange(n))
            if not np.iscomplexobj(yd):
                want = want.real
            tolv = 1e-5 * float(np.max(np.abs(z.data))) + 1e-12
            if abs(teff - round(teff)) <= 1e-8:
                # time_shift leaves the data unshifted below its 1e-8 threshold: deviation <= pi*1e-8*N*max|x|
                tolv += 4e-8 * L * float(np.max(np.abs(z.data)))
            errv = float(np.max(np.abs(yd - want)))
            ctx.ratio(errv, tolv)
            if errv > tolv:
                ctx.fail('band_limited_value', inp, impl=errv, model=tolv)

    res = ctx.run_cases(HEADER, items, shard=max(60, len(items) // 32 + 1))
    if res is None:
        return
    for r, m in zip(res, meta):
        if r:
            ctx.mismatch(f'snippet ledger model vs implementation (code {r}: 1 len, 2 start, 4 impl raised, 8 impl returned)', m['inp'], impl=m['impl'])
