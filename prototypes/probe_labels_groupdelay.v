From Coq Require Import QArith Lqa Lia ZArith Qround.
Open Scope Q_scope.
Lemma lab (cf bw a n j s e al : Q) : bw > 0 ->
  let f i := cf + bw*(i + al - n/2) in
  let cf' := (f s + f (e-1))/2 in
  cf' + bw*(j + (1#2) - (e-s)/2) == f (s + j).
Proof. intros; subst f cf'; cbv beta. field. Qed.
Print Assumptions lab.
From Coq Require Import Reals Lra.
From Coquelicot Require Import Coquelicot.
Open Scope R_scope.
Lemma grp (K DM f fr : R) : f <> 0 -> fr <> 0 ->
  is_derive (fun f => K*DM*f*(/fr - /f)^2) f (K*DM*(/(fr*fr) - /(f*f))).
Proof. intros Hf Hr. auto_derive. exact Hf. field. split; assumption. Qed.
Print Assumptions grp.
