(* Proofs/PhaseDiv.v -- C07: Phase / dimensionless number on the bit-exact model (divisor branch of day_frac: quotient,
   exact residual through two_product / two_sum, correction quotient, renormalisation) is within 2^-52 cycles of the exact
   quotient and normalised, for |quotient| <= 2^47 and divisors between 2^-100 and 2^100. *)
From Coq Require Import ZArith Reals Psatz Floats.
From Flocq Require Import Core BinarySingleNaN PrimFloat Relative.
From PB Require Import Proofs.TwoSumExact Model.Phase2 Proofs.Floor Proofs.DayFrac Proofs.DayFrac3 Proofs.DayFracTail Proofs.DayFracFold
  Proofs.PhaseCmp Proofs.TwoProduct Proofs.PhaseMul Proofs.DivChain.
Open Scope R_scope.

Notation fexp := (FLT_exp (-1074) 53).
Notation rnd := (round radix2 fexp ZnearestE).
Definition eta : R := bpow radix2 (-1075).

Lemma u53_bpow : u53 = bpow radix2 (-53).
Proof. unfold u53. simpl. lra. Qed.
Lemma gen_err x : Rabs (rnd x - x) <= u53 * Rabs x + eta.
Proof.
  destruct (relative_error_N_FLT'_ex radix2 (-1074) 53 ltac:(lia) (fun z => negb (Z.even z)) x) as (eps & et & He & Het & _ & E).
  rewrite E. replace (x * (1 + eps) + et - x) with (x * eps + et) by ring.
  apply Rle_trans with (1:=Rabs_triang _ _). rewrite Rabs_mult.
  assert (U : u_ro radix2 53 = u53) by (unfold u_ro, u53; simpl; lra).
  pose proof (u_rod1pu_ro_le_u_ro radix2 53) as L. rewrite U in L, He.
  assert (Het' : Rabs et <= eta). { unfold eta. apply Rle_trans with (1:=Het). change (-1074)%Z with (-1075 + 1)%Z. rewrite bpow_S. lra. }
  pose proof (Rabs_pos x). assert (Rabs eps <= u53) by lra. nra.
Qed.
Lemma rel_err' x : (x = 0 \/ bpow radix2 (-1022) <= Rabs x) -> Rabs (rnd x - x) <= u53 * Rabs x.
Proof. intros [->|H]; [rewrite round_0, Rminus_0_r, Rabs_R0 by typeclasses eauto; lra|]. rewrite u53_bpow. apply rel_err. exact H. Qed.

Lemma div_R (x y : PrimFloat.float) : fin x -> fin y -> R_of y <> 0 ->
  Rabs (rnd (R_of x / R_of y)) < bpow radix2 1024 ->
  R_of (PrimFloat.div x y) = rnd (R_of x / R_of y) /\ fin (PrimFloat.div x y).
Proof.
  intros Fx Fy Hy Hb. unfold R_of, fin in *. rewrite div_equiv.
  generalize (Bdiv_correct 53 1024 eq_refl eq_refl mode_NE (Prim2B x) (Prim2B y) Hy).
  simpl round_mode. rewrite Rlt_bool_true by exact Hb.
  intros (H1 & H2 & _). split; [exact H1|]. exact (eq_trans H2 Fx).
Qed.
(* |y| >= 2^-j *)
Lemma div_b x y k j : (-1074 < k + j)%Z -> (k + j < 1024)%Z -> bnd x k -> fin y -> bpow radix2 (- j) <= Rabs (R_of y) ->
  R_of (PrimFloat.div x y) = rnd (R_of x / R_of y) /\ bnd (PrimFloat.div x y) (k + j).
Proof.
  intros K1 K2 [Fx Bx] Fy Ly.
  assert (Hy : R_of y <> 0). { intro C. rewrite C, Rabs_R0 in Ly. pose proof (bpow_gt_0 radix2 (- j)). lra. }
  assert (B : Rabs (R_of x / R_of y) <= bpow radix2 (k + j)).
  { unfold Rdiv. rewrite Rabs_mult, Rabs_inv, bpow_plus. apply Rmult_le_compat; try apply Rabs_pos.
    - apply Rlt_le, Rinv_0_lt_compat. apply Rabs_pos_lt. exact Hy.
    - exact Bx.
    - rewrite <- (Rinv_inv (bpow radix2 j)). rewrite <- bpow_opp. apply Rinv_le; [apply bpow_gt_0|exact Ly]. }
  pose proof (rnd_bound _ _ K1 B) as B'.
  destruct (div_R x y Fx Fy Hy) as [E F]. { apply Rle_lt_trans with (1:=B'). apply bpow_lt. lia. }
  split; [exact E|]. split; [exact F|]. rewrite E. exact B'.
Qed.

Theorem phase_div_sound (i f dv : PrimFloat.float) :
  fin i -> fin f -> fin dv ->
  Rabs (R_of i) <= bpow radix2 52 -> Rabs (R_of f) <= / 2 ->
  bpow radix2 (-100) <= Rabs (R_of dv) <= bpow radix2 100 ->
  let V := R_of i + R_of f in
  (V = 0 \/ bpow radix2 (-60) <= Rabs V) ->
  Rabs (V / R_of dv) <= bpow radix2 47 ->
  let '(d, g) := day_frac_gen i f None (Some dv) in
  fin d /\ fin g /\ (exists k : Z, R_of d = IZR k) /\
  Rabs (R_of d + R_of g - V / R_of dv) <= bpow radix2 (-52) /\
  Rabs (R_of g) <= / 2.
Proof.
  intros Fi Ff Fdv Bi Bf [Ldv Udv] V HV HQ. unfold day_frac_gen.
  set (D := Rabs (R_of dv)) in *.
  assert (HD : 0 < D) by (pose proof (bpow_gt_0 radix2 (-100)); lra).
  assert (Hdv0 : R_of dv <> 0) by (intro C; unfold D in HD; rewrite C, Rabs_R0 in HD; lra).
  assert (b52 : 1 <= bpow radix2 52) by (change 1 with (bpow radix2 0); apply bpow_le; lia).
  assert (BI : bnd i 53) by (split; [exact Fi|apply Rle_trans with (1:=Bi); apply bpow_le; lia]).
  assert (BF : bnd f 53).
  { split; [exact Ff|]. apply Rle_trans with (1:=Bf). apply Rle_trans with 1; [lra|]. change 1 with (bpow radix2 0). apply bpow_le. lia. }
  pose proof (two_sum_b i f 53 ltac:(lia) ltac:(lia) BI BF) as H.
  destruct (Phase2.two_sum i f) as [s e]. destruct H as (Bs & Be & Es & Hse). fold V in Es, Hse.
  (* e relative *)
  assert (He : Rabs (R_of e) <= u53 * Rabs V).
  { replace (R_of e) with (- (rnd V - V)) by (rewrite <- Es; lra). rewrite Rabs_Ropp. apply rel_err'.
    destruct HV as [HV|HV]; [left; exact HV|right; apply Rle_trans with (2:=HV); apply bpow_le; lia]. }
  (* q1 *)
  destruct (div_b s dv 54 100 ltac:(lia) ltac:(lia) Bs Fdv Ldv) as [Eq1 Bq1]. set (q1 := PrimFloat.div s dv) in *.
  change (54 + 100)%Z with 154%Z in Bq1.
  assert (Hq1 : Rabs (R_of q1 - R_of s / R_of dv) <= u53 * Rabs (R_of s / R_of dv) + eta) by (rewrite Eq1; apply gen_err).
  (* two_product q1 dv *)
  assert (Bdv400 : Rabs (R_of dv) <= bpow radix2 400) by (apply Rle_trans with (1:=Udv); apply bpow_le; lia).
  assert (Bq400 : Rabs (R_of q1) <= bpow radix2 400) by (apply Rle_trans with (1:=proj2 Bq1); apply bpow_le; lia).
  assert (Hund : R_of q1 * R_of dv = 0 \/ bpow radix2 (-969) <= Rabs (R_of q1 * R_of dv)).
  { destruct HV as [HV|HV].
    - left. rewrite Eq1, Es, HV, round_0 by typeclasses eauto. unfold Rdiv. rewrite Rmult_0_l, round_0 by typeclasses eauto. ring.
    - right. assert (Ls : bpow radix2 (-60) <= Rabs (R_of s)) by (rewrite Es; apply rnd_abs_lower; [lia|exact HV]).
      assert (Lq : bpow radix2 (-160) <= Rabs (R_of q1)).
      { rewrite Eq1. apply rnd_abs_lower; [lia|]. unfold Rdiv. rewrite Rabs_mult, Rabs_inv.
        change (-160)%Z with (-60 + -100)%Z. rewrite bpow_plus. apply Rmult_le_compat; try apply bpow_ge_0; [exact Ls|].
        change (-100)%Z with (Z.opp 100). rewrite bpow_opp. apply Rinv_le; [exact HD|exact Udv]. }
      rewrite Rabs_mult. apply Rle_trans with (bpow radix2 (-160) * bpow radix2 (-100)).
      + rewrite <- bpow_plus. apply bpow_le. lia.
      + apply Rmult_le_compat; try apply bpow_ge_0; assumption. }
  pose proof (two_product_exact q1 dv (proj1 Bq1) Fdv Bq400 Bdv400 Hund) as HP.
  destruct (two_product q1 dv) as [p1 p2]. destruct HP as (Fp1 & Fp2 & Ep1 & Hp).
  assert (Hp2 : Rabs (R_of p2) <= u53 * Rabs (R_of q1 * R_of dv) + eta).
  { replace (R_of p2) with (- (rnd (R_of q1 * R_of dv) - R_of q1 * R_of dv)) by (rewrite <- Ep1; lra). rewrite Rabs_Ropp. apply gen_err. }
  assert (Bqd : Rabs (R_of q1 * R_of dv) <= bpow radix2 254).
  { rewrite Rabs_mult. change 254%Z with (154 + 100)%Z. rewrite bpow_plus. apply Rmult_le_compat; try apply Rabs_pos; [exact (proj2 Bq1)|exact Udv]. }
  assert (Bp1 : bnd p1 254) by (split; [exact Fp1|rewrite Ep1; apply rnd_bound; [lia|exact Bqd]]).
  assert (Bp2 : bnd p2 255).
  { split; [exact Fp2|]. replace (R_of p2) with (R_of q1 * R_of dv - R_of p1) by lra.
    apply Rle_trans with (1:=Rabs_sub_le _ _). change 255%Z with (254 + 1)%Z. rewrite bpow_S. pose proof (proj2 Bp1). lra. }
  (* d1, d2 *)
  destruct (opp_b p1 254 Bp1) as [Eop Bop].
  pose proof (two_sum_b s (PrimFloat.opp p1) 254 ltac:(lia) ltac:(lia) (bnd_weaken s 54 254 ltac:(lia) Bs) Bop) as H.
  destruct (Phase2.two_sum s (PrimFloat.opp p1)) as [d1 d2]. destruct H as (Bd1 & Bd2 & Ed1 & Hd). rewrite Eop in Ed1, Hd.
  assert (Hd' : R_of d1 + R_of d2 = R_of s - R_of p1) by lra.
  assert (Hd2 : Rabs (R_of d2) <= u53 * Rabs (R_of s - R_of p1) + eta).
  { replace (R_of d2) with (- (rnd (R_of s - R_of p1) - (R_of s - R_of p1))).
    - rewrite Rabs_Ropp. apply gen_err.
    - replace (R_of s - R_of p1) with (R_of s + - R_of p1) by ring. rewrite <- Ed1. lra. }
  change (254 + 1)%Z with 255%Z in Bd1. change (254 + 2)%Z with 256%Z in Bd2.
  (* x1 = d2 + e ; x2 = x1 - p2 ; r = d1 + x2 *)
  destruct (add_b d2 e 256 ltac:(lia) ltac:(lia) Bd2 (bnd_weaken e 55 256 ltac:(lia) Be)) as [Ex1 Bx1]. set (x1 := PrimFloat.add d2 e) in *.
  destruct (sub_b x1 p2 257 ltac:(lia) ltac:(lia) Bx1 (bnd_weaken p2 255 257 ltac:(lia) Bp2)) as [Ex2 Bx2]. set (x2 := PrimFloat.sub x1 p2) in *.
  destruct (add_b d1 x2 258 ltac:(lia) ltac:(lia) (bnd_weaken d1 255 258 ltac:(lia) Bd1) Bx2) as [Er Br]. set (r := PrimFloat.add d1 x2) in *.
  destruct (div_b r dv 259 100 ltac:(lia) ltac:(lia) Br Fdv Ldv) as [Eq2 Bq2]. set (q2 := PrimFloat.div r dv) in *.
  change (258 + 1)%Z with 259%Z in *. change (259 + 100)%Z with 359%Z in Bq2.
  assert (Hx1 : Rabs (R_of x1 - (R_of d2 + R_of e)) <= u53 * Rabs (R_of d2 + R_of e) + eta) by (rewrite Ex1; apply gen_err).
  assert (Hx2 : Rabs (R_of x2 - (R_of x1 - R_of p2)) <= u53 * Rabs (R_of x1 - R_of p2) + eta) by (rewrite Ex2; apply gen_err).
  assert (Hr : Rabs (R_of r - (R_of d1 + R_of x2)) <= u53 * Rabs (R_of d1 + R_of x2) + eta) by (rewrite Er; apply gen_err).
  assert (Hq2 : Rabs (R_of q2 - R_of r / R_of dv) <= u53 * Rabs (R_of r / R_of dv) + eta) by (rewrite Eq2; apply gen_err).
  assert (Peta : 0 <= eta) by (unfold eta; apply bpow_ge_0).
  destruct (div_chain V (R_of dv) (R_of s) (R_of e) (R_of q1) (R_of p1) (R_of p2) (R_of d1) (R_of d2) (R_of x1) (R_of x2) (R_of r) (R_of q2)
              eta (Rabs (R_of s)) D Peta HD eq_refl (Rle_refl _) Hse He Hq1 Hp Hp2 Hd' Hd2 Hx1 Hx2 Hr Hq2) as (Cmain & Csum & _).
  (* size of S/D *)
  assert (HSD : Rabs (R_of s) / D <= bpow radix2 48).
  { assert (Rabs (R_of s) <= 2 * Rabs V).
    { assert (Rabs (R_of s) <= Rabs V + Rabs (R_of e)) by (replace (R_of s) with (V - R_of e) by lra; apply Rabs_sub_le).
      unfold u53 in He. pose proof (Rabs_pos V). lra. }
    assert (Rabs V / D <= bpow radix2 47). { rewrite <- (abs_div V (R_of dv) D HD eq_refl). exact HQ. }
    change 48%Z with (47 + 1)%Z. rewrite bpow_S. unfold Rdiv in *. assert (0 < / D) by (apply Rinv_0_lt_compat; exact HD).
    apply Rle_trans with (2 * Rabs V * / D); [apply Rmult_le_compat_r; lra|lra]. }
  assert (Hsmall : 16 * u53 * u53 * (Rabs (R_of s) / D) + 9 * eta + 8 * (eta / D) <= bpow radix2 (-54) + bpow radix2 (-60)).
  { assert (A : 16 * u53 * u53 * (Rabs (R_of s) / D) <= bpow radix2 (-54)).
    { apply Rle_trans with (16 * u53 * u53 * bpow radix2 48); [apply Rmult_le_compat_l; [unfold u53; lra|exact HSD]|].
      rewrite u53_bpow. replace 16 with (bpow radix2 4) by (simpl; lra). rewrite <- !bpow_plus. apply bpow_le. lia. }
    assert (B : 9 * eta + 8 * (eta / D) <= bpow radix2 (-60)).
    { assert (eta / D <= bpow radix2 (-975)).
      { unfold Rdiv, eta. change (-975)%Z with (-1075 + 100)%Z. rewrite bpow_plus. apply Rmult_le_compat_l; [apply bpow_ge_0|].
        rewrite <- (Rinv_inv (bpow radix2 100)), <- bpow_opp. apply Rinv_le; [apply bpow_gt_0|exact Ldv]. }
      assert (eta <= bpow radix2 (-975)) by (unfold eta; apply bpow_le; lia).
      apply Rle_trans with (17 * bpow radix2 (-975)); [lra|].
      apply Rle_trans with (bpow radix2 5 * bpow radix2 (-975)); [apply Rmult_le_compat_r; [apply bpow_ge_0|simpl; lra]|].
      rewrite <- bpow_plus. apply bpow_le. lia. }
    lra. }
  assert (P54 : bpow radix2 (-54) = / 4 * bpow radix2 (-52)) by (change (-52)%Z with (-54 + 1 + 1)%Z; rewrite !bpow_S; field).
  assert (P53 : bpow radix2 (-53) = / 2 * bpow radix2 (-52)) by (change (-52)%Z with (-53 + 1)%Z; rewrite bpow_S; field).
  assert (P60 : bpow radix2 (-60) <= / 8 * bpow radix2 (-52)).
  { change (-52)%Z with (-60 + 8)%Z. rewrite bpow_plus. simpl (bpow radix2 8). pose proof (bpow_gt_0 radix2 (-60)). lra. }
  assert (Psm : bpow radix2 (-52) <= / 1024) by (apply Rle_trans with (bpow radix2 (-10)); [apply bpow_le; lia|simpl; lra]).
  assert (Pp : 0 < bpow radix2 (-52)) by apply bpow_gt_0.
  (* two_sum q1 q2 and the tail *)
  pose proof (two_sum_b q1 q2 359 ltac:(lia) ltac:(lia) (bnd_weaken q1 154 359 ltac:(lia) Bq1) Bq2) as H2.
  destruct (Phase2.two_sum q1 q2) as [s2 e2]. destruct H2 as (Bs2 & Be2 & Es2 & Hse2).
  assert (B47 : bpow radix2 47 + 1 <= bpow radix2 52 - 2).
  { change 52%Z with (47 + 5)%Z. rewrite bpow_plus. simpl (bpow radix2 5). assert (4 <= bpow radix2 47) by (apply Rle_trans with (bpow radix2 2); [simpl; lra|apply bpow_le; lia]). lra. }
  assert (Hq12 : Rabs (R_of q1 + R_of q2) < bpow radix2 52) by lra.
  assert (HS2 : Rabs (R_of s2) <= bpow radix2 52) by (rewrite Es2; apply rnd_bound; [lia|lra]).
  assert (HE2 : Rabs (R_of e2) <= / 2).
  { replace (R_of e2) with (- (rnd (R_of q1 + R_of q2) - (R_of q1 + R_of q2))) by (rewrite <- Es2; lra). rewrite Rabs_Ropp.
    apply Rle_trans with (bpow radix2 (52 - 54)); [apply err_lt; [lia|exact Hq12]|simpl; lra]. }
  pose proof (df_tail_sound s2 e2 (proj1 Bs2) (proj1 Be2) HS2 HE2) as HTl.
  destruct (df_tail s2 e2) as [d g]. destruct HTl as (Fd & Fg & Hint & Hacc & Hnorm).
  split; [exact Fd|]. split; [exact Fg|]. split; [exact Hint|]. split; [|exact Hnorm].
  replace (R_of d + R_of g - V / R_of dv) with ((R_of d + R_of g - (R_of s2 + R_of e2)) - (V / R_of dv - (R_of q1 + R_of q2))) by (rewrite Hse2; ring).
  apply Rle_trans with (1:=Rabs_sub_le _ _). lra.
Qed.

(* the divide branch of the model is this function (real phase, real divisor) *)
Lemma op_div_real (a : ph) (dv : PrimFloat.float) : p_imag a = false ->
  op_div a (NReal dv) =
  let '(d, g) := day_frac_gen (p_int a) (p_frac a) None (Some dv) in RPh {| p_int := d; p_frac := g; p_imag := false |}.
Proof. intros Ha. unfold op_div. rewrite Ha. cbn [Bool.eqb part from_angles check_imaginary andb negb xorb].
  destruct (day_frac_gen _ _ _ _). reflexivity. Qed.
