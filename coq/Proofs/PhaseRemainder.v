(* Proofs/PhaseRemainder.v -- C15: the second sort key.  remainder p = (p - approx).cycle with approx = the rounded cycle of p is
   finite and within 2^-51 cycles of the exact V p - approx (construction of approx as a Phase, Phase - Phase with fractions up to
   1/2 + 2^-50, rounding of the small result), for integer counts up to 2^51 - 3.  Hence key_le orders exact values up to 2^-50, and
   argsort / sort put the phases in exact order up to 2^-50 cycles. *)
From Coq Require Import ZArith Reals Psatz Floats Bool List Lia Sorting.Permutation Sorting.Sorted.
From Flocq Require Import Core BinarySingleNaN PrimFloat.
From PB Require Import Proofs.TwoSumExact Model.Phase2 Model.PhaseOrd Proofs.Floor Proofs.DayFrac Proofs.DayFrac3 Proofs.DayFracTail Proofs.FoldHalf Proofs.DayFracFold Proofs.PhaseAdd Proofs.PhaseMore
  Proofs.PhaseCmpAll Proofs.DivChain Proofs.PhaseArgmin Proofs.PhaseSort.
Import ListNotations.
Open Scope R_scope.

Lemma p50_half : bpow radix2 (-50) <= / 1024.
Proof. apply Rle_trans with (bpow radix2 (-10)); [apply bpow_le; lia|simpl; lra]. Qed.

(* Phase - Phase with fractions up to 1/2 + 2^-50 (what construction and arithmetic deliver) *)
Theorem phase_sub_sound_wide (i1 f1 i2 f2 : PrimFloat.float) (k1 k2 : Z) :
  fin i1 -> fin f1 -> fin i2 -> fin f2 ->
  R_of i1 = IZR k1 -> R_of i2 = IZR k2 -> (Z.abs k1 <= 2 ^ 51 - 2)%Z -> (Z.abs k2 <= 2 ^ 51 - 2)%Z ->
  Rabs (R_of f1) <= / 2 + bpow radix2 (-50) -> Rabs (R_of f2) <= / 2 + bpow radix2 (-50) ->
  let '(d, f) := phase_sub i1 f1 i2 f2 in
  fin d /\ fin f /\ (exists k : Z, R_of d = IZR k) /\
  Rabs (R_of d + R_of f - ((R_of i1 + R_of f1) - (R_of i2 + R_of f2))) <= bpow radix2 (-52) /\
  Rabs (R_of f) <= / 2.
Proof.
  intros Fi1 Ff1 Fi2 Ff2 E1 E2 K1 K2 B1 B2. unfold phase_sub. pose proof p50_half as P50.
  assert (P51 : bpow radix2 52 = IZR (2 ^ 52)) by (simpl; lra).
  assert (P53 : bpow radix2 53 = IZR (2 ^ 53)) by (simpl; lra).
  assert (HI : R_of (PrimFloat.sub i1 i2) = IZR (k1 - k2) /\ fin (PrimFloat.sub i1 i2)).
  { destruct (sub_R i1 i2 Fi1 Fi2) as [E F].
    - rewrite E1, E2, <- minus_IZR, rnd_IZR by lia. apply Rlt_le_trans with (bpow radix2 53); [|apply bpow_le; lia].
      rewrite P53, <- abs_IZR. apply IZR_lt. lia.
    - rewrite E1, E2, <- minus_IZR, rnd_IZR in E by lia. split; assumption. }
  destruct HI as [EI FI].
  apply Rabs_le_inv in B1. apply Rabs_le_inv in B2.
  assert (B12 : Rabs (R_of f1 - R_of f2) < bpow radix2 1) by (simpl; apply Rabs_lt; lra).
  assert (HF : R_of (PrimFloat.sub f1 f2) = rnd (R_of f1 - R_of f2) /\ fin (PrimFloat.sub f1 f2)).
  { apply sub_R; try assumption. apply Rle_lt_trans with (bpow radix2 1); [|apply bpow_lt; lia].
    apply rnd_bound; [lia|]. apply Rlt_le. exact B12. }
  destruct HF as [EF FF].
  assert (Herr : Rabs (rnd (R_of f1 - R_of f2) - (R_of f1 - R_of f2)) <= bpow radix2 (-53)).
  { apply (err_lt _ 1); [lia|exact B12]. }
  assert (BF : Rabs (rnd (R_of f1 - R_of f2)) <= 2).
  { change 2 with (bpow radix2 1). apply rnd_bound; [lia|]. apply Rlt_le. exact B12. }
  pose proof (day_frac_sound (PrimFloat.sub i1 i2) (PrimFloat.sub f1 f2) FI FF) as H.
  rewrite EI, EF in H.
  assert (Hk : (Z.abs (k1 - k2) <= 2 ^ 52 - 4)%Z) by lia.
  assert (HkR : Rabs (IZR (k1 - k2)) <= IZR (2 ^ 52 - 4)) by (rewrite <- abs_IZR; apply IZR_le; exact Hk).
  rewrite (minus_IZR (2 ^ 52) 4) in HkR. rewrite <- P51 in HkR.
  specialize (H ltac:(apply Rle_trans with (bpow radix2 52); [lra|apply bpow_le; lia])
                ltac:(apply Rle_trans with 2; [exact BF|change 2 with (bpow radix2 1); apply bpow_le; lia])
                ltac:(apply Rle_trans with (1:=Rabs_triang _ _); lra)).
  destruct (day_frac (PrimFloat.sub i1 i2) (PrimFloat.sub f1 f2)) as [d f].
  destruct H as (Fd & Ff & Hint & Hacc & Hnorm).
  split; [exact Fd|]. split; [exact Ff|]. split; [exact Hint|]. split; [|exact Hnorm].
  rewrite E1, E2.
  replace (R_of d + R_of f - (IZR k1 + R_of f1 - (IZR k2 + R_of f2)))
    with ((R_of d + R_of f - (IZR (k1 - k2) + rnd (R_of f1 - R_of f2))) + (rnd (R_of f1 - R_of f2) - (R_of f1 - R_of f2)))
    by (rewrite minus_IZR; ring).
  apply Rle_trans with (1:=Rabs_triang _ _).
  assert (bpow radix2 (-52) = 2 * bpow radix2 (-53)) by (change (-52)%Z with (-53 + 1)%Z; rewrite bpow_S; ring).
  lra.
Qed.

(* the phases the sort theorem speaks about *)
(* (self - approx).cycle, the secondary sort key before repair D26 (kept as a statement about Phase - number) *)
Definition remainder (p : ph) : PrimFloat.float :=
  match op_addsub true (OPh p) (ONum (NReal (cycle p))) with RPh r => cycle r | _ => nan end.

Definition ok_int (q : ph) : Prop :=
  p_imag q = false /\ fin (p_int q) /\ fin (p_frac q) /\ (exists k : Z, R_of (p_int q) = IZR k /\ (Z.abs k <= 2 ^ 51 - 3)%Z) /\
  Rabs (R_of (p_frac q)) <= / 2 + bpow radix2 (-50).
Lemma ok_int_ok q : ok_int q -> ok_ph q.
Proof.
  intros (_ & Fi & Ff & (k & E & K) & Bf). split; [exact Fi|]. split; [exact Ff|]. split; [|exact Bf].
  rewrite E, <- abs_IZR. apply Rle_trans with (IZR (2 ^ 52)); [apply IZR_le; lia|simpl; lra].
Qed.

(* the unfolding of the model's remainder for a real phase *)
Lemma remainder_unfold (p : ph) : p_imag p = false ->
  remainder p =
  let '(ic, fc) := day_frac_gen (cycle p) 0 None None in
  let '(d, g) := phase_sub (p_int p) (p_frac p) ic fc in
  cycle {| p_int := d; p_frac := g; p_imag := false |}.
Proof.
  intros Hp. unfold remainder, op_addsub, to_phase. cbn [from_angles check_imaginary].
  destruct (day_frac_gen (cycle p) 0 None None) as [ic fc]. rewrite Hp.
  cbn [p_imag p_int p_frac Bool.eqb part nsub from_angles check_imaginary of_opt].
  rewrite day_frac_gen_none. unfold phase_sub. destruct (day_frac _ _) as [d g]. reflexivity.
Qed.

Theorem remainder_sound (p : ph) : ok_int p ->
  fin (remainder p) /\ Rabs (R_of (remainder p) - (V p - R_of (cycle p))) <= bpow radix2 (-51).
Proof.
  intros Hok. pose proof (ok_int_ok p Hok) as Hph. destruct Hok as (Hp & Fi & Ff & (k & Ek & Kk) & Bf).
  pose proof p50_half as P50.
  destruct (cycle_R p Hph) as (Ec & Fc & _). set (c := cycle p) in *.
  (* |V| <= 2^51 - 2, so |c| <= 2^51 - 2 and |V - c| <= 2^-3 *)
  assert (BV : Rabs (V p) <= IZR (2 ^ 51 - 2)).
  { unfold V. rewrite Ek. apply Rle_trans with (1:=Rabs_triang _ _). rewrite <- abs_IZR.
    assert (IZR (Z.abs k) <= IZR (2 ^ 51 - 3)) by (apply IZR_le; exact Kk). rewrite minus_IZR in *. lra. }
  assert (Bc : Rabs (R_of c) <= IZR (2 ^ 51 - 2)).
  { rewrite Ec. apply Rabs_le. apply Rabs_le_inv in BV. split.
    - replace (- IZR (2 ^ 51 - 2)) with (rnd (IZR (- (2 ^ 51 - 2)))) by (rewrite rnd_IZR by lia; apply opp_IZR). apply rnd_le. rewrite opp_IZR. lra.
    - rewrite <- (rnd_IZR (2 ^ 51 - 2)) by lia. apply rnd_le. lra. }
  assert (P51 : IZR (2 ^ 51 - 2) < bpow radix2 51) by (rewrite minus_IZR; simpl; lra).
  assert (Hvc : Rabs (R_of c - V p) <= bpow radix2 (-3)).
  { rewrite Ec. apply (err_lt _ 51); [lia|lra]. }
  (* approx as a Phase *)
  destruct R_zero as [E0 F0].
  pose proof (phase_construct_sound c 0%float Fc F0) as HC. rewrite E0, Rplus_0_r, Rabs_R0 in HC.
  specialize (HC ltac:(apply Rle_trans with (bpow radix2 51); [lra|apply bpow_le; lia]) ltac:(apply bpow_ge_0)
                 ltac:(apply Rle_trans with (bpow radix2 51); [lra|apply bpow_le; lia])).
  rewrite (remainder_unfold p Hp). fold c.
  destruct (day_frac_gen c 0 None None) as [ic fc]. destruct HC as (Fic & Ffc & (kc & Ekc) & Hacc & Hfc).
  assert (Kc : (Z.abs kc <= 2 ^ 51 - 2)%Z).
  { apply Rabs_le_inv in Hacc. apply Rabs_le_inv in Hfc. apply Rabs_le_inv in Bc.
    assert (Pm : 0 < bpow radix2 (-53) <= / 1024) by (split; [apply bpow_gt_0|apply Rle_trans with (bpow radix2 (-10)); [apply bpow_le; lia|simpl; lra]]).
    rewrite Ekc in Hacc. rewrite minus_IZR in Bc.
    assert (IZR kc < IZR (2 ^ 51 - 2) + 1) by (rewrite minus_IZR; lra).
    assert (- (IZR (2 ^ 51 - 2) + 1) < IZR kc) by (rewrite minus_IZR; lra).
    rewrite <- plus_IZR in *. rewrite <- opp_IZR in *. apply lt_IZR in H. apply lt_IZR in H0. lia. }
  pose proof (phase_sub_sound_wide (p_int p) (p_frac p) ic fc k kc Fi Ff Fic Ffc Ek Ekc ltac:(lia) Kc Bf (half_slack _ Hfc)) as HS.
  destruct (phase_sub (p_int p) (p_frac p) ic fc) as [d g]. destruct HS as (Fd & Fg & (kd & Ekd) & Hsub & Hg).
  unfold cycle. cbn [p_int p_frac].
  (* d + g is small *)
  assert (Psm : bpow radix2 (-53) + bpow radix2 (-52) <= / 1024).
  { apply Rle_trans with (2 * bpow radix2 (-52)); [assert (bpow radix2 (-53) <= bpow radix2 (-52)) by (apply bpow_le; lia); lra|].
    apply Rle_trans with (bpow radix2 (-51)); [change (-51)%Z with (-52 + 1)%Z; rewrite bpow_S; lra|].
    apply Rle_trans with (bpow radix2 (-10)); [apply bpow_le; lia|simpl; lra]. }
  assert (P3 : bpow radix2 (-3) = / 8) by (simpl; lra).
  assert (Hdg : Rabs (R_of d + R_of g) < bpow radix2 0).
  { simpl. replace (R_of d + R_of g) with ((R_of d + R_of g - (R_of (p_int p) + R_of (p_frac p) - (R_of ic + R_of fc))) + ((V p - R_of c) - (R_of ic + R_of fc - R_of c))) by (unfold V; ring).
    apply Rle_lt_trans with (1:=Rabs_triang _ _).
    assert (Rabs (V p - R_of c - (R_of ic + R_of fc - R_of c)) <= / 8 + bpow radix2 (-53)).
    { apply Rle_trans with (1:=Rabs_sub_le _ _). rewrite <- (Rabs_Ropp (V p - R_of c)). replace (- (V p - R_of c)) with (R_of c - V p) by ring. lra. }
    lra. }
  destruct (add_R d g Fd Fg) as [Ea Fa].
  { apply Rle_lt_trans with (bpow radix2 0); [apply rnd_bound; [lia|apply Rlt_le; exact Hdg]|apply bpow_lt; lia]. }
  split; [exact Fa|]. rewrite Ea.
  pose proof (err_lt (R_of d + R_of g) 0 ltac:(lia) Hdg) as Hr. change (0 - 54)%Z with (-54)%Z in Hr.
  replace (rnd (R_of d + R_of g) - (V p - R_of c)) with
    ((rnd (R_of d + R_of g) - (R_of d + R_of g)) + ((R_of d + R_of g - (R_of (p_int p) + R_of (p_frac p) - (R_of ic + R_of fc))) - (R_of ic + R_of fc - R_of c)))
    by (unfold V; ring).
  apply Rle_trans with (1:=Rabs_triang _ _).
  assert (Rabs (R_of d + R_of g - (R_of (p_int p) + R_of (p_frac p) - (R_of ic + R_of fc)) - (R_of ic + R_of fc - R_of c)) <= bpow radix2 (-52) + bpow radix2 (-53)).
  { apply Rle_trans with (1:=Rabs_sub_le _ _). lra. }
  assert (E51 : bpow radix2 (-51) = 8 * bpow radix2 (-54)) by (change (-51)%Z with (-54 + 1 + 1 + 1)%Z; rewrite !bpow_S; ring).
  assert (E52 : bpow radix2 (-52) = 4 * bpow radix2 (-54)) by (change (-52)%Z with (-54 + 1 + 1)%Z; rewrite !bpow_S; ring).
  assert (E53 : bpow radix2 (-53) = 2 * bpow radix2 (-54)) by (change (-53)%Z with (-54 + 1)%Z; rewrite !bpow_S; ring).
  pose proof (bpow_gt_0 radix2 (-54)). lra.
Qed.

(* ---------- the key order IS the exact order (normalised phases) ---------- *)
Definition key_of (q : ph) (i : nat) : key := (p_int q, p_frac q, i).
(* a normalised phase: finite doubles, an integer count, a fraction in [-1/2, 1/2] - what every operation returns (C07) *)
Definition ok_norm (q : ph) : Prop :=
  fin (p_int q) /\ fin (p_frac q) /\ (exists k : Z, R_of (p_int q) = IZR k) /\ Rabs (R_of (p_frac q)) <= / 2.
Lemma key_good q i : ok_norm q -> good_key (key_of q i).
Proof. intros (Fi & Ff & _). split; assumption. Qed.

Theorem key_le_V (a b : ph) (i j : nat) : ok_norm a -> ok_norm b -> key_le (key_of a i) (key_of b j) = true -> V a <= V b.
Proof.
  intros Ha Hb H. rewrite (key_le_R _ _ (key_good a i Ha) (key_good b j Hb)) in H. cbn [key_of fst snd] in H.
  destruct Ha as (_ & _ & (ka & Eka) & Bfa). destruct Hb as (_ & _ & (kb & Ekb) & Bfb).
  apply Rabs_le_inv in Bfa. apply Rabs_le_inv in Bfb. unfold V.
  destruct (Rlt_bool_spec (R_of (p_int a)) (R_of (p_int b))) as [L|L]; cbn [orb] in H.
  - (* a smaller count: at least one whole cycle apart, the fractions span at most one *)
    rewrite Eka, Ekb in L. apply lt_IZR in L. assert (IZR ka + 1 <= IZR kb) by (rewrite <- plus_IZR; apply IZR_le; lia).
    rewrite Eka, Ekb. lra.
  - apply andb_true_iff in H. destruct H as [E U].
    destruct (Req_bool_spec (R_of (p_int a)) (R_of (p_int b))) as [Ec|Ec]; [|discriminate].
    destruct (Rle_bool_spec (R_of (p_frac a)) (R_of (p_frac b))) as [Lr|Lr]; [|discriminate]. lra.
Qed.
(* ... and strictly: the key order never puts a strictly larger value first *)
Theorem key_lt_V (a b : ph) (i j : nat) : ok_norm a -> ok_norm b -> V a < V b -> key_le (key_of b j) (key_of a i) = false.
Proof.
  intros Ha Hb Hlt. destruct (key_le (key_of b j) (key_of a i)) eqn:E; [|reflexivity].
  pose proof (key_le_V b a j i Hb Ha E). lra.
Qed.

Lemma StronglySorted_map_in {A B} (R : A -> A -> Prop) (S : B -> B -> Prop) (f : A -> B) (l : list A) :
  (forall x y, In x l -> In y l -> R x y -> S (f x) (f y)) -> StronglySorted R l -> StronglySorted S (map f l).
Proof.
  induction l as [|x r IH]; intros H HS; cbn [map]; [constructor|].
  inversion HS as [|? ? Sr Hx]; subst. constructor.
  - apply IH; [intros a b Ia Ib; apply H; right; assumption|exact Sr].
  - rewrite Forall_forall in Hx |- *. intros y Hy. apply in_map_iff in Hy. destruct Hy as (z & <- & Hz).
    apply H; [left; reflexivity|right; exact Hz|apply Hx; exact Hz].
Qed.

Lemma keyed_in l k : In k (keyed l) -> (snd k < length l)%nat /\ k = key_of (nth (snd k) l dflt) (snd k).
Proof.
  unfold keyed. intros H. apply in_map_iff in H. destruct H as ([i q] & <- & Hin). cbn [fst snd].
  assert (G : forall s (l0 : list ph) i0 q0, In (i0, q0) (combine (seq s (length l0)) l0) -> (s <= i0 < s + length l0)%nat /\ nth (i0 - s) l0 dflt = q0).
  { intros s l0. revert s. induction l0 as [|p r IH]; intros s i0 q0 Hc; cbn [length seq combine] in Hc; [contradiction|].
    destruct Hc as [Hc|Hc].
    - injection Hc as <- <-. cbn [length]. split; [lia|]. rewrite Nat.sub_diag. reflexivity.
    - destruct (IH (S s) i0 q0 Hc) as [R1 R2]. cbn [length]. split; [lia|].
      replace (i0 - s)%nat with (S (i0 - S s)) by lia. exact R2. }
  destruct (G 0%nat l i q Hin) as [R1 R2]. rewrite Nat.sub_0_r in R2. split; [lia|]. unfold key_of. rewrite R2. reflexivity.
Qed.

(* argsort puts the phases in EXACT order: for every two positions i < j of the result, V (l[out_i]) <= V (l[out_j]) - however close *)
Theorem argsort_ordered l : Forall ok_norm l ->
  StronglySorted (fun i j => V (nth i l dflt) <= V (nth j l dflt)) (argsort l).
Proof.
  intros Hok. rewrite Forall_forall in Hok.
  assert (G : Forall good_key (keyed l)).
  { apply Forall_forall. intros k Hk. destruct (keyed_in l k Hk) as [Hl ->]. apply key_good. apply Hok. apply nth_In. exact Hl. }
  rewrite argsort_is. apply (StronglySorted_map_in (fun a b => key_le a b = true)); [|apply argsort_sorted; exact G].
  intros x y Hx Hy Hle.
  assert (Px : In x (keyed l)) by (apply (Permutation_in x (isort_perm key key_le (keyed l))); exact Hx).
  assert (Py : In y (keyed l)) by (apply (Permutation_in y (isort_perm key key_le (keyed l))); exact Hy).
  destruct (keyed_in l x Px) as [Lx Ex]. destruct (keyed_in l y Py) as [Ly Ey]. rewrite Ex, Ey in Hle.
  apply (key_le_V _ _ _ _ (Hok _ (nth_In _ _ Lx)) (Hok _ (nth_In _ _ Ly)) Hle).
Qed.
(* ... and sort returns the phases themselves in that order *)
Theorem psort_ordered l : Forall ok_norm l -> StronglySorted (fun a b => V a <= V b) (psort l).
Proof.
  intros Hok. unfold psort. apply (StronglySorted_map_in (fun i j => V (nth i l dflt) <= V (nth j l dflt))).
  - intros x y _ _ H. exact H.
  - apply argsort_ordered. exact Hok.
Qed.
