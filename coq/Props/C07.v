(* Props/C07.v -- Phase arithmetic keeps two-double precision.  Statements only (proofs: Proofs/TwoSumExact, Floor, DayFrac,
   DayFrac3, PhaseAdd, PhaseMore).  All statements are about the BIT-EXACT binary64 model of Model/Phase2.v (kernel floats,
   tied to IEEE 754 by the standard library's FloatAxioms through Flocq); R_of x is the real value of the double x. *)
From Coq Require Import ZArith Reals Floats Bool.
From Flocq Require Import Core BinarySingleNaN PrimFloat.
From Coquelicot Require Import Complex.
From PB Require Import Proofs.TwoSumExact Model.Phase2 Proofs.Floor Proofs.DayFrac Proofs.DayFrac3 Proofs.PhaseAdd Proofs.PhaseMore.
Open Scope R_scope.
Notation fexp := (FLT_exp (-1074) 53).
Notation rnd := (round radix2 fexp ZnearestE).

(* error-free addition (astropy two_sum): s = fl(a+b) and s + e = a + b exactly, for all finite doubles below 2^1000 *)
Theorem C07_two_sum_exact : forall a b : PrimFloat.float, fin a -> fin b ->
  Rabs (R_of a) <= bpow radix2 1000 -> Rabs (R_of b) <= bpow radix2 1000 ->
  let '(s, e) := TwoSumExact.two_sum a b in
  fin s /\ fin e /\ R_of s = rnd (R_of a + R_of b) /\ R_of s + R_of e = R_of a + R_of b.
Proof. exact two_sum_exact. Qed.

(* the floor the model uses (built from + - compare) is the mathematical floor of every finite double *)
Theorem C07_floor : forall x : PrimFloat.float, fin x -> R_of (ffloor x) = IZR (Zfloor (R_of x)) /\ fin (ffloor x).
Proof. exact ffloor_spec. Qed.

(* construction from one or two numbers: an integer-valued count plus a fraction, within 2^-53 of the exact sum,
   for unnormalised inputs up to 2^53 with |sum| <= 2^52 *)
Theorem C07_construct : forall x y : PrimFloat.float, fin x -> fin y ->
  Rabs (R_of x) <= bpow radix2 53 -> Rabs (R_of y) <= bpow radix2 53 -> Rabs (R_of x + R_of y) <= bpow radix2 52 ->
  let '(d, g) := day_frac_gen x y None None in
  fin d /\ fin g /\ (exists k : Z, R_of d = IZR k) /\
  Rabs (R_of d + R_of g - (R_of x + R_of y)) <= bpow radix2 (-53) /\ Rabs (R_of g) <= / 2 + bpow radix2 (-50).
Proof. exact phase_construct_sound. Qed.

(* Phase + Phase and Phase - Phase: within 2^-52 of the exact result, normalised, for counts up to 2^51 - 1 *)
Theorem C07_add : forall (i1 f1 i2 f2 : PrimFloat.float) (k1 k2 : Z),
  fin i1 -> fin f1 -> fin i2 -> fin f2 ->
  R_of i1 = IZR k1 -> R_of i2 = IZR k2 -> (Z.abs k1 <= 2 ^ 51 - 1)%Z -> (Z.abs k2 <= 2 ^ 51 - 1)%Z ->
  Rabs (R_of f1) <= / 2 -> Rabs (R_of f2) <= / 2 ->
  let '(d, f) := phase_add i1 f1 i2 f2 in
  fin d /\ fin f /\ (exists k : Z, R_of d = IZR k) /\
  Rabs (R_of d + R_of f - ((R_of i1 + R_of f1) + (R_of i2 + R_of f2))) <= bpow radix2 (-52) /\
  Rabs (R_of f) <= / 2 + bpow radix2 (-50).
Proof. exact phase_add_sound. Qed.
Theorem C07_sub : forall (i1 f1 i2 f2 : PrimFloat.float) (k1 k2 : Z),
  fin i1 -> fin f1 -> fin i2 -> fin f2 ->
  R_of i1 = IZR k1 -> R_of i2 = IZR k2 -> (Z.abs k1 <= 2 ^ 51 - 1)%Z -> (Z.abs k2 <= 2 ^ 51 - 1)%Z ->
  Rabs (R_of f1) <= / 2 -> Rabs (R_of f2) <= / 2 ->
  let '(d, f) := phase_sub i1 f1 i2 f2 in
  fin d /\ fin f /\ (exists k : Z, R_of d = IZR k) /\
  Rabs (R_of d + R_of f - ((R_of i1 + R_of f1) - (R_of i2 + R_of f2))) <= bpow radix2 (-52) /\
  Rabs (R_of f) <= / 2 + bpow radix2 (-50).
Proof. exact phase_sub_sound. Qed.
Theorem C07_neg : forall i f : PrimFloat.float,
  fin i -> fin f -> Rabs (R_of i) <= bpow radix2 52 - 1 -> Rabs (R_of f) <= / 2 ->
  let '(d, g) := day_frac (PrimFloat.opp i) (PrimFloat.opp f) in
  fin d /\ fin g /\ (exists k : Z, R_of d = IZR k) /\
  Rabs (R_of d + R_of g - (- (R_of i + R_of f))) <= bpow radix2 (-53) /\ Rabs (R_of g) <= / 2 + bpow radix2 (-50).
Proof. exact phase_neg_sound. Qed.

(* the __array_ufunc__ branches of the model ARE these functions (real phases) *)
Theorem C07_add_branch : forall a b : ph, p_imag a = false -> p_imag b = false ->
  op_addsub false (OPh a) (OPh b) =
  let '(d, f) := phase_add (p_int a) (p_frac a) (p_int b) (p_frac b) in RPh {| p_int := d; p_frac := f; p_imag := false |}.
Proof. exact op_add_real. Qed.
Theorem C07_sub_branch : forall a b : ph, p_imag a = false -> p_imag b = false ->
  op_addsub true (OPh a) (OPh b) =
  let '(d, f) := phase_sub (p_int a) (p_frac a) (p_int b) (p_frac b) in RPh {| p_int := d; p_frac := f; p_imag := false |}.
Proof. exact op_sub_real. Qed.
Theorem C07_neg_branch : forall a : ph, p_imag a = false ->
  op_neg a = let '(d, f) := day_frac (PrimFloat.opp (p_int a)) (PrimFloat.opp (p_frac a)) in RPh {| p_int := d; p_frac := f; p_imag := false |}.
Proof. exact op_neg_real. Qed.

(* imaginary phases, factors and divisors: the flag / sign rules of from_angles are complex multiplication and division *)
Theorem C07_imag_factor : forall (a b : bool) (x f : R),
  Cmult (cplx a x) (cplx b f) = cplx (xorb a b) (x * (if b && a then - f else f)).
Proof. exact factor_rule. Qed.
Theorem C07_imag_divisor : forall (a b : bool) (x d : R), d <> 0 ->
  Cdiv (cplx a x) (cplx b d) = cplx (xorb a b) (x / (if b && negb a then - d else d)).
Proof. exact divisor_rule. Qed.
Theorem C07_i_times_i : forall x f : R, Cmult (cplx true x) (cplx true f) = cplx false (- (x * f)).
Proof. exact i_times_i. Qed.
Theorem C07_from_angles_flags : forall v1 v2 fv (im imf : bool),
  let n1 := if im then NCplx 0 v1 else NReal v1 in
  let n2 := if im then NCplx 0 v2 else NReal v2 in
  let nf := if imf then NCplx 0 fv else NReal fv in
  is0 v1 = false -> is0 v2 = false -> is0 fv = false ->
  from_angles n1 (Some n2) (Some nf) None =
  let '(c, f) := day_frac_gen v1 v2 (Some (if imf && im then PrimFloat.opp fv else fv)) None in
  Some {| p_int := c; p_frac := f; p_imag := xorb im imf |}.
Proof. exact from_angles_factor_flags. Qed.

(* PARTIAL (not proved here, carried by the bit-exact correspondence + exact-rational monitor on every run):
   multiplication / division by a dimensionless number within 2^-52 (needs Dekker's two_product exactness and the error
   analysis of the carry / quotient-correction steps), |frac| <= 1/2 exactly at ties, floor-division / remainder / divmod. *)

Print Assumptions C07_two_sum_exact.
Print Assumptions C07_floor.
Print Assumptions C07_construct.
Print Assumptions C07_add.
Print Assumptions C07_sub.
Print Assumptions C07_neg.
Print Assumptions C07_add_branch.
Print Assumptions C07_imag_factor.
Print Assumptions C07_from_angles_flags.
