(* Model/Getitem.v -- the index dispatch of Signal.__getitem__ and RadioSignal.__getitem__ (core.py): the glue between what the user
   writes inside z[...] and the two slicing routines (Model/Ledger.time_slice, Model/Band.freq_slice).  C01 / C02.
   An index is a list of items (a non-tuple index is the one-element list, as the source normalises it); an item is a slice or
   anything else (an integer, a list, Ellipsis, None, an array, a string).  No proofs in this file. *)
From Coq Require Import ZArith QArith List Bool.
From PB Require Import Lib.PySlice Model.Ledger Model.Band.
Import ListNotations.
Open Scope Z_scope.

Inductive item := ISlice (a b c : option Z) | IOther.
Definition is_slice (i : item) : bool := match i with ISlice _ _ _ => true | IOther => false end.

(* result: the new ledger with the provenance of the retained samples, the new band with its first retained channel (radio signals
   that were given a second item), or the error: GIndex = IndexError (an item on a labelled axis is not a slice, or there is no item
   at all), GTime e / GFreq e = the error of the slicing routine *)
Inductive gres :=
| GOk (l : ledger) (off stride : Z) (b : option (band * Z))
| GIndex
| GTime (e : Z)
| GFreq (e : Z)
| GOther.            (* a slicing routine was handed something that is not a slice: some other exception *)

(* all(isinstance(a, slice) for a in index[:k]) *)
Definition guard (k : nat) (index : list item) : bool := forallb is_slice (firstn k index).

Definition signal_getitem (l : ledger) (index : list item) : gres :=
  if negb (guard 1 index) then GIndex else
  match index with
  | ISlice a b c :: _ =>
      match time_slice l a b c with
      | Ok l' off st => GOk l' off st None
      | Err e => GTime e
      end
  | _ => GIndex          (* the empty tuple: index[0] raises IndexError *)
  end.

Definition radio_getitem (l : ledger) (bd : band) (index : list item) : gres :=
  if negb (guard 2 index) then GIndex else
  match index with
  | ISlice a b c :: rest =>
      match time_slice l a b c with
      | Err e => GTime e
      | Ok l' off st =>
          match rest with
          | ISlice fa fb fc :: _ =>
              match freq_slice bd fa fb fc with
              | BOk b' lo => GOk l' off st (Some (b', lo))
              | BErr e => GFreq e
              end
          | _ => GOk l' off st None        (* one item only: the band is not touched *)
          end
      end
  | _ => GIndex
  end.
