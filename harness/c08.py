"""C08: polyco prediction equals the tempo formula on every entry's span.
(P) Props/C08.v (exact rationals); (T) Model/Polyco.v evaluated by vm_compute on the exact decimal numbers of generated polyco
texts and on the exact (two-double, TAI) times the code holds: predicted phase, f0 and its derivatives, phasepol, validity intervals
and refusals compared with what pulsarbat returned; (M) the tempo formula evaluated with fractions.Fraction on the decimal strings
of the file: |phase - formula| <= 1e-8 cycles, evaluated from an entry whose span contains the time; derivatives; phasepol
reproduces the prediction; time_at inverts it; outside every span ValueError; intervals = spans merged within 1 ms."""
import io, math
from fractions import Fraction as Fr
import numpy as np
import astropy.units as u
from astropy.time import Time
import pulsarbat as pb
from harness.common import qlit, zlit, listlit
from harness import exact as X

VFILES = ['Model/Polyco.v', 'Proofs/PolycoProofs.v', 'Gen/GenPolyco.v', 'Proofs/PolycoGen.v', 'Model/PolycoTimeAt.v', 'Proofs/PolycoTimeAtProofs.v',
          'Proofs/PolycoTimeAtGen.v', 'Props/C08.v']
TOL = Fr(1, 10 ** 8)

HEADER = '''From Coq Require Import ZArith QArith Qabs List Bool. Import ListNotations.
From PB Require Import Model.Polyco Model.PolycoTimeAt.
Definition R (tm sp : Q) (ri : Z) (rf f0 : Q) (cs : list Q) : raw_entry :=
  {| r_tmid := tm; r_span := sp; r_rint := ri; r_rfrac := rf; r_f0 := f0; r_coeffs := cs |}.
Definition eps : Q := 1 # 1000.
Definition close (tol a b : Q) : bool := Qle_bool (Qabs (a - b)) tol.
(* impl: None = ValueError *)
Definition chk_val (tol : Q) (m impl : option Q) : Z :=
  match m, impl with Some a, Some b => if close tol a b then 0%Z else 1%Z | None, None => 0%Z | Some _, None => 2%Z | None, Some _ => 3%Z end.
Definition with_pred (pr : option (list entry)) (f : list entry -> Z) : Z := match pr with Some es => f es | None => 9%Z end.
Definition chk_predict (raws : option (list entry)) (t tol : Q) (impl : option Q) : Z := with_pred raws (fun es => chk_val tol (predict eps es t) impl).
Definition chk_f0 (raws : option (list entry)) (t : Q) (n : nat) (tol : Q) (impl : option Q) : Z := with_pred raws (fun es => chk_val tol (f0 eps es t n) impl).
Fixpoint chk_iv (tol : Q) (m impl : list (Q * Q)) : bool :=
  match m, impl with [], [] => true | (a, b) :: m', (c, d) :: i' => close tol a c && close tol b d && chk_iv tol m' i' | _, _ => false end.
Definition chk_intervals (raws : option (list entry)) (tol : Q) (impl : list (Q * Q)) : Z :=
  with_pred raws (fun es => if chk_iv tol (intervals eps es) impl then 0%Z else 1%Z).
(* phasepol: reference phase exact, polynomial compared through its values at probe points *)
Definition chk_phasepol (raws : option (list entry)) (t tol : Q) (iref : Z) (icoef : list Q) (probes : list Q) : Z :=
  with_pred raws (fun es => match phasepol eps es t with
    | Some (cs, ref) => if (ref =? iref)%Z && forallb (fun x => close tol (peval cs x) (peval icoef x)) probes then 0%Z else 1%Z
    | None => 2%Z end).
(* time_at: the range check passes in the model and the first guess is the TMID the implementation handed to the root finder *)
Definition chk_time_at_guess (raws : option (list entry)) (ph tol : Q) (iguess : Q) : Z :=
  with_pred raws (fun es => match ta_check eps es (intervals eps es) ph, ta_guess eps es ph with
    | Some true, Some g => if close tol g iguess then 0%Z else 1%Z
    | Some false, _ => 2%Z
    | _, _ => 3%Z end).
(* a phase the implementation refused: the model's range check is false too *)
Definition chk_time_at_refused (raws : option (list entry)) (ph : Q) : Z :=
  with_pred raws (fun es => match ta_check eps es (intervals eps es) ph with Some false => 0%Z | Some true => 1%Z | None => 3%Z end).
'''


def dec(rng, digits, lo, hi, sign=True):
    """a decimal string with the given number of fractional digits, value roughly in [lo, hi)"""
    v = rng.uniform(lo, hi)
    if sign and rng.random() < 0.5:
        v = -v
    return f'{v:.{digits}f}'


def sci(rng, mag, fmt):
    """tempo-style coefficient '-1.73185794610246813e-07' with E or D exponent"""
    m = rng.uniform(1, 9.999) * rng.choice([1, -1])
    s = f'{m:.17f}e{mag:+03d}'
    if fmt == 'D':
        s = s.replace('e', 'D')
    elif fmt == 'd':
        s = s.replace('e', 'd')
    elif fmt == 'E':
        s = s.replace('e', 'E')
    return s


def gen_polyco(rng):
    """-> (text, entries) ; entries: dict(tmid_str, span_min, rphase_str, f0_str, coeffs [str])"""
    n = rng.choice([1, 1, 2, 3, 5, 8, 12, 40 if rng.random() < 0.1 else 4])
    span = rng.choice([5, 15, 30, 60, 90, 120, 360])
    f0v = rng.choice([0.1, 1.4, 29.6, 641.928232294317, 173.7, 716.3, 999.9])
    while f0v * span * 30 > 1e6:               # keep F0 * span/2 <= 2e6 cycles (float64 Horner error below 1e-8)
        span = max(5, span // 2) if span > 5 else 5
        if span == 5 and f0v * span * 30 > 1e6:
            f0v /= 2
    f0s = f'{f0v:.12f}'
    ncoeff = rng.choice([1, 2, 4, 5, 7, 8, 10, 11, 12, 13, 14, 15, 3, 12])
    fmt = rng.choice(['e', 'E', 'D', 'd'])
    base = rng.choice([58244, 55000, 59215, 51544, 60000]) + rng.choice([0, 0.25, 0.9375, 0.5])
    layout = rng.choice(['touching', 'touching', 'overlap', 'gaps', 'mixed'])
    tmids = []
    t = Fr(base)
    for k in range(n):
        tmids.append(t)
        step = Fr(span, 1440)
        if layout == 'overlap' or (layout == 'mixed' and rng.random() < 0.3):
            step = step * Fr(rng.choice([1, 2, 3]), 4)
        elif layout == 'gaps' or (layout == 'mixed' and rng.random() < 0.3):
            step = step * rng.choice([2, 3]) + Fr(rng.randint(0, 3), 1440)
        t += step
    rphase0 = rng.choice([0, 12345, 146750669817, 999999999999, 5])
    entries = []
    for k, tm in enumerate(tmids):
        tmid_str = f'{float(tm):.11f}'
        rint = rphase0 + int(round(float((tm - tmids[0]) * 86400 * Fr(f0v))))
        rphase_str = f'{rint}.{rng.randint(0, 999999):06d}'
        coeffs = []
        for i in range(ncoeff):
            if i == 0:
                mag = -7 + rng.choice([0, 0, 1, -1])
            else:
                # keep the rotation frequency positive over the span (time_at needs a monotonic phase): the derivative
                # contribution of term i stays below 0.2 * 60 F0 / ncoeff
                amp = 0.2 * 60 * f0v / (i * max(1.0, (span / 2.0)) ** (i - 1)) / ncoeff
                mag = int(np.floor(np.log10(amp / 10))) + rng.choice([0, 0, -1, -2])
            coeffs.append(sci(rng, mag, fmt))
        entries.append(dict(tmid_str=tmid_str, span=span, rphase_str=rphase_str, f0_str=f0s, coeffs=coeffs))
    order = list(range(n))
    if rng.random() < 0.3:
        rng.shuffle(order)
    lines = []
    for k in order:
        e = entries[k]
        lines.append(f'PSRX      7-May-18  {rng.randint(0, 235959):6d}.00   {e["tmid_str"]}            71.020168 -0.713 -6.294')
        lines.append(f' {e["rphase_str"]}  {e["f0_str"]}   ao  {span:3d}   {ncoeff:2d}   327.000')
        for j in range(0, ncoeff, 3):
            lines.append(' ' + ' '.join(f'{c:>24s}' for c in e['coeffs'][j:j + 3]))
    return '\n'.join(lines) + '\n', [entries[k] for k in order], dict(n=n, span=span, f0=f0s, ncoeff=ncoeff, fmt=fmt, layout=layout, shuffled=order != sorted(order))


def fr_dec(s):
    return Fr(s.lower().replace('d', 'e'))


def tempo(e, DT):
    """RPHASE + 60 DT F0 + sum COEFF(i) DT^(i-1), exact"""
    v = fr_dec(e['rphase_str']) + 60 * DT * fr_dec(e['f0_str'])
    for i, c in enumerate(e['coeffs']):
        v += fr_dec(c) * DT ** i
    return v


def tempo_deriv(e, DT, order):
    """order-th derivative with respect to time in SECONDS of the tempo polynomial (DT in minutes)"""
    cs = [fr_dec(c) for c in e['coeffs']]
    if len(cs) < 2:
        cs = cs + [Fr(0)] * (2 - len(cs))
    cs[1] += 60 * fr_dec(e['f0_str'])
    for _ in range(order):
        cs = [i * c for i, c in enumerate(cs)][1:]
    return sum(c * DT ** i for i, c in enumerate(cs)) / Fr(60) ** order


def phase_exact(p):
    v = p.view(np.ndarray)
    return Fr(float(v['int'])) + Fr(float(v['frac']))


def run(ctx):
    rng = ctx.rng
    ctx.rule = ('generated tempo-style polyco texts: 1..40 entries, NCOEFF 1..15 (incl. not multiples of 3), E/e/D/d exponents, signed '
                'coefficients, spans 5..360 min, F0 0.05..1000 Hz with F0*span/2 <= 1e6 cycles, reference phases up to 1e12, touching / '
                'overlapping / separated spans, shuffled entry order; scalar and array times inside spans (incl. edges, across entries) '
                'and outside; f0 and derivatives; phasepol; time_at; malformed: unequal spans. distinct by (text parameters, times).')
    ctx.trusted = ['translator T14 translate/py_predictor2coq.py (span edges, merge pass, selection, evaluation, from_polyco arithmetic; other statements pinned)', 'Coq 8.16.1 kernel (C08 theorems are axiom-free over Q); vm_compute',
                   'astropy Time (two-double) differences as exact rationals on the TAI scale; float64 Horner evaluation within 1e-8 cycles '
                   'inside the sampled envelope F0*span/2 <= 1e6 cycles (assumption of the correspondence, not of the theorems)']
    ctx.assumptions = ['times closer than 1 ns to a span end are not used for the entry-selection comparison with the exact model (the code holds '
                       'span ends as two-double Times, a few 1e-12 s from the exact decimal value); for the monitor such an entry counts as containing the time', 'time_at (Newton iteration) is checked by the monitor only']
    built = ctx.build(['Props/C08.vo'])
    ctx.count_obligations(VFILES)
    if built:
        ctx.assumptions_of('Props/C08.v', allowed=set())
    items, meta, defs = [], [], []

    def add(term, inp, impl, kind):
        items.append(term); meta.append(dict(inp=inp, impl=impl, kind=kind))

    NF = 40 if ctx.tier == 'quick' else 600
    for c in range(NF):
        text, entries, par = gen_polyco(rng)
        inp0 = dict(par, case=c)
        ctx.count('layout:' + par['layout']); ctx.count('ncoeff:%d' % par['ncoeff']); ctx.count('fmt:' + par['fmt'])
        try:
            p = pb.PhasePredictor.from_polyco(io.StringIO(text))
        except Exception as e:
            ctx.fail('from_polyco_raised', dict(inp0, text=text[:400]), impl=repr(e))
            continue
        # exact entry data: TMID as the Time the code holds (TAI seconds), decimal strings as rationals
        tm = {e['tmid_str']: X.sec(Time(e['tmid_str'], format='mjd', precision=9)) for e in entries}
        t0s = min(tm.values())
        rawdef = '[' + '; '.join(
            f'R {qlit(tm[e["tmid_str"]] - t0s)} {qlit(Fr(e["span"] * 60))} {zlit(int(e["rphase_str"].split(".")[0]))} '
            f'{qlit(Fr("0." + e["rphase_str"].split(".")[1]))} {qlit(fr_dec(e["f0_str"]))} {listlit([fr_dec(x) for x in e["coeffs"]], qlit)}'
            for e in entries) + ']'
        defs.append(f'Definition pred_{c} : option (list entry) := Eval vm_compute in predictor {rawdef}.')
        raws = f'pred_{c}'
        half = Fr(par['span'] * 30)
        spans = sorted((tm[e['tmid_str']] - half, tm[e['tmid_str']] + half, e) for e in entries)

        # the code's span ends are the two-double Times tmid +- span/2 (a few 1e-12 s from the exact decimal value): a time within
        # 1e-10 s of an exact end counts as inside that entry's span
        SLACK = Fr(1, 10 ** 10)

        def containing(ts):
            return [e for a, b, e in spans if a - SLACK <= ts <= b + SLACK]

        # ---- intervals
        try:
            iv = [(X.sec(a) - t0s, X.sec(b) - t0s) for a, b in p.intervals]
            add(f'chk_intervals {raws} (1 # 100000) {listlit(iv, lambda ab: "(" + qlit(ab[0]) + ", " + qlit(ab[1]) + ")")}', dict(inp0, op='intervals'), len(iv), 'intervals')
            # monitor: merged exactly where spans touch / overlap within 1 ms
            want = []
            for a, b, _ in spans:
                if want and a <= want[-1][1] + Fr(1, 1000):
                    want[-1][1] = max(want[-1][1], b)
                else:
                    want.append([a, b])
            ok = len(want) == len(iv) and all(abs(w[0] - t0s - i[0]) < Fr(1, 10 ** 5) and abs(w[1] - t0s - i[1]) < Fr(1, 10 ** 5) for w, i in zip(want, iv))
            ctx.seen(dict(inp0, op='intervals'))
            if not ok:
                ctx.fail('intervals_not_the_merged_spans', dict(inp0, op='intervals'), impl=[[float(a), float(b)] for a, b in iv],
                         model=[[float(a - t0s), float(b - t0s)] for a, b in want])
        except Exception as e:
            ctx.fail('intervals_raised', inp0, impl=repr(e))
            continue
        # ---- times
        NT = 8 if ctx.tier == 'quick' else 14
        for k in range(NT):
            a, b, e = rng.choice(spans)
            mode = rng.choice(['inside', 'inside', 'inside', 'edge', 'outside', 'array', 'just_past_end', 'at_end'])
            base_t = Time(e['tmid_str'], format='mjd', precision=9)
            if mode == 'inside':
                off = rng.uniform(-0.999, 0.999) * float(half)
            elif mode == 'edge':
                off = rng.choice([-1, 1]) * (float(half) - rng.choice([1e-3, 0.5, 30.0]))
            elif mode == 'outside':
                off = rng.choice([-1, 1]) * (float(half) + rng.choice([10.0, 3600.0, 86400.0 * 30]))
            elif mode == 'at_end':
                # exactly on the (inclusive) end or start of this entry's span: with a gap behind it only this entry contains the time
                off = rng.choice([1, 1, -1]) * float(half)
            elif mode == 'just_past_end':
                # closer to the end of this entry than a float MJD resolves (~0.6 us): an overlapping neighbour must take over
                off = float(half) + rng.choice([1e-9, 3e-8, 1e-7, 4e-7])
            else:
                off = None
            if mode == 'array':
                offs = np.array([rng.uniform(-0.99, 0.99) * float(half) for _ in range(4)])
                others = [Time(x[2]['tmid_str'], format='mjd', precision=9) for x in rng.sample(spans, min(2, len(spans)))]
                tl = [base_t + offs[0] * u.s, base_t + offs[1] * u.s] + [o + offs[2 + j] * u.s for j, o in enumerate(others)]
                arrangement = rng.choice(['as_is', 'shuffled', 'same_entry_at_both_ends', 'two_d'])
                if arrangement == 'shuffled':
                    rng.shuffle(tl)
                elif arrangement == 'same_entry_at_both_ends':
                    tl = [tl[0]] + tl[2:] + [tl[1]]            # first and last from one entry, the others in between
                times = Time(tl)
                if arrangement == 'two_d' and len(tl) == 4:
                    times = times.reshape(2, 2)
                tlist = list(times.reshape(-1))
                ctx.count('array:' + arrangement)
            else:
                times = base_t + off * u.s
                tlist = [times]
            scale = 'utc'
            if rng.random() < 0.25 and mode not in ('at_end', 'just_past_end'):
                # (not for instants placed exactly on / next to a span end: re-expressing a Time on another scale rounds its two doubles,
                # which moves it by ~1e-12 s - across the end it was placed on)
                # the same instants expressed in another time scale (37 s / 69.184 s away in their Julian dates)
                scale = rng.choice(['tai', 'tt'])
                times = getattr(times, scale)
                tlist = list(times.reshape(-1)) if not times.isscalar else [times]
            ctx.count('scale:' + scale)
            inp = dict(inp0, op='predict', mode=mode, scale=scale, t=[str(x.mjd) for x in tlist])
            ctx.seen(inp); ctx.count('time:' + mode)
            ts = [X.sec(x) for x in tlist]
            inside_any = [any(i0 <= x - t0s <= i1 for i0, i1 in iv) for x in ts]
            near_end = any(abs(x - bb) < Fr(1, 10 ** 9) or abs(x - aa) < Fr(1, 10 ** 9) for x in ts for aa, bb, _ in spans)
            try:
                r = p(times)
                vals = [phase_exact(r)] if times.isscalar else [phase_exact(x) for x in r.reshape(-1)]
                err = None
            except ValueError as ex:
                vals, err = None, ex
            except Exception as ex:
                ctx.fail('predict_raised_unexpected', inp, impl=repr(ex))
                continue
            if not all(inside_any):
                if err is None:
                    ctx.fail('time_outside_every_span_accepted', inp, impl=[float(v) for v in vals])
                if mode != 'array' and not near_end:
                    add(f'chk_predict {raws} {qlit(ts[0] - t0s)} (1 # 100000000) None' if err is not None else
                        f'chk_predict {raws} {qlit(ts[0] - t0s)} (1 # 100000000) (Some {qlit(vals[0])})', inp, repr(err), 'predict')
                continue
            if err is not None:
                ctx.fail('time_inside_a_span_refused', inp, impl=repr(err))
                continue
            for x, v in zip(ts, vals):
                cands = containing(x)
                if not cands:            # inside a merged interval but in a sub-millisecond gap between spans: nearest entry
                    continue
                errs = [abs(v - tempo(ec, (x - tm[ec['tmid_str']]) / 60)) for ec in cands]
                best = min(errs)
                ctx.ratio(best, TOL)
                if best > TOL:
                    ctx.fail('phase_differs_from_tempo_formula', inp, impl=float(v), model=float(best))
                if not near_end:
                    add(f'chk_predict {raws} {qlit(x - t0s)} (1 # 100000000) (Some {qlit(v)})', inp, float(v), 'predict')
            # ---- f0 and derivatives (scalar times)
            if mode in ('inside', 'edge', 'at_end'):
                x = ts[0]
                cands = containing(x)
                for n in (0, 1, 2):
                    try:
                        fv = p.f0(times, n)
                        fval = Fr(float(fv.to_value(u.cycle / u.s ** (n + 1))))
                    except Exception as ex:
                        ctx.fail('f0_raised', dict(inp, n=n), impl=repr(ex))
                        break
                    want = [tempo_deriv(ec, (x - tm[ec['tmid_str']]) / 60, n + 1) for ec in cands]
                    tolf = max(abs(w) for w in want) * Fr(1, 10 ** 9) + Fr(1, 10 ** 30)
                    if min(abs(fval - w) for w in want) > tolf:
                        ctx.fail('f0_not_the_derivative', dict(inp, n=n), impl=float(fval), model=float(want[0]))
                    elif not near_end:
                        add(f'chk_f0 {raws} {qlit(x - t0s)} {n}%nat {qlit(tolf)} (Some {qlit(fval)})', dict(inp, op='f0', n=n), float(fval), 'f0')
                # ---- phasepol
                try:
                    pol, ref = p.phasepol(times)
                    refv = phase_exact(ref)
                    coef = [Fr(float(cc)) for cc in pol.coef]
                    probes = [Fr(0), Fr(1), Fr(-7, 2), Fr(60), Fr(-100)]
                    bad = False
                    for xx in probes:
                        if not any(a0 <= x + xx <= b0 and e0 is ec for a0, b0, e0 in spans for ec in cands):
                            continue
                        got = refv + sum(cf * xx ** i for i, cf in enumerate(coef))
                        want = min((abs(got - tempo(ec, (x + xx - tm[ec['tmid_str']]) / 60)) for ec in cands))
                        if want > TOL * 4:
                            bad = True
                            ctx.fail('phasepol_does_not_reproduce_prediction', dict(inp, x=float(xx)), impl=float(got), model=float(want))
                            break
                    if not bad and not (0 <= coef[0] < 1 + Fr(1, 10 ** 6)):
                        ctx.fail('phasepol_not_recentred', inp, impl=float(coef[0]))
                    if not bad and not near_end and refv.denominator == 1 and abs(coef[0] - Fr(1, 2)) < Fr(49, 100):
                        add(f'chk_phasepol {raws} {qlit(x - t0s)} (1 # 10000000) {zlit(int(refv))} {listlit(coef, qlit)} {listlit(probes[:3], qlit)}',
                            dict(inp, op='phasepol'), float(refv), 'phasepol')
                except Exception as ex:
                    ctx.fail('phasepol_raised', inp, impl=repr(ex))
                # ---- time_at inverts the prediction
                if rng.random() < 0.5 and abs(off) < 0.9 * float(half):
                    try:
                        ph = p(times)
                        import scipy.optimize as _so
                        seen_guess, _orig = {}, _so.root_scalar

                        def _spy(func, *a_, **k_):
                            try:
                                seen_guess['g'] = dict(zip(func.__code__.co_freevars, [c_.cell_contents for c_ in func.__closure__])).get('guess')
                            except Exception:
                                pass
                            return _orig(func, *a_, **k_)
                        _so.root_scalar = _spy
                        try:
                            tb = p.time_at(ph)
                        finally:
                            _so.root_scalar = _orig
                        if times.isscalar and seen_guess.get('g') is not None:
                            # the first guess against the model (the requested phase is more than 5 % of a span away from every span end,
                            # so float noise in ph_end cannot move the searchsorted position)
                            ctx.count('time_at_guess_compared')
                            add(f'chk_time_at_guess {raws} {qlit(phase_exact(ph))} (1 # 1000000) {qlit(X.sec(seen_guess["g"]) - t0s)}',
                                dict(inp, op='time_at_guess'), str(seen_guess['g'].mjd), 'time_at_guess')
                        back = phase_exact(p(tb))
                        if abs(back - phase_exact(ph)) > TOL:
                            ctx.fail('time_at_does_not_invert', inp, impl=float(back - phase_exact(ph)))
                        ctx.count('time_at')
                    except Exception as ex:
                        ctx.fail('time_at_raised', inp, impl=repr(ex))
        # phases outside the predictor range are refused by time_at
        try:
            lo = p(p.intervals[0][0])
            p.time_at(lo - 10.0)
            ctx.fail('time_at_outside_accepted', inp0)
        except ValueError:
            add(f'chk_time_at_refused {raws} {qlit(phase_exact(lo) - 10)}', dict(inp0, op='time_at_refused'), 'ValueError', 'time_at_refused')
        except Exception as ex:
            ctx.fail('time_at_outside_wrong_error', inp0, impl=repr(ex))

    # malformed: entries with different spans are refused
    for c in range(6):
        text, entries, par = gen_polyco(rng)
        if par['n'] < 2:
            continue
        lines = text.split('\n')
        per = 2 + -(-par['ncoeff'] // 3)
        parts = lines[per + 1].split()
        parts[3] = str(par['span'] + 7)
        lines[per + 1] = ' ' + '  '.join(parts)
        inp = dict(par, op='unequal_spans')
        ctx.seen(inp); ctx.count('malformed:unequal_spans')
        try:
            pb.PhasePredictor.from_polyco(io.StringIO('\n'.join(lines)))
            ctx.fail('unequal_spans_accepted', inp)
        except ValueError:
            pass
        except Exception as ex:
            ctx.fail('unequal_spans_wrong_error', inp, impl=repr(ex))

    res = ctx.run_cases(HEADER + '\n'.join(defs) + '\n', items, shard=max(20, len(items) // 16 + 1))
    if res is None:
        return
    for r, m in zip(res, meta):
        if r:
            ctx.mismatch(f'polyco model ({m["kind"]}, code {r}) vs implementation', m['inp'], impl=m['impl'])
