"""Translator T7: straight-line binary64 code of pulsar/phase.py -> Gallina over primitive floats (Gen/GenPhase.v).

Translated: `day_frac` statement by statement (tuple assignments from two_sum / two_product, plain and augmented assignments,
`if <optional argument> is not None:` blocks, np.floor, + - * / and unary minus on doubles, decimal literals as the double they denote).
Every Python float operation becomes the corresponding IEEE operation of Coq's PrimFloat, in the same order; `two_sum`, `two_product` (astropy)
and `ffloor` (np.floor) are the model's definitions, validated bit for bit by the correspondence run.

Fail-closed: anything else raises Unsupported."""
import ast, pathlib, sys


class Unsupported(Exception):
    pass


PAIR_FUNCS = {'two_sum': 'two_sum', 'two_product': 'two_product'}


def flit(x):
    """a Python float as a Coq float literal denoting exactly that double"""
    if x != x or x in (float('inf'), float('-inf')):
        raise Unsupported('non-finite literal')
    h = float(x).hex()            # [-]0x1.8p+3
    return f'({h})' if x < 0 else h


class Tr:
    def __init__(self, args, optional):
        self.defined = set(args) | set(optional)
        self.optional = set(optional)
        self.in_some = set()          # optional arguments known to be present (inside their block)

    def ex(self, n):
        if isinstance(n, ast.BinOp):
            op = {ast.Add: '+', ast.Sub: '-', ast.Mult: '*', ast.Div: '/'}.get(type(n.op))
            if op is None:
                raise Unsupported('operator ' + ast.dump(n.op))
            return f'({self.ex(n.left)} {op} {self.ex(n.right)})'
        if isinstance(n, ast.UnaryOp) and isinstance(n.op, ast.USub):
            return f'(- {self.ex(n.operand)})'
        if isinstance(n, ast.Name):
            if n.id not in self.defined:
                raise Unsupported('use of an undefined or block-local name ' + n.id)
            if n.id in self.optional and n.id not in self.in_some:
                raise Unsupported('optional argument used outside its "is not None" block: ' + n.id)
            return n.id
        if isinstance(n, ast.Constant) and isinstance(n.value, (int, float)) and not isinstance(n.value, bool):
            return flit(float(n.value))
        if isinstance(n, ast.Call) and ast.unparse(n.func) == 'np.floor' and len(n.args) == 1 and not n.keywords:
            return f'(ffloor {self.ex(n.args[0])})'
        if isinstance(n, ast.Call) and ast.unparse(n.func) == 'np.where' and len(n.args) == 3 and not n.keywords:
            # elementwise selection on doubles: if <comparison> then a else b
            return f'(if {self.cmp(n.args[0])} then {self.ex(n.args[1])} else {self.ex(n.args[2])})'
        raise Unsupported('expression ' + ast.dump(n))

    def cmp(self, n):
        if isinstance(n, ast.Compare) and len(n.ops) == 1:
            a, b = self.ex(n.left), self.ex(n.comparators[0])
            t = type(n.ops[0])
            if t is ast.Gt:
                return f'({b} <? {a})'
            if t is ast.Lt:
                return f'({a} <? {b})'
            if t is ast.GtE:
                return f'({b} <=? {a})'
            if t is ast.LtE:
                return f'({a} <=? {b})'
        raise Unsupported('comparison ' + ast.dump(n))

    def assigned(self, body):
        out = []
        for st in body:
            if isinstance(st, ast.Assign):
                t = st.targets[0]
                names = [e.id for e in t.elts] if isinstance(t, ast.Tuple) else [t.id]
            elif isinstance(st, ast.AugAssign):
                names = [st.target.id]
            else:
                raise Unsupported('statement in a block: ' + ast.dump(st))
            for x in names:
                if x not in out:
                    out.append(x)
        return out

    def block(self, body, tail):
        """statements -> nested lets ending in `tail`"""
        if not body:
            return tail
        st, rest = body[0], body[1:]
        if isinstance(st, ast.Assign) and len(st.targets) == 1:
            t, v = st.targets[0], st.value
            if isinstance(t, ast.Tuple) and all(isinstance(e, ast.Name) for e in t.elts) and len(t.elts) == 2 \
               and isinstance(v, ast.Call) and isinstance(v.func, ast.Name) and v.func.id in PAIR_FUNCS and len(v.args) == 2 and not v.keywords:
                rhs = f'{PAIR_FUNCS[v.func.id]} {self.ex(v.args[0])} {self.ex(v.args[1])}'
                a, b = t.elts[0].id, t.elts[1].id
                self.defined |= {a, b}
                return f"let '({a}, {b}) := {rhs} in\n  " + self.block(rest, tail)
            if isinstance(t, ast.Name):
                rhs = self.ex(v)
                self.defined.add(t.id)
                return f'let {t.id} := {rhs} in\n  ' + self.block(rest, tail)
            raise Unsupported('assignment ' + ast.dump(st))
        if isinstance(st, ast.AugAssign) and isinstance(st.target, ast.Name) and isinstance(st.op, (ast.Add, ast.Sub)):
            x = st.target.id
            if x not in self.defined:
                raise Unsupported('augmented assignment to an undefined name ' + x)
            op = '+' if isinstance(st.op, ast.Add) else '-'
            return f'let {x} := ({x} {op} {self.ex(st.value)}) in\n  ' + self.block(rest, tail)
        if isinstance(st, ast.If) and not st.orelse and isinstance(st.test, ast.Compare) and len(st.test.ops) == 1 and isinstance(st.test.ops[0], ast.IsNot) \
           and isinstance(st.test.left, ast.Name) and st.test.left.id in self.optional \
           and isinstance(st.test.comparators[0], ast.Constant) and st.test.comparators[0].value is None:
            o = st.test.left.id
            before = set(self.defined)
            live = [x for x in self.assigned(st.body) if x in before]      # outer variables the block updates
            if not live:
                raise Unsupported('block without effect')
            tup = live[0] if len(live) == 1 else '(' + ', '.join(live) + ')'
            pat = live[0] if len(live) == 1 else "'(" + ', '.join(live) + ')'
            self.in_some.add(o)
            inner = self.block(st.body, tup)
            self.in_some.discard(o)
            self.defined = before                                           # block-local names do not escape
            return (f'let {pat} :=\n    match {o} with\n    | None => {tup}\n    | Some {o} =>\n      ' + inner.replace('\n  ', '\n      ') +
                    f'\n    end in\n  ' + self.block(rest, tail))
        raise Unsupported('statement ' + ast.dump(st))


def generate(repo='/repo'):
    src = pathlib.Path(repo, 'pulsarbat', 'pulsar', 'phase.py').read_text()
    tree = ast.parse(src)
    fn = None
    for n in tree.body:
        if isinstance(n, ast.FunctionDef) and n.name == 'day_frac':
            fn = n
    if fn is None:
        raise Unsupported('day_frac not found')
    a = fn.args
    if [x.arg for x in a.args] != ['val1', 'val2', 'factor', 'divisor'] or a.posonlyargs or a.vararg or a.kwarg or a.kwonlyargs \
       or [ast.unparse(d) for d in a.defaults] != ['None', 'None']:
        raise Unsupported('signature of day_frac')
    imp = [ast.unparse(n) for n in tree.body if isinstance(n, ast.ImportFrom) and any(x.name in PAIR_FUNCS for x in n.names)]
    if not any(i.startswith('from astropy.time.utils import') and 'two_sum' in i and 'two_product' in i for i in imp):
        raise Unsupported('two_sum / two_product are not the astropy.time.utils functions: ' + repr(imp))
    body = [s for s in fn.body if not (isinstance(s, ast.Expr) and isinstance(s.value, ast.Constant) and isinstance(s.value.value, str))]
    ret = body[-1]
    if not (isinstance(ret, ast.Return) and isinstance(ret.value, ast.Tuple) and len(ret.value.elts) == 2 and all(isinstance(e, ast.Name) for e in ret.value.elts)):
        raise Unsupported('return of day_frac')
    tr = Tr(['val1', 'val2'], ['factor', 'divisor'])
    term = tr.block(body[:-1], '(' + ', '.join(tr_name for tr_name in [e.id for e in ret.value.elts]) + ')')
    for e in ret.value.elts:
        if e.id not in tr.defined:
            raise Unsupported('returned name undefined: ' + e.id)
    out = ['(* GENERATED by translate/py_float2coq.py from pulsar/phase.py (day_frac) -- do not edit *)',
           'From Coq Require Import ZArith Bool PrimFloat.', 'From PB Require Import Model.Phase2.', 'Open Scope float_scope.',
           'Definition gen_day_frac (val1 val2 : float) (factor divisor : option float) : float * float :=\n  ' + term + '.']
    return '\n'.join(out) + '\n'


# ---------------------------------------------------------------------------------------------------------------------------------
# Phase.from_angles and the arguments the branches of Phase.__array_ufunc__ hand to it
def is_src(node, text):
    try:
        if isinstance(node, ast.stmt):
            return ast.dump(node) == ast.dump(ast.parse(text).body[0])
        return ast.dump(node) == ast.dump(ast.parse(text, mode='eval').body)
    except SyntaxError:
        return False


def find_method(tree, cls, name):
    for n in tree.body:
        if isinstance(n, ast.ClassDef) and n.name == cls:
            for m in n.body:
                if isinstance(m, ast.FunctionDef) and m.name == name:
                    return m
    raise Unsupported(f'{cls}.{name} not found')


def nodoc(fn):
    return [s for s in fn.body if not (isinstance(s, ast.Expr) and isinstance(s.value, ast.Constant) and isinstance(s.value.value, str))]


def bexpr(n, names):
    if isinstance(n, ast.Name) and n.id in names:
        return n.id
    if isinstance(n, ast.BoolOp):
        op = ' && ' if isinstance(n.op, ast.And) else ' || '
        return '(' + op.join(bexpr(v, names) for v in n.values) + ')'
    if isinstance(n, ast.UnaryOp) and isinstance(n.op, ast.Not):
        return f'(negb {bexpr(n.operand, names)})'
    if isinstance(n, ast.Compare) and len(n.ops) == 1 and isinstance(n.ops[0], (ast.Is, ast.IsNot)):
        e = f'(Bool.eqb {bexpr(n.left, names)} {bexpr(n.comparators[0], names)})'
        return e if isinstance(n.ops[0], ast.Is) else f'(negb {e})'
    raise Unsupported('boolean expression ' + ast.dump(n))


def generate_from_angles(tree):
    fn = find_method(tree, 'Phase', 'from_angles')
    a = fn.args
    if [x.arg for x in a.args] != ['cls', 'phase1', 'phase2', 'factor', 'divisor', 'out'] or [ast.unparse(d) for d in a.defaults] != ['None'] * 4 \
       or a.posonlyargs or a.vararg or a.kwarg or a.kwonlyargs:
        raise Unsupported('signature of from_angles')
    body = nodoc(fn)
    # 1. phase1, imaginary = check_imaginary(phase1)
    if not is_src(body[0], 'phase1, imaginary = check_imaginary(phase1)'):
        raise Unsupported('from_angles: first statement')
    flag = 'imaginary'
    lines = ['match check_imaginary phase1 with None => None | Some (phase1, imaginary) =>']
    closers = 1
    i = 1
    seen = []
    while i < len(body) and isinstance(body[i], ast.If) and isinstance(body[i].test, ast.Compare) and isinstance(body[i].test.ops[0], ast.IsNot) \
            and isinstance(body[i].test.left, ast.Name) and body[i].test.left.id in ('phase2', 'factor', 'divisor') and not body[i].orelse \
            and isinstance(body[i].test.comparators[0], ast.Constant) and body[i].test.comparators[0].value is None:
        o = body[i].test.left.id
        if o in seen:
            raise Unsupported('from_angles: argument handled twice: ' + o)
        seen.append(o)
        blk = body[i].body
        t = blk[0]
        if not (isinstance(t, ast.Assign) and isinstance(t.targets[0], ast.Tuple) and len(t.targets[0].elts) == 2
                and t.targets[0].elts[0].id == o and is_src(t.value, f'check_imaginary({o})')):
            raise Unsupported('from_angles: block of ' + o)
        fl = t.targets[0].elts[1].id
        names = {flag, fl}
        inner = []
        changes_flag = False
        for st in blk[1:]:
            if isinstance(st, ast.If) and not st.orelse and len(st.body) == 1 and isinstance(st.body[0], ast.Raise):
                inner.append(f'if {bexpr(st.test, names)} then None else')
            elif isinstance(st, ast.If) and not st.orelse and len(st.body) == 1 and is_src(st.body[0], f'{o} = -{o}'):
                inner.append(f'let {o} := if {bexpr(st.test, names)} then (- {o})%float else {o} in')
            elif isinstance(st, ast.AugAssign) and isinstance(st.op, ast.BitXor) and isinstance(st.target, ast.Name) and st.target.id == flag:
                inner.append(f'let {flag} := xorb {flag} {bexpr(st.value, names)} in')
                changes_flag = True
            else:
                raise Unsupported('from_angles: statement in the block of ' + o + ': ' + ast.unparse(st))
        if changes_flag:
            lines.append(f'match (match {o} with None => Some (None, {flag}) | Some {o} => match check_imaginary {o} with None => None | Some ({o}, {fl}) =>')
            lines += ['    ' + x for x in inner]
            lines.append(f'    Some (Some {o}, {flag}) end end) with None => None | Some ({o}, {flag}) =>')
        else:
            lines.append(f'match (match {o} with None => Some None | Some {o} => match check_imaginary {o} with None => None | Some ({o}, {fl}) =>')
            lines += ['    ' + x for x in inner]
            lines.append(f'    Some (Some {o}) end end) with None => None | Some {o} =>')
        closers += 1
        i += 1
    if seen != ['phase2', 'factor', 'divisor']:
        raise Unsupported('from_angles: expected blocks for phase2, factor, divisor in that order, got ' + repr(seen))
    rest = body[i:]
    if len(rest) != 8:
        raise Unsupported('from_angles: tail has %d statements' % len(rest))
    if not is_src(rest[0], 'phase1_value = phase1.to_value(cls._unit)'):
        raise Unsupported('from_angles: phase1_value')
    lines.append('let phase1_value := phase1 in')
    if not is_src(rest[1], 'if phase2 is None:\n    phase2_value = 0.0\nelse:\n    phase2_value = phase2.to_value(cls._unit)'):
        raise Unsupported('from_angles: phase2_value')
    lines.append('let phase2_value := match phase2 with None => 0%float | Some phase2 => phase2 end in')
    c = rest[2]
    if not (isinstance(c, ast.Assign) and is_src(c.value, 'day_frac(phase1_value, phase2_value, factor=factor, divisor=divisor)')
            and isinstance(c.targets[0], ast.Tuple) and [e.id for e in c.targets[0].elts] == ['count', 'fraction']):
        raise Unsupported('from_angles: day_frac call')
    lines.append("let '(count, fraction) := gen_day_frac phase1_value phase2_value factor divisor in")
    if not is_src(rest[3], 'if out is None:\n    value = np.empty(count.shape, cls._phase_dtype)\n    out = value.view(cls)\nelse:\n    value = out.view(np.ndarray)'):
        raise Unsupported('from_angles: output allocation')
    for st, txt in zip(rest[4:], ['value["int"] = count', 'value["frac"] = fraction', 'out.imaginary = imaginary', 'return out']):
        if not is_src(st, txt):
            raise Unsupported('from_angles: ' + txt)
    lines.append('Some {| p_int := count; p_frac := fraction; p_imag := imaginary |}')
    lines.append(' '.join(['end'] * closers) + '.')
    return ('Definition gen_from_angles (phase1 : num) (phase2 factor divisor : option num) : option ph :=\n  ' + '\n  '.join(lines))


def generate_ufunc(tree):
    fn = find_method(tree, 'Phase', '__array_ufunc__')
    body = nodoc(fn)
    chain = [s for s in body if isinstance(s, ast.If) and 'np.add' in ast.unparse(s.test)]
    if len(chain) != 1:
        raise Unsupported('__array_ufunc__: the branch chain')
    branches = {}
    node = chain[0]
    while True:
        branches[ast.unparse(node.test)] = node.body
        if len(node.orelse) == 1 and isinstance(node.orelse[0], ast.If):
            node = node.orelse[0]
        else:
            if node.orelse:
                raise Unsupported('__array_ufunc__: unexpected else')
            break

    def get(test):
        for k, v in branches.items():
            if is_src(ast.parse(k, mode='eval').body, test):
                return v
        raise Unsupported('__array_ufunc__: no branch with test  ' + test)

    def item(n, who):
        """<phase>["int"|"frac"] -> num term"""
        if isinstance(n, ast.Subscript) and isinstance(n.slice, ast.Constant) and n.slice.value in ('int', 'frac') and ast.unparse(n.value) in who:
            p = who[ast.unparse(n.value)]
            return p, n.slice.value
        return None

    def numex(n, who, fn_name=None):
        it = item(n, who)
        if it:
            p, k = it
            return f'(part (p_imag {p}) (p_{k} {p}))'
        if isinstance(n, ast.UnaryOp) and isinstance(n.op, ast.USub):
            return f'(nneg {numex(n.operand, who, fn_name)})'
        if isinstance(n, ast.Call) and isinstance(n.func, ast.Name) and n.func.id == 'function' and fn_name and len(n.args) == 2 and not n.keywords:
            return f'({fn_name} {numex(n.args[0], who, fn_name)} {numex(n.args[1], who, fn_name)})'
        raise Unsupported('phase expression ' + ast.unparse(n))

    def fa_call(n, kws):
        if not (isinstance(n, ast.Call) and ast.unparse(n.func) == 'self.from_angles' and len(n.args) == 2):
            raise Unsupported('expected a call of self.from_angles: ' + ast.unparse(n))
        k = {x.arg: x.value for x in n.keywords}
        if set(k) != set(kws) | {'out'} or not is_src(k['out'], 'phase_out'):
            raise Unsupported('keywords of from_angles: ' + ast.unparse(n))
        return n.args, k
    out = []
    # add / subtract
    b = get('function in {np.add, np.subtract} and basic and (out is None)')
    if len(b) != 2 or not is_src(b[0], 'try:\n    phases = [Phase(input_, copy=False, subok=True) for input_ in inputs]\nexcept Exception:\n    return NotImplemented'):
        raise Unsupported('add/subtract branch')
    iff = b[1]
    if not (isinstance(iff, ast.If) and is_src(iff.test, 'phases[0].imaginary == phases[1].imaginary') and not iff.orelse and len(iff.body) == 1
            and isinstance(iff.body[0], ast.Return)):
        raise Unsupported('add/subtract branch: condition')
    args, _ = fa_call(iff.body[0].value, [])
    who = {'phases[0]': 'pa', 'phases[1]': 'pb'}
    out.append(f'Definition gen_addsub_args (f : num -> num -> num) (pa pb : ph) : num * num := ({numex(args[0], who, "f")}, {numex(args[1], who, "f")}).')
    # comparisons
    b = get('function in COMPARISON_UFUNCS and basic')
    if len(b) != 3 or not is_src(b[0], 'phases = list(inputs)') or \
       not is_src(b[1], 'try:\n    phases[1 - i_self] = Phase(inputs[1 - i_self], copy=False, subok=True)\nexcept Exception:\n    return NotImplemented'):
        raise Unsupported('comparison branch')
    iff = b[2]
    if not (isinstance(iff, ast.If) and is_src(iff.test, 'phases[0].imaginary == phases[1].imaginary') and not iff.orelse and len(iff.body) == 2
            and isinstance(iff.body[0], ast.Assign) and is_src(iff.body[1], 'return getattr(function, method)(diff, 0, **kwargs)')
            and ast.unparse(iff.body[0].targets[0]) == 'diff'):
        raise Unsupported('comparison branch: body')

    def fex(n):
        it = item(n, who)
        if it:
            return f'(p_{it[1]} {it[0]})'
        if isinstance(n, ast.BinOp) and isinstance(n.op, (ast.Add, ast.Sub)):
            return f'({fex(n.left)} {"+" if isinstance(n.op, ast.Add) else "-"} {fex(n.right)})'
        raise Unsupported('difference expression ' + ast.unparse(n))
    out.append(f'Definition gen_cmp_diff (pa pb : ph) : float := {fex(iff.body[0].value)}%float.')
    # multiply / divide
    b = get('(function is np.multiply or (function is np.divide and i_self == 0)) and basic_phase_out')
    if len(b) != 1 or not isinstance(b[0], ast.Try) or len(b[0].body) != 2 or not is_src(b[0].body[0], 'other = u.Quantity(inputs[1 - i_self], u.dimensionless_unscaled, copy=None).value'):
        raise Unsupported('multiply/divide branch')
    iff = b[0].body[1]
    if not (isinstance(iff, ast.If) and is_src(iff.test, 'function is np.multiply') and len(iff.body) == 1 and len(iff.orelse) == 1
            and isinstance(iff.body[0], ast.Return) and isinstance(iff.orelse[0], ast.Return)):
        raise Unsupported('multiply/divide branch: body')
    who = {'self': 'p'}
    for name, ret in (('mul', iff.body[0]), ('div', iff.orelse[0])):
        n = ret.value
        if not (isinstance(n, ast.Call) and ast.unparse(n.func) == 'self.from_angles' and len(n.args) == 2):
            raise Unsupported(name + ': from_angles call')
        k = {x.arg: x.value for x in n.keywords}
        if set(k) - {'factor', 'divisor'} != {'out'} or not is_src(k['out'], 'phase_out') or len(k) != 2:
            raise Unsupported(name + ': keywords')
        fac = 'Some other' if 'factor' in k and is_src(k['factor'], 'other') else 'None'
        div = 'Some other' if 'divisor' in k and is_src(k['divisor'], 'other') else 'None'
        if (fac, div) == ('None', 'None'):
            raise Unsupported(name + ': the other operand is not passed on')
        out.append(f'Definition gen_{name}_args (p : ph) (other : num) : num * num * option num * option num := '
                   f'({numex(n.args[0], who)}, {numex(n.args[1], who)}, {fac}, {div}).')
    # positive / negative
    for name, test in (('pos', 'function is np.positive and basic_phase_out'), ('neg', 'function is np.negative and basic_phase_out')):
        b = get(test)
        if len(b) != 1 or not isinstance(b[0], ast.Return):
            raise Unsupported(name + ' branch')
        args, _ = fa_call(b[0].value, [])
        out.append(f'Definition gen_{name}_args (p : ph) : num * num := ({numex(args[0], who)}, {numex(args[1], who)}).')
    # absolute
    b = get('function in {np.absolute, np.fabs} and basic_phase_out')
    if len(b) != 2 or not is_src(b[0], 'v = self.view(np.ndarray)') or not isinstance(b[1], ast.Return):
        raise Unsupported('absolute branch')
    args, k = fa_call(b[1].value, ['factor'])

    def vq(n):
        for key in ('int', 'frac'):
            if is_src(n, f'u.Quantity(v["{key}"], u.cycle, copy=False)'):
                return f'(NReal (p_{key} p))'
        raise Unsupported('absolute: argument ' + ast.unparse(n))
    f = k['factor']
    if not (isinstance(f, ast.Call) and ast.unparse(f.func) == 'np.sign' and len(f.args) == 1):
        raise Unsupported('absolute: factor')

    def vf(n):
        if isinstance(n, ast.Subscript) and ast.unparse(n.value) == 'v' and isinstance(n.slice, ast.Constant) and n.slice.value in ('int', 'frac'):
            return f'(p_{n.slice.value} p)'
        if isinstance(n, ast.BinOp) and isinstance(n.op, (ast.Add, ast.Sub)):
            return f'({vf(n.left)} {"+" if isinstance(n.op, ast.Add) else "-"} {vf(n.right)})'
        raise Unsupported('absolute: sign argument ' + ast.unparse(n))
    out.append(f'Definition gen_abs_args (p : ph) : num * num * num := ({vq(args[0])}, {vq(args[1])}, NReal (fsign {vf(f.args[0])}%float)).')
    return out


def generate_divmod(tree):
    """the floor_divide / remainder / divmod branch of Phase.__array_ufunc__ -> gen_divmod (scalar lane)"""
    fn = find_method(tree, 'Phase', '__array_ufunc__')
    br = None
    for n in ast.walk(fn):
        if isinstance(n, ast.If) and is_src(n.test, 'function in {np.floor_divide, np.remainder, np.divmod} and basic_real'):
            br = n.body
    if br is None:
        raise Unsupported('divmod branch not found')
    if len(br) != 8:
        raise Unsupported('divmod branch: expected eight statements')
    if not is_src(br[0], 'fd_out = None'):
        raise Unsupported('divmod branch: fd_out')
    if not (isinstance(br[1], ast.If) and is_src(br[1].test, 'out is not None')):
        raise Unsupported('divmod branch: out handling')
    # the phase-level expressions
    def floor_div(n, env):
        if isinstance(n, ast.Call) and ast.unparse(n.func) == 'np.floor_divide' and len(n.args) == 2 and is_src(n.args[1], 'inputs[1]') \
           and isinstance(n.args[0], ast.Attribute) and n.args[0].attr == 'cycle' and ast.unparse(n.args[0].value) in env \
           and all(k.arg == 'out' for k in n.keywords):
            return f'np_floor_divide (cyc {env[ast.unparse(n.args[0].value)]}) d'
        raise Unsupported('floor_divide expression ' + ast.unparse(n))

    def corr_of(n, env):
        if isinstance(n, ast.Call) and ast.unparse(n.func) == 'Phase.from_angles' and len(n.args) == 1 and is_src(n.args[0], 'inputs[1]'):
            k = {x.arg: x.value for x in n.keywords}
            if set(k) == {'factor', 'out'} and isinstance(k['factor'], ast.Name) and k['factor'].id in env:
                return f'from_angles (NReal d) None (Some (NReal {env[k["factor"].id]})) None'
        raise Unsupported('correction expression ' + ast.unparse(n))

    def sub_of(n, env):
        if isinstance(n, ast.Call) and ast.unparse(n.func) == 'np.subtract' and len(n.args) == 2 and all(ast.unparse(a) in env for a in n.args) \
           and all(k.arg == 'out' for k in n.keywords):
            a, b = (env[ast.unparse(x)] for x in n.args)
            return f'op_addsub true (OPh {a}) (OPh {b})'
        raise Unsupported('subtraction expression ' + ast.unparse(n))

    def seq(stmts_, env, tail):
        """statements -> nested matches; tail(env) gives the final term"""
        if not stmts_:
            return tail(env)
        st, rest = stmts_[0], stmts_[1:]
        if isinstance(st, ast.Assign) and isinstance(st.targets[0], ast.Name):
            x, v = st.targets[0].id, st.value
            fn_ = ast.unparse(v.func) if isinstance(v, ast.Call) else ''
            env2 = dict(env)
            env2[x] = x
            if fn_ == 'np.floor_divide':
                return f'let {x} := {floor_div(v, env)} in\n  ' + seq(rest, env2, tail)
            if fn_ == 'Phase.from_angles':
                return f'match {corr_of(v, env)} with None => None | Some {x} =>\n  ' + seq(rest, env2, tail) + ' end'
            if fn_ == 'np.subtract':
                return f'match {sub_of(v, env)} with RPh {x} =>\n  ' + seq(rest, env2, tail) + ' | _ => None end'
            raise Unsupported('divmod branch: assignment ' + ast.unparse(st))
        if isinstance(st, ast.AugAssign) and isinstance(st.op, ast.Add) and isinstance(st.target, ast.Name) and st.target.id in env \
           and isinstance(st.value, ast.Name) and st.value.id in env:
            x = st.target.id
            return f'let {x} := ({env[x]} + {env[st.value.id]})%float in\n  ' + seq(rest, env, tail)
        if isinstance(st, ast.If) and not st.orelse and isinstance(st.test, ast.Call) and ast.unparse(st.test.func) == 'np.count_nonzero' \
           and len(st.test.args) == 1 and isinstance(st.test.args[0], ast.Name) and st.test.args[0].id in env:
            c = env[st.test.args[0].id]
            return (f'if negb ({c} =? 0)%float then\n  ' + seq(list(st.body) + rest, env, tail) + '\n  else\n  ' + seq(rest, env, tail))
        raise Unsupported('divmod branch: statement ' + ast.unparse(st))
    core = br[2:7]
    ret = br[7]
    if not (isinstance(ret, ast.If) and is_src(ret, 'if function is np.floor_divide:\n    return fd\nelif function is np.remainder:\n    return remainder\nelse:\n    return fd, remainder')):
        raise Unsupported('divmod branch: returns')
    term = seq(core, {'self': 'p'}, lambda env: f'Some ({env["fd"]}, {env["remainder"]})')
    return 'Definition gen_divmod (p : ph) (d : float) : option (float * ph) :=\n  ' + term + '.'


def generate_order(tree):
    """cycle, argmin, argmax, argsort, min, max, ptp, sort of Phase -> definitions over one lane (a list of phases)"""
    out = []
    fn = find_method(tree, 'Phase', 'cycle')
    b = nodoc(fn)
    if len(b) != 1 or not isinstance(b[0], ast.Return):
        raise Unsupported('Phase.cycle')

    def fex(n, env):
        if isinstance(n, ast.Subscript) and is_src(n.value, 'self') and isinstance(n.slice, ast.Constant) and n.slice.value in ('int', 'frac'):
            return f'(p_{n.slice.value} q)'
        if isinstance(n, ast.Name) and n.id in env:
            return env[n.id]
        if isinstance(n, ast.BinOp) and isinstance(n.op, (ast.Add, ast.Sub)):
            return f'({fex(n.left, env)} {"+" if isinstance(n.op, ast.Add) else "-"} {fex(n.right, env)})'
        raise Unsupported('lane expression ' + ast.unparse(n))
    out.append(f'Definition gen_cycle (q : ph) : float := {fex(b[0].value, {})}%float.')
    for name in ('argmin', 'argmax'):
        fn = find_method(tree, 'Phase', name)
        a = fn.args
        if [x.arg for x in a.args] != ['self', 'axis', 'out']:
            raise Unsupported('signature of ' + name)
        b = nodoc(fn)
        if len(b) != 3:
            raise Unsupported(name + ': expected three statements')
        red = {'np.min(self.cycle, axis, keepdims=True)': 'fmin_list', 'np.max(self.cycle, axis, keepdims=True)': 'fmax_list'}
        rname = None
        for k, v in red.items():
            if is_src(b[0], 'approx = ' + k):
                rname = v
        if rname is None:
            raise Unsupported(name + ': reduction ' + ast.unparse(b[0]))
        if not (isinstance(b[1], ast.Assign) and ast.unparse(b[1].targets[0]) == 'dt'):
            raise Unsupported(name + ': dt')
        dt = fex(b[1].value, {'approx': 'approx'})
        pick = 'argmin_f' if is_src(b[2], 'return dt.argmin(axis, out)') else 'argmax_f' if is_src(b[2], 'return dt.argmax(axis, out)') else None
        if pick is None:
            raise Unsupported(name + ': return ' + ast.unparse(b[2]))
        out.append(f'Definition gen_{name} (l : list ph) : nat :=\n  match l with nil => O | p :: _ =>\n    let approx := {rname} (map gen_cycle l) (gen_cycle p) in\n'
                   f'    {pick} (map (fun q => {dt}%float) l) end.')
    # argsort: the two stored doubles as lexsort keys (the LAST key is the primary one)
    fn = find_method(tree, 'Phase', 'argsort')
    b = nodoc(fn)
    if len(b) != 2 or not is_src(b[0], 'v = self.view(np.ndarray)'):
        raise Unsupported('argsort: the keys are not the stored doubles of the phase')
    iff = b[1]
    if not (isinstance(iff, ast.If) and is_src(iff.test, 'axis is None') and len(iff.body) == 1 and len(iff.orelse) == 1):
        raise Unsupported('argsort: lexsort calls')
    order = None
    for prim, sec in (('int', 'frac'), ('frac', 'int')):
        if is_src(iff.body[0], f'return np.lexsort((v["{sec}"].ravel(), v["{prim}"].ravel()))') and \
           is_src(iff.orelse[0], f'return np.lexsort(keys=(v["{sec}"], v["{prim}"]), axis=axis)'):
            order = (prim, sec)
    if order is None:
        raise Unsupported('argsort: lexsort keys')
    out.append(f'(* (primary key, secondary key) of np.lexsort *)\nDefinition gen_sort_keys (q : ph) : float * float := (p_{order[0]} q, p_{order[1]} q).')
    # min / max / ptp / sort through the index functions
    for name, arg in (('min', 'argmin'), ('max', 'argmax')):
        b = nodoc(find_method(tree, 'Phase', name))
        if len(b) != 2 or not is_src(b[1], f'return self._take_along_axis(self.{arg}(axis), axis, keepdims)'):
            raise Unsupported(name + ': body')
        out.append(f'Definition gen_p{name} (l : list ph) : ph := nth_ph l (gen_{arg} l).')
    b = nodoc(find_method(tree, 'Phase', 'ptp'))
    if len(b) != 2 or not is_src(b[1], 'return self.max(axis, keepdims=keepdims) - self.min(axis, keepdims=keepdims)'):
        raise Unsupported('ptp: body')
    out.append('Definition gen_ptp (l : list ph) : res := op_addsub true (OPh (gen_pmax l)) (OPh (gen_pmin l)).')
    b = nodoc(find_method(tree, 'Phase', 'sort'))
    if len(b) != 1 or not is_src(b[0], 'return self._take_along_axis(self.argsort(axis), axis, keepdims=True)'):
        raise Unsupported('sort: body')
    out.append('Definition gen_sort_uses_argsort : bool := true.')
    return out


_generate_df = generate


def generate(repo='/repo'):
    text = _generate_df(repo)
    tree = ast.parse(pathlib.Path(repo, 'pulsarbat', 'pulsar', 'phase.py').read_text())
    return text + generate_from_angles(tree) + '\n' + '\n'.join(generate_ufunc(tree)) + '\n'


STRING_PINS = {'_parse_string': 'e692a51334fabe0019c35a3713864569', '__repr__': 'b0659ca355e4b0afc95875a66b064b20',
               '__str__': 'd0e656be111b957a1253bbd0c05d55f6', '__format__': 'cc8934ef622fda5f87d0251034f07a16',
               'to_string': '7ecfc4595c8662001c8445c9eeec8cdf', 'from_string': '1ba41fd05f6a4456b951466f496cc16b'}


def generate_strings(tree):
    """the decimal I/O of Phase (character-exact model Model/DecStr.v): whole-function pins by syntax-tree hash"""
    import os
    sys.path.insert(0, os.path.dirname(os.path.dirname(os.path.abspath(__file__))))
    from translate.pinhash import fn_hash
    found = {}
    for n in tree.body:
        if isinstance(n, ast.FunctionDef) and n.name in STRING_PINS:
            found[n.name] = fn_hash(n)
        if isinstance(n, ast.ClassDef) and n.name == 'Phase':
            for m in n.body:
                if isinstance(m, ast.FunctionDef) and m.name in STRING_PINS:
                    found[m.name] = fn_hash(m)
    out = []
    for k, h in STRING_PINS.items():
        if k not in found:
            raise Unsupported('phase.py: ' + k + ' not found')
        out.append(f'Definition gen_str_{k.strip("_")}_as_modelled : bool := {"true" if found[k] == h else "false"}.')
    return out


def generate_ord(repo='/repo'):
    tree = ast.parse(pathlib.Path(repo, 'pulsarbat', 'pulsar', 'phase.py').read_text())
    head = ['(* GENERATED by translate/py_float2coq.py from pulsar/phase.py (divmod branch, ordering methods) -- do not edit *)',
            'From Coq Require Import ZArith Bool List PrimFloat.', 'From PB Require Import Model.Phase2 Model.PhaseDivmod Model.PhaseOrd.', 'Open Scope float_scope.']
    return '\n'.join(head + [generate_divmod(tree)] + generate_order(tree) + generate_strings(tree)) + '\n'


if __name__ == '__main__':
    sys.stdout.write(generate(sys.argv[1] if len(sys.argv) > 1 else '/repo'))
    sys.stdout.write(generate_ord(sys.argv[1] if len(sys.argv) > 1 else '/repo'))
