(* probe: concatenate along time is the inverse of splitting (C10), for every tolerance eps >= 0 *)
Require Import PySlice.
From Coq Require Import ZArith QArith Qabs Lia Lqa List Bool.
Import ListNotations.
Open Scope Z_scope.

(* a piece: time ledger + which original samples it holds, [src, src + len) *)
Record piece := { pl : ledger ; src : Z }.

(* the ref_st loop of concatenate (axis = time); None = ValueError("not contiguous") *)
Fixpoint scan (eps : Q) (r : Q) (ref : option Q) (n : Z) (ps : list piece) : option (option Q) :=
  match ps with
  | [] => Some ref
  | p :: ps' =>
    match t0 (pl p), ref with
    | None, _ => scan eps r ref (n + len (pl p)) ps'
    | Some t, None => scan eps r (Some (t - inject_Z n / r)%Q) (n + len (pl p)) ps'
    | Some t, Some rf =>
      if Qle_bool (Qabs (rf + inject_Z n / r - t)) eps
      then scan eps r ref (n + len (pl p)) ps' else None
    end
  end.

Definition total_len (ps : list piece) : Z := fold_right (fun p a => len (pl p) + a) 0 ps.

Definition concat_time (eps : Q) (ps : list piece) : option ledger :=
  match ps with
  | [] => None
  | p0 :: _ =>
    if forallb (fun p => Qeq_bool (rate (pl p)) (rate (pl p0))) ps then
      match scan eps (rate (pl p0)) None 0 ps with
      | Some ref => Some {| t0 := ref; rate := rate (pl p0); len := total_len ps |}
      | None => None
      end
    else None
  end.

(* splitting: cut points c0 <= c1 <= ... ; keep.(i) says whether piece i keeps its start time *)
Fixpoint split_at (l : ledger) (c0 : Z) (cuts : list (Z * bool)) : list piece :=
  match cuts with
  | [] => []
  | (c1, keep) :: cs =>
    {| pl := {| t0 := if keep then match t0 l with None => None | Some t => Some (t + inject_Z c0 / rate l)%Q end else None;
                rate := rate l; len := c1 - c0 |};
       src := c0 |} :: split_at l c1 cs
  end.

Fixpoint sorted_from (c0 : Z) (cuts : list (Z * bool)) : Prop :=
  match cuts with [] => True | (c1, _) :: cs => c0 <= c1 /\ sorted_from c1 cs end.
Fixpoint last_cut (c0 : Z) (cuts : list (Z * bool)) : Z :=
  match cuts with [] => c0 | (c1, _) :: cs => last_cut c1 cs end.

Definition ref_ok (l : ledger) (ref : option Q) : Prop :=
  match ref with None => True | Some rf => match t0 l with Some t => (rf == t)%Q | None => False end end.

Lemma scan_split eps l : (0 <= eps)%Q -> (0 < rate l)%Q ->
  forall cuts c0 ref, ref_ok l ref ->
  exists ref', scan eps (rate l) ref c0 (split_at l c0 cuts) = Some ref' /\ ref_ok l ref' /\
               (ref' = None -> ref = None /\ (t0 l = None \/ forall c k, In (c, k) cuts -> k = false)).
Proof.
  intros He Hr. induction cuts as [|[c1 keep] cs IH]; intros c0 ref Hok.
  - exists ref. simpl. split; [reflexivity|]. split; [exact Hok|]. intros ->. split; [reflexivity|]. right. intros c k [].
  - cbn [split_at scan pl t0 len].
    destruct keep; [destruct (t0 l) as [t|] eqn:Et|].
    + (* piece keeps its start *)
      destruct ref as [rf|].
      * simpl in Hok. rewrite Et in Hok.
        assert (Hc : Qle_bool (Qabs (rf + inject_Z c0 / rate l - (t + inject_Z c0 / rate l))) eps = true).
        { apply Qle_bool_iff. setoid_replace (rf + inject_Z c0 / rate l - (t + inject_Z c0 / rate l))%Q with 0%Q.
          - exact He.
          - rewrite Hok. field. lra. }
        rewrite Hc. replace (c0 + (c1 - c0)) with c1 by ring.
        destruct (IH c1 (Some rf)) as (ref' & E & O & Nn). { simpl. rewrite Et. exact Hok. }
        exists ref'. split; [exact E|]. split; [exact O|]. intros ->. destruct (Nn eq_refl) as [D _]. discriminate.
      * replace (c0 + (c1 - c0)) with c1 by ring.
        destruct (IH c1 (Some (t + inject_Z c0 / rate l - inject_Z c0 / rate l)%Q)) as (ref' & E & O & Nn).
        { simpl. rewrite Et. field. lra. }
        exists ref'. split; [exact E|]. split; [exact O|]. intros ->. destruct (Nn eq_refl) as [D _]. discriminate.
    + replace (c0 + (c1 - c0)) with c1 by ring.
      destruct (IH c1 ref Hok) as (ref' & E & O & Nn). exists ref'. split; [exact E|]. split; [exact O|].
      intros H. destruct (Nn H) as [D _]. split; [exact D|]. left. reflexivity.
    + replace (c0 + (c1 - c0)) with c1 by ring.
      destruct (IH c1 ref Hok) as (ref' & E & O & Nn). exists ref'. split; [exact E|]. split; [exact O|].
      intros H. destruct (Nn H) as [D [T|F]]. split; [exact D|]. 
      * left; exact T.
      * split; [exact D|]. right. intros c k [Eq|I]; [congruence|eapply F; exact I].
Qed.

Lemma total_len_split l : forall cuts c0, total_len (split_at l c0 cuts) = last_cut c0 cuts - c0.
Proof. induction cuts as [|[c1 k] cs IH]; intros c0; simpl; [lia|]. rewrite IH. lia. Qed.

Lemma rates_split l p0 : rate (pl p0) = rate l -> forall cuts c0,
  forallb (fun p => Qeq_bool (rate (pl p)) (rate (pl p0))) (split_at l c0 cuts) = true.
Proof. intros E. induction cuts as [|[c1 k] cs IH]; intros c0; simpl; [reflexivity|].
  rewrite IH, E. rewrite andb_true_r. apply Qeq_bool_iff. reflexivity. Qed.

Theorem split_concat_time eps l c1 k cs :
  (0 <= eps)%Q -> (0 < rate l)%Q -> last_cut 0 ((c1, k) :: cs) = len l ->
  exists l', concat_time eps (split_at l 0 ((c1, k) :: cs)) = Some l' /\
    len l' = len l /\ rate l' = rate l /\ ref_ok l (t0 l') /\
    (t0 l' = None -> t0 l = None \/ forall c b, In (c, b) ((c1, k) :: cs) -> b = false).
Proof.
  intros He Hr Hlast. unfold concat_time.
  set (cuts := (c1, k) :: cs) in *.
  destruct (split_at l 0 cuts) as [|p0 rest] eqn:Hs; [discriminate|].
  assert (Hp0 : rate (pl p0) = rate l) by (unfold cuts in Hs; simpl in Hs; injection Hs as <- _; reflexivity).
  rewrite <- Hs. rewrite (rates_split l p0 Hp0 cuts 0). rewrite Hp0.
  destruct (scan_split eps l He Hr cuts 0 None I) as (ref' & E & O & Nn). rewrite E.
  eexists. split; [reflexivity|]. cbn [len rate t0]. split; [rewrite total_len_split; lia|].
  split; [reflexivity|]. split; [exact O|]. intros H. destruct (Nn H) as [_ D]. exact D.
Qed.
Print Assumptions split_concat_time.
