"""Writes /verif/MANIFEST.json from the table below (kept in one place so it always validates)."""
import json
CHECKS = {}
NA = {}

def check(pid, text, note, technique, design_ref, category='proof'):
    CHECKS[pid] = dict(
        property_id=pid, quick_cmd=f'./check {pid} --tier quick', thorough_cmd=f'./check {pid} --tier thorough',
        evidence_file=f'/verif/evidence/{pid}.json', replay_cmd_template=f'./check {pid} --replay {{path}}',
        engine='coq-proof+correspondence',
        level_claimed=dict(category=category, text=text, design_ref=design_ref), level_note=note, technique=technique)

check('C18',
      'Coq theorems C18_next / C18_prev (Props/C18.v): for every N >= 0 the Gallina functions GENERATED from '
      'pulsarbat/utils.py by translator T1 terminate within the supplied fuel and return the least / greatest integer '
      '>= / <= N with no prime factor above 7 (0 -> 0); proved by loop invariants directly on the generated loops, '
      'axiom-free. The tie to the code is regeneration on every run plus a differential run of model vs implementation '
      '(exhaustive range and around 7-smooth numbers below 2^62) and an independent-oracle monitor.',
      'fast_len is tied by translation (T6): it is a plain time slice z[:prev_fast_len(len z)] of the signal itself with generated bounds '
      '(C18_generated_crop), so the ledger theorems of C01 apply to it. '
      'Trusted: Coq kernel, translator T1 (Python ast subset -> Gallina over Z), Python int = Z, lru_cache transparent for '
      'pure functions. fast_len on signals: theorem C18_fast_len gives the prefix bound; signal construction/slicing is '
      'covered by C01 and checked here by execution.',
      'machine-checked proof in Coq on code regenerated from source (T1) + model/implementation differential run',
      'DESIGN.md 5 C18')

check('C01',
      'Coq theorems C01_step / C01_pipeline (Props/C01.v, axiom-free): for every ledger (start time or none, rate > 0, length >= 0), '
      'every slice (any bounds, step > 0), fast_len, cropped time shift, whole-sample snippet, dedispersion crops and every finite '
      'pipeline of them, output sample k is input sample off+stride*k with 0 <= off+stride*k < len, carries exactly its absolute '
      'time, rate is divided by the stride, None start stays None, stop = start + len/rate, and contains is the half-open interval. '
      'C01_model_meets_spec links the model to the executable predicate C01_ok that the monitor evaluates on what the implementation '
      'returned; the correspondence run compares model and implementation on random pipelines and a small exhaustive slice sweep.',
      'Hand-written model tied by correspondence; additionally the start-time / sample-rate / step>0 arithmetic of Signal._time_slice '
      '(through which every crop and slice of the library goes) is REGENERATED from core.py by translator T4 on every run and '
      'C01_generated_core proves the model time_slice is built from exactly those generated terms (C01_generated_derived: likewise dt, '
      'time_length and stop_time from their property bodies; C01_generated_contains: contains). The index dispatch of Signal.__getitem__ / '
      'RadioSignal.__getitem__ is regenerated too (Gen/GenGetitem.v); C01_getitem proves that a successful z[index], whatever else the index '
      'holds, is time_slice on item 0, C01_getitem_refuses that a non-slice on the time axis is IndexError. '
      'Trusted: Coq kernel, translator T4, Lib/PySlice = CPython slice.indices, astropy '
      'Time/Quantity = exact rationals within max(50 ps, 4e-15*elapsed); FFT-path ops (time_shift, dedispersion) are observed through '
      'their ledger only; rates 1 mHz - 5 GHz.',
      'machine-checked proof in Coq over an exact-rational ledger model whose slicing arithmetic is regenerated from source (T4) + model/implementation correspondence run (vm_compute)',
      'DESIGN.md 5 C01')
check('C02',
      'Coq theorems (Props/C02.v, axiom-free): the alignment constants of the table GENERATED from core.py are 0, 1/2, 1; labels are '
      'evenly spaced by chan_bw, lie in [min_freq, max_freq] of width nchan*chan_bw; odd nchan forces center; for every accepted '
      'channel slice (and every nesting of slices) label\'(j) = label(lo+j), chan_bw kept, alignment center. Monitor C02_ok / '
      'C02_slice_ok evaluated on the observed channel_freqs etc.; correspondence on all radio classes.',
      'The label formula, bandwidth, band edges and the arithmetic of RadioSignal._freq_slice are REGENERATED from core.py by translator '
      'T4 on every run and C02_generated_label / _edges / _slice / _align prove the model is built from exactly those terms. '
      'The index dispatch of RadioSignal.__getitem__ (Model/Getitem.v) is regenerated as well (C02_generated_getitem; FullStokesSignal.__getitem__ '
      'pinned): C02_getitem (a successful index is freq_slice on item 1), C02_trailing_items_irrelevant (items beyond the labelled axes never '
      'influence time or frequency labels), C02_time_only_keeps_band, C02_getitem_refuses; run against z[index] for random index tuples on all classes. '
      'Trusted: Coq kernel, translators T2 (align table + textual pin of the label formula) and T4, float64 label arithmetic within '
      '2^-49*(|cf|+n*bw); domain |cf|/bw <= 2^30.',
      'machine-checked proof in Coq (Q) with constants (T2) and band arithmetic (T4) regenerated from source + correspondence run',
      'DESIGN.md 5 C02')

check('C10',
      'Coq theorems (Props/C10.v, axiom-free) about a model that mirrors concatenate check by check: for every eps >= 0, rt >= 0, '
      'every cut list (repeats, end points, empty pieces) and every erasure pattern, concatenating the time-split pieces returns class, '
      'length, rate, start time and channel labels of the original; pieces of another class give TypeError; a piece displaced by >= 1 '
      'sample (spacing > eps) or >= 1 channel (rt < 1) gives ValueError; frequency-axis split/concat returns ledger and labels; '
      'joining a first result with further pieces has the same outcome as joining all at once (C10_assoc_left, arbitrary pieces); pieces of a '
      'split signal joined in ANY runs and the runs then joined give the whole signal (C10_any_grouping, C10_pieces, any depth); an ACCEPTED '
      'list has one class, close rates / channel widths, every timed piece within eps of its place, contiguous joins / equal labels '
      '(C10_accepted_*), hence a displaced, re-rated, re-labelled, wrong-length or off-start piece ANYWHERE in a list of any length is '
      'rejected (C10_reject_*_anywhere). The correspondence run evaluates the model on the exact observations of the very pieces given '
      'to pb.concatenate (two-level groupings included).',
      'The bodies of both start-time loops, the frequency-contiguity difference, the off-axis label tolerance, the labels feeding the new '
      'centre frequency and the alignment name are REGENERATED from transforms.concatenate by translator T12 on every run (its other '
      'statements pinned, none may be left over); C10_generated proves the model, at the tolerances the code uses, equal to the function '
      'rebuilt from them. '
      'Trusted: Coq kernel; astropy isclose semantics as transcribed (Time.isclose atol = 2 eps days, u.isclose rtol 1e-5); '
      'np.concatenate = list append; domain |cf|/bw <= 2^30, rates < 26 GHz.',
      'machine-checked proof in Coq (Q) of a check-by-check model + correspondence run (vm_compute)',
      'DESIGN.md 5 C10')

check('C12',
      'Coq theorems (Props/C12.v, axiom-free) on a model mirroring snippet line by line (bounds test on the double t+n, int(t), residual '
      'shift, the 1e-8 no-op threshold of time_shift, one-sample crop, re-slice): ValueError exactly when n<0, t<0 or t+n>len; otherwise '
      'exactly n samples, start = start + t/rate exactly (None stays None), window offset floor(t); whole-sample t is the plain slice '
      '(bit-identical data); over C, every n >= 1: the residual shift zero-fills only the cropped last sample and sample k of a tone is the '
      'band-limited continuation of that tone at t + k, the map being linear (C12_value_tone, C12_not_zeroed). PARTIAL: scipy.fft = that DFT '
      'and rounding: fractional snippets are checked numerically against an independent O(N^2) longdouble interpolant (1e-5 max|x|).',
      'The decisions and arithmetic of the model (length check, out-of-bounds test, fractional-start test, shift = i - t, new start, final '
      'slice) are REGENERATED from transforms.snippet by translator T6 on every run; C12_generated proves the model equal to them. '
      'Trusted: Coq kernel + stdlib real-number axioms for the value theorem; scipy.fft = mathematical DFT (validated numerically each run); astropy Time/Quantity within tolerance. Known '
      'finding D12 (boundary requests given as Time/Quantity may raise) is listed in known_findings.json.',
      'machine-checked proof in Coq (Q; values over R/C) + correspondence run + numerical oracle for values',
      'DESIGN.md 5 C12')

check('C05',
      'Coq theorems (Props/C05.v): over Q (axiom-free) the dispersion constant is 1/2.41e-4 (GENERATED literal), the delay of every '
      'frequency of the band lies between the band-edge delays for either sign of DM, every sample retained by the crop '
      '[ceil(-min(0,dtop,dbot)), N-ceil(max(0,dtop,dbot))) has its source inside the input for every frequency of the band, the front '
      'crop is tight, and the crop is a slice whose start time advances by the front crop (C01); over R (Coquelicot) the chirp has unit '
      'modulus, its phase has -delay(f) as derivative (group delay) and chirp(DM)*chirp(-DM) = 1; and the filtering itself, over C for every '
      'length n >= 1, input and bin-frequency assignment (IDFT(DFT x . chirp), the verified DFT of Lib/Dft.v): bin k of the result is bin k '
      'of the input times the transfer function, a tone is multiplied by the transfer function at its own frequency, the map is linear, '
      'two passes compose to the summed DM and DM then -DM (uncropped) returns every sample (C05_spectrum/tone/linear/compose/'
      'roundtrip_uncropped). PARTIAL: scipy.fft = that DFT and the CROPPED two-pass round trip are checked numerically (independent complex128 filter with the '
      'phase computed exactly and reduced mod 1; round trip within the sampled filter\'s leakage). The chirp phase (in cycles, with the '
      'sign of the exponent), the delay in samples, which band edge feeds which delay and the crop start/stop are REGENERATED from '
      'dedispersion.py by translator T5 (unit algebra) on every run; C05_generated_phase/_delay/_crop prove the model equal to them.',
      'Trusted: Coq kernel + stdlib real-number axioms (sig_forall_dec, sig_not_dec, functional_extensionality_dep, classic) for the R '
      'part; T2, T5; scipy.fft/libm/astropy validated numerically; chirp tolerance 1.2e-7 + 8 pi 2^-50 |phase|.',
      'machine-checked proof in Coq (Q and R) with phase / crop arithmetic regenerated from source (T5) + correspondence run (exact phase/crop) + numerical oracle',
      'DESIGN.md 5 C05')
check('C06',
      'Coq theorems (Props/C06.v, axiom-free, over Q): the f^-2 law with K = 1/2.41e-4 from the GENERATED literal, antisymmetry, '
      'additivity along chains, sample_delay = delay*rate, round = nearest (half to even, monotone); for the incoherent model (rounded '
      'delays, crop_before, per-channel CPython slices, stack, new start): every returned sample (k,i) has source k+d\'_i inside the '
      'input, out[T,i] = in[T + d_i/rate, i] in absolute time, None start stays None; the needed monotonicity premise is proved for the '
      'delays of every band with positive labels and either sign of DM. The delay formula (seconds and samples, through a unit algebra) '
      'and the integer bookkeeping of incoherent_dedispersion are REGENERATED from dedispersion.py by translator T5 on every run; '
      'C06_generated_delay / C06_generated_incoherent prove the model equal to them.',
      'Trusted: Coq kernel, T2, T5, np.round = half-to-even, np.stack of unequal lengths raises; astropy unit arithmetic within 1e-13; cases '
      'within float noise of a rounding tie are regenerated.',
      'machine-checked proof in Coq (Q) with constant (T2) and delay / crop arithmetic (T5) regenerated from source + correspondence run + source tracing monitor',
      'DESIGN.md 5 C06')

check('C13',
      'Coq theorems (Props/C13.v) over R with s = sqrt 2, about definitions written once over an abstract carrier (Model/Pol.v): both '
      'conversions preserve |a|^2+|b|^2, each undoes the other, identity in the own basis, Stokes from the linear branch are the '
      'documented I,Q,U,V formulas, the circular branch applied to to_circular(x,y) gives the same Stokes, I^2 = Q^2+U^2+V^2, I >= 0, '
      'I = sum of intensities, component names map to indices 0..3 (GENERATED _stokes_ids). The same Gallina terms, instantiated with '
      'primitive binary64 floats, are evaluated by vm_compute against the implementation on sample elements; the monitor evaluates the '
      'documented formulas in longdouble on every element, for NumPy and Dask data.',
      'The formulas of to_intensity / to_linear / to_circular / to_stokes are REGENERATED from core.py by translator T11 on every run over the '
      'same abstract carrier; C13_generated proves the model equal to them for every carrier (R for the theorems, binary64 for the run). '
      'Trusted: Coq kernel, stdlib real-number axioms (sig_forall_dec, sig_not_dec, functional_extensionality_dep, classic), kernel float '
      'primitives for the executing instance, T2; numpy arithmetic within 16-24 ulp of the formulas.',
      'machine-checked proof in Coq (R) of a carrier-generic model + binary64 instance evaluated against the code',
      'DESIGN.md 5 C13')

check('C19',
      'Coq theorems (Props/C19.v): the Hilbert weights exactly as the code assigns them (last write wins) satisfy h(k) + h((N-k) mod N) = 2 '
      'for EVERY N >= 1 and every bin (DC / Nyquist of both parities, N = 1, 2, 3) - axiom-free over Z; the output has ceil(N/2) samples '
      'and sample m reads analytic sample 2m < N; over the complex numbers (Coquelicot C, DFT algebra of Lib/Dft.v with its inversion '
      'theorem) the real part of the analytic signal of every real input equals the input for every N >= 1; (-i)^(2m) = (-1)^m, hence '
      '(-1)^m Re(out m) = x(2m); the whole conversion is linear over C, the analytic signal of the real tone cos(2 pi w j/N) (0 < 2w < N) is the '
      'complex tone at w and the conversion maps it to the tone at w - N/4 cycles per N samples (C19_linear, C19_analytic_tone, C19_tone); '
      'dtype rule. The transform is ONE carrier-generic Gallina term: its binary64 instance is evaluated by vm_compute against the '
      'implementation on lanes of every case. PARTIAL: axis independence and scipy.fft = this DFT are decided by the correspondence run and an '
      'independent O(N^2) longdouble oracle; long single-precision arrays by an FFT-based double-precision monitor.',
      'The Hilbert weights (as the sequence of array writes of the source, the slice write through CPython normalisation), the output length from '
      'the decimation slice, the dtype rule, the decimation step and the direction of the mixing ramp are REGENERATED from utils.real_to_complex by '
      'translator T8 on every run; C19_generated_* prove the closed forms of the model equal to them. '
      'Trusted: Coq kernel, stdlib real-number axioms (sig_forall_dec, sig_not_dec, functional_extensionality_dep, classic), kernel float '
      'primitives (executing instance), scipy.fft = mathematical DFT (validated numerically on every run), float16 input computed in '
      'single precision by scipy. The real-VDIF reader path is exercised by C11.',
      'machine-checked proof in Coq (Z, C) of a carrier-generic model + binary64 instance evaluated against the code + numerical oracle',
      'DESIGN.md 5 C19')

check('C03',
      'Coq theorems (Props/C03.v). Index logic (Z/Q, axiom-free, every N >= 0, every rank and sample shape, every rational shift): the range '
      'the code zeroes for an element with shift a (through CPython slice normalisation) is EXACTLY the set of positions whose source n - a '
      'lies outside [0, N-1] - the first ceil(s) samples for s >= 0, the last ceil(|s|) for s < 0; every valid multi-index of the sample '
      'shape is visited and gets the range of ITS broadcast shift (fewer / length-1 axes included); crop=True keeps exactly the complement '
      'of the union of the zeroed edges and is the C01 ledger slice x[start:max(start, len+stop)]; the model meets the executable clause '
      'zero_ok that the monitor evaluates on the implementation\'s zero mask. Values (complex numbers, Coquelicot, every n >= 1, through the '
      'DFT algebra of Lib/Dft.v): a whole-sample shift returns x(m-s) where 0 <= m-s < n and 0 elsewhere - never a wrapped sample; '
      '|s| >= n gives zero; for any ramp (fractional shifts) a tone at bin k0 is multiplied by the ramp value at k0. PARTIAL: the '
      'fractional-shift values of arbitrary data are compared numerically with an independent O(N^2) longdouble oracle and with the '
      'binary64 instance of the same Gallina term (scipy.fft = DFT is an assumption). The per-element logic of the zero-fill loop, the '
      'start/stop accumulation, the crop window and the sign of the phase ramp are REGENERATED from transforms.time_shift by translator T6 '
      'on every run (every other statement of the function pinned as a syntax tree); C03_generated_* prove the model equal to them.',
      'Trusted: Coq kernel, translator T6, stdlib real-number axioms for the value theorems, kernel floats for the executing instance; numpy broadcasting/'
      'nditer order as transcribed; scipy.fft = DFT validated numerically each run; all-|s| <= 1e-8 shift arrays are returned unchanged '
      'by design (np.allclose early exit) and are outside the zero clause.',
      'machine-checked proof in Coq (Z/Q index logic regenerated from source by T6, C values) + exact zero-mask correspondence (vm_compute) + numerical oracle',
      'DESIGN.md 5 C03')
check('C04',
      'Coq theorems (Props/C04.v): the bins zeroed for an element shifted by a bins are exactly the fftshift-ordered bins j whose source '
      'j - a lies outside the band, for every element of the sample shape incl. scalar and broadcast shifts (index logic shared with C03, '
      'axiom-free); over the complex numbers, every n >= 1: mixing with exp(2 pi i b m/n) is the circular move of the DFT (modulation '
      'theorem) and, after the zero fill, fftshift-ordered bin j holds the input\'s bin j - b or 0 when that is outside the band; '
      '|b| >= n gives an all-zero spectrum. PARTIAL: fractional-bin shifts of arbitrary data, dtype and metadata preservation are decided '
      'by the correspondence run (binary64 instance of the same Gallina term, exact zero-bin table) and an independent longdouble oracle. '
      'The per-element logic of the zero-fill loop and the sign of the mixing ramp are REGENERATED from transforms.freq_shift by translator '
      'T6 on every run (every other statement pinned); C04_generated_* prove the model equal to them.',
      'Trusted: Coq kernel, translator T6, stdlib real-number axioms, kernel floats; numpy fftshift/broadcasting as transcribed; scipy.fft = DFT validated '
      'numerically; a requested shift within 1e-9 of a whole bin leaves the boundary bin unconstrained (property text).',
      'machine-checked proof in Coq (Z/Q index logic regenerated from source by T6, C values) + exact zero-bin correspondence (vm_compute) + numerical oracle',
      'DESIGN.md 5 C04')

check('C14',
      'Coq theorems (Props/C14.v, axiom-free): a flow-sensitive may-alias effect analyser over a structured IR (assign / in-place write / '
      'unknown call / sequence / branch / loop; expressions alias-of, fresh, variable) is SOUND for a semantics in which a value denotes '
      'the set of input buffers it really shares memory with, view-or-copy is a free choice, and an execution may stop anywhere (the call '
      'raised): an accepted function writes no input buffer in any execution or prefix of one (C14_analyser_sound). The IR of 58 pulsarbat '
      'functions and methods (all transforms, dedispersion, chirp, stft/istft, real_to_complex, slicing, like, dask helpers, '
      'polarisation/Stokes conversions, constructors and setters) is REGENERATED from the current source by translator T3 on every run and '
      'C14_every_function_accepted / C14_no_input_written are re-proved about it by vm_compute. PARTIAL: soundness is with respect to T3\'s '
      'lowering and its alias/fresh/sink classification tables; these are cross-validated on every run by byte-wise snapshots of the whole '
      'base buffer, dtype, strides and all attributes of every input around ~3000 public calls (valid and raising) on four buffer layouts, '
      'in random sequences sharing inputs.',
      'Trusted: Coq kernel; translator T3 and its classification tables; numpy tobytes as observation; Signal.__array_ufunc__ (the '
      'sanctioned out= / in-place operator path) is not lowered; readers take no signal arguments and are covered by C11; dask execution '
      'is observed, not modelled.',
      'machine-checked proof in Coq of a verified effect analyser run on IR regenerated from source (T3) + dynamic byte-snapshot run',
      'DESIGN.md 5 C14')

check('C07',
      'Coq theorems (Props/C07.v, through Flocq) about a BIT-EXACT binary64 model (kernel floats) of day_frac, from_angles and the '
      '__array_ufunc__ branches: two_sum is error-free for all finite doubles below 2^1000; the floor built from + - compare is the '
      'mathematical floor of every finite double; construction from one or two (also unnormalised) doubles with |sum| <= 2^52 gives an '
      'integer-valued count plus fraction within 2^-53 of the exact sum; Phase + Phase and Phase - Phase are within 2^-52 of the exact '
      'result for operand counts up to 2^52 and a result count up to 2^52 - 2 (C07_add_full, C07_sub_full), negation within 2^-53, results normalised to |frac| <= 1/2 EXACTLY (the closing fold of day_frac, Proofs/FoldHalf.v: both updates exact, value unchanged); the add / subtract / negate '
      'branches of the model reduce to exactly these functions; the imaginary-flag and sign rules of from_angles are complex '
      'multiplication and division (i*i = -1); astropy two_product (Veltkamp split + Dekker) is error-free without underflow; Phase * number is within 2^-52 of '
      'the exact product for |product| <= 2^52 - 2; Phase / number (quotient, exact residual, correction quotient) within 2^-52 for |quotient| <= 2^47 and '
      'divisors in [2^-100, 2^100]; abs(Phase) within 2^-52; the mul / div / abs branches of the model reduce to exactly these functions. '
      'The floor_divide / remainder / divmod branch is modelled statement by statement (numpy npy_divmod with exact fmod, correction Phase, '
      'two passes; compared bit for bit on every run) and whatever quotient q it returns, the remainder it returns is the phase minus q*divisor '
      'within 2^-51, normalised (C07_divmod_identity); the model\'s fmod is exact and its floor_divide returns the EXACT floor of the quotient of two '
      'doubles (C07_fmod_exact, C07_floor_divide_exact: decoding / encoding of doubles through Flocq), hence the branch returns '
      'an integer quotient with -delta <= remainder < divisor + delta, delta = 2^-49 + 2^-52 d, for counts up to 2^39 and divisors in '
      '[2^-10, 2^10] (C07_divmod_floor). PARTIAL: |frac| <= 1/2 exactly at ties, ranges outside those hypotheses, '
      'trig-on-fraction and "never decays to a single double" for each operand kind are decided by '
      'the correspondence run (every case evaluated by vm_compute on the model and compared BIT FOR BIT with the implementation) and by the '
      'exact-rational monitor (|result - exact| <= 2^-52, normalised, type Phase) on every run.',
      'day_frac (statement by statement over primitive floats), the real/imaginary bookkeeping of Phase.from_angles and the arguments the '
      'add, subtract, multiply, divide, negative, positive, absolute and comparison branches of Phase.__array_ufunc__ hand on, and the whole '
      'floor_divide/remainder/divmod branch (gen_divmod), are REGENERATED '
      'from pulsar/phase.py by translator T7 on every run; C07_generated_* prove the model equal to them. '
      'Trusted: Coq kernel, stdlib FloatAxioms (kernel binary64 = IEEE 754), stdlib Uint63 axioms (of_Z_spec, for decoding / encoding doubles) + real-number axioms through Flocq; astropy two_sum / '
      'two_product / split as transcribed (bit-exact on every case); np.floor = floor; the C floor_divide of numpy / fmod = the model np_divmod (bit-exact comparison on every run; the model is proved to be the exact floor). Known finding D21 (Phase divisor in //, %, divmod '
      'raises RecursionError). Bare-number divisors of // and % raise by astropy unit convention (not sampled).',
      'machine-checked proof in Coq (Flocq) about a bit-exact binary64 model + bit-for-bit correspondence run (vm_compute) + exact-rational monitor',
      'DESIGN.md 5 C07')

check('C15',
      'Coq theorems (Props/C15.v). Ordering (Flocq, bit-exact binary64 model): the comparison branch\'s diff = (int1-int2)+(frac1-frac2) '
      'has exactly the sign of the exact difference whenever two normalised phases with counts up to 2^52 are equal or at least 2^-53 '
      'cycles apart, hence all six operators of the model decide the exact order (C15_comparisons). Reductions (same model): argmin / argmax / '
      'min / max select, for EVERY non-empty list of normalised phases with counts up to 2^52, an element whose exact two-part value is within '
      '2^-50 cycles of the exact minimum / maximum (C15_argmin, C15_argmax, C15_min, C15_max; hence the exact index when the extremum is '
      'separated by more than that) although the single-double approx they go through is off by up to half a cycle; argsort / sort return every '
      'index / element exactly once for every list; and since repair D26 (sort by the two stored doubles) the key order IS the order of the exact '
      'values on normalised phases (integer count, |frac| <= 1/2: what C07 proves every operation returns), so argsort / sort put the phases in EXACT '
      'order at every pair of positions, however close, at any count (C15_argsort_perm, C15_sort_perm, C15_key_order_exact, '
      'C15_argsort_ordered, C15_sort_ordered). Parsing (exact arithmetic, '
      'axiom-free): for every digit string and every exponent the digit shuffling of _parse_string preserves the decimal value '
      '(count + fraction = digits * 10^e) and the count is integral whenever the exponent is absorbed. PARTIAL: ptp, ties of argmin / argmax below 2^-50 '
      '(Model/PhaseOrd.v), the float-level parser and from_string, and to_string.do_format incl. CPython\'s '
      'float(str), repr(float) and fixed-point formatting (exact-arithmetic models in Model/DecStr.v) are tied to the code by the '
      'correspondence run - every case evaluated by vm_compute and compared index for index, bit for bit, character for character - and '
      'decided by the exact-rational monitor (order of exact values; |parsed - decimal value| <= 2^-52; printed string = exact value '
      'rounded to the digits shown; from_string(to_string(p)) = p; a real string never gives an imaginary phase).',
      'The comparison difference, the single-double cycle, argmin/argmax (reduction, difference, pick), the lexsort keys and their priority in '
      'argsort, and min/max/ptp through the index functions are REGENERATED from pulsar/phase.py by translator T7 on every run; '
      'C15_generated_* prove the model equal to them. '
      'Trusted: Coq kernel, stdlib FloatAxioms + real axioms through Flocq; CPython float()/repr()/format and 10**-k as modelled (validated '
      'on every case). Phases closer than 2^-53 but unequal are below the format\'s resolution (not sampled). Known finding D16: rendered '
      'digits are those of the binary64 fraction (<= 1e-16 off at >= 16 decimals or next to a rounding tie). np.sort(phase) / np.ptp(phase) '
      'function forms are not Phase methods and are not sampled (np.sort raises TypeError; np.ptp reduces the single-double cycle).',
      'machine-checked proof in Coq (Flocq comparison and argmin/argmax theorems; exact digit-shuffle theorem) + exact correspondence run (vm_compute) + exact-rational monitor',
      'DESIGN.md 5 C15')

check('C08',
      'Coq theorems (Props/C08.v, exact rationals, axiom-free) about Model/Polyco.v, which mirrors from_polyco / __call__ / f0 / phasepol / '
      '_get_index_and_dt / intervals: the phase of an entry (rphase split, coeffs[0] += frac, coeffs[1] += 60 F0, domain [-60,60] '
      'converted, Horner) at dt seconds from TMID IS the tempo formula RPHASE + 60 DT F0 + sum COEFF(i) DT^(i-1) with DT = dt/60, for '
      'every coefficient count; with entries sorted by TMID and one span, a time inside some span is evaluated from an entry whose span '
      'contains it; the formal derivative used by f0 is the first Taylor coefficient of the exactly recentred polynomial (and obeys the '
      'product rule); phasepol\'s reference phase plus recentred polynomial reproduces the prediction and starts in [0,1); the validity '
      'intervals cover every span, are more than eps apart and end at span end points; times outside every interval are refused. '
      'time_at: for every root finder that returns roots of the residual it is given (scipy.optimize.root_scalar is a parameter of Model/PolycoTimeAt.v, '
      'a hypothesis of the theorem, not an axiom) the returned time has the requested prediction (C08_time_at_inverts), phases not strictly enclosed '
      'by the end predictions of a validity interval are refused (C08_time_at_refuses / _value_error), the first guess is the TMID of the first entry '
      'ending at or above the phase (C08_time_at_first_guess); C08_time_at_example: satisfiable, concrete instance. '
      'PARTIAL: convergence of the Newton iteration and the float64 evaluation error are decided by the correspondence run (model evaluated by '
      'vm_compute on the exact decimal numbers of generated polyco texts and the exact two-double times) and the monitor (tempo formula '
      'with fractions.Fraction: |phase - formula| <= 1e-8 cycles).',
      'Span edges, one pass of the interval-merge loop, the membership test and dt of _get_index_and_dt, how __call__/f0/phasepol use the '
      'selected entry and the coefficient updates / padding / line count of from_polyco are REGENERATED from pulsar/predictor.py by translator '
      'T14 on every run (other statements pinned), as are the range check, ph_end, the searched value, the residual and the result of time_at; C08_generated_* prove the model equal to them; the guess handed to the root finder is read out of the closure and compared with the model. '
      'Trusted: Coq kernel; astropy Time differences as exact rationals (TAI); float64 Horner error below 1e-8 inside the sampled envelope '
      'F0*span/2 <= 1e6 cycles; searchsorted on float MJD (times within 20 us of a span end excluded from the selection comparison); a quarter of the sampled instants are given in TT / TAI (repair D27).',
      'machine-checked proof in Coq (Q) + correspondence run (vm_compute) + exact-rational monitor',
      'DESIGN.md 5 C08')

check('C17',
      'Coq theorems (Props/C17.v, axiom-free) about Model/Ufunc.v, which follows Signal.__array_ufunc__ over an ABSTRACT array type and '
      'an ARBITRARY ufunc with any number of inputs and outputs: for every operand arrangement with a signal among the inputs, result i '
      'is the ufunc\'s i-th value on the unwrapped data, wrapped as a new signal with the class and metadata of the FIRST signal operand '
      '(every operand before it is a plain array), or - when out_i is given - the very same out object (a signal keeps its own class and '
      'metadata; a plain array is returned as an array); every method other than __call__ and matmul is refused; in-place operator chains '
      'of any length keep identity, class and metadata of their target. The model is evaluated (vm_compute) on the operand pattern of every '
      'sampled case and its prediction of each result\'s kind/label compared with the implementation; the monitor checks values bit for bit '
      'against the same ufunc on .data for every NumPy ufunc with <= 2 inputs and <= 2 outputs, all six classes, NumPy and Dask.',
      'The refusal test, the reference signal and the wrapping rule are REGENERATED from Signal.__array_ufunc__ by translator T10 on every '
      'run, its other statements pinned as syntax trees; C17_generated proves the model equal to them. '
      'Trusted: Coq kernel; NumPy\'s override protocol calls some operand\'s __array_ufunc__ with inputs in original order (the model does '
      'not depend on which); results whose dtype a class admits only through its safe cast are compared after that cast (C16).',
      'machine-checked proof in Coq of a model over abstract arrays and ufuncs + correspondence run (vm_compute) + bit-exact value monitor',
      'DESIGN.md 5 C17')

check('C16',
      'Coq theorems (Props/C16.v, axiom-free) about Model/Contract.v, which follows Signal.__init__ and the setters of every class check '
      'by check over abstract argument kinds, with the per-class tables (_req_shape, _req_dtype, constructor signatures) GENERATED from '
      'core.py by translator T2 on every run: whatever a constructor returns satisfies the executable contract WF (enough dimensions, fixed '
      'axis lengths, non-empty sample shape, dtype from the class set, positive scalar frequency sample_rate / chan_bw, scalar frequency '
      'center_freq, scalar-Time-or-None start_time, dict-or-None meta, alignment normalised for odd channel counts, polarisation type from '
      'its set, baseband chan_bw = sample_rate); an object is returned only if no clause is violated; like() reproduces a well-formed '
      'signal exactly; the generated tables say 4 Stokes / 2 polarisations / float resp. complex dtype sets / no chan_bw parameter for '
      'baseband classes. The model is evaluated (vm_compute) on every attempted construction and compared with the constructor; WF itself '
      'is evaluated on the observed attributes of every signal the run sees, including those returned by library operations; copies '
      '(like, pickle, cloudpickle, dask helpers) are compared attribute by attribute.',
      'The validation statements the constructor model transcribes (Signal.__init__ and the validating setters) are pinned as syntax trees '
      're-read from core.py on every run by T16, raise messages ignored (C16_generated_statements). '
      'Trusted: Coq kernel; translator T2; numpy can_cast(safe) as transcribed (validated); data arguments are array objects.',
      'machine-checked proof in Coq over tables regenerated from source (T2) + correspondence run (vm_compute) + contract monitor',
      'DESIGN.md 5 C16')

check('C20',
      'Coq theorems (Props/C20.v): the _FFT_FUNCS list GENERATED from fft.py by T2 is exactly the fourteen names, each resolving to the '
      'wrapper of the same-named scipy.fft transform with a dask branch, every other name refused (AttributeError); over Q (axiom-free), '
      'through the C02 band model incl. the re-centring slice z[..., :]: the STFT of a band with n channels and nperseg P has n*P '
      'channels of width sr/P and sub-channel j of channel i is labelled label(i) + (j - floor(P/2)) sr/P - the true frequency of its DFT '
      'bin - for all three alignments, every n and either parity of P; ISTFT of the STFT has the original channel count, width and every '
      'label; lengths are whole segments and the round trip returns len - len mod P samples; fftshift/ifftshift index maps are inverse; '
      'over the complex numbers (every nperseg >= 1) ISTFT(STFT(x)) = x per segment and channel, from the DFT inversion theorem. '
      'PARTIAL: equality of each pb.fft transform with its reference on both backends (any axis/axes, n, norm; lazily on Dask) is decided '
      'by the correspondence run against scipy.fft (exact), numpy conventions and a direct longdouble DFT matrix.',
      'The bookkeeping of stft/istft (samples kept, lengths, rates, alignment rule, scalings by nperseg) is REGENERATED from contrib/misc.py by '
      'translator T9 on every run (C20_generated_lengths/_bands/_scales); T2 additionally pins that both branches of the pb.fft wrapper pass all '
      'arguments through unchanged (C20_generated_pass_through). '
      'Trusted: Coq kernel, stdlib real-number axioms (segment inversion), T2; scipy.fft = the mathematical DFT (validated against the DFT '
      'matrix for fft/ifft); dask fft_wrap accepts a subset of keyword forms (rejections are counted, not failures).',
      'machine-checked proof in Coq (generated name table; Q band algebra; C segment inversion) + correspondence run (vm_compute) + reference-transform monitor',
      'DESIGN.md 5 C20')

check('C11',
      'Coq theorems (Props/C11.v, axiom-free) about Model/Reader.v: read(offset, n) raises exactly for offset < 0, n < 0 or offset + n > '
      'len and otherwise returns n samples starting at time_at(offset), taken from inside the file (real baseband: the 2n real samples '
      'from 2*offset); offset_at(time_at(k)) = k for every 0 <= k <= len through absolute and relative times, and offsets outside [0, len] '
      'are refused; every read opens its own handle on the immutable file (open, seek, read, close): for EVERY interleaving of the atomic '
      'steps of any number of concurrent reads, each completed read returns exactly its sequential result, the file samples '
      '[pos, pos+cnt) - no dependence on history or on the other reads; adjacent reads concatenate to the spanning read. PARTIAL: agreement '
      'with what the file encodes (baseband decoding, sideband conjugation, channel flip, axis order, Hilbert conversion of real-sampled '
      'files), real threads, Dask reads and header-derived frequency metadata are decided by the correspondence run against an independent '
      'decoding path (baseband.open directly + an independent analytic conversion) on all shipped formats, incl. 16-thread concurrent reads.',
      'time_at, the product offset_at rounds and its bounds test, the guards of read(), the start time it hands on, the seek/read arguments of '
      '_read_baseband and (as a pinned tree) the lazy path of _read_data are REGENERATED from the reader sources by translator T13 on every run; '
      'C11_generated_* prove the model equal to them. '
      'Trusted: Coq kernel; baseband decoding; CPython threads / OS observed only. CPython\'s warnings module is not thread-safe and '
      'baseband installs a temporary error filter when opening a file: a Warning raised inside a worker thread is retried and counted.',
      'machine-checked proof in Coq (Z/Q/list model incl. all interleavings of per-call handles) + correspondence run (vm_compute) + independent-decoder monitor',
      'DESIGN.md 5 C11')

check('C09',
      'PARTIAL by nature. Coq theorems (Props/C09.v, axiom-free) about Model/Chunk.v - the part of the property that is logic: for every '
      'split of the sample-shape columns into blocks and every schedule that runs each block\'s pure task at least once (any order, '
      'repetitions allowed), assembling the per-block results by block index equals the unchunked result of any column-separable '
      'operation; element-wise operations may also be chunked along time; building the graph runs no task and computing runs exactly the '
      'scheduled ones. What decides the property for the real library is the correspondence run: every public operation on a NumPy-backed '
      'signal and on the same signal backed by a Dask array with random chunk layouts, computed under the synchronous, threaded and '
      'multiprocess schedulers - same type, metadata, shape, dtype, values - with the result still Dask-backed and a sentinel layer under '
      'the input proving that no input block was computed while the result graph was built. The statements the chunk model stands for '
      '(the signal_transform wrapper = da.map_blocks of the same function; compute / persist / to_dask_array / rechunk = like(self, same '
      'data in another container)) are pinned as syntax trees re-read on every run by T15 (C09_generated_glue); the Dask branches of '
      'time_shift / freq_shift, the chirp, the readers and pb.fft are pinned by T6, T5, T13, T2.',
      'Trusted / not modelled: dask graph construction, optimisation and schedulers; thread safety of the NumPy / SciPy kernels; the '
      'theorems say why chunking CAN be transparent for a column-separable operation, not that dask implements it.',
      'machine-checked proof in Coq of the chunk / schedule model + decisive NumPy-vs-Dask correspondence run with laziness sentinel',
      'DESIGN.md 5 C09')

ALL = [f'C{i:02d}' for i in range(1, 21)]

def main():
    m = dict(
        version=1,
        setup_cmd='./check --setup',
        hooks=dict(guard='PULSARBAT_VERIF', enable='none needed: no hook was added to /repo; checks import /repo working tree via PYTHONPATH',
                   baseline_off_cmd='cd /repo && /venv/bin/python -m pytest -ra -q -p no:cacheprovider --timeout=900 --continue-on-collection-errors',
                   source_commits=[], add_only=True),
        engines=[dict(name='coq-proof+correspondence', path='/verif/check',
                      serves_properties=sorted(CHECKS),
                      kind_free_text='Coq 8.16.1 theorems about Gallina models (coq/), models regenerated from source by '
                      'translators (translate/) or tied by a correspondence run evaluated with vm_compute (harness/)')],
        checks=[CHECKS[k] for k in sorted(CHECKS)],
        notes='See DESIGN.md. known_findings.json lists recorded findings and fix: commits.',
        not_applicable=[dict(property_id=p, reason=NA.get(p, 'check under construction in this session: not claimed yet (no technique limitation; see DESIGN.md 5)'))
                        for p in ALL if p not in CHECKS])
    json.dump(m, open('/verif/MANIFEST.json', 'w'), indent=1)

if __name__ == '__main__':
    main()
