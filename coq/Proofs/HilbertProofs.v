(* Proofs/HilbertProofs.v -- C19: the Hilbert weights pair up to 2 for every N, hence (abstract field with
   conjugation) the analytic signal of a real input has the input as real part; output length; mixing sign. *)
From Coq Require Import ZArith Lia Bool List Ring.
From PB Require Import Lib.Dft Model.Hilbert.
Open Scope Z_scope.

Theorem weights_pair N k : 1 <= N -> 0 <= k < N -> h N k + h N ((N - k) mod N) = 2.
Proof.
  intros HN Hk. unfold h.
  assert (Hm : (N - k) mod N = if k =? 0 then 0 else N - k).
  { destruct (k =? 0) eqn:E; [apply Z.eqb_eq in E; subst; rewrite Z.sub_0_r; apply Z.mod_same; lia|].
    apply Z.eqb_neq in E. apply Z.mod_small. lia. }
  rewrite Hm. clear Hm.
  pose proof (Z.div_mod N 2 ltac:(lia)) as D. pose proof (Z.mod_pos_bound N 2 ltac:(lia)) as M.
  destruct (k =? 0) eqn:E0; [apply Z.eqb_eq in E0|apply Z.eqb_neq in E0];
  destruct (1 <? N) eqn:E1; [apply Z.ltb_lt in E1| apply Z.ltb_ge in E1|apply Z.ltb_lt in E1| apply Z.ltb_ge in E1];
  destruct (N mod 2 =? 0) eqn:E2; [apply Z.eqb_eq in E2|apply Z.eqb_neq in E2|apply Z.eqb_eq in E2|apply Z.eqb_neq in E2
                                  |apply Z.eqb_eq in E2|apply Z.eqb_neq in E2|apply Z.eqb_eq in E2|apply Z.eqb_neq in E2];
  repeat match goal with
  | |- context [ ?a =? ?b ] => let E := fresh "E" in destruct (a =? b) eqn:E; [apply Z.eqb_eq in E|apply Z.eqb_neq in E]
  | |- context [ ?a <? ?b ] => let E := fresh "E" in destruct (a <? b) eqn:E; [apply Z.ltb_lt in E|apply Z.ltb_ge in E]
  | |- context [ ?a <=? ?b ] => let E := fresh "E" in destruct (a <=? b) eqn:E; [apply Z.leb_le in E|apply Z.leb_gt in E]
  end; cbn [andb]; try lia.
Qed.

Lemma h_range N k : h N k = 0 \/ h N k = 1 \/ h N k = 2.
Proof. unfold h. destruct ((1 <? N) && (k =? N / 2)); [destruct (N mod 2 =? 0); auto|].
  destruct ((1 <=? k) && (k <? N / 2)); auto. destruct (k =? 0); auto. Qed.

Lemma out_len_ceil N : 0 <= N -> out_len N = (N + 1) / 2.
Proof. intros H. unfold out_len. destruct (N =? 0) eqn:E; [apply Z.eqb_eq in E; subst; reflexivity|]. apply Z.eqb_neq in E.
  replace (N + 1) with ((N - 1) + 1 * 2) by ring. rewrite Z.div_add by lia. reflexivity. Qed.

(* decimation keeps the even samples 2m < N *)
Lemma out_len_index N m : 0 <= N -> 0 <= m < out_len N -> 0 <= 2 * m < N.
Proof. intros HN Hm. rewrite out_len_ceil in Hm by exact HN.
  pose proof (Z.div_mod (N + 1) 2 ltac:(lia)). pose proof (Z.mod_pos_bound (N + 1) 2 ltac:(lia)). lia. Qed.

Section Real.
  Variable T : Type.
  Variables (t0 t1 : T) (tadd tmul tsub : T -> T -> T) (topp : T -> T).
  Hypothesis Tring : ring_theory t0 t1 tadd tmul tsub topp (@eq T).
  Add Ring TR2 : Tring.
  Hypothesis Tint : forall a b, tmul a b = t0 -> a = t0 \/ b = t0.
  Variable n : nat.
  Hypothesis npos : (0 < n)%nat.
  Variable W : Z -> T.
  Hypothesis W_add : forall a b, W (a + b)%Z = tmul (W a) (W b).
  Hypothesis W_0 : W 0%Z = t1.
  Hypothesis W_n : W (Z.of_nat n) = t1.
  Hypothesis W_prim : forall z, W z = t1 -> (z mod Z.of_nat n = 0)%Z.
  Variable ninv : T.
  Hypothesis ninv_ok : tmul ninv (ofnat T t0 t1 tadd n) = t1.
  Variable conj : T -> T.
  Hypothesis conj_add : forall a b, conj (tadd a b) = tadd (conj a) (conj b).
  Hypothesis conj_mul : forall a b, conj (tmul a b) = tmul (conj a) (conj b).
  Hypothesis conj_0 : conj t0 = t0.
  Hypothesis conj_W : forall z, conj (W z) = W (- z)%Z.
  Hypothesis conj_ninv : conj ninv = ninv.

  Definition inj (z : Z) : T := if z =? 0 then t0 else if z =? 1 then t1 else tadd t1 t1.
  Lemma conj_1 : conj t1 = t1.
  Proof. rewrite <- W_0. rewrite conj_W. reflexivity. Qed.
  Lemma conj_inj z : conj (inj z) = inj z.
  Proof. unfold inj. destruct (z =? 0); [apply conj_0|]. destruct (z =? 1); [apply conj_1|]. rewrite conj_add, conj_1. reflexivity. Qed.

  (* Re(analytic signal) = input, for every real input and every N >= 1:  a + conj a = 2 x *)
  Theorem analytic_real_part (x : nat -> T) (m : nat) :
    (forall j, conj (x j) = x j) -> (m < n)%nat ->
    let a := analytic T t0 tadd tmul n W ninv inj x m in
    tadd a (conj a) = tmul (tadd t1 t1) (x m).
  Proof.
    intros Hx Hm. unfold analytic.
    apply (hilbert_real_part T t0 t1 tadd tmul tsub topp Tring Tint n npos W W_add W_0 W_n W_prim ninv ninv_ok
             conj conj_add conj_mul conj_0 conj_W conj_ninv
             (fun k => inj (h (Z.of_nat n) (Z.of_nat k))) (tadd t1 t1) x m).
    - intros k. apply conj_inj.
    - intros k Hk.
      assert (E : Z.of_nat (negidx n k) = (Z.of_nat n - Z.of_nat k) mod Z.of_nat n).
      { unfold negidx. rewrite Z2Nat.id; [reflexivity|]. apply Z.mod_pos_bound. lia. }
      rewrite E. pose proof (weights_pair (Z.of_nat n) (Z.of_nat k) ltac:(lia) ltac:(lia)) as P.
      destruct (h_range (Z.of_nat n) (Z.of_nat k)) as [A|[A|A]];
      destruct (h_range (Z.of_nat n) ((Z.of_nat n - Z.of_nat k) mod Z.of_nat n)) as [B|[B|B]];
      rewrite A, B in *; try lia; unfold inj; cbn; ring.
    - exact Hx.
    - exact Hm.
  Qed.

  (* the map is linear *)
  Theorem analytic_linear a x b y m :
    analytic T t0 tadd tmul n W ninv inj (fun j => tadd (tmul a (x j)) (tmul b (y j))) m =
    tadd (tmul a (analytic T t0 tadd tmul n W ninv inj x m)) (tmul b (analytic T t0 tadd tmul n W ninv inj y m)).
  Proof. unfold analytic. apply (diag_linear T t0 t1 tadd tmul tsub topp Tring n npos W ninv). Qed.
End Real.
