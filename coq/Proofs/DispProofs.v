(* Proofs/DispProofs.v -- C06 (delay law, incoherent realignment) and the crop part of C05, over Q. *)
From Coq Require Import ZArith QArith Qabs Qround Qminmax Lia Lqa List Bool.
From PB Require Import Lib.PySlice Gen.GenConsts Model.FastLen Model.Ledger Model.Band Model.Disp Proofs.LedgerProofs Proofs.BandProofs.
Import ListNotations.
Open Scope Q_scope.

(* K = 1/2.41e-4: a statement about the literal GENERATED from dedispersion.py *)
Lemma Kdisp_value : Kdisp == 1000000 # 241.
Proof. vm_compute. reflexivity. Qed.
Lemma Kdisp_pos : 0 < Kdisp.
Proof. rewrite Kdisp_value. reflexivity. Qed.

(* the f^-2 law, f in Hz: delay = K * DM * (f_MHz^-2 - fref_MHz^-2) *)
Lemma delay_law dm f fr : ~ f == 0 -> ~ fr == 0 ->
  time_delay dm f fr == Kdisp * dm * (1000000000000 / (f * f) - 1000000000000 / (fr * fr)).
Proof. intros. unfold time_delay, MHz. field. split; assumption. Qed.
Lemma delay_antisym dm f g : ~ f == 0 -> ~ g == 0 -> time_delay dm f g == - time_delay dm g f.
Proof. intros. unfold time_delay, MHz. field. split; assumption. Qed.
Lemma delay_chain dm a b c : ~ a == 0 -> ~ b == 0 -> ~ c == 0 ->
  time_delay dm a b + time_delay dm b c == time_delay dm a c.
Proof. intros. unfold time_delay, MHz. field. repeat split; assumption. Qed.
Lemma delay_self dm f : ~ f == 0 -> time_delay dm f f == 0.
Proof. intros. unfold time_delay, MHz. field. assumption. Qed.
Lemma sample_delay_def dm f fr r : sample_delay dm f fr r == time_delay dm f fr * r.
Proof. reflexivity. Qed.
Lemma delay_linear_dm dm f fr : time_delay (- dm) f fr == - time_delay dm f fr.
Proof. unfold time_delay. ring. Qed.

Lemma inv_sq_mono a b : 0 < a -> a <= b -> 1 / (b * b) <= 1 / (a * a).
Proof.
  intros Ha Hab. assert (Hb : 0 < b) by lra.
  assert (Haa : 0 < a * a) by nra. assert (Hbb : 0 < b * b) by nra.
  apply Qle_shift_div_l; [exact Haa|].
  setoid_replace (1 / (b * b) * (a * a)) with ((a * a) / (b * b)) by (field; lra).
  apply Qle_shift_div_r; [exact Hbb|]. nra.
Qed.

(* the delay at any frequency of the band lies between the delays at the band edges, for either sign of DM *)
Theorem delay_between dm fmin fmax fr f : 0 < fmin -> fmin <= f <= fmax ->
  Qmin (time_delay dm fmax fr) (time_delay dm fmin fr) <= time_delay dm f fr <= Qmax (time_delay dm fmax fr) (time_delay dm fmin fr).
Proof.
  intros H0 [H1 H2]. unfold time_delay.
  assert (M0 : 0 < MHz fmin) by (unfold MHz; lra).
  assert (M1 : MHz fmin <= MHz f) by (unfold MHz; lra).
  assert (M2 : MHz f <= MHz fmax) by (unfold MHz; lra).
  pose proof (inv_sq_mono _ _ M0 M1) as A. pose proof (inv_sq_mono (MHz f) (MHz fmax) ltac:(lra) M2) as B.
  set (u := 1 / (MHz fmin * MHz fmin)) in *. set (v := 1 / (MHz f * MHz f)) in *.
  set (w := 1 / (MHz fmax * MHz fmax)) in *. set (r := 1 / (MHz fr * MHz fr)).
  set (kd := Kdisp * dm).
  destruct (Qlt_le_dec kd 0) as [Hk|Hk].
  - split.
    + apply Qle_trans with (kd * (u - r)); [apply Q.le_min_r|]. nra.
    + apply Qle_trans with (kd * (w - r)); [nra|apply Q.le_max_l].
  - split.
    + apply Qle_trans with (kd * (w - r)); [apply Q.le_min_l|]. nra.
    + apply Qle_trans with (kd * (u - r)); [nra|apply Q.le_max_r].
Qed.

(* coherent dedispersion crop: every retained sample has its source inside the input, for every frequency of the band *)
Theorem crop_sound N dtop dbot d n :
  Qmin dtop dbot <= d <= Qmax dtop dbot ->
  (crop_start dtop dbot <= n < crop_stop N dtop dbot)%Z ->
  0 <= inject_Z n + d <= inject_Z (N - 1).
Proof.
  intros [Hlo Hhi] [Hn1 Hn2]. unfold crop_start, crop_stop in *.
  pose proof (Qle_ceiling (- Qmin 0 (Qmin dtop dbot))) as C1.
  pose proof (Qle_ceiling (Qmax 0 (Qmax dtop dbot))) as C2.
  assert (A1 : - Qmin 0 (Qmin dtop dbot) <= inject_Z n).
  { apply Qle_trans with (1:=C1). rewrite <- Zle_Qle. exact Hn1. }
  assert (A2 : inject_Z n + Qmax 0 (Qmax dtop dbot) <= inject_Z (N - 1)).
  { assert (n + Qceiling (Qmax 0 (Qmax dtop dbot)) <= N - 1)%Z by lia.
    rewrite Zle_Qle, inject_Z_plus in H. lra. }
  pose proof (Q.le_min_r 0 (Qmin dtop dbot)). pose proof (Q.le_max_r 0 (Qmax dtop dbot)).
  split; lra.
Qed.

(* the crop is tight: one sample earlier / later some band-edge frequency needs data outside the input *)
Theorem crop_tight_front dtop dbot : (0 < crop_start dtop dbot)%Z ->
  inject_Z (crop_start dtop dbot - 1) + Qmin dtop dbot < 0.
Proof.
  unfold crop_start. intros H. pose proof (Qceiling_lt (- Qmin 0 (Qmin dtop dbot))) as C.
  destruct (Q.min_spec 0 (Qmin dtop dbot)) as [[A B]|[A B]].
  - exfalso. assert (X : inject_Z (Qceiling (- Qmin 0 (Qmin dtop dbot)) - 1) < inject_Z 0) by (change (inject_Z 0) with 0; lra).
    rewrite <- Zlt_Qlt in X. lia.
  - lra.
Qed.

(* ---------- rounding ---------- *)
Lemma rhe_bounds q : inject_Z (round_half_even q) - (1 # 2) <= q <= inject_Z (round_half_even q) + (1 # 2).
Proof.
  unfold round_half_even. pose proof (Qfloor_le q) as F1. pose proof (Qlt_floor q) as F2.
  rewrite inject_Z_plus in F2. change (inject_Z 1) with 1 in F2.
  destruct (Qcompare (q - inject_Z (Qfloor q)) (1 # 2)) eqn:E.
  - apply Qeq_alt in E. destruct (Z.even (Qfloor q)); [|rewrite inject_Z_plus; change (inject_Z 1) with 1]; lra.
  - apply Qlt_alt in E. lra.
  - apply Qgt_alt in E. rewrite inject_Z_plus. change (inject_Z 1) with 1. lra.
Qed.

Lemma rhe_comp q r : q == r -> round_half_even q = round_half_even r.
Proof.
  intros E. unfold round_half_even. rewrite (Qfloor_comp _ _ E).
  assert (E2 : q - inject_Z (Qfloor r) == r - inject_Z (Qfloor r)) by (rewrite E; reflexivity).
  rewrite (Qcompare_comp _ _ E2 (1#2) (1#2) (Qeq_refl _)). reflexivity.
Qed.

Lemma rhe_mono q r : q <= r -> (round_half_even q <= round_half_even r)%Z.
Proof.
  intros H. destruct (Z_le_gt_dec (round_half_even q) (round_half_even r)) as [L|G]; [exact L|exfalso].
  pose proof (rhe_bounds q) as [B1 _]. pose proof (rhe_bounds r) as [_ B2].
  assert (G' : inject_Z (round_half_even r) + 1 <= inject_Z (round_half_even q)).
  { change 1 with (inject_Z 1). rewrite <- inject_Z_plus. rewrite <- Zle_Qle. lia. }
  assert (E : q == r) by lra. rewrite (rhe_comp _ _ E) in G. lia.
Qed.

(* ---------- incoherent dedispersion ---------- *)
Open Scope Z_scope.

Lemma zmax_list_ge d l : forall x, In x l -> x <= zmax_list d l.
Proof. induction l as [|y r IH]; intros x H; [contradiction|]. cbn [zmax_list fold_right].
  destruct H as [->|H]; [lia|]. specialize (IH x H). unfold zmax_list in IH. lia. Qed.

(* every delay is at least the smaller of the first and last one (true of monotone delay lists) *)
Definition ends_min (ds : list Z) : Prop :=
  match ds with [] => True | d0 :: _ => forall d, In d ds -> Z.min d0 (last ds d0) <= d end.

Theorem incoherent_sound l ds l' cb ds' :
  0 <= len l -> (0 < rate l)%Q -> ends_min ds ->
  incoherent l ds = IOk l' cb ds' ->
  0 <= cb /\ ds' = map (fun d => d + cb) ds /\ rate l' = rate l /\ 0 <= len l' /\
  (t0 l' = None <-> t0 l = None) /\
  (forall d', In d' ds' -> 0 <= d' /\ forall k, 0 <= k < len l' -> 0 <= k + d' < len l) /\
  (* absolute time: output sample k of a channel with (unshifted) rounded delay d sits at the time of input sample k+d+cb minus d/rate *)
  (forall d k, In d ds -> opt_Qeq (match time_of l' k with Some t => Some (t + inject_Z d / rate l)%Q | None => None end)
                                  (time_of l (k + (d + cb)))).
Proof.
  intros Hl Hr Hends H. unfold incoherent in H. destruct ds as [|d0 r]; [discriminate|].
  set (ds := d0 :: r) in *. set (dl := last ds d0) in *.
  set (cb0 := - Z.min 0 (Z.min d0 dl)) in *.
  set (dsp := map (fun d => d + cb0) ds) in *.
  set (N := len l - zmax_list (d0 + cb0) dsp) in *.
  set (lens := map (fun j => match slice_indices (Some j) (Some (j + N)) None (len l) with
                              | Some (lo, hi, st) => range_len lo hi st | None => 0 end) dsp) in *.
  destruct lens as [|n0 lr] eqn:El; [discriminate|].
  destruct (forallb (fun n => n =? n0) (n0 :: lr)) eqn:Ef; [|discriminate].
  injection H as <- <- <-. cbn [len rate t0].
  assert (Hcb : 0 <= cb0) by (unfold cb0; lia).
  assert (Hpos : forall d', In d' dsp -> 0 <= d').
  { intros d' Hin. unfold dsp in Hin. apply in_map_iff in Hin. destruct Hin as (d & <- & Hd).
    specialize (Hends d Hd). fold dl in Hends. unfold cb0. lia. }
  assert (Hlens : forall d', In d' dsp -> range_len (clip (len l) (Some d') 0) (clip (len l) (Some (d' + N)) (len l)) 1 = n0).
  { intros d' Hin. rewrite forallb_forall in Ef.
    assert (I : In (range_len (clip (len l) (Some d') 0) (clip (len l) (Some (d' + N)) (len l)) 1) (n0 :: lr)).
    { rewrite <- El. unfold lens. apply in_map_iff. exists d'. split; [reflexivity|exact Hin]. }
    specialize (Ef _ I). apply Z.eqb_eq in Ef. exact Ef. }
  assert (Hn0 : 0 <= n0).
  { assert (I : In (d0 + cb0) dsp) by (unfold dsp, ds; left; reflexivity).
    rewrite <- (Hlens _ I). apply range_len_nonneg. lia. }
  split; [exact Hcb|]. split; [reflexivity|]. split; [reflexivity|]. split; [exact Hn0|].
  split; [destruct (t0 l); split; intro; congruence|]. split.
  - intros d' Hin. split; [apply Hpos; exact Hin|]. intros k Hk.
    pose proof (Hlens d' Hin) as E. specialize (Hpos d' Hin).
    assert (Hmax : d' <= zmax_list (d0 + cb0) dsp) by (apply zmax_list_ge; exact Hin).
    pose proof (range_len_index (clip (len l) (Some d') 0) (clip (len l) (Some (d' + N)) (len l)) 1 k ltac:(lia) ltac:(lia)) as RI.
    pose proof (clip_range (len l) (Some (d' + N)) (len l) Hl ltac:(lia)) as C2.
    assert (C1 : clip (len l) (Some d') 0 = Z.min d' (len l)).
    { unfold clip. destruct (d' <? 0) eqn:E1; [lia|]. destruct (len l <? d') eqn:E2; lia. }
    rewrite C1 in RI. lia.
  - intros d k Hd. unfold time_of. cbn [t0 rate]. destruct (t0 l) as [t|]; [|exact I]. cbn [opt_Qeq].
    destruct (cb0 =? 0) eqn:E0.
    + apply Z.eqb_eq in E0. rewrite E0. replace (k + (d + 0)) with (k + d) by lia. rewrite inject_Z_plus. field. lra.
    + rewrite !inject_Z_plus. field. lra.
Qed.

(* monotone delay lists satisfy ends_min *)
Fixpoint nondecr (l : list Z) : Prop := match l with x :: ((y :: _) as r) => x <= y /\ nondecr r | _ => True end.
Fixpoint nonincr (l : list Z) : Prop := match l with x :: ((y :: _) as r) => y <= x /\ nonincr r | _ => True end.

Lemma nondecr_head l : forall x, nondecr (x :: l) -> forall d, In d (x :: l) -> x <= d.
Proof. induction l as [|y r IH]; intros x H d Hin.
  - destruct Hin as [<-|[]]. lia.
  - destruct H as [H1 H2]. destruct Hin as [<-|Hin]; [lia|]. specialize (IH y H2 d Hin). lia. Qed.
Lemma nonincr_last l : forall x, nonincr (x :: l) -> forall d, In d (x :: l) -> last (x :: l) x <= d.
Proof. induction l as [|y r IH]; intros x H d Hin.
  - destruct Hin as [<-|[]]. simpl. lia.
  - destruct H as [H1 H2]. change (last (x :: y :: r) x) with (last (y :: r) x).
    assert (E : last (y :: r) x = last (y :: r) y) by (clear; revert y; induction r; intros; simpl; [reflexivity|destruct r; [reflexivity|apply IHr]]).
    rewrite E. destruct Hin as [<-|Hin].
    + specialize (IH y H2 y (or_introl eq_refl)). lia.
    + apply IH; assumption. Qed.

Lemma monotone_ends_min ds : nondecr ds \/ nonincr ds -> ends_min ds.
Proof. destruct ds as [|d0 r]; [intros; exact I|]. intros [H|H] d Hin.
  - pose proof (nondecr_head r d0 H d Hin). lia.
  - pose proof (nonincr_last r d0 H d Hin). lia. Qed.

Example incoherent_example :
  match incoherent {| t0 := Some (10#1); rate := 2#1; len := 100 |} [-3; 0; 4; 9] with
  | IOk l' cb ds' => cb = 3 /\ ds' = [0; 3; 7; 12] /\ len l' = 88 /\ match t0 l' with Some t => (t == 23#2)%Q | None => False end
  | IErr _ => False end.
Proof. vm_compute. repeat split; reflexivity. Qed.

(* ---------- channel delays of a band are monotone, hence ends_min holds ---------- *)
Open Scope Q_scope.
Fixpoint q_incr (l : list Q) : Prop :=
  match l with
  | x :: ((y :: _) as r) => 0 < x /\ x <= y /\ q_incr r
  | [x] => 0 < x
  | [] => True
  end.

Lemma delay_antitone dm fr a b : 0 <= Kdisp * dm -> 0 < a -> a <= b -> time_delay dm b fr <= time_delay dm a fr.
Proof.
  intros Hk Ha Hab. unfold time_delay.
  assert (M0 : 0 < MHz a) by (unfold MHz; lra). assert (M1 : MHz a <= MHz b) by (unfold MHz; lra).
  pose proof (inv_sq_mono _ _ M0 M1) as A.
  set (u := 1 / (MHz a * MHz a)) in *. set (v := 1 / (MHz b * MHz b)) in *. set (r := 1 / (MHz fr * MHz fr)).
  set (kd := Kdisp * dm) in *. nra.
Qed.
Lemma delay_monotone dm fr a b : Kdisp * dm <= 0 -> 0 < a -> a <= b -> time_delay dm a fr <= time_delay dm b fr.
Proof.
  intros Hk Ha Hab. unfold time_delay.
  assert (M0 : 0 < MHz a) by (unfold MHz; lra). assert (M1 : MHz a <= MHz b) by (unfold MHz; lra).
  pose proof (inv_sq_mono _ _ M0 M1) as A.
  set (u := 1 / (MHz a * MHz a)) in *. set (v := 1 / (MHz b * MHz b)) in *. set (r := 1 / (MHz fr * MHz fr)).
  set (kd := Kdisp * dm) in *. nra.
Qed.

Lemma delays_nonincr dm fr rate : 0 <= Kdisp * dm -> 0 < rate -> forall fs, q_incr fs ->
  nonincr (map (fun f => round_half_even (sample_delay dm f fr rate)) fs).
Proof.
  intros Hk Hr. induction fs as [|x [|y r] IH]; intros H; cbn [map nonincr]; try exact I.
  destruct H as (Hx & Hxy & Hrest). split; [|apply IH; exact Hrest].
  apply rhe_mono. unfold sample_delay. pose proof (delay_antitone dm fr x y Hk Hx Hxy). nra.
Qed.
Lemma delays_nondecr dm fr rate : Kdisp * dm <= 0 -> 0 < rate -> forall fs, q_incr fs ->
  nondecr (map (fun f => round_half_even (sample_delay dm f fr rate)) fs).
Proof.
  intros Hk Hr. induction fs as [|x [|y r] IH]; intros H; cbn [map nondecr]; try exact I.
  destruct H as (Hx & Hxy & Hrest). split; [|apply IH; exact Hrest].
  apply rhe_mono. unfold sample_delay. pose proof (delay_monotone dm fr x y Hk Hx Hxy). nra.
Qed.

Lemma labels_incr_from b : 0 < bw b -> forall n k, 0 < label b (Z.of_nat k) ->
  q_incr (map (fun i => label b (Z.of_nat i)) (seq k n)).
Proof.
  intros Hb. induction n as [|n IH]; intros k Hk; [exact I|].
  cbn [seq map]. destruct n as [|n]; [exact Hk|].
  assert (Hs : label b (Z.of_nat (S k)) == label b (Z.of_nat k) + bw b).
  { pose proof (label_spacing b (Z.of_nat k)) as Sp. replace (Z.of_nat (S k)) with (Z.of_nat k + 1)%Z by lia. lra. }
  specialize (IH (S k) ltac:(lra)). cbn [seq map] in IH |- *. split; [exact Hk|]. split; [lra|exact IH].
Qed.

Theorem chan_delays_ends_min b dm fr rate : 0 < bw b -> 0 < rate -> 0 < label b 0 ->
  ends_min (chan_delays b dm fr rate).
Proof.
  intros Hb Hr H0. apply monotone_ends_min. unfold chan_delays, labels.
  pose proof (labels_incr_from b Hb (Z.to_nat (nchan b)) 0%nat H0) as Hi.
  destruct (Qlt_le_dec (Kdisp * dm) 0) as [Hk|Hk].
  - left. apply delays_nondecr; [lra|exact Hr|exact Hi].
  - right. apply delays_nonincr; [exact Hk|exact Hr|exact Hi].
Qed.
