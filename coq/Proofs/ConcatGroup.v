(* Proofs/ConcatGroup.v -- C10: consecutive pieces of one signal, in ANY grouping (pieces first joined in runs, runs then joined,
   to any depth), concatenate to the stretch of the signal they cover: class, length, rate, start time and labels. *)
From Coq Require Import ZArith QArith Qabs Lia Lqa List Bool.
From PB Require Import Lib.PySlice Model.Ledger Model.Band Model.Concat Proofs.BandProofs Proofs.ConcatProofs Proofs.ConcatMore Proofs.ConcatAssoc.
Import ListNotations.
Open Scope Z_scope.

Section Pieces.
Variable s : sig.
Let r := rate (s_led s).

(* p is (a copy of) the samples [c, c + n) of s: same class, rate and labels; its start time, if it has one, is that of sample c *)
Definition start_ok (c : Z) (t : option Q) : Prop :=
  match t with None => True | Some t => match t0 (s_led s) with Some ts => (t == ts + inject_Z c / r)%Q | None => False end end.
Definition is_piece (c n : Z) (p : sig) : Prop :=
  s_cls p = s_cls s /\ rate (s_led p) = r /\ len (s_led p) = n /\ start_ok c (t0 (s_led p)) /\ band_labels_eq (s_band p) (s_band s).

(* consecutive pieces from sample c up to sample c_end *)
Fixpoint chain (c : Z) (ps : list sig) (c_end : Z) : Prop :=
  match ps with [] => c = c_end | p :: ps' => is_piece c (len (s_led p)) p /\ chain (c + len (s_led p)) ps' c_end end.

Lemma chain_app c ps qs m e : chain c ps m -> chain m qs e -> chain c (ps ++ qs) e.
Proof. revert c. induction ps as [|p ps IH]; intros c H1 H2; cbn [chain app] in *; [subst; exact H2|]. destruct H1 as [P C]. split; [exact P|apply IH; assumption]. Qed.

Hypothesis Hr : (0 < r)%Q.

Lemma scan_chain eps : (0 <= eps)%Q -> forall ps c n ref c_end,
  chain (c + n) ps c_end -> start_ok c ref ->
  exists ref', scan eps r ref n (map s_led ps) = Some ref' /\ start_ok c ref' /\ n + total_len (map s_led ps) = c_end - c /\
    (ref' = None <-> ref = None /\ forall p, In p ps -> t0 (s_led p) = None).
Proof.
  intros He. induction ps as [|p ps IH]; intros c n ref c_end Hc Hok.
  - cbn [chain] in Hc. exists ref. cbn [map scan total_len fold_right]. split; [reflexivity|]. split; [exact Hok|]. split; [lia|].
    split; [intros ->; split; [reflexivity|intros p []]|intros [-> _]; reflexivity].
  - cbn [chain] in Hc. destruct Hc as [(_ & _ & _ & Hst & _) Hc]. cbn [map scan total_len fold_right]. fold (total_len (map s_led ps)).
    replace (c + n + len (s_led p)) with (c + (n + len (s_led p))) in Hc by ring.
    destruct (t0 (s_led p)) as [t|] eqn:Et.
    + unfold start_ok in Hst. destruct (t0 (s_led s)) as [ts|] eqn:Ets; [|contradiction].
      destruct ref as [rf|].
      * unfold start_ok in Hok. rewrite Ets in Hok.
        assert (Cl : close_abs eps (rf + inject_Z n / r)%Q t = true).
        { apply close_abs_refl; [exact He|]. rewrite Hst, Hok, inject_Z_plus. field. lra. }
        rewrite Cl. destruct (IH c (n + len (s_led p)) (Some rf) c_end Hc) as (ref' & E & O & L & N).
        { unfold start_ok. rewrite Ets. exact Hok. }
        exists ref'. split; [exact E|]. split; [exact O|]. split; [lia|].
        split; [intros X; apply N in X; destruct X; discriminate|intros [X _]; discriminate].
      * destruct (IH c (n + len (s_led p)) (Some (t - inject_Z n / r)%Q) c_end Hc) as (ref' & E & O & L & N).
        { unfold start_ok. rewrite Ets, Hst, inject_Z_plus. field. lra. }
        exists ref'. split; [exact E|]. split; [exact O|]. split; [lia|].
        split; [intros X; apply N in X; destruct X; discriminate|].
        intros [_ X]. specialize (X p (or_introl eq_refl)). congruence.
    + destruct (IH c (n + len (s_led p)) ref c_end Hc Hok) as (ref' & E & O & L & N).
      exists ref'. split; [exact E|]. split; [exact O|]. split; [lia|].
      split.
      * intros X. apply N in X. destruct X as [X1 X2]. split; [exact X1|]. intros q [<-|Hq]; [exact Et|apply X2; exact Hq].
      * intros [X1 X2]. apply N. split; [exact X1|]. intros q Hq. apply X2. right. exact Hq.
Qed.

Lemma chain_in c ps c_end : chain c ps c_end -> forall p, In p ps -> exists c' n', is_piece c' n' p.
Proof. revert c. induction ps as [|q ps IH]; intros c H p Hin; [contradiction|]. cbn [chain] in H. destruct H as [P C].
  destruct Hin as [<-|Hin]; [eexists; eexists; exact P|eapply IH; eassumption]. Qed.

Hypothesis Hbw : match s_band s with Some b => (0 <= bw b)%Q | None => True end.

Lemma band_eq_sym o1 o2 : band_labels_eq o1 o2 -> band_labels_eq o2 o1.
Proof. destruct o1, o2; cbn [band_labels_eq]; try tauto. intros (A & B & C). split; [symmetry; exact A|]. split; [symmetry; exact B|]. intros j. symmetry. apply C. Qed.
Lemma band_eq_trans o1 o2 o3 : band_labels_eq o1 o2 -> band_labels_eq o2 o3 -> band_labels_eq o1 o3.
Proof. destruct o1, o2, o3; cbn [band_labels_eq]; try tauto. intros (A & B & C) (A' & B' & C').
  split; [congruence|]. split; [rewrite B; exact B'|]. intros j. rewrite C. apply C'. Qed.

(* the heart: any non-empty chain of pieces concatenates to the piece covering the whole stretch *)
Theorem concat_pieces eps rt p0 rest c c_end : (0 <= eps)%Q -> (0 <= rt)%Q -> chain c (p0 :: rest) c_end ->
  exists s', concat eps rt 0 (p0 :: rest) = COk s' /\ is_piece c (c_end - c) s' /\
    (t0 (s_led s') = None <-> forall p, In p (p0 :: rest) -> t0 (s_led p) = None).
Proof.
  intros He Hrt Hc. unfold concat. cbv iota beta. set (ps := p0 :: rest) in *.
  assert (HP : forall p, In p ps -> exists c' n', is_piece c' n' p) by (apply (chain_in c ps c_end Hc)).
  assert (HP0 : exists c' n', is_piece c' n' p0) by (apply HP; left; reflexivity).
  destruct HP0 as (c0' & n0' & P0c & P0r & _ & _ & P0b).
  assert (C1 : forallb (fun p => s_cls p =? s_cls p0) ps = true).
  { apply forallb_forall. intros p Hin. destruct (HP p Hin) as (? & ? & Pc & _). rewrite Pc, P0c. apply Z.eqb_refl. }
  rewrite C1. cbn [negb].
  assert (C2 : forallb (fun p => close_rel rt (rate (s_led p0)) (rate (s_led p))) ps = true).
  { apply forallb_forall. intros p Hin. destruct (HP p Hin) as (? & ? & _ & Pr & _). rewrite Pr, P0r. apply close_rel_refl; [exact Hrt|reflexivity]. }
  rewrite C2. cbn [negb]. change (0 =? 0) with true. cbv iota. cbn [negb andb].
  rewrite P0r.
  destruct (scan_chain eps He ps c 0 None c_end) as (ref' & E & O & L & N). { rewrite Z.add_0_r. exact Hc. } { exact I. }
  rewrite E.
  assert (HN : ref' = None <-> forall p, In p ps -> t0 (s_led p) = None).
  { split; [intros X; apply N in X; apply X|intros X; apply N; split; [reflexivity|exact X]]. }
  destruct (s_band p0) as [b0|] eqn:Eb0.
  - (* every piece has a band with the labels of s *)
    destruct (s_band s) as [bs0|] eqn:Ebs; [|exfalso; exact P0b].
    assert (HB : forall p, In p ps -> exists b, s_band p = Some b /\ nchan b = nchan bs0 /\ (bw b == bw bs0)%Q /\ forall j, (label b j == label bs0 j)%Q).
    { intros p Hin. destruct (HP p Hin) as (? & ? & _ & _ & _ & _ & Pb). rewrite Ebs in Pb. destruct (s_band p) as [b|]; [|exfalso; exact Pb]. exists b. split; [reflexivity|exact Pb]. }
    assert (HBs : exists bs, bands_of ps = Some bs /\ forall b, In b bs -> nchan b = nchan bs0 /\ (bw b == bw bs0)%Q /\ forall j, (label b j == label bs0 j)%Q).
    { clear -HB. induction ps as [|p l IH]; [exists []; split; [reflexivity|intros b []]|].
      destruct IH as (bs & Eb & Hb). { intros q Hq. apply HB. right. exact Hq. }
      destruct (HB p (or_introl eq_refl)) as (b & Epb & Pb). exists (b :: bs). cbn [bands_of]. rewrite Epb, Eb. split; [reflexivity|].
      intros b' [<-|Hin]; [exact Pb|apply Hb; exact Hin]. }
    destruct HBs as (bs & Ebs' & Hbs). rewrite Ebs'.
    cbn [band_labels_eq] in P0b. destruct P0b as (P0n & P0w & P0l).
    assert (C3 : forallb (fun b => close_rel rt (bw b0) (bw b)) bs = true).
    { apply forallb_forall. intros b Hin. destruct (Hbs b Hin) as (_ & Bw & _). apply close_rel_refl; [exact Hrt|]. rewrite P0w, Bw. reflexivity. }
    rewrite C3. cbn [negb].
    assert (C4 : forallb (fun b => all_close_abs (rt * bw b0) (labels b0) (labels b)) bs = true).
    { apply forallb_forall. intros b Hin. destruct (Hbs b Hin) as (Bn & _ & Bl).
      rewrite (all_close_abs_compat _ (labels b0) (labels bs0) (labels b) (labels bs0)).
      - apply all_close_abs_refl. rewrite P0w. apply Qmult_le_0_compat; [exact Hrt|exact Hbw].
      - apply labels_Forall2; assumption.
      - apply labels_Forall2; assumption. }
    rewrite C4. eexists. split; [reflexivity|]. cbn [s_led t0].
    split; [|exact HN].
    unfold is_piece. cbn [s_cls s_led s_band rate len t0]. split; [exact P0c|]. split; [reflexivity|]. split; [lia|]. split; [exact O|].
    rewrite Ebs. cbn [band_labels_eq nchan bw mk_band]. split; [exact P0n|]. split; [exact P0w|].
    intros j. fold (recentred b0). rewrite (recentre_labels b0 j). apply P0l.
  - destruct (s_band s) as [bs0|] eqn:Ebs; [exfalso; exact P0b|].
    eexists. split; [reflexivity|]. cbn [s_led t0]. split; [|exact HN].
    unfold is_piece. cbn [s_cls s_led s_band rate len t0]. split; [exact P0c|]. split; [reflexivity|]. split; [lia|]. split; [exact O|].
    rewrite Ebs. exact I.
Qed.

(* pieces joined in runs, runs then joined: each run concatenates (to a piece), and the concatenation of the run results is the
   piece covering everything -- the same stretch the flat concatenation yields *)
Inductive grouped : Z -> list (list sig) -> Z -> Prop :=
| g_nil c : grouped c [] c
| g_cons c m e p0 rest gs : chain c (p0 :: rest) m -> grouped m gs e -> grouped c ((p0 :: rest) :: gs) e.

Lemma grouped_runs eps rt : (0 <= eps)%Q -> (0 <= rt)%Q -> forall c gs e, grouped c gs e ->
  exists rs, Forall2 (fun g sg => concat eps rt 0 g = COk sg) gs rs /\ chain c rs e /\ chain c (List.concat gs) e /\
    ((forall sg, In sg rs -> t0 (s_led sg) = None) <-> (forall p, In p (List.concat gs) -> t0 (s_led p) = None)).
Proof.
  intros He Hrt c gs e G. induction G as [c|c m e p0 rest gs Hc G IH].
  - exists []. split; [constructor|]. split; [reflexivity|]. split; [reflexivity|]. split; intros _ ? [].
  - destruct IH as (rs & F & Crs & Cfl & Nn).
    destruct (concat_pieces eps rt p0 rest c m He Hrt Hc) as (sg & E & P & N).
    exists (sg :: rs). split; [constructor; [exact E|exact F]|].
    assert (Lsg : len (s_led sg) = m - c) by (destruct P as (_ & _ & L & _); exact L).
    split. { cbn [chain]. rewrite Lsg. split; [exact P|]. replace (c + (m - c)) with m by ring. exact Crs. }
    split. { cbn [List.concat]. eapply chain_app; [exact Hc|exact Cfl]. }
    cbn [List.concat]. split.
    + intros X p Hin. apply in_app_or in Hin. destruct Hin as [Hin|Hin].
      * apply (proj1 N); [apply X; left; reflexivity|exact Hin].
      * apply (proj1 Nn); [intros sg' Hs; apply X; right; exact Hs|exact Hin].
    + intros X sg' [<-|Hs].
      * apply N. intros p Hin. apply X. apply in_or_app. left. exact Hin.
      * apply (proj2 Nn); [intros p Hin; apply X; apply in_or_app; right; exact Hin|exact Hs].
Qed.

Theorem concat_any_grouping eps rt c g0 gs e : (0 <= eps)%Q -> (0 <= rt)%Q -> grouped c (g0 :: gs) e ->
  exists rs s1 s2,
    Forall2 (fun g sg => concat eps rt 0 g = COk sg) (g0 :: gs) rs /\
    concat eps rt 0 rs = COk s1 /\ concat eps rt 0 (List.concat (g0 :: gs)) = COk s2 /\
    is_piece c (e - c) s1 /\ is_piece c (e - c) s2 /\ (t0 (s_led s1) = None <-> t0 (s_led s2) = None).
Proof.
  intros He Hrt G. destruct (grouped_runs eps rt He Hrt c _ e G) as (rs & F & Crs & Cfl & Nn).
  destruct rs as [|r0 rs']; [inversion F|].
  destruct (concat_pieces eps rt r0 rs' c e He Hrt Crs) as (s1 & E1 & P1 & N1).
  inversion G as [|c' m e' p0 rest gs' Hc G' X1 X2 X3]; subst.
  cbn [List.concat app] in Cfl |- *.
  destruct (concat_pieces eps rt p0 (rest ++ List.concat gs) c e He Hrt Cfl) as (s2 & E2 & P2 & N2).
  exists (r0 :: rs'), s1, s2. split; [exact F|]. split; [exact E1|]. split; [exact E2|]. split; [exact P1|]. split; [exact P2|].
  rewrite N1, N2. exact Nn.
Qed.
End Pieces.

(* the pieces tsplit produces form a chain of the signal they were cut from *)
Lemma split_chain s : (0 < rate (s_led s))%Q -> (match s_band s with Some b => True | None => True end) ->
  forall cuts c0, chain s c0 (map (fun l => {| s_cls := s_cls s; s_led := l; s_band := s_band s |}) (split_at (s_led s) c0 cuts)) (last_cut c0 cuts).
Proof.
  intros Hr _. induction cuts as [|[c1 k] cs IH]; intros c0; cbn [split_at map chain last_cut]; [reflexivity|].
  cbn [s_led len]. replace (c0 + (c1 - c0)) with c1 by ring. split; [|apply IH].
  unfold is_piece. cbn [s_cls s_led s_band rate len t0]. split; [reflexivity|]. split; [reflexivity|]. split; [reflexivity|].
  split.
  - unfold start_ok. destruct k; [|exact I]. destruct (t0 (s_led s)); [reflexivity|exact I].
  - destruct (s_band s); cbn [band_labels_eq]; [|exact I]. split; [reflexivity|]. split; [reflexivity|]. intros j. reflexivity.
Qed.

Lemma chain_split s : forall ps qs c e, chain s c (ps ++ qs) e -> exists m, chain s c ps m /\ chain s m qs e.
Proof.
  induction ps as [|p ps IH]; intros qs c e H; cbn [app chain] in *.
  - exists c. split; [reflexivity|exact H].
  - destruct H as [P H]. destruct (IH qs _ e H) as (m & H1 & H2). exists m. split; [split; [exact P|exact H1]|exact H2].
Qed.
Lemma chain_grouped s : forall gs c e, Forall (fun g => g <> []) gs -> chain s c (List.concat gs) e -> grouped s c gs e.
Proof.
  induction gs as [|g gs IH]; intros c e F H; cbn [List.concat] in H.
  - cbn [chain] in H. subst. constructor.
  - inversion F as [|? ? Fg Fgs]; subst. destruct (chain_split s g (List.concat gs) c e H) as (m & H1 & H2).
    destruct g as [|p0 rest]; [contradiction Fg; reflexivity|]. econstructor; [exact H1|apply IH; assumption].
Qed.

(* split a signal at arbitrary points (some pieces losing their start time), join the pieces in ARBITRARY runs, then join the runs:
   every run is accepted, the runs are accepted, and the result is the whole signal again *)
Theorem split_regroup eps rt s cuts g0 gs :
  (0 <= eps)%Q -> (0 <= rt)%Q -> (0 < rate (s_led s))%Q -> (match s_band s with Some b => (0 <= bw b)%Q | None => True end) ->
  Forall (fun g => g <> []) (g0 :: gs) -> List.concat (g0 :: gs) = tsplit s cuts -> last_cut 0 cuts = len (s_led s) ->
  exists rs s1, Forall2 (fun g sg => concat eps rt 0 g = COk sg) (g0 :: gs) rs /\ concat eps rt 0 rs = COk s1 /\
    is_piece s 0 (len (s_led s)) s1 /\
    (t0 (s_led s1) = None <-> forall p, In p (tsplit s cuts) -> t0 (s_led p) = None).
Proof.
  intros He Hrt Hr Hbw F Efl Hlast.
  assert (Hc : chain s 0 (List.concat (g0 :: gs)) (len (s_led s))).
  { rewrite Efl, <- Hlast. unfold tsplit. apply split_chain; [exact Hr|destruct (s_band s); exact I]. }
  pose proof (chain_grouped s _ _ _ F Hc) as G.
  destruct (grouped_runs s Hr Hbw eps rt He Hrt 0 _ _ G) as (rs & F2 & Crs & _ & Nn).
  destruct rs as [|r0 rs']; [inversion F2|].
  destruct (concat_pieces s Hr Hbw eps rt r0 rs' 0 _ He Hrt Crs) as (s1 & E1 & P1 & N1).
  exists (r0 :: rs'), s1. split; [exact F2|]. split; [exact E1|]. rewrite Z.sub_0_r in P1. split; [exact P1|].
  rewrite N1, <- Efl. exact Nn.
Qed.

Example split_regroup_example :
  let s := {| s_cls := 5; s_led := {| t0 := Some (100#1); rate := 10#1; len := 9 |}; s_band := Some (mk_band (1400#1) (2#1) 4 0) |} in
  match tsplit s [(2, true); (2, false); (5, true); (9, false)] with
  | [a; b; c; d] =>
    match concat (1#1000) (1#100000) 0 [b; c], concat (1#1000) (1#100000) 0 [d] with
    | COk bc, COk d' => match concat (1#1000) (1#100000) 0 [a; bc; d'] with
                        | COk s' => len (s_led s') = 9 /\ oq_eq (t0 (s_led s')) (Some (100#1))
                        | CErr _ => False end
    | _, _ => False end
  | _ => False end.
Proof. vm_compute. split; reflexivity. Qed.
