(* Props/C02.v -- channel frequency labels follow the band model and survive frequency slicing. *)
From Coq Require Import ZArith QArith List.
From PB Require Import Lib.PySlice Gen.GenConsts Model.Band Proofs.BandProofs.
Open Scope Z_scope.

(* the _align constants in core.py are 0, 1/2, 1: a statement about the table GENERATED from the source *)
Theorem C02_align_constants : (align_q 0 == 0)%Q /\ (align_q 1 == 1 # 2)%Q /\ (align_q 2 == 1)%Q.
Proof. exact align_q_vals. Qed.
Theorem C02_label_formula_text : label_formula_is_canonical = true.
Proof. exact label_formula_canonical. Qed.

Theorem C02_spacing : forall b i, (label b (i + 1) - label b i == bw b)%Q.
Proof. exact label_spacing. Qed.
Theorem C02_in_band : forall b i, valid_align (align b) -> (0 < bw b)%Q -> 0 <= i < nchan b ->
  (min_freq b <= label b i <= max_freq b)%Q.
Proof. exact labels_in_band. Qed.
Theorem C02_width : forall b, (max_freq b - min_freq b == inject_Z (nchan b) * bw b)%Q.
Proof. exact band_width. Qed.
Theorem C02_odd_center : forall n a, Z.odd n = true -> norm_align n a = 1.
Proof. exact norm_align_odd. Qed.

Theorem C02_slice : forall b a c st b' lo,
  0 <= nchan b -> freq_slice b a c st = BOk b' lo ->
  0 <= lo /\ 1 <= nchan b' /\ lo + nchan b' <= nchan b /\ (bw b' == bw b)%Q /\ align b' = 1 /\
  lo = clip (nchan b) a 0 /\ lo + nchan b' = clip (nchan b) c (nchan b) /\
  forall j, (label b' j == label b (lo + j))%Q.
Proof. exact freq_slice_labels. Qed.

Theorem C02_nested : forall sl b b' lo,
  0 <= nchan b -> freq_slices b sl = BOk b' lo ->
  0 <= lo /\ lo + nchan b' <= nchan b /\ (bw b' == bw b)%Q /\ forall j, (label b' j == label b (lo + j))%Q.
Proof. exact freq_slices_labels. Qed.

Theorem C02_model_meets_spec : forall b tol,
  1 <= nchan b -> (0 < bw b)%Q -> valid_align (align b) -> (Z.odd (nchan b) = true -> align b = 1) ->
  (0 <= tol)%Q -> C02_ok tol (bobs_of_model b) = 0.
Proof. exact band_meets_spec. Qed.

Print Assumptions C02_align_constants.
Print Assumptions C02_in_band.
Print Assumptions C02_slice.
Print Assumptions C02_nested.
Print Assumptions C02_model_meets_spec.
