(* Proofs/UfuncProofs.v -- C17 *)
From Coq Require Import List Bool Arith Lia.
From PB Require Import Model.Ufunc.
Import ListNotations.

Section P.
  Variable A : Type.
  Variable ufunc : list A -> list A.
  Notation sig := (sig A). Notation operand := (operand A).

  (* reductions, accumulations, outer, at and matmul are refused *)
  Theorem refused m mm inputs out : m <> MCall \/ mm = true -> array_ufunc A ufunc m mm inputs out = NotImplemented A.
  Proof. intros [H| ->]; destruct m; try reflexivity; try congruence. Qed.

  Lemma first_sig_some inputs (s : sig) : first_sig A inputs = Some s -> In (OSig A s) inputs.
  Proof. induction inputs as [|[t|a] r IH]; cbn; intros H; [discriminate|injection H as <-; left; reflexivity|right; apply IH; exact H]. Qed.
  (* the reference is the FIRST signal: every operand before it is a plain array *)
  Lemma first_sig_first inputs (s : sig) : first_sig A inputs = Some s ->
    exists pre post, inputs = pre ++ OSig A s :: post /\ forallb (fun o => negb (is_sig A o)) pre = true.
  Proof. induction inputs as [|[t|a] r IH]; cbn; intros H; [discriminate| |].
    - injection H as <-. exists [], r. split; reflexivity.
    - destruct (IH H) as (pre & post & E & F). exists (OArr A a :: pre), post. split; [rewrite E; reflexivity|cbn; exact F]. Qed.

  (* values, type and metadata of every result *)
  Theorem call_results inputs out (ref : sig) :
    first_sig A inputs = Some ref -> length out = length (ufunc (map (unwrap A) inputs)) ->
    exists rs, array_ufunc A ufunc MCall false inputs out = Results A rs /\ length rs = length out /\
    forall i a o, nth_error (ufunc (map (unwrap A) inputs)) i = Some a -> nth_error out i = Some o ->
      nth_error rs i = Some (wrap A ref a o).
  Proof.
    intros Hf Hl. unfold array_ufunc.
    assert (E : first_sig A (inputs ++ flat_map (fun o => match o with Some x => [x] | None => [] end) out) = Some ref).
    { clear Hl. induction inputs as [|[t|a] r IH]; cbn in *; [discriminate|exact Hf|apply IH; exact Hf]. }
    rewrite E, Hf. eexists. split; [reflexivity|]. split.
    - rewrite map_length, combine_length. lia.
    - intros i a o Ha Ho. rewrite nth_error_map.
      assert (nth_error (combine (ufunc (map (unwrap A) inputs)) out) i = Some (a, o)).
      { revert i Ha Ho. generalize (ufunc (map (unwrap A) inputs)) as vals. clear. intros vals. revert out.
        induction vals as [|v vs IH]; intros out i Ha Ho; [destruct i; discriminate|].
        destruct out as [|o' os]; [destruct i; discriminate|]. destruct i as [|i]; cbn in *.
        - injection Ha as <-. injection Ho as <-. reflexivity.
        - apply IH; assumption. }
      rewrite H. reflexivity.
  Qed.

  (* without out=: a new signal of the reference's class and metadata holding exactly the ufunc's value *)
  Corollary no_out_result (ref : sig) a :
    wrap A ref a None = RSig A {| s_id := 0; s_cls := s_cls A ref; s_meta := s_meta A ref; s_data := a |}.
  Proof. reflexivity. Qed.
  (* with a signal as out: the SAME object comes back, with its OWN class and metadata, holding the value *)
  Corollary out_signal_result (ref z : sig) a :
    wrap A ref a (Some (OSig A z)) = RSig A {| s_id := s_id A z; s_cls := s_cls A z; s_meta := s_meta A z; s_data := a |}.
  Proof. reflexivity. Qed.
  (* with a plain array as out: that array comes back, not a signal *)
  Corollary out_array_result (ref : sig) a b : wrap A ref a (Some (OArr A b)) = RArr A a.
  Proof. reflexivity. Qed.

  (* chains of in-place operations keep identity, class and metadata of the target, whatever the other operands are *)
  Fixpoint chain (z : sig) (xs : list operand) : option sig :=
    match xs with
    | [] => Some z
    | x :: r => match inplace A ufunc z x with
                | Results _ [RSig _ z'] => chain z' r
                | _ => None
                end
    end.
  Theorem chain_keeps_identity (Hn : forall l, length (ufunc l) = 1) xs : forall z, exists z',
    chain z xs = Some z' /\ s_id A z' = s_id A z /\ s_cls A z' = s_cls A z /\ s_meta A z' = s_meta A z.
  Proof.
    induction xs as [|x r IH]; intros z; cbn [chain]; [exists z; auto|].
    unfold inplace, array_ufunc. cbn [first_sig app].
    specialize (Hn (map (unwrap A) [OSig A z; x])).
    destruct (ufunc (map (unwrap A) [OSig A z; x])) as [|v [|w l]] eqn:E; cbn in Hn; try lia.
    cbn [combine map fst snd wrap].
    destruct (IH {| s_id := s_id A z; s_cls := s_cls A z; s_meta := s_meta A z; s_data := v |}) as (z' & H1 & H2 & H3 & H4).
    exists z'. cbn in *. auto.
  Qed.
End P.
