(* Proofs/GetitemProofs.v -- C01 / C02: what the index dispatch of Signal.__getitem__ / RadioSignal.__getitem__ guarantees.
   (1) the model IS the function regenerated from core.py on every run (Gen/GenGetitem.v, translator T4);
   (2) a successful z[index] is exactly time_slice on item 0 (so every ledger theorem of C01 applies to it) and, for radio signals with a
       second item, freq_slice on item 1 (so every band theorem of C02 applies);
   (3) items after the labelled axes never influence the time or frequency labels;
   (4) anything but a slice on a labelled axis is refused with IndexError, before any slicing routine runs. *)
From Coq Require Import ZArith QArith List Bool.
From PB Require Import Lib.PySlice Model.Ledger Model.Band Model.Getitem Gen.GenGetitem.
Import ListNotations.
Open Scope Z_scope.

Theorem signal_getitem_generated l index : signal_getitem l index = gen_signal_getitem l index.
Proof.
  unfold signal_getitem, gen_signal_getitem, gen_time_update, guard, gen_signal_guard_width.
  destruct index as [|[a b c|] rest]; cbn [firstn forallb is_slice negb andb nth_error]; try reflexivity.
  all: destruct (time_slice l a b c); reflexivity.
Qed.

Theorem radio_getitem_generated l bd index : radio_getitem l bd index = gen_radio_getitem l bd index.
Proof.
  unfold radio_getitem, gen_radio_getitem, gen_time_update, gen_freq_update, guard, gen_radio_guard_width.
  destruct index as [|[a b c|] rest]; cbn [firstn forallb is_slice negb andb nth_error]; try reflexivity.
  destruct rest as [|[fa fb fc|] rest']; cbn [firstn forallb is_slice negb andb nth_error length Nat.ltb Nat.leb]; try reflexivity.
  all: destruct (time_slice l a b c); try reflexivity; try (destruct (freq_slice bd fa fb fc); reflexivity).
Qed.

(* (2) success = the slicing routines on items 0 and 1 *)
Theorem signal_getitem_ok l index l' off st r :
  signal_getitem l index = GOk l' off st r ->
  r = None /\ exists a b c rest, index = ISlice a b c :: rest /\ time_slice l a b c = Ok l' off st.
Proof.
  unfold signal_getitem, guard. destruct index as [|[a b c|] rest]; cbn [firstn forallb is_slice negb andb]; try discriminate.
  destruct (time_slice l a b c) eqn:E; try discriminate. intros H; injection H as -> -> -> <-.
  split; [reflexivity|]. exists a, b, c, rest. split; [reflexivity|exact E].
Qed.

Theorem radio_getitem_ok l bd index l' off st r :
  radio_getitem l bd index = GOk l' off st r ->
  exists a b c rest, index = ISlice a b c :: rest /\ time_slice l a b c = Ok l' off st /\
    match rest with
    | [] => r = None
    | ISlice fa fb fc :: _ => exists b' lo, r = Some (b', lo) /\ freq_slice bd fa fb fc = BOk b' lo
    | IOther :: _ => False
    end.
Proof.
  unfold radio_getitem, guard. destruct index as [|[a b c|] rest]; cbn [firstn forallb is_slice negb andb]; try discriminate.
  destruct rest as [|[fa fb fc|] rest']; cbn [firstn forallb is_slice negb andb]; try discriminate.
  - destruct (time_slice l a b c) eqn:E; try discriminate. intros H; injection H as -> -> -> <-.
    exists a, b, c, []. repeat split; assumption || reflexivity.
  - destruct (time_slice l a b c) eqn:E; try discriminate. destruct (freq_slice bd fa fb fc) eqn:F; try discriminate.
    intros H; injection H as -> -> -> <-. exists a, b, c, (ISlice fa fb fc :: rest'). repeat split; try assumption.
    exists b0, lo. split; [reflexivity|exact F].
Qed.

(* (3) items beyond the labelled axes are irrelevant to the labels *)
Theorem signal_getitem_trailing l i0 rest : signal_getitem l (i0 :: rest) = signal_getitem l [i0].
Proof. unfold signal_getitem, guard. destruct i0; reflexivity. Qed.

Theorem radio_getitem_trailing l bd i0 i1 rest : radio_getitem l bd (i0 :: i1 :: rest) = radio_getitem l bd [i0; i1].
Proof. unfold radio_getitem, guard. destruct i0, i1; reflexivity. Qed.

(* a radio signal indexed on time only keeps its band; the time part is what a plain Signal does *)
Theorem radio_getitem_time_only l bd i0 : radio_getitem l bd [i0] = signal_getitem l [i0].
Proof.
  unfold radio_getitem, signal_getitem, guard. destruct i0 as [a b c|]; cbn [firstn forallb is_slice negb andb]; [|reflexivity].
  destruct (time_slice l a b c); reflexivity.
Qed.

(* (4) refusal *)
Theorem signal_getitem_refuses l rest : signal_getitem l (IOther :: rest) = GIndex /\ signal_getitem l [] = GIndex.
Proof. split; reflexivity. Qed.

Theorem radio_getitem_refuses l bd i0 rest :
  radio_getitem l bd (IOther :: rest) = GIndex /\ radio_getitem l bd (i0 :: IOther :: rest) = GIndex /\ radio_getitem l bd [] = GIndex.
Proof. repeat split; try reflexivity. unfold radio_getitem, guard. destruct i0; reflexivity. Qed.

(* the model never answers GOther: the guard keeps non-slices away from the slicing routines *)
Theorem getitem_never_other l bd index : signal_getitem l index <> GOther /\ radio_getitem l bd index <> GOther.
Proof.
  split.
  - unfold signal_getitem, guard. destruct index as [|[a b c|] rest]; cbn [firstn forallb is_slice negb andb]; try discriminate.
    destruct (time_slice l a b c); discriminate.
  - unfold radio_getitem, guard. destruct index as [|[a b c|] rest]; cbn [firstn forallb is_slice negb andb]; try discriminate.
    destruct rest as [|[fa fb fc|] rest']; cbn [firstn forallb is_slice negb andb]; try discriminate.
    + destruct (time_slice l a b c); discriminate.
    + destruct (time_slice l a b c); try discriminate. destruct (freq_slice bd fa fb fc); discriminate.
Qed.

Theorem getitem_is_time_slice : forall l bd index l' off st r,
  signal_getitem l index = GOk l' off st r \/ radio_getitem l bd index = GOk l' off st r ->
  exists a b c rest, index = ISlice a b c :: rest /\ time_slice l a b c = Ok l' off st.
Proof.
  intros l bd index l' off st r [H|H].
  - destruct (signal_getitem_ok _ _ _ _ _ _ H) as [_ (a & b & c & rest & E & T)]. exists a, b, c, rest. split; assumption.
  - destruct (radio_getitem_ok _ _ _ _ _ _ _ H) as (a & b & c & rest & E & T & _). exists a, b, c, rest. split; assumption.
Qed.
Theorem getitem_refuses_all : forall l bd rest,
  signal_getitem l (IOther :: rest) = GIndex /\ radio_getitem l bd (IOther :: rest) = GIndex /\
  signal_getitem l [] = GIndex /\ radio_getitem l bd [] = GIndex.
Proof.
  intros l bd rest. destruct (signal_getitem_refuses l rest) as [A B]. destruct (radio_getitem_refuses l bd IOther rest) as [C [_ D]].
  repeat split; assumption.
Qed.

Theorem stokes_getitem_pinned : gen_stokes_getitem_is_component_or_parent = true.
Proof. reflexivity. Qed.
