"""Translator T11: the polarisation formulas of core.py -> Gallina over the abstract carrier of Model/Pol.v (Gen/GenPol.v).

Translated: BasebandSignal.to_intensity, DualPolarizationSignal.to_linear / to_circular / to_stokes: every arithmetic statement on the two
polarisation components (complex + - *, 1j *, .conj(), .real / .imag, ** 2, 2 *, the stacking order and the division by sqrt(2)), for
both values of pol_type.  The component extraction (`np.take(self.data, k, axis=axis)`), the stacking axis and the `like` calls are pinned.

Fail-closed: anything else raises Unsupported."""
import ast, pathlib, sys


class Unsupported(Exception):
    pass


def is_src(node, text):
    try:
        if isinstance(node, ast.stmt):
            return ast.dump(node) == ast.dump(ast.parse(text).body[0])
        return ast.dump(node) == ast.dump(ast.parse(text, mode='eval').body)
    except SyntaxError:
        return False


class Ex:
    """expressions over complex names (cenv) and real names (renv)"""

    def __init__(self, cenv, renv):
        self.c, self.r = dict(cenv), dict(renv)

    def is_complex(self, n):
        try:
            self.cx(n)
            return True
        except Unsupported:
            return False

    def cx(self, n):
        if isinstance(n, ast.Name) and n.id in self.c:
            return self.c[n.id]
        if isinstance(n, ast.BinOp) and isinstance(n.op, (ast.Add, ast.Sub)):
            return f'({"cadd" if isinstance(n.op, ast.Add) else "csub"} {self.cx(n.left)} {self.cx(n.right)})'
        if isinstance(n, ast.BinOp) and isinstance(n.op, ast.Mult):
            if isinstance(n.left, ast.Constant) and n.left.value == 1j:
                return f'(imul {self.cx(n.right)})'
            return f'(cmul {self.cx(n.left)} {self.cx(n.right)})'
        if isinstance(n, ast.Call) and isinstance(n.func, ast.Attribute) and n.func.attr == 'conj' and not n.args and not n.keywords:
            return f'(cconj {self.cx(n.func.value)})'
        raise Unsupported('complex expression ' + ast.unparse(n))

    def re(self, n):
        if isinstance(n, ast.Name) and n.id in self.r:
            return self.r[n.id]
        if isinstance(n, ast.Attribute) and n.attr in ('real', 'imag'):
            return f'({"fst" if n.attr == "real" else "snd"} {self.cx(n.value)})'
        if isinstance(n, ast.BinOp) and isinstance(n.op, ast.Pow) and isinstance(n.right, ast.Constant) and n.right.value == 2:
            e = self.re(n.left)
            return f'(mul {e} {e})'
        if isinstance(n, ast.BinOp) and isinstance(n.op, ast.Mult) and isinstance(n.left, ast.Constant) and n.left.value == 2 and not isinstance(n.left.value, complex):
            return f'(mul two {self.re(n.right)})'
        if isinstance(n, ast.BinOp) and isinstance(n.op, (ast.Add, ast.Sub)):
            return f'({"add" if isinstance(n.op, ast.Add) else "sub"} {self.re(n.left)} {self.re(n.right)})'
        raise Unsupported('real expression ' + ast.unparse(n))


def find_method(tree, cls, name):
    for n in tree.body:
        if isinstance(n, ast.ClassDef) and n.name == cls:
            for m in n.body:
                if isinstance(m, ast.FunctionDef) and m.name == name and not m.decorator_list:
                    return m
    raise Unsupported(f'{cls}.{name} not found')


def nodoc(fn):
    return [s for s in fn.body if not (isinstance(s, ast.Expr) and isinstance(s.value, ast.Constant) and isinstance(s.value.value, str))]


def take_pair(stmts, names_out):
    """axis = self.get_axis("pol"); P = np.take(self.data, 0, axis=axis); Q = np.take(self.data, 1, axis=axis) -> names"""
    if not is_src(stmts[0], 'axis = self.get_axis("pol")'):
        raise Unsupported('polarisation axis: ' + ast.unparse(stmts[0]))
    got = []
    for k, st in enumerate(stmts[1:3]):
        if not (isinstance(st, ast.Assign) and isinstance(st.targets[0], ast.Name) and is_src(st.value, f'np.take(self.data, {k}, axis=axis)')):
            raise Unsupported('component extraction: ' + ast.unparse(st))
        got.append(st.targets[0].id)
    return got


def conversion(fn, from_type, to_type, gen_name):
    """to_linear / to_circular: if self.pol_type == <from>: ... z = np.stack([P, Q], axis=axis) / np.sqrt(2) else: z = self.data ; return like(..., pol_type=<to>)"""
    body = nodoc(fn)
    if len(body) != 2 or not isinstance(body[0], ast.If) or not is_src(body[0].test, f'self.pol_type == "{from_type}"') \
       or len(body[0].orelse) != 1 or not is_src(body[0].orelse[0], 'z = self.data') \
       or not is_src(body[1], f'return type(self).like(self, z, pol_type="{to_type}")'):
        raise Unsupported(fn.name + ': shape of the method')
    blk = body[0].body
    a, b = take_pair(blk, None)
    ex = Ex({a: 'a', b: 'b'}, {})
    lets = []
    for st in blk[3:-1]:
        if not (isinstance(st, ast.Assign) and isinstance(st.targets[0], ast.Name)):
            raise Unsupported(fn.name + ': statement ' + ast.unparse(st))
        x = st.targets[0].id
        lets.append(f'let {x}_ := {ex.cx(st.value)} in')
        ex.c[x] = x + '_'
    last = blk[-1]
    if not (isinstance(last, ast.Assign) and ast.unparse(last.targets[0]) == 'z' and isinstance(last.value, ast.BinOp) and isinstance(last.value.op, ast.Div)
            and is_src(last.value.right, 'np.sqrt(2)') and isinstance(last.value.left, ast.Call) and ast.unparse(last.value.left.func) == 'np.stack'
            and len(last.value.left.args) == 1 and isinstance(last.value.left.args[0], ast.List) and len(last.value.left.args[0].elts) == 2
            and [k.arg for k in last.value.left.keywords] == ['axis'] and is_src(last.value.left.keywords[0].value, 'axis')):
        raise Unsupported(fn.name + ': stacking ' + ast.unparse(last))
    p, q = (ex.cx(e) for e in last.value.left.args[0].elts)
    return f'  Definition {gen_name} (a b : Cx) : Cx * Cx :=\n    ' + '\n    '.join(lets) + f'\n    (cdivr {p} s, cdivr {q} s).'


def generate(repo='/repo'):
    tree = ast.parse(pathlib.Path(repo, 'pulsarbat', 'core.py').read_text())
    out = ['(* GENERATED by translate/py_pol2coq.py from core.py (to_intensity, to_linear, to_circular, to_stokes) -- do not edit *)',
           'From Coq Require Import List.', 'From PB Require Import Model.Pol.', 'Import ListNotations.', 'Section GenPol.',
           '  Variable T : Type.', '  Variables (add sub mul div : T -> T -> T) (opp : T -> T) (zero two s : T).',
           '  Notation Cx := (Cx T).', '  Notation cadd := (cadd T add).', '  Notation csub := (csub T sub).', '  Notation cmul := (cmul T add sub mul).',
           '  Notation cconj := (cconj T opp).', '  Notation cdivr := (cdivr T div).', '  Notation imul := (imul T opp).']
    # to_intensity
    b = nodoc(find_method(tree, 'BasebandSignal', 'to_intensity'))
    if len(b) != 2 or not (isinstance(b[0], ast.Assign) and ast.unparse(b[0].targets[0]) == 'z') or not is_src(b[1], 'return IntensitySignal.like(self, z)'):
        raise Unsupported('to_intensity: shape of the method')

    class DataEx(Ex):
        def cx(self, n):
            if is_src(n, 'self.data'):
                return 'a'
            return super().cx(n)
    out.append(f'  Definition gen_intensity (a : Cx) : T := {DataEx({}, {}).re(b[0].value)}.')
    out.append(conversion(find_method(tree, 'DualPolarizationSignal', 'to_linear'), 'circular', 'linear', 'gen_to_lin'))
    out.append(conversion(find_method(tree, 'DualPolarizationSignal', 'to_circular'), 'linear', 'circular', 'gen_to_circ'))
    # to_stokes
    body = nodoc(find_method(tree, 'DualPolarizationSignal', 'to_stokes'))
    if len(body) != 6:
        raise Unsupported('to_stokes: expected six statements')
    A, B = take_pair(body, None)
    iff = body[3]
    if not (isinstance(iff, ast.If) and is_src(iff.test, 'self.pol_type == "linear"') and len(iff.orelse) == 1 and isinstance(iff.orelse[0], ast.If)
            and is_src(iff.orelse[0].test, 'self.pol_type == "circular"') and not iff.orelse[0].orelse):
        raise Unsupported('to_stokes: branches')
    st5 = body[4]
    if not (isinstance(st5, ast.Assign) and ast.unparse(st5.targets[0]) == 'z' and isinstance(st5.value, ast.Call) and ast.unparse(st5.value.func) == 'np.stack'
            and isinstance(st5.value.args[0], ast.List) and len(st5.value.args[0].elts) == 4 and all(isinstance(e, ast.Name) for e in st5.value.args[0].elts)
            and [k.arg for k in st5.value.keywords] == ['axis'] and is_src(st5.value.keywords[0].value, 'axis')):
        raise Unsupported('to_stokes: stacking ' + ast.unparse(st5))
    order = [e.id for e in st5.value.args[0].elts]
    if not is_src(body[5], 'return FullStokesSignal.like(self, z)'):
        raise Unsupported('to_stokes: return')
    for gen_name, blk in (('gen_stokes_lin', iff.body), ('gen_stokes_circ', iff.orelse[0].body)):
        first = blk[0]
        if not (isinstance(first, ast.Assign) and isinstance(first.targets[0], ast.Tuple) and is_src(first.value, f'{A}, {B}')
                and len(first.targets[0].elts) == 2):
            raise Unsupported('to_stokes: naming of the components ' + ast.unparse(first))
        p, q = (e.id for e in first.targets[0].elts)
        ex = Ex({p: 'a', q: 'b'}, {})
        lets = []
        for st in blk[1:]:
            if not (isinstance(st, ast.Assign) and isinstance(st.targets[0], ast.Name)):
                raise Unsupported('to_stokes: statement ' + ast.unparse(st))
            x = st.targets[0].id
            try:
                t = ex.re(st.value)
                ex.r[x] = x + '_'
            except Unsupported:
                t = ex.cx(st.value)
                ex.c[x] = x + '_'
            lets.append(f'let {x}_ := {t} in')
        if any(o not in ex.r for o in order):
            raise Unsupported('to_stokes: stacked names ' + repr(order))
        out.append(f'  Definition {gen_name} (a b : Cx) : list T :=\n    ' + '\n    '.join(lets) + '\n    [' + '; '.join(ex.r[o] for o in order) + '].')
    out.append('End GenPol.')
    return '\n'.join(out) + '\n'


if __name__ == '__main__':
    sys.stdout.write(generate(sys.argv[1] if len(sys.argv) > 1 else '/repo'))
