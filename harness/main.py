"""./check entry point.  Usage: check Cxx [--tier quick|thorough] [--replay file] | check --setup | check all"""
import argparse, importlib, json, os, sys, time, traceback
from harness import common


def run_one(prop, tier, seed, replay=None):
    ctx = common.Ctx(prop, tier, seed)
    try:
        mod = importlib.import_module(f'harness.{prop.lower()}')
        if replay:
            ctx.replay = json.load(open(replay))
        else:
            ctx.replay = None
        from harness import corpus
        corpus.run(ctx)              # the minimised inputs of repaired defects first
        mod.run(ctx)
    except Exception as e:  # a crashing harness must never look like a pass
        ctx.broke('harness', f'{type(e).__name__}: {e}', traceback.format_exc())
    return ctx.finish()


def setup():
    """Build everything once from files on disk (offline): regenerate Gen/, full make."""
    from translate import regen_all
    res = regen_all.run()
    for k, v in res.items():
        print('regen', k, 'ok' if v is None else 'FAILED ' + v)
    ok, log = common.coq_make([], timeout=3000)
    print(log[-3000:])
    return 0 if ok else 1


def main():
    ap = argparse.ArgumentParser()
    ap.add_argument('prop', nargs='?')
    ap.add_argument('--tier', default=os.environ.get('VERIF_TIER', 'quick'))
    ap.add_argument('--replay')
    ap.add_argument('--setup', action='store_true')
    a = ap.parse_args()
    if a.setup:
        sys.exit(setup())
    seed = int(os.environ.get('VERIF_SEED', '0') or 0)
    tier = a.tier if a.tier in ('quick', 'thorough') else 'quick'
    if a.prop == 'all':
        m = json.load(open(os.path.join(common.VERIF, 'MANIFEST.json')))
        rc = 0
        for c in m['checks']:
            rc |= run_one(c['property_id'], tier, seed)
        sys.exit(rc)
    sys.exit(run_one(a.prop, tier, seed, a.replay))


if __name__ == '__main__':
    main()
