(* Model/Polyco.v -- pulsar.predictor (C08): entries built by from_polyco, evaluation (__call__), f0 (derivatives), phasepol
   (recentred polynomial), entry selection (searchsorted on span ends) and the validity-interval merge loop, in exact rational
   arithmetic.  Times are rational seconds on one uniform time scale.  No proofs in this file. *)
From Coq Require Import ZArith QArith Qround Qabs Qminmax List Bool.
Import ListNotations.
Open Scope Q_scope.

(* numpy Polynomial.__call__: Horner *)
Fixpoint peval (cs : list Q) (x : Q) : Q := match cs with [] => 0 | c :: cs' => c + x * peval cs' x end.
(* Polynomial(coeffs, domain=[-60, 60]).convert(): coefficient i is divided by 60^i  (k = 60^i) *)
Fixpoint conv (k : Q) (cs : list Q) : list Q := match cs with [] => [] | c :: cs' => (c / k) :: conv (k * 60) cs' end.
(* Polynomial.deriv *)
Fixpoint deriv_from (k : Q) (cs : list Q) : list Q := match cs with [] => [] | c :: cs' => (k * c) :: deriv_from (k + 1) cs' end.
Definition deriv (cs : list Q) : list Q := match cs with [] => [] | _ :: cs' => deriv_from 1 cs' end.
Fixpoint nderiv (n : nat) (cs : list Q) : list Q := match n with O => cs | S k => nderiv k (deriv cs) end.
(* polynomial arithmetic used by phasepol's domain shift + convert(): q(x) = p(x + d) *)
Fixpoint padd (a b : list Q) : list Q :=
  match a, b with [], _ => b | _, [] => a | x :: a', y :: b' => Qred (x + y) :: padd a' b' end.   (* Qred: same rational, reduced *)
Definition pscal (d : Q) (a : list Q) : list Q := map (Qmult d) a.
Fixpoint pshift (cs : list Q) (d : Q) : list Q :=
  match cs with [] => [] | c :: cs' => let s := pshift cs' d in padd [c] (padd (pscal d s) (0 :: s)) end.

(* one polyco entry as read from the file (numbers already parsed) *)
Record raw_entry := { r_tmid : Q; r_span : Q; r_rint : Z; r_rfrac : Q; r_f0 : Q; r_coeffs : list Q }.
Record entry := { e_tmid : Q; e_span : Q; e_rphase : Z; e_poly : list Q }.
(* a single coefficient is padded with 0.0; coeffs[0] += float("0." + r_frac); coeffs[1] += float(f0) * 60;
   Polynomial(coeffs, domain=[-60, 60]).convert().   None: no coefficient at all (IndexError) *)
Definition pad2 (cs : list Q) : list Q := match cs with [c0] => [c0; 0] | _ => cs end.
Definition mk_entry (r : raw_entry) : option entry :=
  match pad2 (r_coeffs r) with
  | c0 :: c1 :: rest =>
    Some {| e_tmid := r_tmid r; e_span := r_span r; e_rphase := r_rint r;
            e_poly := conv 1 ((c0 + r_rfrac r) :: (c1 + r_f0 r * 60) :: rest) |}
  | _ => None
  end.

(* PhasePredictor.__init__: sorted(data, key=tmid)  (stable) *)
Fixpoint insert_by {A} (key : A -> Q) (x : A) (l : list A) : list A :=
  match l with [] => [x] | y :: r => if Qle_bool (key y) (key x) then y :: insert_by key x r else x :: l end.
Definition sort_by {A} (key : A -> Q) (l : list A) : list A := fold_left (fun acc x => insert_by key x acc) l [].

Definition e_start (e : entry) : Q := e_tmid e - e_span e / 2.
Definition e_end (e : entry) : Q := e_tmid e + e_span e / 2.

(* intervals: sorted by stop, popped from the largest stop downwards, merged when overlapping / touching within eps *)
Fixpoint merge (eps : Q) (l : list (Q * Q)) (start stop : Q) (acc : list (Q * Q)) : list (Q * Q) :=
  match l with
  | [] => (start, stop) :: acc
  | (ns, ne) :: r =>
    if Qle_bool start ne || Qle_bool (Qabs (start - ne)) eps then merge eps r (Qmin start ns) stop acc
    else merge eps r ns ne ((start, stop) :: acc)
  end.
Definition intervals (eps : Q) (es : list entry) : list (Q * Q) :=
  match rev (sort_by snd (map (fun e => (e_start e, e_end e)) es)) with
  | [] => []
  | (s, e) :: r => merge eps r s e []
  end.

Definition in_intervals (iv : list (Q * Q)) (t : Q) : bool :=
  existsb (fun ab => Qle_bool (fst ab) t && Qle_bool t (snd ab)) iv.
(* np.searchsorted(span_ends, t): number of ends strictly below t *)
Fixpoint searchsorted (ends : list Q) (t : Q) : nat :=
  match ends with [] => O | x :: r => if Qle_bool t x then O else S (searchsorted r t) end.

(* _get_index_and_dt: None = ValueError (outside the predictor range) *)
Definition index_dt (eps : Q) (es : list entry) (t : Q) : option (entry * Q) :=
  if in_intervals (intervals eps es) t then
    match nth_error es (searchsorted (map e_end es) t) with
    | Some e => Some (e, t - e_tmid e)
    | None => None
    end
  else None.

(* __call__: (rphase, poly(dt)) -> Phase(ph1, ph2); the exact value is their sum *)
Definition predict (eps : Q) (es : list entry) (t : Q) : option Q :=
  match index_dt eps es t with Some (e, dt) => Some (inject_Z (e_rphase e) + peval (e_poly e) dt) | None => None end.
(* f0(t, n): poly.deriv(n + 1)(dt) *)
Definition f0 (eps : Q) (es : list entry) (t : Q) (n : nat) : option Q :=
  match index_dt eps es t with Some (e, dt) => Some (peval (nderiv (S n) (e_poly e)) dt) | None => None end.
(* phasepol(t0): ((p(. + dt) - a).convert(), Phase(rphase + a)) with a = floor(p(dt)) *)
Definition phasepol (eps : Q) (es : list entry) (t0 : Q) : option (list Q * Z) :=
  match index_dt eps es t0 with
  | Some (e, dt) => let a := Qfloor (peval (e_poly e) dt) in
                    Some (padd [- inject_Z a] (pshift (e_poly e) dt), (e_rphase e + a)%Z)
  | None => None
  end.

(* the tempo formula the property states: DT in minutes from TMID *)
Definition tempo (rphase f0 : Q) (coeffs : list Q) (DT : Q) : Q := rphase + DT * 60 * f0 + peval coeffs DT.

Definition predictor (raws : list raw_entry) : option (list entry) :=
  let fix go (l : list raw_entry) : option (list entry) :=
    match l with
    | [] => Some []
    | r :: rest => match mk_entry r, go rest with Some e, Some es => Some (e :: es) | _, _ => None end
    end in
  option_map (sort_by e_tmid) (go raws).
