"""C07: Phase arithmetic keeps two-double precision for every operand kind.
(P) Props/C07.v (Flocq): two_sum exact, floor, day_frac within 2^-53, Phase+Phase / Phase-Phase within 2^-52, negation,
    flag algebra of imaginary factors / divisors;
(T) Model/Phase2.v is a bit-exact binary64 model (kernel floats) of day_frac / from_angles / the __array_ufunc__ branches:
    every case is evaluated by vm_compute and compared BIT FOR BIT with the (int, frac, imaginary) the implementation returned;
(M) the property itself on exact rationals: |result - exact expression| <= 2^-52, int integer-valued, |frac| <= 1/2, result is a
    Phase (never silently a single double), imaginary flag right, for every operand kind and both operand orders."""
import math
from fractions import Fraction as Fr
import numpy as np
import astropy.units as u
from astropy.coordinates import Angle
from pulsarbat.pulsar.phase import Phase, FractionalPhase
from harness.common import float_lit, zlit, listlit

VFILES = ['Model/Phase2.v', 'Gen/GenPhase.v', 'Proofs/PhaseGen.v', 'Proofs/TwoSumExact.v', 'Proofs/Floor.v', 'Proofs/DayFrac.v', 'Proofs/DayFrac3.v', 'Proofs/PhaseAdd.v',
          'Proofs/PhaseCmp.v', 'Proofs/PhaseMore.v', 'Proofs/PhaseAddWide.v', 'Proofs/DayFracTail.v', 'Proofs/FoldHalf.v', 'Proofs/DayFracFold.v', 'Proofs/TwoProduct.v', 'Proofs/PhaseMul.v', 'Proofs/PhaseAbs.v', 'Proofs/DivChain.v', 'Proofs/PhaseDiv.v', 'Model/PhaseDivmod.v', 'Model/PhaseOrd.v', 'Proofs/PhaseArgmin.v', 'Proofs/PhaseSort.v', 'Proofs/PhaseRemainder.v', 'Proofs/PhaseDivmodProofs.v', 'Proofs/PhaseDivmodFloor.v', 'Proofs/FmodSpec.v', 'Proofs/FloorDivSpec.v', 'Proofs/PhaseDivmodFinal.v', 'Gen/GenPhaseOrd.v', 'Proofs/PhaseOrdGen.v', 'Props/C07.v']
REAL_AX = {'ClassicalDedekindReals.sig_forall_dec', 'ClassicalDedekindReals.sig_not_dec',
           'FunctionalExtensionality.functional_extensionality_dep', 'Classical_Prop.classic', 'float'}
TOL = Fr(1, 2 ** 52)

HEADER = '''From Coq Require Import ZArith Bool PrimFloat List. Import ListNotations.
From PB Require Import Model.Phase2 Model.PhaseDivmod.
Definition P (i f : float) (b : bool) : ph := {| p_int := i; p_frac := f; p_imag := b |}.
Definition cmp_code (m : option bool) (impl : Z) : Z :=       (* impl: 0 False, 1 True, 2 not a bool / raised *)
  match m, impl with Some true, 1%Z => 0 | Some false, 0%Z => 0 | None, 2%Z => 0 | _, _ => 1 end%Z.
Definition chk_fdiv (a b q m : float) : Z := let '(fd, md) := np_divmod a b in (if feqb fd q then 0 else 1) + (if feqb md m then 0 else 2).
Open Scope Z_scope.
'''


def fl(x):
    return float_lit(float(x))


def ph_lit(p):
    """scalar Phase -> Coq literal"""
    v = p.view(np.ndarray)
    return f'(P {fl(v["int"])} {fl(v["frac"])} {"true" if p.imaginary else "false"})'


def num_lit(x):
    if isinstance(x, complex) or np.iscomplexobj(x):
        x = complex(x)
        return f'(NCplx {fl(x.real)} {fl(x.imag)})'
    return f'(NReal {fl(x)})'


def exact(p):
    """scalar Phase -> (Fraction value, imaginary)"""
    v = p.view(np.ndarray)
    return Fr(float(v['int'])) + Fr(float(v['frac'])), bool(p.imaginary)


def impl_res(thunk):
    try:
        r = thunk()
    except Exception as e:
        return None, 'RErr', e
    if isinstance(r, Phase):
        return r, None, None
    return r, 'RDecay', None


def with_destination(rng, a, fk, ufunc):
    """the same multiplication / division written INTO an existing Phase: an augmented assignment on a copy, or out= a Phase buffer of
    either kind (real / imaginary).  The destination receives the value AND the kind of the result.  -> (form, thunk) or None"""
    form = rng.choice(['plain', 'plain', 'inplace', 'out_real', 'out_imag'])
    if form == 'plain':
        return None
    if form == 'inplace':
        def th():
            p = a.copy()
            if ufunc is np.multiply:
                p *= fk
            else:
                p /= fk
            return p
    else:
        def th():
            buf = Phase(0.0) if form == 'out_real' else Phase(0.0) * 1j
            r = ufunc(a, fk, out=buf)
            if r is not buf:
                raise AssertionError('out= object not returned')
            return r
    return form, th


def rand_count(rng):
    k = rng.choice([0, 1, 3, 10, 20, 30, 40, 48, 50, 51])
    n = rng.randint(0, 2 ** k)
    if rng.random() < 0.08:
        n = rng.choice([2 ** 51 - 1, 2 ** 51, 2 ** 50 + 1, 2 ** 49 - 1])
    return rng.choice([1, -1]) * n


def rand_frac(rng):
    r = rng.random()
    if r < 0.12:
        return rng.choice([0.5, -0.5, 0.0, 0.25, -0.25])
    if r < 0.22:
        return rng.choice([5e-324, -5e-324, 1e-300, 1e-17, -3e-17, 2 ** -53, -2 ** -54, 0.5 - 2 ** -54, -0.5 + 2 ** -54, 0.5 - 2 ** -53])
    return rng.uniform(-0.5, 0.5)


class OperandFailed(Exception):
    pass


def rand_phase(rng, imag=False):
    c, f = float(rand_count(rng)), rand_frac(rng)
    try:
        return Phase(c * 1j, f * 1j) if imag else Phase(c, f)
    except Exception as e:          # constructing a valid operand must not fail: reported as a violation with this input
        raise OperandFailed(dict(op='construct2', x=c, y=f, imag=imag, error=repr(e)))


def as_kind(rng, x, kinds):
    """the same real number as a different Python / NumPy operand kind"""
    k = rng.choice(kinds)
    if k == 'pyint' and float(x).is_integer() and abs(x) < 2 ** 53:
        return int(x), k
    if k in ('npint', 'arrint0', 'npint32') and float(x).is_integer() and abs(x) < 2 ** 31:
        # integer-typed NumPy operands: the same number, another dtype
        return {'npint': np.int64(int(x)), 'arrint0': np.array(int(x)), 'npint32': np.int32(int(x))}[k], k
    if k in ('pyfloat', 'pyint', 'npint', 'arrint0', 'npint32'):
        return float(x), 'pyfloat'
    if k == 'npfloat':
        return np.float64(x), k
    if k == 'arr0':
        return np.array(float(x)), k
    if k == 'quantity':
        return u.Quantity(float(x), u.dimensionless_unscaled), k
    if k == 'cycles':
        return u.Quantity(float(x), u.cycle), k
    if k == 'angle':
        return Angle(float(x), u.cycle), k
    return float(x), 'pyfloat'


def run(ctx):
    rng = ctx.rng
    ctx.rule = ('counts |n| <= 2^51 (add/sub) resp. products/quotients <= 2^52, fractions uniform plus exact +-1/2, denormal-small, near-half; '
                'construction from one or two numbers incl. unnormalised pairs; +, -, unary -, abs, * and / by dimensionless numbers '
                '(Python int/float, NumPy scalar, 0-d array, n-d array, dimensionless Quantity), both operand orders, real and imaginary phases '
                'and factors; floor-division / remainder / divmod by a phase quantity; sin/cos/exp. Every case is non-trivial; distinct by '
                '(op, operands).')
    ctx.trusted = ["translator T7 translate/py_float2coq.py (day_frac, from_angles, the arguments of the __array_ufunc__ branches, the divmod branch -> PrimFloat terms; two_sum / two_product / np.floor are the model's definitions)", 'Coq 8.16.1 kernel; stdlib FloatAxioms (kernel binary64 primitives = IEEE 754) and the real-number axioms through Flocq; '
                   'vm_compute on primitive floats', 'astropy two_sum/two_product/split as transcribed (checked bit for bit on every case)',
                   'np.floor = mathematical floor on doubles (Proofs/Floor.ffloor_spec proves the model\'s floor is)']
    ctx.assumptions = ['integer operands beyond 2^53 and counts beyond 2^52 are outside the sampled domain (property: counts up to 2^52)',
                       'Phase // x, Phase % x with a bare number raise UnitConversionError by astropy convention (a cycle count cannot be '
                       'floor-divided by a dimensionless number); the divisor is sampled as a phase quantity']
    built = ctx.build(['Props/C07.vo'])
    ctx.count_obligations(VFILES)
    if built:
        ctx.assumptions_of('Props/C07.v', allowed=REAL_AX)

    items, meta = [], []

    def add_item(term, inp, impl):
        items.append(term)
        meta.append(dict(inp=inp, impl=impl))

    def monitor(name, inp, r, want, want_imag, tol=TOL):
        """r: implementation result; want: exact Fraction"""
        if not isinstance(r, Phase):
            ctx.fail('result_not_a_phase', inp, impl=type(r).__name__ + ': ' + repr(r)[:80], model=float(want))
            return
        rs = [r] if r.shape == () else list(r.reshape(-1))
        ws = want if isinstance(want, list) else [want] * len(rs)
        for p, w in zip(rs, ws):
            v = p.view(np.ndarray)
            i, f = float(v['int']), float(v['frac'])
            val = Fr(i) + Fr(f)
            err = abs(val - w)
            ctx.ratio(err, tol)
            if err > tol:
                ctx.fail('value_beyond_2^-52', inp, impl=[i, f], model=[float(w), float(err)])
            elif not float(i).is_integer() or abs(f) > 0.5:
                ctx.fail('not_normalised', inp, impl=[i, f])
            elif bool(r.imaginary) != want_imag and w != 0:
                ctx.fail('imaginary_flag', inp, impl=bool(r.imaginary), model=want_imag)

    NC = 500 if ctx.tier == 'quick' else 12000
    num_kinds = ['pyint', 'pyfloat', 'npfloat', 'arr0', 'quantity', 'npint', 'arrint0', 'npint32']
    for c in range(NC):
      try:
        op = rng.choice(['construct1', 'construct2', 'add', 'add', 'sub', 'sub', 'neg', 'abs', 'mul', 'mul', 'div', 'div', 'pos',
                         'addnum', 'subnum', 'rsubnum', 'imag_mul', 'imag_div', 'mixed'])
        ctx.count('op:' + op)
        imag = rng.random() < 0.2
        if op == 'construct1':
            x = float(rand_count(rng)) + rng.choice([0.0, rand_frac(rng)])
            xk, kind = as_kind(rng, x, ['pyint', 'pyfloat', 'npfloat', 'arr0', 'cycles', 'angle'])
            inp = dict(op=op, x=x, kind=kind)
            ctx.seen(inp); ctx.count('kind:' + kind)
            r, code, err = impl_res(lambda: Phase(xk))
            add_item(f'res_code (op_construct {num_lit(x)} None) ' + (code or f'(RPh {ph_lit(r)})'), inp, repr(r) if code is None else code)
            if code:
                ctx.fail('construction_failed', inp, impl=repr(err) if err else repr(r))
            else:
                monitor(op, inp, r, Fr(x), False)
        elif op == 'construct2':
            x = float(rand_count(rng)) + rng.choice([0.0, rand_frac(rng)])
            y = rng.choice([rand_frac(rng), rng.uniform(-3000, 3000), float(rng.randint(-5, 5)) + 0.5, float(rand_count(rng)) / 4])
            if abs(Fr(x) + Fr(y)) > 2 ** 52:
                y = rand_frac(rng)
            if imag:
                xk, yk, kind = x * 1j, y * 1j, 'complex'
            else:
                xk, kind = as_kind(rng, x, ['pyint', 'pyfloat', 'npfloat', 'arr0', 'cycles'])
                yk, k2 = as_kind(rng, y, ['pyfloat', 'npfloat', 'arr0', 'cycles'])
                kind += '+' + k2
            inp = dict(op=op, x=x, y=y, kind=kind, imag=imag)
            ctx.seen(inp); ctx.count('kind:' + kind)
            r, code, err = impl_res(lambda: Phase(xk, yk))
            lx, ly = (num_lit(x * 1j), num_lit(y * 1j)) if imag else (num_lit(x), num_lit(y))
            add_item(f'res_code (op_construct {lx} (Some {ly})) ' + (code or f'(RPh {ph_lit(r)})'), inp, repr(r) if code is None else code)
            if code:
                ctx.fail('construction_failed', inp, impl=repr(err) if err else repr(r))
            else:
                monitor(op, inp, r, Fr(x) + Fr(y), imag)
        elif op in ('add', 'sub'):
            a, b = rand_phase(rng, imag), rand_phase(rng, imag)
            inp = dict(op=op, a=repr(a), b=repr(b), imag=imag)
            ctx.seen(inp)
            r, code, err = impl_res(lambda: a + b if op == 'add' else a - b)
            add_item(f'res_code (op_addsub {"true" if op == "sub" else "false"} (OPh {ph_lit(a)}) (OPh {ph_lit(b)})) ' + (code or f'(RPh {ph_lit(r)})'),
                     inp, repr(r) if code is None else code)
            w = exact(a)[0] + exact(b)[0] if op == 'add' else exact(a)[0] - exact(b)[0]
            if code:
                ctx.fail('operation_failed', inp, impl=repr(err) if err else repr(r))
            else:
                monitor(op, inp, r, w, imag)
        elif op in ('addnum', 'subnum', 'rsubnum'):
            a = rand_phase(rng)
            x = rng.choice([rand_frac(rng), float(rng.randint(-1000, 1000)), rng.uniform(-1e6, 1e6), float(rand_count(rng))])
            xk, kind = as_kind(rng, x, ['pyint', 'pyfloat', 'npfloat', 'arr0', 'cycles', 'angle'])
            order = rng.choice(['phase_first', 'number_first']) if op == 'addnum' else ('phase_first' if op == 'subnum' else 'number_first')
            inp = dict(op=op, a=repr(a), x=x, kind=kind, order=order)
            ctx.seen(inp); ctx.count('kind:' + kind)
            if op == 'addnum':
                th = (lambda: a + xk) if order == 'phase_first' else (lambda: xk + a)
                w = exact(a)[0] + Fr(x)
                lo = (f'(OPh {ph_lit(a)}) (ONum {num_lit(x)})' if order == 'phase_first' else f'(ONum {num_lit(x)}) (OPh {ph_lit(a)})')
                term = f'op_addsub false {lo}'
            elif op == 'subnum':
                th = lambda: a - xk
                w = exact(a)[0] - Fr(x)
                term = f'op_addsub true (OPh {ph_lit(a)}) (ONum {num_lit(x)})'
            else:
                th = lambda: xk - a
                w = Fr(x) - exact(a)[0]
                term = f'op_addsub true (ONum {num_lit(x)}) (OPh {ph_lit(a)})'
            r, code, err = impl_res(th)
            add_item(f'res_code ({term}) ' + (code or f'(RPh {ph_lit(r)})'), inp, repr(r) if code is None else code)
            if code:
                ctx.fail('operation_failed', inp, impl=repr(err) if err else repr(r))
            else:
                monitor(op, inp, r, w, False)
        elif op in ('neg', 'abs', 'pos'):
            a = rand_phase(rng, imag)
            inp = dict(op=op, a=repr(a), imag=imag)
            ctx.seen(inp)
            r, code, err = impl_res(lambda: -a if op == 'neg' else (abs(a) if op == 'abs' else +a))
            add_item(f'res_code (op_{op} {ph_lit(a)}) ' + (code or f'(RPh {ph_lit(r)})'), inp, repr(r) if code is None else code)
            ea = exact(a)[0]
            w = -ea if op == 'neg' else (abs(ea) if op == 'abs' else ea)
            if code:
                ctx.fail('operation_failed', inp, impl=repr(err) if err else repr(r))
            else:
                monitor(op, inp, r, w, imag and op != 'abs')
        elif op in ('mul', 'div'):
            a = rand_phase(rng, imag)
            ea = exact(a)[0]
            # factor such that the product stays within 2^52
            room = Fr(2 ** 52) / max(abs(ea), Fr(1))
            f = rng.choice([2.0, 3.0, 0.5, -1.0, 1 / 3, 1e-3, 7.25, rng.uniform(-10, 10), rng.uniform(-1e5, 1e5), 10.0, 1e6, 0.1,
                            12345.0, -7777.0, 99991.0, float(rng.randint(-10 ** 6, 10 ** 6))])
            if not imag and rng.random() < 0.35:
                # a result within an ulp of a half-integer (where a fraction can be left just outside [-1/2, 1/2]): the operand is a
                # half-integer times / over the factor, up to two ulps off - half of these around -1/2 itself, one ulp further out
                # (the family on which the defect D25 showed: Phase(-3.5000000000000004) / 7)
                f = rng.choice([3.0, 7.0, 11.0, 13.0, 1 / 3, 0.1, 5.0, 9.0])
                if rng.random() < 0.5:
                    h, steps, way = -0.5, 1, -math.inf
                else:
                    h = rng.choice([1, -1]) * (rng.choice([0, 1, 2, 3, 5, 1000, 2 ** 30 + 1]) + 0.5)
                    steps, way = rng.choice([0, 1, 1, 2]), rng.choice([math.inf, -math.inf])
                x = h / f if op == 'mul' else h * f
                for _ in range(steps):
                    x = math.nextafter(x, way)
                a = Phase(x)
                ea = exact(a)[0]
                room = Fr(2 ** 52) / max(abs(ea), Fr(1))
                ctx.count('near_half_integer_result')
            int_mode = False
            if not imag and op == 'mul' and rng.random() < 0.25:
                # an integer-typed factor large enough that frac * k alone loses bits (every integer kind must go through the exact product)
                a = Phase(float(rng.randint(-10 ** 6, 10 ** 6)), rand_frac(rng))
                ea = exact(a)[0]
                room = Fr(2 ** 52) / max(abs(ea), Fr(1))
                f = float(rng.choice([12345, -7777, 99991, rng.randint(2, 10 ** 5), -rng.randint(2, 10 ** 5)]))
                int_mode = True
                ctx.count('integer_typed_factor')
            if op == 'mul' and abs(Fr(f)) > room:
                f = float(room) * rng.uniform(0.1, 0.9)
            if op == 'div':
                if f == 0 or abs(Fr(1) / Fr(f)) > room:
                    f = rng.choice([2.0, 3.0, 7.0, 1e3, 1 / 3]) if room > 8 else 2.0
            fk, kind = as_kind(rng, f, ['pyint', 'npint', 'arrint0', 'npint32'] if int_mode else num_kinds)
            order = rng.choice(['phase_first', 'number_first']) if op == 'mul' else 'phase_first'
            inp = dict(op=op, a=repr(a), f=float(f), kind=kind, order=order, imag=imag)
            ctx.seen(inp); ctx.count('kind:' + kind)
            if op == 'mul':
                th = (lambda: a * fk) if order == 'phase_first' else (lambda: fk * a)
                w = ea * Fr(float(f))
            else:
                th = lambda: a / fk
                w = ea / Fr(float(f))
            if order == 'phase_first' and kind in ('pyfloat', 'npfloat'):
                d = with_destination(rng, a, fk, np.multiply if op == 'mul' else np.divide)
                if d:
                    inp['destination'], th = d
                    ctx.count('destination:' + d[0])
            r, code, err = impl_res(th)
            add_item(f'res_code (op_{op} {ph_lit(a)} {num_lit(float(f))}) ' + (code or f'(RPh {ph_lit(r)})'), inp, repr(r) if code is None else code)
            if code:
                ctx.fail('operation_failed_or_decayed', inp, impl=repr(err) if err else type(r).__name__ + ' ' + repr(r)[:60])
            else:
                monitor(op, inp, r, w, imag)
        elif op in ('imag_mul', 'imag_div'):
            a = rand_phase(rng, imag)
            ea = exact(a)[0]
            g = rng.choice([1.0, 2.0, -1.0, 0.5, 3.0])
            f = complex(0, g)
            inp = dict(op=op, a=repr(a), f=str(f), imag=imag)
            ctx.seen(inp)
            if op == 'imag_mul':
                th = lambda: a * f
                # (i^s x)(i g) = i^(s xor 1) * (-1 if s else 1) x g
                w = (-ea if imag else ea) * Fr(g)
            else:
                th = lambda: a / f
                # x/(i g) = -i x/g ; (i x)/(i g) = x/g
                w = (ea if imag else -ea) / Fr(g)
            d = with_destination(rng, a, f, np.multiply if op == 'imag_mul' else np.divide)
            if d:
                inp['destination'], th = d
                ctx.count('destination:' + d[0])
            r, code, err = impl_res(th)
            add_item(f'res_code (op_{"mul" if op == "imag_mul" else "div"} {ph_lit(a)} {num_lit(f)}) ' + (code or f'(RPh {ph_lit(r)})'),
                     inp, repr(r) if code is None else code)
            if code:
                ctx.fail('operation_failed_or_decayed', inp, impl=repr(err) if err else type(r).__name__)
            else:
                monitor(op, inp, r, w, not imag)
        else:  # mixed real/imaginary addition is not a Phase operation: it must not produce a Phase with a wrong value
            a, b = rand_phase(rng, False), rand_phase(rng, True)
            inp = dict(op=op, a=repr(a), b=repr(b))
            ctx.seen(inp)
            r, code, err = impl_res(lambda: a + b)
            add_item(f'res_code (op_addsub false (OPh {ph_lit(a)}) (OPh {ph_lit(b)})) ' + (code or f'(RPh {ph_lit(r)})'), inp,
                     repr(r)[:80] if code is None else code)
            if code is None:
                ctx.fail('mixed_real_imaginary_sum_is_a_phase', inp, impl=repr(r))
      except OperandFailed as e:
        ctx.fail('construction_failed', e.args[0], impl=e.args[0]['error'])

    # ---- arrays: n-d Phase with n-d / scalar operands, elementwise through the same scalar model
    NA = 60 if ctx.tier == 'quick' else 1500
    for c in range(NA):
        n = rng.choice([2, 3, 4])
        cs = np.array([float(rand_count(rng)) for _ in range(n)])
        fs = np.array([rand_frac(rng) for _ in range(n)])
        a = Phase(cs, fs)
        op = rng.choice(['add', 'sub', 'mul', 'div', 'neg', 'mulscalar'])
        ctx.count('array:' + op)
        if op in ('add', 'sub'):
            b = Phase(np.array([float(rand_count(rng)) for _ in range(n)]), np.array([rand_frac(rng) for _ in range(n)]))
            r, code, err = impl_res(lambda: a + b if op == 'add' else a - b)
            terms = [f'op_addsub {"true" if op == "sub" else "false"} (OPh {ph_lit(a[k])}) (OPh {ph_lit(b[k])})' for k in range(n)]
            ws = [exact(a[k])[0] + exact(b[k])[0] if op == 'add' else exact(a[k])[0] - exact(b[k])[0] for k in range(n)]
        elif op in ('mul', 'div'):
            f = np.array([rng.choice([2.0, 0.5, 3.0, -1.5, 1e-3, 7.0]) for _ in range(n)])
            for k in range(n):       # keep every product / quotient inside the property's domain (counts up to 2^52)
                ea_k = abs(exact(a[k])[0])
                res_k = ea_k * Fr(float(abs(f[k]))) if op == 'mul' else ea_k / Fr(float(abs(f[k])))
                if res_k > 2 ** 52 - 2:
                    f[k] = 0.5 if op == 'mul' else 2.0
            r, code, err = impl_res(lambda: a * f if op == 'mul' else a / f)
            terms = [f'op_{op} {ph_lit(a[k])} {num_lit(float(f[k]))}' for k in range(n)]
            ws = [exact(a[k])[0] * Fr(float(f[k])) if op == 'mul' else exact(a[k])[0] / Fr(float(f[k])) for k in range(n)]
        elif op == 'mulscalar':
            f = rng.choice([0.5, 0.25, 1e-3, -0.125])
            fk, kind = as_kind(rng, f, num_kinds)
            r, code, err = impl_res(lambda: fk * a)
            terms = [f'op_mul {ph_lit(a[k])} {num_lit(float(f))}' for k in range(n)]
            ws = [exact(a[k])[0] * Fr(float(f)) for k in range(n)]
        else:
            r, code, err = impl_res(lambda: -a)
            terms = [f'op_neg {ph_lit(a[k])}' for k in range(n)]
            ws = [-exact(a[k])[0] for k in range(n)]
        inp = dict(op='array_' + op, a=repr(a), n=n)
        ctx.seen(inp)
        if code:
            ctx.fail('operation_failed_or_decayed', inp, impl=repr(err) if err else type(r).__name__)
            continue
        for k in range(n):
            add_item(f'res_code ({terms[k]}) (RPh {ph_lit(r[k])})', inp, repr(r[k]))
        monitor(op, inp, r, ws, False)

    # ---- floor division / remainder / divmod by a phase quantity (monitor: a = q d + r, q integer, 0 <= r < d up to 2^-52)
    ND = 120 if ctx.tier == 'quick' else 3000
    for c in range(ND):
        a = Phase(float(rng.randint(-2 ** rng.choice([5, 20, 40]), 2 ** rng.choice([5, 20, 40]))), rand_frac(rng))
        d = rng.choice([0.3, 1.0, 0.125, 7.5, 1e3, 1 / 3, 2.0])
        dq = rng.choice([d * u.cycle, Angle(d, u.cycle), Phase(d)])
        other_unit = None
        if d in (1.0, 0.125, 7.5, 2.0) and rng.random() < 0.4:
            # the same divisor written in another angular unit (exactly: 360 deg, 21600 arcmin, 24 hourangle per cycle)
            other_unit = rng.choice([u.deg, u.arcmin, u.hourangle])
            dq = (d * {u.deg: 360.0, u.arcmin: 21600.0, u.hourangle: 24.0}[other_unit]) * other_unit
            ctx.count('divisor_unit:' + str(other_unit))
        which = rng.choice(['floordiv', 'mod', 'divmod'])
        inp = dict(op=which, a=repr(a), d=d, dkind=type(dq).__name__, unit=str(getattr(dq, 'unit', '')))
        ctx.seen(inp); ctx.count('op:' + which)
        try:
            if which == 'floordiv':
                q, r = a // dq, None
            elif which == 'mod':
                q, r = None, a % dq
            else:
                q, r = divmod(a, dq)
        except Exception as e:
            ctx.fail('divmod_raised', inp, impl=repr(e))
            continue
        # (T) the statement-by-statement model of this branch, bit for bit
        ql = 'None' if q is None else '(Some %s)' % fl(float(np.asarray(getattr(q, 'value', q))))
        rl = 'None' if not isinstance(r, Phase) else '(Some %s)' % ph_lit(r)
        if other_unit is None:
            add_item(f'chk_divmod {ph_lit(a)} {fl(d)} {ql} {rl}', inp, [ql, rl])
        ea, ed = exact(a)[0], Fr(d)
        if q is not None:
            qv = Fr(float(np.asarray(getattr(q, 'value', q))))
            if qv.denominator != 1:
                ctx.fail('quotient_not_integer', inp, impl=float(qv))
                continue
            rem = ea - qv * ed
            if not (-TOL <= rem <= ed + TOL):
                ctx.fail('floor_quotient_wrong', inp, impl=float(qv), model=float(ea / ed))
                continue
        if r is not None:
            if not isinstance(r, Phase):
                ctx.fail('remainder_not_a_phase', inp, impl=type(r).__name__)
                continue
            er = exact(r)[0]
            k = (ea - er) / ed
            near = round(k)
            if abs(ea - near * ed - er) > TOL * max(1, abs(near)) / 1 and abs(ea - near * ed - er) > TOL:
                ctx.fail('remainder_value', inp, impl=float(er), model=float(ea - math.floor(ea / ed) * ed))
            elif not (-TOL <= er <= ed + TOL):
                ctx.fail('remainder_out_of_range', inp, impl=float(er))
            if q is not None and abs(qv * ed + er - ea) > TOL:
                ctx.fail('divmod_identity', inp, impl=[float(qv), float(er)])

    # ---- the same on ARRAYS whose elements need different treatment: some sit a hair below a multiple of the divisor at a large
    # count (the single-double first guess of the quotient is then one too high and must be repaired), others are ordinary
    for c in range(60 if ctx.tier == 'quick' else 1200):
        d = rng.choice([1.0, 0.5, 3.0, 2.0, 0.25])
        n = rng.choice([2, 3, 5])
        two_d = rng.random() < 0.3
        cnts, frs = [], []
        for k in range(n * (2 if two_d else 1)):
            kind = rng.choice(['hair_below', 'hair_above', 'ordinary', 'ordinary', 'exact_multiple'])
            big = float(rng.choice([2 ** 40, 2 ** 45, 2 ** 30, -2 ** 40, 2 ** 50]))
            m = big - (big % 3.0) if d == 3.0 else big          # a multiple of d (d divides powers of two except 3)
            if kind == 'hair_below':
                cnts.append(m); frs.append(-10.0 ** rng.choice([-9, -7, -12]))
            elif kind == 'hair_above':
                cnts.append(m); frs.append(10.0 ** rng.choice([-9, -7, -12]))
            elif kind == 'exact_multiple':
                cnts.append(m); frs.append(0.0)
            else:
                cnts.append(float(rng.randint(-2 ** 20, 2 ** 20))); frs.append(rand_frac(rng))
        ca, fa = np.array(cnts), np.array(frs)
        if two_d:
            ca, fa = ca.reshape(2, n), fa.reshape(2, n)
        a = Phase(ca, fa)
        dq = rng.choice([d * u.cycle, Angle(d, u.cycle)])
        which = rng.choice(['floordiv', 'mod', 'divmod'])
        inp = dict(op=which + '_array', counts=cnts, fracs=frs, d=d, dkind=type(dq).__name__, shape=list(ca.shape))
        ctx.seen(inp); ctx.count('op:' + which + '_array')
        try:
            if which == 'floordiv':
                q, r = a // dq, None
            elif which == 'mod':
                q, r = None, a % dq
            else:
                q, r = divmod(a, dq)
        except Exception as e:
            ctx.fail('divmod_raised', inp, impl=repr(e))
            continue
        ed = Fr(d)
        ra = np.asarray(r.view(np.ndarray)).reshape(-1) if r is not None else None
        qa = np.asarray(getattr(q, 'value', q), dtype=float).reshape(-1) if q is not None else None
        if r is not None and not isinstance(r, Phase):
            ctx.fail('remainder_not_a_phase', inp, impl=type(r).__name__)
            continue
        av = a.view(np.ndarray).reshape(-1)
        for k in range(len(cnts)):
            ql = 'None' if qa is None else '(Some %s)' % fl(float(qa[k]))
            rl = 'None' if ra is None else '(Some (P %s %s false))' % (fl(ra[k]['int']), fl(ra[k]['frac']))
            add_item(f'chk_divmod (P {fl(av[k]["int"])} {fl(av[k]["frac"])} false) {fl(d)} {ql} {rl}', dict(inp, element=k), [ql, rl])
        for k in range(len(cnts)):
            ea = Fr(cnts[k]) + Fr(frs[k])
            if qa is not None:
                qv = Fr(float(qa[k]))
                rem = ea - qv * ed
                if qv.denominator != 1 or not (-TOL <= rem <= ed + TOL):
                    ctx.fail('floor_quotient_wrong', dict(inp, element=k), impl=float(qv), model=float(ea / ed))
                    break
            if ra is not None:
                er = Fr(float(ra[k]['int'])) + Fr(float(ra[k]['frac']))
                kk = (ea - er) / ed
                if abs(ea - round(kk) * ed - er) > TOL * max(1, abs(round(kk))) and abs(ea - round(kk) * ed - er) > TOL:
                    ctx.fail('remainder_value', dict(inp, element=k), impl=float(er), model=float(ea - math.floor(ea / ed) * ed))
                    break
                if not (-TOL <= er <= ed + TOL):
                    ctx.fail('remainder_out_of_range', dict(inp, element=k), impl=float(er))
                    break
                if qa is not None and abs(Fr(float(qa[k])) * ed + er - ea) > TOL:
                    ctx.fail('divmod_identity', dict(inp, element=k), impl=[float(qa[k]), float(er)])
                    break

    # ---- numpy's float floor_divide / remainder themselves (the external routine whose model np_divmod is proved to return the exact floor,
    # C07_floor_divide_exact): model np_divmod vs numpy bit for bit, and numpy vs the exact rational floor on the theorem's domain
    for c in range(150 if ctx.tier == 'quick' else 3000):
        kind = rng.choice(['near_multiple', 'random', 'small', 'negative_divisor'])
        b = float(rng.choice([1.0, 0.5, 3.0, 0.3, 7.5, 1 / 3, 2.0 ** -10, 2.0 ** 10, rng.uniform(2.0 ** -10, 2.0 ** 10)]))
        if kind == 'near_multiple':
            m = float(rng.randint(-2 ** 30, 2 ** 30))
            a = m * b + rng.choice([0.0, 1e-9, -1e-9, 2.0 ** -30, -2.0 ** -30]) * rng.choice([1.0, b])
        elif kind == 'small':
            a = rng.uniform(-2 * b, 2 * b) * rng.choice([1.0, 1e-3, 1e-9])
        else:
            a = rng.uniform(-2.0 ** 41, 2.0 ** 41) * rng.choice([1.0, 2.0 ** -10, 2.0 ** -30])
        if kind == 'negative_divisor':
            b = -b
        inp = dict(op='np_floor_divide', a=a, b=b, kind=kind)
        ctx.seen(inp); ctx.count('op:np_floor_divide')
        qn, mn = np.divmod(np.float64(a), np.float64(b))
        add_item(f'chk_fdiv {fl(a)} {fl(b)} {fl(qn)} {fl(mn)}', inp, [float(qn), float(mn)])
        if b > 0 and abs(a) <= 2.0 ** 41 and float(np.floor_divide(a, b)) != float(qn):
            ctx.fail('numpy_floor_divide_inconsistent', inp)
        if 2.0 ** -10 <= b <= 2.0 ** 10 and abs(a) <= 2.0 ** 41:
            want = math.floor(Fr(a) / Fr(b))
            if Fr(float(qn)) != want:
                ctx.fail('numpy_floor_divide_is_not_the_exact_floor', inp, impl=float(qn), model=float(want))

    # ---- sin / cos / exp depend only on the fractional part
    for c in range(60 if ctx.tier == 'quick' else 1000):
        a = rand_phase(rng)
        inp = dict(op='trig', a=repr(a))
        ctx.seen(inp); ctx.count('op:trig')
        fr = float(a.view(np.ndarray)['frac'])
        try:
            s, co = np.sin(a), np.cos(a)
            e = np.exp(a * 1j)
            ok = (float(s) == math.sin(2 * math.pi * fr) or abs(float(s) - math.sin(2 * math.pi * fr)) < 4e-16) and \
                 abs(float(co) - math.cos(2 * math.pi * fr)) < 4e-16 and \
                 abs(complex(e) - complex(math.cos(2 * math.pi * fr), math.sin(2 * math.pi * fr))) < 8e-16
            if not ok:
                ctx.fail('trig_not_from_fraction', inp, impl=[float(s), float(co), str(complex(e))], model=fr)
        except Exception as ex:
            ctx.fail('trig_raised', inp, impl=repr(ex))

    res = ctx.run_cases(HEADER, items, shard=max(60, len(items) // 32 + 1))
    if res is None:
        return
    for r, m in zip(res, meta):
        if r:
            ctx.mismatch('Phase model (bit-exact binary64) vs implementation: ' + ('different value' if r == 1 else 'different kind of result'),
                         m['inp'], impl=m['impl'])
