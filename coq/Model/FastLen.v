(* Model/FastLen.v -- executable top level around the T1-generated loops of pulsarbat/utils.py.
   Python has no fuel; the wrapper supplies a budget that Proofs/FastLenTop.v shows to be sufficient
   for every N >= 0, so [None] (out of fuel / fell through) is never returned.  No proofs here. *)
From Coq Require Import ZArith Bool List.
From PB Require Import Gen.GenUtils.
Import ListNotations.
Open Scope Z_scope.

Definition fuel_of (N : Z) : nat := (2 * Z.to_nat (Z.log2_up N + 1) + 4)%nat.

Definition next_fast_len (N : Z) : option Z :=
  match next_fast_len.run (fuel_of N) N with Ret r => Some r | _ => None end.
Definition prev_fast_len (N : Z) : option Z :=
  match prev_fast_len.run (fuel_of N) N with Ret r => Some r | _ => None end.

(* executable 7-smoothness: strip the factors 2, 3, 5, 7 *)
Fixpoint strip (fuel : nat) (p m : Z) : Z :=
  match fuel with
  | O => m
  | S f => if (1 <? m) && (m mod p =? 0) then strip f p (m / p) else m
  end.
Definition smoothb (m : Z) : bool :=
  let f := S (Z.to_nat (Z.log2 m)) in
  (0 <? m) && (strip f 7 (strip f 5 (strip f 3 (strip f 2 m))) =? 1).

(* fast_len on the time ledger: crop from the end to prev_fast_len(len) samples *)
Definition fast_len_keep (len : Z) : option Z := prev_fast_len len.

(* run-length summary of a function over [lo, lo+n): list of (value, run length) *)
Fixpoint rle_aux (f : Z -> option Z) (n : nat) (x : Z) (cur : option Z) (run : Z) (acc : list (Z * Z)) : list (Z * Z) :=
  match n with
  | O => match cur with Some v => (v, run) :: acc | None => acc end
  | S n' =>
    let y := match f x with Some r => r | None => -1 end in
    match cur with
    | Some v => if v =? y then rle_aux f n' (x + 1) cur (run + 1) acc
                else rle_aux f n' (x + 1) (Some y) 1 ((v, run) :: acc)
    | None => rle_aux f n' (x + 1) (Some y) 1 acc
    end
  end.
Definition rle (f : Z -> option Z) (lo : Z) (n : nat) : list (Z * Z) := rev (rle_aux f n lo None 0 []).
Definition flat (l : list (Z * Z)) : list Z := flat_map (fun p => [fst p; snd p]) l.
Definition get (o : option Z) : Z := match o with Some r => r | None => -1 end.
