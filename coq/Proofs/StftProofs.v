(* Proofs/StftProofs.v -- C20: pb.fft exposes exactly the fourteen names; STFT sub-channel labels are the true frequencies of
   their content for every alignment and parity; ISTFT of the STFT restores band, ledger and samples. *)
From Coq Require Import ZArith QArith Lia Lqa String List Bool Ring.
From PB Require Import Lib.PySlice Gen.GenConsts Model.Band Model.Shift Model.Stft Lib.Dft Proofs.BandProofs.
Import ListNotations.
Open Scope Z_scope.

(* ---------- dispatch ---------- *)
Lemma generated_names : fft_funcs = the_fourteen /\ fft_target_is_same_name = true /\
  fft_guard_raises_attribute_error = true /\ fft_has_dask_branch = true.
Proof. repeat split; reflexivity. Qed.
(* both the NumPy and the Dask branch of the wrapper hand every positional and keyword argument to the transform unchanged (pinned syntax) *)
Lemma generated_pass_through : fft_passes_arguments_through = true.
Proof. reflexivity. Qed.
Theorem dispatch_spec name : (In name the_fourteen -> dispatch name = Some name) /\ (~ In name the_fourteen -> dispatch name = None).
Proof.
  unfold dispatch. destruct generated_names as (E & S & _). rewrite E, S. split; intros H.
  - assert (existsb (String.eqb name) the_fourteen = true) as ->; [|reflexivity].
    apply existsb_exists. exists name. split; [exact H|apply String.eqb_refl].
  - destruct (existsb (String.eqb name) the_fourteen) eqn:X; [|reflexivity].
    apply existsb_exists in X. destruct X as (y & Hy & Ey). apply String.eqb_eq in Ey. subst. contradiction.
Qed.

(* ---------- STFT labels ---------- *)
Lemma odd_mul_odd n P : Z.odd (n * P) = Z.odd n && Z.odd P.
Proof. apply Z.odd_mul. Qed.

(* sub-channel j of channel i is labelled  label(i) + (j - floor(P/2)) * sr / P : the true frequency of DFT bin j - floor(P/2)
   of a segment of channel i, for all three input alignments, every channel count and every nperseg *)
Theorem stft_labels (b sb : band) (P : Z) :
  1 <= nchan b -> 1 <= P -> valid_align (align b) -> stft_band b P = Some sb ->
  nchan sb = nchan b * P /\ (bw sb == bw b / inject_Z P)%Q /\
  forall i j, (label sb (stft_chan P i j) == label b i + (inject_Z j - inject_Z (P / 2)) * (bw b / inject_Z P))%Q.
Proof.
  intros Hn HP Hva. unfold stft_band.
  destruct (freq_slice b None None None) as [b1 lo|e] eqn:FS; [|discriminate].
  intros H. injection H as <-.
  destruct (freq_slice_labels b None None None b1 lo ltac:(lia) FS) as (Hlo0 & Hn1 & Hsum & Hbw & Hal & Hlo & Hhi & Hlab).
  cbn [clip] in Hlo, Hhi. subst lo. assert (Hnn : nchan b1 = nchan b) by lia.
  cbn [nchan bw mk_band]. split; [reflexivity|]. split; [reflexivity|].
  intros i j. rewrite <- (Hlab i). replace (0 + i) with i by lia.
  unfold label at 1 2. cbn [cf bw nchan align mk_band]. rewrite Hal, Hnn.
  destruct align_q_vals as (A0 & A1 & _).
  assert (PQ : ~ (inject_Z P == 0)%Q) by (intro E; unfold Qeq, inject_Z in E; cbn in E; lia).
  unfold stft_chan, norm_align. rewrite odd_mul_odd.
  pose proof (Z.div_mod P 2 ltac:(lia)) as DM. rewrite Zmod_odd in DM.
  destruct (Z.odd P) eqn:OP.
  - (* P odd: center; n*P odd iff n odd: alignment is center either way *)
    assert (E : (if Z.odd (nchan b) && true then 1 else 1) = 1) by (destruct (Z.odd (nchan b)); reflexivity).
    rewrite andb_true_r. replace (if Z.odd (nchan b) then 1 else 1) with 1 by (destruct (Z.odd (nchan b)); reflexivity).
    rewrite A1. assert (HP2 : (inject_Z (P / 2) == (inject_Z P - 1) / 2)%Q).
    { replace P with (2 * (P / 2) + 1) at 2 by lia. rewrite inject_Z_plus, inject_Z_mult. change (inject_Z 2) with 2%Q. change (inject_Z 1) with 1%Q. field. }
    rewrite HP2, Hbw. rewrite !inject_Z_plus, !inject_Z_mult. field. exact PQ.
  - (* P even: bottom; n*P is even *)
    rewrite andb_false_r. rewrite A0. rewrite A1.
    assert (HP2 : (inject_Z (P / 2) == inject_Z P / 2)%Q).
    { replace P with (2 * (P / 2)) at 2 by lia. rewrite inject_Z_mult. change (inject_Z 2) with 2%Q. field. }
    rewrite HP2, Hbw. rewrite !inject_Z_plus, !inject_Z_mult. field. exact PQ.
Qed.

(* ISTFT of the STFT restores the band: channel count, channel width and every label (hence centre and edges) *)
Theorem istft_stft_band (b sb : band) (P : Z) :
  1 <= nchan b -> 1 <= P -> valid_align (align b) -> stft_band b P = Some sb ->
  let rb := istft_band sb P in
  nchan rb = nchan b /\ (bw rb == bw b)%Q /\ align rb = 1 /\ forall i, (label rb i == label b i)%Q.
Proof.
  intros Hn HP Hva. unfold stft_band.
  destruct (freq_slice b None None None) as [b1 lo|e] eqn:FS; [|discriminate].
  intros H. injection H as <-.
  destruct (freq_slice_labels b None None None b1 lo ltac:(lia) FS) as (Hlo0 & Hn1 & Hsum & Hbw & Hal & Hlo & Hhi & Hlab).
  cbn [clip] in Hlo, Hhi. subst lo. assert (Hnn : nchan b1 = nchan b) by lia.
  unfold istft_band. cbn [nchan bw cf align mk_band].
  assert (PQ : ~ (inject_Z P == 0)%Q) by (intro E; unfold Qeq, inject_Z in E; cbn in E; lia).
  rewrite Z.div_mul by lia.
  split; [reflexivity|]. split; [field; exact PQ|]. split; [unfold norm_align; destruct (Z.odd (nchan b)); reflexivity|].
  intros i. rewrite <- (Hlab i). replace (0 + i) with i by lia.
  unfold label. cbn [cf bw nchan align mk_band]. rewrite Hal, Hnn.
  replace (norm_align (nchan b) 1) with 1 by (unfold norm_align; destruct (Z.odd (nchan b)); reflexivity).
  rewrite Hbw. field. exact PQ.
Qed.

(* time ledger: whole segments only; ISTFT gives back the truncated length *)
Theorem stft_ledger len P : 0 <= len -> 1 <= P ->
  0 <= stft_len len P /\ istft_len (stft_len len P) P = len - len mod P /\ len - P < istft_len (stft_len len P) P <= len.
Proof.
  intros Hl HP. unfold stft_len, istft_len.
  pose proof (Z.mod_pos_bound len P ltac:(lia)) as M. pose proof (Z.div_mod len P ltac:(lia)) as D.
  assert (E : (len - len mod P) / P = len / P).
  { replace (len - len mod P) with (len / P * P) by lia. apply Z.div_mul. lia. }
  rewrite E. split; [apply Z.div_pos; lia|]. split; lia.
Qed.

(* fftshift / ifftshift index maps are mutually inverse permutations of 0..P-1 *)
Lemma shift_unshift P k : 1 <= P -> 0 <= k < P -> stft_bin P (ishift_idx P k) = k.
Proof.
  intros HP Hk. unfold stft_bin, unshift_idx, ishift_idx.
  rewrite Zminus_mod_idemp_l. replace (k + P / 2 - P / 2) with k by lia. apply Z.mod_small. lia.
Qed.
Lemma unshift_shift P j : 1 <= P -> 0 <= j < P -> ishift_idx P (stft_bin P j) = j.
Proof.
  intros HP Hj. unfold stft_bin, unshift_idx, ishift_idx.
  rewrite Zplus_mod_idemp_l. replace (j - P / 2 + P / 2) with j by lia. apply Z.mod_small. lia.
Qed.

(* per segment: ISTFT(STFT(x)) = x, over any field with a primitive n-th root of unity *)
Section Seg.
  Variable T : Type.
  Variables (t0 t1 : T) (tadd tmul tsub : T -> T -> T) (topp : T -> T).
  Hypothesis Tring : ring_theory t0 t1 tadd tmul tsub topp (@eq T).
  Hypothesis Tint : forall a b, tmul a b = t0 -> a = t0 \/ b = t0.
  Variable n : nat.
  Hypothesis npos : (0 < n)%nat.
  Variable W : Z -> T.
  Hypothesis W_add : forall a b, W (a + b)%Z = tmul (W a) (W b).
  Hypothesis W_0 : W 0%Z = t1.
  Hypothesis W_n : W (Z.of_nat n) = t1.
  Hypothesis W_prim : forall z, W z = t1 -> (z mod Z.of_nat n = 0)%Z.
  Variable ninv : T.
  Hypothesis ninv_ok : tmul ninv (ofnat T t0 t1 tadd n) = t1.
  Add Ring Tr : Tring.

  Theorem istft_stft_seg (x : nat -> T) (m : nat) : (m < n)%nat ->
    istft_seg T t0 t1 tadd tmul n W ninv (stft_seg T t0 tadd tmul n W ninv x) m = x m.
  Proof.
    intros Hm. unfold istft_seg, stft_seg.
    transitivity (idft T t0 tadd tmul n W ninv (dft T t0 tadd tmul n W x) m);
      [|apply (dft_inv T t0 t1 tadd tmul tsub topp Tring Tint n npos W W_add W_0 W_n W_prim ninv ninv_ok); exact Hm].
    unfold idft. f_equal. apply (sumf_ext T t0 tadd n npos). intros k Hk.
    rewrite Z2Nat.id by (unfold ishift_idx; apply Z.mod_pos_bound; lia).
    rewrite shift_unshift by lia. rewrite Nat2Z.id.
    transitivity (tmul (tmul (tmul ninv (ofnat T t0 t1 tadd n)) (dft T t0 tadd tmul n W x k)) (W (Z.of_nat k * Z.of_nat m))); [ring|].
    rewrite ninv_ok. ring.
  Qed.

  (* a tone at DFT bin k0 of a segment appears, with unit amplitude, in exactly the sub-channel that holds that bin
     (sub-channel j holds bin (j - P/2) mod P, whose label is the tone's frequency by stft_labels) and nowhere else *)
  Theorem stft_seg_tone (k0 j : nat) : (k0 < n)%nat -> (j < n)%nat ->
    stft_seg T t0 tadd tmul n W ninv (tone T W k0) j =
    if Nat.eq_dec (Z.to_nat (stft_bin (Z.of_nat n) (Z.of_nat j))) k0 then t1 else t0.
  Proof.
    intros H0 Hj. unfold stft_seg.
    assert (Hb : (Z.to_nat (stft_bin (Z.of_nat n) (Z.of_nat j)) < n)%nat).
    { unfold stft_bin, unshift_idx. pose proof (Z.mod_pos_bound (Z.of_nat j - Z.of_nat n / 2) (Z.of_nat n) ltac:(lia)). lia. }
    rewrite (dft_tone T t0 t1 tadd tmul tsub topp Tring Tint n npos W W_add W_0 W_n W_prim k0 _ H0 Hb).
    destruct (Nat.eq_dec _ k0); [exact ninv_ok|ring].
  Qed.
End Seg.
