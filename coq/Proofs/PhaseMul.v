(* Proofs/PhaseMul.v -- C07: Phase * dimensionless number on the bit-exact model: day_frac(int, frac, factor) is within 2^-52
   cycles of the exact product and normalised, for products up to 2^52 - 2 (no underflow in the Dekker product). *)
From Coq Require Import ZArith Reals Psatz Floats.
From Flocq Require Import Core BinarySingleNaN PrimFloat Relative.
From PB Require Import Proofs.TwoSumExact Model.Phase2 Proofs.Floor Proofs.DayFrac Proofs.DayFrac3 Proofs.DayFracTail Proofs.DayFracFold
  Proofs.PhaseCmp Proofs.TwoProduct.
Open Scope R_scope.

Notation fexp := (FLT_exp (-1074) 53).
Notation rnd := (round radix2 fexp ZnearestE).

Lemma rel_err x : bpow radix2 (-1022) <= Rabs x -> Rabs (rnd x - x) <= bpow radix2 (-53) * Rabs x.
Proof.
  intros H. pose proof (relative_error_N_FLT radix2 (-1074) 53 ltac:(lia) (fun z => negb (Z.even z)) x) as R.
  change (-1074 + 53 - 1)%Z with (-1022)%Z in R. specialize (R H).
  replace (/ 2 * bpow radix2 (- (53) + 1)) with (bpow radix2 (-53)) in R; [exact R|].
  change (- (53) + 1)%Z with (-53 + 1)%Z. rewrite bpow_S. field.
Qed.
Lemma rnd_abs_lower x p : (-1074 <= p)%Z -> bpow radix2 p <= Rabs x -> bpow radix2 p <= Rabs (rnd x).
Proof.
  intros Hp H. unfold Rabs in H. destruct (Rcase_abs x) as [Hn|Hn].
  - assert (bpow radix2 p <= rnd (- x)) by (apply rnd_pos_lower; assumption).
    rewrite TwoProduct.rnd_opp in H0. rewrite Rabs_left1; [exact H0|]. pose proof (bpow_gt_0 radix2 p). lra.
  - assert (bpow radix2 p <= rnd x) by (apply rnd_pos_lower; assumption).
    rewrite Rabs_pos_eq; [exact H0|]. pose proof (bpow_gt_0 radix2 p). lra.
Qed.

Theorem phase_mul_sound (i f fac : PrimFloat.float) :
  fin i -> fin f -> fin fac ->
  Rabs (R_of i) <= bpow radix2 52 -> Rabs (R_of f) <= / 2 ->
  Rabs (R_of fac) <= bpow radix2 400 ->
  let V := R_of i + R_of f in
  (V = 0 \/ bpow radix2 (-60) <= Rabs V) -> (R_of fac = 0 \/ bpow radix2 (-900) <= Rabs (R_of fac)) ->
  Rabs (V * R_of fac) <= bpow radix2 52 - 2 ->
  let '(d, g) := day_frac_gen i f (Some fac) None in
  fin d /\ fin g /\ (exists k : Z, R_of d = IZR k) /\
  Rabs (R_of d + R_of g - V * R_of fac) <= bpow radix2 (-52) /\
  Rabs (R_of g) <= / 2.
Proof.
  intros Fi Ff Ffac Bi Bf Bfac V HV Hfac HT. unfold day_frac_gen.
  assert (b52 : 1 <= bpow radix2 52) by (change 1 with (bpow radix2 0); apply bpow_le; lia).
  assert (B53 : bpow radix2 53 = 2 * bpow radix2 52) by (change 53%Z with (52 + 1)%Z; apply bpow_S).
  assert (BI : bnd i 53) by (split; [exact Fi|apply Rle_trans with (1:=Bi); apply bpow_le; lia]).
  assert (BF : bnd f 53).
  { split; [exact Ff|]. apply Rle_trans with (1:=Bf). apply Rle_trans with 1; [lra|]. change 1 with (bpow radix2 0). apply bpow_le. lia. }
  pose proof (two_sum_b i f 53 ltac:(lia) ltac:(lia) BI BF) as H.
  destruct (Phase2.two_sum i f) as [s e]. destruct H as (Bs & Be & Es & Hse). fold V in Es, Hse.
  assert (HVb : Rabs V <= bpow radix2 52 + / 2) by (unfold V; apply Rle_trans with (1:=Rabs_triang _ _); lra).
  (* e is relatively small *)
  assert (He : Rabs (R_of e) <= bpow radix2 (-53) * Rabs V).
  { replace (R_of e) with (- (rnd V - V)) by (rewrite <- Es; lra). rewrite Rabs_Ropp.
    destruct HV as [HV|HV]; [rewrite HV, round_0, Rminus_0_r, Rabs_R0 by typeclasses eauto; lra|].
    apply rel_err. apply Rle_trans with (2:=HV). apply bpow_le. lia. }
  (* the product s * fac does not underflow *)
  assert (Hund : R_of s * R_of fac = 0 \/ bpow radix2 (-969) <= Rabs (R_of s * R_of fac)).
  { destruct HV as [HV|HV]; [left; rewrite Es, HV, round_0 by typeclasses eauto; ring|].
    destruct Hfac as [Hf0|Hf0]; [left; rewrite Hf0; ring|]. right.
    assert (bpow radix2 (-60) <= Rabs (R_of s)) by (rewrite Es; apply rnd_abs_lower; [lia|exact HV]).
    rewrite Rabs_mult. change (-969)%Z with (-60 + -909)%Z. rewrite bpow_plus.
    apply Rmult_le_compat; try apply bpow_ge_0; [exact H|]. apply Rle_trans with (2:=Hf0). apply bpow_le. lia. }
  assert (Bs400 : Rabs (R_of s) <= bpow radix2 400) by (apply Rle_trans with (1:=proj2 Bs); apply bpow_le; lia).
  pose proof (two_product_exact s fac (proj1 Bs) Ffac Bs400 Bfac Hund) as HP.
  destruct (two_product s fac) as [p c]. destruct HP as (Fp & Fc & Ep & Hpc).
  (* sizes *)
  set (T := V * R_of fac) in *.
  assert (HeF : Rabs (R_of e * R_of fac) <= / 2).
  { rewrite Rabs_mult. apply Rle_trans with (bpow radix2 (-53) * Rabs V * Rabs (R_of fac)).
    - apply Rmult_le_compat_r; [apply Rabs_pos|exact He].
    - rewrite Rmult_assoc, <- Rabs_mult. fold T. assert (bpow radix2 (-53) * bpow radix2 52 = / 2).
      { rewrite <- bpow_plus. simpl. lra. }
      pose proof (bpow_gt_0 radix2 (-53)). nra. }
  assert (HsF : Rabs (R_of s * R_of fac) < bpow radix2 52).
  { replace (R_of s * R_of fac) with (T - R_of e * R_of fac) by (unfold T; rewrite <- Hse; ring).
    unfold Rminus. apply Rle_lt_trans with (1:=Rabs_triang _ _). rewrite Rabs_Ropp. lra. }
  assert (Hc : Rabs (R_of c) <= / 4).
  { replace (R_of c) with (- (rnd (R_of s * R_of fac) - R_of s * R_of fac)) by (rewrite <- Ep; lra). rewrite Rabs_Ropp.
    replace (/ 4) with (bpow radix2 (52 - 54)) by (simpl; lra). apply err_lt; [lia|exact HsF]. }
  (* carry = c + e * fac *)
  assert (Bfac' : bnd fac 400) by (split; assumption).
  destruct (mul_b e fac 55 400 ltac:(lia) ltac:(lia) Be Bfac') as [Eef Bef]. set (ef := PrimFloat.mul e fac) in *.
  assert (Bc : bnd c 455).
  { split; [exact Fc|]. apply Rle_trans with (1:=Hc). apply Rle_trans with 1; [lra|]. change 1 with (bpow radix2 0). apply bpow_le. lia. }
  destruct (add_b c ef 455 ltac:(lia) ltac:(lia) Bc Bef) as [Ecar Bcar]. set (car := PrimFloat.add c ef) in *.
  assert (D1 : Rabs (R_of ef - R_of e * R_of fac) <= bpow radix2 (-54)).
  { rewrite Eef. replace (-54)%Z with (0 - 54)%Z by ring. apply err_lt; [lia|]. simpl. lra. }
  assert (Hef : Rabs (R_of ef) <= / 2).
  { rewrite Eef. replace (/ 2) with (bpow radix2 (-1)) by (simpl; lra). apply rnd_bound; [lia|]. simpl. lra. }
  assert (D2 : Rabs (R_of car - (R_of c + R_of ef)) <= bpow radix2 (-54)).
  { rewrite Ecar. replace (-54)%Z with (0 - 54)%Z by ring. apply err_lt; [lia|]. simpl.
    apply Rle_lt_trans with (1:=Rabs_triang _ _). lra. }
  assert (P54 : bpow radix2 (-54) = / 4 * bpow radix2 (-52)).
  { change (-52)%Z with (-54 + 1 + 1)%Z. rewrite !bpow_S. field. }
  assert (P53 : bpow radix2 (-53) = / 2 * bpow radix2 (-52)).
  { change (-52)%Z with (-53 + 1)%Z. rewrite bpow_S. field. }
  assert (Psm : bpow radix2 (-52) <= / 1024).
  { apply Rle_trans with (bpow radix2 (-10)); [apply bpow_le; lia|simpl; lra]. }
  assert (Pp : 0 < bpow radix2 (-52)) by apply bpow_gt_0.
  (* p + car = T + d1 + d2 *)
  assert (Hsum : Rabs (R_of p + R_of car - T) <= / 2 * bpow radix2 (-52)).
  { replace (R_of p + R_of car - T) with ((R_of car - (R_of c + R_of ef)) + (R_of ef - R_of e * R_of fac))
      by (unfold T; rewrite <- Hse; replace (R_of p) with (R_of s * R_of fac - R_of c) by lra; ring).
    apply Rle_trans with (1:=Rabs_triang _ _). lra. }
  assert (Bp : bnd p 53).
  { split; [exact Fp|]. rewrite Ep. apply rnd_bound; [lia|]. apply Rlt_le. apply Rlt_le_trans with (1:=HsF). apply bpow_le. lia. }
  assert (Bcar53 : bnd car 53).
  { split; [exact (proj1 Bcar)|]. apply Rabs_le. apply Rabs_le_inv in D2. apply Rabs_le_inv in Hc. apply Rabs_le_inv in Hef. lra. }
  pose proof (two_sum_b p car 53 ltac:(lia) ltac:(lia) Bp Bcar53) as H2.
  destruct (Phase2.two_sum p car) as [s2 e2]. destruct H2 as (Bs2 & Be2 & Es2 & Hse2).
  assert (Hpc52 : Rabs (R_of p + R_of car) < bpow radix2 52).
  { apply Rabs_lt. apply Rabs_le_inv in Hsum. apply Rabs_le_inv in HT. lra. }
  assert (HS2 : Rabs (R_of s2) <= bpow radix2 52) by (rewrite Es2; apply rnd_bound; [lia|lra]).
  assert (HE2 : Rabs (R_of e2) <= / 2).
  { replace (R_of e2) with (- (rnd (R_of p + R_of car) - (R_of p + R_of car))) by (rewrite <- Es2; lra). rewrite Rabs_Ropp.
    apply Rle_trans with (bpow radix2 (52 - 54)); [apply err_lt; [lia|exact Hpc52]|simpl; lra]. }
  pose proof (df_tail_sound s2 e2 (proj1 Bs2) (proj1 Be2) HS2 HE2) as HTl.
  destruct (df_tail s2 e2) as [d g]. destruct HTl as (Fd & Fg & Hint & Hacc & Hnorm).
  split; [exact Fd|]. split; [exact Fg|]. split; [exact Hint|]. split; [|exact Hnorm].
  replace (R_of d + R_of g - T) with ((R_of d + R_of g - (R_of s2 + R_of e2)) + (R_of p + R_of car - T)) by (rewrite Hse2; ring).
  apply Rle_trans with (1:=Rabs_triang _ _). lra.
Qed.

(* the multiply branch of the model IS this function (real phase, real factor) *)
Lemma op_mul_real (a : ph) (fac : PrimFloat.float) : p_imag a = false ->
  op_mul a (NReal fac) =
  let '(d, g) := day_frac_gen (p_int a) (p_frac a) (Some fac) None in RPh {| p_int := d; p_frac := g; p_imag := false |}.
Proof. intros Ha. unfold op_mul. rewrite Ha. cbn [Bool.eqb part from_angles check_imaginary andb xorb].
  destruct (day_frac_gen _ _ _ _). reflexivity. Qed.
