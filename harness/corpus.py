"""Regression corpus: the minimised inputs of every repaired defect (known_findings.json kind=fixed), run FIRST in the check of their property.
A case that fails again is reported as a failing input with clause `regression:<id>`; nothing here is suppressed by the known-findings file
(a fixed entry suppresses nothing)."""
import math
import numpy as np
import astropy.units as u
from astropy.time import Time


def _sig(cls='Signal', shape=(8,), dtype=np.float64, **kw):
    import pulsarbat as pb
    x = (np.arange(int(np.prod(shape))).reshape(shape) + 1).astype(dtype)
    k = dict(sample_rate=1 * u.kHz)
    if cls != 'Signal':
        k['center_freq'] = 1 * u.GHz
    if cls in ('RadioSignal', 'IntensitySignal', 'FullStokesSignal'):
        k['chan_bw'] = 1 * u.kHz
    k.update(kw)
    return getattr(pb, cls)(x, **k)


def c03():
    import pulsarbat as pb
    out = []
    z = _sig('BasebandSignal', (16, 4, 2), np.complex128)
    y = pb.time_shift(z, np.array([1.0, 2.0, 3.0, 4.0]))          # D1: lower-rank shift array
    ok = all(np.all(np.asarray(y.data)[:k + 1, k, :] == 0) for k in range(4))
    out.append(('D1', dict(op='time_shift', shift_shape=[4], sample_shape=[4, 2]), ok, 'wrapped samples of every broadcast element are zero'))
    y = pb.time_shift(z, -24.5, crop=True)                          # D11: -2N < s < -N with crop
    out.append(('D11', dict(op='time_shift', shift=-24.5, N=16, crop=True), len(y) == 0, f'len {len(y)}, expected 0'))
    return out


def c04():
    import pulsarbat as pb
    z = _sig('BasebandSignal', (16, 3), np.complex128, sample_rate=16 * u.Hz)
    y = pb.freq_shift(z, 2 * u.Hz)                                   # D2: scalar shift zeroes the wrapped bins of EVERY element
    spec = np.fft.fftshift(np.fft.fft(np.asarray(y.data), axis=0), axes=0)
    ok = bool(np.all(np.abs(spec[:2, :]) < 1e-9))
    return [('D2', dict(op='freq_shift', shift_bins=2, sample_shape=[3]), ok, 'two wrapped bins of every channel are zero')]


def c07():
    from pulsarbat.pulsar.phase import Phase
    out = []

    def norm(p):
        return abs(float(p['frac'].value)) <= 0.5 and float(p['int'].value).is_integer()
    for f in (0.1, 3.0, 7.0, 11.0, 13.0):                            # D25
        x = math.nextafter(-0.5 * f, -math.inf)
        p = Phase(x) / f
        out.append(('D25', dict(op='div', a=x, f=f), isinstance(p, Phase) and norm(p), f'fraction {float(p["frac"].value)!r}'))
    for th, inp in ((lambda: Phase(1.2), 'Phase(1.2)'), (lambda: Phase(1, 0.2), 'Phase(1, 0.2)'), (lambda: Phase(1.2) + 0.5, 'p + 0.5'),
                    (lambda: Phase(1.2) * 2.0, 'p * 2.0'), (lambda: Phase(1.2) / 2, 'p / 2')):      # D5
        try:
            r = th()
            ok, d = isinstance(r, Phase), type(r).__name__
        except Exception as e:
            ok, d = False, repr(e)
        out.append(('D5', dict(expr=inp), ok, d))
    for th, inp in ((lambda: -Phase(0.25j), '-Phase(0.25j)'), (lambda: Phase(0.25j) + Phase(0.25j), 'Phase(0.25j) + Phase(0.25j)'),
                    (lambda: Phase(0.25j) * 2, 'Phase(0.25j) * 2')):                                  # D6b
        try:
            r = th()
            ok, d = isinstance(r, Phase) and bool(r.imaginary), type(r).__name__
        except Exception as e:
            ok, d = False, repr(e)
        out.append(('D6b', dict(expr=inp), ok, d))
    try:                                                              # D19: i * i = -1
        r = Phase(1000j, 0.25j) * 1j
        v = float(r['int'].value) + float(r['frac'].value)
        out.append(('D19', dict(expr='Phase(1000j, 0.25j) * 1j'), (not r.imaginary) and v == -1000.25, f'{v!r} imaginary={bool(r.imaginary)}'))
    except Exception as e:
        out.append(('D19', dict(expr='Phase(1000j, 0.25j) * 1j'), False, repr(e)))
    return out


def c15():
    from pulsarbat.pulsar.phase import Phase
    out = []
    for s, want, imag in (('0.5', 0.5, False), ('-0.18e-2', -0.0018, False), ('0.0', 0.0, False), ('5', 5.0, False), ('1e3', 1000.0, False),
                          ('1.7E-3', 0.0017, False), ('6.73689510973282118d0', 6.73689510973282118, False), ('1.0j', 1.0, True)):   # D6 D7 D15 D6b
        try:
            p = Phase.from_string(s)
            v = complex(p['int'].value) + complex(p['frac'].value)
            v = v.imag if p.imaginary else v.real
            ok, d = abs(v - want) <= 2.0 ** -52 * max(1.0, abs(want)) and bool(p.imaginary) == imag, f'{v!r} imaginary={bool(p.imaginary)}'
        except Exception as e:
            ok, d = False, repr(e)
        out.append(('D6/D7/D15', dict(string=s), ok, d))
    for big in (2 ** 40 + 3, -(2 ** 40 + 3), 2 ** 51 - 5):                   # D26: neighbouring fractions keep their order
        for steps in range(6):
            f0 = 0.4999999
            for _ in range(steps):
                f0 = math.nextafter(f0, math.inf)
            fs = [math.nextafter(f0, math.inf), f0]
            p = Phase(np.array([float(big), float(big)]), np.array(fs))
            o = [int(i) for i in p.argsort()]
            q = p.sort()
            ok = o == [1, 0] and float(q['frac'].value[0]) == fs[1] and float(q['frac'].value[1]) == fs[0]
            out.append(('D26', dict(count=big, fractions=[f.hex() for f in fs]), ok, f'argsort {o}'))
    for p, prec, want in ((Phase(3.2), 1, '3.2'), (Phase(3.2), 0, '3'), (Phase(-217, 0), 0, '-217'), (Phase(-217, 0), 1, '-217.0')):     # D8 D8b
        try:
            r = p.to_string(precision=prec)
            ok, d = r == want, r
        except Exception as e:
            ok, d = False, repr(e)
        out.append(('D8', dict(value=str(p), precision=prec), ok, d))
    return out


def c08():
    import io, pulsarbat as pb
    txt = ('0000+00     1-Jan-20  000000.00   58849.00000000000            10.000000 -0.000 -6.000\n'
           '   123456789.250000      1.500000000000    0   60    1  1400.000\n'
           '  1.00000000000000000D-01\n')
    try:                                                              # D14: NCOEFF = 1
        p = pb.PhasePredictor.from_polyco(io.StringIO(txt))
        ph = p(Time(58849.0, format='mjd', precision=9))
        v = float(ph['int'].value) + float(ph['frac'].value)
        ok, d = abs(v - 123456789.35) < 1e-6, repr(v)
    except Exception as e:
        ok, d = False, repr(e)
    out = [('D14', dict(ncoeff=1), ok, d)]
    # D27: the same instant given in TT / TAI is evaluated from the entry whose span contains it (two entries with a gap between them)
    two = ('PSRX      1-Jan-20  000000.00   58849.00000000000            10.000000 -0.000 -6.000\n'
           '   100000000.250000      2.000000000000    0   60    3  1400.000\n'
           '  1.00000000000000000D-01  2.00000000000000000D-03  3.00000000000000000D-06\n'
           'PSRX      1-Jan-20  000000.00   58849.50000000000            10.000000 -0.000 -6.000\n'
           '   100086400.750000      2.000000000000    0   60    3  1400.000\n'
           ' -1.00000000000000000D-01  5.00000000000000000D-03 -3.00000000000000000D-06\n')
    try:
        p = pb.PhasePredictor.from_polyco(io.StringIO(two))
        t = Time(58849.0, format='mjd', precision=9) + 29.5 * u.min          # 30 s before the end of the first span
        for sc in ('tt', 'tai'):
            a, b = p(t), p(getattr(t, sc))
            dv = float((b - a).value)
            fa, fb = p.f0(t).value, p.f0(getattr(t, sc)).value
            out.append(('D27', dict(scale=sc, t='tmid + 29.5 min'), abs(dv) < 1e-8 and abs(fa - fb) < 1e-12, f'phase difference {dv!r}, f0 {fa!r} vs {fb!r}'))
    except Exception as e:
        out.append(('D27', dict(scale='tt/tai'), False, repr(e)))
    return out


def c10():
    import pulsarbat as pb
    z = _sig('IntensitySignal', (8, 4), np.float64, center_freq=400 * u.MHz, chan_bw=1 * u.kHz, sample_rate=1 * u.kHz)
    a, b = z[:4], z[4:]
    b = type(b).like(b, center_freq=b.center_freq + 1 * u.kHz)      # D18: labels one whole channel off
    try:
        pb.concatenate([a, b])
        ok, d = False, 'pieces with channel labels one channel apart were joined'
    except ValueError as e:
        ok, d = True, repr(e)
    return [('D18', dict(chan_bw='1 kHz', center='400 MHz', offset='one channel'), ok, d)]


def c14():
    import pulsarbat as pb
    z = _sig('BasebandSignal', (8, 4), np.complex128)
    before = np.asarray(z.data).tobytes()
    pb.contrib.istft(z, nperseg=4)                                   # D3
    return [('D3', dict(op='istft', nperseg=4), np.asarray(z.data).tobytes() == before, 'input buffer unchanged')]


def c16():
    import pulsarbat as pb
    out = []
    for kw in (dict(freq_align=['center'], pol_type='linear'), dict(pol_type=['linear'])):      # D22
        try:
            _sig('DualPolarizationSignal', (4, 2, 2), np.complex128, **kw)
            ok, d = False, 'accepted'
        except ValueError as e:
            ok, d = True, 'ValueError'
        except Exception as e:
            ok, d = False, repr(e)
        out.append(('D22', {k: repr(v) for k, v in kw.items()}, ok, d))
    try:                                                              # D23
        z = _sig('Signal', (0, 3))
        z.rechunk()
        ok, d = True, 'ok'
    except Exception as e:
        ok, d = False, repr(e)
    out.append(('D23', dict(op='rechunk', shape=[0, 3]), ok, d))
    return out


def c17():
    import pulsarbat as pb
    out = []
    z = _sig('Signal', (4,))
    try:                                                              # D4
        a = np.asarray(z, dtype=np.float32)
        ok, d = a.dtype == np.float32, str(a.dtype)
    except Exception as e:
        ok, d = False, repr(e)
    out.append(('D4', dict(expr='np.asarray(sig, dtype=float32)'), ok, d))
    s = _sig('Signal', (4, 2), np.complex128)
    b = _sig('BasebandSignal', (4, 2), np.complex128, sample_rate=2 * u.kHz)
    r = s + b                                                         # D9
    out.append(('D9', dict(expr='Signal + BasebandSignal'), type(r) is pb.Signal and r.sample_rate == s.sample_rate, type(r).__name__))
    return out


CORPUS = {'C03': c03, 'C04': c04, 'C07': c07, 'C08': c08, 'C10': c10, 'C14': c14, 'C15': c15, 'C16': c16, 'C17': c17}


def run(ctx):
    fn = CORPUS.get(ctx.prop)
    if fn is None:
        return
    try:
        cases = fn()
    except Exception as e:
        ctx.fail('regression:corpus_raised', dict(property=ctx.prop), impl=repr(e))
        return
    for did, inp, ok, detail in cases:
        ctx.count('corpus:' + did)
        ctx.seen(dict(corpus=did, **inp))
        if not ok:
            ctx.fail('regression:' + did, inp, impl=detail)
