(* Proofs/PhaseAddWide.v -- C07: Phase + Phase and Phase - Phase for the property's full range: operand counts up to 2^52, result count up to
   2^52 - 2 (the proofs of PhaseAdd / PhaseMore used the operand bound 2^51 - 1 only to bound the result). *)
From Coq Require Import ZArith Reals Psatz Floats.
From Flocq Require Import Core BinarySingleNaN PrimFloat.
From PB Require Import Proofs.TwoSumExact Model.Phase2 Proofs.Floor Proofs.DayFrac Proofs.DayFrac3 Proofs.DayFracTail Proofs.DayFracFold Proofs.PhaseAdd Proofs.PhaseMore.
Open Scope R_scope.

Notation fexp := (FLT_exp (-1074) 53).
Notation rnd := (round radix2 fexp ZnearestE).

Theorem phase_add_sound_wide (i1 f1 i2 f2 : PrimFloat.float) (k1 k2 : Z) :
  fin i1 -> fin f1 -> fin i2 -> fin f2 ->
  R_of i1 = IZR k1 -> R_of i2 = IZR k2 -> (Z.abs k1 <= 2 ^ 52)%Z -> (Z.abs k2 <= 2 ^ 52)%Z -> (Z.abs (k1 + k2) <= 2 ^ 52 - 2)%Z ->
  Rabs (R_of f1) <= / 2 -> Rabs (R_of f2) <= / 2 ->
  let '(d, f) := phase_add i1 f1 i2 f2 in
  fin d /\ fin f /\ (exists k : Z, R_of d = IZR k) /\
  Rabs (R_of d + R_of f - ((R_of i1 + R_of f1) + (R_of i2 + R_of f2))) <= bpow radix2 (-52) /\
  Rabs (R_of f) <= / 2.
Proof.
  intros Fi1 Ff1 Fi2 Ff2 E1 E2 K1 K2 K12 B1 B2. unfold phase_add.
  assert (P51 : bpow radix2 52 = IZR (2 ^ 52)) by (simpl; lra).
  assert (P53 : bpow radix2 53 = IZR (2 ^ 53)) by (simpl; lra).
  (* integer parts add exactly *)
  assert (HI : R_of (PrimFloat.add i1 i2) = IZR (k1 + k2) /\ fin (PrimFloat.add i1 i2)).
  { destruct (add_R i1 i2 Fi1 Fi2) as [E F].
    - rewrite E1, E2, <- plus_IZR, rnd_IZR by lia. apply Rlt_le_trans with (bpow radix2 53); [|apply bpow_le; lia].
      rewrite P53, <- abs_IZR. apply IZR_lt. lia.
    - rewrite E1, E2, <- plus_IZR, rnd_IZR in E by lia. split; assumption. }
  destruct HI as [EI FI].
  (* fractional parts: one rounding, at most 2^-54 *)
  apply Rabs_le_inv in B1. apply Rabs_le_inv in B2.
  assert (HF : R_of (PrimFloat.add f1 f2) = rnd (R_of f1 + R_of f2) /\ fin (PrimFloat.add f1 f2)).
  { apply add_R; try assumption. apply Rle_lt_trans with (bpow radix2 1); [|apply bpow_lt; lia].
    apply rnd_bound; [lia|]. simpl. apply Rabs_le. lra. }
  destruct HF as [EF FF].
  assert (Herr : Rabs (rnd (R_of f1 + R_of f2) - (R_of f1 + R_of f2)) <= bpow radix2 (-54)).
  { destruct (Rlt_or_le (Rabs (R_of f1 + R_of f2)) 1) as [Hlt|Hge].
    - apply (err_lt _ 0); [lia|exact Hlt].
    - assert (R_of f1 + R_of f2 = 1 \/ R_of f1 + R_of f2 = -1) as [-> | ->].
      { unfold Rabs in Hge. destruct (Rcase_abs (R_of f1 + R_of f2)); [right|left]; lra. }
      + rewrite (rnd_IZR 1) by (simpl; lia). rewrite Rminus_diag_eq, Rabs_R0 by reflexivity. apply bpow_ge_0.
      + rewrite (rnd_IZR (-1)) by (simpl; lia). rewrite Rminus_diag_eq, Rabs_R0 by reflexivity. apply bpow_ge_0. }
  assert (BF : Rabs (rnd (R_of f1 + R_of f2)) <= 1).
  { change 1 with (bpow radix2 0). apply rnd_bound; [lia|]. simpl. apply Rabs_le. lra. }
  pose proof (day_frac_sound (PrimFloat.add i1 i2) (PrimFloat.add f1 f2) FI FF) as H.
  rewrite EI, EF in H.
  assert (Hk : (Z.abs (k1 + k2) <= 2 ^ 52 - 2)%Z) by lia.
  assert (HkR : Rabs (IZR (k1 + k2)) <= IZR (2 ^ 52 - 2)) by (rewrite <- abs_IZR; apply IZR_le; exact Hk).
  rewrite minus_IZR in HkR. rewrite <- P51 in HkR.
  specialize (H ltac:(apply Rle_trans with (bpow radix2 52); [lra|apply bpow_le; lia])
                ltac:(apply Rle_trans with 1; [exact BF|change 1 with (bpow radix2 0); apply bpow_le; lia])
                ltac:(apply Rle_trans with (1:=Rabs_triang _ _); lra)).
  destruct (day_frac (PrimFloat.add i1 i2) (PrimFloat.add f1 f2)) as [d f].
  destruct H as (Fd & Ff & Hint & Hacc & Hnorm).
  split; [exact Fd|]. split; [exact Ff|]. split; [exact Hint|]. split; [|exact Hnorm].
  rewrite E1, E2.
  replace (R_of d + R_of f - (IZR k1 + R_of f1 + (IZR k2 + R_of f2)))
    with ((R_of d + R_of f - (IZR (k1 + k2) + rnd (R_of f1 + R_of f2))) + (rnd (R_of f1 + R_of f2) - (R_of f1 + R_of f2)))
    by (rewrite plus_IZR; ring).
  apply Rle_trans with (1:=Rabs_triang _ _).
  assert (bpow radix2 (-52) = bpow radix2 (-53) + 2 * bpow radix2 (-54)).
  { change (-52)%Z with (-53 + 1)%Z. change (-53)%Z with (-54 + 1)%Z at 1 2. rewrite !bpow_S. ring. }
  pose proof (bpow_ge_0 radix2 (-54)). lra.
Qed.

Theorem phase_sub_sound_wide (i1 f1 i2 f2 : PrimFloat.float) (k1 k2 : Z) :
  fin i1 -> fin f1 -> fin i2 -> fin f2 ->
  R_of i1 = IZR k1 -> R_of i2 = IZR k2 -> (Z.abs k1 <= 2 ^ 52)%Z -> (Z.abs k2 <= 2 ^ 52)%Z -> (Z.abs (k1 - k2) <= 2 ^ 52 - 2)%Z ->
  Rabs (R_of f1) <= / 2 -> Rabs (R_of f2) <= / 2 ->
  let '(d, f) := phase_sub i1 f1 i2 f2 in
  fin d /\ fin f /\ (exists k : Z, R_of d = IZR k) /\
  Rabs (R_of d + R_of f - ((R_of i1 + R_of f1) - (R_of i2 + R_of f2))) <= bpow radix2 (-52) /\
  Rabs (R_of f) <= / 2.
Proof.
  intros Fi1 Ff1 Fi2 Ff2 E1 E2 K1 K2 K12 B1 B2. unfold phase_sub.
  assert (P51 : bpow radix2 52 = IZR (2 ^ 52)) by (simpl; lra).
  assert (P53 : bpow radix2 53 = IZR (2 ^ 53)) by (simpl; lra).
  assert (HI : R_of (PrimFloat.sub i1 i2) = IZR (k1 - k2) /\ fin (PrimFloat.sub i1 i2)).
  { destruct (sub_R i1 i2 Fi1 Fi2) as [E F].
    - rewrite E1, E2, <- minus_IZR, rnd_IZR by lia. apply Rlt_le_trans with (bpow radix2 53); [|apply bpow_le; lia].
      rewrite P53, <- abs_IZR. apply IZR_lt. lia.
    - rewrite E1, E2, <- minus_IZR, rnd_IZR in E by lia. split; assumption. }
  destruct HI as [EI FI].
  apply Rabs_le_inv in B1. apply Rabs_le_inv in B2.
  assert (HF : R_of (PrimFloat.sub f1 f2) = rnd (R_of f1 - R_of f2) /\ fin (PrimFloat.sub f1 f2)).
  { apply sub_R; try assumption. apply Rle_lt_trans with (bpow radix2 1); [|apply bpow_lt; lia].
    apply rnd_bound; [lia|]. simpl. apply Rabs_le. lra. }
  destruct HF as [EF FF].
  assert (Herr : Rabs (rnd (R_of f1 - R_of f2) - (R_of f1 - R_of f2)) <= bpow radix2 (-54)).
  { destruct (Rlt_or_le (Rabs (R_of f1 - R_of f2)) 1) as [Hlt|Hge].
    - apply (err_lt _ 0); [lia|exact Hlt].
    - assert (R_of f1 - R_of f2 = 1 \/ R_of f1 - R_of f2 = -1) as [-> | ->].
      { unfold Rabs in Hge. destruct (Rcase_abs (R_of f1 - R_of f2)); [right|left]; lra. }
      + rewrite (rnd_IZR 1) by (simpl; lia). rewrite Rminus_diag_eq, Rabs_R0 by reflexivity. apply bpow_ge_0.
      + rewrite (rnd_IZR (-1)) by (simpl; lia). rewrite Rminus_diag_eq, Rabs_R0 by reflexivity. apply bpow_ge_0. }
  assert (BF : Rabs (rnd (R_of f1 - R_of f2)) <= 1).
  { change 1 with (bpow radix2 0). apply rnd_bound; [lia|]. simpl. apply Rabs_le. lra. }
  pose proof (day_frac_sound (PrimFloat.sub i1 i2) (PrimFloat.sub f1 f2) FI FF) as H.
  rewrite EI, EF in H.
  assert (Hk : (Z.abs (k1 - k2) <= 2 ^ 52 - 2)%Z) by lia.
  assert (HkR : Rabs (IZR (k1 - k2)) <= IZR (2 ^ 52 - 2)) by (rewrite <- abs_IZR; apply IZR_le; exact Hk).
  rewrite (minus_IZR (2 ^ 52) 2) in HkR. rewrite <- P51 in HkR.
  specialize (H ltac:(apply Rle_trans with (bpow radix2 52); [lra|apply bpow_le; lia])
                ltac:(apply Rle_trans with 1; [exact BF|change 1 with (bpow radix2 0); apply bpow_le; lia])
                ltac:(apply Rle_trans with (1:=Rabs_triang _ _); lra)).
  destruct (day_frac (PrimFloat.sub i1 i2) (PrimFloat.sub f1 f2)) as [d f].
  destruct H as (Fd & Ff & Hint & Hacc & Hnorm).
  split; [exact Fd|]. split; [exact Ff|]. split; [exact Hint|]. split; [|exact Hnorm].
  rewrite E1, E2.
  replace (R_of d + R_of f - (IZR k1 + R_of f1 - (IZR k2 + R_of f2)))
    with ((R_of d + R_of f - (IZR (k1 - k2) + rnd (R_of f1 - R_of f2))) + (rnd (R_of f1 - R_of f2) - (R_of f1 - R_of f2)))
    by (rewrite minus_IZR; ring).
  apply Rle_trans with (1:=Rabs_triang _ _).
  assert (bpow radix2 (-52) = bpow radix2 (-53) + 2 * bpow radix2 (-54)).
  { change (-52)%Z with (-53 + 1)%Z. change (-53)%Z with (-54 + 1)%Z at 1 2. rewrite !bpow_S. ring. }
  pose proof (bpow_ge_0 radix2 (-54)). lra.
Qed.
