(* Proofs/PolProofs.v -- C13 over R (polynomial identities modulo s*s = 2). *)
From Coq Require Import Reals Lra Psatz List String ZArith.
From PB Require Import Gen.GenConsts Model.Pol.
Import ListNotations.
Open Scope R_scope.

Section R.
  Variable s : R.
  Hypothesis s2 : s * s = 2.
  Lemma s_nz : s <> 0. Proof. intro H. rewrite H in s2. lra. Qed.

  Notation toC := (to_circ R Rplus Rminus Rdiv Ropp s).
  Notation toL := (to_lin R Rplus Rminus Rdiv Ropp s).
  Notation SL := (stokes_lin R Rplus Rminus Rmult Ropp 2).
  Notation SC := (stokes_circ R Rplus Rminus Rmult Ropp 2).
  Notation N2 := (nrm2 R Rplus Rmult).

  Ltac crush := cbv beta iota zeta delta [to_circ to_lin stokes_lin stokes_circ cdivr cadd csub cmul cconj imul nrm2 to_intensity fst snd].
  Lemma s_sq : s ^ 2 = 2. Proof. rewrite <- s2. ring. Qed.
  Ltac fin := (field_simplify_eq; [|exact s_nz]); rewrite ?s_sq; try ring; try nra.

  (* total power per sample is preserved *)
  Theorem unitary_circ x y : let '(l, r) := toC x y in N2 l + N2 r = N2 x + N2 y.
  Proof. destruct x as [xr xi], y as [yr yi]. crush. fin. Qed.
  Theorem unitary_lin l r : let '(x, y) := toL l r in N2 x + N2 y = N2 l + N2 r.
  Proof. destruct l as [lr li], r as [rr ri]. crush. fin. Qed.

  Lemma list4_eq (a b c d a' b' c' d' : R) : a = a' -> b = b' -> c = c' -> d = d' -> [a; b; c; d] = [a'; b'; c'; d'].
  Proof. intros -> -> -> ->. reflexivity. Qed.
  Lemma pair_eq {A B : Type} (a c : A) (b d : B) : a = c -> b = d -> (a, b) = (c, d).
  Proof. intros -> ->. reflexivity. Qed.

  Theorem lin_circ_inverse x y : let '(l, r) := toC x y in toL l r = (x, y).
  Proof. destruct x as [xr xi], y as [yr yi]. crush. repeat apply pair_eq; fin. Qed.
  Theorem circ_lin_inverse l r : let '(x, y) := toL l r in toC x y = (l, r).
  Proof. destruct l as [lr li], r as [rr ri]. crush. repeat apply pair_eq; fin. Qed.

  (* Stokes parameters are the same whichever basis they are computed from *)
  Theorem stokes_basis_independent x y : let '(l, r) := toC x y in SC l r = SL x y.
  Proof. destruct x as [xr xi], y as [yr yi]. crush. apply list4_eq; fin. Qed.

  (* documented formulas, fully polarised identity and positivity *)
  Theorem stokes_formulas xr xi yr yi :
    SL (xr, xi) (yr, yi) = [ (xr*xr + xi*xi) + (yr*yr + yi*yi); (xr*xr + xi*xi) - (yr*yr + yi*yi);
                             2 * (xr*yr + xi*yi); 2 * (xr*yi - xi*yr) ].
  Proof. crush. apply list4_eq; ring. Qed.
  Theorem stokes_IQUV x y : match SL x y with [si; sq; su; sv] => si * si = sq * sq + su * su + sv * sv /\ 0 <= si | _ => False end.
  Proof. destruct x as [xr xi], y as [yr yi]. crush. split; [ring|nra]. Qed.
  Theorem stokes_I_is_total_intensity x y : nth 0 (SL x y) 0 = to_intensity R Rplus Rmult x + to_intensity R Rplus Rmult y.
  Proof. reflexivity. Qed.
  Theorem stokes_I_circ l r : nth 0 (SC l r) 0 = to_intensity R Rplus Rmult l + to_intensity R Rplus Rmult r.
  Proof. reflexivity. Qed.
End R.

(* identity in the own basis (definitional) *)
Lemma to_linear_own T add sub div opp s a b : to_linear T add sub div opp s false a b = (a, b).
Proof. reflexivity. Qed.
Lemma to_circular_own T add sub div opp s a b : to_circular T add sub div opp s true a b = (a, b).
Proof. reflexivity. Qed.

(* the hypothesis is satisfiable: s = sqrt 2 *)
Lemma sqrt2_ok : sqrt 2 * sqrt 2 = 2.
Proof. apply sqrt_sqrt. lra. Qed.

(* component names (GENERATED table) *)
Lemma stokes_names : stokes_index "I" = Some 0%Z /\ stokes_index "Q" = Some 1%Z /\ stokes_index "U" = Some 2%Z /\
                     stokes_index "V" = Some 3%Z /\ stokes_index "X" = None.
Proof. repeat split; reflexivity. Qed.
