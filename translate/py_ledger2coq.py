"""Translator T4: the time bookkeeping of Signal._time_slice (core.py) -> Gallina (Gen/GenLedger.v).

The method is tiny and every crop / slice of the library funnels through it, so the model's arithmetic (Model/Ledger.time_slice) is tied
to the source by translation: the statements are read from the AST, their expressions are rendered as exact rational terms over the
ledger, and Proofs/LedgerGen.v proves that Model/Ledger.time_slice is built from exactly these generated terms.  A change of the source
arithmetic (another attribute of the slice, another operator, a dropped branch) changes the generated definitions and breaks that lemma.

Fail-closed: any statement or expression outside the expected shape raises Unsupported."""
import ast, pathlib, sys


class Unsupported(Exception):
    pass


def find_method(tree, cls, name):
    for n in tree.body:
        if isinstance(n, ast.ClassDef) and n.name == cls:
            for m in n.body:
                if isinstance(m, ast.FunctionDef) and m.name == name:
                    return m
    raise Unsupported(f'{cls}.{name} not found')


class Ex:
    """expression -> Coq term of type Q (numbers) ; names: self.sample_rate, self.start_time (inside the not-None branch), s.start/stop/step"""

    def __init__(self, sl, idx, start_var=None):
        self.sl, self.idx, self.start_var = sl, idx, start_var

    def q(self, n):
        if isinstance(n, ast.BinOp):
            op = {ast.Add: '+', ast.Sub: '-', ast.Mult: '*', ast.Div: '/'}.get(type(n.op))
            if op is None:
                raise Unsupported('operator ' + ast.dump(n.op))
            return f'({self.q(n.left)} {op} {self.q(n.right)})'
        if isinstance(n, ast.Attribute) and isinstance(n.value, ast.Name):
            if n.value.id == 'self' and n.attr == 'sample_rate':
                return 'rate l'
            if n.value.id == 'self' and n.attr == 'start_time':
                if self.start_var is None:
                    raise Unsupported('self.start_time used outside the "is not None" branch')
                return self.start_var
            if n.value.id == self.sl and n.attr in ('start', 'stop', 'step'):
                return 'inject_Z ' + {'start': 'lo', 'stop': 'hi', 'step': 'st'}[n.attr]
        if isinstance(n, ast.Constant) and isinstance(n.value, int) and not isinstance(n.value, bool):
            return f'inject_Z ({n.value})'
        raise Unsupported('expression ' + ast.dump(n))

    def zcmp(self, n):
        """s.<attr> > <int>  -> Coq bool on Z"""
        if isinstance(n, ast.Compare) and len(n.ops) == 1 and isinstance(n.ops[0], ast.Gt) and isinstance(n.left, ast.Attribute) \
           and isinstance(n.left.value, ast.Name) and n.left.value.id == self.sl and n.left.attr in ('start', 'stop', 'step') \
           and isinstance(n.comparators[0], ast.Constant) and isinstance(n.comparators[0].value, int):
            v = {'start': 'lo', 'stop': 'hi', 'step': 'st'}[n.left.attr]
            return f'({n.comparators[0].value} <? {v})'
        raise Unsupported('condition ' + ast.dump(n))


def generate(repo='/repo'):
    src = pathlib.Path(repo, 'pulsarbat', 'core.py').read_text()
    fn = find_method(ast.parse(src), 'Signal', '_time_slice')
    if [a.arg for a in fn.args.args] != ['self', 'index'] or fn.args.vararg or fn.args.kwarg or fn.args.kwonlyargs:
        raise Unsupported('signature of _time_slice')
    idx = 'index'
    body = [s for s in fn.body if not (isinstance(s, ast.Expr) and isinstance(s.value, ast.Constant) and isinstance(s.value.value, str))]
    # 1. s = slice(*index.indices(self.shape[0]))
    s0 = body[0]
    want = "Assign(targets=[Name(id='S', ctx=Store())], value=Call(func=Name(id='slice', ctx=Load()), args=[Starred(value=Call(func=Attribute(value=Name(id='index', ctx=Load()), attr='indices', ctx=Load()), args=[Subscript(value=Attribute(value=Name(id='self', ctx=Load()), attr='shape', ctx=Load()), slice=Constant(value=0), ctx=Load())], keywords=[]), ctx=Load())], keywords=[]))"
    if not (isinstance(s0, ast.Assign) and len(s0.targets) == 1 and isinstance(s0.targets[0], ast.Name)):
        raise Unsupported('first statement: ' + ast.dump(s0))
    sl = s0.targets[0].id
    if ast.dump(s0) != want.replace("'S'", repr(sl)):
        raise Unsupported('first statement is not  s = slice(*index.indices(self.shape[0])) : ' + ast.dump(s0))
    ex = Ex(sl, idx)
    # 2. assert s.step > 0
    s1 = body[1]
    if not isinstance(s1, ast.Assert):
        raise Unsupported('second statement: ' + ast.dump(s1))
    guard = ex.zcmp(s1.test)
    # 3. kw = dict()
    s2 = body[2]
    if not (isinstance(s2, ast.Assign) and len(s2.targets) == 1 and isinstance(s2.targets[0], ast.Name) and
            isinstance(s2.value, ast.Call) and isinstance(s2.value.func, ast.Name) and s2.value.func.id == 'dict' and not s2.value.args and not s2.value.keywords):
        raise Unsupported('third statement: ' + ast.dump(s2))
    kw = s2.targets[0].id
    rate_term, start_term = 'rate l', 't0 l'
    seen = set()
    for st in body[3:-1]:
        if not (isinstance(st, ast.If) and not st.orelse and len(st.body) == 1 and isinstance(st.body[0], ast.Assign)):
            raise Unsupported('statement: ' + ast.dump(st))
        a = st.body[0]
        t = a.targets[0]
        if not (len(a.targets) == 1 and isinstance(t, ast.Subscript) and isinstance(t.value, ast.Name) and t.value.id == kw and
                isinstance(t.slice, ast.Constant) and t.slice.value in ('sample_rate', 'start_time')):
            raise Unsupported('assignment target: ' + ast.dump(t))
        key = t.slice.value
        if key in seen:
            raise Unsupported('key assigned twice: ' + key)
        seen.add(key)
        if key == 'sample_rate':
            cond = ex.zcmp(st.test)
            rate_term = f'if {cond} then {ex.q(a.value)}%Q else rate l'
        else:
            c = st.test
            if not (isinstance(c, ast.Compare) and len(c.ops) == 1 and isinstance(c.ops[0], ast.IsNot) and isinstance(c.left, ast.Attribute) and
                    isinstance(c.left.value, ast.Name) and c.left.value.id == 'self' and c.left.attr == 'start_time' and
                    isinstance(c.comparators[0], ast.Constant) and c.comparators[0].value is None):
                raise Unsupported('start_time condition: ' + ast.dump(c))
            start_term = f'match t0 l with None => None | Some t => Some {Ex(sl, idx, "t").q(a.value)}%Q end'
    last = body[-1]
    if not (isinstance(last, ast.Return) and isinstance(last.value, ast.Name) and last.value.id == kw):
        raise Unsupported('last statement: ' + ast.dump(last))
    lines = ['(* GENERATED by translate/py_ledger2coq.py from Signal._time_slice (core.py) -- do not edit *)',
             'From Coq Require Import ZArith QArith Bool.', 'From PB Require Import Model.Ledger.', 'Open Scope Z_scope.',
             '(* lo hi st : the triple slice.indices(len) returns *)',
             f'Definition gen_ts_guard (lo hi st : Z) : bool := {guard}.',
             f'Definition gen_ts_rate (l : ledger) (lo hi st : Z) : Q := {rate_term}.',
             f'Definition gen_ts_start (l : ledger) (lo hi st : Z) : option Q := {start_term}.',
             f'(* keys set: {sorted(seen)} *)']
    return '\n'.join(lines) + '\n'


if __name__ == '__main__':
    sys.stdout.write(generate(sys.argv[1] if len(sys.argv) > 1 else '/repo'))
